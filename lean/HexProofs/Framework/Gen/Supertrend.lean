import HexProofs.Framework.Gen.BBands
/-
Family (3a): Supertrend – prior helpers ATR (with its TR helper) and HLA, and an own reading that
stores a data series (`<name>_data`: the ratcheted bands) and reads it back on the next candle.
-/
namespace Hex
set_option linter.unusedSectionVars false
variable {F : Type} [PyF F]

/-- the pure reading part of Supertrend: the bands to store and the reading -/
def stR (multiplier : Num F) (x : Ctx F) : PyM (Option (Val F) × PyM (Val F)) := do
  let atr ← x.reading (x.name ++ "_atr")
  if atr.isNone then
    return (none, .ok (sdict [("trend", .none), ("direction", sc (.int 1)), ("long", .none), ("short", .none)]))
  let a ← atr.asNum
  let hl ← x.num (x.name ++ "_HL")
  let mid := multiplier.mul a
  let mut upper := hl.add mid
  let mut lower := hl.sub mid
  let mut direction : Num F := .int 1
  let dLower := x.name ++ "_data.lower"
  let dUpper := x.name ++ "_data.upper"
  if ← x.prevExists dLower then
    let close ← x.num "close"
    let pu ← x.prevNum dUpper
    let pl ← x.prevNum dLower
    let pd ← x.prevReading (x.name ++ ".direction")
    let above := close.gt pu
    let below := close.lt pl
    if above && below then
      direction := if pd.isIntOne then .int (-1) else .int 1
    else if above then direction := .int 1
    else if below then direction := .int (-1)
    else
      direction ← x.prevNum (x.name ++ ".direction")
      if direction.eq (.int 1) && lower.lt pl then lower := pl
      if direction.eq (.int (-1)) && upper.gt pu then upper := pu
  let isUp := direction.eq (.int 1)
  let isDown := direction.eq (.int (-1))
  return (some (sdict [("upper", sc upper), ("lower", sc lower)]),
    .ok (sdict [("trend", sc (if isUp then lower else upper)), ("direction", sc direction),
                 ("long", if isUp then sc lower else .none),
                 ("short", if isDown then sc upper else .none)]))

theorem st_fact (D : String) (m : Num F) (cs : List (Candle F)) (i : Int) (name : String) :
    Calc.supertrend (dOps D i) { cs := cs, i := i, name := name } m = rwCalc D (stR m) name cs i := by
  unfold Calc.supertrend rwCalc stR dOps
  simp only [bind, Except.bind, pure, Except.pure]
  generalize ({ cs := cs, i := i, name := name } : Ctx F).reading (name ++ "_atr") = r1
  generalize ({ cs := cs, i := i, name := name } : Ctx F).num (name ++ "_HL") = r2
  generalize ({ cs := cs, i := i, name := name } : Ctx F).prevExists (name ++ "_data.lower") = r3
  generalize ({ cs := cs, i := i, name := name } : Ctx F).num "close" = r4
  generalize ({ cs := cs, i := i, name := name } : Ctx F).prevNum (name ++ "_data.upper") = r5
  generalize ({ cs := cs, i := i, name := name } : Ctx F).prevNum (name ++ "_data.lower") = r6
  generalize ({ cs := cs, i := i, name := name } : Ctx F).prevNum (name ++ ".direction") = r7
  generalize ({ cs := cs, i := i, name := name } : Ctx F).prevReading (name ++ ".direction") = r8
  rcases r1 with e | atr
  · rfl
  simp only
  by_cases hn : atr.isNone = true
  · simp only [hn, if_true]
  simp only [hn, Bool.false_eq_true, if_false]
  rcases atr.asNum with e | a
  · rfl
  rcases r2 with e | hl
  · rfl
  rcases r3 with e | b3
  · rfl
  cases b3
  · simp only [Bool.false_eq_true, if_false]
    try (rcases setReading true D cs i _ with e | cs1 <;> rfl)
  · simp only [if_true]
    rcases r4 with e | close
    · rfl
    rcases r5 with e | pu
    · rfl
    rcases r6 with e | pl
    · rfl
    rcases r8 with e | pd
    · rfl
    simp only
    split
    · simp only
      try (rcases setReading true D cs i _ with e | cs1 <;> rfl)
    · split
      · simp only
        try (rcases setReading true D cs i _ with e | cs1 <;> rfl)
      · split
        · simp only
          try (rcases setReading true D cs i _ with e | cs1 <;> rfl)
        · rcases r7 with e | dir
          · rfl
          simp only
          split <;> split <;> simp only <;> try (rcases setReading true D cs i _ with e | cs1 <;> rfl)

end Hex

namespace Hex
set_option linter.unusedSectionVars false
variable {F : Type} [PyF F]

theorem stR_trunc (m : Num F) (x : Ctx F) (h0 : 0 ≤ x.i) (hi : x.i < x.cs.length) :
    stR m x.trunc = stR m x := by
  unfold stR
  simp only [Ctx.trunc_name, Ctx.reading_trunc_cur x _ h0, Ctx.num_trunc_cur x _ h0,
    Ctx.prevExists_trunc x _ h0 hi, Ctx.prevNum_trunc x _ h0 hi, Ctx.prevReading_trunc x _ h0 hi]

theorem stR_congr (m : Num F) (x y : Ctx F) (hn : x.name = y.name)
    (ha : Ctx.SameCol (y.name ++ "_atr") x y) (hh : Ctx.SameCol (y.name ++ "_HL") x y)
    (hc : Ctx.SameCol "close" x y)
    (hpe : x.prevExists (y.name ++ "_data.lower") = y.prevExists (y.name ++ "_data.lower"))
    (hpl : x.prevNum (y.name ++ "_data.lower") = y.prevNum (y.name ++ "_data.lower"))
    (hpu : x.prevNum (y.name ++ "_data.upper") = y.prevNum (y.name ++ "_data.upper"))
    (hpr : x.prevReading (y.name ++ ".direction") = y.prevReading (y.name ++ ".direction")) :
    stR m x = stR m y := by
  have hpd : x.prevNum (y.name ++ ".direction") = y.prevNum (y.name ++ ".direction") := by
    unfold Ctx.prevNum; rw [hpr]
  unfold stR
  simp only [hn, hpe, hpl, hpu, hpd, hpr, Ctx.reading_congr ha, Ctx.num_congr hh, Ctx.num_congr hc]

theorem st_length (D : String) (m : Num F) (name : String) (cs : List (Candle F)) (i : Int)
    (v : Val F) (cs' : List (Candle F))
    (h : Calc.supertrend (dOps D i) { cs := cs, i := i, name := name } m = .ok (v, cs')) :
    cs'.length = cs.length := by
  rw [st_fact] at h
  unfold rwCalc at h
  cases hr : stR m { cs := cs, i := i, name := name } with
  | error e => rw [hr] at h; cases h
  | ok r =>
    obtain ⟨d, fin⟩ := r
    rw [hr] at h
    simp only [bind, Except.bind] at h
    cases d with
    | none =>
      simp only [pure, Except.pure] at h
      cases fin with
      | error e => cases h
      | ok w => simp only at h; cases h; rfl
    | some dv =>
      simp only at h
      cases hs : setReading true D cs i dv with
      | error e => rw [hs] at h; cases h
      | ok cs₁ =>
        rw [hs] at h
        simp only at h
        cases fin with
        | error e => cases h
        | ok w =>
          simp only [pure, Except.pure] at h
          cases h
          exact updateAt_length _ _ _ _ hs

/-- name conditions of a Supertrend node -/
structure StNames (name : String) : Prop where
  kA : IsKey (name ++ "_atr")
  kT : IsKey (name ++ "_atr" ++ "_TR")
  kH : IsKey (name ++ "_HL")
  lower : splitDot (name ++ "_data.lower") = [name ++ "_data", "lower"]
  upper : splitDot (name ++ "_data.upper") = [name ++ "_data", "upper"]
  dir : splitDot (name ++ ".direction") = [name, "direction"]
  nA : name ≠ name ++ "_atr"
  nT : name ≠ name ++ "_atr" ++ "_TR"
  nH : name ≠ name ++ "_HL"
  nD : name ≠ name ++ "_data"
  AT : name ++ "_atr" ≠ name ++ "_atr" ++ "_TR"
  AH : name ++ "_atr" ≠ name ++ "_HL"
  AD : name ++ "_atr" ≠ name ++ "_data"
  TH : name ++ "_atr" ++ "_TR" ≠ name ++ "_HL"
  TD : name ++ "_atr" ++ "_TR" ≠ name ++ "_data"
  HD : name ++ "_HL" ≠ name ++ "_data"

/-- **the own reading of Supertrend satisfies the tolerant data contract** -/
def stT (Z : Ind F) (p : Int) (input : String) (m : Num F) (hk : Z.kind = .supertrend p input m)
    (hn : StNames Z.name) : TDataContract Z (Z.name ++ "_data") where
  C := fun cs i => Calc.supertrend (dOps (Z.name ++ "_data") i) { cs := cs, i := i, name := Z.name } m
  R := stR m
  rkeys := [Z.name ++ "_atr", Z.name ++ "_HL"]
  fact := fun H c rest _ => st_fact _ m _ _ _
  loc := by
    intro H c rest
    rw [← trunc_append_cons H c rest]
    exact (stR_trunc m _ (by simp) (by simp)).symm
  val_sim := by
    intro H H' c c' hH hc
    have sA := sameCol_simL _ (Z.name ++ "_atr") (sees_key _ _ hn.kA (by simp)) hH hc Z.name
    have sH := sameCol_simL _ (Z.name ++ "_HL") (sees_key _ _ hn.kH (by simp)) hH hc Z.name
    have sC := sameCol_simL _ "close" (sees_attr _ _ noDot_close (by decide)) hH hc Z.name
    have sL := sameCol_simL _ (Z.name ++ "_data.lower") (sees_dotted _ _ _ _ hn.lower (by simp)) hH hc Z.name
    have sU := sameCol_simL _ (Z.name ++ "_data.upper") (sees_dotted _ _ _ _ hn.upper (by simp)) hH hc Z.name
    have sD := sameCol_simL _ (Z.name ++ ".direction") (sees_dotted _ _ _ _ hn.dir (by simp)) hH hc Z.name
    exact stR_congr m _ _ rfl sA sH sC (Ctx.prevExists_congr sL) (Ctx.prevNum_congr sL)
      (Ctx.prevNum_congr sU) (Ctx.prevReading_congr sD)
  stable := by
    intro H c w d
    refine stR_congr m _ _ rfl
      (sameCol_last _ H c _ Z.name (readingByCandle_outDS _ _ _ _
        (indep_key _ _ hn.kA hn.nA) (indep_key _ _ hn.kA hn.AD.symm) w d c))
      (sameCol_last _ H c _ Z.name (readingByCandle_outDS _ _ _ _
        (indep_key _ _ hn.kH hn.nH) (indep_key _ _ hn.kH hn.HD.symm) w d c))
      (sameCol_last _ H c _ Z.name (readingByCandle_outDS _ _ _ _
        (indep_attr _ _ noDot_close (by decide)) (indep_attr _ _ noDot_close (by decide)) w d c))
      ?_ ?_ ?_ ?_
    · rw [Ctx.prevExists_append_cons, Ctx.prevExists_append_cons]
    · rw [Ctx.prevNum_append_cons, Ctx.prevNum_append_cons]
    · rw [Ctx.prevNum_append_cons, Ctx.prevNum_append_cons]
    · rw [Ctx.prevReading_append_cons, Ctx.prevReading_append_cons]

theorem calcReading_st (Z : Ind F) (p : Int) (input : String) (m : Num F) (D : String)
    (hk : Z.kind = .supertrend p input m) (hm : Z.managed = [("ST_data", leaf .managed D)])
    (f : Nat) (cs : List (Candle F)) (i : Int) :
    calcReading (f + 3) Z cs i = Calc.supertrend (dOps D i) { cs := cs, i := i, name := Z.name } m := by
  rw [calcReading]
  unfold calcKind
  rw [hk]
  simp only
  unfold Calc.supertrend
  have hg : Z.getManaged "ST_data" = .ok (leaf .managed D) := by
    unfold Ind.getManaged; rw [hm]; simp [dlookup]
  have hset : ∀ (v : Val F) (cs : List (Candle F)),
      (do let m ← Z.getManaged "ST_data"; setManagedReading (f + 2) m cs i v) = setReading true D cs i v := by
    intro v cs
    rw [hg]
    simp only [bind, Except.bind]
    rw [setManagedReading]
    simp only [leaf, Ind.subs, Ind.isSub, Ind.name, calcSubs_nil, bind, Except.bind]
    cases setReading true D cs i v with
    | error e => rfl
    | ok cs' => simp only [calcSubs_nil]
  simp only [hset, dOps]

end Hex

namespace Hex
set_option linter.unusedSectionVars false
variable {F : Type} [PyF F]

section st
variable (name : String) (round : Nat) (p : Int) (input : String) (m : Num F)

def stP : Ind F := mkTop (.supertrend p input m) name round
def stA : Ind F := atrNode p (name ++ "_atr")
def stTr : Ind F := leaf .tr (name ++ "_atr" ++ "_TR")
def stH : Ind F := leaf .hla (name ++ "_HL")

theorem stP_name : (stP (F := F) name round p input m).name = name := mkTop_name _ _ _
theorem stA_name : (stA (F := F) name p).name = name ++ "_atr" := rfl
theorem stTr_name : (stTr (F := F) name).name = name ++ "_atr" ++ "_TR" := rfl
theorem stH_name : (stH (F := F) name).name = name ++ "_HL" := rfl
theorem stP_subs : (stP (F := F) name round p input m).subs = [stA name p, stH name] := rfl
theorem stA_subs : (stA (F := F) name p).subs = [stTr name] := rfl

def stC : List (Candle F) → Int → PyM (Val F × List (Candle F)) :=
  fun cs i => Calc.supertrend (dOps (name ++ "_data") i) { cs := cs, i := i, name := name } m

theorem stC_calc (f : Nat) (cs : List (Candle F)) (i : Int) :
    calcReading (f + 3) (stP (F := F) name round p input m) cs i = stC name m cs i := by
  have := calcReading_st (stP (F := F) name round p input m) p input m (name ++ "_data") (mkTop_kind _ _ _) rfl f cs i
  rw [this, stP_name]; rfl

theorem engineCalc_st (cs : List (Candle F)) :
    engineCalc (stP (F := F) name round p input m) cs = (do
      let c₁ ← leafCalc (stTr name) cs
      let c₂ ← leafCalc (stA name p) c₁
      let c₃ ← leafCalc (stH name) c₂
      Gen.nodeCalc (specWith (stP name round p input m) (stC name m)) c₃) := by
  unfold engineCalc fuelFor
  obtain ⟨f, hf⟩ : ∃ f, 16 + 2 * cs.length = f + 3 := ⟨13 + 2 * cs.length, by omega⟩
  rw [hf, calculate_succ, stP_subs, calcSubs_prior_two f _ _ rfl rfl,
      calculate_one_prior (stA name p) (stTr name) (stA_subs name p) rfl ⟨rfl, rfl, rfl⟩ rfl rfl (f + 2) cs
        (by omega)]
  simp only [bind, Except.bind]
  cases h1 : leafCalc (stTr (F := F) name) cs with
  | error e => rfl
  | ok c₁ =>
    simp only
    have l1 := leafCalc_length _ cs c₁ h1
    cases h2 : leafCalc (stA (F := F) name p) c₁ with
    | error e => rfl
    | ok c₂ =>
      simp only
      have l2 := leafCalc_length _ c₁ c₂ h2
      rw [calculate_leaf (stH name) ⟨rfl, rfl, rfl⟩ (f + 1) c₂ (by omega)]
      cases h3 : leafCalc (stH (F := F) name) c₂ with
      | error e => rfl
      | ok c₃ =>
        simp only
        have l3 := leafCalc_length _ c₂ c₃ h3
        rw [calcLoop_with (stP name round p input m) (stC name m) (stC_calc name round p input m) _ _ _ _ (by omega)]
        unfold Gen.nodeCalc
        have hnm : (specWith (stP (F := F) name round p input m) (stC name m)).name
            = (stP (F := F) name round p input m).name := rfl
        rw [hnm]
        cases Gen.nodeLoop (specWith (stP name round p input m) (stC name m)) c₃
            (findCalcIndex (stP (F := F) name round p input m).name c₃)
            (c₃.length - findCalcIndex (stP (F := F) name round p input m).name c₃) with
        | error e => rfl
        | ok c₄ => simp only [calcSubs_post_two f (stA name p) (stH name) rfl rfl]

variable (hp : 1 ≤ p) (hn : StNames name)

def stCompT : TComp F := leafComp (stTr name) (trT _ rfl)
def stCompA : TComp F := leafComp (stA name p) (atrOwnT _ p rfl hp hn.kA hn.kT hn.AT)
def stCompH : TComp F := leafComp (stH name) (hlaT _ rfl)
def stCompP : TComp F :=
  dataComp (stP name round p input m) ((stP (F := F) name round p input m).name ++ "_data")
    (stT _ p input m (mkTop_kind _ _ _) (by rw [stP_name]; exact hn))

def stComp : TComp F :=
  TComp.seq (TComp.seq (stCompT name) (stCompA name p hp hn))
    (TComp.seq (stCompH name) (stCompP name round p input m hn))

theorem stComp_law : TComp.Law (stComp (F := F) name round p input m hp hn) := by
  unfold stComp
  refine TComp.seq_law (TComp.seq_law (leafComp_law _ _) (leafComp_law _ _) ?_)
    (TComp.seq_law (leafComp_law _ _) (dataComp_law _ _ _ (by rw [stP_name]; exact hn.nD)) ?_) ?_
  · constructor <;> intro k hk <;>
      simp [stCompT, stCompA, leafComp, trT, atrOwnT, stTr_name, stA_name] at hk ⊢ <;>
      rintro rfl <;>
      simp [hn.AT, hn.AT.symm] at hk
  · constructor <;> intro k hk <;>
      simp [stCompH, stCompP, leafComp, dataComp, hlaT, stH_name, stP_name] at hk ⊢ <;>
      constructor <;> rintro rfl <;>
      simp [hn.nH, hn.HD, hn.nH.symm, hn.HD.symm] at hk
  · constructor <;> intro k hk <;>
      simp [TComp.seq, stCompT, stCompA, stCompH, stCompP, leafComp, dataComp, trT, atrOwnT, hlaT, stTr_name,
        stA_name, stH_name, stP_name] at hk ⊢ <;>
      refine ⟨?_, ?_, ?_⟩ <;> rintro rfl <;>
      simp [hn.nA, hn.nT, hn.nH, hn.nD, hn.AT, hn.AH, hn.AD, hn.TH, hn.TD, hn.HD, hn.nA.symm, hn.nT.symm,
        hn.nH.symm, hn.nD.symm, hn.AT.symm, hn.AH.symm, hn.AD.symm, hn.TH.symm, hn.TD.symm, hn.HD.symm] at hk

theorem allNames_st : (stP (F := F) name round p input m).allNames
    = [name, name ++ "_atr", name ++ "_atr" ++ "_TR", name ++ "_HL", name ++ "_data"] := by
  simp [stP, mkTop, children, Ind.allNames_eq, atrNode, leaf, Ind.name, Ind.subs, Ind.managed]

/-- **Supertrend as a tree with a row-major spec.** -/
def stTree : TreeSpec (stP (F := F) name round p input m) :=
  TreeSpec.ofComp (stComp name round p input m hp hn) (stComp_law name round p input m hp hn)
    (fun c hc => (stComp_law name round p input m hp hn).raw_of c (fun k _ => hasKey_plain k c hc))
    (by
      intro k hk
      rw [allNames_st]
      simp [stComp, TComp.seq, stCompT, stCompA, stCompH, stCompP, leafComp, dataComp, stTr_name, stA_name,
        stH_name, stP_name] at hk ⊢
      rcases hk with h | h | h | h | h <;> simp [h])
    (by
      intro cs
      rw [engineCalc_st]
      show _ = (do
        let cs₁ ← (do let c ← leafCalc (stTr name) cs; leafCalc (stA name p) c)
        (do let c ← leafCalc (stH name) cs₁
            Gen.nodeCalc (specWith (stP name round p input m)
              (fun cs i => Calc.supertrend (dOps ((stP (F := F) name round p input m).name ++ "_data") i)
                { cs := cs, i := i, name := (stP (F := F) name round p input m).name } m)) c))
      cases leafCalc (stTr (F := F) name) cs with
      | error e => rfl
      | ok c₁ =>
        simp only [bind, Except.bind]
        rfl)

end st
end Hex

import HexProofs.Framework.Gen.RSI
/-
Family (2): a node with ONE prior leaf sub-indicator and a read-only own reading (ATR with its TR
helper).  `calculate()` first runs the helper's `calculate()` over the whole list (column-major),
then the node's own loop.  The helper reads only the bare candles (OHLCV), the node reads the
helper's key on the current candle and its own previous reading: the column-major pass equals the
row-major run of the pair (helper step at `i`, then own step at `i`).
-/
namespace Hex
set_option linter.unusedSectionVars false
variable {F : Type} [PyF F]

/-! ### a leaf-like component: one keyed write per index -/

/-- the reading of component `Z` for the candle `c` after the history `H` -/
def valOf (Z : Ind F) (H : List (Candle F)) (c : Candle F) : PyM (Val F) :=
  readKind Z.kind { cs := H ++ [c], i := H.length, name := Z.name }

/-- the candle with `Z`'s (rounded) reading stored -/
def decOf (Z : Ind F) (v : Val F) (c : Candle F) : Candle F := setKey Z.isSub Z.name (v.roundBy Z.round) c

/-- no look-ahead for component `Z`, on every list -/
def LocalAll (Z : Ind F) : Prop :=
  ∀ (H : List (Candle F)) (c : Candle F) (rest : List (Candle F)),
    readKind Z.kind { cs := H ++ c :: rest, i := H.length, name := Z.name } = valOf Z H c

theorem stepLeaf_loc (Z : Ind F) (hloc : LocalAll Z) (H : List (Candle F)) (c : Candle F) (rest : List (Candle F)) :
    stepLeaf Z (H ++ c :: rest) H.length = (do let v ← valOf Z H c; pure (H ++ decOf Z v c :: rest)) := by
  rw [stepLeaf_append_cons, hloc H c rest]; rfl

theorem rowStep_loc (Z : Ind F) (H : List (Candle F)) (c : Candle F) :
    rowStep Z H c = (do let v ← valOf Z H c; pure (H ++ [decOf Z v c])) := rowStep_eq Z H c

/-- the loop of a component over candles that do not hold a non-`None` reading of it -/
theorem leafLoop_run (Z : Ind F) (hloc : LocalAll Z) (R : List (Candle F)) :
    ∀ (H : List (Candle F)), (∀ r ∈ R, present Z.name r = false) →
      leafLoop Z (H ++ R) H.length R.length = rowMajorFrom Z H R := by
  induction R with
  | nil => intro H _; simp [leafLoop, rowMajorFrom_nil]
  | cons r R' ih =>
    intro H hp
    rw [List.length_cons, leafLoop, pyIndex_append_cons, rowMajorFrom_cons]
    simp only [bind, Except.bind, hp r (by simp), Bool.false_eq_true, if_false]
    rw [stepLeaf_loc Z hloc, rowStep_loc]
    cases valOf Z H r with
    | error e => rfl
    | ok v =>
      simp only [bind, Except.bind, pure, Except.pure]
      have := ih (H ++ [decOf Z v r]) (fun x hx => hp x (by simp [hx]))
      simpa using this

/-- `calculate()` of a component on `D ++ R`: `D` holds its key, `R` does not; when only candle 0
is done it is visited again and must be skipped or reproduced -/
theorem leafCalc_run (Z : Ind F) (hloc : LocalAll Z) (D R : List (Candle F))
    (hD : ∀ d ∈ D, hasKey Z.name d = true) (hR : ∀ r ∈ R, hasKey Z.name r = false)
    (hpR : ∀ r ∈ R, present Z.name r = false)
    (hd0 : ∀ d0, D = [d0] → present Z.name d0 = false → stepLeaf Z ([d0] ++ R) (0 : Nat) = .ok ([d0] ++ R)) :
    leafCalc Z (D ++ R) = rowMajorFrom Z D R := by
  unfold leafCalc
  rw [findCalcIndex_split Z.name D R hD hR]
  have : (D ++ R).length - D.length = R.length := by simp
  rw [this]
  exact leafLoop_run Z hloc R D hpR

/-! ### the pair -/

/-- a node `P` with exactly one prior leaf helper `X` -/
structure PriorPair (P X : Ind F) : Prop where
  subs : P.subs = [X]
  managed : P.managed = []
  readOnly : P.kind.readOnly = true
  top : P.isSub = false
  xleaf : IsLeaf X
  xsub : X.isSub = true
  xprior : X.prior = true
  ne : X.name ≠ P.name
  locX : LocalAll X
  locP : LocalAll P
  /-- the helper reads only the bare candles -/
  ignX : ∀ (H H' : List (Candle F)) (c c' : Candle F), H.map Candle.bare = H'.map Candle.bare →
    c.bare = c'.bare → valOf X H c = valOf X H' c'
  /-- the node's reading does not depend on its own entry on the current candle -/
  keyP : ∀ (H : List (Candle F)) (c : Candle F) (v w : Val F), Plain c →
    valOf P H (decOf P w (decOf X v c)) = valOf P H (decOf X v c)

/-- the row step of the pair: helper, then node -/
def pairSpec (P X : Ind F) : Gen.StepSpec F where
  name := P.name
  names := P.allNames
  step := fun cs i => do let cs₁ ← stepLeaf X cs i; stepLeaf P cs₁ i

variable {P X : Ind F}

theorem pairStep (h : PriorPair P X) (H : List (Candle F)) (c : Candle F) (rest : List (Candle F)) :
    (pairSpec P X).step (H ++ c :: rest) H.length = (do
      let v ← valOf X H c
      let w ← valOf P H (decOf X v c)
      pure (H ++ decOf P w (decOf X v c) :: rest)) := by
  show (do let cs₁ ← stepLeaf X (H ++ c :: rest) H.length; stepLeaf P cs₁ H.length) = _
  rw [stepLeaf_loc X h.locX]
  cases valOf X H c with
  | error e => rfl
  | ok v =>
    simp only [bind, Except.bind, pure, Except.pure]
    rw [stepLeaf_loc P h.locP]
    rfl

theorem bare_setKey (isSub : Bool) (name : String) (v : Val F) (c : Candle F) :
    (setKey isSub name v c).bare = c.bare := by
  cases isSub <;> rfl

theorem decOf_comm (h : PriorPair P X) (v w : Val F) (c : Candle F) :
    decOf X v (decOf P w c) = decOf P w (decOf X v c) := by
  unfold decOf
  rw [h.xsub, h.top]
  rfl

theorem decOf_idem (Z : Ind F) (v : Val F) (c : Candle F) : decOf Z v (decOf Z v c) = decOf Z v c := by
  unfold decOf; rw [setKey_setKey]

theorem allNames_pair (h : PriorPair P X) : P.allNames = [P.name, X.name] := by
  rw [Ind.allNames_eq, h.subs, h.managed]
  simp [allNames_leaf X h.xleaf]

theorem fin_pair (h : PriorPair P X) (v w : Val F) (c : Candle F) (hc : Plain c) :
    Gen.Fin (pairSpec P X) c (decOf P w (decOf X v c)) := by
  obtain ⟨hi, hs⟩ := hc
  refine ⟨by simp [decOf, bare_setKey], ?_, ?_, ?_⟩
  · show hasKey P.name _ = true
    exact hasKey_setKey _ _ _ _
  · intro p hp
    show p.1 ∈ P.allNames
    rw [allNames_pair h]
    simp [decOf, h.top, h.xsub, setKey, hi, dset] at hp
    subst hp; simp
  · intro p hp
    show p.1 ∈ P.allNames
    rw [allNames_pair h]
    simp [decOf, h.top, h.xsub, setKey, hs, dset] at hp
    subst hp; simp

/-- the step laws of the pair -/
def pairLaw (h : PriorPair P X) : Gen.StepLaw (pairSpec P X) where
  Inv := fun _ => True
  inv_nil := trivial
  Good := fun _ => True
  good_plain := fun _ _ => trivial
  local_ := by
    intro H c rest _ _
    rw [pairStep h H c rest, pairStep h H c []]
    cases valOf X H c with
    | error e => rfl
    | ok v =>
      simp only [bind, Except.bind]
      cases valOf P H (decOf X v c) with
      | error e => rfl
      | ok w => simp [pure, Except.pure]
  shape := by
    intro H c d _ hc hd
    rw [pairStep h H c []] at hd
    cases hv : valOf X H c with
    | error e => rw [hv] at hd; cases hd
    | ok v =>
      rw [hv] at hd
      simp only [bind, Except.bind] at hd
      cases hw : valOf P H (decOf X v c) with
      | error e => rw [hw] at hd; cases hd
      | ok w =>
        rw [hw] at hd
        simp only [pure, Except.pure] at hd
        cases hd
        exact ⟨_, rfl, fin_pair h v w c hc, trivial, trivial⟩
  idem := by
    intro H c c' _ hc hd
    rw [pairStep h H c []] at hd
    cases hv : valOf X H c with
    | error e => rw [hv] at hd; cases hd
    | ok v =>
      rw [hv] at hd
      simp only [bind, Except.bind] at hd
      cases hw : valOf P H (decOf X v c) with
      | error e => rw [hw] at hd; cases hd
      | ok w =>
        rw [hw] at hd
        simp only [pure, Except.pure] at hd
        have hc' : c' = decOf P w (decOf X v c) := by
          have := List.append_cancel_left (Except.ok.inj hd); simpa using this.symm
        subst hc'
        rw [pairStep h H _ []]
        have e1 : valOf X H (decOf P w (decOf X v c)) = .ok v := by
          rw [h.ignX H H _ c rfl (by simp [decOf, bare_setKey]), hv]
        rw [e1]
        simp only [bind, Except.bind]
        have e2 : decOf X v (decOf P w (decOf X v c)) = decOf P w (decOf X v c) := by
          rw [decOf_comm h, decOf_idem]
        rw [e2, h.keyP H c v w hc, hw]
        simp only [pure, Except.pure, decOf_idem]

/-! ### the engine on the pair -/

theorem calcSubs_prior_one (f : Nat) (X : Ind F) (hs : X.isSub = true) (hp : X.prior = true)
    (cs : List (Candle F)) :
    calcSubs (f + 2) [X] true none cs = calculate (f + 1) X cs := by
  rw [calcSubs]
  · have : X.priorCalc = true := by simp [Ind.priorCalc, hs, hp]
    simp only [this, beq_self_eq_true, if_true, bind, Except.bind]
    cases calculate (f + 1) X cs with
    | error e => rfl
    | ok cs' => simp only [calcSubs_nil]

theorem calcSubs_post_one (f : Nat) (X : Ind F) (hs : X.isSub = true) (hp : X.prior = true)
    (cs : List (Candle F)) : calcSubs (f + 2) [X] false none cs = .ok cs := by
  rw [calcSubs]
  · have : X.priorCalc = true := by simp [Ind.priorCalc, hs, hp]
    simp [this, bind, Except.bind, pure, Except.pure, calcSubs_nil]

/-- the engine on the pair: the helper's `calculate()` over the whole list, then the node's loop -/
theorem engineCalc_pair (h : PriorPair P X) (cs : List (Candle F)) :
    engineCalc P cs = (do
      let cs₁ ← leafCalc X cs
      calcLoop (fuelFor cs) P cs₁ (findCalcIndex P.name cs₁) (cs₁.length - findCalcIndex P.name cs₁)) := by
  unfold engineCalc
  rw [calculate_succ, h.subs]
  obtain ⟨f, hf⟩ : ∃ f, fuelFor cs = f + 2 := ⟨fuelFor cs - 2, by have := fuelFor_ge cs; omega⟩
  rw [hf, calcSubs_prior_one f X h.xsub h.xprior,
      calculate_leaf X h.xleaf (f + 1) cs (by have := fuelFor_ge cs; unfold fuelFor at hf; omega)]
  simp only [bind, Except.bind]
  cases leafCalc X cs with
  | error e => rfl
  | ok cs₁ =>
    simp only
    cases calcLoop (f + 2) P cs₁ (findCalcIndex P.name cs₁) (cs₁.length - findCalcIndex P.name cs₁) with
    | error e => rfl
    | ok cs₂ => simp only [calcSubs_post_one f X h.xsub h.xprior]

/-- the helper's run does not depend on reading entries of the history -/
theorem rowMajorFrom_ign (h : PriorPair P X) (R : List (Candle F)) :
    ∀ (H H' T : List (Candle F)), H.map Candle.bare = H'.map Candle.bare →
      rowMajorFrom X H R = .ok (H ++ T) → rowMajorFrom X H' R = .ok (H' ++ T) := by
  induction R with
  | nil =>
    intro H H' T _ hr
    rw [rowMajorFrom_nil] at hr ⊢
    have : T = [] := by
      have := Except.ok.inj hr
      simpa using (List.append_cancel_left (as := H) (bs := []) (cs := T) (by simpa using this)).symm
    rw [this]; simp
  | cons r R' ih =>
    intro H H' T hb hr
    rw [rowMajorFrom_cons, rowStep_loc] at hr ⊢
    rw [← h.ignX H H' r r hb rfl]
    cases hv : valOf X H r with
    | error e => rw [hv] at hr; cases hr
    | ok v =>
      rw [hv] at hr
      simp only [bind, Except.bind, pure, Except.pure] at hr ⊢
      obtain ⟨T', hT', _⟩ := rowMajorFrom_shape X R' _ _ hr
      have hT : T = decOf X v r :: T' := by
        have : H ++ T = H ++ (decOf X v r :: T') := by rw [hT']; simp
        exact List.append_cancel_left this
      rw [hT] at hr ⊢
      have := ih (H ++ [decOf X v r]) (H' ++ [decOf X v r]) T' (by simp [hb]) (by simpa using hr)
      simpa using this

/-- **Column-major = row-major for the pair**: running the helper over all new candles and then
the node over all of them returns iff the interleaved run does, with the same candles. -/
theorem cm_iff (h : PriorPair P X) (R : List (Candle F)) :
    ∀ (H out : List (Candle F)),
      (∃ T, rowMajorFrom X H R = .ok (H ++ T) ∧ rowMajorFrom P H T = .ok out) ↔
        Gen.rowMajorFrom (pairSpec P X) H R = .ok out := by
  induction R with
  | nil =>
    intro H out
    constructor
    · rintro ⟨T, h1, h2⟩
      rw [rowMajorFrom_nil] at h1
      have : T = [] := by
        have := Except.ok.inj h1
        simpa using (List.append_cancel_left (as := H) (bs := []) (cs := T) (by simpa using this)).symm
      subst this
      simpa [Gen.rowMajorFrom_nil, rowMajorFrom_nil] using h2
    · intro hb
      exact ⟨[], by simp [rowMajorFrom_nil], by simpa [Gen.rowMajorFrom_nil, rowMajorFrom_nil] using hb⟩
  | cons r R' ih =>
    intro H out
    rw [Gen.rowMajorFrom_cons]
    have hstep : Gen.rowStep (pairSpec P X) H r = (do
        let v ← valOf X H r
        let w ← valOf P H (decOf X v r)
        pure (H ++ [decOf P w (decOf X v r)])) := pairStep h H r []
    rw [hstep]
    constructor
    · rintro ⟨T, h1, h2⟩
      rw [rowMajorFrom_cons, rowStep_loc] at h1
      cases hv : valOf X H r with
      | error e => rw [hv] at h1; cases h1
      | ok v =>
        rw [hv] at h1
        simp only [bind, Except.bind, pure, Except.pure] at h1 ⊢
        obtain ⟨T', hT', _⟩ := rowMajorFrom_shape X R' _ _ h1
        have hT : T = decOf X v r :: T' := by
          have : H ++ T = H ++ (decOf X v r :: T') := by rw [hT']; simp
          exact List.append_cancel_left this
        subst hT
        rw [rowMajorFrom_cons, rowStep_loc] at h2
        cases hw : valOf P H (decOf X v r) with
        | error e => rw [hw] at h2; cases h2
        | ok w =>
          rw [hw] at h2
          simp only [bind, Except.bind, pure, Except.pure] at h2 ⊢
          refine (ih (H ++ [decOf P w (decOf X v r)]) out).1 ⟨T', ?_, h2⟩
          have := rowMajorFrom_ign h R' (H ++ [decOf X v r]) (H ++ [decOf P w (decOf X v r)]) T'
            (by simp [decOf, bare_setKey]) (by simpa using h1)
          exact this
    · intro hb
      cases hv : valOf X H r with
      | error e => rw [hv] at hb; cases hb
      | ok v =>
        rw [hv] at hb
        simp only [bind, Except.bind] at hb
        cases hw : valOf P H (decOf X v r) with
        | error e => rw [hw] at hb; cases hb
        | ok w =>
          rw [hw] at hb
          simp only [pure, Except.pure] at hb
          obtain ⟨T', h1, h2⟩ := (ih (H ++ [decOf P w (decOf X v r)]) out).2 hb
          refine ⟨decOf X v r :: T', ?_, ?_⟩
          · rw [rowMajorFrom_cons, rowStep_loc, hv]
            simp only [bind, Except.bind, pure, Except.pure]
            have := rowMajorFrom_ign h R' (H ++ [decOf P w (decOf X v r)]) (H ++ [decOf X v r]) T'
              (by simp [decOf, bare_setKey]) h1
            simpa using this
          · rw [rowMajorFrom_cons, rowStep_loc, hw]
            simpa [bind, Except.bind, pure, Except.pure] using h2

/-! ### the refinement for the pair -/

/-- a finished candle of the pair -/
def PairDone (P X : Ind F) (c d : Candle F) : Prop := ∃ v w, d = decOf P w (decOf X v c)

theorem pair_decor (h : PriorPair P X) (R : List (Candle F)) :
    ∀ (H out : List (Candle F)), Gen.rowMajorFrom (pairSpec P X) H R = .ok out →
      ∃ T, out = H ++ T ∧ List.Forall₂ (PairDone P X) R T := by
  induction R with
  | nil =>
    intro H out hr
    rw [Gen.rowMajorFrom_nil] at hr; cases hr
    exact ⟨[], by simp, List.Forall₂.nil⟩
  | cons r R' ih =>
    intro H out hr
    rw [Gen.rowMajorFrom_cons] at hr
    have hstep : Gen.rowStep (pairSpec P X) H r = (do
        let v ← valOf X H r
        let w ← valOf P H (decOf X v r)
        pure (H ++ [decOf P w (decOf X v r)])) := pairStep h H r []
    rw [hstep] at hr
    cases hv : valOf X H r with
    | error e => rw [hv] at hr; cases hr
    | ok v =>
      rw [hv] at hr
      simp only [bind, Except.bind] at hr
      cases hw : valOf P H (decOf X v r) with
      | error e => rw [hw] at hr; cases hr
      | ok w =>
        rw [hw] at hr
        simp only [pure, Except.pure] at hr
        obtain ⟨T, hT, hd⟩ := ih _ out hr
        exact ⟨decOf P w (decOf X v r) :: T, by rw [hT]; simp, List.Forall₂.cons ⟨v, w, rfl⟩ hd⟩

theorem pairDone_facts (h : PriorPair P X) (c d : Candle F) (hc : Plain c) (hd : PairDone P X c d) :
    hasKey X.name d = true ∧ hasKey P.name d = true ∧ present X.name d = false := by
  obtain ⟨v, w, rfl⟩ := hd
  obtain ⟨hi, hs⟩ := hc
  refine ⟨?_, hasKey_setKey _ _ _ _, ?_⟩
  · unfold decOf
    rw [h.top, h.xsub]
    simp [hasKey, dhas, setKey, dlookup_dset_self]
  · unfold decOf present
    rw [h.top, h.xsub]
    simp [setKey, hi, dset, dlookup, Ne.symm h.ne]

theorem xdone_facts (h : PriorPair P X) (r t : Candle F) (hr : Plain r)
    (ht : ∃ v, t = setKey X.isSub X.name v r) :
    hasKey P.name t = false ∧ present P.name t = false := by
  obtain ⟨v, rfl⟩ := ht
  obtain ⟨hi, hs⟩ := hr
  rw [h.xsub]
  constructor
  · simp [hasKey, dhas, setKey, hi, hs, dset, dlookup, h.ne]
  · simp [present, setKey, hi]

theorem forall₂_mem_right {α β : Type} {R : α → β → Prop} {a : List α} {b : List β}
    (h : List.Forall₂ R a b) : ∀ y ∈ b, ∃ x ∈ a, R x y := by
  induction h with
  | nil => intro y hy; cases hy
  | cons hxy _ ih =>
    intro y hy
    rcases List.mem_cons.1 hy with rfl | hy
    · exact ⟨_, by simp, hxy⟩
    · obtain ⟨x, hx, hr⟩ := ih y hy
      exact ⟨x, by simp [hx], hr⟩

/-- **The engine on the pair refines the row-major spec of the pair.** -/
theorem pair_engine (h : PriorPair P X) (raw₁ raw₂ done out : List (Candle F))
    (h₁ : Gen.rowMajor (pairSpec P X) raw₁ = .ok done) (hp₁ : ∀ c ∈ raw₁, Plain c)
    (hp₂ : ∀ c ∈ raw₂, Plain c) :
    engineCalc P (done ++ raw₂) = .ok out ↔ Gen.rowMajor (pairSpec P X) (raw₁ ++ raw₂) = .ok out := by
  rw [Gen.rowMajor_append, h₁]
  simp only [bind, Except.bind]
  rw [← cm_iff h raw₂ done out]
  obtain ⟨T0, hT0, hdec⟩ := pair_decor h raw₁ [] done h₁
  simp only [List.nil_append] at hT0
  subst hT0
  have hfacts : ∀ d ∈ done, hasKey X.name d = true ∧ hasKey P.name d = true ∧ present X.name d = false := by
    intro d hd
    obtain ⟨c, hc, hcd⟩ := forall₂_mem_right hdec d hd
    exact pairDone_facts h c d (hp₁ c hc) hcd
  -- the single finished candle, if there is exactly one
  have hd0 : ∀ d0, done = [d0] → ∃ c0 v w, Plain c0 ∧ d0 = decOf P w (decOf X v c0) ∧
      valOf X [] c0 = .ok v ∧ valOf P [] (decOf X v c0) = .ok w := by
    intro d0 hdone
    subst hdone
    cases hdec with
    | @cons c0 _ r0 _ hcd hrest =>
      cases hrest
      have hs := h₁
      unfold Gen.rowMajor at hs
      rw [Gen.rowMajorFrom_cons] at hs
      simp only [Gen.rowMajorFrom_nil] at hs
      have hstep : Gen.rowStep (pairSpec P X) [] c0 = (do
          let v ← valOf X [] c0
          let w ← valOf P [] (decOf X v c0)
          pure ([] ++ [decOf P w (decOf X v c0)])) := pairStep h [] c0 []
      rw [hstep] at hs
      cases hv : valOf X [] c0 with
      | error e => rw [hv] at hs; cases hs
      | ok v =>
        rw [hv] at hs
        simp only [bind, Except.bind] at hs
        cases hw : valOf P [] (decOf X v c0) with
        | error e => rw [hw] at hs; cases hs
        | ok w =>
          rw [hw] at hs
          simp only [pure, Except.pure, List.nil_append] at hs
          have : d0 = decOf P w (decOf X v c0) := by
            have := Except.ok.inj hs; simpa using this.symm
          exact ⟨c0, v, w, hp₁ c0 (by simp), this, hv, hw⟩
  -- the helper's pass
  have hX : leafCalc X (done ++ raw₂) = rowMajorFrom X done raw₂ := by
    apply leafCalc_run X h.locX done raw₂ (fun d hd => (hfacts d hd).1)
      (fun r hr => hasKey_plain _ r (hp₂ r hr)) (fun r hr => present_plain _ r (hp₂ r hr))
    intro d0 hdone _
    obtain ⟨c0, v, w, hc0, rfl, hv, _⟩ := hd0 d0 hdone
    have := stepLeaf_loc X h.locX [] (decOf P w (decOf X v c0)) raw₂
    simp only [List.nil_append, List.length_nil] at this
    rw [show ([decOf P w (decOf X v c0)] ++ raw₂) = decOf P w (decOf X v c0) :: raw₂ from rfl]
    rw [this, h.ignX [] [] _ c0 rfl (by simp [decOf, bare_setKey]), hv]
    simp only [bind, Except.bind, pure, Except.pure]
    rw [decOf_comm h, decOf_idem]
  rw [engineCalc_pair h, hX]
  -- the node's loop on the helper's output
  have hP : ∀ T, rowMajorFrom X done raw₂ = .ok (done ++ T) →
      calcLoop (fuelFor (done ++ raw₂)) P (done ++ T) (findCalcIndex P.name (done ++ T))
        ((done ++ T).length - findCalcIndex P.name (done ++ T)) = rowMajorFrom P done T := by
    intro T hT
    obtain ⟨T', hT', hdT⟩ := rowMajorFrom_shape X raw₂ done _ hT
    have : T' = T := List.append_cancel_left hT'.symm
    subst this
    have hlen : (done ++ T').length = (done ++ raw₂).length := by
      simp [(Decor.length_eq hdT)]
    rw [calcLoop_leaf P h.readOnly _ _ _ _ (by have := fuelFor_ge (done ++ raw₂); omega)]
    have hTf : ∀ t ∈ T', hasKey P.name t = false ∧ present P.name t = false := by
      intro t ht
      obtain ⟨r, hr, hrt⟩ := forall₂_mem_right hdT t ht
      exact xdone_facts h r t (hp₂ r hr) hrt
    show leafCalc P (done ++ T') = _
    apply leafCalc_run P h.locP done T' (fun d hd => (hfacts d hd).2.1)
      (fun t ht => (hTf t ht).1) (fun t ht => (hTf t ht).2)
    intro d0 hdone _
    obtain ⟨c0, v, w, hc0, rfl, _, hw⟩ := hd0 d0 hdone
    have := stepLeaf_loc P h.locP [] (decOf P w (decOf X v c0)) T'
    simp only [List.nil_append, List.length_nil] at this
    rw [show ([decOf P w (decOf X v c0)] ++ T') = decOf P w (decOf X v c0) :: T' from rfl]
    rw [this, h.keyP [] c0 v w hc0, hw]
    simp only [bind, Except.bind, pure, Except.pure, decOf_idem]
  constructor
  · intro he
    cases hL : rowMajorFrom X done raw₂ with
    | error e => rw [hL] at he; cases he
    | ok L =>
      rw [hL] at he
      simp only [bind, Except.bind] at he
      obtain ⟨T, hT, _⟩ := rowMajorFrom_shape X raw₂ done L hL
      subst hT
      rw [hP T hL] at he
      exact ⟨T, rfl, he⟩
  · rintro ⟨T, hT, hout⟩
    rw [hT]
    simp only [bind, Except.bind]
    rw [hP T hT]
    exact hout

/-- **A node with one prior leaf helper is a `TreeSpec`.** -/
def TreeSpec.ofPair (h : PriorPair P X) : TreeSpec P where
  S := pairSpec P X
  law := pairLaw h
  names_eq := rfl
  engine := fun raw₁ raw₂ done out h₁ hp₁ hp₂ => pair_engine h raw₁ raw₂ done out h₁ hp₁ hp₂

end Hex

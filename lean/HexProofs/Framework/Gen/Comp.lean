import HexProofs.Framework.Gen.ATR
/-
Tolerant components: the pieces of an indicator tree (a leaf helper, a data-series helper, a
node's own reading) as they run INSIDE a larger tree, i.e. on candles that also carry the keys
of other pieces.  A component reads the bare candle and the entries under its read keys, writes
under its write keys, and its engine pass (`calculate()` of the sub-tree, or the node's own loop)
is a row-major fold.  Components compose sequentially (`TComp.seq`): the column-major passes of a
node with prior sub-indicators equal the row-major run of the composed component.
-/
namespace Hex
set_option linter.unusedSectionVars false
variable {F : Type} [PyF F]

/-! ### indistinguishability and frames -/

/-- candles indistinguishable to a component that reads the bare candle and the entries under `keys` -/
def SimK (keys : List String) (a b : Candle F) : Prop :=
  a.bare = b.bare ∧ ∀ k ∈ keys, dlookup k a.inds = dlookup k b.inds ∧ dlookup k a.subs = dlookup k b.subs

theorem SimK.refl (keys : List String) (a : Candle F) : SimK keys a a := ⟨rfl, fun _ _ => ⟨rfl, rfl⟩⟩

theorem SimK.symm {keys : List String} {a b : Candle F} (h : SimK keys a b) : SimK keys b a :=
  ⟨h.1.symm, fun k hk => ⟨(h.2 k hk).1.symm, (h.2 k hk).2.symm⟩⟩

theorem SimK.trans {keys : List String} {a b c : Candle F} (h1 : SimK keys a b) (h2 : SimK keys b c) :
    SimK keys a c :=
  ⟨h1.1.trans h2.1, fun k hk => ⟨(h1.2 k hk).1.trans (h2.2 k hk).1, (h1.2 k hk).2.trans (h2.2 k hk).2⟩⟩

theorem SimK.mono {keys keys' : List String} {a b : Candle F} (hsub : ∀ k ∈ keys', k ∈ keys)
    (h : SimK keys a b) : SimK keys' a b := ⟨h.1, fun k hk => h.2 k (hsub k hk)⟩

/-- `c'` is `c` with entries changed only under `keys` -/
def FrameK (keys : List String) (c c' : Candle F) : Prop :=
  c'.bare = c.bare ∧ ∀ k, k ∉ keys → dlookup k c'.inds = dlookup k c.inds ∧ dlookup k c'.subs = dlookup k c.subs

theorem FrameK.sim {wkeys rkeys : List String} {c c' : Candle F} (h : FrameK wkeys c c')
    (hdis : ∀ k ∈ rkeys, k ∉ wkeys) : SimK rkeys c' c := ⟨h.1, fun k hk => h.2 k (hdis k hk)⟩

def SimL (keys : List String) (H H' : List (Candle F)) : Prop := List.Forall₂ (SimK keys) H H'

theorem SimL.refl (keys : List String) (H : List (Candle F)) : SimL keys H H := by
  induction H with
  | nil => exact List.Forall₂.nil
  | cons a r ih => exact List.Forall₂.cons (SimK.refl keys a) ih

theorem SimL.snoc {keys : List String} {H H' : List (Candle F)} {a b : Candle F} (h : SimL keys H H')
    (hab : SimK keys a b) : SimL keys (H ++ [a]) (H' ++ [b]) :=
  forall₂_append h (List.Forall₂.cons hab List.Forall₂.nil)

theorem SimL.mono {keys keys' : List String} {H H' : List (Candle F)} (hsub : ∀ k ∈ keys', k ∈ keys)
    (h : SimL keys H H') : SimL keys' H H' := by
  induction h with
  | nil => exact List.Forall₂.nil
  | cons hab _ ih => exact List.Forall₂.cons (hab.mono hsub) ih

theorem SimL.length_eq {keys : List String} {H H' : List (Candle F)} (h : SimL keys H H') :
    H.length = H'.length := by
  induction h with
  | nil => rfl
  | cons _ _ ih => simp [ih]

theorem hasKey_simK {keys : List String} {name : String} (hn : name ∈ keys) {a b : Candle F}
    (h : SimK keys a b) : hasKey name a = hasKey name b := by
  unfold hasKey dhas
  rw [(h.2 name hn).1, (h.2 name hn).2]

theorem present_simK {keys : List String} {name : String} (hn : name ∈ keys) {a b : Candle F}
    (h : SimK keys a b) : present name a = present name b := by
  unfold present
  rw [(h.2 name hn).1]

/-! ### components -/

/-- a piece of an indicator tree as it runs inside a larger tree -/
structure TComp (F : Type) [PyF F] where
  /-- the key `_find_calc_index` and the skip test of this piece's loop look at -/
  name : String
  ω : Type
  /-- what the piece computes for the candle `c` after the history `H` -/
  val : List (Candle F) → Candle F → PyM ω
  /-- how it stores it -/
  app : ω → Candle F → Candle F
  rkeys : List String
  wkeys : List String
  /-- the candles this piece has not processed yet (they may carry other pieces' keys) -/
  Raw : Candle F → Prop
  /-- histories this piece is finished with -/
  Settled : List (Candle F) → Prop
  /-- the engine's pass of this piece over a whole list -/
  pass : List (Candle F) → PyM (List (Candle F))

namespace TComp

def rowStep (Z : TComp F) (H : List (Candle F)) (r : Candle F) : PyM (List (Candle F)) := do
  let z ← Z.val H r
  pure (H ++ [Z.app z r])

def rowFrom (Z : TComp F) (H R : List (Candle F)) : PyM (List (Candle F)) := R.foldlM Z.rowStep H

theorem rowFrom_nil (Z : TComp F) (H : List (Candle F)) : Z.rowFrom H [] = .ok H := rfl

theorem rowFrom_cons (Z : TComp F) (H : List (Candle F)) (r : Candle F) (R : List (Candle F)) :
    Z.rowFrom H (r :: R) = (do let d ← Z.rowStep H r; Z.rowFrom d R) := by
  simp [rowFrom, List.foldlM_cons]

/-- the laws of a component -/
structure Law (Z : TComp F) : Prop where
  name_w : Z.name ∈ Z.wkeys
  app_frame : ∀ z c, FrameK Z.wkeys c (Z.app z c)
  app_key : ∀ z c, hasKey Z.name (Z.app z c) = true
  /-- every entry of the stored candle was there before or lies under a write key -/
  app_entries : ∀ z c, (∀ p ∈ (Z.app z c).inds, p ∈ c.inds ∨ p.1 ∈ Z.wkeys) ∧
    (∀ p ∈ (Z.app z c).subs, p ∈ c.subs ∨ p.1 ∈ Z.wkeys)
  /-- storing the same value on indistinguishable candles keeps them indistinguishable -/
  app_sim : ∀ keys z c c', SimK keys c c' → SimK keys (Z.app z c) (Z.app z c')
  raw_nokey : ∀ c, Z.Raw c → hasKey Z.name c = false
  /-- a candle without any of the write keys is raw -/
  raw_of : ∀ c, (∀ k ∈ Z.wkeys, hasKey k c = false) → Z.Raw c
  /-- the value depends only on the bare candles and the entries under the read keys -/
  val_sim : ∀ H H' c c', SimL Z.rkeys H H' → SimK Z.rkeys c c' → Z.val H c = Z.val H' c'
  /-- recomputing a finished candle gives the same value … -/
  stable : ∀ H c z, Z.Raw c → Z.val H c = .ok z → Z.val H (Z.app z c) = .ok z
  /-- … and storing it again changes nothing, whatever other pieces stored meanwhile -/
  absorb : ∀ z c d, Z.Raw c → SimK Z.wkeys d (Z.app z c) → Z.app z d = d
  settled_nil : Z.Settled []
  settled_step : ∀ H r z, Z.Settled H → Z.Raw r → Z.val H r = .ok z → Z.Settled (H ++ [Z.app z r])
  settled_sim : ∀ H H', Z.Settled H → SimL (Z.rkeys ++ Z.wkeys) H H' → Z.Settled H'
  /-- the engine pass over a settled history followed by raw candles is the row-major fold -/
  pass_iff : ∀ H R out, Z.Settled H → (∀ r ∈ R, Z.Raw r) →
    (Z.pass (H ++ R) = .ok out ↔ Z.rowFrom H R = .ok out)

theorem app_bare {Z : TComp F} (L : Law Z) (z : Z.ω) (c : Candle F) : (Z.app z c).bare = c.bare :=
  (L.app_frame z c).1

/-- the output of a row-major fold: the history followed by stored versions of the raw candles -/
theorem rowFrom_shape (Z : TComp F) (R : List (Candle F)) :
    ∀ (H out : List (Candle F)), Z.rowFrom H R = .ok out →
      ∃ T, out = H ++ T ∧ List.Forall₂ (fun r t => ∃ z, t = Z.app z r) R T := by
  induction R with
  | nil => intro H out h; rw [rowFrom_nil] at h; cases h; exact ⟨[], by simp, List.Forall₂.nil⟩
  | cons r R' ih =>
    intro H out h
    rw [rowFrom_cons] at h
    unfold rowStep at h
    cases hv : Z.val H r with
    | error e => rw [hv] at h; cases h
    | ok z =>
      rw [hv] at h
      simp only [bind, Except.bind, pure, Except.pure] at h
      obtain ⟨T, hT, hd⟩ := ih _ out h
      exact ⟨Z.app z r :: T, by rw [hT]; simp, List.Forall₂.cons ⟨z, rfl⟩ hd⟩

theorem rowFrom_settled {Z : TComp F} (L : Law Z) (R : List (Candle F)) :
    ∀ (H out : List (Candle F)), Z.Settled H → (∀ r ∈ R, Z.Raw r) → Z.rowFrom H R = .ok out → Z.Settled out := by
  induction R with
  | nil => intro H out hs _ h; rw [rowFrom_nil] at h; cases h; exact hs
  | cons r R' ih =>
    intro H out hs hr h
    rw [rowFrom_cons] at h
    unfold rowStep at h
    cases hv : Z.val H r with
    | error e => rw [hv] at h; cases h
    | ok z =>
      rw [hv] at h
      simp only [bind, Except.bind, pure, Except.pure] at h
      exact ih _ out (L.settled_step H r z hs (hr r (by simp)) hv) (fun x hx => hr x (by simp [hx])) h

/-- the fold does not see entries outside the read keys of the history -/
theorem rowFrom_sim {Z : TComp F} (L : Law Z) (R : List (Candle F)) :
    ∀ (H H' T : List (Candle F)), SimL Z.rkeys H H' →
      Z.rowFrom H R = .ok (H ++ T) → Z.rowFrom H' R = .ok (H' ++ T) := by
  induction R with
  | nil =>
    intro H H' T _ hr
    rw [rowFrom_nil] at hr ⊢
    have : T = [] := by
      have := Except.ok.inj hr
      simpa using (List.append_cancel_left (as := H) (bs := []) (cs := T) (by simpa using this)).symm
    rw [this]; simp
  | cons r R' ih =>
    intro H H' T hs hr
    rw [rowFrom_cons] at hr ⊢
    unfold rowStep at hr ⊢
    rw [← L.val_sim H H' r r hs (SimK.refl _ r)]
    cases hv : Z.val H r with
    | error e => rw [hv] at hr; cases hr
    | ok z =>
      rw [hv] at hr
      simp only [bind, Except.bind, pure, Except.pure] at hr ⊢
      obtain ⟨T', hT', _⟩ := rowFrom_shape Z R' _ _ hr
      have hT : T = Z.app z r :: T' := by
        have : H ++ T = H ++ (Z.app z r :: T') := by rw [hT']; simp
        exact List.append_cancel_left this
      rw [hT] at hr ⊢
      have := ih (H ++ [Z.app z r]) (H' ++ [Z.app z r]) T' (hs.snoc (SimK.refl _ _)) (by simpa using hr)
      simpa using this

/-! ### sequential composition -/

/-- `X` first, then `Q` (which may read what `X` wrote): a node's prior helper followed by the
rest of the node -/
def seq (X Q : TComp F) : TComp F where
  name := Q.name
  ω := X.ω × Q.ω
  val := fun H c => do
    let x ← X.val H c
    let q ← Q.val H (X.app x c)
    pure (x, q)
  app := fun z c => Q.app z.2 (X.app z.1 c)
  rkeys := X.rkeys ++ Q.rkeys
  wkeys := X.wkeys ++ Q.wkeys
  Raw := fun c => X.Raw c ∧ hasKey Q.name c = false ∧ ∀ x, Q.Raw (X.app x c)
  Settled := fun H => X.Settled H ∧ Q.Settled H
  pass := fun cs => do let cs₁ ← X.pass cs; Q.pass cs₁

/-- the two pieces do not interfere: `X` neither reads nor writes what `Q` writes -/
structure SeqOK (X Q : TComp F) : Prop where
  dis_r : ∀ k ∈ X.rkeys, k ∉ Q.wkeys
  dis_w : ∀ k ∈ X.wkeys, k ∉ Q.wkeys

theorem frameK_trans {k1 k2 : List String} {a b c : Candle F} (h1 : FrameK k1 a b) (h2 : FrameK k2 b c) :
    FrameK (k1 ++ k2) a c :=
  ⟨h2.1.trans h1.1, fun k hk => by
    have hk1 : k ∉ k1 := fun h => hk (List.mem_append_left _ h)
    have hk2 : k ∉ k2 := fun h => hk (List.mem_append_right _ h)
    exact ⟨(h2.2 k hk2).1.trans (h1.2 k hk1).1, (h2.2 k hk2).2.trans (h1.2 k hk1).2⟩⟩

/-- column-major = row-major for two pieces -/
theorem cm_iff_seq {X Q : TComp F} (LX : Law X) (LQ : Law Q) (hok : SeqOK X Q) (R : List (Candle F)) :
    ∀ (H out : List (Candle F)),
      (∃ T, X.rowFrom H R = .ok (H ++ T) ∧ Q.rowFrom H T = .ok out) ↔ (seq X Q).rowFrom H R = .ok out := by
  induction R with
  | nil =>
    intro H out
    constructor
    · rintro ⟨T, h1, h2⟩
      rw [rowFrom_nil] at h1
      have : T = [] := by
        have := Except.ok.inj h1
        simpa using (List.append_cancel_left (as := H) (bs := []) (cs := T) (by simpa using this)).symm
      subst this
      simpa [rowFrom_nil] using h2
    · intro hb
      exact ⟨[], by simp [rowFrom_nil], by simpa [rowFrom_nil] using hb⟩
  | cons r R' ih =>
    intro H out
    have hstep : (seq X Q).rowStep H r = (do
        let x ← X.val H r
        let q ← Q.val H (X.app x r)
        pure (H ++ [Q.app q (X.app x r)])) := by
      unfold rowStep seq
      simp only [bind, Except.bind, pure, Except.pure]
      cases X.val H r with
      | error e => rfl
      | ok x =>
        simp only
        cases Q.val H (X.app x r) <;> rfl
    rw [rowFrom_cons (seq X Q), hstep]
    have hsimq : ∀ q x', SimL X.rkeys (H ++ [x']) (H ++ [Q.app q x']) := fun q x' =>
      (SimL.refl _ H).snoc ((LQ.app_frame q x').sim hok.dis_r).symm
    constructor
    · rintro ⟨T, h1, h2⟩
      rw [rowFrom_cons] at h1
      unfold rowStep at h1
      cases hv : X.val H r with
      | error e => rw [hv] at h1; cases h1
      | ok x =>
        rw [hv] at h1
        simp only [bind, Except.bind, pure, Except.pure] at h1 ⊢
        obtain ⟨T', hT', _⟩ := rowFrom_shape X R' _ _ h1
        have hT : T = X.app x r :: T' := by
          have : H ++ T = H ++ (X.app x r :: T') := by rw [hT']; simp
          exact List.append_cancel_left this
        subst hT
        rw [rowFrom_cons] at h2
        unfold rowStep at h2
        cases hw : Q.val H (X.app x r) with
        | error e => rw [hw] at h2; cases h2
        | ok q =>
          rw [hw] at h2
          simp only [bind, Except.bind, pure, Except.pure] at h2 ⊢
          refine (ih (H ++ [Q.app q (X.app x r)]) out).1 ⟨T', ?_, h2⟩
          exact rowFrom_sim LX R' _ _ T' (hsimq q _) (by simpa using h1)
    · intro hb
      cases hv : X.val H r with
      | error e => rw [hv] at hb; cases hb
      | ok x =>
        rw [hv] at hb
        simp only [bind, Except.bind] at hb
        cases hw : Q.val H (X.app x r) with
        | error e => rw [hw] at hb; cases hb
        | ok q =>
          rw [hw] at hb
          simp only [pure, Except.pure] at hb
          obtain ⟨T', h1, h2⟩ := (ih (H ++ [Q.app q (X.app x r)]) out).2 hb
          refine ⟨X.app x r :: T', ?_, ?_⟩
          · rw [rowFrom_cons]
            unfold rowStep
            rw [hv]
            simp only [bind, Except.bind, pure, Except.pure]
            have hs' : SimL X.rkeys (H ++ [Q.app q (X.app x r)]) (H ++ [X.app x r]) :=
              (SimL.refl _ H).snoc ((LQ.app_frame q _).sim hok.dis_r)
            have := rowFrom_sim LX R' _ _ T' hs' h1
            simpa using this
          · rw [rowFrom_cons]
            unfold rowStep
            rw [hw]
            simpa [bind, Except.bind, pure, Except.pure] using h2

theorem forall₂_mem_right' {α β : Type} {R : α → β → Prop} {a : List α} {b : List β}
    (h : List.Forall₂ R a b) : ∀ y ∈ b, ∃ x ∈ a, R x y := by
  induction h with
  | nil => intro y hy; cases hy
  | cons hxy _ ih =>
    intro y hy
    rcases List.mem_cons.1 hy with rfl | hy
    · exact ⟨_, by simp, hxy⟩
    · obtain ⟨x, hx, hr⟩ := ih y hy
      exact ⟨x, by simp [hx], hr⟩

/-- **The laws of a sequential composition.** -/
theorem seq_law {X Q : TComp F} (LX : Law X) (LQ : Law Q) (hok : SeqOK X Q) : Law (seq X Q) where
  name_w := List.mem_append_right _ LQ.name_w
  app_frame := fun z c => frameK_trans (LX.app_frame z.1 c) (LQ.app_frame z.2 _)
  app_key := fun z c => LQ.app_key z.2 _
  app_sim := fun keys z c c' h => LQ.app_sim keys z.2 _ _ (LX.app_sim keys z.1 c c' h)
  app_entries := by
    intro z c
    constructor
    · intro p hp
      rcases (LQ.app_entries z.2 _).1 p hp with h | h
      · rcases (LX.app_entries z.1 c).1 p h with h' | h'
        · exact Or.inl h'
        · exact Or.inr (List.mem_append_left _ h')
      · exact Or.inr (List.mem_append_right _ h)
    · intro p hp
      rcases (LQ.app_entries z.2 _).2 p hp with h | h
      · rcases (LX.app_entries z.1 c).2 p h with h' | h'
        · exact Or.inl h'
        · exact Or.inr (List.mem_append_left _ h')
      · exact Or.inr (List.mem_append_right _ h)
  raw_nokey := fun c h => h.2.1
  raw_of := by
    intro c hc
    refine ⟨LX.raw_of c (fun k hk => hc k (List.mem_append_left _ hk)),
      hc _ (List.mem_append_right _ LQ.name_w), ?_⟩
    intro x
    apply LQ.raw_of
    intro k hk
    have hkX : k ∉ X.wkeys := fun h => hok.dis_w k h hk
    have hf := (LX.app_frame x c).2 k hkX
    unfold hasKey dhas
    rw [hf.1, hf.2]
    exact hc k (List.mem_append_right _ hk)
  val_sim := by
    intro H H' c c' hs hc
    show (do let x ← X.val H c; let q ← Q.val H (X.app x c); pure (x, q)) =
      (do let x ← X.val H' c'; let q ← Q.val H' (X.app x c'); pure (x, q))
    have hsX : SimL X.rkeys H H' := hs.mono (fun k hk => List.mem_append_left _ hk)
    have hsQ : SimL Q.rkeys H H' := hs.mono (fun k hk => List.mem_append_right _ hk)
    rw [LX.val_sim H H' c c' hsX (hc.mono (fun k hk => List.mem_append_left _ hk))]
    cases X.val H' c' with
    | error e => rfl
    | ok x =>
      simp only [bind, Except.bind]
      rw [LQ.val_sim H H' _ _ hsQ (LX.app_sim _ x c c' (hc.mono (fun k hk => List.mem_append_right _ hk)))]
  stable := by
    intro H c z hraw hv
    obtain ⟨x, q⟩ := z
    change (do let x ← X.val H c; let q ← Q.val H (X.app x c); pure (x, q)) = .ok (x, q) at hv
    show (do let x' ← X.val H (Q.app q (X.app x c)); let q' ← Q.val H (X.app x' (Q.app q (X.app x c))); pure (x', q'))
      = .ok (x, q)
    cases hx : X.val H c with
    | error e => rw [hx] at hv; cases hv
    | ok x0 =>
      rw [hx] at hv
      simp only [bind, Except.bind] at hv
      cases hq : Q.val H (X.app x0 c) with
      | error e => rw [hq] at hv; cases hv
      | ok q0 =>
        rw [hq] at hv
        simp only [pure, Except.pure] at hv
        have hxq : (x0, q0) = (x, q) := Except.ok.inj hv
        cases hxq
        have h1 : X.val H (Q.app q (X.app x c)) = .ok x := by
          rw [LX.val_sim H H _ (X.app x c) (SimL.refl _ H) ((LQ.app_frame q _).sim hok.dis_r)]
          exact LX.stable H c x hraw.1 hx
        have h2 : X.app x (Q.app q (X.app x c)) = Q.app q (X.app x c) :=
          LX.absorb x c _ hraw.1 ((LQ.app_frame q _).sim hok.dis_w)
        rw [h1]
        simp only [bind, Except.bind]
        rw [h2, LQ.stable H _ q (hraw.2.2 x) hq]
        rfl
  absorb := by
    intro z c d hraw hd
    obtain ⟨x, q⟩ := z
    show Q.app q (X.app x d) = d
    have hdX : SimK X.wkeys d (X.app x c) :=
      (hd.mono (fun k hk => List.mem_append_left _ hk)).trans ((LQ.app_frame q _).sim hok.dis_w)
    rw [LX.absorb x c d hraw.1 hdX]
    exact LQ.absorb q _ d (hraw.2.2 x) (hd.mono (fun k hk => List.mem_append_right _ hk))
  settled_nil := ⟨LX.settled_nil, LQ.settled_nil⟩
  settled_step := by
    intro H r z hs hraw hv
    obtain ⟨x, q⟩ := z
    change (do let x ← X.val H r; let q ← Q.val H (X.app x r); pure (x, q)) = .ok (x, q) at hv
    cases hx : X.val H r with
    | error e => rw [hx] at hv; cases hv
    | ok x0 =>
      rw [hx] at hv
      simp only [bind, Except.bind] at hv
      cases hq : Q.val H (X.app x0 r) with
      | error e => rw [hq] at hv; cases hv
      | ok q0 =>
        rw [hq] at hv
        simp only [pure, Except.pure] at hv
        have hxq : (x0, q0) = (x, q) := Except.ok.inj hv
        cases hxq
        refine ⟨?_, LQ.settled_step H _ q hs.2 (hraw.2.2 x) hq⟩
        have h1 := LX.settled_step H r x hs.1 hraw.1 hx
        refine LX.settled_sim _ _ h1 ((SimL.refl _ H).snoc ?_)
        refine ((LQ.app_frame q _).sim ?_).symm
        intro k hk
        rcases List.mem_append.1 hk with h | h
        · exact hok.dis_r k h
        · exact hok.dis_w k h
  settled_sim := by
    intro H H' hs hsim
    exact ⟨LX.settled_sim H H' hs.1 (hsim.mono (fun k hk => by
        rcases List.mem_append.1 hk with h | h
        · exact List.mem_append_left _ (List.mem_append_left _ h)
        · exact List.mem_append_right _ (List.mem_append_left _ h))),
      LQ.settled_sim H H' hs.2 (hsim.mono (fun k hk => by
        rcases List.mem_append.1 hk with h | h
        · exact List.mem_append_left _ (List.mem_append_right _ h)
        · exact List.mem_append_right _ (List.mem_append_right _ h)))⟩
  pass_iff := by
    intro H R out hs hR
    rw [← cm_iff_seq LX LQ hok R H out]
    show (do let cs₁ ← X.pass (H ++ R); Q.pass cs₁) = .ok out ↔ _
    constructor
    · intro he
      cases hL : X.pass (H ++ R) with
      | error e => rw [hL] at he; cases he
      | ok L =>
        rw [hL] at he
        simp only [bind, Except.bind] at he
        have hrow := (LX.pass_iff H R L hs.1 (fun r hr => (hR r hr).1)).1 hL
        obtain ⟨T, hT, hdT⟩ := rowFrom_shape X R H L hrow
        subst hT
        have hTraw : ∀ t ∈ T, Q.Raw t := by
          intro t ht
          obtain ⟨r, hr, x, rfl⟩ := forall₂_mem_right' hdT t ht
          exact (hR r hr).2.2 x
        exact ⟨T, hrow, (LQ.pass_iff H T out hs.2 hTraw).1 he⟩
    · rintro ⟨T, h1, h2⟩
      have hL := (LX.pass_iff H R _ hs.1 (fun r hr => (hR r hr).1)).2 h1
      rw [hL]
      simp only [bind, Except.bind]
      obtain ⟨T', hT', hdT⟩ := rowFrom_shape X R H _ h1
      have : T' = T := List.append_cancel_left hT'.symm
      subst this
      have hTraw : ∀ t ∈ T', Q.Raw t := by
        intro t ht
        obtain ⟨r, hr, x, rfl⟩ := forall₂_mem_right' hdT t ht
        exact (hR r hr).2.2 x
      exact (LQ.pass_iff H T' out hs.2 hTraw).2 h2

/-! ### a whole tree as a component -/

/-- the row step of a component on a full list: read the history before `i`, store on candle `i` -/
def step (Z : TComp F) (cs : List (Candle F)) (i : Int) : PyM (List (Candle F)) :=
  if 0 ≤ i then do
    let c ← pyIndex cs i
    let z ← Z.val (cs.take i.toNat) c
    updateAt cs i (Z.app z)
  else .error .indexError

theorem step_shape (Z : TComp F) (H : List (Candle F)) (c : Candle F) (rest : List (Candle F)) :
    Z.step (H ++ c :: rest) H.length = (do let z ← Z.val H c; pure (H ++ Z.app z c :: rest)) := by
  unfold step
  have h0 : (0 : Int) ≤ (H.length : Int) := by omega
  simp only [h0, if_true, pyIndex_append_cons, bind, Except.bind]
  have : List.take ((H.length : Int)).toNat (H ++ c :: rest) = H := by
    rw [show ((H.length : Int)).toNat = H.length by omega]; simp
  rw [this]
  cases Z.val H c with
  | error e => rfl
  | ok z => simp only [updateAt_append_cons]; rfl

def spec (Z : TComp F) (names : List String) : Gen.StepSpec F where
  name := Z.name
  names := names
  step := Z.step

theorem rowStep_spec (Z : TComp F) (names : List String) (H : List (Candle F)) (r : Candle F) :
    Gen.rowStep (Z.spec names) H r = Z.rowStep H r := step_shape Z H r []

theorem rowFrom_spec (Z : TComp F) (names : List String) (H R : List (Candle F)) :
    Gen.rowMajorFrom (Z.spec names) H R = Z.rowFrom H R := by
  unfold Gen.rowMajorFrom rowFrom
  congr 1
  funext H r
  exact rowStep_spec Z names H r

/-- the step laws of a whole-tree component whose raw candles include the plain ones and whose
write keys are the tree's names -/
def stepLaw {Z : TComp F} (L : Law Z) (names : List String) (hplain : ∀ c, Plain c → Z.Raw c)
    (hnames : ∀ k ∈ Z.wkeys, k ∈ names) : Gen.StepLaw (Z.spec names) where
  Inv := Z.Settled
  inv_nil := L.settled_nil
  Good := fun _ => True
  good_plain := fun _ _ => trivial
  local_ := by
    intro H c rest _ _
    show Z.step (H ++ c :: rest) H.length = (do let d ← Z.step (H ++ [c]) H.length; pure (d ++ rest))
    rw [step_shape, step_shape]
    cases Z.val H c with
    | error e => rfl
    | ok z => simp [bind, Except.bind, pure, Except.pure]
  shape := by
    intro H c d hs hc hd
    change Z.step (H ++ [c]) H.length = .ok d at hd
    rw [step_shape] at hd
    cases hv : Z.val H c with
    | error e => rw [hv] at hd; cases hd
    | ok z =>
      rw [hv] at hd
      simp only [bind, Except.bind, pure, Except.pure] at hd
      cases hd
      refine ⟨Z.app z c, rfl, ⟨app_bare L z c, L.app_key z c, ?_, ?_⟩,
        L.settled_step H c z hs (hplain c hc) hv, trivial⟩
      · intro p hp
        rcases (L.app_entries z c).1 p hp with h | h
        · rw [hc.1] at h; cases h
        · exact hnames _ h
      · intro p hp
        rcases (L.app_entries z c).2 p hp with h | h
        · rw [hc.2] at h; cases h
        · exact hnames _ h
  idem := by
    intro H c c' hs hc hd
    change Z.step (H ++ [c]) H.length = .ok (H ++ [c']) at hd
    show Z.step (H ++ [c']) H.length = .ok (H ++ [c'])
    rw [step_shape] at hd ⊢
    cases hv : Z.val H c with
    | error e => rw [hv] at hd; cases hd
    | ok z =>
      rw [hv] at hd
      simp only [bind, Except.bind, pure, Except.pure] at hd
      have hc' : c' = Z.app z c := by
        have := List.append_cancel_left (Except.ok.inj hd); simpa using this.symm
      subst hc'
      rw [L.stable H c z (hplain c hc) hv]
      simp only [bind, Except.bind, pure, Except.pure]
      rw [L.absorb z c _ (hplain c hc) (SimK.refl _ _)]

end TComp

/-- **A tree whose engine is the pass of a lawful component is a `TreeSpec`.** -/
def TreeSpec.ofComp {ind : Ind F} (Z : TComp F) (L : TComp.Law Z) (hplain : ∀ c, Plain c → Z.Raw c)
    (hnames : ∀ k ∈ Z.wkeys, k ∈ ind.allNames) (hpass : ∀ cs, engineCalc ind cs = Z.pass cs) :
    TreeSpec ind where
  S := Z.spec ind.allNames
  law := TComp.stepLaw L ind.allNames hplain hnames
  names_eq := rfl
  engine := by
    intro raw₁ raw₂ done out h₁ hp₁ hp₂
    rw [Gen.rowMajor_append, h₁]
    simp only [bind, Except.bind]
    rw [TComp.rowFrom_spec, hpass]
    have hs : Z.Settled done :=
      (Gen.rowMajor_shape (TComp.stepLaw L ind.allNames hplain hnames) raw₁ done hp₁ h₁).2
    exact L.pass_iff done raw₂ out hs (fun r hr => hplain r (hp₂ r hr))

end Hex

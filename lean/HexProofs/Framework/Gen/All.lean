import HexProofs.Framework.Gen.RSI
import HexProofs.Framework.Gen.ATR
import HexProofs.Framework.Gen.KC
import HexProofs.Framework.Gen.BBands
import HexProofs.Framework.Gen.Supertrend
/-
All trees with a proved row-major spec, under one predicate: the leaf kinds (`Covered`), the
data-series kinds VWAP, STDEV, RSI, ATR (prior TR helper), KC (prior ATR tree + EMA), STDEVTHRES (prior STDEV data helper),
BBANDS (prior STDEV data helper + SMA) and Supertrend (prior ATR tree + HLA, own data series).
-/
namespace Hex
set_option linter.unusedSectionVars false
variable {F : Type} [PyF F]

/-- **Covered trees**: kinds `k` such that `mkTop k name round` refines a row-major spec. -/
inductive CoveredTree (name : String) : Kind F → Prop
  | leaf (k : Kind F) : Covered name k → CoveredTree name k
  | vwap (p : Int) : CoveredTree name (.vwap p)
  | stdev (p : Int) (input : String) : 0 ≤ p → AttrInput input → CoveredTree name (.stdev p input)
  | rsi (p : Int) (input : String) : 0 ≤ p → RsiNames name → AttrInput input → CoveredTree name (.rsi p input)
  | atr (p : Int) : 1 ≤ p → AtrNames name → CoveredTree name (.atr p)
  | kc (p : Int) (input : String) (m : Num F) : 1 ≤ p → KcNames name → AttrInput input →
      CoveredTree name (.kc p input m)
  | stdevthres (p : Int) (input : String) (m : Num F) : 0 ≤ p → ThresNames name → AttrInput input →
      CoveredTree name (.stdevthres p input m)
  | bbands (p : Int) (input : String) : 1 ≤ p → BbNames name → AttrInput input →
      CoveredTree name (.bbands p input)
  | supertrend (p : Int) (input : String) (m : Num F) : 1 ≤ p → StNames name →
      CoveredTree name (.supertrend p input m)

/-- kinds for which `calculate_index(i)` is exactly one row step at every index (for a tree with
a sub-indicator it is not: at index 0 the sub falls back to a full `calculate()`) -/
def indexStepKind : Kind F → Bool
  | .atr _ => false
  | .kc _ _ _ => false
  | .stdevthres _ _ _ => false
  | .bbands _ _ => false
  | .supertrend _ _ _ => false
  | _ => true

theorem CoveredTree.spec {name : String} {k : Kind F} (h : CoveredTree name k) (round : Nat) :
    ∃ T : TreeSpec (mkTop k name round), indexStepKind k = true → T.Full := by
  cases h with
  | leaf k hk =>
    obtain ⟨K⟩ := hk.contract round
    exact ⟨TreeSpec.ofLeaf _ (hk.isLeaf round) K, fun _ => ⟨indexIsStep_leaf _ (hk.isLeaf round) K, rfl⟩⟩
  | vwap p =>
    exact ⟨vwapTree name round p, fun _ => vwapTree_full name round p⟩
  | stdev p input hp hin =>
    exact ⟨stdevTree name round p input hp hin, fun _ => stdevTree_full name round p input hp hin⟩
  | rsi p input hp hn hin =>
    exact ⟨rsiTree name round p input hp hn hin, fun _ => rsiTree_full name round p input hp hn hin⟩
  | atr p hp hn =>
    exact ⟨atrTree name round p hp hn, fun h => by cases h⟩
  | kc p input m hp hn hin =>
    exact ⟨kcTree name round p input m hp hn hin, fun h => by cases h⟩
  | stdevthres p input m hp hn hin =>
    exact ⟨thresTree name round p input m hp hn hin, fun h => by cases h⟩
  | bbands p input hp hn hin =>
    exact ⟨bbTree name round p input hp hn hin, fun h => by cases h⟩
  | supertrend p input m hp hn =>
    exact ⟨stTree name round p input m hp hn, fun h => by cases h⟩

/-- the manager spec of a configuration: base timeframe, timeframe, timeframe + fill -/
def mgrSpecOf (F : Type) [PyF F] (tf : Option Int) (htf : ∀ t, tf = some t → 0 < t) (fill : Bool) : MgrSpec F :=
  match tf, htf with
  | none, _ => MgrSpec.base F
  | some t, h => if fill then MgrSpec.fill F t (h t rfl) else MgrSpec.tf F t (h t rfl)

theorem mgrSpecOf_cfg (tf : Option Int) (htf : ∀ t, tf = some t → 0 < t) (fill : Bool) :
    (mgrSpecOf F tf htf fill).cfg = { tf := tf, fill := fill && tf.isSome } := by
  cases tf with
  | none => cases fill <;> rfl
  | some t => cases fill <;> rfl

theorem mgrSpecOf_ok (tf : Option Int) (htf : ∀ t, tf = some t → 0 < t) (fill : Bool)
    (s : List (Candle F)) (h : RawTf s) : (mgrSpecOf F tf htf fill).Ok s := by
  cases tf with
  | none => exact h.plain
  | some t => cases fill <;> exact h

end Hex

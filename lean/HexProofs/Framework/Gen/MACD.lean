import HexProofs.Framework.Gen.All
/-
Family (3b): MACD – two prior leaf helpers (EMA_fast, EMA_slow) and a MANAGED leaf child (the
signal-line EMA over the dotted input `<name>.MACD`) that the node drives from inside its own
`_calculate_reading` with `calculate_index(i)`, after a temporary insert of `{"MACD": m}` under its
own key on the current candle.
-/
namespace Hex
set_option linter.unusedSectionVars false
variable {F : Type} [PyF F]

section macd
variable (name : String) (round : Nat) (fast slow signal : Int) (input : String)

/-- the MACD tree, its two prior helpers and its managed signal line -/
def macdP : Ind F := mkTop (.macd fast slow signal input) name round
def macdEf : Ind F := leaf (.ema fast input (fl 2)) (name ++ "_EMA_fast")
def macdEs : Ind F := leaf (.ema slow input (fl 2)) (name ++ "_EMA_slow")
def macdG : Ind F := leaf (.ema signal (name ++ ".MACD") (fl 2)) (name ++ "_signal_line")

theorem macdP_name : (macdP (F := F) name round fast slow signal input).name = name := mkTop_name _ _ _
theorem macdP_kind : (macdP (F := F) name round fast slow signal input).kind = .macd fast slow signal input :=
  mkTop_kind _ _ _
theorem macdEf_name : (macdEf (F := F) name fast input).name = name ++ "_EMA_fast" := rfl
theorem macdEs_name : (macdEs (F := F) name slow input).name = name ++ "_EMA_slow" := rfl
theorem macdG_name : (macdG (F := F) name signal).name = name ++ "_signal_line" := rfl
theorem macdP_subs : (macdP (F := F) name round fast slow signal input).subs
    = [macdEf name fast input, macdEs name slow input] := rfl
theorem macdP_managed : (macdP (F := F) name round fast slow signal input).managed
    = [("signal", macdG name signal)] := rfl
theorem macdP_isSub : (macdP (F := F) name round fast slow signal input).isSub = false := rfl
theorem macdP_round : (macdP (F := F) name round fast slow signal input).round = round := rfl

/-- the helper services of a MACD node at index `i`, without fuel: `calculate_index(i)` of the
managed signal line is one unconditional leaf step -/
def mOps (G : Ind F) (i : Int) : Ops F where
  setManaged := fun _ _ cs => .ok cs
  calcManaged := fun _ cs => stepLeaf G cs i

/-- the node's reading function as the engine runs it -/
def macdC : List (Candle F) → Int → PyM (Val F × List (Candle F)) :=
  fun cs i => Calc.macd (mOps (macdG name signal) i) { cs := cs, i := i, name := name }

theorem macdC_calc (f : Nat) (cs : List (Candle F)) (i : Int) :
    calcReading (f + 3) (macdP (F := F) name round fast slow signal input) cs i = macdC name signal cs i := by
  rw [calcReading]
  unfold calcKind
  rw [macdP_kind]
  simp only
  unfold macdC Calc.macd
  have hg : (macdP (F := F) name round fast slow signal input).getManaged "signal" = .ok (macdG name signal) := by
    unfold Ind.getManaged; rw [macdP_managed]; simp [dlookup]
  have hcalc : ∀ cs : List (Candle F),
      (do let m ← (macdP (F := F) name round fast slow signal input).getManaged "signal"
          calculateIndex (f + 2) m cs i (i + 1)) = stepLeaf (macdG name signal) cs i := by
    intro cs
    rw [hg]
    simp only [bind, Except.bind]
    rw [calculateIndex_leaf (macdG name signal) ⟨rfl, rfl, rfl⟩ (f + 2) cs i (i + 1) (by omega), pyRange_single]
    simp only [List.foldlM_cons, List.foldlM_nil, bind, Except.bind, pure, Except.pure]
    cases stepLeaf (macdG name signal) cs i <;> rfl
  simp only [hcalc, mOps, macdP_name]

/-- the engine on the MACD tree: the two helper passes, then the node's own loop -/
theorem engineCalc_macd (cs : List (Candle F)) :
    engineCalc (macdP (F := F) name round fast slow signal input) cs = (do
      let c₁ ← leafCalc (macdEf name fast input) cs
      let c₂ ← leafCalc (macdEs name slow input) c₁
      Gen.nodeCalc (specWith (macdP name round fast slow signal input) (macdC name signal)) c₂) := by
  unfold engineCalc fuelFor
  obtain ⟨f, hf⟩ : ∃ f, 16 + 2 * cs.length = f + 3 := ⟨13 + 2 * cs.length, by omega⟩
  rw [hf, calculate_succ, macdP_subs, calcSubs_prior_two f _ _ rfl rfl,
      calculate_leaf (macdEf name fast input) ⟨rfl, rfl, rfl⟩ (f + 2) cs (by omega)]
  simp only [bind, Except.bind]
  cases h1 : leafCalc (macdEf (F := F) name fast input) cs with
  | error e => rfl
  | ok c₁ =>
    simp only
    have l1 := leafCalc_length _ cs c₁ h1
    rw [calculate_leaf (macdEs name slow input) ⟨rfl, rfl, rfl⟩ (f + 1) c₁ (by omega)]
    cases h2 : leafCalc (macdEs (F := F) name slow input) c₁ with
    | error e => rfl
    | ok c₂ =>
      simp only
      have l2 := leafCalc_length _ c₁ c₂ h2
      rw [calcLoop_with (macdP name round fast slow signal input) (macdC name signal)
        (macdC_calc name round fast slow signal input) _ _ _ _ (by omega)]
      unfold Gen.nodeCalc
      have hnm : (specWith (macdP (F := F) name round fast slow signal input) (macdC name signal)).name
          = (macdP (F := F) name round fast slow signal input).name := rfl
      rw [hnm]
      cases Gen.nodeLoop (specWith (macdP name round fast slow signal input) (macdC name signal)) c₂
          (findCalcIndex (macdP (F := F) name round fast slow signal input).name c₂)
          (c₂.length - findCalcIndex (macdP (F := F) name round fast slow signal input).name c₂) with
      | error e => rfl
      | ok c₃ => simp only [calcSubs_post_two f (macdEf name fast input) (macdEs name slow input) rfl rfl]

end macd
end Hex

namespace Hex
set_option linter.unusedSectionVars false
variable {F : Type} [PyF F]

/-! ### the reading part -/

/-- the reading before the slow EMA exists -/
def macdNone : Val F := sdict [("MACD", .none), ("signal", .none), ("histogram", .none)]

/-- the final dict from the MACD value and the (rounded) signal-line reading; reads nothing -/
def macdFin (m : Num F) (sv : Val F) : PyM (Val F) := do
  let hist : Scalar F ← if sv.isNone then pure .none else do pure (sc (m.sub (← sv.asNum)))
  return sdict [("MACD", sc m), ("signal", ← Val.toScalar sv), ("histogram", hist)]

/-- the pure reading part of MACD: the signal-line reading to store (`none` while the slow EMA is
`None`) and the final dict.  The signal EMA is evaluated on the list whose CURRENT candle carries
the temporary unrounded `{"MACD": m}` under the node's key; earlier candles carry their final
(rounded) dicts. -/
def macdR (signal : Int) (x : Ctx F) : PyM (Option (Val F) × PyM (Val F)) := do
  let slow ← x.reading (x.name ++ "_EMA_slow")
  if slow.isNone then
    return (none, .ok macdNone)
  let m := (← x.num (x.name ++ "_EMA_fast")).sub (← slow.asNum)
  let cs ← updateAt x.cs x.i (setKey false x.name (sdict [("MACD", sc m)]))
  let v ← Calc.ema { cs := cs, i := x.i, name := x.name ++ "_signal_line" } signal (x.name ++ ".MACD") (fl 2)
  return (some (v.roundBy defaultRound), macdFin m (v.roundBy defaultRound))

/-- a name without a dot contains no `'.'` -/
theorem noDot_not_mem (s : String) (h : NoDot s) : '.' ∉ s.toList := by
  intro hm
  obtain ⟨as, bs, hl⟩ := List.append_of_mem hm
  unfold NoDot splitDot at h
  rw [hl, List.splitOn_append_cons_self] at h
  have l1 : 0 < (List.splitOn '.' as).length := List.length_pos_iff.2 (List.splitOn_ne_nil '.' as)
  have l2 : 0 < (List.splitOn '.' bs).length := List.length_pos_iff.2 (List.splitOn_ne_nil '.' bs)
  have := congrArg List.length h
  simp only [List.length_map, List.length_append, List.length_cons, List.length_nil] at this
  omega

/-- the dotted input of the signal line addresses the field `MACD` of the entry under `name` -/
theorem splitDot_macd (name : String) (h : NoDot name) : splitDot (name ++ ".MACD") = [name, "MACD"] := by
  have hm := noDot_not_mem name h
  unfold splitDot
  have e : (name ++ ".MACD").toList = name.toList ++ '.' :: "MACD".toList := by
    rw [String.toList_append]; rfl
  rw [e, List.splitOn_append_cons_self_of_not_mem hm, List.splitOn_eq_singleton (by decide)]
  simp

/-- name conditions of a MACD node: the node's name and the three helper names are ordinary keys
(no dot, not a candle attribute) and pairwise distinct -/
structure MacdNames (name : String) : Prop where
  kN : IsKey name
  kF : IsKey (name ++ "_EMA_fast")
  kS : IsKey (name ++ "_EMA_slow")
  kG : IsKey (name ++ "_signal_line")
  nF : name ≠ name ++ "_EMA_fast"
  nS : name ≠ name ++ "_EMA_slow"
  nG : name ≠ name ++ "_signal_line"
  FS : name ++ "_EMA_fast" ≠ name ++ "_EMA_slow"
  FG : name ++ "_EMA_fast" ≠ name ++ "_signal_line"
  SG : name ++ "_EMA_slow" ≠ name ++ "_signal_line"

theorem MacdNames.dot {name : String} (hn : MacdNames name) :
    splitDot (name ++ ".MACD") = [name, "MACD"] := splitDot_macd name hn.kN.noDot

theorem rbc_sig_self (N Ng : String) (hk : IsKey Ng) (hne : N ≠ Ng) (c : Candle F)
    (hno : dlookup Ng c.inds = none) (t sv : Val F) :
    readingByCandle (setKey true Ng sv (setKey false N t c)) Ng = sv := by
  rw [readingByCandle_key Ng hk]
  unfold lookupKey setKey
  simp [hno, dlookup_dset_self, dlookup_dset_ne _ _ _ _ hne]

theorem setKey_tmp (N Ng : String) (w t sv : Val F) (c : Candle F) :
    setKey false N w (setKey true Ng sv (setKey false N t c)) = setKey false N w (setKey true Ng sv c) := by
  simp [setKey, dset_dset_self]

theorem setKey_false_fun (N : String) (t : Val F) :
    (fun c : Candle F => { c with inds := dset N t c.inds }) = setKey false N t := by
  funext c; rfl

section step
variable (name : String) (round : Nat) (fast slow signal : Int) (input : String)

/-- one step of the node as the engine runs it = "read, store the signal line, finish" on
candles without a signal-line entry in `.indicators` -/
theorem macd_step (hn : MacdNames name) (H : List (Candle F)) (c : Candle F) (rest : List (Candle F))
    (hno : dlookup (name ++ "_signal_line") c.inds = none) :
    stepWith (macdP name round fast slow signal input) (macdC name signal) (H ++ c :: rest) H.length
      = stepWith (macdP name round fast slow signal input)
          (rwCalc (name ++ "_signal_line") (macdR signal) name) (H ++ c :: rest) H.length := by
  unfold stepWith macdC Calc.macd rwCalc macdR mOps
  simp only [Ctx.reading_cur, Ctx.num_cur, macdP_isSub, macdP_name, macdP_round, bind, Except.bind, pure,
    Except.pure, setKey_false_fun]
  generalize readingByCandle c (name ++ "_EMA_slow") = sl
  by_cases hs : sl.isNone = true
  · simp only [hs, if_true]
    rfl
  simp only [hs, Bool.false_eq_true, if_false]
  rcases (readingByCandle c (name ++ "_EMA_fast")).asNum with e | fa
  · rfl
  rcases sl.asNum with e | sn
  · rfl
  simp only [updateAt_append_cons, stepLeaf_append_cons]
  have hrk : ∀ x : Ctx F, readKind (macdG (F := F) name signal).kind x
      = Calc.ema x signal (name ++ ".MACD") (fl 2) := fun _ => rfl
  have hsub : (macdG (F := F) name signal).isSub = true := rfl
  have hrd : (macdG (F := F) name signal).round = defaultRound := rfl
  simp only [hrk, macdG_name, hsub, hrd]
  rcases Calc.ema _ signal (name ++ ".MACD") (fl 2) with e | v
  · rfl
  simp only [Ctx.reading_cur, setReading_eq, updateAt_append_cons, rbc_sig_self name _ hn.kG hn.nG c hno,
    bind, Except.bind, pure, Except.pure]
  unfold macdFin
  simp only [bind, Except.bind, pure, Except.pure]
  generalize Val.roundBy defaultRound v = sv
  by_cases hsn : sv.isNone = true
  · simp only [hsn, if_true]
    rcases sv.toScalar with e | s
    · rfl
    simp only [updateAt_append_cons, setKey_tmp]
  · simp only [hsn, Bool.false_eq_true, if_false]
    rcases sv.asNum with e | sn'
    · rfl
    rcases sv.toScalar with e | s
    · rfl
    simp only [updateAt_append_cons, setKey_tmp]

end step
end Hex

namespace Hex
set_option linter.unusedSectionVars false
variable {F : Type} [PyF F]

/-! ### the tolerant contract of the node's own step -/

theorem ema_loc (H : List (Candle F)) (c : Candle F) (rest : List (Candle F)) (nm : String) (p : Int)
    (inp : String) (sm : Num F) (hp : 1 ≤ p) :
    Calc.ema { cs := H ++ c :: rest, i := H.length, name := nm } p inp sm
      = Calc.ema { cs := H ++ [c], i := H.length, name := nm } p inp sm := by
  rw [← trunc_append_cons H c rest]
  exact (ema_trunc _ p inp sm (by simp) (by simp) hp).symm

/-- the dotted read `<name>.MACD` of a candle carrying the temporary (or any) entry under `name` in
`.indicators` -/
theorem rbc_tmp (N : String) (hdot : splitDot (N ++ ".MACD") = [N, "MACD"]) (t : Val F) (c : Candle F) :
    readingByCandle (setKey false N t c) (N ++ ".MACD") = t.nested "MACD" := by
  unfold readingByCandle
  rw [hdot]
  simp [setKey, dlookup_dset_self]

/-- **the own step of MACD satisfies the tolerant data contract** with the signal line as its
"data series" -/
def macdT (Z : Ind F) (signal : Int) (hsig : 1 ≤ signal) (hn : MacdNames Z.name) :
    TDataContract Z (Z.name ++ "_signal_line") where
  C := rwCalc (Z.name ++ "_signal_line") (macdR signal) Z.name
  R := macdR signal
  rkeys := [Z.name ++ "_EMA_fast", Z.name ++ "_EMA_slow"]
  fact := fun _ _ _ _ => rfl
  loc := by
    intro H c rest
    unfold macdR
    simp only [Ctx.reading_cur, Ctx.num_cur, updateAt_append_cons, bind, Except.bind, pure, Except.pure]
    generalize readingByCandle c (Z.name ++ "_EMA_slow") = sl
    by_cases hs : sl.isNone = true
    · simp only [hs, if_true]
    simp only [hs, Bool.false_eq_true, if_false]
    rcases (readingByCandle c (Z.name ++ "_EMA_fast")).asNum with e | fa
    · rfl
    rcases sl.asNum with e | sn
    · rfl
    simp only
    rw [ema_loc _ _ _ _ _ _ _ hsig]
  val_sim := by
    intro H H' c c' hH hc
    have eS := sees_key (F := F) (Z.name :: (Z.name ++ "_signal_line") :: [Z.name ++ "_EMA_fast", Z.name ++ "_EMA_slow"])
      (Z.name ++ "_EMA_slow") hn.kS (by simp) c c' hc
    have eF := sees_key (F := F) (Z.name :: (Z.name ++ "_signal_line") :: [Z.name ++ "_EMA_fast", Z.name ++ "_EMA_slow"])
      (Z.name ++ "_EMA_fast") hn.kF (by simp) c c' hc
    unfold macdR
    simp only [Ctx.reading_cur, Ctx.num_cur, updateAt_append_cons, bind, Except.bind, pure, Except.pure, eS, eF]
    generalize readingByCandle c' (Z.name ++ "_EMA_slow") = sl
    by_cases hs : sl.isNone = true
    · simp only [hs, if_true]
    simp only [hs, Bool.false_eq_true, if_false]
    rcases (readingByCandle c' (Z.name ++ "_EMA_fast")).asNum with e | fa
    · rfl
    rcases sl.asNum with e | sn
    · rfl
    simp only
    have hg := simK_setKey _ false Z.name (sdict [("MACD", sc (fa.sub sn))]) c c' hc
    have sM := sameCol_simL _ (Z.name ++ ".MACD") (sees_dotted _ _ Z.name "MACD" hn.dot (by simp)) hH hg
      (Z.name ++ "_signal_line")
    have sG := sameCol_simL _ (Z.name ++ "_signal_line") (sees_key _ _ hn.kG (by simp)) hH hg
      (Z.name ++ "_signal_line")
    rw [ema_congr _ _ signal (Z.name ++ ".MACD") (fl 2) sM (Ctx.prevExists_congr sG) (Ctx.prevNum_congr sG)]
  stable := by
    intro H c w d
    have eS := readingByCandle_outDS Z.isSub Z.name (Z.name ++ "_signal_line") (Z.name ++ "_EMA_slow")
      (indep_key _ _ hn.kS hn.nS) (indep_key _ _ hn.kS hn.SG.symm) w d c
    have eF := readingByCandle_outDS Z.isSub Z.name (Z.name ++ "_signal_line") (Z.name ++ "_EMA_fast")
      (indep_key _ _ hn.kF hn.nF) (indep_key _ _ hn.kF hn.FG.symm) w d c
    unfold macdR
    simp only [Ctx.reading_cur, Ctx.num_cur, updateAt_append_cons, bind, Except.bind, pure, Except.pure, eS, eF]
    generalize readingByCandle c (Z.name ++ "_EMA_slow") = sl
    by_cases hs : sl.isNone = true
    · simp only [hs, if_true]
    simp only [hs, Bool.false_eq_true, if_false]
    rcases (readingByCandle c (Z.name ++ "_EMA_fast")).asNum with e | fa
    · rfl
    rcases sl.asNum with e | sn
    · rfl
    simp only
    rw [ema_congr _ _ signal (Z.name ++ ".MACD") (fl 2)
      (sameCol_last (Z.name ++ ".MACD") H _ _ (Z.name ++ "_signal_line")
        ((rbc_tmp Z.name hn.dot _ _).trans (rbc_tmp Z.name hn.dot _ _).symm)) ?_ ?_]
    · rw [Ctx.prevExists_append_cons, Ctx.prevExists_append_cons]
    · rw [Ctx.prevNum_append_cons, Ctx.prevNum_append_cons]

end Hex

namespace Hex
set_option linter.unusedSectionVars false
variable {F : Type} [PyF F]

section comp
variable (name : String) (round : Nat) (fast slow signal : Int) (input : String)
  (hf : 1 ≤ fast) (hs : 1 ≤ slow) (hsig : 1 ≤ signal) (hn : MacdNames name)
  (hin : NoDot input ∧ input ∈ Candle.attrNames)

/-- the contract instance of the MACD node -/
def macdK : TDataContract (macdP (F := F) name round fast slow signal input)
    ((macdP (F := F) name round fast slow signal input).name ++ "_signal_line") :=
  macdT _ signal hsig (by rw [macdP_name]; exact hn)

/-- **the own step of the MACD node as a component**: value = (rounded signal-line reading to store
in `.sub_indicators`, if any; final dict), stored under `<name>_signal_line` and `<name>`; the pass is
the node loop of the engine (with the temporary insert and the managed `calculate_index`) -/
def macdCompP : TComp F :=
  { dataComp (macdP name round fast slow signal input)
      ((macdP (F := F) name round fast slow signal input).name ++ "_signal_line")
      (macdK name round fast slow signal input hsig hn) with
    pass := Gen.nodeCalc (specWith (macdP name round fast slow signal input) (macdC name signal)) }

/-- the loop of the node over raw candles is the row-major fold of the component -/
theorem nodeLoop_runM (R : List (Candle F)) :
    ∀ (H : List (Candle F)), (∀ r ∈ R, (macdCompP name round fast slow signal input hsig hn).Raw r) →
      Gen.nodeLoop (specWith (macdP name round fast slow signal input) (macdC name signal)) (H ++ R) H.length R.length
        = (macdCompP name round fast slow signal input hsig hn).rowFrom H R := by
  induction R with
  | nil => intro H _; simp [Gen.nodeLoop, TComp.rowFrom_nil]
  | cons r R' ih =>
    intro H hp
    have hr := hp r (by simp)
    have hrs : (macdCompP name round fast slow signal input hsig hn).rowStep H r = (do
        let z ← (macdCompP name round fast slow signal input hsig hn).val H r
        pure (H ++ [(macdCompP name round fast slow signal input hsig hn).app z r])) := rfl
    rw [List.length_cons, Gen.nodeLoop, pyIndex_append_cons, TComp.rowFrom_cons, hrs]
    have hpres : present (specWith (macdP (F := F) name round fast slow signal input) (macdC name signal)).name r
        = false := present_of_noKey _ r hr.1
    simp only [bind, Except.bind, hpres, Bool.false_eq_true, if_false]
    have hno : dlookup (name ++ "_signal_line") r.inds = none := by
      have := inds_of_noKey _ r hr.2
      rwa [macdP_name] at this
    have hstep : (specWith (macdP (F := F) name round fast slow signal input) (macdC name signal)).step
          (H ++ r :: R') H.length = (do
        let z ← (macdCompP name round fast slow signal input hsig hn).val H r
        pure (H ++ (macdCompP name round fast slow signal input hsig hn).app z r :: R')) := by
      show stepWith _ _ _ _ = _
      rw [macd_step name round fast slow signal input hn H r R' hno]
      have := stepWith_dataT (macdP (F := F) name round fast slow signal input) _
        (macdK name round fast slow signal input hsig hn) H r R' (inds_of_noKey _ r hr.2)
      exact this
    rw [hstep]
    cases hv : (macdCompP name round fast slow signal input hsig hn).val H r with
    | error e => rfl
    | ok z =>
      simp only [bind, Except.bind, pure, Except.pure]
      have := ih (H ++ [(macdCompP name round fast slow signal input hsig hn).app z r])
        (fun x hx => hp x (by simp [hx]))
      simpa using this

theorem macdCompP_law : TComp.Law (macdCompP (F := F) name round fast slow signal input hsig hn) :=
  have L := dataComp_law (macdP (F := F) name round fast slow signal input)
    ((macdP (F := F) name round fast slow signal input).name ++ "_signal_line")
    (macdK name round fast slow signal input hsig hn) (by rw [macdP_name]; exact hn.nG)
  { name_w := L.name_w
    app_frame := L.app_frame
    app_key := L.app_key
    app_entries := L.app_entries
    app_sim := L.app_sim
    raw_nokey := L.raw_nokey
    raw_of := L.raw_of
    val_sim := L.val_sim
    stable := L.stable
    absorb := L.absorb
    settled_nil := L.settled_nil
    settled_step := L.settled_step
    settled_sim := L.settled_sim
    pass_iff := by
      intro H R out hs hR
      have key : Gen.nodeCalc (specWith (macdP (F := F) name round fast slow signal input) (macdC name signal)) (H ++ R)
          = (macdCompP name round fast slow signal input hsig hn).rowFrom H R := by
        unfold Gen.nodeCalc
        have hnm : (specWith (macdP (F := F) name round fast slow signal input) (macdC name signal)).name
            = (macdP (F := F) name round fast slow signal input).name := rfl
        rw [hnm, findCalcIndex_split _ H R hs (fun r hr => (hR r hr).1)]
        have : (H ++ R).length - H.length = R.length := by simp
        rw [this]
        exact nodeLoop_runM name round fast slow signal input hsig hn R H hR
      show Gen.nodeCalc _ (H ++ R) = .ok out ↔ _
      rw [key] }

end comp
end Hex

namespace Hex
set_option linter.unusedSectionVars false
variable {F : Type} [PyF F]

section tree
variable (name : String) (round : Nat) (fast slow signal : Int) (input : String)
  (hf : 1 ≤ fast) (hs : 1 ≤ slow) (hsig : 1 ≤ signal) (hn : MacdNames name)
  (hin : NoDot input ∧ input ∈ Candle.attrNames)

/-- the two prior EMA helpers as components -/
def macdCompF : TComp F := leafComp (macdEf name fast input) (emaT _ fast input (fl 2) rfl hf hn.kF hin)
def macdCompS : TComp F := leafComp (macdEs name slow input) (emaT _ slow input (fl 2) rfl hs hn.kS hin)

/-- the whole MACD tree as a component: (EMA_fast; EMA_slow); MACD-own -/
def macdComp : TComp F :=
  TComp.seq (TComp.seq (macdCompF name fast input hf hn hin) (macdCompS name slow input hs hn hin))
    (macdCompP name round fast slow signal input hsig hn)

theorem macdComp_law : TComp.Law (macdComp (F := F) name round fast slow signal input hf hs hsig hn hin) := by
  unfold macdComp
  refine TComp.seq_law (TComp.seq_law (leafComp_law _ _) (leafComp_law _ _) ?_)
    (macdCompP_law name round fast slow signal input hsig hn) ?_
  · constructor <;> intro k hk <;>
      simp [macdCompF, macdCompS, leafComp, emaT, macdEf_name, macdEs_name] at hk ⊢ <;>
      rintro rfl <;>
      simp [hn.FS.symm] at hk
  · constructor <;> intro k hk <;>
      simp [TComp.seq, macdCompF, macdCompS, macdCompP, leafComp, dataComp, emaT, macdEf_name, macdEs_name,
        macdP_name] at hk ⊢ <;>
      constructor <;> rintro rfl <;>
      simp [hn.nF, hn.nS, hn.FG.symm, hn.SG.symm] at hk

theorem allNames_macd : (macdP (F := F) name round fast slow signal input).allNames
    = [name, name ++ "_EMA_fast", name ++ "_EMA_slow", name ++ "_signal_line"] := by
  simp [macdP, mkTop, children, Ind.allNames_eq, Ind.allNamesL, Ind.allNamesM, leaf, Ind.name, Ind.subs,
    Ind.managed]

/-- **MACD as a tree with a row-major spec.** -/
def macdTree : TreeSpec (mkTop (.macd fast slow signal input : Kind F) name round) :=
  TreeSpec.ofComp (ind := macdP (F := F) name round fast slow signal input)
    (macdComp name round fast slow signal input hf hs hsig hn hin)
    (macdComp_law name round fast slow signal input hf hs hsig hn hin)
    (fun c hc => (macdComp_law name round fast slow signal input hf hs hsig hn hin).raw_of c
      (fun k _ => hasKey_plain k c hc))
    (by
      intro k hk
      rw [allNames_macd]
      simp [macdComp, TComp.seq, macdCompF, macdCompS, macdCompP, leafComp, dataComp, macdEf_name, macdEs_name,
        macdP_name] at hk ⊢
      rcases hk with h | h | h | h <;> simp [h])
    (by
      intro cs
      rw [engineCalc_macd]
      show _ = (do
        let cs₁ ← (do let c ← leafCalc (macdEf name fast input) cs; leafCalc (macdEs name slow input) c)
        Gen.nodeCalc (specWith (macdP name round fast slow signal input) (macdC name signal)) cs₁)
      cases leafCalc (macdEf (F := F) name fast input) cs with
      | error e => rfl
      | ok c₁ => simp only [bind, Except.bind])

end tree

/-- the hypotheses are met by the default name of `MACD(fast=2, slow=3, signal=2)` -/
example : MacdNames "MACD_2_3_2" :=
  ⟨by decide, by decide, by decide, by decide, by decide, by decide, by decide, by decide, by decide,
    by decide⟩

example : Nonempty (TreeSpec (mkTop (.macd 2 3 2 "close" : Kind F) "MACD_2_3_2" 4)) :=
  ⟨macdTree "MACD_2_3_2" 4 2 3 2 "close" (by decide) (by decide) (by decide)
    ⟨by decide, by decide, by decide, by decide, by decide, by decide, by decide, by decide, by decide,
      by decide⟩ (by decide)⟩

end Hex

#print axioms Hex.macdTree
#print axioms Hex.engineCalc_macd

import HexProofs.Framework.Gen.IndexTreesA
import HexProofs.Framework.Gen.IndexTreesB
import HexProofs.Framework.Gen.IndexTreesC
import HexProofs.Lib.IntInst
/-
C14, the `calculate_index` part for trees WITH sub-indicators / driven children.

`HexProps/C14.lean` (`C14_trees`) allows `calculate_index(±i)` inside programs only for kinds where
it is one row step (`indexStepKindX`: leaf kinds, VWAP, STDEV, RSI).  Here it is proved for EVERY
covered tree (`CoveredTreeX`: also ATR, KC, STDEVTHRES, BBANDS, Supertrend, MACD, HMA, STOCH, TSI, ADX):

* `calculateIndex_reproduces` – on the batch state (`runIndicator … raw []` returned `done`),
  `calculate_index(i)` returns the same candles for EVERY index `-len ≤ i < len` (positive or negative
  spelling), **index 0 included**;
* what happens at `i = 0`: `_calculate_sub_indicators(prior, 0, 1)` falls back to a full `calculate()`
  of every helper (`if start_index and end_index` is false).  On a FINISHED list that `calculate()`
  finds the helper's key on every candle (`_find_calc_index = len`) and does nothing, so the batch
  state is still reproduced (`TreeSpec.IndexOK.2`, per kind `…_index0_reproduces`).  On an UNfinished
  list (raw candles after the finished part) the fallback does compute helpers on the raw tail, which
  is why the statement for `i ≥ 1` allows a raw tail (`TreeSpec.IndexOK.1`) and the one for `i = 0`
  does not;
* `program_converges_all` – C14_trees without the restriction on `calculate_index`: after ANY program
  over {append, calculate, purge, recalculate, calculate_index(±i) on a candle that holds a reading}
  that runs, a final `calculate()` returns iff the batch run returns, with the same candles – for every
  covered tree.  (Every state a program reaches is either finished or entirely raw; `calculate_index`
  is admissible only on the former.)
-/
namespace Hex
set_option linter.unusedSectionVars false
variable {F : Type} [PyF F]

/-! ### the property of a tree -/

/-- **`calculate_index` reproduces the batch state**: (1) at every index `1 ≤ j` of the finished
part, raw candles may follow; (2) at index 0 of a finished list. -/
def TreeSpec.IndexOK {ind : Ind F} (T : TreeSpec ind) : Prop :=
  (∀ (raw done rest : List (Candle F)), (∀ c ∈ raw, Plain c) → Gen.rowMajor T.S raw = .ok done →
    ∀ j : Nat, 1 ≤ j → j < done.length →
      calculateIndex (fuelFor (done ++ rest)) ind (done ++ rest) j (j + 1) = .ok (done ++ rest)) ∧
  (∀ (raw done : List (Candle F)), (∀ c ∈ raw, Plain c) → Gen.rowMajor T.S raw = .ok done →
    0 < done.length → calculateIndex (fuelFor done) ind done 0 (0 + 1) = .ok done)

/-- trees whose `calculate_index(i)` is one row step at every index -/
theorem TreeSpec.indexOK_of_step {ind : Ind F} (T : TreeSpec ind) (h : T.IndexIsStep) : T.IndexOK := by
  constructor
  · intro raw done rest hp hr j _ hj
    rw [h (done ++ rest) j (by omega) (by simp; omega)]
    exact Gen.step_computed T.law raw rest done hp hr j hj
  · intro raw done hp hr hj
    have := h done 0 (by omega) (by omega)
    rw [this]
    have := Gen.step_computed T.law raw [] done hp hr 0 hj
    simpa using this

theorem fuelFor_bound (cs : List (Candle F)) : cs.length + 12 ≤ fuelFor cs := by
  unfold fuelFor; omega

theorem CoveredTree.specIdx {name : String} {k : Kind F} (h : CoveredTree name k) (round : Nat) :
    ∃ T : TreeSpec (mkTop k name round), (indexStepKind k = true → T.Full) ∧ T.IndexOK := by
  cases h with
  | leaf k hk =>
    obtain ⟨K⟩ := hk.contract round
    have hi := indexIsStep_leaf _ (hk.isLeaf round) K
    exact ⟨TreeSpec.ofLeaf _ (hk.isLeaf round) K, fun _ => ⟨hi, rfl⟩, TreeSpec.indexOK_of_step _ hi⟩
  | vwap p =>
    exact ⟨vwapTree name round p, fun _ => vwapTree_full name round p,
      TreeSpec.indexOK_of_step _ (vwapTree_full name round p).1⟩
  | stdev p input hp hin =>
    exact ⟨stdevTree name round p input hp hin, fun _ => stdevTree_full name round p input hp hin,
      TreeSpec.indexOK_of_step _ (stdevTree_full name round p input hp hin).1⟩
  | rsi p input hp hn hin =>
    exact ⟨rsiTree name round p input hp hn hin, fun _ => rsiTree_full name round p input hp hn hin,
      TreeSpec.indexOK_of_step _ (rsiTree_full name round p input hp hn hin).1⟩
  | atr p hp hn =>
    refine ⟨atrTree name round p hp hn, (fun h => by cases h), ?_, ?_⟩
    · intro raw done rest hpl hr j h1 hj
      exact atr_index_reproduces name round p hp hn raw done rest hpl hr j hj h1 _
        (by have := fuelFor_bound (done ++ rest); omega)
    · intro raw done hpl hr hj
      exact atr_index0_reproduces name round p hp hn raw done hpl hr hj _
        (by have := fuelFor_bound done; omega)
  | kc p input m hp hn hin =>
    refine ⟨kcTree name round p input m hp hn hin, (fun h => by cases h), ?_, ?_⟩
    · intro raw done rest hpl hr j h1 hj
      exact kc_index_reproduces name round p input m hp hn hin raw done rest hpl hr j hj h1 _
        (by have := fuelFor_bound (done ++ rest); omega)
    · intro raw done hpl hr hj
      exact kc_index0_reproduces name round p input m hp hn hin raw done hpl hr hj _ (fuelFor_bound done)
  | stdevthres p input m hp hn hin =>
    refine ⟨thresTree name round p input m hp hn hin, (fun h => by cases h), ?_, ?_⟩
    · intro raw done rest hpl hr j h1 hj
      exact thres_index_reproduces name round p input m hp hn hin raw done rest hpl hr j hj h1 _
        (by have := fuelFor_bound (done ++ rest); omega)
    · intro raw done hpl hr hj
      exact thres_index0_reproduces name round p input m hp hn hin raw done hpl hr hj _ (fuelFor_bound done)
  | bbands p input hp hn hin =>
    refine ⟨bbTree name round p input hp hn hin, (fun h => by cases h), ?_, ?_⟩
    · intro raw done rest hpl hr j h1 hj
      exact bb_index_reproduces name round p input hp hn hin raw done rest hpl hr j hj h1 _
        (by have := fuelFor_bound (done ++ rest); omega)
    · intro raw done hpl hr hj
      exact bb_index0_reproduces name round p input hp hn hin raw done hpl hr hj _ (fuelFor_bound done)
  | supertrend p input m hp hn =>
    refine ⟨stTree name round p input m hp hn, (fun h => by cases h), ?_, ?_⟩
    · intro raw done rest hpl hr j h1 hj
      exact st_index_reproduces name round p input m hp hn raw done rest hpl hr j hj h1 _
        (by have := fuelFor_bound (done ++ rest); omega)
    · intro raw done hpl hr hj
      exact st_index0_reproduces name round p input m hp hn raw done hpl hr hj _ (fuelFor_bound done)

/-- **Every covered tree has a row-major spec whose batch state `calculate_index` reproduces.** -/
theorem CoveredTreeX.specIdx {name : String} {k : Kind F} (h : CoveredTreeX name k) (round : Nat) :
    ∃ T : TreeSpec (mkTop k name round), (indexStepKindX k = true → T.Full) ∧ T.IndexOK := by
  cases h with
  | base k hk =>
    obtain ⟨T, hT, hI⟩ := hk.specIdx round
    exact ⟨T, fun h => hT (indexStepKindX_le k h), hI⟩
  | macd fast slow signal input hf hs hg hn hin =>
    refine ⟨macdTree name round fast slow signal input hf hs hg hn hin, (fun h => by cases h), ?_, ?_⟩
    · intro raw done rest hpl hr j h1 hj
      exact macd_index_reproduces name round fast slow signal input hf hs hg hn hin raw done rest hpl hr j hj h1 _
        (by have := fuelFor_bound (done ++ rest); omega)
    · intro raw done hpl hr hj
      exact macd_index0_reproduces name round fast slow signal input hf hs hg hn hin raw done hpl hr hj _
        (fuelFor_bound done)
  | hma p input hp hn hin =>
    refine ⟨hmaTree name round p input hp hn hin, (fun h => by cases h), ?_, ?_⟩
    · intro raw done rest hpl hr j h1 hj
      exact hma_index_reproduces name round p input hp hn hin raw done rest hpl hr j hj h1 _
        (by have := fuelFor_bound (done ++ rest); omega)
    · intro raw done hpl hr hj
      exact hma_index0_reproduces name round p input hp hn hin raw done hpl hr hj _ (fuelFor_bound done)
  | stoch p slow smoothK input hp hs hk hn hin =>
    refine ⟨stochTree name round p slow smoothK input hp hs hk hn hin, (fun h => by cases h), ?_, ?_⟩
    · intro raw done rest hpl hr j _ hj
      exact stoch_index_reproduces name round p slow smoothK input hp hs hk hn hin raw done rest hpl hr j hj _
        (by have := fuelFor_bound (done ++ rest); omega)
    · intro raw done hpl hr hj
      have := stoch_index_reproduces name round p slow smoothK input hp hs hk hn hin raw done [] hpl hr 0 hj
        (fuelFor done) (by have := fuelFor_bound done; omega)
      simp only [List.append_nil, Nat.cast_zero] at this
      exact this
  | tsi p smooth input hp hs hn hin =>
    refine ⟨tsiTree name round p smooth input hp hs hn hin, (fun h => by cases h), ?_, ?_⟩
    · intro raw done rest hpl hr j _ hj
      exact tsi_index_reproduces name round p smooth input hp hs hn hin raw done rest hpl hr j hj _
        (by have := fuelFor_bound (done ++ rest); omega)
    · intro raw done hpl hr hj
      have := tsi_index_reproduces name round p smooth input hp hs hn hin raw done [] hpl hr 0 hj
        (fuelFor done) (by have := fuelFor_bound done; omega)
      simp only [List.append_nil, Nat.cast_zero] at this
      exact this
  | adx p signal hp hs hn =>
    refine ⟨adxTree name round p signal hp hs hn, (fun h => by cases h), ?_, ?_⟩
    · intro raw done rest hpl hr j h1 hj
      exact adx_index_reproduces name round p signal hp hs hn raw done rest hpl hr j hj h1 _
        (by have := fuelFor_bound (done ++ rest); omega)
    · intro raw done hpl hr hj
      exact adx_index0_reproduces name round p signal hp hs hn raw done hpl hr hj _ (fuelFor_bound done)

/-! ### the object -/

variable {ind : Ind F}

/-- the object-level `calculate_index(i)` (one index, positive or negative spelling) in terms of the
engine: the normalised index `j` -/
theorem IndState.calculateIndex_candles (s : IndState F) (i : Int) (j : Nat)
    (hj : (if i < 0 then i + (s.mgr.candles.length : Int) else i) = (j : Int)) :
    candlesOf (s.calculateIndex i none)
      = Hex.calculateIndex (fuelFor s.mgr.candles) s.tree s.mgr.candles j (j + 1) := by
  unfold IndState.calculateIndex candlesOf
  simp only [Option.map_none, hj]
  cases Hex.calculateIndex (fuelFor s.mgr.candles) s.tree s.mgr.candles (j : Int) ((j : Int) + 1) <;> rfl

/-- **on a state `done ++ rest` (finished part, raw tail) `calculate_index(i)` aimed – by its positive
or its negative index – at a candle `1 ≤ j < len(done)` changes nothing** -/
theorem TreeSpec.calculateIndex_reproduces_pos (T : TreeSpec ind) (hI : T.IndexOK)
    (raw done rest : List (Candle F)) (hp : ∀ c ∈ raw, Plain c) (h : Gen.rowMajor T.S raw = .ok done)
    (i : Int) (j : Nat) (hj : (if i < 0 then i + ((done ++ rest).length : Int) else i) = (j : Int))
    (h1 : 1 ≤ j) (hlt : j < done.length) (cfg : MgrCfg) (act : Int) :
    candlesOf (IndState.calculateIndex ⟨ind, ⟨cfg, done ++ rest⟩, act⟩ i none) = .ok (done ++ rest) := by
  rw [IndState.calculateIndex_candles _ i j hj]
  exact hI.1 raw done rest hp h j h1 hlt

/-- **on a finished state `calculate_index(i)` changes nothing, at EVERY index `-len ≤ i < len`** -/
theorem TreeSpec.calculateIndex_reproduces (T : TreeSpec ind) (hI : T.IndexOK)
    (raw done : List (Candle F)) (hp : ∀ c ∈ raw, Plain c) (h : Gen.rowMajor T.S raw = .ok done)
    (i : Int) (hlo : -(done.length : Int) ≤ i) (hhi : i < done.length) (cfg : MgrCfg) (act : Int) :
    candlesOf (IndState.calculateIndex ⟨ind, ⟨cfg, done⟩, act⟩ i none) = .ok done := by
  obtain ⟨j, hj⟩ : ∃ j : Nat, (if i < 0 then i + (done.length : Int) else i) = (j : Int) := by
    by_cases hn : i < 0
    · exact ⟨(i + done.length).toNat, by simp only [hn, if_true]; omega⟩
    · exact ⟨i.toNat, by simp only [hn, if_false]; omega⟩
  have hjlt : j < done.length := by
    by_cases hn : i < 0
    · simp only [hn, if_true] at hj; omega
    · simp only [hn, if_false] at hj; omega
  rw [IndState.calculateIndex_candles _ i j hj]
  by_cases h0 : j = 0
  · subst h0
    exact hI.2 raw done hp h (by omega)
  · have := hI.1 raw done [] hp h j (by omega) hjlt
    simpa using this

/-- **C14, `calculate_index` on every covered tree.**  Let the batch run over the raw stream `raw`
return the candles `done`.  Then on that state `calculate_index(i)` returns and leaves every candle
as it is – for every index `-len ≤ i < len` (positive or negative spelling, index 0 included). -/
theorem calculateIndex_reproduces {name : String} {k : Kind F} (hk : CoveredTreeX name k) (round : Nat)
    (raw done : List (Candle F)) (hp : ∀ c ∈ raw, Plain c)
    (h : candlesOf (runIndicator (mkTop k name round) {} raw []) = .ok done)
    (i : Int) (hlo : -(done.length : Int) ≤ i) (hhi : i < done.length) (act : Int) :
    (IndState.calculateIndex ⟨mkTop k name round, ⟨{}, done⟩, act⟩ i none).map (·.mgr.candles) = .ok done := by
  obtain ⟨T, _, hI⟩ := hk.specIdx round
  have hr : Gen.rowMajor T.S raw = .ok done := (T.batch_iff (MgrSpec.base F) raw hp done).1 h
  exact T.calculateIndex_reproduces hI raw done hp hr i hlo hhi {} act

/-! ### programs: every reachable state is finished or raw -/

/-- the invariant of a program run, sharpened: the candles are the finished row-major run over the
raw stream seen so far, or that raw stream itself (before the first `calculate()`, after `purge()`) -/
structure GProgInvX (T : TreeSpec ind) (raw : List (Candle F)) (s : IndState F) : Prop where
  tree : s.tree = ind
  cfg : s.mgr.cfg = {}
  plain : ∀ c ∈ raw, Plain c
  st : Gen.rowMajor T.S raw = .ok s.mgr.candles ∨ s.mgr.candles = raw

theorem GProgInvX.toInv {T : TreeSpec ind} {raw : List (Candle F)} {s : IndState F} (h : GProgInvX T raw s) :
    GProgInv T raw s := by
  refine ⟨h.tree, h.cfg, ?_⟩
  rcases h.st with hf | hr
  · exact Gen.resumableAt_finished T.S raw _ h.plain hf
  · rw [hr]; exact Gen.resumableAt_plain T.S raw h.plain

theorem gprogInvX_calculate (T : TreeSpec ind) (raw : List (Candle F)) (s s' : IndState F)
    (h : GProgInv T raw s) (hrun : s.calculate = .ok s') : GProgInvX T raw s' := by
  obtain ⟨ht, hcfg, he⟩ := IndState.calculate_ok_engine s s' hrun
  rw [h.tree] at he ht
  exact ⟨ht, by rw [hcfg, h.cfg], h.res.plain, Or.inl ((T.engine_resumableAt raw _ _ h.res).1 he)⟩

theorem gprogInvX_purge (T : TreeSpec ind) (raw : List (Candle F)) (s : IndState F)
    (h : GProgInv T raw s) : GProgInvX T raw s.purge := by
  refine ⟨h.tree, h.cfg, h.res.plain, Or.inr ?_⟩
  unfold IndState.purge
  simp only [h.tree]
  exact T.purge_resumableAt raw _ h.res

theorem gprogInvX_calcIndex (T : TreeSpec ind) (hI : T.IndexOK) (raw : List (Candle F))
    (s s' : IndState F) (i : Int) (h : GProgInvX T raw s)
    (hadm : ∃ c, pyIndex s.mgr.candles i = .ok c ∧ hasKey s.tree.name c = true)
    (hrun : s.calculateIndex i none = .ok s') : GProgInvX T raw s' := by
  obtain ⟨c, hidx, hkey⟩ := hadm
  rcases h.st with hf | hr
  · -- finished: the index lies in the list
    have hidx' : pyIndex (s.mgr.candles ++ []) i = .ok c := by simpa using hidx
    obtain ⟨j, hj, hst⟩ := index_in_done s.tree.name s.mgr.candles [] i c (by simp) hidx' hkey
    simp only [List.append_nil] at hst
    have hcs : candlesOf (s.calculateIndex i none) = .ok s.mgr.candles := by
      rw [IndState.calculateIndex_candles s i j hst, h.tree]
      by_cases h0 : j = 0
      · subst h0
        exact hI.2 raw _ h.plain hf (by omega)
      · have := hI.1 raw _ [] h.plain hf j (by omega) hj
        simpa using this
    rw [hrun] at hcs
    have hc' : s'.mgr.candles = s.mgr.candles := by
      simpa [candlesOf, Except.map] using hcs
    have hframe : s'.tree = s.tree ∧ s'.mgr.cfg = s.mgr.cfg := by
      unfold IndState.calculateIndex at hrun
      simp only [Option.map_none, bind, Except.bind] at hrun
      cases hci : Hex.calculateIndex (fuelFor s.mgr.candles) s.tree s.mgr.candles
          (if i < 0 then i + (s.mgr.candles.length : Int) else i)
          ((if i < 0 then i + (s.mgr.candles.length : Int) else i) + 1) with
      | error e => rw [hci] at hrun; cases hrun
      | ok cs =>
        rw [hci] at hrun
        simp only [pure, Except.pure] at hrun
        cases hrun
        exact ⟨rfl, rfl⟩
    exact ⟨by rw [hframe.1, h.tree], by rw [hframe.2, h.cfg], h.plain, Or.inl (by rw [hc']; exact hf)⟩
  · -- raw: no candle holds a reading, the operation is not admissible
    exfalso
    have hidx' : pyIndex ([] ++ raw) i = .ok c := by rw [← hr]; simpa using hidx
    obtain ⟨j, hj, _⟩ := index_in_done s.tree.name [] raw i c h.plain hidx' hkey
    simp at hj

theorem gprogInvX_step (T : TreeSpec ind) (hI : T.IndexOK) (raw : List (Candle F))
    (s s' : IndState F) (op : Op F) (h : GProgInvX T raw s)
    (hadm : op.Admissible s) (hrun : op.run s = .ok s') : GProgInvX T (raw ++ op.added) s' := by
  cases op with
  | append ch =>
    simp only [Op.run, IndState.append, Manager.append_noCfg s.mgr h.cfg, bind, Except.bind] at hrun
    simp only [Op.added]
    refine gprogInvX_calculate T _
      ({ s with mgr := { s.mgr with candles := s.mgr.candles ++ ch } }) s' ⟨h.tree, h.cfg, ?_⟩ hrun
    exact Gen.resumableAt_append T.S raw _ ch h.toInv.res hadm
  | calculate =>
    simp only [Op.added, List.append_nil]
    exact gprogInvX_calculate T raw s s' h.toInv hrun
  | purge =>
    simp only [Op.added, List.append_nil]
    simp only [Op.run] at hrun
    cases hrun
    exact gprogInvX_purge T raw s h.toInv
  | recalculate =>
    simp only [Op.added, List.append_nil]
    exact gprogInvX_calculate T raw s.purge s' (gprogInvX_purge T raw s h.toInv).toInv hrun
  | calcIndex i =>
    simp only [Op.added, List.append_nil]
    exact gprogInvX_calcIndex T hI raw s s' i h hadm hrun

theorem gprogInvX_runs (T : TreeSpec ind) (hI : T.IndexOK) (ops : List (Op F)) :
    ∀ (raw : List (Candle F)) (s s' : IndState F),
      GProgInvX T raw s → Runs s ops s' → GProgInvX T (raw ++ (ops.map Op.added).flatten) s' := by
  induction ops with
  | nil => intro raw s s' h hr; cases hr; simpa using h
  | cons op rest ih =>
    intro raw s s' h hr
    cases hr with
    | cons hadm hrun hrest =>
      have := ih _ _ _ (gprogInvX_step T hI raw s _ op h hadm hrun) hrest
      simpa [List.append_assoc] using this

/-- **Convergence to the batch state, every operation allowed.**  After any admissible program that
runs – `calculate_index(±i)` on candles that hold a reading included, whatever the tree – a final
`calculate()` returns iff the row-major run over the whole raw stream does, with the same candles. -/
theorem TreeSpec.program_converges_all (T : TreeSpec ind) (hI : T.IndexOK)
    (init : List (Candle F)) (hinit : ∀ c ∈ init, Plain c) (ops : List (Op F)) (s : IndState F)
    (hruns : Runs ({ tree := ind, mgr := { cfg := {}, candles := init } } : IndState F) ops s)
    (out : List (Candle F)) :
    candlesOf s.calculate = .ok out ↔
      Gen.rowMajor T.S (init ++ (ops.map Op.added).flatten) = .ok out := by
  have h0 : GProgInvX T init ({ tree := ind, mgr := { cfg := {}, candles := init } } : IndState F) :=
    ⟨rfl, rfl, hinit, Or.inr rfl⟩
  have h := (gprogInvX_runs T hI ops init _ s h0 hruns).toInv
  rw [IndState.calculate_engine, h.tree]
  exact T.engine_resumableAt _ _ out h.res

/-- **C14 for all covered trees, the whole operation alphabet of the standalone object**: after any
program over {append, calculate, purge, recalculate, calculate_index(±i) on a candle that holds a
reading} that runs, a final `calculate()` returns iff the batch run over all candles received
returns, with the same candles (own readings and helper series).  No restriction on the kind. -/
theorem program_converges_all {name : String} {k : Kind F} (hk : CoveredTreeX name k) (round : Nat)
    (init : List (Candle F)) (hinit : ∀ c ∈ init, Plain c) (ops : List (Op F)) (s : IndState F)
    (hruns : Runs ({ tree := mkTop k name round, mgr := { cfg := {}, candles := init } } : IndState F) ops s)
    (out : List (Candle F)) :
    candlesOf s.calculate = .ok out ↔
      candlesOf (runIndicator (mkTop k name round) {} (init ++ (ops.map Op.added).flatten) []) = .ok out := by
  obtain ⟨T, _, hI⟩ := hk.specIdx round
  have hplain : ∀ c ∈ init ++ (ops.map Op.added).flatten, Plain c :=
    (gprogInvX_runs T hI ops init _ s ⟨rfl, rfl, hinit, Or.inr rfl⟩ hruns).plain
  rw [T.program_converges_all hI init hinit ops s hruns out]
  exact (T.batch_iff (MgrSpec.base F) _ hplain out).symm

/-- the invariant along any program, for every covered tree (from it: `calculate()` again changes
nothing, `purge()` gives back the raw stream, `recalculate()` reproduces – as in `HexProps/C14.lean`,
now without the restriction on `calculate_index`) -/
theorem program_invariant_all {name : String} {k : Kind F} (hk : CoveredTreeX name k) (round : Nat) :
    ∃ T : TreeSpec (mkTop k name round), ∀ (init : List (Candle F)), (∀ c ∈ init, Plain c) →
      ∀ (ops : List (Op F)) (s : IndState F),
        Runs ({ tree := mkTop k name round, mgr := { cfg := {}, candles := init } } : IndState F) ops s →
        GProgInv T (init ++ (ops.map Op.added).flatten) s := by
  obtain ⟨T, _, hI⟩ := hk.specIdx round
  exact ⟨T, fun init hinit ops s hruns =>
    (gprogInvX_runs T hI ops init _ s ⟨rfl, rfl, hinit, Or.inr rfl⟩ hruns).toInv⟩

end Hex

/-! ### non-vacuity: concrete instances over `Int` (the full battery – all ten kinds, every index –
is in `IndexTreesDemo.lean`) -/

namespace Hex.IndexDemo

deriving instance DecidableEq for Num
deriving instance DecidableEq for Scalar
deriving instance DecidableEq for Val
deriving instance DecidableEq for Clean
deriving instance DecidableEq for Candle

def mkC (o h l c v : Int) (t : Int) : Candle Int :=
  { o := .int o, h := .int h, l := .int l, c := .int c, v := .int v, ts := some t }

/-- six raw candles -/
def demo6 : List (Candle Int) :=
  [mkC 10 30 10 20 10 60, mkC 20 50 20 40 20 120, mkC 40 40 0 10 5 180, mkC 10 70 10 60 8 240,
   mkC 60 90 50 80 3 300, mkC 80 85 20 30 7 360]

example : ∀ c ∈ demo6, Plain c := by decide

/-- covered trees with sub-indicators / driven children, under their default-style names -/
theorem kcCov : CoveredTreeX (F := Int) "KC_2" (.kc 2 "close" (.int 2)) :=
  .base _ (.kc 2 "close" _ (by decide) ⟨by decide, by decide, by decide, by decide, by decide, by decide, by decide,
    by decide, by decide⟩ (by decide))
theorem adxCov : CoveredTreeX (F := Int) "ADX_3_3" (.adx 3 3) :=
  .adx 3 3 (by decide) (by decide)
    ⟨by decide, by decide, by decide, by decide, by decide, by decide, by decide, by decide, by decide, by decide,
      by decide, by decide, by decide, by decide, by decide, by decide, by decide, by decide, by decide, by decide,
      by decide, by decide, by decide, by decide, by decide, by decide, by decide, by decide⟩
theorem hmaCov : CoveredTreeX (F := Int) "HMA_4" (.hma 4 "close") :=
  .hma 4 "close" (by decide)
    ⟨by decide, by decide, by decide, by decide, by decide, by decide, by decide, by decide, by decide, by decide,
      by decide, by decide, by decide, by decide, by decide⟩ (by decide)

/-- the batch run of KC over six candles returns; every candle carries the three helper keys; the ATR
helper has a reading from candle 2 on -/
example : (match candlesOf (runIndicator (mkTop (.kc 2 "close" (.int 2)) "KC_2" 4) {} demo6 []) with
    | .ok cs => cs.map (fun c => ((dlookup "KC_2_ATR" c.subs).map (fun v => !v.isNone), c.subs.map (·.1)))
    | .error _ => []) = [(some false, ["KC_2_ATR_TR", "KC_2_ATR", "KC_2_EMA"]),
      (some false, ["KC_2_ATR_TR", "KC_2_ATR", "KC_2_EMA"]), (some true, ["KC_2_ATR_TR", "KC_2_ATR", "KC_2_EMA"]),
      (some true, ["KC_2_ATR_TR", "KC_2_ATR", "KC_2_EMA"]), (some true, ["KC_2_ATR_TR", "KC_2_ATR", "KC_2_EMA"]),
      (some true, ["KC_2_ATR_TR", "KC_2_ATR", "KC_2_EMA"])] := by
  decide +kernel

/-- the theorem applied: whatever the batch run over `demo6` returned, `calculate_index(0)` and
`calculate_index(-1)` leave it as it is -/
example (done : List (Candle Int)) (hlen : done.length = 6)
    (h : candlesOf (runIndicator (mkTop (.kc 2 "close" (.int 2)) "KC_2" 4) {} demo6 []) = .ok done) :
    (IndState.calculateIndex ⟨mkTop (.kc 2 "close" (.int 2)) "KC_2" 4, ⟨{}, done⟩, 0⟩ 0 none).map (·.mgr.candles)
        = .ok done ∧
    (IndState.calculateIndex ⟨mkTop (.kc 2 "close" (.int 2)) "KC_2" 4, ⟨{}, done⟩, 0⟩ (-1) none).map (·.mgr.candles)
        = .ok done :=
  ⟨calculateIndex_reproduces kcCov 4 demo6 done (by decide) h 0 (by omega) (by omega) 0,
   calculateIndex_reproduces kcCov 4 demo6 done (by decide) h (-1) (by omega) (by omega) 0⟩

/-- direct evaluation, as a cross-check of the model: the batch run returns as many candles as it was
given, and on that state `calculate_index(i)` returns the same candles for every `-len ≤ i < len` -/
def reproAll (ind : Ind Int) (raw : List (Candle Int)) : Bool :=
  match candlesOf (runIndicator ind {} raw []) with
  | .error _ => false
  | .ok done =>
    done.length == raw.length && (List.range (2 * done.length)).all fun (n : Nat) =>
      match (IndState.calculateIndex ⟨ind, ⟨{}, done⟩, 0⟩ ((n : Int) - done.length) none) with
      | .ok s => decide (s.mgr.candles = done)
      | .error _ => false

set_option maxRecDepth 100000 in
example : reproAll (mkTop (.kc 2 "close" (.int 2)) "KC_2" 4) demo6 = true := by decide +kernel

/-- a program with `calculate_index(0)`, `calculate_index(-1)` and inner indices -/
def demoProgram : List (Op Int) :=
  [.append (demo6.take 3), .calcIndex 0, .calcIndex (-1), .purge, .append (demo6.drop 3 |>.take 1), .recalculate,
   .calcIndex 1, .calcIndex (-4), .append (demo6.drop 4), .calcIndex 0, .calcIndex 5]

theorem runs_of_isSome (s : IndState Int) (ops : List (Op Int)) (h : (runChecked s ops).isSome = true) :
    ∃ s', Runs s ops s' := by
  cases hr : runChecked s ops with
  | none => rw [hr] at h; cases h
  | some s' => exact ⟨s', runs_of_runChecked _ _ _ hr⟩

set_option maxRecDepth 100000 in
/-- it runs on ADX (prior ATR tree, `Managed.set_reading` with two non-prior RMAs, a driven `dx` RMA) -/
example : ∃ s, Runs ({ tree := mkTop (.adx 3 3) "ADX_3_3" 4, mgr := { cfg := {}, candles := [] } } :
    IndState Int) demoProgram s := runs_of_isSome _ _ (by decide +kernel)

/-- so `program_converges_all` applies to it -/
example (s : IndState Int)
    (hruns : Runs ({ tree := mkTop (.adx 3 3) "ADX_3_3" 4, mgr := { cfg := {}, candles := [] } } : IndState Int)
      demoProgram s) (out : List (Candle Int)) :
    candlesOf s.calculate = .ok out ↔
      candlesOf (runIndicator (mkTop (.adx 3 3) "ADX_3_3" 4) {} ([] ++ (demoProgram.map Op.added).flatten) [])
        = .ok out :=
  program_converges_all adxCov 4 [] (by simp) demoProgram s hruns out

end Hex.IndexDemo

#print axioms Hex.calculateIndex_reproduces
#print axioms Hex.program_converges_all
#print axioms Hex.program_invariant_all
#print axioms Hex.CoveredTreeX.specIdx

import HexProofs.Framework.Maintenance
import HexProofs.Manager.Schedule
/-
The framework on a collapsing timeframe (no fill, no conversion, no lifespan).  On every append
the manager re-collapses `old buckets ++ new candles`; the old buckets carry readings.  Because
the resampling fold only ever touches its newest bucket, all old buckets but possibly the last
keep their readings, the merged bucket is reset (`Candle.merge` wipes readings), and the new
buckets are raw: the state is again `finished prefix ++ raw candles` and `calculate()` resumes.
Result: the candles always equal `rowMajor ind (resample tf stream)`.
-/
namespace Hex
set_option linter.unusedSectionVars false
variable {F : Type} [PyF F]

/-! ### `setKey` does not touch what the manager looks at -/

@[simp] theorem setKey_ts (isSub : Bool) (name : String) (v : Val F) (c : Candle F) :
    (setKey isSub name v c).ts = c.ts := by cases isSub <;> rfl

@[simp] theorem setKey_clean (isSub : Bool) (name : String) (v : Val F) (c : Candle F) :
    (setKey isSub name v c).clean = c.clean := by cases isSub <;> rfl

/-- merging into a candle wipes its readings: the decorated and the raw candle merge alike -/
theorem merge_setKey (isSub : Bool) (name : String) (v : Val F) (c x : Candle F) :
    (setKey isSub name v c).merge x = c.merge x := by
  cases isSub <;> simp [setKey, Candle.merge, Candle.reset, Candle.recoverClean] <;>
    cases c.clean <;> simp

theorem Decor.ts_eq {ind : Ind F} {raw out : List (Candle F)} (h : Decor ind raw out) :
    out.map (·.ts) = raw.map (·.ts) := by
  induction h with
  | nil => rfl
  | cons hcd _ ih => obtain ⟨v, rfl⟩ := hcd; simp [ih]

theorem Decor.filterMap_ts {ind : Ind F} {raw out : List (Candle F)} (h : Decor ind raw out) :
    out.filterMap (·.ts) = raw.filterMap (·.ts) := by
  induction h with
  | nil => rfl
  | cons hcd _ ih => obtain ⟨v, rfl⟩ := hcd; simp [List.filterMap_cons, ih]

theorem Decor.labels_eq {ind : Ind F} {raw out : List (Candle F)} (h : Decor ind raw out) (tf : Int) :
    labels tf out = labels tf raw := by
  induction h with
  | nil => rfl
  | cons hcd _ ih => obtain ⟨v, rfl⟩ := hcd; simp [labels, List.filterMap_cons] at ih ⊢; rw [ih]

theorem Decor.cleanOk {ind : Ind F} {raw out : List (Candle F)} (h : Decor ind raw out) (tf : Int)
    (hr : ∀ c ∈ raw, CleanOk tf c) : ∀ d ∈ out, CleanOk tf d := by
  induction h with
  | nil => intro d hd; cases hd
  | cons hcd _ ih =>
    intro d hd
    rcases List.mem_cons.1 hd with rfl | hd
    · obtain ⟨v, rfl⟩ := hcd
      have := hr _ (List.mem_cons_self)
      intro k hk t ht
      simp only [setKey_clean] at hk
      simpa using this k hk t ht
    · exact ih (fun c hc => hr c (List.mem_cons_of_mem _ hc)) d hd

theorem forall₂_append {α β : Type} {R : α → β → Prop} {a c : List α} {b d : List β}
    (h1 : List.Forall₂ R a b) (h2 : List.Forall₂ R c d) : List.Forall₂ R (a ++ c) (b ++ d) := by
  induction h1 with
  | nil => exact h2
  | cons hab _ ih => exact List.Forall₂.cons hab ih

theorem Decor.reverse {ind : Ind F} {raw out : List (Candle F)} (h : Decor ind raw out) :
    Decor ind raw.reverse out.reverse := by
  induction h with
  | nil => exact List.Forall₂.nil
  | cons hcd _ ih =>
    simp only [List.reverse_cons]
    unfold Decor at ih ⊢
    exact forall₂_append ih (List.Forall₂.cons hcd List.Forall₂.nil)

theorem Decor.bucketedR {ind : Ind F} {raw out : List (Candle F)} (h : Decor ind raw out) (tf : Int)
    (hb : BucketedR tf raw) : BucketedR tf out := by
  refine ⟨?_, by rw [h.filterMap_ts]; exact hb.decr⟩
  have hall : ∀ {raw out : List (Candle F)}, Decor ind raw out →
      (∀ a ∈ raw, ∃ t, a.ts = some t ∧ t % tf = 0) → ∀ a ∈ out, ∃ t, a.ts = some t ∧ t % tf = 0 := by
    intro raw out h
    induction h with
    | nil => intro _ a ha; cases ha
    | cons hcd _ ih =>
      intro hr a ha
      rcases List.mem_cons.1 ha with rfl | ha
      · obtain ⟨v, rfl⟩ := hcd; simpa using hr _ (List.mem_cons_self)
      · exact ih (fun c hc => hr c (List.mem_cons_of_mem _ hc)) a ha
  exact hall h hb.stamped

/-! ### the resampling fold only touches its newest bucket -/

theorem resampleStep_ne_nil (tf : Int) (acc : List (Candle F)) (c : Candle F) (h : acc ≠ []) :
    resampleStep tf acc c ≠ [] := by
  unfold resampleStep
  cases c.ts with
  | none => exact h
  | some t =>
    cases acc with
    | nil => exact absurd rfl h
    | cons l r => simp only; split <;> simp

theorem resampleStep_tail (tf : Int) (acc r : List (Candle F)) (c : Candle F) (h : acc ≠ []) :
    resampleStep tf (acc ++ r) c = resampleStep tf acc c ++ r := by
  unfold resampleStep
  cases c.ts with
  | none => rfl
  | some t =>
    cases acc with
    | nil => exact absurd rfl h
    | cons l a => simp only [List.cons_append]; split <;> simp

theorem foldl_step_tail (tf : Int) (new : List (Candle F)) :
    ∀ (acc r : List (Candle F)), acc ≠ [] →
      new.foldl (resampleStep tf) (acc ++ r) = new.foldl (resampleStep tf) acc ++ r := by
  induction new with
  | nil => intro acc r _; rfl
  | cons c rest ih =>
    intro acc r h
    simp only [List.foldl_cons]
    rw [resampleStep_tail tf acc r c h]
    exact ih _ r (resampleStep_ne_nil tf acc c h)

theorem plain_merge (a b : Candle F) : Plain (a.merge b) := by
  simp [Plain, Candle.merge, Candle.reset]

theorem plain_setTs (c : Candle F) (t : Option Int) (h : Plain c) : Plain ({ c with ts := t } : Candle F) := h

theorem resampleStep_plain (tf : Int) (acc : List (Candle F)) (c : Candle F)
    (ha : ∀ x ∈ acc, Plain x) (hc : Plain c) : ∀ x ∈ resampleStep tf acc c, Plain x := by
  unfold resampleStep
  cases c.ts with
  | none => exact ha
  | some t =>
    cases acc with
    | nil => intro x hx; simp at hx; subst hx; exact plain_setTs c _ hc
    | cons l r =>
      simp only
      split
      · intro x hx
        rcases List.mem_cons.1 hx with rfl | hx
        · exact plain_merge l c
        · exact ha x (List.mem_cons_of_mem _ hx)
      · intro x hx
        rcases List.mem_cons.1 hx with rfl | hx
        · exact plain_setTs c _ hc
        · exact ha x hx

theorem foldl_step_plain (tf : Int) (new : List (Candle F)) :
    ∀ (acc : List (Candle F)), (∀ x ∈ acc, Plain x) → (∀ c ∈ new, Plain c) →
      ∀ x ∈ new.foldl (resampleStep tf) acc, Plain x := by
  induction new with
  | nil => intro acc ha _; exact ha
  | cons c rest ih =>
    intro acc ha hn
    simp only [List.foldl_cons]
    exact ih _ (resampleStep_plain tf acc c ha (hn c (by simp))) (fun x hx => hn x (by simp [hx]))

theorem resample_plain (tf : Int) (xs : List (Candle F)) (h : ∀ c ∈ xs, Plain c) :
    ∀ c ∈ resample tf xs, Plain c := by
  intro c hc
  exact foldl_step_plain tf xs [] (by simp) h c (List.mem_reverse.1 hc)

/-- the decorated newest bucket `dl` and the raw newest bucket `bl` under the same new candles:
either nothing merged into it (it survives under the same new buckets `X`), or the first new
candle merged into it and both folds give the same raw list -/
def StepRel (dl bl : Candle F) (acc acc' : List (Candle F)) : Prop :=
  (∃ X, (∀ c ∈ X, Plain c) ∧ acc = X ++ [dl] ∧ acc' = X ++ [bl]) ∨
  ((∀ c ∈ acc, Plain c) ∧ acc = acc')

theorem stepRel_step (tf : Int) (dl bl : Candle F) (hts : dl.ts = bl.ts)
    (hm : ∀ x, dl.merge x = bl.merge x) (acc acc' : List (Candle F)) (c : Candle F) (hc : Plain c)
    (h : StepRel dl bl acc acc') :
    StepRel dl bl (resampleStep tf acc c) (resampleStep tf acc' c) := by
  rcases h with ⟨X, hX, rfl, rfl⟩ | ⟨hp, rfl⟩
  · cases X with
    | nil =>
      simp only [List.nil_append]
      unfold resampleStep
      cases hct : c.ts with
      | none => exact Or.inl ⟨[], by simp, rfl, rfl⟩
      | some t =>
        simp only
        by_cases hl : dl.ts = some (label tf t)
        · have hl' : bl.ts = some (label tf t) := hts ▸ hl
          simp only [hl, hl', if_true]
          refine Or.inr ⟨?_, by rw [hm]⟩
          intro x hx; simp at hx; subst hx; exact plain_merge dl c
        · have hl' : ¬ bl.ts = some (label tf t) := hts ▸ hl
          simp only [hl, hl', if_false]
          exact Or.inl ⟨[{ c with ts := some (label tf t) }],
            by intro x hx; simp at hx; subst hx; exact hc, rfl, rfl⟩
    | cons h X' =>
      have hne : (h :: X') ≠ [] := by simp
      rw [resampleStep_tail tf (h :: X') [dl] c hne, resampleStep_tail tf (h :: X') [bl] c hne]
      exact Or.inl ⟨_, resampleStep_plain tf _ c hX hc, rfl, rfl⟩
  · exact Or.inr ⟨resampleStep_plain tf acc c hp hc, rfl⟩

theorem stepRel_foldl (tf : Int) (dl bl : Candle F) (hts : dl.ts = bl.ts)
    (hm : ∀ x, dl.merge x = bl.merge x) (new : List (Candle F)) :
    ∀ (acc acc' : List (Candle F)), (∀ c ∈ new, Plain c) → StepRel dl bl acc acc' →
      StepRel dl bl (new.foldl (resampleStep tf) acc) (new.foldl (resampleStep tf) acc') := by
  induction new with
  | nil => intro acc acc' _ h; exact h
  | cons c rest ih =>
    intro acc acc' hn h
    simp only [List.foldl_cons]
    exact ih _ _ (fun x hx => hn x (by simp [hx]))
      (stepRel_step tf dl bl hts hm acc acc' c (hn c (by simp)) h)

/-- **Re-collapsing a finished bucket list with new raw candles.**  `B` is the reversed raw
bucket list, `D` its decorated counterpart (newest first).  Folding the new candles on top of
both keeps a common prefix of old buckets (all of them, or all but the newest) and produces the
same raw remainder. -/
theorem foldl_decor (tf : Int) (ind : Ind F) (B D new : List (Candle F)) (hd : Decor ind B D)
    (hnew : ∀ c ∈ new, Plain c) :
    ∃ (k : Nat) (Q : List (Candle F)), (∀ c ∈ Q, Plain c) ∧ D.length ≤ k + 1 ∧
      (new.foldl (resampleStep tf) D).reverse = D.reverse.take k ++ Q ∧
      (new.foldl (resampleStep tf) B).reverse = B.reverse.take k ++ Q := by
  cases hd with
  | nil =>
    exact ⟨0, (new.foldl (resampleStep tf) []).reverse,
      fun c hc => foldl_step_plain tf new [] (by simp) hnew c (List.mem_reverse.1 hc), by simp, by simp, by simp⟩
  | @cons bl dl br dr hcd hrest =>
    obtain ⟨v, rfl⟩ := hcd
    have hlen : br.length = dr.length := Decor.length_eq hrest
    have h0 : StepRel (setKey ind.isSub ind.name v bl) bl [setKey ind.isSub ind.name v bl] [bl] :=
      Or.inl ⟨[], by simp, rfl, rfl⟩
    have hrel := stepRel_foldl tf _ bl (setKey_ts _ _ _ _) (merge_setKey _ _ _ _) new _ _ hnew h0
    have e1 := foldl_step_tail tf new [setKey ind.isSub ind.name v bl] dr (by simp)
    have e2 := foldl_step_tail tf new [bl] br (by simp)
    simp only [List.singleton_append] at e1 e2
    rw [e1, e2]
    rcases hrel with ⟨X, hX, h1, h2⟩ | ⟨hp, heq⟩
    · refine ⟨dr.length + 1, X.reverse, fun c hc => hX c (List.mem_reverse.1 hc), by simp, ?_, ?_⟩
      · rw [h1]; simp [List.take_of_length_le]
      · rw [h2]; simp [List.take_of_length_le, hlen]
    · refine ⟨dr.length, (new.foldl (resampleStep tf) [bl]).reverse, ?_, by simp, ?_, ?_⟩
      · intro c hc; rw [← heq] at hc; exact hp c (List.mem_reverse.1 hc)
      · rw [heq]; simp [List.take_append_of_le_length]
      · simp [List.take_append_of_le_length, hlen]

/-! ### streams for a collapsing timeframe -/

/-- a well-formed raw stream for a collapsing timeframe: stamped, unconverted, non-decreasing
timestamps, no readings -/
structure RawTf (xs : List (Candle F)) : Prop where
  stamped : ∀ c ∈ xs, c.ts ≠ none
  cleanNone : ∀ c ∈ xs, c.clean = none
  sorted : (xs.filterMap (·.ts)).Pairwise (· ≤ ·)
  plain : ∀ c ∈ xs, Plain c

theorem RawTf.cleanOk {xs : List (Candle F)} (h : RawTf xs) (tf : Int) : ∀ c ∈ xs, CleanOk tf c := by
  intro c hc k hk; rw [h.cleanNone c hc] at hk; cases hk

theorem RawTf.append_left {a b : List (Candle F)} (h : RawTf (a ++ b)) : RawTf a :=
  ⟨fun c hc => h.stamped c (by simp [hc]), fun c hc => h.cleanNone c (by simp [hc]),
   by have := h.sorted; rw [List.filterMap_append] at this; exact (List.pairwise_append.1 this).1,
   fun c hc => h.plain c (by simp [hc])⟩

theorem RawTf.append_right {a b : List (Candle F)} (h : RawTf (a ++ b)) : RawTf b :=
  ⟨fun c hc => h.stamped c (by simp [hc]), fun c hc => h.cleanNone c (by simp [hc]),
   by have := h.sorted; rw [List.filterMap_append] at this; exact (List.pairwise_append.1 this).2.1,
   fun c hc => h.plain c (by simp [hc])⟩

/-- the timeframe-only configuration -/
def cfgTf (tf : Int) : MgrCfg := { tf := some tf }

theorem tasks_cfgTf (tf : Int) (cs : List (Candle F)) :
    tasks (cfgTf tf) cs = collapseCandles (some tf) false cs := by
  unfold tasks cfgTf trimCandles
  cases collapseCandles (some tf) false cs <;> simp [bind, Except.bind]

theorem tasks_tf_raw (tf : Int) (htf : 0 < tf) (xs : List (Candle F)) (h : RawTf xs) :
    tasks (cfgTf tf) xs = .ok (resample tf xs) := by
  rw [tasks_cfgTf, collapse_eq_resample tf htf xs
    (by intro c hc; exact h.stamped c (List.mem_of_mem_head? hc)) (h.cleanOk tf)
    (labelsMono_of_sorted tf htf xs h.sorted)]

/-- **One append on a collapsing timeframe.**  `done` decorates the buckets of the stream so far;
after the manager's tasks over `done ++ new` the list is a prefix of `done` (all of it, or all
but the re-opened last bucket) followed by raw candles, and the same split describes the
resampling of the longer stream. -/
theorem tasks_tf_append (tf : Int) (htf : 0 < tf) (ind : Ind F) (s new done : List (Candle F))
    (h : RawTf (s ++ new)) (hd : Decor ind (resample tf s) done) :
    ∃ (k : Nat) (Q : List (Candle F)), (∀ c ∈ Q, Plain c) ∧ done.length ≤ k + 1 ∧
      tasks (cfgTf tf) (done ++ new) = .ok (done.take k ++ Q) ∧
      resample tf (s ++ new) = (resample tf s).take k ++ Q := by
  have hs : RawTf s := h.append_left
  have hn : RawTf new := h.append_right
  have hcs := hs.cleanOk tf
  have hms : LabelsMono tf s := labelsMono_of_sorted tf htf s hs.sorted
  have hb : BucketedR tf (resampleR tf s) := resampleR_bucketed tf htf s hcs hms
  have hprops := resampleR_props tf s hcs
  -- the decorated list collapses to its own resampling fold
  have hmono : LabelsMono tf (done ++ new) := by
    have := labelsMono_resample_append tf htf s new hcs (labelsMono_of_sorted tf htf _ h.sorted)
    unfold LabelsMono at this ⊢
    rw [labels_append] at this ⊢
    rw [hd.labels_eq tf]; exact this
  have hclean : ∀ c ∈ done ++ new, CleanOk tf c := by
    intro c hc
    rcases List.mem_append.1 hc with hc | hc
    · exact hd.cleanOk tf (fun x hx => hprops.1 x (List.mem_reverse.1 hx)) c hc
    · exact hn.cleanOk tf c hc
  have hdR : Decor ind (resampleR tf s) done.reverse := by
    have := hd.reverse; unfold resample at this; simpa using this
  have hbD : BucketedR tf done.reverse := hdR.bucketedR tf hb
  have hfirst : ∀ c, (done ++ new).head? = some c → c.ts ≠ none := by
    intro c hc
    cases hdone : done with
    | nil =>
      rw [hdone] at hc
      exact hn.stamped c (List.mem_of_mem_head? (by simpa using hc))
    | cons y yr =>
      rw [hdone] at hc; simp at hc; subst hc
      obtain ⟨t, ht, _⟩ := hbD.stamped y (by rw [hdone]; simp)
      simp [ht]
  have hcol := collapse_eq_resample tf htf (done ++ new) hfirst hclean hmono
  -- split both folds
  have hselfD : resampleR tf done = done.reverse := by
    have := resampleR_reverse_self tf done.reverse hbD; simpa using this
  have hselfB : resampleR tf (s ++ new) = new.foldl (resampleStep tf) (resampleR tf s) := by
    simp [resampleR, List.foldl_append]
  obtain ⟨k, Q, hQ, hk, e1, e2⟩ := foldl_decor tf ind (resampleR tf s) done.reverse new hdR hn.plain
  refine ⟨k, Q, hQ, by simpa using hk, ?_, ?_⟩
  · rw [tasks_cfgTf, hcol]
    congr 1
    unfold resample
    have : resampleR tf (done ++ new) = new.foldl (resampleStep tf) (resampleR tf done) := by
      simp [resampleR, List.foldl_append]
    rw [this, hselfD, e1]; simp
  · unfold resample
    rw [hselfB, e2]

/-! ### the indicator object on a collapsing timeframe -/

theorem IndState.calculate_refines_cfg (ind : Ind F) (hl : IsLeaf ind) (K : Contract ind) (cfg : MgrCfg)
    (raw₁ raw₂ done : List (Candle F)) (a : Int)
    (h₁ : rowMajor ind raw₁ = .ok done) (hp₁ : ∀ c ∈ raw₁, Plain c) (hp₂ : ∀ c ∈ raw₂, Plain c) :
    (∃ e, IndState.calculate ({ tree := ind, mgr := { cfg := cfg, candles := done ++ raw₂ }, active := a } : IndState F)
            = .error e ∧ rowMajor ind (raw₁ ++ raw₂) = .error e) ∨
    (∃ out a', IndState.calculate ({ tree := ind, mgr := { cfg := cfg, candles := done ++ raw₂ }, active := a } : IndState F)
            = .ok { tree := ind, mgr := { cfg := cfg, candles := out }, active := a' } ∧
          rowMajor ind (raw₁ ++ raw₂) = .ok out) := by
  rw [IndState.calculate_leaf _ hl]
  have href := leafCalc_refines ind K raw₁ raw₂ done h₁ hp₁ hp₂
  simp only
  rw [href]
  cases hr : rowMajor ind (raw₁ ++ raw₂) with
  | error e => exact Or.inl ⟨e, rfl, rfl⟩
  | ok out => exact Or.inr ⟨out, _, rfl, rfl⟩

/-- On a collapsing timeframe a reading computed on the still-forming bucket may raise although
the batch run (which only sees the finished bucket) does not, so the statement is: IF the live
history runs, it ends with the row-major run over the resampled whole stream. -/
theorem appends_tf_refine (tf : Int) (htf : 0 < tf) (ind : Ind F) (hl : IsLeaf ind) (K : Contract ind)
    (chunks : List (List (Candle F))) :
    ∀ (s done : List (Candle F)) (a : Int), rowMajor ind (resample tf s) = .ok done →
      RawTf (s ++ chunks.flatten) → ∀ snap,
      candlesOf (chunks.foldlM (fun (st : IndState F) ch => st.append ch)
          { tree := ind, mgr := { cfg := cfgTf tf, candles := done }, active := a }) = .ok snap →
      rowMajor ind (resample tf (s ++ chunks.flatten)) = .ok snap := by
  induction chunks with
  | nil =>
    intro s done a h _ snap hsnap
    simp only [candlesOf, List.foldlM_nil, pure, Except.pure, Except.map] at hsnap
    cases hsnap
    simpa using h
  | cons ch rest ih =>
    intro s done a h hraw snap hsnap
    have hraw' : RawTf ((s ++ ch) ++ rest.flatten) := by simpa [List.append_assoc] using hraw
    have hsch : RawTf (s ++ ch) := hraw'.append_left
    have hplainS : ∀ c ∈ resample tf s, Plain c := resample_plain tf s hsch.append_left.plain
    simp only [List.foldlM_cons, List.flatten_cons] at hsnap ⊢
    -- the state after the manager's part of `append`
    have key : ∃ (raw₁ raw₂ d₁ : List (Candle F)), rowMajor ind raw₁ = .ok d₁ ∧
        (∀ c ∈ raw₁, Plain c) ∧ (∀ c ∈ raw₂, Plain c) ∧ raw₁ ++ raw₂ = resample tf (s ++ ch) ∧
        IndState.append ({ tree := ind, mgr := { cfg := cfgTf tf, candles := done }, active := a } : IndState F) ch
          = IndState.calculate { tree := ind, mgr := { cfg := cfgTf tf, candles := d₁ ++ raw₂ }, active := a } := by
      by_cases hch : ch = []
      · subst hch
        refine ⟨resample tf s, [], done, h, hplainS, by simp, by simp, ?_⟩
        simp [IndState.append, Manager.append, bind, Except.bind]
      · obtain ⟨k, Q, hQ, _, ht, hres⟩ := tasks_tf_append tf htf ind s ch done hsch (rowMajor_shape ind _ done h)
        refine ⟨(resample tf s).take k, Q, done.take k, rowMajor_take ind _ done h k,
          fun c hc => hplainS c (List.mem_of_mem_take hc), hQ, hres.symm, ?_⟩
        have hne : ch.isEmpty = false := by cases ch <;> simp at hch ⊢
        simp only [IndState.append, Manager.append, hne, Bool.false_eq_true, if_false, ht, bind, Except.bind]
        rfl
    obtain ⟨raw₁, raw₂, d₁, hr₁, hp₁, hp₂, hsplit, happ⟩ := key
    rw [happ] at hsnap
    rw [← List.append_assoc]
    rcases IndState.calculate_refines_cfg ind hl K (cfgTf tf) raw₁ raw₂ d₁ a hr₁ hp₁ hp₂ with
      ⟨e, hc, _⟩ | ⟨out, a', hc, hr⟩
    · rw [hc] at hsnap; cases hsnap
    · rw [hsplit] at hr
      rw [hc] at hsnap
      simp only [bind, Except.bind] at hsnap
      exact ih (s ++ ch) out a' hr hraw' snap hsnap

/-- **Framework refinement on a collapsing timeframe.**  If the live history (construction over
`init`, `calculate()`, any appends) runs, its candles are exactly the row-major run of the leaf
indicator over the resampled whole stream. -/
theorem runIndicator_tf_refines (tf : Int) (htf : 0 < tf) (ind : Ind F) (hl : IsLeaf ind)
    (K : Contract ind) (init : List (Candle F)) (chunks : List (List (Candle F)))
    (hraw : RawTf (init ++ chunks.flatten)) (snap : List (Candle F))
    (hsnap : candlesOf (runIndicator ind (cfgTf tf) init chunks) = .ok snap) :
    rowMajor ind (resample tf (init ++ chunks.flatten)) = .ok snap := by
  have hinit : RawTf init := hraw.append_left
  unfold runIndicator IndState.init Manager.init at hsnap
  rw [tasks_tf_raw tf htf init hinit] at hsnap
  simp only [bind, Except.bind, pure, Except.pure] at hsnap
  have h0 : rowMajor ind ([] : List (Candle F)) = .ok [] := rfl
  rcases IndState.calculate_refines_cfg ind hl K (cfgTf tf) [] (resample tf init) [] 0 h0 (by simp)
      (resample_plain tf init hinit.plain) with ⟨e, hc, _⟩ | ⟨out, a', hc, hr⟩
  · simp only [List.nil_append] at hc
    rw [hc] at hsnap; cases hsnap
  · simp only [List.nil_append] at hc hr
    rw [hc] at hsnap
    simp only [bind, Except.bind] at hsnap
    exact appends_tf_refine tf htf ind hl K chunks init out a' hr hraw snap hsnap

end Hex

namespace Hex
set_option linter.unusedSectionVars false
variable {F : Type} [PyF F]

/-- the batch run on a collapsing timeframe IS the row-major run over the resampled stream (same
exception if a reading raises) -/
theorem runBatch_tf (tf : Int) (htf : 0 < tf) (ind : Ind F) (hl : IsLeaf ind) (K : Contract ind)
    (stream : List (Candle F)) (hraw : RawTf stream) :
    candlesOf (runIndicator ind (cfgTf tf) stream []) = rowMajor ind (resample tf stream) := by
  unfold runIndicator IndState.init Manager.init
  rw [tasks_tf_raw tf htf stream hraw]
  simp only [bind, Except.bind, pure, Except.pure, List.foldlM_nil]
  have h0 : rowMajor ind ([] : List (Candle F)) = .ok [] := rfl
  rcases IndState.calculate_refines_cfg ind hl K (cfgTf tf) [] (resample tf stream) [] 0 h0 (by simp)
      (resample_plain tf stream hraw.plain) with ⟨e, hc, hr⟩ | ⟨out, a', hc, hr⟩
  · simp only [List.nil_append] at hc hr
    rw [hc, hr]; rfl
  · simp only [List.nil_append] at hc hr
    rw [hc, hr]; rfl

/-- **Closed buckets are final.**  Resampling a longer stream keeps every bucket of the shorter
one except possibly the last (still forming) one – with the readings of a finished run. -/
theorem closed_prefix_tf (tf : Int) (htf : 0 < tf) (ind : Ind F) (s new snap₁ snap₂ : List (Candle F))
    (hraw : RawTf (s ++ new)) (h₁ : rowMajor ind (resample tf s) = .ok snap₁)
    (h₂ : rowMajor ind (resample tf (s ++ new)) = .ok snap₂) : snap₁.dropLast <+: snap₂ := by
  obtain ⟨k, Q, _, hk, _, hres⟩ := tasks_tf_append tf htf ind s new snap₁ hraw (rowMajor_shape ind _ snap₁ h₁)
  rw [hres] at h₂
  obtain ⟨d, hd, hpre, _⟩ := rowMajor_prefix ind _ _ snap₂ h₂
  have hd' := rowMajor_take ind _ snap₁ h₁ k
  rw [hd'] at hd
  cases hd
  refine List.IsPrefix.trans ?_ hpre
  rw [List.dropLast_eq_take]
  have : List.take (snap₁.length - 1) snap₁ = List.take (snap₁.length - 1) (List.take k snap₁) := by
    rw [List.take_take]; congr 1; omega
  rw [this]
  exact List.take_prefix _ _

end Hex

import HexProofs.Framework.Contract
/-
Reading names.  `readingByCandle` dispatches on `splitDot name` (Python `name.split(".")`), which
is kernel-reducible: `NoDot "close"` etc. are proved by `decide`.
-/
namespace Hex
set_option linter.unusedSectionVars false
variable {F : Type} [PyF F]

/-- the name has no `.`: `readingByCandle` treats it as a candle attribute or a plain key -/
def NoDot (name : String) : Prop := splitDot name = [name]

instance (name : String) : Decidable (NoDot name) := by unfold NoDot; infer_instance

/-- an ordinary reading key: no dot and not the name of a candle attribute -/
structure IsKey (name : String) : Prop where
  noDot : NoDot name
  notAttr : name ∉ Candle.attrNames

instance (name : String) : Decidable (IsKey name) :=
  if h : NoDot name ∧ name ∉ Candle.attrNames then isTrue ⟨h.1, h.2⟩
  else isFalse (fun k => h ⟨k.noDot, k.notAttr⟩)

theorem noDot_open : NoDot "open" := by decide
theorem noDot_high : NoDot "high" := by decide
theorem noDot_low : NoDot "low" := by decide
theorem noDot_close : NoDot "close" := by decide
theorem noDot_volume : NoDot "volume" := by decide

/-- the entry stored under a plain key: `.indicators` first, then `.sub_indicators` -/
def lookupKey (c : Candle F) (name : String) : Val F :=
  match dlookup name c.inds with
  | some v => v
  | none => match dlookup name c.subs with
    | some v => v
    | none => .none

theorem attr_none_of_not_mem (c : Candle F) (name : String) (h : name ∉ Candle.attrNames) :
    c.attr name = none := by
  simp only [Candle.attrNames, List.mem_cons, List.not_mem_nil, or_false, not_or] at h
  obtain ⟨h1, h2, h3, h4, h5, h6, h7, h8, h9, h10, h11⟩ := h
  simp [Candle.attr, h1, h2, h3, h4, h5, h6, h7, h8, h9, h10, h11]

theorem attr_some_of_mem (c : Candle F) (name : String) (h : name ∈ Candle.attrNames) :
    ∃ v, c.attr name = some v := by
  simp only [Candle.attrNames, List.mem_cons, List.not_mem_nil, or_false] at h
  unfold Candle.attr
  rcases h with h | h | h | h | h | h | h | h | h | h | h <;> subst h <;> simp

theorem readingByCandle_key (name : String) (h : IsKey name) (c : Candle F) :
    readingByCandle c name = lookupKey c name := by
  unfold readingByCandle lookupKey
  rw [h.noDot, attr_none_of_not_mem c name h.notAttr]
  rfl

theorem readingByCandle_attr (name : String) (hd : NoDot name) (c : Candle F) (v : Val F)
    (h : c.attr name = some v) : readingByCandle c name = v := by
  unfold readingByCandle
  rw [hd, h]

theorem attr_setKey (isSub : Bool) (name : String) (v : Val F) (c : Candle F) (a : String) :
    (setKey isSub name v c).attr a = c.attr a := by
  cases isSub <;> rfl

/-- reading `input` off a candle does not see the entry stored under `name` -/
def Indep (F : Type) [PyF F] (name input : String) : Prop :=
  ∀ (isSub : Bool) (v : Val F) (c : Candle F),
    readingByCandle (setKey isSub name v c) input = readingByCandle c input

/-- candle attributes (prices, volume, geometry) are independent of every stored entry -/
theorem indep_attr (name input : String) (hd : NoDot input) (hin : input ∈ Candle.attrNames) :
    Indep F name input := by
  intro isSub v c
  obtain ⟨w, hw⟩ := attr_some_of_mem c input hin
  rw [readingByCandle_attr input hd c w hw,
      readingByCandle_attr input hd _ w (by rw [attr_setKey]; exact hw)]

/-- the reading stored by `setKey` is what a plain-key look-up on a raw candle returns -/
theorem readingByCandle_setKey (isSub : Bool) (name : String) (hk : IsKey name) (v : Val F)
    (c : Candle F) (hc : Plain c) : readingByCandle (setKey isSub name v c) name = v := by
  rw [readingByCandle_key name hk]
  unfold lookupKey setKey
  cases isSub
  · simp [dlookup_dset_self]
  · simp [hc.1, dlookup_dset_self]

theorem readingByCandle_plain (name : String) (hk : IsKey name) (c : Candle F) (hc : Plain c) :
    readingByCandle c name = .none := by
  rw [readingByCandle_key name hk]
  unfold lookupKey
  rw [hc.1, hc.2]; rfl

end Hex

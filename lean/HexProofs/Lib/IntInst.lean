import HexModel.Py.Arith
/-
A decidable toy carrier (`F := Int`) used ONLY for concrete witnesses and non-vacuity examples
(`decide`): the ∀F theorems apply to it like to any other instance.
-/
namespace Hex
instance toyInt : PyF Int where
  add := (· + ·)
  sub := (· - ·)
  mul := (· * ·)
  div := (· / ·)
  neg := fun x => -x
  abs := fun x => Int.natAbs x
  sqrt := fun x => Nat.sqrt x.toNat
  pow := fun a b => a ^ b.toNat
  ofInt := id
  lt := fun a b => decide (a < b)
  le := fun a b => decide (a ≤ b)
  beq := fun a b => a == b
  isZero := fun x => x == 0
  isFinite := fun _ => true
  round := fun _ x => x
end Hex

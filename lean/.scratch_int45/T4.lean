import HexProofs.Numeric.AvgExtra
import HexProofs.Numeric.Composite
import HexProofs.Numeric.SeriesMore
import HexProofs.Numeric.Demo
import HexProofs.Numeric.SeriesHMA

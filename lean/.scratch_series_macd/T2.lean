import HexProofs.Framework.Gen.MACD
import HexProofs.Numeric.SeriesATR
import HexProofs.Numeric.SeriesRSI
namespace Hex
namespace Numeric
variable {K : Type} [Field K] [LinearOrder K] [IsStrictOrderedRing K] [LawfulPyF K]

/-- the candle after the two helper writes -/
def macdC2 (nm : String) (vf vs : Val K) (c : Candle K) : Candle K :=
  setKey true (nm ++ "_EMA_slow") vs (setKey true (nm ++ "_EMA_fast") vf c)

/-- the finished candle of a MACD row -/
def macdC3 (nm : String) (vf vs : Val K) (d : Option (Val K)) (own : Val K) (c : Candle K) : Candle K :=
  setKey false nm own (setD (nm ++ "_signal_line") d (macdC2 nm vf vs c))

abbrev mkCtx (H : List (Candle K)) (c : Candle K) (name : String) : Ctx K :=
  { cs := H ++ [c], i := H.length, name := name }

theorem macd_rowStep_ok (nm : String) (n : Nat) (pf ps pg : Int) (input : String)
    (hf : 1 ≤ pf) (hs : 1 ≤ ps) (hg : 1 ≤ pg) (hn : MacdNames nm)
    (hin : NoDot input ∧ input ∈ Candle.attrNames) (H : List (Candle K)) (c : Candle K)
    (vf vs v : Val K) (d : Option (Val K)) (fin : PyM (Val K))
    (h1 : Calc.ema (mkCtx H c (nm ++ "_EMA_fast")) pf input (fl 2) = .ok vf)
    (h2 : Calc.ema (mkCtx H (setKey true (nm ++ "_EMA_fast") (vf.roundBy defaultRound) c) (nm ++ "_EMA_slow"))
        ps input (fl 2) = .ok vs)
    (h3 : macdR pg (mkCtx H (macdC2 nm (vf.roundBy defaultRound) (vs.roundBy defaultRound) c) nm) = .ok (d, fin))
    (h4 : fin = .ok v) :
    Gen.rowStep (macdTree (F := K) nm n pf ps pg input hf hs hg hn hin).S H c =
      .ok (H ++ [macdC3 nm (vf.roundBy defaultRound) (vs.roundBy defaultRound) d (v.roundBy n) c]) := by
  have e : Gen.rowStep (macdTree (F := K) nm n pf ps pg input hf hs hg hn hin).S H c = (do
      let z ← (macdComp (F := K) nm n pf ps pg input hf hs hg hn hin).val H c
      pure (H ++ [(macdComp (F := K) nm n pf ps pg input hf hs hg hn hin).app z c])) :=
    TComp.rowStep_spec _ _ H c
  rw [e]
  have hv : (macdComp (F := K) nm n pf ps pg input hf hs hg hn hin).val H c = .ok ((vf, vs), (d, v)) := by
    show (do
      let x ← (do
        let x ← valOf (macdEf nm pf input) H c
        let q ← valOf (macdEs nm ps input) H (decOf (macdEf nm pf input) x c)
        pure (x, q))
      let q ← (do
        let (d, fin) ← macdR pg (mkCtx H (decOf (macdEs nm ps input) x.2 (decOf (macdEf nm pf input) x.1 c)) nm)
        let v ← fin
        pure (d, v))
      pure (x, q) : PyM ((Val K × Val K) × (Option (Val K) × Val K))) = _
    have e1 : valOf (macdEf nm pf input) H c = .ok vf := h1
    rw [e1]
    simp only [pym_bind_ok]
    have e2 : valOf (macdEs nm ps input) H (decOf (macdEf nm pf input) vf c) = .ok vs := h2
    rw [e2]
    simp only [pym_bind_ok, pym_pure]
    have e3 : macdR pg (mkCtx H (decOf (macdEs nm ps input) vs (decOf (macdEf nm pf input) vf c)) nm)
        = .ok (d, fin) := h3
    rw [e3, h4]
    rfl
  rw [hv]
  rfl

end Numeric
end Hex

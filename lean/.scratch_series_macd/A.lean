import HexProofs.Framework.Gen.MACD
import HexProofs.Numeric.SeriesATR
import HexProofs.Numeric.SeriesRSI
set_option linter.unusedSectionVars false
set_option linter.unusedSimpArgs false
namespace Hex
namespace Numeric
variable {K : Type} [Field K] [LinearOrder K] [IsStrictOrderedRing K] [LawfulPyF K]

/-- the EMA smoothing constant `2/(period+1)` -/
def emaAlpha (p : Nat) : K := 2 / ((p : K) + 1)

theorem emaAlpha_pos (p : Nat) : (0 : K) < emaAlpha p := by
  unfold emaAlpha; positivity

theorem emaAlpha_le_one (p : Nat) (hp : 1 ≤ p) : emaAlpha (K := K) p ≤ 1 := by
  unfold emaAlpha
  have : (1 : K) ≤ p := by exact_mod_cast hp
  rw [div_le_one (by linarith)]; linarith

theorem fl_two_toF : (fl 2 : Num K).toF = 2 := by
  simp [fl, LawfulPyF.ofInt_eq]

/-- the STORED exponential average -/
def recSt (n : Nat) (a seed : K) (x : Nat → K) (q : Nat) : Nat → K
  | 0 => PyF.round n seed
  | j + 1 => if j + 1 < q then PyF.round n seed
             else PyF.round n (a * x (j + 1) + recSt n a seed x q j * (1 - a))

theorem recSt_seed (n : Nat) (a seed : K) (x : Nat → K) (q j : Nat) (h : j < q) :
    recSt n a seed x q j = PyF.round n seed := by
  cases j with
  | zero => rfl
  | succ i => simp [recSt, h]

theorem recSt_step (n : Nat) (a seed : K) (x : Nat → K) (q j : Nat) (h : q ≤ j) (hq : 1 ≤ q) :
    recSt n a seed x q j = PyF.round n (a * x j + recSt n a seed x q (j - 1) * (1 - a)) := by
  obtain ⟨i, rfl⟩ : ∃ i, j = i + 1 := ⟨j - 1, by omega⟩
  have : ¬ i + 1 < q := by omega
  simp [recSt, this]

/-- the stored series stays within `ε/a` of the exact one -/
theorem recSt_err (n : Nat) (a seed : K) (x : Nat → K) (q : Nat) (hq : 1 ≤ q) (ha0 : 0 < a) (ha1 : a ≤ 1)
    (j : Nat) : |recSt n a seed x q j - recExact a seed x q j| ≤ eps K n / a := by
  induction j with
  | zero =>
    rw [recSt_seed _ _ _ _ _ _ (by omega), recExact_seed _ _ _ _ _ (by omega)]
    exact le_trans (LawfulPyF.round_err n _) (eps_le_div n _ ha0 ha1)
  | succ i ih =>
    by_cases h : i + 1 < q
    · rw [recSt_seed _ _ _ _ _ _ h, recExact_seed _ _ _ _ _ h]
      exact le_trans (LawfulPyF.round_err n _) (eps_le_div n _ ha0 ha1)
    · rw [recSt_step _ _ _ _ _ _ (by omega) hq, recExact_step _ _ _ _ _ (by omega) hq]
      simp only [Nat.add_sub_cancel]
      rw [mul_comm (recSt n a seed x q i)]
      exact ema_error_budget n a (x (i + 1)) _ _ ha0 ha1 ih

/-- the stored reading: `None` before the seed index `q − 1` -/
def recStV (n : Nat) (a seed : K) (x : Nat → K) (q : Nat) (j : Nat) : Val K :=
  if j + 1 < q then .none else .flt (recSt n a seed x q j)

theorem recStV_ok (n : Nat) (a seed : K) (x : Nat → K) (q : Nat) (hq : 1 ≤ q) (ha0 : 0 < a) (ha1 : a ≤ 1)
    (j : Nat) : RecOK q n a (recExact a seed x q) j (recStV n a seed x q j) := by
  unfold recStV
  refine ⟨fun h => by rw [if_pos h], fun h => ?_⟩
  rw [if_neg (by omega)]
  exact ⟨_, rfl, recSt_err n a seed x q hq ha0 ha1 j⟩

theorem winMean_eq (x : Nat → K) (p o : Nat) (hp : 1 ≤ p) :
    winMean x p (o + p - 1) = rsum p (fun k => x (o + k)) / p := by
  unfold winMean
  congr 2
  funext k
  congr 1
  omega

/-! ### what a call sees on `H ++ [c]` -/

abbrev mkCtx (H : List (Candle K)) (c : Candle K) (name : String) : Ctx K :=
  { cs := H ++ [c], i := H.length, name := name }

theorem mkCtx_reading (H : List (Candle K)) (c : Candle K) (name key : String) (j : Nat) (hj : j ≤ H.length) :
    (mkCtx H c name).reading key (some (j : Int))
      = .ok (if j < H.length then readingByCandle (H.getD j default) key else readingByCandle c key) := by
  unfold Ctx.reading
  simp only [Option.getD_some]
  rw [pyIndex_nonneg _ _ (by omega)]
  simp only [Int.toNat_natCast]
  by_cases h : j < H.length
  · rw [List.getElem?_append_left h, if_pos h, List.getD_eq_getElem?_getD, List.getElem?_eq_getElem h]
    rfl
  · have : j = H.length := by omega
    subst this
    rw [if_neg h]
    simp [getOrIndexError]

/-- `reading_period(q, key)` when the column of `key` is `None` exactly below index `o` -/
theorem mkCtx_period (H : List (Candle K)) (c : Candle K) (name key : String) (o : Nat) (g : Nat → Val K)
    (hrd : ∀ j, j ≤ H.length → (mkCtx H c name).reading key (some (j : Int)) = .ok (g j))
    (hnone : ∀ j, j ≤ H.length → (g j).isNone = decide (j < o)) (q : Nat) (hq : 1 ≤ q) :
    (mkCtx H c name).readingPeriod (q : Int) key = decide (o + q ≤ H.length + 1) := by
  have hl : (mkCtx H c name).cs.length = H.length + 1 := by simp
  have hrd' : ∀ j : Nat, j ≤ H.length →
      (readingByIndex (mkCtx H c name).cs key (j : Int)).isNone = decide (j < o) := by
    intro j hj
    have hv : validIndex (j : Int) (mkCtx H c name).cs.length = true := by
      rw [hl]; simp [validIndex]; omega
    have := hrd j hj
    unfold Ctx.reading at this
    simp only [Option.getD_some] at this
    unfold readingByIndex
    rw [hv]
    cases hpi : pyIndex (mkCtx H c name).cs (j : Int) with
    | error e => rw [hpi] at this; simp at this
    | ok c' =>
      rw [hpi] at this
      simp only [pym_bind_ok, pym_pure, Except.ok.injEq] at this
      simp only [if_true, this]
      exact hnone j hj
  unfold Ctx.readingPeriod Hex.readingPeriod
  simp only [Option.getD_none]
  have hv : validIndex (mkCtx H c name).i (mkCtx H c name).cs.length = true := by
    rw [hl]; simp [validIndex]; omega
  simp only [hv, Bool.not_true, Bool.false_eq_true, if_false]
  by_cases hqm : q ≤ H.length + 1
  · have a : ¬ ((H.length : Int) - ((q : Int) - 1) < 0) := by omega
    have b : (q : Int) - 1 ≥ 0 := by omega
    simp only [a, if_false, b, ge_iff_le, if_true]
    have e1 : (H.length : Int) - ((q : Int) - 1) = ((H.length + 1 - q : Nat) : Int) := by omega
    have e2 : (H.length : Int) - ((q : Int) - 1) / 2 = ((H.length - (q - 1) / 2 : Nat) : Int) := by omega
    rw [e1, e2, hrd' _ (by omega), hrd' _ (by omega), hrd' H.length (le_refl _)]
    by_cases hqm' : o + q ≤ H.length + 1
    · have c1 : ¬ H.length + 1 - q < o := by omega
      have c2 : ¬ H.length - (q - 1) / 2 < o := by omega
      have c3 : ¬ H.length < o := by omega
      simp [c1, c2, c3, hqm']
    · have c1 : H.length + 1 - q < o := by omega
      simp [c1, hqm']
  · have a : (H.length : Int) - ((q : Int) - 1) < 0 := by omega
    have : ¬ o + q ≤ H.length + 1 := by omega
    simp [a, this]

end Numeric
end Hex

import HexProofs.Framework.Gen.MACD
import HexProofs.Numeric.SeriesATR
import HexProofs.Numeric.SeriesRSI
namespace Hex
namespace Numeric
variable {K : Type} [Field K] [LinearOrder K] [IsStrictOrderedRing K] [LawfulPyF K]

theorem macd_rowStep (nm : String) (n : Nat) (pf ps pg : Int) (input : String)
    (hf : 1 ≤ pf) (hs : 1 ≤ ps) (hg : 1 ≤ pg) (hn : MacdNames nm)
    (hin : NoDot input ∧ input ∈ Candle.attrNames) (H : List (Candle K)) (c : Candle K) :
    Gen.rowStep (macdTree (F := K) nm n pf ps pg input hf hs hg hn hin).S H c = (do
      let z ← (macdComp (F := K) nm n pf ps pg input hf hs hg hn hin).val H c
      pure (H ++ [(macdComp (F := K) nm n pf ps pg input hf hs hg hn hin).app z c])) :=
  TComp.rowStep_spec _ _ H c

end Numeric
end Hex

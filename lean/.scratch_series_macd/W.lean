import HexProofs.Framework.Gen.MACD
import HexProofs.Numeric.SeriesATR
import HexProofs.Numeric.SeriesRSI
set_option linter.unusedSectionVars false
set_option linter.unusedSimpArgs false
namespace Hex
namespace Numeric
variable {K : Type} [Field K] [LinearOrder K] [IsStrictOrderedRing K] [LawfulPyF K]

/-- the EMA smoothing constant `2/(period+1)` -/
def emaAlpha (p : Nat) : K := 2 / ((p : K) + 1)

theorem emaAlpha_pos (p : Nat) : (0 : K) < emaAlpha p := by
  unfold emaAlpha; positivity

theorem emaAlpha_le_one (p : Nat) (hp : 1 ≤ p) : emaAlpha (K := K) p ≤ 1 := by
  unfold emaAlpha
  have : (1 : K) ≤ p := by exact_mod_cast hp
  rw [div_le_one (by linarith)]; linarith

theorem fl_two_toF : (fl 2 : Num K).toF = 2 := by
  simp [fl, LawfulPyF.ofInt_eq]

/-- the STORED exponential average -/
def recSt (n : Nat) (a seed : K) (x : Nat → K) (q : Nat) : Nat → K
  | 0 => PyF.round n seed
  | j + 1 => if j + 1 < q then PyF.round n seed
             else PyF.round n (a * x (j + 1) + recSt n a seed x q j * (1 - a))

theorem recSt_seed (n : Nat) (a seed : K) (x : Nat → K) (q j : Nat) (h : j < q) :
    recSt n a seed x q j = PyF.round n seed := by
  cases j with
  | zero => rfl
  | succ i => simp [recSt, h]

theorem recSt_step (n : Nat) (a seed : K) (x : Nat → K) (q j : Nat) (h : q ≤ j) (hq : 1 ≤ q) :
    recSt n a seed x q j = PyF.round n (a * x j + recSt n a seed x q (j - 1) * (1 - a)) := by
  obtain ⟨i, rfl⟩ : ∃ i, j = i + 1 := ⟨j - 1, by omega⟩
  have : ¬ i + 1 < q := by omega
  simp [recSt, this]

/-- the stored series stays within `ε/a` of the exact one -/
theorem recSt_err (n : Nat) (a seed : K) (x : Nat → K) (q : Nat) (hq : 1 ≤ q) (ha0 : 0 < a) (ha1 : a ≤ 1)
    (j : Nat) : |recSt n a seed x q j - recExact a seed x q j| ≤ eps K n / a := by
  induction j with
  | zero =>
    rw [recSt_seed _ _ _ _ _ _ (by omega), recExact_seed _ _ _ _ _ (by omega)]
    exact le_trans (LawfulPyF.round_err n _) (eps_le_div n _ ha0 ha1)
  | succ i ih =>
    by_cases h : i + 1 < q
    · rw [recSt_seed _ _ _ _ _ _ h, recExact_seed _ _ _ _ _ h]
      exact le_trans (LawfulPyF.round_err n _) (eps_le_div n _ ha0 ha1)
    · rw [recSt_step _ _ _ _ _ _ (by omega) hq, recExact_step _ _ _ _ _ (by omega) hq]
      simp only [Nat.add_sub_cancel]
      rw [mul_comm (recSt n a seed x q i)]
      exact ema_error_budget n a (x (i + 1)) _ _ ha0 ha1 ih

/-- the stored reading: `None` before the seed index `q − 1` -/
def recStV (n : Nat) (a seed : K) (x : Nat → K) (q : Nat) (j : Nat) : Val K :=
  if j + 1 < q then .none else .flt (recSt n a seed x q j)

theorem recStV_ok (n : Nat) (a seed : K) (x : Nat → K) (q : Nat) (hq : 1 ≤ q) (ha0 : 0 < a) (ha1 : a ≤ 1)
    (j : Nat) : RecOK q n a (recExact a seed x q) j (recStV n a seed x q j) := by
  unfold recStV
  refine ⟨fun h => by rw [if_pos h], fun h => ?_⟩
  rw [if_neg (by omega)]
  exact ⟨_, rfl, recSt_err n a seed x q hq ha0 ha1 j⟩

theorem winMean_eq (x : Nat → K) (p o : Nat) (hp : 1 ≤ p) :
    winMean x p (o + p - 1) = rsum p (fun k => x (o + k)) / p := by
  unfold winMean
  congr 2
  funext k
  congr 1
  omega

/-! ### what a call sees on `H ++ [c]` -/

abbrev mkCtx (H : List (Candle K)) (c : Candle K) (name : String) : Ctx K :=
  { cs := H ++ [c], i := H.length, name := name }

theorem mkCtx_reading (H : List (Candle K)) (c : Candle K) (name key : String) (j : Nat) (hj : j ≤ H.length) :
    (mkCtx H c name).reading key (some (j : Int))
      = .ok (if j < H.length then readingByCandle (H.getD j default) key else readingByCandle c key) := by
  unfold Ctx.reading
  simp only [Option.getD_some]
  rw [pyIndex_nonneg _ _ (by omega)]
  simp only [Int.toNat_natCast]
  by_cases h : j < H.length
  · rw [List.getElem?_append_left h, if_pos h, List.getD_eq_getElem?_getD, List.getElem?_eq_getElem h]
    rfl
  · have : j = H.length := by omega
    subst this
    rw [if_neg h]
    simp [getOrIndexError]

/-- `reading_period(q, key)` when the column of `key` is `None` exactly below index `o` -/
theorem mkCtx_period (H : List (Candle K)) (c : Candle K) (name key : String) (o : Nat) (g : Nat → Val K)
    (hrd : ∀ j, j ≤ H.length → (mkCtx H c name).reading key (some (j : Int)) = .ok (g j))
    (hnone : ∀ j, j ≤ H.length → (g j).isNone = decide (j < o)) (q : Nat) (hq : 1 ≤ q) :
    (mkCtx H c name).readingPeriod (q : Int) key = decide (o + q ≤ H.length + 1) := by
  have hl : (mkCtx H c name).cs.length = H.length + 1 := by simp
  have hrd' : ∀ j : Nat, j ≤ H.length →
      (readingByIndex (mkCtx H c name).cs key (j : Int)).isNone = decide (j < o) := by
    intro j hj
    have hv : validIndex (j : Int) (mkCtx H c name).cs.length = true := by
      rw [hl]; simp [validIndex]; omega
    have := hrd j hj
    unfold Ctx.reading at this
    simp only [Option.getD_some] at this
    unfold readingByIndex
    rw [hv]
    cases hpi : pyIndex (mkCtx H c name).cs (j : Int) with
    | error e => rw [hpi] at this; simp at this
    | ok c' =>
      rw [hpi] at this
      simp only [pym_bind_ok, pym_pure, Except.ok.injEq] at this
      simp only [if_true, this]
      exact hnone j hj
  unfold Ctx.readingPeriod Hex.readingPeriod
  simp only [Option.getD_none]
  have hv : validIndex (mkCtx H c name).i (mkCtx H c name).cs.length = true := by
    rw [hl]; simp [validIndex]; omega
  simp only [hv, Bool.not_true, Bool.false_eq_true, if_false]
  by_cases hqm : q ≤ H.length + 1
  · have a : ¬ ((H.length : Int) - ((q : Int) - 1) < 0) := by omega
    have b : (q : Int) - 1 ≥ 0 := by omega
    simp only [a, if_false, b, ge_iff_le, if_true]
    have e1 : (H.length : Int) - ((q : Int) - 1) = ((H.length + 1 - q : Nat) : Int) := by omega
    have e2 : (H.length : Int) - ((q : Int) - 1) / 2 = ((H.length - (q - 1) / 2 : Nat) : Int) := by omega
    rw [e1, e2, hrd' _ (by omega), hrd' _ (by omega), hrd' H.length (le_refl _)]
    by_cases hqm' : o + q ≤ H.length + 1
    · have c1 : ¬ H.length + 1 - q < o := by omega
      have c2 : ¬ H.length - (q - 1) / 2 < o := by omega
      have c3 : ¬ H.length < o := by omega
      simp [c1, c2, c3, hqm']
    · have c1 : H.length + 1 - q < o := by omega
      simp [c1, hqm']
  · have a : (H.length : Int) - ((q : Int) - 1) < 0 := by omega
    have : ¬ o + q ≤ H.length + 1 := by omega
    simp [a, this]



/-- the stored EMA column over an input column `x` that starts at index `o`: `None` before index
`o + p − 1`, the rounded mean of `x o … x (o+p−1)` there, then the rounded recurrence on the stored
predecessor (all roundings to `defaultRound = 4` decimals: a helper's `round_value`) -/
def emaColF (p o : Nat) (x : Nat → K) : Nat → K :=
  recSt defaultRound (emaAlpha p) (rsum p (fun k => x (o + k)) / p) x (o + p)

def emaCol (p o : Nat) (x : Nat → K) : Nat → Val K :=
  recStV defaultRound (emaAlpha p) (rsum p (fun k => x (o + k)) / p) x (o + p)

/-- the textbook EMA of the column: seeded at `o + p − 1` with the plain mean of the first `p`
inputs, then `r j = a·x j + (1 − a)·r (j−1)`, `a = 2/(p+1)` -/
def emaColExact (p o : Nat) (x : Nat → K) : Nat → K :=
  recExact (emaAlpha p) (winMean x p (o + p - 1)) x (o + p)

theorem emaCol_none (p o : Nat) (x : Nat → K) (j : Nat) (h : j + 1 < o + p) : emaCol p o x j = .none := by
  unfold emaCol recStV; rw [if_pos h]

theorem emaCol_flt (p o : Nat) (x : Nat → K) (j : Nat) (h : o + p ≤ j + 1) :
    emaCol p o x j = .flt (emaColF p o x j) := by
  unfold emaCol recStV emaColF; rw [if_neg (by omega)]

/-- the stored column is the textbook EMA up to `ε₄/a` -/
theorem emaCol_ok (p o : Nat) (hp : 1 ≤ p) (x : Nat → K) (j : Nat) :
    RecOK (o + p) defaultRound (emaAlpha p) (emaColExact p o x) j (emaCol p o x j) := by
  unfold emaColExact emaCol
  rw [winMean_eq x p o hp]
  exact recStV_ok _ _ _ _ _ (by omega) (emaAlpha_pos p) (emaAlpha_le_one p hp) j

theorem emaColF_err (p o : Nat) (hp : 1 ≤ p) (x : Nat → K) (j : Nat) :
    |emaColF p o x j - emaColExact p o x j| ≤ eps K defaultRound / emaAlpha p := by
  unfold emaColExact emaColF
  rw [winMean_eq x p o hp]
  exact recSt_err _ _ _ _ _ (by omega) (emaAlpha_pos p) (emaAlpha_le_one p hp) j

/-- **one EMA call inside a series.**  The call at index `H.length` on `H ++ [c]`, reading an input
column `g` that is `None` exactly below index `o`, with the own column so far equal to `emaCol` -/
theorem ema_view_step (H : List (Candle K)) (c : Candle K) (own inp : String) (p o : Nat) (hp : 2 ≤ p)
    (g : Nat → Val K) (rn : Nat → Num K)
    (hH : ∀ j, j < H.length → readingByCandle (H.getD j default) inp = g j)
    (hc : readingByCandle c inp = g H.length)
    (hnone : ∀ j, j ≤ H.length → (g j).isNone = decide (j < o))
    (hseed : H.length + 1 = o + p → ∀ k, k < p → g (o + k) = .num (rn (o + k)))
    (hcur : o + p ≤ H.length → g H.length = .num (rn H.length))
    (hprev : Ctx.lastReading own H = if H.length = 0 then .none else
      emaCol p o (fun j => (rn j).toF) (H.length - 1)) :
    ∃ v, Calc.ema (mkCtx H c own) (p : Int) inp (fl 2) = .ok v ∧
      v.roundBy defaultRound = emaCol p o (fun j => (rn j).toF) H.length := by
  have hrd : ∀ j, j ≤ H.length → (mkCtx H c own).reading inp (some (j : Int)) = .ok (g j) := by
    intro j hj
    rw [mkCtx_reading H c own inp j hj]
    by_cases h : j < H.length
    · rw [if_pos h, hH j h]
    · have : j = H.length := by omega
      subst this
      rw [if_neg h, hc]
  have hper := mkCtx_period H c own inp o g hrd hnone p (by omega)
  have hpr : (mkCtx H c own).prevReading (mkCtx H c own).name = .ok (Ctx.lastReading own H) :=
    Ctx.prevReading_append_cons H c [] own own
  have hp1 : (((p : Nat) : Int) : K) + 1 ≠ 0 := by
    have : (0 : K) < (p : K) + 1 := by positivity
    simpa using this.ne'
  by_cases h1 : H.length + 1 < o + p
  · have hpn : (mkCtx H c own).prevReading (mkCtx H c own).name = .ok .none := by
      rw [hpr, hprev]
      by_cases h0 : H.length = 0
      · simp [h0]
      · simp only [h0, if_false]
        exact congrArg _ (emaCol_none _ _ _ _ (by omega))
    have hrp : (mkCtx H c own).readingPeriod (p : Int) inp = false := by
      rw [hper]; simp; omega
    refine ⟨.none, ema_none _ _ _ _ hpn hrp, ?_⟩
    rw [emaCol_none _ _ _ _ h1]; rfl
  · by_cases h2 : H.length + 1 = o + p
    · have hpn : (mkCtx H c own).prevReading (mkCtx H c own).name = .ok .none := by
        rw [hpr, hprev]
        have h0 : H.length ≠ 0 := by omega
        simp only [h0, if_false]
        exact congrArg _ (emaCol_none _ _ _ _ (by omega))
      have hrp : (mkCtx H c own).readingPeriod (p : Int) inp = true := by
        rw [hper]; simp; omega
      have hwin := ema_seed_window (mkCtx H c own) p inp (fl 2) (fun k => rn (o + k)) hpn hrp (by omega)
        (by show (p : Int) ≤ (H.length : Int) + 1; omega) (by show (1 : Int) ≤ (H.length : Int); omega)
        (by
          intro j hj
          have e : (mkCtx H c own).i + 1 - (p : Int) + (j : Int) = ((o + j : Nat) : Int) := by
            show (H.length : Int) + 1 - (p : Int) + (j : Int) = _; omega
          rw [e, hrd (o + j) (by omega), hseed h2 j hj])
      refine ⟨_, hwin, ?_⟩
      rw [emaCol_flt _ _ _ _ (by omega)]
      unfold emaColF
      rw [recSt_seed _ _ _ _ _ _ (by omega)]
      rfl
    · have h3 : o + p ≤ H.length := by omega
      have h0 : H.length ≠ 0 := by omega
      have hpn : (mkCtx H c own).prevReading (mkCtx H c own).name
          = .ok (.num (.flt (emaColF p o (fun j => (rn j).toF) (H.length - 1)))) := by
        rw [hpr, hprev]
        simp only [h0, if_false]
        exact congrArg _ (emaCol_flt _ _ _ _ (by omega))
      have hcur' : (mkCtx H c own).reading inp = .ok (.num (rn H.length)) := by
        have := hrd H.length (le_refl _)
        rw [hcur h3] at this
        exact this
      refine ⟨_, ema_rec _ _ _ _ _ _ hpn hcur' hp1, ?_⟩
      rw [emaCol_flt _ _ _ _ (by omega)]
      unfold emaColF
      rw [recSt_step _ _ _ _ _ _ h3 (by omega)]
      simp only [fl_two_toF, Num.toF_flt, Int.cast_natCast]
      rfl

/-! ### the candles of a MACD row -/

/-- the candle after the two helper writes -/
def macdC2 (nm : String) (vf vs : Val K) (c : Candle K) : Candle K :=
  setKey true (nm ++ "_EMA_slow") vs (setKey true (nm ++ "_EMA_fast") vf c)

/-- the finished candle of a MACD row: helper readings `vf`, `vs` and (if written) the signal-line
reading `d` in `.sub_indicators`, the own dict `own` in `.indicators` -/
def macdC3 (nm : String) (vf vs : Val K) (d : Option (Val K)) (own : Val K) (c : Candle K) : Candle K :=
  setKey false nm own (setD (nm ++ "_signal_line") d (macdC2 nm vf vs c))

section cand
variable (nm : String) (hn : MacdNames nm) (vf vs own : Val K) (d : Option (Val K)) (c : Candle K)

theorem c1_input (input : String) (hin : NoDot input ∧ input ∈ Candle.attrNames) :
    readingByCandle (setKey true (nm ++ "_EMA_fast") vf c) input = readingByCandle c input :=
  indep_attr (F := K) _ input hin.1 hin.2 true vf c

theorem c3_input (input : String) (hin : NoDot input ∧ input ∈ Candle.attrNames) :
    readingByCandle (macdC3 nm vf vs d own c) input = readingByCandle c input := by
  unfold macdC3 macdC2
  rw [indep_attr (F := K) nm input hin.1 hin.2]
  cases d with
  | none => simp only [setD]; rw [indep_attr (F := K) _ input hin.1 hin.2, indep_attr (F := K) _ input hin.1 hin.2]
  | some dv =>
    simp only [setD]
    rw [indep_attr (F := K) _ input hin.1 hin.2, indep_attr (F := K) _ input hin.1 hin.2,
      indep_attr (F := K) _ input hin.1 hin.2]

theorem c3_bare : (macdC3 nm vf vs d own c).bare = c.bare := by
  unfold macdC3 macdC2
  cases d <;> simp only [setD, bare_setKey]

include hn

theorem c2_fast (hc : Plain c) : readingByCandle (macdC2 nm vf vs c) (nm ++ "_EMA_fast") = vf := by
  rw [readingByCandle_key _ hn.kF]
  obtain ⟨hi, hs⟩ := hc
  simp [macdC2, lookupKey, setKey, hi, hs, dset, dlookup, hn.FS]

theorem c2_slow (hc : Plain c) : readingByCandle (macdC2 nm vf vs c) (nm ++ "_EMA_slow") = vs := by
  rw [readingByCandle_key _ hn.kS]
  obtain ⟨hi, hs⟩ := hc
  simp [macdC2, lookupKey, setKey, hi, hs, dset, dlookup, hn.FS]

theorem c3_fast (hc : Plain c) : readingByCandle (macdC3 nm vf vs d own c) (nm ++ "_EMA_fast") = vf := by
  rw [readingByCandle_key _ hn.kF]
  obtain ⟨hi, hs⟩ := hc
  cases d <;> simp [macdC3, macdC2, lookupKey, setD, setKey, hi, hs, dset, dlookup, hn.FS, hn.nF, hn.FG, hn.FG.symm]

theorem c3_slow (hc : Plain c) : readingByCandle (macdC3 nm vf vs d own c) (nm ++ "_EMA_slow") = vs := by
  rw [readingByCandle_key _ hn.kS]
  obtain ⟨hi, hs⟩ := hc
  cases d <;> simp [macdC3, macdC2, lookupKey, setD, setKey, hi, hs, dset, dlookup, hn.FS, hn.nS, hn.SG, hn.SG.symm]

theorem c3_sig (hc : Plain c) :
    readingByCandle (macdC3 nm vf vs d own c) (nm ++ "_signal_line") = d.getD .none := by
  rw [readingByCandle_key _ hn.kG]
  obtain ⟨hi, hs⟩ := hc
  cases d <;> simp [macdC3, macdC2, lookupKey, setD, setKey, hi, hs, dset, dlookup, hn.FG, hn.FG.symm, hn.nG,
    hn.SG, hn.SG.symm]

theorem c3_own (hc : Plain c) : readingByCandle (macdC3 nm vf vs d own c) nm = own := by
  rw [readingByCandle_key _ hn.kN]
  simp [macdC3, lookupKey, setKey, dset, dlookup_dset_self]

theorem c3_macd : readingByCandle (macdC3 nm vf vs d own c) (nm ++ ".MACD") = own.nested "MACD" :=
  rbc_tmp nm hn.dot own _

end cand

end Numeric
end Hex

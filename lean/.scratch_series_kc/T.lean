import HexProofs.Framework.Gen.KC
import HexProofs.Numeric.SeriesATR
import HexProofs.Numeric.SeriesRSI
import HexProofs.Numeric.Channel
set_option linter.unusedSectionVars false
set_option linter.unusedSimpArgs false
namespace Hex
namespace Numeric
variable {K : Type} [Field K] [LinearOrder K] [IsStrictOrderedRing K] [LawfulPyF K]

/-- what the four pieces of a KC tree store on one candle -/
structure KcRow (K : Type) where
  tr : Val K
  atr : Val K
  ema : Val K
  own : Val K

def KcRow.dflt : KcRow K := ⟨.none, .none, .none, .none⟩

/-- a finished KC candle -/
def kcOut (nm : String) (c : Candle K) (r : KcRow K) : Candle K :=
  setKey false nm r.own (setKey true (nm ++ "_EMA") r.ema
    (setKey true (nm ++ "_ATR") r.atr (setKey true (nm ++ "_ATR" ++ "_TR") r.tr c)))

/-- the row step of `kcTree`: TR helper, ATR helper, EMA helper, own reading – in that order, each
stored (rounded) before the next one runs -/
theorem kc_rowStep (nm : String) (n : Nat) (p : Int) (input : String) (mult : Num K) (hp : 1 ≤ p)
    (hn : KcNames nm) (hin : NoDot input ∧ input ∈ Candle.attrNames) (done : List (Candle K)) (c : Candle K) :
    Gen.rowStep (kcTree (F := K) nm n p input mult hp hn hin).S done c = (do
      let t ← valOf (kcT nm) done c
      let a ← valOf (kcA nm p) done (decOf (kcT nm) t c)
      let e ← valOf (kcE nm p input) done (decOf (kcA nm p) a (decOf (kcT nm) t c))
      let o ← valOf (kcP nm n p input mult) done
        (decOf (kcE nm p input) e (decOf (kcA nm p) a (decOf (kcT nm) t c)))
      pure (done ++ [decOf (kcP nm n p input mult) o
        (decOf (kcE nm p input) e (decOf (kcA nm p) a (decOf (kcT nm) t c)))])) := by
  show Gen.rowStep (TComp.spec (kcComp nm n p input mult hp hn hin) _) done c = _
  rw [TComp.rowStep_spec]
  show (do
      let z ← (do
        let x ← (do
          let t ← valOf (kcT nm) done c
          let a ← valOf (kcA nm p) done (decOf (kcT nm) t c)
          pure (t, a))
        let q ← (do
          let e ← valOf (kcE nm p input) done (decOf (kcA nm p) x.2 (decOf (kcT nm) x.1 c))
          let o ← valOf (kcP nm n p input mult) done
            (decOf (kcE nm p input) e (decOf (kcA nm p) x.2 (decOf (kcT nm) x.1 c)))
          pure (e, o))
        pure (x, q))
      pure (done ++ [decOf (kcP nm n p input mult) z.2.2
        (decOf (kcE nm p input) z.2.1 (decOf (kcA nm p) z.1.2 (decOf (kcT nm) z.1.1 c)))])) = _
  cases valOf (kcT nm) done c with
  | error e => rfl
  | ok t =>
    simp only [pym_bind_ok]
    cases valOf (kcA nm p) done (decOf (kcT nm) t c) with
    | error e => rfl
    | ok a =>
      simp only [pym_bind_ok, pym_pure]
      cases valOf (kcE nm p input) done (decOf (kcA nm p) a (decOf (kcT nm) t c)) with
      | error e => rfl
      | ok e =>
        simp only [pym_bind_ok]
        cases valOf (kcP nm n p input mult) done
            (decOf (kcE nm p input) e (decOf (kcA nm p) a (decOf (kcT nm) t c))) with
        | error e => rfl
        | ok o => rfl

/-! ### columns of candle lists, element by element -/

theorem col_eq_of_getElem? (key : String) (A B : List (Candle K)) (hl : A.length = B.length)
    (h : ∀ (j : Nat) (a b : Candle K), A[j]? = some a → B[j]? = some b →
      readingByCandle a key = readingByCandle b key) : col key A = col key B := by
  unfold col
  apply List.ext_getElem?
  intro j
  rw [List.getElem?_map, List.getElem?_map]
  by_cases hj : j < A.length
  · rw [List.getElem?_eq_getElem hj, List.getElem?_eq_getElem (by omega)]
    simp only [Option.map_some, Option.some.injEq]
    exact h j _ _ (List.getElem?_eq_getElem hj) (List.getElem?_eq_getElem (by omega))
  · rw [List.getElem?_eq_none (by omega), List.getElem?_eq_none (by omega)]

/-- a context `done ++ [c]` at `done.length = m` and a context over `B` at `m` see the same column -/
theorem sameCol_of_elems (key n1 n2 : String) (done B : List (Candle K)) (c : Candle K) (m : Nat)
    (hd : done.length = m) (hB : B.length = m + 1)
    (hlt : ∀ (j : Nat) (a b : Candle K), j < m → done[j]? = some a → B[j]? = some b →
      readingByCandle a key = readingByCandle b key)
    (heq : ∀ b, B[m]? = some b → readingByCandle c key = readingByCandle b key) :
    Ctx.SameCol key ({ cs := done ++ [c], i := done.length, name := n1 } : Ctx K)
      { cs := B, i := m, name := n2 } := by
  refine ⟨by simp [hd], ?_⟩
  apply col_eq_of_getElem? key _ _ (by simp [hd, hB])
  intro j a b ha hb
  by_cases hj : j < m
  · rw [List.getElem?_append_left (by omega)] at ha
    exact hlt j a b hj ha hb
  · have hjm : j = m := by
      by_contra hne
      rw [List.getElem?_eq_none (by simp [hd]; omega)] at ha
      cases ha
    subst hjm
    rw [List.getElem?_append_right (by omega)] at ha
    simp [hd] at ha
    subst ha
    exact heq b hb

/-! ### reading the (partly) finished candles -/

section out
variable (nm : String)

theorem kcOut_bare (c : Candle K) (r : KcRow K) : (kcOut nm c r).bare = c.bare := by
  unfold kcOut
  rw [bare_setKey, bare_setKey, bare_setKey, bare_setKey]

theorem kcOut_input (input : String) (hin : NoDot input ∧ input ∈ Candle.attrNames) (c : Candle K)
    (r : KcRow K) : readingByCandle (kcOut nm c r) input = readingByCandle c input :=
  readingByCandle_attr_bare input hin.1 hin.2 _ _ (kcOut_bare nm c r)

theorem kcOut_own (hk : IsKey nm) (c : Candle K) (r : KcRow K) :
    readingByCandle (kcOut nm c r) nm = r.own := readingByCandle_setKey_own nm hk _ _

theorem kcOut_ema (hn : KcNames nm) (c : Candle K) (hc : Plain c) (r : KcRow K) :
    readingByCandle (kcOut nm c r) (nm ++ "_EMA") = r.ema := by
  rw [readingByCandle_key _ hn.kE]
  obtain ⟨hi, hs⟩ := hc
  simp [kcOut, lookupKey, setKey, hi, hs, dset, dlookup, hn.nA, hn.nT, hn.nE, hn.AT, hn.AE, hn.TE, hn.nA.symm, hn.nT.symm, hn.nE.symm, hn.AT.symm, hn.AE.symm, hn.TE.symm]

theorem kcOut_atr (hn : KcNames nm) (c : Candle K) (hc : Plain c) (r : KcRow K) :
    readingByCandle (kcOut nm c r) (nm ++ "_ATR") = r.atr := by
  rw [readingByCandle_key _ hn.kA]
  obtain ⟨hi, hs⟩ := hc
  simp [kcOut, lookupKey, setKey, hi, hs, dset, dlookup, hn.nA, hn.nT, hn.nE, hn.AT, hn.AE, hn.TE, hn.nA.symm, hn.nT.symm, hn.nE.symm, hn.AT.symm, hn.AE.symm, hn.TE.symm]

theorem kcOut_tr (hn : KcNames nm) (c : Candle K) (hc : Plain c) (r : KcRow K) :
    readingByCandle (kcOut nm c r) (nm ++ "_ATR" ++ "_TR") = r.tr := by
  rw [readingByCandle_key _ hn.kT]
  obtain ⟨hi, hs⟩ := hc
  simp [kcOut, lookupKey, setKey, hi, hs, dset, dlookup, hn.nA, hn.nT, hn.nE, hn.AT, hn.AE, hn.TE, hn.nA.symm, hn.nT.symm, hn.nE.symm, hn.AT.symm, hn.AE.symm, hn.TE.symm]

end out

/-! ### the textbook series -/

/-- the smoothing factor of the EMA helper (`smoothing = 2.0`): `α = 2/(p+1)` -/
def kcAlpha (K : Type) [Field K] (p : Nat) : K := 2 / ((p : K) + 1)

theorem kcAlpha_pos (p : Nat) : (0 : K) < kcAlpha K p := by unfold kcAlpha; positivity

theorem kcAlpha_le_one (p : Nat) (hp : 1 ≤ p) : kcAlpha K p ≤ 1 := by
  unfold kcAlpha
  have h1 : (1 : K) ≤ (p : K) := by exact_mod_cast hp
  rw [div_le_one (by positivity)]
  linarith

/-- **the textbook EMA** of the inputs `x`: the mean of `x 0 … x (p−1)` at index `p − 1`, then
`EMA_j = α·x_j + (1 − α)·EMA_{j−1}`, `α = 2/(p+1)` -/
def emaExact (p : Nat) (x : Nat → K) : Nat → K :=
  recExact (kcAlpha K p) (winMean x p (p - 1)) x p

/-- the textbook EMA series with its warm-up (first value at index `p − 1`) -/
def emaSeries (p : Nat) (x : Nat → K) (j : Nat) : Option K :=
  if j + 1 < p then none else some (emaExact p x j)

/-- **the textbook Keltner channel** `(lower, middle, upper) = (EMA − m·ATR, EMA, EMA + m·ATR)`
of the inputs `x` and true ranges `tr` (`tr j` = true range of candle `j ≥ 1`); first value at
index `p` (ATR's warm-up; the EMA alone starts at `p − 1`) -/
def kcSeries (p : Nat) (mult : K) (x tr : Nat → K) (j : Nat) : Option (K × K × K) :=
  if j < p then none
  else some (emaExact p x j - mult * atrExact p tr j, emaExact p x j, emaExact p x j + mult * atrExact p tr j)

/-! ### what is stored -/

/-- the three-`None` dict KC returns while a helper has no reading -/
def kcNoneDict : Val K := .dict [("lower", .none), ("band", .none), ("upper", .none)]

/-- the (rounded) dict KC stores from the STORED helper readings `e` (EMA) and `a` (ATR) -/
def kcBands (mult : Num K) (n : Nat) : Val K → Val K → Val K
  | .s (.num (.flt e)), .s (.num (.flt a)) =>
    .dict [("lower", .num (.flt (PyF.round n (e - mult.toF * a)))), ("band", .num (.flt (PyF.round n e))),
           ("upper", .num (.flt (PyF.round n (e + mult.toF * a))))]
  | _, _ => kcNoneDict

/-- what the whole-series theorem says of candle `j` of a KC tree with period `p`, rounding `n`,
multiplier `mult`, input series `x`:
* `name_ATR_TR`: the stored true range (`trStored`: `None` on candle 0, else rounded to 4 decimals);
* `name_ATR`: `AtrOK` – `None` while `j < p`, then a non-negative float within `p·ε₄` of Wilder's
  average `atrExact` of the stored true ranges;
* `name_EMA`: `RecOK` – `None` while `j + 1 < p`, then a float within `ε₄/α` of `emaExact`;
* own: `kcBands` of the two stored helper readings. -/
def KcOK (p n : Nat) (mult : Num K) (x : Nat → K) (raw : List (Candle K)) (j : Nat) (r : KcRow K) : Prop :=
  r.tr = trStored raw j ∧
  AtrOK p defaultRound (trS raw) j r.atr ∧
  RecOK p defaultRound (kcAlpha K p) (emaExact p x) j r.ema ∧
  r.own = kcBands mult n r.ema r.atr

/-! ### one EMA call inside the series (the step of `ema_series`, for the helper) -/

theorem ema_stepCtx (p : Nat) (hp : 2 ≤ p) (nm input : String) (fld : Candle K → Num K) (n : Nat)
    (hk : IsKey nm) (hd : NoDot input) (hattr : ∀ c : Candle K, c.attr input = some (.num (fld c)))
    (raw : List (Candle K)) (hraw : ∀ c ∈ raw, Plain c) (vs : List (Val K)) (m : Nat)
    (hm : m < raw.length) (hvs : vs.length = m)
    (hQ : ∀ j, j < m → RecOK p n (kcAlpha K p) (emaExact p (fieldAt fld raw)) j (vs.getD j .none)) :
    ∃ v, Calc.ema (stepCtx nm raw vs m) p input (fl 2) = .ok v ∧
      RecOK p n (kcAlpha K p) (emaExact p (fieldAt fld raw)) m (v.roundBy n) := by
  have ha0 := kcAlpha_pos (K := K) p
  have ha1 := kcAlpha_le_one (K := K) p (by omega)
  have hs2 : (fl 2 : Num K).toF / (((p : Int) : K) + 1) = kcAlpha K p := by
    unfold kcAlpha; simp
  have hp1 : ((p : Int) : K) + 1 ≠ 0 := by
    have : (0 : K) < (p : K) + 1 := by positivity
    simpa using this.ne'
  have hprev := stepCtx_prev nm raw vs m hm hvs hk hraw
  have hper := stepCtx_period nm input fld raw vs m hm hvs hd hattr p (by omega)
  have hcur := stepCtx_field_cur nm input fld raw vs m hm hvs hd hattr
  by_cases h1 : m + 1 < p
  · have hpn : (stepCtx nm raw vs m).prevReading (stepCtx nm raw vs m).name = .ok .none := by
      show (stepCtx nm raw vs m).prevReading nm = _
      rw [hprev]
      by_cases h0 : m = 0
      · simp [h0]
      · simp only [h0, if_false]
        rw [(hQ (m - 1) (by omega)).1 (by omega)]
    have hrp : (stepCtx nm raw vs m).readingPeriod p input = false := by
      rw [hper]; simp; omega
    exact ⟨.none, ema_none _ p input _ hpn hrp, fun _ => rfl, fun h => by omega⟩
  · by_cases h2 : m + 1 = p
    · have hpn : (stepCtx nm raw vs m).prevReading (stepCtx nm raw vs m).name = .ok .none := by
        show (stepCtx nm raw vs m).prevReading nm = _
        rw [hprev]
        have h0 : m ≠ 0 := by omega
        simp only [h0, if_false]
        rw [(hQ (m - 1) (by omega)).1 (by omega)]
      have hrp : (stepCtx nm raw vs m).readingPeriod p input = true := by
        rw [hper]; simp; omega
      have hwin := ema_seed_window (stepCtx nm raw vs m) p input (fl 2) (fun j => fld (raw.getD (m + 1 - p + j) default))
        hpn hrp (by omega) (by show (p : Int) ≤ (m : Int) + 1; omega) (by show (1 : Int) ≤ (m : Int); omega)
        (by
          intro j hj
          have e : (stepCtx nm raw vs m).i + 1 - (p : Int) + (j : Int) = ((m + 1 - p + j : Nat) : Int) := by
            show (m : Int) + 1 - (p : Int) + (j : Int) = _; omega
          rw [e]
          exact stepCtx_field nm input fld raw vs m hm hvs hd hattr _ (by omega))
      refine ⟨_, hwin, fun h => by omega, fun _ => ⟨_, rfl, ?_⟩⟩
      unfold emaExact
      rw [recExact_seed _ _ _ _ _ (by omega)]
      have hm1 : m = p - 1 := by omega
      have : rsum p (fun j => (fld (raw.getD (m + 1 - p + j) default)).toF) / (p : K)
          = winMean (fieldAt fld raw) p (p - 1) := by
        unfold winMean fieldAt; rw [hm1]
      rw [this]
      exact le_trans (LawfulPyF.round_err n _) (eps_le_div n _ ha0 ha1)
    · have h3 : p ≤ m := by omega
      obtain ⟨yp, hyp, hbound⟩ := (hQ (m - 1) (by omega)).2 (by omega)
      have hpn : (stepCtx nm raw vs m).prevReading (stepCtx nm raw vs m).name = .ok (.flt yp) := by
        show (stepCtx nm raw vs m).prevReading nm = _
        rw [hprev]
        have h0 : m ≠ 0 := by omega
        simp only [h0, if_false, hyp]
      refine ⟨_, ema_rec _ p input (fl 2) (.flt yp) _ hpn hcur hp1, fun h => by omega, fun _ => ⟨_, rfl, ?_⟩⟩
      unfold emaExact at hbound ⊢
      rw [recExact_step _ _ _ _ _ h3 (by omega)]
      have hb := ema_error_budget n (kcAlpha K p) (fieldAt fld raw m) yp _ ha0 ha1 hbound
      rw [hs2]
      simp only [Num.toF_flt]
      rw [mul_comm yp]
      exact hb

end Numeric
end Hex
#check @Hex.Numeric.ema_stepCtx
example : (1:Nat) = 2 := rfl

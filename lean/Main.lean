import HexModel.Driver
def main : IO Unit := do
  let out ← IO.getStdout
  Hex.Driver.loop (← IO.getStdin) out {}

import HexProofs.Numeric.SeriesRSI
import HexProofs.Numeric.Composite
import HexProofs.Numeric.SeriesMore
import HexProofs.Numeric.Extremes
import HexProofs.Numeric.Bars
namespace Hex
namespace Numeric
variable {K : Type} [Field K] [LinearOrder K] [IsStrictOrderedRing K] [LawfulPyF K]

theorem vwap_rowStep (nm : String) (n : Nat) (p : Int) (done : List (Candle K)) (c : Candle K) :
    Gen.rowStep (vwapTree (F := K) nm n p).S done c = (do
      let r ← Calc.vwap (dOps (nm ++ "_data") done.length) { cs := done ++ [c], i := done.length, name := nm }
      setReading false nm r.2 done.length (r.1.roundBy n)) := rfl

#check @Ctx.prevReading_append_cons
#check @Ctx.lastReading
#check @Ctx.prevExists_of
#print Ctx.prevReading
#check @Gen.rowStep
#print Gen.StepSpec
end Numeric
end Hex

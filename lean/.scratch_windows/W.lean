import HexProofs.Numeric.SeriesRSI
import HexProofs.Numeric.SeriesMore
import HexProofs.Numeric.Composite
import HexProofs.Numeric.Extremes
import HexProofs.Numeric.Bars
import HexProofs.Numeric.Demo
set_option linter.unusedSectionVars false
set_option linter.unusedSimpArgs false
set_option linter.unusedVariables false
namespace Hex
namespace Numeric
variable {K : Type} [Field K] [LinearOrder K] [IsStrictOrderedRing K] [LawfulPyF K]

/-! ## windows -/

section windows
variable {F : Type} [PyF F]

theorem absIndex_nat (i len : Nat) (h : i < len) : absIndex (i : Int) len = some (i : Int) := by
  unfold absIndex validIndex
  have a : decide ((i : Int) < (len : Int)) = true := decide_eq_true (by omega)
  have b : decide (-(len : Int) ≤ (i : Int)) = true := decide_eq_true (by omega)
  have c : ¬ (i : Int) < 0 := by omega
  simp [a, b, c, h]

theorem readingByIndex_nat (cs : List (Candle F)) (ind : String) (j : Nat) (h : j < cs.length) :
    readingByIndex cs ind (j : Int) = readingByCandle (cs.getD j default) ind := by
  unfold readingByIndex validIndex
  have a : decide ((j : Int) < (cs.length : Int)) = true := decide_eq_true (by omega)
  have b : decide (-(cs.length : Int) ≤ (j : Int)) = true := decide_eq_true (by omega)
  rw [a, b, pyIndex_nonneg _ _ (by omega)]
  simp only [Int.toNat_natCast, Bool.and_self, if_true]
  rw [List.getD_eq_getElem?_getD, List.getElem?_eq_getElem h]
  rfl

/-- the candles of a Python slice `cs[s:e]` with `s < e ≤ len` -/
theorem mem_pySlice (cs : List (Candle F)) (s e : Nat) (hs : s < e) (he : e ≤ cs.length) (c : Candle F) :
    c ∈ pySlice cs (s : Int) (e : Int) ↔ ∃ k, s ≤ k ∧ k < e ∧ cs[k]? = some c := by
  unfold pySlice
  have a1 : ¬ (s : Int) < 0 := by omega
  have a2 : ¬ (s : Int) > (cs.length : Int) := by omega
  have a3 : ¬ (e : Int) < 0 := by omega
  have a4 : ¬ (e : Int) > (cs.length : Int) := by omega
  have a5 : ¬ (s : Int) ≥ (e : Int) := by omega
  simp only [a1, a2, a3, a4, a5, if_false]
  rw [List.mem_iff_getElem?]
  have e1 : ((e : Int) - (s : Int)).toNat = e - s := by omega
  simp only [Int.toNat_natCast, e1]
  constructor
  · rintro ⟨k, hk⟩
    by_cases hke : k < e - s
    · rw [List.getElem?_take_of_lt hke, List.getElem?_drop] at hk
      exact ⟨s + k, by omega, by omega, hk⟩
    · rw [List.getElem?_take] at hk; simp [hke] at hk
  · rintro ⟨k, h1, h2, h3⟩
    refine ⟨k - s, ?_⟩
    rw [List.getElem?_take_of_lt (by omega), List.getElem?_drop]
    have : s + (k - s) = k := by omega
    rw [this]; exact h3

/-- the clean readings of a candle-field window are exactly the field values of the candles
`max(i−n, 0) … i` -/
theorem mem_cleanScalars_attr (cs : List (Candle F)) (ind : String) (f : Candle F → Num F)
    (hf : ∀ c, readingByCandle c ind = .num (f c)) (n i : Nat) (hi : i < cs.length) (s : Scalar F) :
    s ∈ Mov.cleanScalars cs ind (n : Int) (i : Int) true
      ↔ ∃ k, i - n ≤ k ∧ k ≤ i ∧ s = .num (f (cs.getD k default)) := by
  unfold Mov.cleanScalars
  simp only [if_true]
  have est : (if (i : Int) - (n : Int) < 0 then (0 : Int) else (i : Int) - (n : Int)) = ((i - n : Nat) : Int) := by
    split_ifs <;> omega
  have een : (i : Int) + 1 = ((i + 1 : Nat) : Int) := by push_cast; rfl
  rw [est, een, List.mem_filterMap]
  constructor
  · rintro ⟨v, hv, hs⟩
    rw [List.mem_reverse, List.mem_map] at hv
    obtain ⟨c, hc, rfl⟩ := hv
    rw [mem_pySlice cs _ _ (by omega) (by omega)] at hc
    obtain ⟨k, h1, h2, h3⟩ := hc
    refine ⟨k, h1, by omega, ?_⟩
    rw [hf] at hs
    simp only [Option.some.injEq] at hs
    rw [← hs, List.getD_eq_getElem?_getD, h3]; rfl
  · rintro ⟨k, h1, h2, rfl⟩
    refine ⟨.num (f (cs.getD k default)), ?_, rfl⟩
    rw [List.mem_reverse, List.mem_map]
    refine ⟨cs.getD k default, ?_, hf _⟩
    rw [mem_pySlice cs _ _ (by omega) (by omega)]
    refine ⟨k, h1, by omega, ?_⟩
    rw [List.getD_eq_getElem?_getD, List.getElem?_eq_getElem (by omega)]; rfl

/-- `movement.highest/lowest` over a candle field with `length ≥ 1` returns the field value of one
of the candles `max(i−n, 0) … i` (type kept) -/
theorem extreme_total (cs : List (Candle F)) (ind : String) (f : Candle F → Num F)
    (hf : ∀ c, readingByCandle c ind = .num (f c)) (better : Num F → Num F → Bool)
    (n i : Nat) (hn : 1 ≤ n) (hi : i < cs.length) :
    ∃ k, i - n ≤ k ∧ k ≤ i ∧ Mov.extreme cs ind (n : Int) (i : Int) better = .ok (.num (f (cs.getD k default))) := by
  unfold Mov.extreme
  rw [absIndex_nat i cs.length hi]
  have a : ¬ ((n : Int) < 1) := by omega
  have b : cs.isEmpty = false := by
    cases cs with
    | nil => simp at hi
    | cons _ _ => rfl
  simp only [a, b, decide_false, Bool.or_self, Bool.false_eq_true, if_false]
  have hown : Scalar.num (f (cs.getD i default)) ∈ Mov.cleanScalars cs ind (n : Int) (i : Int) true :=
    (mem_cleanScalars_attr cs ind f hf n i hi _).2 ⟨i, by omega, le_refl _, rfl⟩
  cases hl : Mov.cleanScalars cs ind (n : Int) (i : Int) true with
  | nil => rw [hl] at hown; cases hown
  | cons x xs =>
    have hp : Mov.pickScalar better (x :: xs) = some
        (xs.foldl (fun best y => if better (Mov.scalarNum y) (Mov.scalarNum best) then y else best) x) := rfl
    have hm := pickScalar_mem better _ _ hp
    rw [← hl] at hm
    obtain ⟨k, h1, h2, h3⟩ := (mem_cleanScalars_attr cs ind f hf n i hi _).1 hm
    refine ⟨k, h1, h2, ?_⟩
    rw [hp, h3]

end windows

/-- `movement.highest` over a candle field: returns the field value (type kept) of a candle of the
window `max(i−n, 0) … i` that bounds the whole window from above -/
theorem highest_window (cs : List (Candle K)) (ind : String) (f : Candle K → Num K)
    (hf : ∀ c, readingByCandle c ind = .num (f c)) (n i : Nat) (hn : 1 ≤ n) (hi : i < cs.length) :
    ∃ k, i - n ≤ k ∧ k ≤ i ∧ Mov.highest cs ind (n : Int) (i : Int) = .ok (.num (f (cs.getD k default))) ∧
      ∀ k', i - n ≤ k' → k' ≤ i → (f (cs.getD k' default)).toF ≤ (f (cs.getD k default)).toF := by
  obtain ⟨k, h1, h2, h3⟩ := extreme_total cs ind f hf (fun y best => y.gt best) n i hn hi
  refine ⟨k, h1, h2, h3, ?_⟩
  obtain ⟨i', hi', _, hmax⟩ := highest_spec cs ind n i _ h3
  rw [absIndex_nat i cs.length hi] at hi'
  cases hi'
  intro k' h1' h2'
  exact hmax _ ((mem_cleanScalars_attr cs ind f hf n i hi _).2 ⟨k', h1', h2', rfl⟩)

theorem lowest_window (cs : List (Candle K)) (ind : String) (f : Candle K → Num K)
    (hf : ∀ c, readingByCandle c ind = .num (f c)) (n i : Nat) (hn : 1 ≤ n) (hi : i < cs.length) :
    ∃ k, i - n ≤ k ∧ k ≤ i ∧ Mov.lowest cs ind (n : Int) (i : Int) = .ok (.num (f (cs.getD k default))) ∧
      ∀ k', i - n ≤ k' → k' ≤ i → (f (cs.getD k default)).toF ≤ (f (cs.getD k' default)).toF := by
  obtain ⟨k, h1, h2, h3⟩ := extreme_total cs ind f hf (fun y best => y.lt best) n i hn hi
  refine ⟨k, h1, h2, h3, ?_⟩
  obtain ⟨i', hi', _, hmin⟩ := lowest_spec cs ind n i _ h3
  rw [absIndex_nat i cs.length hi] at hi'
  cases hi'
  intro k' h1' h2'
  exact hmin _ ((mem_cleanScalars_attr cs ind f hf n i hi _).2 ⟨k', h1', h2', rfl⟩)

end Numeric
end Hex

import HexProofs.Numeric.SeriesRSI
import HexProofs.Numeric.SeriesMore
import HexProofs.Numeric.Composite
import HexProofs.Numeric.Extremes
import HexProofs.Numeric.Bars
import HexProofs.Numeric.Demo
set_option linter.unusedSectionVars false
set_option linter.unusedSimpArgs false
set_option linter.unusedVariables false
namespace Hex
namespace Numeric
variable {K : Type} [Field K] [LinearOrder K] [IsStrictOrderedRing K] [LawfulPyF K]

/-! ## windows -/

section windows
variable {F : Type} [PyF F]

theorem absIndex_nat (i len : Nat) (h : i < len) : absIndex (i : Int) len = some (i : Int) := by
  unfold absIndex validIndex
  have a : decide ((i : Int) < (len : Int)) = true := decide_eq_true (by omega)
  have b : decide (-(len : Int) ≤ (i : Int)) = true := decide_eq_true (by omega)
  have c : ¬ (i : Int) < 0 := by omega
  simp [a, b, c, h]

theorem readingByIndex_nat (cs : List (Candle F)) (ind : String) (j : Nat) (h : j < cs.length) :
    readingByIndex cs ind (j : Int) = readingByCandle (cs.getD j default) ind := by
  unfold readingByIndex validIndex
  have a : decide ((j : Int) < (cs.length : Int)) = true := decide_eq_true (by omega)
  have b : decide (-(cs.length : Int) ≤ (j : Int)) = true := decide_eq_true (by omega)
  rw [a, b, pyIndex_nonneg _ _ (by omega)]
  simp only [Int.toNat_natCast, Bool.and_self, if_true]
  rw [List.getD_eq_getElem?_getD, List.getElem?_eq_getElem h]
  rfl

/-- the candles of a Python slice `cs[s:e]` with `s < e ≤ len` -/
theorem mem_pySlice (cs : List (Candle F)) (s e : Nat) (hs : s < e) (he : e ≤ cs.length) (c : Candle F) :
    c ∈ pySlice cs (s : Int) (e : Int) ↔ ∃ k, s ≤ k ∧ k < e ∧ cs[k]? = some c := by
  unfold pySlice
  have a1 : ¬ (s : Int) < 0 := by omega
  have a2 : ¬ (s : Int) > (cs.length : Int) := by omega
  have a3 : ¬ (e : Int) < 0 := by omega
  have a4 : ¬ (e : Int) > (cs.length : Int) := by omega
  have a5 : ¬ (s : Int) ≥ (e : Int) := by omega
  simp only [a1, a2, a3, a4, a5, if_false]
  rw [List.mem_iff_getElem?]
  have e1 : ((e : Int) - (s : Int)).toNat = e - s := by omega
  simp only [Int.toNat_natCast, e1]
  constructor
  · rintro ⟨k, hk⟩
    by_cases hke : k < e - s
    · rw [List.getElem?_take_of_lt hke, List.getElem?_drop] at hk
      exact ⟨s + k, by omega, by omega, hk⟩
    · rw [List.getElem?_take] at hk; simp [hke] at hk
  · rintro ⟨k, h1, h2, h3⟩
    refine ⟨k - s, ?_⟩
    rw [List.getElem?_take_of_lt (by omega), List.getElem?_drop]
    have : s + (k - s) = k := by omega
    rw [this]; exact h3

/-- the clean readings of a candle-field window are exactly the field values of the candles
`max(i−n, 0) … i` -/
theorem mem_cleanScalars_attr (cs : List (Candle F)) (ind : String) (f : Candle F → Num F)
    (hf : ∀ c, readingByCandle c ind = .num (f c)) (n i : Nat) (hi : i < cs.length) (s : Scalar F) :
    s ∈ Mov.cleanScalars cs ind (n : Int) (i : Int) true
      ↔ ∃ k, i - n ≤ k ∧ k ≤ i ∧ s = .num (f (cs.getD k default)) := by
  unfold Mov.cleanScalars
  simp only [if_true]
  have est : (if (i : Int) - (n : Int) < 0 then (0 : Int) else (i : Int) - (n : Int)) = ((i - n : Nat) : Int) := by
    split_ifs <;> omega
  have een : (i : Int) + 1 = ((i + 1 : Nat) : Int) := by push_cast; rfl
  rw [est, een, List.mem_filterMap]
  constructor
  · rintro ⟨v, hv, hs⟩
    rw [List.mem_reverse, List.mem_map] at hv
    obtain ⟨c, hc, rfl⟩ := hv
    rw [mem_pySlice cs _ _ (by omega) (by omega)] at hc
    obtain ⟨k, h1, h2, h3⟩ := hc
    refine ⟨k, h1, by omega, ?_⟩
    rw [hf] at hs
    simp only [Option.some.injEq] at hs
    rw [← hs, List.getD_eq_getElem?_getD, h3]; rfl
  · rintro ⟨k, h1, h2, rfl⟩
    refine ⟨.num (f (cs.getD k default)), ?_, rfl⟩
    rw [List.mem_reverse, List.mem_map]
    refine ⟨cs.getD k default, ?_, hf _⟩
    rw [mem_pySlice cs _ _ (by omega) (by omega)]
    refine ⟨k, h1, by omega, ?_⟩
    rw [List.getD_eq_getElem?_getD, List.getElem?_eq_getElem (by omega)]; rfl

/-- `movement.highest/lowest` over a candle field with `length ≥ 1` returns the field value of one
of the candles `max(i−n, 0) … i` (type kept) -/
theorem extreme_total (cs : List (Candle F)) (ind : String) (f : Candle F → Num F)
    (hf : ∀ c, readingByCandle c ind = .num (f c)) (better : Num F → Num F → Bool)
    (n i : Nat) (hn : 1 ≤ n) (hi : i < cs.length) :
    ∃ k, i - n ≤ k ∧ k ≤ i ∧ Mov.extreme cs ind (n : Int) (i : Int) better = .ok (.num (f (cs.getD k default))) := by
  unfold Mov.extreme
  rw [absIndex_nat i cs.length hi]
  have a : ¬ ((n : Int) < 1) := by omega
  have b : cs.isEmpty = false := by
    cases cs with
    | nil => simp at hi
    | cons _ _ => rfl
  simp only [a, b, decide_false, Bool.or_self, Bool.false_eq_true, if_false]
  have hown : Scalar.num (f (cs.getD i default)) ∈ Mov.cleanScalars cs ind (n : Int) (i : Int) true :=
    (mem_cleanScalars_attr cs ind f hf n i hi _).2 ⟨i, by omega, le_refl _, rfl⟩
  cases hl : Mov.cleanScalars cs ind (n : Int) (i : Int) true with
  | nil => rw [hl] at hown; cases hown
  | cons x xs =>
    have hp : Mov.pickScalar better (x :: xs) = some
        (xs.foldl (fun best y => if better (Mov.scalarNum y) (Mov.scalarNum best) then y else best) x) := rfl
    have hm := pickScalar_mem better _ _ hp
    rw [← hl] at hm
    obtain ⟨k, h1, h2, h3⟩ := (mem_cleanScalars_attr cs ind f hf n i hi _).1 hm
    refine ⟨k, h1, h2, ?_⟩
    rw [hp, h3]

end windows

/-- `movement.highest` over a candle field: returns the field value (type kept) of a candle of the
window `max(i−n, 0) … i` that bounds the whole window from above -/
theorem highest_window (cs : List (Candle K)) (ind : String) (f : Candle K → Num K)
    (hf : ∀ c, readingByCandle c ind = .num (f c)) (n i : Nat) (hn : 1 ≤ n) (hi : i < cs.length) :
    ∃ k, i - n ≤ k ∧ k ≤ i ∧ Mov.highest cs ind (n : Int) (i : Int) = .ok (.num (f (cs.getD k default))) ∧
      ∀ k', i - n ≤ k' → k' ≤ i → (f (cs.getD k' default)).toF ≤ (f (cs.getD k default)).toF := by
  obtain ⟨k, h1, h2, h3⟩ := extreme_total cs ind f hf (fun y best => y.gt best) n i hn hi
  refine ⟨k, h1, h2, h3, ?_⟩
  obtain ⟨i', hi', _, hmax⟩ := highest_spec cs ind n i _ h3
  rw [absIndex_nat i cs.length hi] at hi'
  cases hi'
  intro k' h1' h2'
  exact hmax _ ((mem_cleanScalars_attr cs ind f hf n i hi _).2 ⟨k', h1', h2', rfl⟩)

theorem lowest_window (cs : List (Candle K)) (ind : String) (f : Candle K → Num K)
    (hf : ∀ c, readingByCandle c ind = .num (f c)) (n i : Nat) (hn : 1 ≤ n) (hi : i < cs.length) :
    ∃ k, i - n ≤ k ∧ k ≤ i ∧ Mov.lowest cs ind (n : Int) (i : Int) = .ok (.num (f (cs.getD k default))) ∧
      ∀ k', i - n ≤ k' → k' ≤ i → (f (cs.getD k default)).toF ≤ (f (cs.getD k' default)).toF := by
  obtain ⟨k, h1, h2, h3⟩ := extreme_total cs ind f hf (fun y best => y.lt best) n i hn hi
  refine ⟨k, h1, h2, h3, ?_⟩
  obtain ⟨i', hi', _, hmin⟩ := lowest_spec cs ind n i _ h3
  rw [absIndex_nat i cs.length hi] at hi'
  cases hi'
  intro k' h1' h2'
  exact hmin _ ((mem_cleanScalars_attr cs ind f hf n i hi _).2 ⟨k', h1', h2', rfl⟩)

/-! ### the textbook window extremes -/

/-- highest of `x j, x (j−1), …, x (j−w)`; indices are cut at candle 0 (`j − d` is the natural
subtraction: a window reaching before the first candle just repeats `x 0`) -/
def winMax (x : Nat → K) (j : Nat) : Nat → K
  | 0 => x j
  | w + 1 => max (winMax x j w) (x (j - (w + 1)))

/-- lowest of `x j, x (j−1), …, x (j−w)` (cut at candle 0) -/
def winMin (x : Nat → K) (j : Nat) : Nat → K
  | 0 => x j
  | w + 1 => min (winMin x j w) (x (j - (w + 1)))

theorem winMax_ge (x : Nat → K) (j w : Nat) : ∀ d, d ≤ w → x (j - d) ≤ winMax x j w := by
  induction w with
  | zero => intro d hd; have : d = 0 := by omega
            subst this; exact le_refl _
  | succ w ih =>
    intro d hd
    by_cases h : d ≤ w
    · exact le_trans (ih d h) (le_max_left _ _)
    · have : d = w + 1 := by omega
      subst this; exact le_max_right _ _

theorem winMax_mem (x : Nat → K) (j w : Nat) : ∃ d, d ≤ w ∧ winMax x j w = x (j - d) := by
  induction w with
  | zero => exact ⟨0, le_refl _, rfl⟩
  | succ w ih =>
    obtain ⟨d, hd, he⟩ := ih
    rcases max_choice (winMax x j w) (x (j - (w + 1))) with h | h
    · exact ⟨d, by omega, by rw [winMax, h, he]⟩
    · exact ⟨w + 1, le_refl _, by rw [winMax, h]⟩

theorem winMin_le (x : Nat → K) (j w : Nat) : ∀ d, d ≤ w → winMin x j w ≤ x (j - d) := by
  induction w with
  | zero => intro d hd; have : d = 0 := by omega
            subst this; exact le_refl _
  | succ w ih =>
    intro d hd
    by_cases h : d ≤ w
    · exact le_trans (min_le_left _ _) (ih d h)
    · have : d = w + 1 := by omega
      subst this; exact min_le_right _ _

theorem winMin_mem (x : Nat → K) (j w : Nat) : ∃ d, d ≤ w ∧ winMin x j w = x (j - d) := by
  induction w with
  | zero => exact ⟨0, le_refl _, rfl⟩
  | succ w ih =>
    obtain ⟨d, hd, he⟩ := ih
    rcases min_choice (winMin x j w) (x (j - (w + 1))) with h | h
    · exact ⟨d, by omega, by rw [winMin, h, he]⟩
    · exact ⟨w + 1, le_refl _, by rw [winMin, h]⟩

/-- the window encloses the candle's own value -/
theorem winMax_self (x : Nat → K) (j w : Nat) : x j ≤ winMax x j w := winMax_ge x j w 0 (Nat.zero_le _)
theorem winMin_self (x : Nat → K) (j w : Nat) : winMin x j w ≤ x j := winMin_le x j w 0 (Nat.zero_le _)
theorem winMin_le_winMax (l h : Nat → K) (hlh : ∀ k, l k ≤ h k) (j w : Nat) : winMin l j w ≤ winMax h j w :=
  le_trans (winMin_self l j w) (le_trans (hlh j) (winMax_self h j w))

/-- a value attained in the window `max(j−w,0) … j` that bounds the window from above IS `winMax` -/
theorem winMax_unique (x : Nat → K) (j w k : Nat) (h1 : j - w ≤ k) (h2 : k ≤ j)
    (hub : ∀ k', j - w ≤ k' → k' ≤ j → x k' ≤ x k) : x k = winMax x j w := by
  apply le_antisymm
  · have := winMax_ge x j w (j - k) (by omega)
    rwa [show j - (j - k) = k by omega] at this
  · obtain ⟨d, hd, he⟩ := winMax_mem x j w
    rw [he]; exact hub _ (by omega) (by omega)

theorem winMin_unique (x : Nat → K) (j w k : Nat) (h1 : j - w ≤ k) (h2 : k ≤ j)
    (hlb : ∀ k', j - w ≤ k' → k' ≤ j → x k ≤ x k') : x k = winMin x j w := by
  apply le_antisymm
  · obtain ⟨d, hd, he⟩ := winMin_mem x j w
    rw [he]; exact hlb _ (by omega) (by omega)
  · have := winMin_le x j w (j - k) (by omega)
    rwa [show j - (j - k) = k by omega] at this

/-- field `fld` of raw candle `j` as the stored number (type kept) -/
def numAt (fld : Candle K → Num K) (raw : List (Candle K)) (j : Nat) : Num K := fld (raw.getD j default)

theorem fieldAt_numAt (fld : Candle K → Num K) (raw : List (Candle K)) (j : Nat) :
    fieldAt fld raw j = (numAt fld raw j).toF := rfl

/-! ### the step context of a leaf: highs and lows are the raw ones -/

section stepwin
variable (nm : String) (raw : List (Candle K)) (vs : List (Val K)) (m : Nat)

theorem stepCtx_getD (hm : m < raw.length) (hvs : vs.length = m) (fld : Candle K → Num K)
    (hfld : ∀ (v : Val K) (c : Candle K), fld (setKey false nm v c) = fld c) (k : Nat) (hk : k ≤ m) :
    fld ((stepCtx nm raw vs m).cs.getD k default) = fld (raw.getD k default) := by
  rw [List.getD_eq_getElem?_getD]
  by_cases hkm : k < m
  · rw [stepCtx_lt nm raw vs m hm hvs k hkm]; exact hfld _ _
  · have : k = m := by omega
    subst this
    rw [stepCtx_eq nm raw vs k hm hvs]; rfl

theorem stepCtx_highest (hm : m < raw.length) (hvs : vs.length = m) (w : Nat) (hw : 1 ≤ w) :
    ∃ k, m - w ≤ k ∧ k ≤ m ∧
      Mov.highest (stepCtx nm raw vs m).cs "high" (w : Int) (m : Int) = .ok (.num (numAt (·.h) raw k)) ∧
      (numAt (·.h) raw k).toF = winMax (fieldAt (·.h) raw) m w := by
  have hlen := stepCtx_length nm raw vs m hm hvs
  obtain ⟨k, h1, h2, h3, h4⟩ := highest_window (stepCtx nm raw vs m).cs "high" (·.h)
    (fun c => readingByCandle_high c) w m hw (by rw [hlen]; omega)
  have hg : ∀ k', k' ≤ m → ((stepCtx nm raw vs m).cs.getD k' default).h = (raw.getD k' default).h :=
    fun k' hk' => stepCtx_getD nm raw vs m hm hvs (·.h) (fun _ _ => rfl) k' hk'
  refine ⟨k, h1, h2, ?_, ?_⟩
  · rw [h3]; simp only [hg k h2]; rfl
  · refine winMax_unique (fieldAt (·.h) raw) m w k h1 h2 ?_
    intro k' h1' h2'
    have := h4 k' h1' h2'
    simp only [hg k h2, hg k' h2'] at this
    exact this

theorem stepCtx_lowest (hm : m < raw.length) (hvs : vs.length = m) (w : Nat) (hw : 1 ≤ w) :
    ∃ k, m - w ≤ k ∧ k ≤ m ∧
      Mov.lowest (stepCtx nm raw vs m).cs "low" (w : Int) (m : Int) = .ok (.num (numAt (·.l) raw k)) ∧
      (numAt (·.l) raw k).toF = winMin (fieldAt (·.l) raw) m w := by
  have hlen := stepCtx_length nm raw vs m hm hvs
  obtain ⟨k, h1, h2, h3, h4⟩ := lowest_window (stepCtx nm raw vs m).cs "low" (·.l)
    (fun c => readingByCandle_low c) w m hw (by rw [hlen]; omega)
  have hg : ∀ k', k' ≤ m → ((stepCtx nm raw vs m).cs.getD k' default).l = (raw.getD k' default).l :=
    fun k' hk' => stepCtx_getD nm raw vs m hm hvs (·.l) (fun _ _ => rfl) k' hk'
  refine ⟨k, h1, h2, ?_, ?_⟩
  · rw [h3]; simp only [hg k h2]; rfl
  · refine winMin_unique (fieldAt (·.l) raw) m w k h1 h2 ?_
    intro k' h1' h2'
    have := h4 k' h1' h2'
    simp only [hg k h2, hg k' h2'] at this
    exact this

end stepwin

/-! ## HighestLowest -/

/-- what the whole-series theorem says of the HighestLowest reading at index `j` (EVERY index: the
indicator has no warm-up): a dict `{low, high}` holding the low / high of two candles `kl`, `kh` of
the window `max(j−p, 0) … j` (`p + 1` candles once `j ≥ p`), with their type (an int stays an int,
a float is rounded), whose values are the lowest low / highest high of that window -/
def HlOK (p n : Nat) (hN lN : Nat → Num K) (j : Nat) (v : Val K) : Prop :=
  ∃ kl kh, (j - p ≤ kl ∧ kl ≤ j) ∧ (j - p ≤ kh ∧ kh ≤ j) ∧
    v = .dict [("low", .num ((lN kl).roundBy n)), ("high", .num ((hN kh).roundBy n))] ∧
    (lN kl).toF = winMin (fun k => (lN k).toF) j p ∧ (hN kh).toF = winMax (fun k => (hN k).toF) j p

/-- **C05 for the whole HighestLowest series**, period `p ≥ 1` (`p = 0` makes `movement.highest`
return `False`).  Readings from candle 0 on; window of `p + 1` candles, cut at candle 0. -/
theorem hl_series (p : Nat) (hp : 1 ≤ p) (nm : String) (n : Nat) (hk : IsKey nm)
    (raw : List (Candle K)) (hraw : ∀ c ∈ raw, Plain c) :
    ∃ vs : List (Val K), vs.length = raw.length ∧
      rowMajor (mkTop (.hl p) nm n) raw = .ok (deco nm raw vs) ∧
      ∀ j, j < raw.length → HlOK p n (numAt (·.h) raw) (numAt (·.l) raw) j (vs.getD j .none) := by
  refine series_induct (mkTop (.hl p) nm n) nm rfl rfl raw _ ?_
  intro m hm vs hvs _
  change ∃ v, Calc.hl (stepCtx nm raw vs m) p = .ok v ∧ HlOK p n _ _ m (v.roundBy n)
  obtain ⟨kh, a1, a2, a3, a4⟩ := stepCtx_highest nm raw vs m hm hvs p hp
  obtain ⟨kl, b1, b2, b3, b4⟩ := stepCtx_lowest nm raw vs m hm hvs p hp
  exact ⟨_, hl_def (stepCtx nm raw vs m) p _ _ b3 a3, kl, kh, ⟨b1, b2⟩, ⟨a1, a2⟩, rfl, b4, a4⟩

/-! ## Donchian -/

/-- name hypotheses of a Donchian node: an ordinary key whose `DCU` field is addressed by a dotted name -/
structure DcNames (nm : String) : Prop where
  key : IsKey nm
  dcu : splitDot (nm ++ ".DCU") = [nm, "DCU"]

/-- the reading stored during warm-up -/
def dcNone : Val K := .dict [("DCL", .none), ("DCM", .none), ("DCU", .none)]

/-- what the whole-series theorem says of the Donchian reading at index `j`: all fields `None` up
to index `p − 2`; from index `p − 1` on `DCL` / `DCU` hold the low / high of two candles `kl`, `kh`
of the window `j−(p−1) … j` (the last `p` candles) with their type (an int stays an int, a float is
rounded), whose values are the lowest low / highest high of that window, and `DCM` is the rounding
of the mean of the two UNROUNDED bounds -/
def DcOK (p n : Nat) (hN lN : Nat → Num K) (j : Nat) (v : Val K) : Prop :=
  (j + 1 < p → v = dcNone) ∧
  (p ≤ j + 1 → ∃ kl kh, (j - (p - 1) ≤ kl ∧ kl ≤ j) ∧ (j - (p - 1) ≤ kh ∧ kh ≤ j) ∧
    v = .dict [("DCL", .num ((lN kl).roundBy n)),
               ("DCM", .flt (PyF.round n (((hN kh).toF + (lN kl).toF) / 2))),
               ("DCU", .num ((hN kh).roundBy n))] ∧
    (lN kl).toF = winMin (fun k => (lN k).toF) j (p - 1) ∧ (hN kh).toF = winMax (fun k => (hN k).toF) j (p - 1))

theorem stepCtx_prev_dcu (nm : String) (hn : DcNames nm) (raw : List (Candle K)) (vs : List (Val K)) (m : Nat)
    (hm : m < raw.length) (hvs : vs.length = m) (hraw : ∀ c ∈ raw, Plain c) :
    (stepCtx nm raw vs m).prevReading (nm ++ ".DCU")
      = .ok (if m = 0 then .none else (vs.getD (m - 1) .none).nested "DCU") := by
  unfold Ctx.prevReading
  have hl := stepCtx_length nm raw vs m hm hvs
  by_cases h0 : m = 0
  · subst h0; simp [stepCtx]
  · have h1 : ((stepCtx nm raw vs m).cs.length == 0) = false := by rw [hl]; simp
    have h2 : ((stepCtx nm raw vs m).i == 0) = false := by simp [stepCtx]; omega
    simp only [h1, h2, Bool.or_self, Bool.false_eq_true, if_false, h0]
    have e : (stepCtx nm raw vs m).i - 1 = ((m - 1 : Nat) : Int) := by simp [stepCtx]; omega
    rw [e]
    unfold Ctx.reading
    simp only [Option.getD_some]
    rw [pyIndex_nonneg _ _ (by omega)]
    simp only [Int.toNat_natCast]
    rw [stepCtx_lt nm raw vs m hm hvs (m - 1) (by omega)]
    simp only [getOrIndexError, pym_bind_ok, pym_pure]
    unfold readingByCandle
    rw [hn.dcu]
    simp [setKey, dlookup_dset_self]

/-- **C05 for the whole Donchian series**, period `p ≥ 2` (`p = 1` makes `movement.highest` return
`False`).  `None` fields up to index `p − 2`, first reading at index `p − 1`, window = the last `p`
candles. -/
theorem donchian_series (p : Nat) (hp : 2 ≤ p) (nm : String) (n : Nat) (hn : DcNames nm)
    (raw : List (Candle K)) (hraw : ∀ c ∈ raw, Plain c) :
    ∃ vs : List (Val K), vs.length = raw.length ∧
      rowMajor (mkTop (.donchian p) nm n) raw = .ok (deco nm raw vs) ∧
      ∀ j, j < raw.length → DcOK p n (numAt (·.h) raw) (numAt (·.l) raw) j (vs.getD j .none) := by
  refine series_induct (mkTop (.donchian p) nm n) nm rfl rfl raw _ ?_
  intro m hm vs hvs hQ
  change ∃ v, Calc.donchian (stepCtx nm raw vs m) p = .ok v ∧ DcOK p n _ _ m (v.roundBy n)
  have hprev := stepCtx_prev_dcu nm hn raw vs m hm hvs hraw
  have hper : (stepCtx nm raw vs m).readingPeriod (p : Int) "high" (some (stepCtx nm raw vs m).i) = decide (p ≤ m + 1) :=
    stepCtx_period nm "high" (·.h) raw vs m hm hvs noDot_high (fun _ => rfl) p (by omega)
  by_cases h1 : m + 1 < p
  · have hpn : (stepCtx nm raw vs m).prevReading ((stepCtx nm raw vs m).name ++ ".DCU") = .ok .none := by
      show (stepCtx nm raw vs m).prevReading (nm ++ ".DCU") = _
      rw [hprev]
      by_cases h0 : m = 0
      · simp [h0]
      · simp only [h0, if_false]
        rw [(hQ (m - 1) (by omega)).1 (by omega)]
        rfl
    refine ⟨_, donchian_none _ p hpn (by rw [hper]; simp; omega), fun _ => rfl, fun h => by omega⟩
  · have e : ((p : Int) - 1) = ((p - 1 : Nat) : Int) := by omega
    obtain ⟨kh, a1, a2, a3, a4⟩ := stepCtx_highest nm raw vs m hm hvs (p - 1) (by omega)
    obtain ⟨kl, b1, b2, b3, b4⟩ := stepCtx_lowest nm raw vs m hm hvs (p - 1) (by omega)
    have hd := donchian_def (stepCtx nm raw vs m) p _ (numAt (·.h) raw kh) (numAt (·.l) raw kl)
      (show (stepCtx nm raw vs m).prevReading (nm ++ ".DCU") = _ from hprev)
      (Or.inr (by rw [hper]; simp; omega)) (by rw [e]; exact a3) (by rw [e]; exact b3)
    exact ⟨_, hd, fun h => by omega, fun _ => ⟨kl, kh, ⟨b1, b2⟩, ⟨a1, a2⟩, rfl, b4, a4⟩⟩

end Numeric
end Hex

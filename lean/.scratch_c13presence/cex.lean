import HexProofs.Writes.Twin
import HexProofs.Lib.IntInst
open Hex

def exCandle (c : Int) : Candle Int :=
  { o := .int c, h := .int (c + 2), l := .int (c - 1), c := .int (c + 1), v := .int 10 }
def exCandles : List (Candle Int) := [exCandle 10, exCandle 12, exCandle 11, exCandle 15, exCandle 14, exCandle 13]
def exE : Member Int := { tree := mkTop (.ema 2 "close" (.int 2)) "EMA_2" 4, tfName := none, tfSecs := none }

def col (r : PyM (Hexital Int)) (n : String) : String :=
  match r with
  | .ok h => match h.readingAsList n with
    | .ok l => toString (repr l)
    | .error e => "err2"
  | .error e => "err"

#eval col (runHexital {} none exCandles [exE] ([.calculateIndex (some "EMA_2") 3] ++ [.calculate none])) "EMA_2"
#eval col (runHexital {} none exCandles [exE] ([] ++ [.calculate none])) "EMA_2"

import HexProofs.Framework.Gen.AllX
open Hex
#check @String.toList_append
#check @String.append_left_inj
#check @String.append_right_inj
example (a b c : String) (h : a ++ b = a ++ c) : b = c := by
  have := congrArg String.toList h
  simp [String.toList_append] at this
  exact String.toList_inj.1 this
#print AtrNames
#print RsiNames
#print ThresNames
#print BbNames
#print StNames
#print MacdNames
#print HmaNames
#print StochNames
#print AdxNames

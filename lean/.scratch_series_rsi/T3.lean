import HexProofs.Framework.Gen.RSI
import HexProofs.Numeric.Rsi
import HexProofs.Numeric.SeriesAvg
import HexProofs.Numeric.Demo
set_option linter.unusedSectionVars false
set_option linter.unusedSimpArgs false
namespace Hex
namespace Numeric
variable {K : Type} [Field K] [LinearOrder K] [IsStrictOrderedRing K] [LawfulPyF K]

section generic
variable {F : Type} [PyF F] {R : Type}

/-- raw candles finished row by row: candle `j` becomes `out (raw j) (rows j)` -/
def decoWith (out : Candle F → R → Candle F) (raw : List (Candle F)) (rows : List R) : List (Candle F) :=
  List.zipWith out raw rows

theorem decoWith_length (out : Candle F → R → Candle F) (raw : List (Candle F)) (rows : List R)
    (h : rows.length = raw.length) : (decoWith out raw rows).length = raw.length := by
  simp [decoWith, h]

theorem decoWith_append (out : Candle F → R → Candle F) (raw : List (Candle F)) (rows : List R)
    (c : Candle F) (r : R) (h : rows.length = raw.length) :
    decoWith out (raw ++ [c]) (rows ++ [r]) = decoWith out raw rows ++ [out c r] := by
  unfold decoWith
  rw [List.zipWith_append (by omega)]
  rfl

theorem decoWith_getElem? (out : Candle F → R → Candle F) (raw : List (Candle F)) (rows : List R) (dflt : R)
    (j : Nat) (h : rows.length = raw.length) (hj : j < raw.length) :
    (decoWith out raw rows)[j]? = some (out (raw.getD j default) (rows.getD j dflt)) := by
  unfold decoWith
  rw [List.getElem?_zipWith]
  have h1 : raw[j]? = some (raw.getD j default) := by
    rw [List.getD_eq_getElem?_getD, List.getElem?_eq_getElem hj]; rfl
  have h2 : rows[j]? = some (rows.getD j dflt) := by
    rw [List.getD_eq_getElem?_getD, List.getElem?_eq_getElem (by omega)]; rfl
  rw [h1, h2]

/-- **Series induction along `Gen.rowMajor`.** -/
theorem gen_series_induct (S : Gen.StepSpec F) (out : Candle F → R → Candle F) (dflt : R)
    (raw : List (Candle F)) (Q : Nat → R → Prop)
    (hstep : ∀ (m : Nat) (_ : m < raw.length) (rows : List R), rows.length = m →
      (∀ j, j < m → Q j (rows.getD j dflt)) →
      ∃ r, Gen.rowStep S (decoWith out (raw.take m) rows) (raw.getD m default)
          = .ok (decoWith out (raw.take m) rows ++ [out (raw.getD m default) r]) ∧ Q m r) :
    ∃ rows : List R, rows.length = raw.length ∧ Gen.rowMajor S raw = .ok (decoWith out raw rows) ∧
      ∀ j, j < raw.length → Q j (rows.getD j dflt) := by
  suffices h : ∀ m, m ≤ raw.length → ∃ rows : List R, rows.length = m ∧
      Gen.rowMajor S (raw.take m) = .ok (decoWith out (raw.take m) rows) ∧ ∀ j, j < m → Q j (rows.getD j dflt) by
    obtain ⟨rows, h1, h2, h3⟩ := h raw.length (le_refl _)
    rw [List.take_length] at h2
    exact ⟨rows, h1, h2, h3⟩
  intro m
  induction m with
  | zero => intro _; exact ⟨[], rfl, by simp [Gen.rowMajor, Gen.rowMajorFrom, decoWith], fun j hj => absurd hj (Nat.not_lt_zero j)⟩
  | succ m ih =>
    intro hm
    obtain ⟨rows, h1, h2, h3⟩ := ih (by omega)
    obtain ⟨r, hr, hq⟩ := hstep m (by omega) rows h1 h3
    have htl : (raw.take m).length = m := by simp; omega
    have htake : raw.take (m + 1) = raw.take m ++ [raw.getD m default] := by
      rw [List.take_add_one]
      congr 1
      rw [List.getD_eq_getElem?_getD, List.getElem?_eq_getElem (by omega)]
      rfl
    refine ⟨rows ++ [r], by simp [h1], ?_, ?_⟩
    · rw [htake, Gen.rowMajor_append, h2]
      simp only [pym_bind_ok, Gen.rowMajorFrom, List.foldlM_cons, List.foldlM_nil]
      rw [hr]
      simp only [pym_bind_ok, pym_pure, bind_pure]
      rw [decoWith_append _ _ _ _ _ (by rw [htl, h1])]
    · intro j hj
      by_cases hjm : j < m
      · rw [List.getD_eq_getElem?_getD, List.getElem?_append_left (by omega), ← List.getD_eq_getElem?_getD]
        exact h3 j hjm
      · have : j = m := by omega
        subst this
        rw [List.getD_eq_getElem?_getD, List.getElem?_append_right (by omega)]
        simpa [h1] using hq

end generic
/-! ### the textbook RSI series -/

/-- upward move into candle `j` (`j ≥ 1`) -/
def upAt (x : Nat → K) (j : Nat) : K := max (x j - x (j - 1)) 0
/-- downward move into candle `j` (`j ≥ 1`) -/
def downAt (x : Nat → K) (j : Nat) : K := max (x (j - 1) - x j) 0

theorem upAt_nonneg (x : Nat → K) (j : Nat) : 0 ≤ upAt x j := le_max_right _ _
theorem downAt_nonneg (x : Nat → K) (j : Nat) : 0 ≤ downAt x j := le_max_right _ _

/-- Wilder's average of the moves `u 1, u 2, …` with period `p`: the plain mean of `u 1 … u p` at
the warm-up index `p` (and, by convention, before it), then `avg j = (avg (j−1)·(p−1) + u j)/p` -/
def wilderAvg (p : Nat) (u : Nat → K) : Nat → K
  | 0 => rsum p (fun k => u (k + 1)) / p
  | j + 1 => if j + 1 ≤ p then rsum p (fun k => u (k + 1)) / p
             else (wilderAvg p u j * ((p : K) - 1) + u (j + 1)) / p

theorem wilderAvg_seed (p : Nat) (u : Nat → K) (j : Nat) (h : j ≤ p) :
    wilderAvg p u j = rsum p (fun k => u (k + 1)) / p := by
  cases j with
  | zero => rfl
  | succ i => simp [wilderAvg, h]

theorem wilderAvg_step (p : Nat) (u : Nat → K) (j : Nat) (h : p < j) :
    wilderAvg p u j = (wilderAvg p u (j - 1) * ((p : K) - 1) + u j) / p := by
  obtain ⟨i, rfl⟩ : ∃ i, j = i + 1 := ⟨j - 1, by omega⟩
  have : ¬ i + 1 ≤ p := by omega
  simp [wilderAvg, this]

theorem wilderAvg_nonneg (p : Nat) (hp : 1 ≤ p) (u : Nat → K) (hu : ∀ j, 0 ≤ u j) (j : Nat) :
    0 ≤ wilderAvg p u j := by
  have hpK : (0 : K) < p := by exact_mod_cast (by omega : 0 < p)
  have hs : 0 ≤ rsum p (fun k => u (k + 1)) / (p : K) :=
    div_nonneg (rsum_nonneg p _ (fun k _ => hu (k + 1))) hpK.le
  induction j with
  | zero => exact hs
  | succ i ih =>
    by_cases h : i + 1 ≤ p
    · rw [wilderAvg_seed p u _ h]; exact hs
    · rw [wilderAvg_step p u _ (by omega)]
      exact wilder_nonneg p _ _ hp (by simpa using ih) (hu _)

/-- the exact RSI at index `j ≥ p` -/
def rsiExact (p : Nat) (x : Nat → K) (j : Nat) : K :=
  rsiOf (wilderAvg p (upAt x) j) (wilderAvg p (downAt x) j)

/-- the textbook RSI series of the raw inputs: nothing before the warm-up index `p` -/
def rsiSeries (p : Nat) (x : Nat → K) (j : Nat) : Option K :=
  if j < p then none else some (rsiExact p x j)

theorem rsiExact_range (p : Nat) (hp : 1 ≤ p) (x : Nat → K) (j : Nat) :
    0 ≤ rsiExact p x j ∧ rsiExact p x j ≤ 100 :=
  rsiOf_range _ _ (wilderAvg_nonneg p hp _ (upAt_nonneg x) j) (wilderAvg_nonneg p hp _ (downAt_nonneg x) j)

theorem round_zero (n : Nat) : PyF.round n (0 : K) = 0 := by
  have := LawfulPyF.round_grid (K := K) n 0
  simpa using this

theorem round_hundred (n : Nat) : PyF.round n (100 : K) = 100 := by
  have h := LawfulPyF.round_grid (K := K) n (100 * 10 ^ n)
  have hp : (10 : K) ^ n ≠ 0 := by positivity
  have e : (((100 * 10 ^ n : Int)) : K) / 10 ^ n = 100 := by
    push_cast; field_simp
  rw [e] at h; exact h

end Numeric
end Hex

import HexProofs.Framework.Gen.RSI
import HexProofs.Numeric.Rsi
import HexProofs.Numeric.SeriesAvg
import HexProofs.Numeric.Demo
set_option linter.unusedSectionVars false
set_option linter.unusedSimpArgs false
namespace Hex
namespace Numeric
variable {K : Type} [Field K] [LinearOrder K] [IsStrictOrderedRing K] [LawfulPyF K]

section generic
variable {F : Type} [PyF F] {R : Type}

/-- raw candles finished row by row: candle `j` becomes `out (raw j) (rows j)` -/
def decoWith (out : Candle F → R → Candle F) (raw : List (Candle F)) (rows : List R) : List (Candle F) :=
  List.zipWith out raw rows

theorem decoWith_length (out : Candle F → R → Candle F) (raw : List (Candle F)) (rows : List R)
    (h : rows.length = raw.length) : (decoWith out raw rows).length = raw.length := by
  simp [decoWith, h]

theorem decoWith_append (out : Candle F → R → Candle F) (raw : List (Candle F)) (rows : List R)
    (c : Candle F) (r : R) (h : rows.length = raw.length) :
    decoWith out (raw ++ [c]) (rows ++ [r]) = decoWith out raw rows ++ [out c r] := by
  unfold decoWith
  rw [List.zipWith_append (by omega)]
  rfl

theorem decoWith_getElem? (out : Candle F → R → Candle F) (raw : List (Candle F)) (rows : List R) (dflt : R)
    (j : Nat) (h : rows.length = raw.length) (hj : j < raw.length) :
    (decoWith out raw rows)[j]? = some (out (raw.getD j default) (rows.getD j dflt)) := by
  unfold decoWith
  rw [List.getElem?_zipWith]
  have h1 : raw[j]? = some (raw.getD j default) := by
    rw [List.getD_eq_getElem?_getD, List.getElem?_eq_getElem hj]; rfl
  have h2 : rows[j]? = some (rows.getD j dflt) := by
    rw [List.getD_eq_getElem?_getD, List.getElem?_eq_getElem (by omega)]; rfl
  rw [h1, h2]; rfl

/-- **Series induction along `Gen.rowMajor`.** -/
theorem gen_series_induct (S : Gen.StepSpec F) (out : Candle F → R → Candle F) (dflt : R)
    (raw : List (Candle F)) (Q : Nat → R → Prop)
    (hstep : ∀ (m : Nat) (_ : m < raw.length) (rows : List R), rows.length = m →
      (∀ j, j < m → Q j (rows.getD j dflt)) →
      ∃ r, Gen.rowStep S (decoWith out (raw.take m) rows) (raw.getD m default)
          = .ok (decoWith out (raw.take m) rows ++ [out (raw.getD m default) r]) ∧ Q m r) :
    ∃ rows : List R, rows.length = raw.length ∧ Gen.rowMajor S raw = .ok (decoWith out raw rows) ∧
      ∀ j, j < raw.length → Q j (rows.getD j dflt) := by
  suffices h : ∀ m, m ≤ raw.length → ∃ rows : List R, rows.length = m ∧
      Gen.rowMajor S (raw.take m) = .ok (decoWith out (raw.take m) rows) ∧ ∀ j, j < m → Q j (rows.getD j dflt) by
    obtain ⟨rows, h1, h2, h3⟩ := h raw.length (le_refl _)
    rw [List.take_length] at h2
    exact ⟨rows, h1, h2, h3⟩
  intro m
  induction m with
  | zero => intro _; exact ⟨[], rfl, by simp [Gen.rowMajor, Gen.rowMajorFrom, decoWith], fun j hj => absurd hj (Nat.not_lt_zero j)⟩
  | succ m ih =>
    intro hm
    obtain ⟨rows, h1, h2, h3⟩ := ih (by omega)
    obtain ⟨r, hr, hq⟩ := hstep m (by omega) rows h1 h3
    have htl : (raw.take m).length = m := by simp; omega
    have htake : raw.take (m + 1) = raw.take m ++ [raw.getD m default] := by
      rw [List.take_add_one]
      congr 1
      rw [List.getD_eq_getElem?_getD, List.getElem?_eq_getElem (by omega)]
      rfl
    refine ⟨rows ++ [r], by simp [h1], ?_, ?_⟩
    · rw [htake, Gen.rowMajor_append, h2]
      simp only [pym_bind_ok, Gen.rowMajorFrom, List.foldlM_cons, List.foldlM_nil]
      rw [hr]
      simp only [pym_bind_ok, pym_pure, bind_pure]
      rw [decoWith_append _ _ _ _ _ (by rw [htl, h1])]
      rfl
    · intro j hj
      by_cases hjm : j < m
      · rw [List.getD_eq_getElem?_getD, List.getElem?_append_left (by omega), ← List.getD_eq_getElem?_getD]
        exact h3 j hjm
      · have : j = m := by omega
        subst this
        rw [List.getD_eq_getElem?_getD, List.getElem?_append_right (by omega)]
        simpa [h1] using hq

end generic
end Numeric
end Hex

import HexProofs.Framework.Gen.RSI
import HexProofs.Numeric.Rsi
import HexProofs.Numeric.SeriesAvg
import HexProofs.Numeric.Demo
set_option linter.unusedSectionVars false
set_option linter.unusedSimpArgs false
namespace Hex
namespace Numeric
variable {K : Type} [Field K] [LinearOrder K] [IsStrictOrderedRing K] [LawfulPyF K]

theorem rsi_rowStep (nm : String) (n : Nat) (p : Int) (input : String) (hp : 0 ≤ p)
    (hn : RsiNames nm) (hin : NoDot input ∧ input ∈ Candle.attrNames)
    (done : List (Candle K)) (c : Candle K) :
    Gen.rowStep (rsiTree (F := K) nm n p input hp hn hin).S done c = (do
      let r ← Calc.rsi (dOps (nm ++ "_data") done.length) { cs := done ++ [c], i := done.length, name := nm } p input
      setReading false nm r.2 done.length (r.1.roundBy n)) := rfl

end Numeric
end Hex

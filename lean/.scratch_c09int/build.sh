#!/bin/bash
cd /verif/lean
cat .scratch_c09int/head.lean .scratch_c09int/sec_*.lean > HexProofs/Numeric/Total.lean
printf '\nend Numeric\nend Hex\n' >> HexProofs/Numeric/Total.lean
cat .scratch_c09int/axioms.lean >> HexProofs/Numeric/Total.lean 2>/dev/null
lake build HexProofs.Numeric.Total 2>&1 | grep -A12 "Numeric/Total.lean\|^error\|[a-z] HexProofs.Numeric.Total\|build failed" | head -${1:-80}


/-! ## leaf kinds: the generic step -/

/-- for a covered leaf kind, totality and every predicate of the (leaf) row-major run carry over
to every live history on every manager -/
theorem leaf_total_of {F : Type} [PyF F] (k : Kind F) (nm : String) (n : Nat) (hc : Covered nm k)
    (P : List (Candle F) → List (Candle F) → Prop)
    (h : ∀ raw : List (Candle F), (∀ c ∈ raw, Plain c) → ∃ out, rowMajor (mkTop k nm n) raw = .ok out ∧ P raw out)
    (M : MgrSpec F) : NeverRaises M (mkTop k nm n) ∧ Always M (mkTop k nm n) P := by
  obtain ⟨C⟩ := hc.contract n
  exact (TreeSpec.ofLeaf _ (hc.isLeaf n) C).total_of P h M

/-- the own reading of candle `j` of a decorated list -/
theorem own_deco {F : Type} [PyF F] (nm : String) (hk : IsKey nm) (raw : List (Candle F)) (vs : List (Val F))
    (hl : vs.length = raw.length) (j : Nat) (hj : j < raw.length) :
    readingByCandle ((deco nm raw vs).getD j default) nm = vs.getD j .none := by
  have hg : (deco nm raw vs).getD j default = setKey false nm (vs.getD j .none) (raw.getD j default) := by
    rw [List.getD_eq_getElem?_getD, deco_getElem? nm raw vs j hl hj]; rfl
  rw [hg, readingByCandle_setKey_top nm hk]

/-! ## VWAP (a number on EVERY candle – no warm-up; `pv` itself while the cumulative volume is 0) -/

theorem vwap_rows (p : Int) (nm : String) (n : Nat) (hn : VwapNames nm)
    (raw : List (Candle K)) (hraw : ∀ c ∈ raw, Plain c) :
    ∃ out, Gen.rowMajor (vwapTree (F := K) nm n p).S raw = .ok out ∧ NoGaps (own nm) 0 raw out := by
  obtain ⟨out, hl, hrun, hall⟩ := vwap_series_candles p nm n hn raw hraw
  refine ⟨out, hrun, noGaps_of _ _ _ _ hl fun j hj => ⟨fun h => absurd h (by omega), fun _ => ?_⟩⟩
  obtain ⟨⟨t, ht, _⟩, _⟩ := hall j hj
  exact ⟨t, ht⟩

theorem vwap_total (M : MgrSpec K) (p : Int) (nm : String) (n : Nat) (hn : VwapNames nm) :
    NeverRaises M (mkTop (.vwap p : Kind K) nm n) ∧
    Always M (mkTop (.vwap p : Kind K) nm n) (NoGaps (own nm) 0) :=
  (vwapTree (F := K) nm n p).total_of _ (vwap_rows p nm n hn) M

/-! ## Donchian (`DCL`, `DCM`, `DCU` from `p − 1`; the bounds keep their type: ints stay ints) -/

/-- three fields, numbers (not necessarily floats), one warm-up index -/
def NoGapsN3 (nm f₁ f₂ f₃ : String) (w : Nat) (raw out : List (Candle K)) : Prop :=
  NoGaps (fieldOf nm f₁) w raw out ∧ NoGaps (fieldOf nm f₂) w raw out ∧ NoGaps (fieldOf nm f₃) w raw out

theorem donchian_rows (p : Nat) (hp : 2 ≤ p) (nm : String) (n : Nat) (hn : DcNames nm)
    (raw : List (Candle K)) (hraw : ∀ c ∈ raw, Plain c) :
    ∃ out, rowMajor (mkTop (.donchian p : Kind K) nm n) raw = .ok out ∧
      NoGapsN3 nm "DCL" "DCM" "DCU" (p - 1) raw out := by
  obtain ⟨vs, hl, hrun, hall⟩ := donchian_series p hp nm n hn raw hraw
  have hlen := deco_length nm raw vs hl
  have key : ∀ j, j < raw.length →
      NumFrom (p - 1) j (fieldOf nm "DCL" ((deco nm raw vs).getD j default)) ∧
      NumFrom (p - 1) j (fieldOf nm "DCM" ((deco nm raw vs).getD j default)) ∧
      NumFrom (p - 1) j (fieldOf nm "DCU" ((deco nm raw vs).getD j default)) := by
    intro j hj
    unfold fieldOf
    rw [own_deco nm hn.key raw vs hl j hj]
    obtain ⟨h1, h2⟩ := hall j hj
    by_cases h : j + 1 < p
    · rw [h1 h]
      exact ⟨⟨fun _ => rfl, fun h' => absurd h' (by omega)⟩, ⟨fun _ => rfl, fun h' => absurd h' (by omega)⟩,
        ⟨fun _ => rfl, fun h' => absurd h' (by omega)⟩⟩
    · obtain ⟨kl, kh, _, _, hv, _⟩ := h2 (by omega)
      rw [hv]
      exact ⟨⟨fun h' => absurd h' (by omega), fun _ => ⟨_, by simp [Val.nested, dlookup]⟩⟩,
        ⟨fun h' => absurd h' (by omega), fun _ => ⟨_, by simp [Val.nested, dlookup]⟩⟩,
        ⟨fun h' => absurd h' (by omega), fun _ => ⟨_, by simp [Val.nested, dlookup]⟩⟩⟩
  exact ⟨_, hrun, noGaps_of _ _ _ _ hlen fun j hj => (key j hj).1,
    noGaps_of _ _ _ _ hlen fun j hj => (key j hj).2.1, noGaps_of _ _ _ _ hlen fun j hj => (key j hj).2.2⟩

theorem donchian_total (M : MgrSpec K) (p : Nat) (hp : 2 ≤ p) (nm : String) (n : Nat) (hn : DcNames nm) :
    NeverRaises M (mkTop (.donchian p : Kind K) nm n) ∧
    Always M (mkTop (.donchian p : Kind K) nm n) (NoGapsN3 nm "DCL" "DCM" "DCU" (p - 1)) :=
  leaf_total_of _ nm n (Covered.donchian (p : Int) (by omega)) _ (donchian_rows p hp nm n hn) M

/-! ## HighestLowest (`low`, `high` on EVERY candle – no warm-up) -/

/-- two fields, numbers, one warm-up index -/
def NoGapsN2 (nm f₁ f₂ : String) (w : Nat) (raw out : List (Candle K)) : Prop :=
  NoGaps (fieldOf nm f₁) w raw out ∧ NoGaps (fieldOf nm f₂) w raw out

theorem hl_rows (p : Nat) (hp : 1 ≤ p) (nm : String) (n : Nat) (hk : IsKey nm)
    (raw : List (Candle K)) (hraw : ∀ c ∈ raw, Plain c) :
    ∃ out, rowMajor (mkTop (.hl p : Kind K) nm n) raw = .ok out ∧ NoGapsN2 nm "low" "high" 0 raw out := by
  obtain ⟨vs, hl, hrun, hall⟩ := hl_series p hp nm n raw hraw
  have hlen := deco_length nm raw vs hl
  have key : ∀ j, j < raw.length →
      NumFrom 0 j (fieldOf nm "low" ((deco nm raw vs).getD j default)) ∧
      NumFrom 0 j (fieldOf nm "high" ((deco nm raw vs).getD j default)) := by
    intro j hj
    unfold fieldOf
    rw [own_deco nm hk raw vs hl j hj]
    obtain ⟨kl, kh, _, _, hv, _⟩ := hall j hj
    rw [hv]
    exact ⟨⟨fun h' => absurd h' (by omega), fun _ => ⟨_, by simp [Val.nested, dlookup]⟩⟩,
      ⟨fun h' => absurd h' (by omega), fun _ => ⟨_, by simp [Val.nested, dlookup]⟩⟩⟩
  exact ⟨_, hrun, noGaps_of _ _ _ _ hlen fun j hj => (key j hj).1,
    noGaps_of _ _ _ _ hlen fun j hj => (key j hj).2⟩

theorem hl_total (M : MgrSpec K) (p : Nat) (hp : 1 ≤ p) (nm : String) (n : Nat) (hk : IsKey nm) :
    NeverRaises M (mkTop (.hl p : Kind K) nm n) ∧
    Always M (mkTop (.hl p : Kind K) nm n) (NoGapsN2 nm "low" "high" 0) :=
  leaf_total_of _ nm n (Covered.hl (p : Int)) _ (hl_rows p hp nm n hk) M

/-! ## Aroon (`AROONU`, `AROOND`, `AROONOSC` from `p`) -/

theorem aroon_rows (p : Nat) (hp : 1 ≤ p) (nm : String) (n : Nat) (hk : IsKey nm)
    (raw : List (Candle K)) (hraw : ∀ c ∈ raw, Plain c) :
    ∃ out, rowMajor (mkTop (.aroon p : Kind K) nm n) raw = .ok out ∧
      NoGaps3 nm "AROONU" "AROOND" "AROONOSC" p raw out := by
  obtain ⟨vs, hl, hrun, hall⟩ := aroon_series p hp nm n raw hraw
  have hlen := deco_length nm raw vs hl
  have key : ∀ j, j < raw.length →
      FltFrom p j (fieldOf nm "AROONU" ((deco nm raw vs).getD j default)) ∧
      FltFrom p j (fieldOf nm "AROOND" ((deco nm raw vs).getD j default)) ∧
      FltFrom p j (fieldOf nm "AROONOSC" ((deco nm raw vs).getD j default)) := by
    intro j hj
    unfold fieldOf
    rw [own_deco nm hk raw vs hl j hj]
    obtain ⟨h1, h2⟩ := hall j hj
    by_cases h : j < p
    · rw [h1 h]
      exact ⟨⟨fun _ => rfl, fun h' => absurd h' (by omega)⟩, ⟨fun _ => rfl, fun h' => absurd h' (by omega)⟩,
        ⟨fun _ => rfl, fun h' => absurd h' (by omega)⟩⟩
    · rw [h2 (by omega)]
      exact ⟨⟨fun h' => absurd h' h, fun _ => ⟨_, by simp [aroonVal, Val.nested, dlookup]⟩⟩,
        ⟨fun h' => absurd h' h, fun _ => ⟨_, by simp [aroonVal, Val.nested, dlookup]⟩⟩,
        ⟨fun h' => absurd h' h, fun _ => ⟨_, by simp [aroonVal, Val.nested, dlookup]⟩⟩⟩
  exact ⟨_, hrun, noGapsFlt_of _ _ _ _ hlen fun j hj => (key j hj).1,
    noGapsFlt_of _ _ _ _ hlen fun j hj => (key j hj).2.1, noGapsFlt_of _ _ _ _ hlen fun j hj => (key j hj).2.2⟩

theorem aroon_total (M : MgrSpec K) (p : Nat) (hp : 1 ≤ p) (nm : String) (n : Nat) (hk : IsKey nm) :
    NeverRaises M (mkTop (.aroon p : Kind K) nm n) ∧
    Always M (mkTop (.aroon p : Kind K) nm n) (NoGaps3 nm "AROONU" "AROOND" "AROONOSC" p) :=
  leaf_total_of _ nm n (Covered.aroon (p : Int) (by omega)) _ (aroon_rows p hp nm n hk) M

/-! ## Counter (a Python int on EVERY candle; any float carrier, also the executed `Float`) -/

theorem counter_rows {F : Type} [PyF F] (nm input : String) (fld : Candle F → Num F) (cv : Scalar F) (n : Nat)
    (hk : IsKey nm) (hin : AttrInput input) (hattr : ∀ c : Candle F, c.attr input = some (.num (fld c)))
    (raw : List (Candle F)) (hraw : ∀ c ∈ raw, Plain c) :
    ∃ out, rowMajor (mkTop (.counter input cv) nm n) raw = .ok out ∧ NoGaps (own nm) 0 raw out := by
  obtain ⟨vs, hl, hrun, hall⟩ := counter_series nm input fld cv n hk hin.1 hattr raw
  refine ⟨_, hrun, noGaps_of _ _ _ _ (deco_length nm raw vs hl) fun j hj =>
    ⟨fun h => absurd h (by omega), fun _ => ?_⟩⟩
  unfold own
  rw [own_deco nm hk raw vs hl j hj]
  exact ⟨_, hall j hj⟩

theorem counter_total {F : Type} [PyF F] (M : MgrSpec F) (nm input : String) (fld : Candle F → Num F)
    (cv : Scalar F) (n : Nat) (hk : IsKey nm) (hin : AttrInput input)
    (hattr : ∀ c : Candle F, c.attr input = some (.num (fld c))) :
    NeverRaises M (mkTop (.counter input cv) nm n) ∧
    Always M (mkTop (.counter input cv) nm n) (NoGaps (own nm) 0) :=
  leaf_total_of _ nm n (Covered.counter input cv hin) _ (counter_rows nm input fld cv n hk hin hattr) M

/-! ## STDEVTHRES (a bool on EVERY candle – never `None`; `False` below the STDEV helper's warm-up `p`) -/

/-- the own reading is a Python bool on every candle, `False` on the candles `0 … p−1` -/
def BoolAlways (nm : String) (p : Nat) (raw out : List (Candle K)) : Prop :=
  out.length = raw.length ∧ ∀ j, j < out.length →
    ∃ b : Bool, own nm (out.getD j default) = .bool b ∧ (j < p → b = false)

theorem thres_rows (p : Nat) (hp : 1 ≤ p) (nm input : String) (fld : Candle K → Num K) (mult : Num K) (n : Nat)
    (hk : IsKey nm) (hn : ThresNames nm) (hin : NoDot input ∧ input ∈ Candle.attrNames)
    (hattr : ∀ c : Candle K, c.attr input = some (.num (fld c)))
    (raw : List (Candle K)) (hraw : ∀ c ∈ raw, Plain c) :
    ∃ out, Gen.rowMajor (thresTree (F := K) nm n (p : Int) input mult (by omega) hn hin).S raw = .ok out ∧
      BoolAlways nm p raw out := by
  obtain ⟨rows, hl, hrun, hall⟩ := thres_series p hp nm input fld mult n hn hin hattr raw hraw
  have hlen := decoWith_length (thOut nm) raw rows hl
  refine ⟨_, hrun, hlen, fun j hj => ?_⟩
  have hj' : j < raw.length := hlen ▸ hj
  unfold own
  have e : (decoWith (thOut nm) raw rows).getD j default = thOut nm (raw.getD j default) (rows.getD j ThRow.dflt) :=
    decoTh_getD nm raw rows hl j hj'
  rw [show decoTh nm raw rows = decoWith (thOut nm) raw rows from rfl, e, thOut_own nm hk]
  obtain ⟨_, h1, h2⟩ := hall j hj'
  by_cases h : j < p
  · exact ⟨false, h1 h, fun _ => rfl⟩
  · obtain ⟨ys, _, hth⟩ := h2 (by omega)
    exact ⟨_, hth, fun h' => absurd h' h⟩

theorem thres_total (M : MgrSpec K) (p : Nat) (hp : 1 ≤ p) (nm input : String) (fld : Candle K → Num K)
    (mult : Num K) (n : Nat) (hk : IsKey nm) (hn : ThresNames nm) (hin : NoDot input ∧ input ∈ Candle.attrNames)
    (hattr : ∀ c : Candle K, c.attr input = some (.num (fld c))) :
    NeverRaises M (mkTop (.stdevthres (p : Int) input mult : Kind K) nm n) ∧
    Always M (mkTop (.stdevthres (p : Int) input mult : Kind K) nm n) (BoolAlways nm p) :=
  (thresTree (F := K) nm n (p : Int) input mult (by omega) hn hin).total_of _
    (thres_rows p hp nm input fld mult n hk hn hin hattr) M

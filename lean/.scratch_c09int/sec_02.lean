
/-! ## generic extraction from the "stored value against a textbook series" predicates -/

theorem fltFrom_of_within (w j : Nat) (b : K) (o : Option K) (v : Val K) (h : Within o b v)
    (hw : o = none ↔ j < w) : FltFrom w j v := by
  cases o with
  | none =>
    have hv : v = .none := h
    exact ⟨fun _ => hv, fun h' => absurd (hw.1 rfl) (by omega)⟩
  | some e =>
    obtain ⟨y, hy, _⟩ := h
    exact ⟨fun h' => absurd (hw.2 h') (by simp), fun _ => ⟨y, hy⟩⟩

theorem fltFrom_of_macdField (w j : Nat) (b : K) (o : Option K) (v : Val K) (h : MacdFieldOK b o v)
    (hw : o = none ↔ j < w) : FltFrom w j v := by
  cases o with
  | none =>
    have hv : v = .none := h
    exact ⟨fun _ => hv, fun h' => absurd (hw.1 rfl) (by omega)⟩
  | some e =>
    obtain ⟨y, hy, _⟩ := h
    exact ⟨fun h' => absurd (hw.2 h') (by simp), fun _ => ⟨y, hy⟩⟩

theorem fltFrom_of_ite (w j : Nat) (c : Prop) [Decidable c] (y : K) (v : Val K)
    (h : v = if c then .none else .flt y) (hw : c ↔ j < w) : FltFrom w j v := by
  by_cases hc : c
  · rw [if_pos hc] at h
    exact ⟨fun _ => h, fun h' => absurd (hw.1 hc) (by omega)⟩
  · rw [if_neg hc] at h
    exact ⟨fun h' => absurd (hw.2 h') hc, fun _ => ⟨y, h⟩⟩

/-! ## Supertrend (`trend` from index `p`; `direction` on every candle; `long` / `short` one-sided) -/

/-- what "no gaps" means for Supertrend: `trend` is `None` exactly below `p` and a number from `p`
on; `direction` is a number (`±1`) on EVERY candle; `long` / `short` are one-sided BY DESIGN – both
`None` below `p`, from `p` on exactly one of them is a number (the active band) and the other `None` -/
def StNoGaps (nm : String) (p : Nat) (raw out : List (Candle K)) : Prop :=
  NoGaps (fieldOf nm "trend") p raw out ∧ NoGaps (fieldOf nm "direction") 0 raw out ∧
  ∀ j, j < out.length →
    (j < p → fieldOf nm "long" (out.getD j default) = .none ∧ fieldOf nm "short" (out.getD j default) = .none) ∧
    (p ≤ j →
      ((∃ x : Num K, fieldOf nm "long" (out.getD j default) = .num x) ∧ fieldOf nm "short" (out.getD j default) = .none) ∨
      ((∃ x : Num K, fieldOf nm "short" (out.getD j default) = .num x) ∧ fieldOf nm "long" (out.getD j default) = .none))

theorem st_rows (p : Nat) (hp : 1 ≤ p) (nm input : String) (mult : Num K) (n : Nat)
    (hn : StNames nm) (hk : IsKey nm) (raw : List (Candle K)) (hraw : ∀ c ∈ raw, Plain c) :
    ∃ out, Gen.rowMajor (stTree (F := K) nm n (p : Int) input mult (by omega) hn).S raw = .ok out ∧
      StNoGaps nm p raw out := by
  obtain ⟨out, hl, hrun, hall⟩ := st_series_candles p hp nm input mult n hn hk raw hraw
  have key : ∀ j, j < raw.length →
      (j < p → readingByCandle (out.getD j default) nm = stNoneDict) ∧
      (p ≤ j → ∃ U L : Num K,
        readingByCandle (out.getD j default) nm
          = .dict [("trend", .num L), ("direction", .num (.int 1)), ("long", .num L), ("short", .none)] ∨
        readingByCandle (out.getD j default) nm
          = .dict [("trend", .num U), ("direction", .num (.int (-1))), ("long", .none), ("short", .num U)]) := by
    intro j hj
    obtain ⟨_, _, _, _, ho, _⟩ := hall j hj
    refine ⟨fun h => ?_, fun h => ?_⟩
    · rw [stSeries_none p mult.toF raw j h] at ho
      exact ho
    · obtain ⟨s, hs⟩ := stSeries_isSome p mult.toF raw j h
      rw [hs] at ho
      obtain ⟨U, L, _, _, hc⟩ := StOwnOK.fields (stSeries_dir p mult.toF raw j s hs) ho
      exact ⟨U, L, hc.imp (fun h => h.2) (fun h => h.2)⟩
  refine ⟨out, hrun, noGaps_of _ _ _ _ hl fun j hj => ?_, noGaps_of _ _ _ _ hl fun j hj => ?_, fun j hj => ?_⟩
  · unfold fieldOf
    refine ⟨fun h => ?_, fun h => ?_⟩
    · rw [(key j hj).1 h]; rfl
    · obtain ⟨U, L, hc | hc⟩ := (key j hj).2 h
      · rw [hc]; exact ⟨L, by simp [Val.nested, dlookup]⟩
      · rw [hc]; exact ⟨U, by simp [Val.nested, dlookup]⟩
  · unfold fieldOf
    refine ⟨fun h => absurd h (by omega), fun _ => ?_⟩
    by_cases h : j < p
    · rw [(key j hj).1 h]; exact ⟨.int 1, by simp [stNoneDict, Val.nested, dlookup]⟩
    · obtain ⟨U, L, hc | hc⟩ := (key j hj).2 (by omega)
      · rw [hc]; exact ⟨.int 1, by simp [Val.nested, dlookup]⟩
      · rw [hc]; exact ⟨.int (-1), by simp [Val.nested, dlookup]⟩
  · have hj' : j < raw.length := hl ▸ hj
    unfold fieldOf
    refine ⟨fun h => ?_, fun h => ?_⟩
    · rw [(key j hj').1 h]; exact ⟨by simp [stNoneDict, Val.nested, dlookup], by simp [stNoneDict, Val.nested, dlookup]⟩
    · obtain ⟨U, L, hc | hc⟩ := (key j hj').2 h
      · rw [hc]; exact Or.inl ⟨⟨L, by simp [Val.nested, dlookup]⟩, by simp [Val.nested, dlookup]⟩
      · rw [hc]; exact Or.inr ⟨⟨U, by simp [Val.nested, dlookup]⟩, by simp [Val.nested, dlookup]⟩

theorem st_total (M : MgrSpec K) (p : Nat) (hp : 1 ≤ p) (nm input : String) (mult : Num K) (n : Nat)
    (hn : StNames nm) (hk : IsKey nm) :
    NeverRaises M (mkTop (.supertrend (p : Int) input mult : Kind K) nm n) ∧
    Always M (mkTop (.supertrend (p : Int) input mult : Kind K) nm n) (StNoGaps nm p) :=
  (stTree (F := K) nm n (p : Int) input mult (by omega) hn).total_of _ (st_rows p hp nm input mult n hn hk) M

/-! ## MACD (`MACD` from `slow − 1`; `signal`, `histogram` from `slow + signal − 2`) -/

/-- three fields with their own warm-up indices -/
def NoGapsW3 (nm f₁ f₂ f₃ : String) (w₁ w₂ w₃ : Nat) (raw out : List (Candle K)) : Prop :=
  NoGapsFlt (fieldOf nm f₁) w₁ raw out ∧ NoGapsFlt (fieldOf nm f₂) w₂ raw out ∧
  NoGapsFlt (fieldOf nm f₃) w₃ raw out

theorem macd_rows (nm : String) (n pf ps pg : Nat) (input : String) (fld : Candle K → Num K)
    (hf : 2 ≤ pf) (hfs : pf ≤ ps) (hg : 1 ≤ pg) (hn : MacdNames nm)
    (hin : NoDot input ∧ input ∈ Candle.attrNames)
    (hattr : ∀ c : Candle K, c.attr input = some (.num (fld c)))
    (raw : List (Candle K)) (hraw : ∀ c ∈ raw, Plain c) :
    ∃ out, Gen.rowMajor (macdTreeN (K := K) nm n pf ps pg input (by omega) (by omega) hg hn hin).S raw = .ok out ∧
      NoGapsW3 nm "MACD" "signal" "histogram" (ps - 1) (ps + pg - 2) (ps + pg - 2) raw out := by
  have hrun := macd_series nm n pf ps pg input fld hf hfs hg hn hin hattr raw hraw
  have hlen := macdOut_length nm n pf ps pg fld raw
  have key : ∀ j, j < raw.length →
      FltFrom (ps - 1) j (fieldOf nm "MACD" ((macdOut nm n pf ps pg fld raw).getD j default)) ∧
      FltFrom (ps + pg - 2) j (fieldOf nm "signal" ((macdOut nm n pf ps pg fld raw).getD j default)) ∧
      FltFrom (ps + pg - 2) j (fieldOf nm "histogram" ((macdOut nm n pf ps pg fld raw).getD j default)) := by
    intro j hj
    unfold fieldOf
    obtain ⟨_, _, _, _, r5, _⟩ := macdOut_readings nm n pf ps pg fld raw hn hg hraw j hj
    rw [r5]
    obtain ⟨o1, o2, o3⟩ := macdOwn_ok n pf ps pg (fieldAt fld raw) (by omega) hfs hg j
    refine ⟨fltFrom_of_macdField _ _ _ _ _ o1 ?_, fltFrom_of_macdField _ _ _ _ _ o2 ?_,
      fltFrom_of_macdField _ _ _ _ _ o3 ?_⟩
    · unfold macdLine; split_ifs <;> simp <;> omega
    · unfold signalLine; split_ifs <;> simp <;> omega
    · unfold histLine; split_ifs <;> simp <;> omega
  exact ⟨_, hrun, noGapsFlt_of _ _ _ _ hlen fun j hj => (key j hj).1,
    noGapsFlt_of _ _ _ _ hlen fun j hj => (key j hj).2.1,
    noGapsFlt_of _ _ _ _ hlen fun j hj => (key j hj).2.2⟩

theorem macd_total (M : MgrSpec K) (nm : String) (n pf ps pg : Nat) (input : String) (fld : Candle K → Num K)
    (hf : 2 ≤ pf) (hfs : pf ≤ ps) (hg : 1 ≤ pg) (hn : MacdNames nm)
    (hin : NoDot input ∧ input ∈ Candle.attrNames)
    (hattr : ∀ c : Candle K, c.attr input = some (.num (fld c))) :
    NeverRaises M (mkTop (.macd (pf : Int) (ps : Int) (pg : Int) input : Kind K) nm n) ∧
    Always M (mkTop (.macd (pf : Int) (ps : Int) (pg : Int) input : Kind K) nm n)
      (NoGapsW3 nm "MACD" "signal" "histogram" (ps - 1) (ps + pg - 2) (ps + pg - 2)) :=
  (macdTreeN (K := K) nm n pf ps pg input (by omega) (by omega) hg hn hin).total_of _
    (macd_rows nm n pf ps pg input fld hf hfs hg hn hin hattr) M

/-! ## STOCH (`stoch` from `p − 1`, `k` from `p + smoothK − 2`, `d` from `p + smoothK + slow − 3`) -/

theorem stoch_rows (p sk sl : Nat) (hp : 2 ≤ p) (hsk : 1 ≤ sk) (hsl : 1 ≤ sl) (nm input : String)
    (fld : Candle K → Num K) (n : Nat) (hn : StochNames nm) (hin : NoDot input ∧ input ∈ Candle.attrNames)
    (hattr : ∀ c : Candle K, c.attr input = some (.num (fld c)))
    (raw : List (Candle K)) (hraw : ∀ c ∈ raw, Plain c) :
    ∃ out, Gen.rowMajor (stochTree (F := K) nm n (p : Int) (sl : Int) (sk : Int) input (by omega) (by omega)
        (by omega) hn hin).S raw = .ok out ∧
      NoGapsW3 nm "stoch" "k" "d" (p - 1) (p + sk - 2) (p + sk + sl - 3) raw out := by
  have hrun := stoch_series p sk sl hp hsk hsl nm input fld n hn hin hattr raw hraw
  have hlen := stochDeco_length nm n p sk sl fld raw
  have key : ∀ j, j < raw.length →
      FltFrom (p - 1) j (fieldOf nm "stoch" ((stochDeco nm n p sk sl fld raw).getD j default)) ∧
      FltFrom (p + sk - 2) j (fieldOf nm "k" ((stochDeco nm n p sk sl fld raw).getD j default)) ∧
      FltFrom (p + sk + sl - 3) j (fieldOf nm "d" ((stochDeco nm n p sk sl fld raw).getD j default)) := by
    intro j hj
    unfold fieldOf
    have h := stochDeco_ok p sk sl hp hsk hsl nm fld n hn raw hraw j hj
    refine ⟨fltFrom_of_within _ _ _ _ _ h.own_stoch ?_, fltFrom_of_within _ _ _ _ _ h.own_k_ok ?_,
      fltFrom_of_within _ _ _ _ _ h.own_d_ok ?_⟩
    · unfold stochSeries; split_ifs <;> simp <;> omega
    · unfold stochKSeries stochTK; split_ifs <;> simp <;> omega
    · unfold stochDSeries stochTD; split_ifs <;> simp <;> omega
  exact ⟨_, hrun, noGapsFlt_of _ _ _ _ hlen fun j hj => (key j hj).1,
    noGapsFlt_of _ _ _ _ hlen fun j hj => (key j hj).2.1,
    noGapsFlt_of _ _ _ _ hlen fun j hj => (key j hj).2.2⟩

theorem stoch_total (M : MgrSpec K) (p sk sl : Nat) (hp : 2 ≤ p) (hsk : 1 ≤ sk) (hsl : 1 ≤ sl) (nm input : String)
    (fld : Candle K → Num K) (n : Nat) (hn : StochNames nm) (hin : NoDot input ∧ input ∈ Candle.attrNames)
    (hattr : ∀ c : Candle K, c.attr input = some (.num (fld c))) :
    NeverRaises M (mkTop (.stoch (p : Int) (sl : Int) (sk : Int) input : Kind K) nm n) ∧
    Always M (mkTop (.stoch (p : Int) (sl : Int) (sk : Int) input : Kind K) nm n)
      (NoGapsW3 nm "stoch" "k" "d" (p - 1) (p + sk - 2) (p + sk + sl - 3)) :=
  (stochTree (F := K) nm n (p : Int) (sl : Int) (sk : Int) input (by omega) (by omega) (by omega) hn hin).total_of _
    (stoch_rows p sk sl hp hsk hsl nm input fld n hn hin hattr) M

/-! ## TSI (warm-up index `p + smooth − 1`) -/

theorem tsi_rows (nm : String) (n p s : Nat) (input : String) (fld : Candle K → Num K)
    (hp : 1 ≤ p) (hs : 1 ≤ s) (hn : TsiNames nm) (hin : NoDot input ∧ input ∈ Candle.attrNames)
    (hattr : ∀ c : Candle K, c.attr input = some (.num (fld c)))
    (raw : List (Candle K)) (hraw : ∀ c ∈ raw, Plain c) :
    ∃ out, Gen.rowMajor (tsiTreeN (K := K) nm n p s input hp hs hn hin).S raw = .ok out ∧
      NoGapsFlt (own nm) (p + s - 1) raw out := by
  refine ⟨_, tsi_series nm n p s input fld hp hs hn hin hattr raw hraw,
    noGapsFlt_of _ _ _ _ (tsiOut_length nm n p s fld raw) fun j hj => ?_⟩
  obtain ⟨_, _, _, _, _, _, _, r7⟩ := tsiOut_readings nm n p s fld raw hp hs hn hraw j hj
  unfold own
  rw [r7]
  exact fltFrom_of_ite _ _ _ _ _ rfl (by omega)

theorem tsi_total (M : MgrSpec K) (nm : String) (n p s : Nat) (input : String) (fld : Candle K → Num K)
    (hp : 1 ≤ p) (hs : 1 ≤ s) (hn : TsiNames nm) (hin : NoDot input ∧ input ∈ Candle.attrNames)
    (hattr : ∀ c : Candle K, c.attr input = some (.num (fld c))) :
    NeverRaises M (mkTop (.tsi (p : Int) (s : Int) input : Kind K) nm n) ∧
    Always M (mkTop (.tsi (p : Int) (s : Int) input : Kind K) nm n) (NoGapsFlt (own nm) (p + s - 1)) :=
  (tsiTreeN (K := K) nm n p s input hp hs hn hin).total_of _ (tsi_rows nm n p s input fld hp hs hn hin hattr) M

/-! ## ADX (`ADX` from `p + signal − 1`; `DM_Plus`, `DM_Neg` from `p`) -/

theorem adx_rows (nm : String) (n p sg : Nat) (hp : 1 ≤ p) (hg : 1 ≤ sg) (hn : AdxNames nm)
    (raw : List (Candle K)) (hraw : ∀ c ∈ raw, Plain c) :
    ∃ out, Gen.rowMajor (adxTreeN (K := K) nm n p sg hp hg hn).S raw = .ok out ∧
      NoGapsW3 nm "ADX" "DM_Plus" "DM_Neg" (p + sg - 1) p p raw out := by
  obtain ⟨out, hrun, hlen, hall⟩ := adx_series_readings nm n p sg hp hg hn raw hraw
  have key : ∀ j, j < raw.length →
      FltFrom (p + sg - 1) j (fieldOf nm "ADX" (out.getD j default)) ∧
      FltFrom p j (fieldOf nm "DM_Plus" (out.getD j default)) ∧
      FltFrom p j (fieldOf nm "DM_Neg" (out.getD j default)) := by
    intro j hj
    unfold fieldOf
    obtain ⟨_, _, _, _, _, _, _, _, _, _, _, hown, _⟩ := hall j hj
    rw [hown]
    exact ⟨fltFrom_of_ite _ _ _ _ _ (adxOwn_ADX n p sg raw hg j) (by omega),
      fltFrom_of_ite _ _ _ _ _ (adxOwn_plus n p sg raw j) Iff.rfl,
      fltFrom_of_ite _ _ _ _ _ (adxOwn_minus n p sg raw j) Iff.rfl⟩
  exact ⟨_, hrun, noGapsFlt_of _ _ _ _ hlen fun j hj => (key j hj).1,
    noGapsFlt_of _ _ _ _ hlen fun j hj => (key j hj).2.1,
    noGapsFlt_of _ _ _ _ hlen fun j hj => (key j hj).2.2⟩

theorem adx_total (M : MgrSpec K) (nm : String) (n p sg : Nat) (hp : 1 ≤ p) (hg : 1 ≤ sg) (hn : AdxNames nm) :
    NeverRaises M (mkTop (.adx (p : Int) (sg : Int) : Kind K) nm n) ∧
    Always M (mkTop (.adx (p : Int) (sg : Int) : Kind K) nm n)
      (NoGapsW3 nm "ADX" "DM_Plus" "DM_Neg" (p + sg - 1) p p) :=
  (adxTreeN (K := K) nm n p sg hp hg hn).total_of _ (adx_rows nm n p sg hp hg hn) M

/-! ## HMA (warm-up index `p + ⌊√p⌋ − 2`) -/

theorem hma_rows (p : Nat) (hp : 2 ≤ p) (nm input : String) (fld : Candle K → Num K) (n : Nat)
    (hn : HmaNames nm) (hin : NoDot input ∧ input ∈ Candle.attrNames)
    (hattr : ∀ c : Candle K, c.attr input = some (.num (fld c)))
    (raw : List (Candle K)) (hraw : ∀ c ∈ raw, Plain c) :
    ∃ out, Gen.rowMajor (hmaTree (F := K) nm n (p : Int) input (by omega) hn hin).S raw = .ok out ∧
      NoGapsFlt (own nm) (p + Nat.sqrt p - 2) raw out := by
  refine ⟨_, hma_series p hp nm input fld n hn hin hattr raw hraw,
    noGapsFlt_of _ _ _ _ (hmaDeco_length nm n p fld raw) fun j hj => ?_⟩
  obtain ⟨_, h⟩ := hmaDeco_ok p hp nm fld n hn raw hraw j hj
  unfold own
  refine fltFrom_of_within _ _ _ _ _ h.own_ok ?_
  unfold hmaSeries hmaT0; split_ifs <;> simp <;> omega

theorem hma_total (M : MgrSpec K) (p : Nat) (hp : 2 ≤ p) (nm input : String) (fld : Candle K → Num K) (n : Nat)
    (hn : HmaNames nm) (hin : NoDot input ∧ input ∈ Candle.attrNames)
    (hattr : ∀ c : Candle K, c.attr input = some (.num (fld c))) :
    NeverRaises M (mkTop (.hma (p : Int) input : Kind K) nm n) ∧
    Always M (mkTop (.hma (p : Int) input : Kind K) nm n) (NoGapsFlt (own nm) (p + Nat.sqrt p - 2)) :=
  (hmaTree (F := K) nm n (p : Int) input (by omega) hn hin).total_of _
    (hma_rows p hp nm input fld n hn hin hattr) M

import HexProofs.Framework.Gen.Object
namespace Hex
set_option linter.unusedSectionVars false
variable {F : Type} [PyF F] {ind : Ind F}

/-- the row-major spec of a tree returns on every list of raw-shaped candles -/
def TreeSpec.Total (T : TreeSpec ind) : Prop :=
  ∀ raw : List (Candle F), (∀ c ∈ raw, Plain c) → ∃ out, Gen.rowMajor T.S raw = .ok out

theorem TreeSpec.appends_total (T : TreeSpec ind) (M : MgrSpec F) (htot : T.Total)
    (chunks : List (List (Candle F))) :
    ∀ (s done : List (Candle F)) (a : Int), Gen.rowMajor T.S (M.spec s) = .ok done →
      M.Ok (s ++ chunks.flatten) →
      ∃ snap, candlesOf (chunks.foldlM (fun (st : IndState F) ch => st.append ch)
          { tree := ind, mgr := { cfg := M.cfg, candles := done }, active := a }) = .ok snap := by
  induction chunks with
  | nil =>
    intro s done a h _
    exact ⟨done, by simp [candlesOf, List.foldlM_nil, pure, Except.pure, Except.map]⟩
  | cons ch rest ih =>
    intro s done a h hok
    have hok' : M.Ok ((s ++ ch) ++ rest.flatten) := by simpa [List.append_assoc] using hok
    have hsch : M.Ok (s ++ ch) := M.ok_left _ _ hok'
    have hplainS : ∀ c ∈ M.spec s, Plain c := M.spec_plain s (M.ok_left _ _ hsch)
    simp only [List.foldlM_cons]
    have key : ∃ (raw₁ raw₂ d₁ : List (Candle F)), Gen.rowMajor T.S raw₁ = .ok d₁ ∧
        (∀ c ∈ raw₁, Plain c) ∧ (∀ c ∈ raw₂, Plain c) ∧ raw₁ ++ raw₂ = M.spec (s ++ ch) ∧
        IndState.append ({ tree := ind, mgr := { cfg := M.cfg, candles := done }, active := a } : IndState F) ch
          = IndState.calculate { tree := ind, mgr := { cfg := M.cfg, candles := d₁ ++ raw₂ }, active := a } := by
      by_cases hch : ch = []
      · subst hch
        refine ⟨M.spec s, [], done, h, hplainS, by simp, by simp, ?_⟩
        simp [IndState.append, Manager.append, bind, Except.bind]
      · obtain ⟨k, Q, hQ, _, ht, hres⟩ := M.append s ch done hsch hch
          (Gen.rowMajor_shape T.law _ done hplainS h).1.dressed
        refine ⟨(M.spec s).take k, Q, done.take k, Gen.rowMajor_take T.law _ done hplainS h k,
          fun c hc => hplainS c (List.mem_of_mem_take hc), hQ, hres.symm, ?_⟩
        have hne : ch.isEmpty = false := by cases ch <;> simp at hch ⊢
        simp only [IndState.append, Manager.append, hne, Bool.false_eq_true, if_false, ht, bind, Except.bind]
        rfl
    obtain ⟨raw₁, raw₂, d₁, hr₁, hp₁, hp₂, hsplit, happ⟩ := key
    rw [happ]
    obtain ⟨out, hout⟩ := htot (raw₁ ++ raw₂) (by rw [hsplit]; exact M.spec_plain _ hsch)
    have he := (T.engine raw₁ raw₂ d₁ out hr₁ hp₁ hp₂).2 hout
    obtain ⟨s', hs', _⟩ := IndState.calculate_of_engine
      ({ tree := ind, mgr := { cfg := M.cfg, candles := d₁ ++ raw₂ }, active := a } : IndState F) out he
    obtain ⟨out', a', rfl, hr⟩ := T.calculate_ok M.cfg raw₁ raw₂ d₁ a hr₁ hp₁ hp₂ s' hs'
    rw [hsplit] at hr
    rw [hs']
    simp only [bind, Except.bind]
    exact ih (s ++ ch) out' a' hr hok'

/-- **Totality of every live history, generic.**  If the row-major spec of the tree returns on
every raw-shaped list, then construction over `init`, `calculate()` and ANY sequence of appends
returns – on every manager with an incremental spec (base timeframe, collapsing timeframe,
timeframe with gap filling). -/
theorem TreeSpec.live_total (T : TreeSpec ind) (M : MgrSpec F) (htot : T.Total) (init : List (Candle F))
    (chunks : List (List (Candle F))) (hok : M.Ok (init ++ chunks.flatten)) :
    ∃ snap, candlesOf (runIndicator ind M.cfg init chunks) = .ok snap := by
  have hinit : M.Ok init := M.ok_left _ _ hok
  unfold runIndicator IndState.init Manager.init
  rw [M.init init hinit]
  simp only [bind, Except.bind, pure, Except.pure]
  have h0 : Gen.rowMajor T.S ([] : List (Candle F)) = .ok [] := rfl
  obtain ⟨out, hout⟩ := htot (M.spec init) (M.spec_plain init hinit)
  have he := (T.engine [] (M.spec init) [] out h0 (by simp) (M.spec_plain init hinit)).2 (by simpa using hout)
  obtain ⟨s', hs', _⟩ := IndState.calculate_of_engine
    ({ tree := ind, mgr := { cfg := M.cfg, candles := M.spec init } } : IndState F) out (by simpa using he)
  have hc' : IndState.calculate ({ tree := ind, mgr := { cfg := M.cfg, candles := [] ++ M.spec init }, active := 0 } : IndState F)
      = .ok s' := by simpa using hs'
  obtain ⟨out', a', rfl, hr⟩ := T.calculate_ok M.cfg [] (M.spec init) [] 0 h0 (by simp)
    (M.spec_plain init hinit) s' hc'
  simp only [List.nil_append] at hr
  rw [hs']
  exact T.appends_total M htot chunks init out' a' hr hok

/-- … and its candles are the row-major run over the manager spec of the whole stream -/
theorem TreeSpec.live_returns (T : TreeSpec ind) (M : MgrSpec F) (htot : T.Total) (init : List (Candle F))
    (chunks : List (List (Candle F))) (hok : M.Ok (init ++ chunks.flatten)) :
    ∃ snap, candlesOf (runIndicator ind M.cfg init chunks) = .ok snap ∧
      Gen.rowMajor T.S (M.spec (init ++ chunks.flatten)) = .ok snap ∧
      ∀ c ∈ M.spec (init ++ chunks.flatten), Plain c := by
  obtain ⟨snap, h⟩ := T.live_total M htot init chunks hok
  exact ⟨snap, h, T.live_refines M init chunks hok snap h, M.spec_plain _ hok⟩
end Hex
#print axioms Hex.TreeSpec.live_returns

import HexProofs.Numeric.Total
#check @Hex.Numeric.hma_total
#print axioms Hex.Numeric.hma_total
#print axioms Hex.Numeric.st_total
#print axioms Hex.Numeric.adx_total


/-! ## ATR (warm-up index `p`) -/

theorem atr_rows (p : Nat) (hp : 1 ≤ p) (nm : String) (n : Nat) (hk : IsKey nm) (hn : AtrNames nm)
    (raw : List (Candle K)) (hraw : ∀ c ∈ raw, Plain c) :
    ∃ out, Gen.rowMajor (atrTree nm n (p : Int) (by omega) hn).S raw = .ok out ∧
      NoGapsFlt (own nm) p raw out := by
  obtain ⟨out, h1, h2, h3⟩ := atr_series_readings p hp nm n hk hn raw hraw
  refine ⟨out, h1, noGapsFlt_of _ _ _ _ h2 fun j hj => ?_⟩
  obtain ⟨_, _, _, ht⟩ := h3 j hj
  exact ⟨ht.1, fun h => (ht.2 h).elim fun y hy => ⟨y, hy.1⟩⟩

theorem atr_total (M : MgrSpec K) (p : Nat) (hp : 1 ≤ p) (nm : String) (n : Nat) (hk : IsKey nm)
    (hn : AtrNames nm) :
    NeverRaises M (mkTop (.atr (p : Int) : Kind K) nm n) ∧
    Always M (mkTop (.atr (p : Int) : Kind K) nm n) (NoGapsFlt (own nm) p) :=
  (atrTree nm n (p : Int) (by omega) hn).total_of _ (atr_rows p hp nm n hk hn) M

/-! ## RSI (warm-up index `p`) -/

theorem rsi_rows (p : Nat) (hp : 1 ≤ p) (nm input : String) (fld : Candle K → Num K) (n : Nat)
    (hn : RsiNames nm) (hk : IsKey nm) (hin : NoDot input ∧ input ∈ Candle.attrNames)
    (hattr : ∀ c : Candle K, c.attr input = some (.num (fld c)))
    (raw : List (Candle K)) (hraw : ∀ c ∈ raw, Plain c) :
    ∃ out, Gen.rowMajor (rsiTree (F := K) nm n (p : Int) input (by omega) hn hin).S raw = .ok out ∧
      NoGapsFlt (own nm) p raw out := by
  obtain ⟨out, h1, h2, h3⟩ := rsi_series_candles p hp nm input fld n hn hk hin hattr raw hraw
  refine ⟨out, h2, noGapsFlt_of _ _ _ _ h1 fun j hj => ?_⟩
  have ht := (h3 j hj).1
  unfold rsiSeries at ht
  by_cases h : j < p
  · rw [if_pos h] at ht
    exact ⟨fun _ => ht, fun h' => absurd h (by omega)⟩
  · rw [if_neg h] at ht
    obtain ⟨y, hy, _⟩ := ht
    exact ⟨fun h' => absurd h' h, fun _ => ⟨y, hy⟩⟩

theorem rsi_total (M : MgrSpec K) (p : Nat) (hp : 1 ≤ p) (nm input : String) (fld : Candle K → Num K) (n : Nat)
    (hn : RsiNames nm) (hk : IsKey nm) (hin : NoDot input ∧ input ∈ Candle.attrNames)
    (hattr : ∀ c : Candle K, c.attr input = some (.num (fld c))) :
    NeverRaises M (mkTop (.rsi (p : Int) input : Kind K) nm n) ∧
    Always M (mkTop (.rsi (p : Int) input : Kind K) nm n) (NoGapsFlt (own nm) p) :=
  (rsiTree (F := K) nm n (p : Int) input (by omega) hn hin).total_of _
    (rsi_rows p hp nm input fld n hn hk hin hattr) M

/-! ## STDEV (warm-up index `p`: the library waits for `p + 1` inputs) -/

theorem stdev_rows (p : Nat) (hp : 1 ≤ p) (nm input : String) (fld : Candle K → Num K) (n : Nat)
    (hn : SdNames nm) (hin : NoDot input ∧ input ∈ Candle.attrNames)
    (hattr : ∀ c : Candle K, c.attr input = some (.num (fld c)))
    (raw : List (Candle K)) (hraw : ∀ c ∈ raw, Plain c) :
    ∃ out, Gen.rowMajor (stdevTree (F := K) nm n (p : Int) input (by omega) hin).S raw = .ok out ∧
      NoGapsFlt (own nm) p raw out := by
  obtain ⟨rows, hl, hrun, hall⟩ := stdev_series p hp nm input fld n hn hin hattr raw hraw
  refine ⟨_, hrun, noGapsFlt_of _ _ _ _ (decoWith_length _ _ _ hl) fun j hj => ?_⟩
  unfold own
  rw [decoSd_getD nm raw rows hl j hj, sdOut_own nm hn _ (getD_plain raw hraw j hj)]
  obtain ⟨_, h1, h2⟩ := hall j hj
  exact ⟨h1, fun h => (h2 h).elim fun y hy => ⟨y, hy.1⟩⟩

theorem stdev_total (M : MgrSpec K) (p : Nat) (hp : 1 ≤ p) (nm input : String) (fld : Candle K → Num K) (n : Nat)
    (hn : SdNames nm) (hin : NoDot input ∧ input ∈ Candle.attrNames)
    (hattr : ∀ c : Candle K, c.attr input = some (.num (fld c))) :
    NeverRaises M (mkTop (.stdev (p : Int) input : Kind K) nm n) ∧
    Always M (mkTop (.stdev (p : Int) input : Kind K) nm n) (NoGapsFlt (own nm) p) :=
  (stdevTree (F := K) nm n (p : Int) input (by omega) hin).total_of _
    (stdev_rows p hp nm input fld n hn hin hattr) M

/-! ## BBANDS (all three bands: warm-up index `p`) -/

/-- the three fields of a dict reading share the warm-up index `w` -/
def NoGaps3 (nm f₁ f₂ f₃ : String) (w : Nat) (raw out : List (Candle K)) : Prop :=
  NoGapsFlt (fieldOf nm f₁) w raw out ∧ NoGapsFlt (fieldOf nm f₂) w raw out ∧
  NoGapsFlt (fieldOf nm f₃) w raw out

theorem bb_rows (p : Nat) (hp : 2 ≤ p) (nm input : String) (fld : Candle K → Num K) (n : Nat)
    (hk : IsKey nm) (hn : BbNames nm) (hin : NoDot input ∧ input ∈ Candle.attrNames)
    (hattr : ∀ c : Candle K, c.attr input = some (.num (fld c)))
    (raw : List (Candle K)) (hraw : ∀ c ∈ raw, Plain c) :
    ∃ out, Gen.rowMajor (bbTree (F := K) nm n (p : Int) input (by omega) hn hin).S raw = .ok out ∧
      NoGaps3 nm "BBL" "BBM" "BBU" p raw out := by
  obtain ⟨rows, hl, hrun, hall⟩ := bb_series p hp nm input fld n hn hin hattr raw hraw
  have hlen := decoWith_length (bbOut nm) raw rows hl
  have key : ∀ j, j < raw.length →
      FltFrom p j (fieldOf nm "BBL" ((decoBb nm raw rows).getD j default)) ∧
      FltFrom p j (fieldOf nm "BBM" ((decoBb nm raw rows).getD j default)) ∧
      FltFrom p j (fieldOf nm "BBU" ((decoBb nm raw rows).getD j default)) := by
    intro j hj
    unfold fieldOf
    rw [decoBb_getD nm raw rows hl j hj, bbOut_own nm hk]
    obtain ⟨_, _, h1, h2⟩ := hall j hj
    by_cases h : j < p
    · rw [h1 h]
      refine ⟨⟨fun _ => rfl, fun h' => absurd h (by omega)⟩, ⟨fun _ => rfl, fun h' => absurd h (by omega)⟩,
        ⟨fun _ => rfl, fun h' => absurd h (by omega)⟩⟩
    · obtain ⟨ym, ys, _, _, hb⟩ := h2 (by omega)
      rw [hb]
      obtain ⟨e1, e2, e3⟩ := bbDict_nested (PyF.round n (ym - 2 * ys)) (PyF.round n ym) (PyF.round n (ym + 2 * ys))
      rw [e1, e2, e3]
      exact ⟨⟨fun h' => absurd h' h, fun _ => ⟨_, rfl⟩⟩, ⟨fun h' => absurd h' h, fun _ => ⟨_, rfl⟩⟩,
        ⟨fun h' => absurd h' h, fun _ => ⟨_, rfl⟩⟩⟩
  exact ⟨_, hrun, noGapsFlt_of _ _ _ _ hlen fun j hj => (key j hj).1,
    noGapsFlt_of _ _ _ _ hlen fun j hj => (key j hj).2.1,
    noGapsFlt_of _ _ _ _ hlen fun j hj => (key j hj).2.2⟩

theorem bb_total (M : MgrSpec K) (p : Nat) (hp : 2 ≤ p) (nm input : String) (fld : Candle K → Num K) (n : Nat)
    (hk : IsKey nm) (hn : BbNames nm) (hin : NoDot input ∧ input ∈ Candle.attrNames)
    (hattr : ∀ c : Candle K, c.attr input = some (.num (fld c))) :
    NeverRaises M (mkTop (.bbands (p : Int) input : Kind K) nm n) ∧
    Always M (mkTop (.bbands (p : Int) input : Kind K) nm n) (NoGaps3 nm "BBL" "BBM" "BBU" p) :=
  (bbTree (F := K) nm n (p : Int) input (by omega) hn hin).total_of _
    (bb_rows p hp nm input fld n hk hn hin hattr) M

/-! ## KC (all three bands: warm-up index `p`, the ATR helper's) -/

theorem kc_rows (p : Nat) (hp : 2 ≤ p) (nm input : String) (fld : Candle K → Num K) (n : Nat) (mult : Num K)
    (hk : IsKey nm) (hn : KcNames nm) (hin : NoDot input ∧ input ∈ Candle.attrNames)
    (hattr : ∀ c : Candle K, c.attr input = some (.num (fld c)))
    (raw : List (Candle K)) (hraw : ∀ c ∈ raw, Plain c) :
    ∃ out, Gen.rowMajor (kcTree (F := K) nm n (p : Int) input mult (by omega) hn hin).S raw = .ok out ∧
      NoGaps3 nm "lower" "band" "upper" p raw out := by
  obtain ⟨out, hrun, hlen, hall⟩ := kc_series_readings p hp nm input fld n mult hk hn hin hattr raw hraw
  have key : ∀ j, j < raw.length →
      FltFrom p j (fieldOf nm "lower" (out.getD j default)) ∧
      FltFrom p j (fieldOf nm "band" (out.getD j default)) ∧
      FltFrom p j (fieldOf nm "upper" (out.getD j default)) := by
    intro j hj
    unfold fieldOf
    obtain ⟨_, _, _, _, _, _, ho, _⟩ := hall j hj
    unfold kcSeries at ho
    by_cases h : j < p
    · rw [if_pos h] at ho
      have ho' : readingByCandle (out.getD j default) nm = kcNoneDict := ho
      rw [ho']
      refine ⟨⟨fun _ => rfl, fun h' => absurd h (by omega)⟩, ⟨fun _ => rfl, fun h' => absurd h (by omega)⟩,
        ⟨fun _ => rfl, fun h' => absurd h (by omega)⟩⟩
    · rw [if_neg h] at ho
      obtain ⟨l, b, u, hd, _⟩ := ho
      rw [hd]
      exact ⟨⟨fun h' => absurd h' h, fun _ => ⟨l, by simp [Val.nested, dlookup]⟩⟩,
        ⟨fun h' => absurd h' h, fun _ => ⟨b, by simp [Val.nested, dlookup]⟩⟩,
        ⟨fun h' => absurd h' h, fun _ => ⟨u, by simp [Val.nested, dlookup]⟩⟩⟩
  exact ⟨_, hrun, noGapsFlt_of _ _ _ _ hlen fun j hj => (key j hj).1,
    noGapsFlt_of _ _ _ _ hlen fun j hj => (key j hj).2.1,
    noGapsFlt_of _ _ _ _ hlen fun j hj => (key j hj).2.2⟩

theorem kc_total (M : MgrSpec K) (p : Nat) (hp : 2 ≤ p) (nm input : String) (fld : Candle K → Num K) (n : Nat)
    (mult : Num K) (hk : IsKey nm) (hn : KcNames nm) (hin : NoDot input ∧ input ∈ Candle.attrNames)
    (hattr : ∀ c : Candle K, c.attr input = some (.num (fld c))) :
    NeverRaises M (mkTop (.kc (p : Int) input mult : Kind K) nm n) ∧
    Always M (mkTop (.kc (p : Int) input mult : Kind K) nm n) (NoGaps3 nm "lower" "band" "upper" p) :=
  (kcTree (F := K) nm n (p : Int) input mult (by omega) hn hin).total_of _
    (kc_rows p hp nm input fld n mult hk hn hin hattr) M

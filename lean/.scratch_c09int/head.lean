import HexProofs.Numeric.SeriesATR
import HexProofs.Numeric.SeriesRSI
import HexProofs.Numeric.SeriesKC
import HexProofs.Numeric.SeriesStdevBB
import HexProofs.Numeric.SeriesSupertrend
import HexProofs.Numeric.SeriesMACD
import HexProofs.Numeric.SeriesSTOCH
import HexProofs.Numeric.SeriesTSI
import HexProofs.Numeric.SeriesADX
import HexProofs.Numeric.SeriesHMA
import HexProofs.Numeric.SeriesWindows
import HexProofs.Numeric.SeriesUtility
/-!
# Totality of the composite indicators (property C09)

The whole-series files `Series*.lean` prove, kind by kind, that the ROW-MAJOR spec of the kind's
`TreeSpec` returns on every raw-shaped candle list, with explicit readings.  The framework
(`TreeSpec.live_refines`, `batch_iff`) says: WHENEVER a live history returns, its candles are that
row-major run.  This file adds the missing direction, generically:

* `TreeSpec.live_total` – if the row-major spec of a tree returns on every raw-shaped list, then
  construction over `init`, `calculate()` and ANY sequence of `append`s RETURNS, on every manager
  with an incremental spec (`MgrSpec.base`, `MgrSpec.tf`, `MgrSpec.fill`: the candles the manager
  hands to the engine after collapsing / gap filling are again raw-shaped, `MgrSpec.spec_plain`);
* `TreeSpec.total_of` – … and the returned candles satisfy every predicate the row-major run
  satisfies, relative to the manager spec of the whole stream;

and then, per kind, `<kind>_rows` (row-major run returns + the own reading is `None` exactly below
the warm-up index and a number from it on) and `<kind>_total` (the same through the object).
-/
set_option linter.unusedSectionVars false
set_option linter.unusedVariables false
namespace Hex

section generic
variable {F : Type} [PyF F] {ind : Ind F}

/-- the row-major spec of a tree returns on every list of raw-shaped candles -/
def TreeSpec.Total (T : TreeSpec ind) : Prop :=
  ∀ raw : List (Candle F), (∀ c ∈ raw, Plain c) → ∃ out, Gen.rowMajor T.S raw = .ok out

/-- **never raises** on manager `M`: for every stream the manager accepts, constructing the
indicator over any initial part, `calculate()`, and appending the rest in ANY chunking returns
(`chunks = []` is the batch run) -/
def NeverRaises (M : MgrSpec F) (ind : Ind F) : Prop :=
  ∀ (init : List (Candle F)) (chunks : List (List (Candle F))), M.Ok (init ++ chunks.flatten) →
    ∃ snap, candlesOf (runIndicator ind M.cfg init chunks) = .ok snap

/-- every history on manager `M` ends with candles `snap` that satisfy `P spec snap`, where `spec`
is what the manager makes of the whole stream (the stream itself on the base timeframe, the
collapsed / gap-filled candles otherwise) -/
def Always (M : MgrSpec F) (ind : Ind F) (P : List (Candle F) → List (Candle F) → Prop) : Prop :=
  ∀ (init : List (Candle F)) (chunks : List (List (Candle F))), M.Ok (init ++ chunks.flatten) →
    ∀ snap, candlesOf (runIndicator ind M.cfg init chunks) = .ok snap →
      P (M.spec (init ++ chunks.flatten)) snap

theorem TreeSpec.appends_total (T : TreeSpec ind) (M : MgrSpec F) (htot : T.Total)
    (chunks : List (List (Candle F))) :
    ∀ (s done : List (Candle F)) (a : Int), Gen.rowMajor T.S (M.spec s) = .ok done →
      M.Ok (s ++ chunks.flatten) →
      ∃ snap, candlesOf (chunks.foldlM (fun (st : IndState F) ch => st.append ch)
          { tree := ind, mgr := { cfg := M.cfg, candles := done }, active := a }) = .ok snap := by
  induction chunks with
  | nil =>
    intro s done a h _
    exact ⟨done, by simp [candlesOf, List.foldlM_nil, pure, Except.pure, Except.map]⟩
  | cons ch rest ih =>
    intro s done a h hok
    have hok' : M.Ok ((s ++ ch) ++ rest.flatten) := by simpa [List.append_assoc] using hok
    have hsch : M.Ok (s ++ ch) := M.ok_left _ _ hok'
    have hplainS : ∀ c ∈ M.spec s, Plain c := M.spec_plain s (M.ok_left _ _ hsch)
    simp only [List.foldlM_cons]
    have key : ∃ (raw₁ raw₂ d₁ : List (Candle F)), Gen.rowMajor T.S raw₁ = .ok d₁ ∧
        (∀ c ∈ raw₁, Plain c) ∧ (∀ c ∈ raw₂, Plain c) ∧ raw₁ ++ raw₂ = M.spec (s ++ ch) ∧
        IndState.append ({ tree := ind, mgr := { cfg := M.cfg, candles := done }, active := a } : IndState F) ch
          = IndState.calculate { tree := ind, mgr := { cfg := M.cfg, candles := d₁ ++ raw₂ }, active := a } := by
      by_cases hch : ch = []
      · subst hch
        refine ⟨M.spec s, [], done, h, hplainS, by simp, by simp, ?_⟩
        simp [IndState.append, Manager.append, bind, Except.bind]
      · obtain ⟨k, Q, hQ, _, ht, hres⟩ := M.append s ch done hsch hch
          (Gen.rowMajor_shape T.law _ done hplainS h).1.dressed
        refine ⟨(M.spec s).take k, Q, done.take k, Gen.rowMajor_take T.law _ done hplainS h k,
          fun c hc => hplainS c (List.mem_of_mem_take hc), hQ, hres.symm, ?_⟩
        have hne : ch.isEmpty = false := by cases ch <;> simp at hch ⊢
        simp only [IndState.append, Manager.append, hne, Bool.false_eq_true, if_false, ht, bind, Except.bind]
        rfl
    obtain ⟨raw₁, raw₂, d₁, hr₁, hp₁, hp₂, hsplit, happ⟩ := key
    rw [happ]
    obtain ⟨out, hout⟩ := htot (raw₁ ++ raw₂) (by rw [hsplit]; exact M.spec_plain _ hsch)
    have he := (T.engine raw₁ raw₂ d₁ out hr₁ hp₁ hp₂).2 hout
    obtain ⟨s', hs', _⟩ := IndState.calculate_of_engine
      ({ tree := ind, mgr := { cfg := M.cfg, candles := d₁ ++ raw₂ }, active := a } : IndState F) out he
    obtain ⟨out', a', rfl, hr⟩ := T.calculate_ok M.cfg raw₁ raw₂ d₁ a hr₁ hp₁ hp₂ s' hs'
    rw [hsplit] at hr
    rw [hs']
    simp only [bind, Except.bind]
    exact ih (s ++ ch) out' a' hr hok'

/-- **Totality of every live history, generic.**  If the row-major spec of the tree returns on
every raw-shaped list, then construction over `init`, `calculate()` and ANY sequence of appends
returns – on every manager with an incremental spec (base timeframe, collapsing timeframe,
timeframe with gap filling). -/
theorem TreeSpec.live_total (T : TreeSpec ind) (M : MgrSpec F) (htot : T.Total) : NeverRaises M ind := by
  intro init chunks hok
  have hinit : M.Ok init := M.ok_left _ _ hok
  unfold runIndicator IndState.init Manager.init
  rw [M.init init hinit]
  simp only [bind, Except.bind, pure, Except.pure]
  have h0 : Gen.rowMajor T.S ([] : List (Candle F)) = .ok [] := rfl
  obtain ⟨out, hout⟩ := htot (M.spec init) (M.spec_plain init hinit)
  have he := (T.engine [] (M.spec init) [] out h0 (by simp) (M.spec_plain init hinit)).2 (by simpa using hout)
  obtain ⟨s', hs', _⟩ := IndState.calculate_of_engine
    ({ tree := ind, mgr := { cfg := M.cfg, candles := M.spec init } } : IndState F) out (by simpa using he)
  have hc' : IndState.calculate ({ tree := ind, mgr := { cfg := M.cfg, candles := [] ++ M.spec init }, active := 0 } : IndState F)
      = .ok s' := by simpa using hs'
  obtain ⟨out', a', rfl, hr⟩ := T.calculate_ok M.cfg [] (M.spec init) [] 0 h0 (by simp)
    (M.spec_plain init hinit) s' hc'
  simp only [List.nil_append] at hr
  rw [hs']
  exact T.appends_total M htot chunks init out' a' hr hok

/-- **… and what it returns**: every predicate `P raw out` that the row-major run satisfies on
every raw-shaped list holds of every live history, relative to the manager spec of the stream. -/
theorem TreeSpec.total_of (T : TreeSpec ind) (P : List (Candle F) → List (Candle F) → Prop)
    (h : ∀ raw : List (Candle F), (∀ c ∈ raw, Plain c) → ∃ out, Gen.rowMajor T.S raw = .ok out ∧ P raw out)
    (M : MgrSpec F) : NeverRaises M ind ∧ Always M ind P := by
  refine ⟨T.live_total M (fun raw hraw => (h raw hraw).imp fun _ hh => hh.1), ?_⟩
  intro init chunks hok snap hsnap
  obtain ⟨out, hrun, hP⟩ := h _ (M.spec_plain _ hok)
  have h' := T.live_refines M init chunks hok snap hsnap
  rw [hrun] at h'
  cases h'
  exact hP

/-- the batch run is the history without appends -/
theorem NeverRaises.batch {M : MgrSpec F} (h : NeverRaises M ind) (stream : List (Candle F)) (hok : M.Ok stream) :
    ∃ out, candlesOf (runIndicator ind M.cfg stream []) = .ok out :=
  h stream [] (by simpa using hok)

theorem Always.batch {M : MgrSpec F} {P : List (Candle F) → List (Candle F) → Prop} (h : Always M ind P)
    (stream : List (Candle F)) (hok : M.Ok stream) (out : List (Candle F))
    (hout : candlesOf (runIndicator ind M.cfg stream []) = .ok out) : P (M.spec stream) out := by
  have := h stream [] (by simpa using hok) out hout
  simpa using this

end generic

namespace Numeric

/-! ### "no gaps" -/
section nogaps
variable {K : Type} [PyF K]

/-- a reading `v` of candle `j` of an output field with warm-up index `w`: `None` exactly below `w`,
a number from `w` on -/
def NumFrom (w j : Nat) (v : Val K) : Prop :=
  (j < w → v = .none) ∧ (w ≤ j → ∃ x : Num K, v = .num x)

/-- … a float from `w` on (every kind but the integer-preserving ones) -/
def FltFrom (w j : Nat) (v : Val K) : Prop :=
  (j < w → v = .none) ∧ (w ≤ j → ∃ y : K, v = .flt y)

theorem FltFrom.num {w j : Nat} {v : Val K} (h : FltFrom w j v) : NumFrom w j v :=
  ⟨h.1, fun hj => (h.2 hj).elim fun y hy => ⟨.flt y, hy⟩⟩

/-- the own reading of the indicator `nm` on a candle -/
def own (nm : String) (c : Candle K) : Val K := readingByCandle c nm
/-- field `f` of the dict reading of the indicator `nm` on a candle (`reading("nm.f")`) -/
def fieldOf (nm f : String) (c : Candle K) : Val K := (readingByCandle c nm).nested f

/-- **no gaps**: `out` has one candle per candle of `raw`, and the reading `rd` is `None` on the
candles `0 … w−1` and a number on EVERY candle from `w` on -/
def NoGaps (rd : Candle K → Val K) (w : Nat) (raw out : List (Candle K)) : Prop :=
  out.length = raw.length ∧ ∀ j, j < out.length → NumFrom w j (rd (out.getD j default))

/-- … with floats -/
def NoGapsFlt (rd : Candle K → Val K) (w : Nat) (raw out : List (Candle K)) : Prop :=
  out.length = raw.length ∧ ∀ j, j < out.length → FltFrom w j (rd (out.getD j default))

theorem NoGapsFlt.num {rd : Candle K → Val K} {w : Nat} {raw out : List (Candle K)}
    (h : NoGapsFlt rd w raw out) : NoGaps rd w raw out :=
  ⟨h.1, fun j hj => (h.2 j hj).num⟩

/-- once produced, produced on every later candle -/
theorem NoGaps.later {rd : Candle K → Val K} {w : Nat} {raw out : List (Candle K)} (h : NoGaps rd w raw out)
    (i j : Nat) (hij : i ≤ j) (hj : j < out.length) (hi : rd (out.getD i default) ≠ .none) :
    ∃ x : Num K, rd (out.getD j default) = .num x := by
  have hw : w ≤ i := by
    by_contra hlt
    exact hi ((h.2 i (by omega)).1 (by omega))
  exact (h.2 j hj).2 (by omega)

theorem noGapsFlt_of (rd : Candle K → Val K) (w : Nat) (raw out : List (Candle K)) (hl : out.length = raw.length)
    (h : ∀ j, j < raw.length → FltFrom w j (rd (out.getD j default))) : NoGapsFlt rd w raw out :=
  ⟨hl, fun j hj => h j (hl ▸ hj)⟩

theorem noGaps_of (rd : Candle K → Val K) (w : Nat) (raw out : List (Candle K)) (hl : out.length = raw.length)
    (h : ∀ j, j < raw.length → NumFrom w j (rd (out.getD j default))) : NoGaps rd w raw out :=
  ⟨hl, fun j hj => h j (hl ▸ hj)⟩


end nogaps

variable {K : Type} [Field K] [LinearOrder K] [IsStrictOrderedRing K] [LawfulPyF K]

import HexModel.Spec.Resample
/-
L1 spec vocabulary for gap filling.
-/
namespace Hex
variable {F : Type}

/-- every candle after a candle stamped `t` is stamped exactly one timeframe later than its
predecessor -/
def ContigFrom (tf : Int) : Int → List (Candle F) → Prop
  | _, [] => True
  | t, c :: r => c.ts = some (t + tf) ∧ ContigFrom tf (t + tf) r

/-- consecutive candles are exactly one timeframe apart -/
def Contiguous (tf : Int) : List (Candle F) → Prop
  | [] => True
  | c :: r => ∃ t, c.ts = some t ∧ ContigFrom tf t r

/-- a gap-fill candle: flat at `close`, zero volume, no readings, not converted -/
def IsFillOf (close : Num F) (c : Candle F) : Prop :=
  c.o = close ∧ c.h = close ∧ c.l = close ∧ c.c = close ∧ c.v = .int 0 ∧
  c.inds = [] ∧ c.subs = [] ∧ c.tag = false ∧ c.clean = none

/-- in-order bucket list: stamped, aligned, strictly increasing -/
structure Bucketed (tf : Int) (ys : List (Candle F)) : Prop where
  stamped : ∀ a ∈ ys, ∃ t, a.ts = some t ∧ t % tf = 0
  incr : (ys.filterMap (·.ts)).Pairwise (· < ·)

/-- `zs` is `ys` with flat zero-volume candles inserted: every element is either the next
original bucket or a fill candle carrying the (raw) close of the candle before it -/
inductive FilledFrom : List (Candle F) → List (Candle F) → Prop
  | nil : FilledFrom [] []
  | single (a : Candle F) : FilledFrom [a] [a]
  | keep (a b : Candle F) (ys zs : List (Candle F)) :
      FilledFrom (b :: ys) (b :: zs) → FilledFrom (a :: b :: ys) (a :: b :: zs)
  | fill (a f : Candle F) (ys zs : List (Candle F)) :
      IsFillOf a.rawClose f → FilledFrom (f :: ys) (f :: zs) → FilledFrom (a :: ys) (a :: f :: zs)

end Hex

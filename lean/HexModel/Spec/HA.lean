import HexModel.Core.Manager
/-
L1 spec of the Heikin-Ashi conversion: a left fold of the four textbook formulas.
-/
namespace Hex
variable {F : Type} [PyF F]

/-- Heikin-Ashi values of a raw candle given the previous *converted* candle -/
def haValues (c : Candle F) (prev : Option (Candle F)) : Num F × Num F × Num F × Num F :=
  let close := Num.flt (PyF.div (((c.o.add c.h).add c.l).add c.c).toF (PyF.ofInt 4))
  let opn := match prev with
    | none => Num.flt (PyF.div (c.o.add c.c).toF (PyF.ofInt 2))
    | some p => Num.flt (PyF.div (p.o.add p.c).toF (PyF.ofInt 2))
  (opn, Num.max2 (Num.max2 opn c.h) close, Num.min2 (Num.min2 opn c.l) close, close)

/-- one converted candle: HA values, readings wiped, tagged, raw values saved -/
def haCandle (c : Candle F) (prev : Option (Candle F)) : Candle F :=
  let (o, h, l, cl) := haValues c prev
  { o := o, h := h, l := l, c := cl, v := c.v, ts := c.ts, inds := [], subs := [], tag := true,
    clean := some { o := c.o, h := c.h, l := c.l, c := c.c, v := c.v, ts := c.ts } }

/-- the recurrence as a left fold over raw candles, `done` = already converted prefix -/
def haFold : List (Candle F) → List (Candle F) → List (Candle F)
  | done, [] => done
  | done, c :: rest => haFold (done ++ [haCandle c done.getLast?]) rest

def haSpec (raw : List (Candle F)) : List (Candle F) := haFold [] raw

end Hex

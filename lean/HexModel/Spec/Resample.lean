import HexModel.Core.Manager
/-
L1 specs for the candle manager: right-closed, right-labelled resampling as a fold; gap filling;
the Heikin-Ashi recurrence; the lifespan window.
-/
namespace Hex
variable {F : Type} [PyF F]

/-- the bucket label of a wall-clock second `t`: the end of the bucket `(k·tf, (k+1)·tf]` it is in -/
def label (tf t : Int) : Int := if t % tf = 0 then t else t / tf * tf + tf

/-- spec step on the REVERSED output (head = newest bucket): merge into the newest bucket iff the
candle has that bucket's label, otherwise open a new bucket labelled `label tf t`.
Candles without a timestamp are dropped. -/
def resampleStep (tf : Int) (rout : List (Candle F)) (c : Candle F) : List (Candle F) :=
  match c.ts with
  | none => rout
  | some t =>
    match rout with
    | l :: r => if l.ts = some (label tf t) then l.merge c :: r
                else { c with ts := some (label tf t) } :: rout
    | [] => [{ c with ts := some (label tf t) }]

def resampleR (tf : Int) (xs : List (Candle F)) : List (Candle F) := xs.foldl (resampleStep tf) []

/-- right-closed, right-labelled OHLCV resampling, oldest bucket first -/
def resample (tf : Int) (xs : List (Candle F)) : List (Candle F) := (resampleR tf xs).reverse

/-- the sequence of bucket labels of the candles that carry a timestamp -/
def labels (tf : Int) (xs : List (Candle F)) : List Int := xs.filterMap fun c => c.ts.map (label tf)

/-- labels never decrease along the list (true of every stream with non-decreasing timestamps,
of every collapsed list, and of a collapsed list followed by later raw candles) -/
def LabelsMono (tf : Int) (xs : List (Candle F)) : Prop := (labels tf xs).Pairwise (· ≤ ·)

/-- a saved pre-conversion timestamp, if any, is the candle's own (aligned) timestamp -/
def CleanOk (tf : Int) (c : Candle F) : Prop :=
  ∀ k, c.clean = some k → ∀ t, k.ts = some t → c.ts = some t ∧ t % tf = 0

end Hex

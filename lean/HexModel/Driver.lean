import HexModel.Wire
import HexModel.Parse
import HexModel.Core.Hexital
import HexModel.Core.Input
import HexModel.Core.SettingsWire
/-
The line-protocol driver: one operation per line in, canonical output lines out.
-/
namespace Hex.Driver
open Hex Hex.Wire Hex.Parse

structure DState where
  mgr : Option (Manager Float) := none
  ind : Option (IndState Float) := none
  hex : Option (Hexital Float) := none
  pending : List (Member Float) := []

def parseCfg (ps : List (String × String)) : PyM MgrCfg := do
  let tf ← match param ps "tf" with
    | none => pure none
    | some s => do let t ← parseTimeframe s; pure (some t)
  return { tf := tf, fill := param ps "fill" == some "1", ha := param ps "ha" == some "1",
           lifespan := (param ps "life").bind String.toInt? }

def snapLines (cs : List (Candle Float)) : List String :=
  s!"snap {cs.length}" :: cs.map showCandle

def arith (toks : List String) : String :=
  let pf (s : String) : Float := Float.ofBits (s.toNat!.toUInt64)
  let nums (xs : List String) : List (Num Float) := xs.filterMap parseNum
  match toks with
  | ["round", n, x] => toString (pyRound n.toNat! (pf x)).toBits
  | "sum" :: xs => showNum (pySum (nums xs))
  | ["pow", a, b] => showNum ((Num.flt (pf a)).powF b.toInt!)
  | ["sqrt", a] => toString ((pf a).sqrt).toBits
  | ["div", a, b] => match (nums [a]), (nums [b]) with
    | [x], [y] => match x.truediv y with
      | .ok r => showNum r
      | .error e => s!"err {e}"
    | _, _ => "bad"
  | ["add", a, b] => match nums [a, b] with | [x, y] => showNum (x.add y) | _ => "bad"
  | ["sub", a, b] => match nums [a, b] with | [x, y] => showNum (x.sub y) | _ => "bad"
  | ["mul", a, b] => match nums [a, b] with | [x, y] => showNum (x.mul y) | _ => "bad"
  | ["lt", a, b] => match nums [a, b] with | [x, y] => toString (x.lt y) | _ => "bad"
  | ["eq", a, b] => match nums [a, b] with | [x, y] => toString (x.eq y) | _ => "bad"
  | "max" :: xs => match Num.maxList (nums xs) with | some r => showNum r | none => "bad"
  | "min" :: xs => match Num.minList (nums xs) with | some r => showNum r | none => "bad"
  | _ => "bad"

def indOp (st : DState) (r : PyM (IndState Float)) : DState × List String :=
  match r with
  | .ok s => ({ st with ind := some s }, ["ok"])
  | .error e => ({ st with ind := none }, [s!"err {e}"])

def showRes (r : PyM (Val Float)) : String :=
  match r with
  | .ok v => showVal v
  | .error e => s!"aerr {e}"

/-- read-only accessors of an indicator object -/
def indAcc (s : IndState Float) (what : String) (ps : List (String × String)) : String :=
  let nm : String := (param ps "name").getD s.tree.name
  let idx : Option Int := (param ps "idx").bind String.toInt?
  let x := s.ctx
  match what with
  | "name" => s.tree.name
  | "active" => toString s.active
  | "has_reading" => match s.hasReading with
    | .ok b => toString b
    | .error e => s!"aerr {e}"
  | "reading" => showRes (x.reading nm idx)
  | "prev_reading" => showRes (x.prevReading nm)
  | "as_list" => " ".intercalate ((s.asList (param ps "name")).map showVal)
  | "reading_count" => toString (readingCount s.mgr.candles nm)
  | "reading_period" => toString (x.readingPeriod (pInt ps "period" 1) nm idx)
  | "candles_sum" => showRes (x.candlesSum (pInt ps "length" 1) nm idx)
  | _ => "bad-acc"

/-- the caller's encoding of the candles (`enc=candle|dict|list|tlist`, `single=1` for one bare
candle instead of a list of them), decoded by the model's `decodeInput` -/
def decodeEnc (ps : List (String × String)) (cs : List (Candle Float)) : PyM (List (Candle Float)) :=
  let single := param ps "single" == some "1"
  match param ps "enc", cs with
  | some "dict", [c] => if single then decodeInput (.dict (encodeDict c)) else decodeInput (.dicts [encodeDict c])
  | some "dict", [] => decodeInput .empty
  | some "dict", cs => decodeInput (.dicts (cs.map encodeDict))
  | some "list", [c] => if single then decodeInput (.list (encodeList false c)) else decodeInput (.lists [encodeList false c])
  | some "list", [] => decodeInput .empty
  | some "list", cs => decodeInput (.lists (cs.map (encodeList false)))
  | some "tlist", [c] => if single then decodeInput (.list (encodeList true c)) else decodeInput (.lists [encodeList true c])
  | some "tlist", [] => decodeInput .empty
  | some "tlist", cs => decodeInput (.lists (cs.map (encodeList true)))
  | _, [c] => if single then decodeInput (.candle c) else decodeInput (.candles [c])
  | _, cs => decodeInput (.candles cs)

def hexOp (st : DState) (r : PyM (Hexital Float)) : DState × List String :=
  match r with
  | .ok h => ({ st with hex := some h }, ["ok"])
  | .error e => ({ st with hex := none }, [s!"err {e}"])

def hexSnap (h : Hexital Float) : List String :=
  h.managers.flatMap fun (k, m) => s!"mgr {k} {m.candles.length}" :: m.candles.map showCandle

def parseMember (ps : List (String × String)) : Option (Member Float) := do
  let tree ← parseInd ps
  let tfName := (param ps "tf").map String.toUpper
  let tfSecs ← match tfName with
    | none => some none
    | some t => match parseTimeframe t with
      | .ok v => some (some v)
      | .error _ => none
  some { tree := tree, tfName := tfName, tfSecs := tfSecs }

def step (st : DState) (line : String) : DState × List String :=
  let toks := (line.splitOn " ").filter (· ≠ "")
  match toks with
  | [] => (st, [])
  | "reset" :: _ => ({}, ["reset"])
  | "arith" :: rest => (st, [arith rest])
  | "mgr" :: rest =>
    let (ps, rest) := splitParams rest
    match (param ps "n").bind String.toNat? with
    | none => (st, ["bad-op"])
    | some n =>
      match parseCandles n rest with
      | none => (st, ["bad-op"])
      | some (cs, _) =>
        match (do let cfg ← parseCfg ps; Manager.init cfg cs) with
        | .ok m => ({ st with mgr := some m }, ["ok"])
        | .error e => ({ st with mgr := none }, [s!"err {e}"])
  | "mapp" :: rest =>
    let (ps, rest) := splitParams rest
    match st.mgr, (param ps "n").bind String.toNat? with
    | some m, some n =>
      match parseCandles n rest with
      | none => (st, ["bad-op"])
      | some (cs, _) =>
        match (do let cs ← decodeEnc ps cs; m.append cs) with
        | .ok m' => ({ st with mgr := some m' }, ["ok"])
        | .error e => ({ st with mgr := none }, [s!"err {e}"])
    | _, _ => (st, ["bad-op"])
  | "mtasks" :: _ =>
    match st.mgr with
    | some m => match tasks m.cfg m.candles with
      | .ok cs => ({ st with mgr := some { m with candles := cs } }, ["ok"])
      | .error e => ({ st with mgr := none }, [s!"err {e}"])
    | none => (st, ["bad-op"])
  | "ind" :: rest =>
    let (ps, rest) := splitParams rest
    match parseInd ps, (param ps "n").bind String.toNat? with
    | some tree, some n =>
      match parseCandles n rest with
      | none => (st, ["bad-op"])
      | some (cs, _) =>
        match (do let cfg ← parseMgrCfg ps; IndState.init tree cfg cs) with
        | .ok s => ({ st with ind := some s }, [s!"ok name={s.tree.name}"])
        | .error e => ({ st with ind := none }, [s!"err {e}"])
    | _, _ => (st, ["bad-op"])
  | "iapp" :: rest =>
    let (ps, rest) := splitParams rest
    match st.ind, (param ps "n").bind String.toNat? with
    | some s, some n =>
      match parseCandles n rest with
      | none => (st, ["bad-op"])
      | some (cs, _) => indOp st (do let cs ← decodeEnc ps cs; s.append cs)
    | _, _ => (st, ["bad-op"])
  | "icalc" :: _ =>
    match st.ind with
    | some s => indOp st s.calculate
    | none => (st, ["bad-op"])
  | "icidx" :: rest =>
    let (ps, _) := splitParams rest
    match st.ind, (param ps "s").bind String.toInt? with
    | some s, some a => indOp st (s.calculateIndex a ((param ps "e").bind String.toInt?))
    | _, _ => (st, ["bad-op"])
  | "ipurge" :: _ =>
    match st.ind with
    | some s => ({ st with ind := some s.purge }, ["ok"])
    | none => (st, ["bad-op"])
  | "irecalc" :: _ =>
    match st.ind with
    | some s => indOp st s.recalculate
    | none => (st, ["bad-op"])
  | "isnap" :: _ =>
    match st.ind with
    | some s => (st, snapLines s.mgr.candles)
    | none => (st, ["noind"])
  | "iacc" :: what :: rest =>
    let (ps, _) := splitParams rest
    match st.ind with
    | some s => (st, [indAcc s what ps])
    | none => (st, ["noind"])
  | "iset" :: rest =>
    let (ps, _) := splitParams rest
    match st.ind, (param ps "idx").bind String.toInt?, param ps "name", (param ps "val").bind parseVal with
    | some s, some i, some nm, some v =>
      match setReading (param ps "sub" == some "1") nm s.mgr.candles i v with
      | .ok cs => ({ st with ind := some { s with mgr := { s.mgr with candles := cs } } }, ["ok"])
      | .error e => (st, [s!"err {e}"])
    | _, _, _, _ => (st, ["bad-op"])
  | "ana" :: rest =>
    let (ps, _) := splitParams rest
    match st.ind, parseAnalysis ps with
    | some s, some a =>
      let idx : Option Int := (param ps "idx").bind String.toInt?
      let r : PyM (Val Float) := match a, idx with
        | .doji lb, none => Pat.doji s.mgr.candles lb none
        | .dojistar lb, none => Pat.dojistar s.mgr.candles lb none
        | .hammer lb, none => Pat.hammer s.mgr.candles lb none
        | .invHammer lb, none => Pat.invHammer s.mgr.candles lb none
        | a, some i => runAnalysis a s.mgr.candles i
        | a, none => runAnalysis a s.mgr.candles (-1)
      (st, [showRes r])
    | _, _ => (st, ["bad-op"])
  | "hmember" :: rest =>
    let (ps, _) := splitParams rest
    match parseMember ps with
    | some m => ({ st with pending := st.pending ++ [m] }, [s!"ok name={m.tree.name}"])
    | none => (st, ["bad-op"])
  | "hnew" :: rest =>
    let (ps, rest) := splitParams rest
    match (param ps "n").bind String.toNat? with
    | none => (st, ["bad-op"])
    | some n =>
      match parseCandles n rest with
      | none => (st, ["bad-op"])
      | some (cs, _) =>
        let members := st.pending
        hexOp { st with pending := [] } (do let cfg ← parseMgrCfg ps; Hexital.init cfg ((param ps "tf").map String.toUpper) cs members)
  | "hadd" :: _ =>
    match st.hex with
    | some h => hexOp { st with pending := [] } (h.addIndicators st.pending)
    | none => (st, ["bad-op"])
  | "happ" :: rest =>
    let (ps, rest) := splitParams rest
    match st.hex, (param ps "n").bind String.toNat? with
    | some h, some n =>
      match parseCandles n rest with
      | none => (st, ["bad-op"])
      | some (cs, _) => hexOp st (do let cs ← decodeEnc ps cs; h.append cs)
    | _, _ => (st, ["bad-op"])
  | "hcalc" :: rest =>
    let (ps, _) := splitParams rest
    match st.hex with
    | some h => hexOp st (h.calculate (param ps "name"))
    | none => (st, ["bad-op"])
  | "hpurge" :: rest =>
    let (ps, _) := splitParams rest
    match st.hex with
    | some h => hexOp st (h.purge (param ps "name"))
    | none => (st, ["bad-op"])
  | "hrecalc" :: rest =>
    let (ps, _) := splitParams rest
    match st.hex with
    | some h => hexOp st (h.recalculate (param ps "name"))
    | none => (st, ["bad-op"])
  | "hcidx" :: rest =>
    let (ps, _) := splitParams rest
    match st.hex with
    | some h => hexOp st (h.calculateIndex (param ps "name") (pInt ps "idx" (-1)))
    | none => (st, ["bad-op"])
  | "hrem" :: rest =>
    let (ps, _) := splitParams rest
    match st.hex with
    | some h => hexOp st (h.removeIndicator (param ps "name"))
    | none => (st, ["bad-op"])
  | "hsnap" :: _ =>
    match st.hex with
    | some h => (st, hexSnap h)
    | none => (st, ["nohex"])
  | "hacc" :: what :: rest =>
    let (ps, _) := splitParams rest
    match st.hex with
    | none => (st, ["nohex"])
    | some h =>
      let nm := (param ps "name").getD ""
      let out := match what with
        | "reading" => showRes (h.reading nm (pInt ps "idx" (-1)))
        | "prev_reading" => showRes (h.prevReading nm)
        | "has_reading" => match h.hasReading nm with
          | .ok b => toString b
          | .error e => s!"aerr {e}"
        | "as_list" => match h.readingAsList nm with
          | .ok l => " ".intercalate (l.map showVal)
          | .error e => s!"aerr {e}"
        | "names" => " ".intercalate (h.indicators.map (·.1))
        -- `Hexital.timeframes`: {str(manager.timeframe)} – the default manager shows the Hexital's own timeframe (or None)
        | "timeframes" =>
          let names := h.managers.map fun (k, _) => if k == defaultKey then h.tfName.getD "None" else k
          " ".intercalate (names.mergeSort (fun a b => decide (a ≤ b))).eraseDups
        -- `Hexital.get_candles()`: manager keys in insertion order with the number of candles each holds
        | "getcandles" => " ".intercalate (h.managers.map fun (k, m) => s!"{k}:{m.candles.length}")
        | _ => "bad-acc"
      if what == "candles" then
        -- `Hexital.candles(timeframe)`: that manager's candles if it exists, else the default manager's
        let key := (param ps "tf").getD ""
        let m := match dlookup key h.managers with
          | some m => some m
          | none => dlookup defaultKey h.managers
        match m with
        | some m => (st, snapLines m.candles)
        | none => (st, ["aerr keyError"])
      else
      (st, [out])
  | "settings" :: rest =>
    let (ps, _) := splitParams rest
    (st, Hex.Settings.Wire.settingsOp ps)
  | "msnap" :: _ =>
    match st.mgr with
    | some m => (st, snapLines m.candles)
    | none => (st, ["nomgr"])
  | _ => (st, ["bad-op"])

partial def loop (h : IO.FS.Stream) (out : IO.FS.Stream) (st : DState) : IO Unit := do
  let line ← h.getLine
  if line.isEmpty then return ()
  let (st', outs) := step st (line.trimAscii.toString)
  for o in outs do out.putStrLn o
  loop h out st'

end Hex.Driver

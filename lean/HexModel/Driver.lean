import HexModel.Wire
/-
The line-protocol driver: one operation per line in, canonical output lines out.
-/
namespace Hex.Driver
open Hex Hex.Wire

structure DState where
  mgr : Option (Manager Float) := none

def parseCfg (ps : List (String × String)) : PyM MgrCfg := do
  let tf ← match param ps "tf" with
    | none => pure none
    | some s => do let t ← parseTimeframe s; pure (some t)
  return { tf := tf, fill := param ps "fill" == some "1", ha := param ps "ha" == some "1",
           lifespan := (param ps "life").bind String.toInt? }

def snapLines (cs : List (Candle Float)) : List String :=
  s!"snap {cs.length}" :: cs.map showCandle

def arith (toks : List String) : String :=
  let pf (s : String) : Float := Float.ofBits (s.toNat!.toUInt64)
  let nums (xs : List String) : List (Num Float) := xs.filterMap parseNum
  match toks with
  | ["round", n, x] => toString (pyRound n.toNat! (pf x)).toBits
  | "sum" :: xs => showNum (pySum (nums xs))
  | ["pow", a, b] => showNum ((Num.flt (pf a)).powF b.toInt!)
  | ["sqrt", a] => toString ((pf a).sqrt).toBits
  | ["div", a, b] => match (nums [a]), (nums [b]) with
    | [x], [y] => match x.truediv y with
      | .ok r => showNum r
      | .error e => s!"err {e}"
    | _, _ => "bad"
  | ["add", a, b] => match nums [a, b] with | [x, y] => showNum (x.add y) | _ => "bad"
  | ["sub", a, b] => match nums [a, b] with | [x, y] => showNum (x.sub y) | _ => "bad"
  | ["mul", a, b] => match nums [a, b] with | [x, y] => showNum (x.mul y) | _ => "bad"
  | ["lt", a, b] => match nums [a, b] with | [x, y] => toString (x.lt y) | _ => "bad"
  | ["eq", a, b] => match nums [a, b] with | [x, y] => toString (x.eq y) | _ => "bad"
  | "max" :: xs => match Num.maxList (nums xs) with | some r => showNum r | none => "bad"
  | "min" :: xs => match Num.minList (nums xs) with | some r => showNum r | none => "bad"
  | _ => "bad"

def step (st : DState) (line : String) : DState × List String :=
  let toks := (line.splitOn " ").filter (· ≠ "")
  match toks with
  | [] => (st, [])
  | "reset" :: _ => ({}, ["reset"])
  | "arith" :: rest => (st, [arith rest])
  | "mgr" :: rest =>
    let (ps, rest) := splitParams rest
    match (param ps "n").bind String.toNat? with
    | none => (st, ["bad-op"])
    | some n =>
      match parseCandles n rest with
      | none => (st, ["bad-op"])
      | some (cs, _) =>
        match (do let cfg ← parseCfg ps; Manager.init cfg cs) with
        | .ok m => ({ st with mgr := some m }, ["ok"])
        | .error e => ({ st with mgr := none }, [s!"err {e}"])
  | "mapp" :: rest =>
    let (ps, rest) := splitParams rest
    match st.mgr, (param ps "n").bind String.toNat? with
    | some m, some n =>
      match parseCandles n rest with
      | none => (st, ["bad-op"])
      | some (cs, _) =>
        match m.append cs with
        | .ok m' => ({ st with mgr := some m' }, ["ok"])
        | .error e => ({ st with mgr := none }, [s!"err {e}"])
    | _, _ => (st, ["bad-op"])
  | "mtasks" :: _ =>
    match st.mgr with
    | some m => match tasks m.cfg m.candles with
      | .ok cs => ({ st with mgr := some { m with candles := cs } }, ["ok"])
      | .error e => ({ st with mgr := none }, [s!"err {e}"])
    | none => (st, ["bad-op"])
  | "msnap" :: _ =>
    match st.mgr with
    | some m => (st, snapLines m.candles)
    | none => (st, ["nomgr"])
  | _ => (st, ["bad-op"])

partial def loop (h : IO.FS.Stream) (out : IO.FS.Stream) (st : DState) : IO Unit := do
  let line ← h.getLine
  if line.isEmpty then return ()
  let (st', outs) := step st (line.trimAscii.toString)
  for o in outs do out.putStrLn o
  loop h out st'

end Hex.Driver

import HexModel.Wire
import HexModel.Parse
import HexModel.Core.Hexital
import HexModel.Core.Input
import HexModel.Core.SettingsWire
import HexModel.Core.Surface
import HexModel.Analysis.Utils
/-
The line-protocol driver: one operation per line in, canonical output lines out.
-/
namespace Hex.Driver
open Hex Hex.Wire Hex.Parse

structure DState where
  mgr : Option (Manager Float) := none
  ind : Option (IndState Float) := none
  hex : Option (Hexital Float) := none
  pending : List (Member Float) := []
  /-- the timeframe of `mgr` as written (upper-cased): `CandleManager.timeframe`, which `__eq__` compares -/
  mgrTf : Option String := none
  /-- the configuration side of `hex` (`Hexital.indicator_settings`) and of the `pending` members -/
  members : HexMembers Float := { hcfg := {} }
  pendingCfg : List (String × Settings.IndCfg Float) := []
  /-- `hmember form=bad`: something that is neither an `Indicator` nor a dict waits among the pending members -/
  pendingBad : Bool := false

def parseCfg (ps : List (String × String)) : PyM MgrCfg := do
  let tf ← match param ps "tf" with
    | none => pure none
    | some s => do let t ← parseTimeframe s; pure (some t)
  return { tf := tf, fill := param ps "fill" == some "1", ha := param ps "ha" == some "1",
           lifespan := (param ps "life").bind String.toInt? }

def snapLines (cs : List (Candle Float)) : List String :=
  s!"snap {cs.length}" :: cs.map showCandle

def arith (toks : List String) : String :=
  let pf (s : String) : Float := Float.ofBits (s.toNat!.toUInt64)
  let nums (xs : List String) : List (Num Float) := xs.filterMap parseNum
  match toks with
  | ["round", n, x] => toString (pyRound n.toNat! (pf x)).toBits
  | "sum" :: xs => showNum (pySum (nums xs))
  | ["pow", a, b] => showNum ((Num.flt (pf a)).powF b.toInt!)
  | ["sqrt", a] => toString ((pf a).sqrt).toBits
  | ["div", a, b] => match (nums [a]), (nums [b]) with
    | [x], [y] => match x.truediv y with
      | .ok r => showNum r
      | .error e => s!"err {e}"
    | _, _ => "bad"
  | ["add", a, b] => match nums [a, b] with | [x, y] => showNum (x.add y) | _ => "bad"
  | ["sub", a, b] => match nums [a, b] with | [x, y] => showNum (x.sub y) | _ => "bad"
  | ["mul", a, b] => match nums [a, b] with | [x, y] => showNum (x.mul y) | _ => "bad"
  | ["lt", a, b] => match nums [a, b] with | [x, y] => toString (x.lt y) | _ => "bad"
  | ["eq", a, b] => match nums [a, b] with | [x, y] => toString (x.eq y) | _ => "bad"
  | "max" :: xs => match Num.maxList (nums xs) with | some r => showNum r | none => "bad"
  | "min" :: xs => match Num.minList (nums xs) with | some r => showNum r | none => "bad"
  | _ => "bad"

def indOp (st : DState) (r : PyM (IndState Float)) : DState × List String :=
  match r with
  | .ok s => ({ st with ind := some s }, ["ok"])
  | .error e => ({ st with ind := none }, [s!"err {e}"])

def showRes (r : PyM (Val Float)) : String :=
  match r with
  | .ok v => showVal v
  | .error e => s!"aerr {e}"

def showBoolRes (r : PyM Bool) : String :=
  match r with
  | .ok b => toString b
  | .error e => s!"aerr {e}"

/-- a candle written as one token `ts,o,h,l,c,v` -/
def parseCsvCandle (s : String) : Option (Candle Float) := (parseCandle (s.splitOn ",")).map (·.1)

/-- `candles[i] == candles[j]` (`j=`), `candles[i] == Candle(…)` (`c=ts,o,h,l,c,v`: a fresh candle without readings)
or `candles[i] == <not a Candle>` (`other=int`) -/
def candlesEq (cs : List (Candle Float)) (ps : List (String × String)) : String :=
  match (param ps "i").bind String.toInt? with
  | none => "bad-acc"
  | some i =>
    match (param ps "j").bind String.toInt?, param ps "c", param ps "other" with
    | some j, _, _ => showBoolRes (candlesEqAt cs i j)
    | none, some c, _ =>
      match parseCsvCandle c with
      | some c => showBoolRes (candleEqAt cs i (some c))
      | none => "bad-acc"
    | none, none, some _ => showBoolRes (candleEqAt cs i none)
    | _, _, _ => "bad-acc"

/-- read-only accessors of a `CandleManager`: `find name=` (`find_indicator`), `eq tf= fill= life=` (`__eq__` against a
manager built with these arguments; `other=int`: against something that is no manager), `ceq …` (`Candle.__eq__`) -/
def mgrAcc (m : Manager Float) (tfName : Option String) (what : String) (ps : List (String × String)) : String :=
  match what with
  | "find" => match param ps "name" with
    | some n => toString (findIndicator m.candles n)
    | none => "bad-acc"
  | "eq" =>
    if (param ps "other").isSome then toString ((m.ident tfName).pyEq none) else
    let other : MgrIdent := { lifespan := (param ps "life").bind String.toInt?,
                              timeframe := (param ps "tf").map String.toUpper,
                              fill := param ps "fill" == some "1" }
    toString ((m.ident tfName).pyEq (some other))
  | "ceq" => candlesEq m.candles ps
  | _ => "bad-acc"

/-- `hexital.utils.indexing` called directly: `idx=None` (or no `idx`) is Python's `None` -/
def utilOp (what : String) (ps : List (String × String)) : String :=
  let idx : Option Int := (param ps "idx").bind String.toInt?
  let len : Nat := ((param ps "len").bind String.toNat?).getD 0
  let showOI : Option Int → String := fun o => match o with
    | some i => toString i
    | none => "n"
  match what with
  | "validate_index" => showOI (validateIndex idx len (pInt ps "default" (-1)))
  | "absindex" => showOI (absIndexOpt idx len)
  | "valid_index" => toString (validIndexOpt idx len)
  | _ => "bad-acc"

/-- read-only accessors of an indicator object -/
def indAcc (s : IndState Float) (what : String) (ps : List (String × String)) : String :=
  let nm : String := (param ps "name").getD s.tree.name
  let idx : Option Int := (param ps "idx").bind String.toInt?
  let x := s.ctx
  match what with
  | "name" => s.tree.name
  | "active" => toString s.active
  | "has_reading" => match s.hasReading with
    | .ok b => toString b
    | .error e => s!"aerr {e}"
  | "reading" => showRes (x.reading nm idx)
  | "prev_reading" => showRes (x.prevReading nm)
  | "as_list" => " ".intercalate ((s.asList (param ps "name")).map showVal)
  | "reading_count" => toString (readingCount s.mgr.candles nm)
  | "reading_period" => toString (x.readingPeriod (pInt ps "period" 1) nm idx)
  | "candles_sum" => showRes (x.candlesSum (pInt ps "length" 1) nm idx)
  -- `read_candle(candle, name)`: one of the object's own candles (`idx=`) or a fresh one (`c=ts,o,h,l,c,v`)
  | "read_candle" =>
    match param ps "c" with
    | some csv => match parseCsvCandle csv with
      | some c => showVal (s.readCandle c (param ps "name"))
      | none => "bad-acc"
    | none => showRes (s.readCandleAt (pInt ps "idx" (-1)) (param ps "name"))
  -- `utils.candles.reading_period(candles, period, name, index)` itself (`idx` absent: `index=None`)
  | "reading_period_fn" => toString (readingPeriodOpt s.mgr.candles (pInt ps "period" 1) nm idx)
  -- `indicator.candle_manager.find_indicator(name)`
  | "find" => toString (findIndicator s.mgr.candles nm)
  | "ceq" => candlesEq s.mgr.candles ps
  | _ => "bad-acc"

/-- the caller's encoding of the candles (`enc=candle|dict|list|tlist`, `single=1` for one bare
candle instead of a list of them), decoded by the model's `decodeInput` -/
def decodeEnc (ps : List (String × String)) (cs : List (Candle Float)) : PyM (List (Candle Float)) :=
  let single := param ps "single" == some "1"
  match param ps "enc", cs with
  | some "dict", [c] => if single then decodeInput (.dict (encodeDict c)) else decodeInput (.dicts [encodeDict c])
  | some "dict", [] => decodeInput .empty
  | some "dict", cs => decodeInput (.dicts (cs.map encodeDict))
  | some "list", [c] => if single then decodeInput (.list (encodeList false c)) else decodeInput (.lists [encodeList false c])
  | some "list", [] => decodeInput .empty
  | some "list", cs => decodeInput (.lists (cs.map (encodeList false)))
  | some "tlist", [c] => if single then decodeInput (.list (encodeList true c)) else decodeInput (.lists [encodeList true c])
  | some "tlist", [] => decodeInput .empty
  | some "tlist", cs => decodeInput (.lists (cs.map (encodeList true)))
  -- dicts whose `timestamp` is an ISO-8601 string (`enc=isocandle`: `Candle(…, timestamp="<iso>")` objects – the
  -- constructor has parsed the string before `append` sees them, so they fall under the `Candle` cases below)
  | some "isodict", [c] => if single then decodeInput (.dict (encodeDictIso c)) else decodeInput (.dicts [encodeDictIso c])
  | some "isodict", [] => decodeInput .empty
  | some "isodict", cs => decodeInput (.dicts (cs.map encodeDictIso))
  -- what `append` rejects: a float / a list of strings
  | some "badobj", _ => decodeAny .otherObject
  | some "badlist", _ => decodeAny .listOfOther
  | _, [c] => if single then decodeInput (.candle c) else decodeInput (.candles [c])
  | _, cs => decodeInput (.candles cs)

def hexOp (st : DState) (r : PyM (Hexital Float)) : DState × List String :=
  match r with
  | .ok h => ({ st with hex := some h }, ["ok"])
  | .error e => ({ st with hex := none }, [s!"err {e}"])

def hexSnap (h : Hexital Float) : List String :=
  h.managers.flatMap fun (k, m) => s!"mgr {k} {m.candles.length}" :: m.candles.map showCandle

def parseMember (ps : List (String × String)) : Option (Member Float) := do
  let tree ← parseInd ps
  let tfName := (param ps "tf").map String.toUpper
  let tfSecs ← match tfName with
    | none => some none
    | some t => match parseTimeframe t with
      | .ok v => some (some v)
      | .error _ => none
  some { tree := tree, tfName := tfName, tfSecs := tfSecs }

def step (st : DState) (line : String) : DState × List String :=
  let toks := (line.splitOn " ").filter (· ≠ "")
  match toks with
  | [] => (st, [])
  | "reset" :: _ => ({}, ["reset"])
  | "arith" :: rest => (st, [arith rest])
  | "mgr" :: rest =>
    let (ps, rest) := splitParams rest
    match (param ps "n").bind String.toNat? with
    | none => (st, ["bad-op"])
    | some n =>
      match parseCandles n rest with
      | none => (st, ["bad-op"])
      | some (cs, _) =>
        match (do let cfg ← parseCfg ps; Manager.init cfg cs) with
        | .ok m => ({ st with mgr := some m, mgrTf := (param ps "tf").map String.toUpper }, ["ok"])
        | .error e => ({ st with mgr := none }, [s!"err {e}"])
  | "macc" :: what :: rest =>
    let (ps, _) := splitParams rest
    match st.mgr with
    | some m => (st, [mgrAcc m st.mgrTf what ps])
    | none => (st, ["nomgr"])
  | "util" :: what :: rest =>
    let (ps, _) := splitParams rest
    (st, [utilOp what ps])
  | "mapp" :: rest =>
    let (ps, rest) := splitParams rest
    match st.mgr, (param ps "n").bind String.toNat? with
    | some m, some n =>
      match parseCandles n rest with
      | none => (st, ["bad-op"])
      | some (cs, _) =>
        match (do let cs ← decodeEnc ps cs; m.append cs) with
        | .ok m' => ({ st with mgr := some m' }, ["ok"])
        | .error e => ({ st with mgr := none }, [s!"err {e}"])
    | _, _ => (st, ["bad-op"])
  | "mtag" :: rest =>
    let (ps, _) := splitParams rest
    match st.mgr with
    | some m => match m.tagAt (pInt ps "i" (-1)) with
      | .ok m' => ({ st with mgr := some m' }, ["ok"])
      | .error e => ({ st with mgr := none }, [s!"err {e}"])
    | none => (st, ["bad-op"])
  | "mtasks" :: _ =>
    match st.mgr with
    | some m => match tasks m.cfg m.candles with
      | .ok cs => ({ st with mgr := some { m with candles := cs } }, ["ok"])
      | .error e => ({ st with mgr := none }, [s!"err {e}"])
    | none => (st, ["bad-op"])
  | "ind" :: rest =>
    let (ps, rest) := splitParams rest
    match parseInd ps, (param ps "n").bind String.toNat? with
    | some tree, some n =>
      match parseCandles n rest with
      | none => (st, ["bad-op"])
      | some (cs, _) =>
        match (do let cfg ← parseMgrCfg ps; IndState.init tree cfg cs) with
        | .ok s => ({ st with ind := some s }, [s!"ok name={s.tree.name}"])
        | .error e => ({ st with ind := none }, [s!"err {e}"])
    | _, _ => (st, ["bad-op"])
  | "iapp" :: rest =>
    let (ps, rest) := splitParams rest
    match st.ind, (param ps "n").bind String.toNat? with
    | some s, some n =>
      match parseCandles n rest with
      | none => (st, ["bad-op"])
      | some (cs, _) => indOp st (do let cs ← decodeEnc ps cs; s.append cs)
    | _, _ => (st, ["bad-op"])
  | "icalc" :: _ =>
    match st.ind with
    | some s => indOp st s.calculate
    | none => (st, ["bad-op"])
  | "icidx" :: rest =>
    let (ps, _) := splitParams rest
    match st.ind, (param ps "s").bind String.toInt? with
    | some s, some a => indOp st (s.calculateIndex a ((param ps "e").bind String.toInt?))
    | _, _ => (st, ["bad-op"])
  | "ipurge" :: _ =>
    match st.ind with
    | some s => ({ st with ind := some s.purge }, ["ok"])
    | none => (st, ["bad-op"])
  | "ipurgename" :: rest =>
    let (ps, _) := splitParams rest
    match st.ind, param ps "name" with
    | some s, some n => ({ st with ind := some (s.purgeName n) }, ["ok"])
    | _, _ => (st, ["bad-op"])
  | "irecalc" :: _ =>
    match st.ind with
    | some s => indOp st s.recalculate
    | none => (st, ["bad-op"])
  | "isnap" :: _ =>
    match st.ind with
    | some s => (st, snapLines s.mgr.candles)
    | none => (st, ["noind"])
  | "iacc" :: what :: rest =>
    let (ps, _) := splitParams rest
    match st.ind with
    | some s => (st, [indAcc s what ps])
    | none => (st, ["noind"])
  | "iset" :: rest =>
    let (ps, _) := splitParams rest
    match st.ind, (param ps "idx").bind String.toInt?, param ps "name", (param ps "val").bind parseVal with
    | some s, some i, some nm, some v =>
      match setReading (param ps "sub" == some "1") nm s.mgr.candles i v with
      | .ok cs => ({ st with ind := some { s with mgr := { s.mgr with candles := cs } } }, ["ok"])
      | .error e => (st, [s!"err {e}"])
    | _, _, _, _ => (st, ["bad-op"])
  | "ana" :: rest =>
    let (ps, _) := splitParams rest
    match st.ind, parseAnalysis ps with
    | some s, some a =>
      let idx : Option Int := (param ps "idx").bind String.toInt?
      -- `one=<i>`: positive / negative handed ONE candle (`candles[i]`) instead of the list
      let one : Option (PyM (Candle Float)) := ((param ps "one").bind String.toInt?).map (pyIndex s.mgr.candles)
      let r : PyM (Val Float) := match a, idx with
        | .positive, _ => (match one with
          | some c => do let c ← c; pure (Mov.positiveAny (some c) s.mgr.candles (idx.getD (-1)))
          | none => pure (Mov.positiveAny none s.mgr.candles (idx.getD (-1))))
        | .negative, _ => (match one with
          | some c => do let c ← c; pure (Mov.negativeAny (some c) s.mgr.candles (idx.getD (-1)))
          | none => pure (Mov.negativeAny none s.mgr.candles (idx.getD (-1))))
        | .doji lb, none => Pat.doji s.mgr.candles lb none
        | .dojistar lb, none => Pat.dojistar s.mgr.candles lb none
        | .hammer lb, none => Pat.hammer s.mgr.candles lb none
        | .invHammer lb, none => Pat.invHammer s.mgr.candles lb none
        | a, some i => runAnalysis a s.mgr.candles i
        | a, none => runAnalysis a s.mgr.candles (-1)
      (st, [showRes r])
    | _, _ => (st, ["bad-op"])
  -- `hexital.analysis.utils` called directly on the candles of the indicator object: `autil fn=<python name> [length=<n>]
  -- [idx=<i>] [pct=<num>]` (absent = the function's default / `index=None`); the two-candle predicates: `idx=<i> two=<j>`
  | "autil" :: rest =>
    let (ps, _) := splitParams rest
    match st.ind with
    | none => (st, ["bad-op"])
    | some s =>
      let cs := s.mgr.candles
      let idx : Option Int := (param ps "idx").bind String.toInt?
      let fn := pStr ps "fn" ""
      match AUtils.Fn.ofName fn with
      | some f =>
        match AUtils.Fn.call f cs ((param ps "length").bind String.toInt?) idx ((param ps "pct").bind parseNum) with
        | .ok r => (st, [showNum r])
        | .error e => (st, [s!"aerr {e}"])
      | none =>
        match idx, (param ps "two").bind String.toInt? with
        | some i, some j =>
          match AUtils.gapCall fn cs i j with
          | .ok (some b) => (st, [toString b])
          | .ok none => (st, ["bad-op"])
          | .error e => (st, [s!"aerr {e}"])
        | _, _ => (st, ["bad-op"])
  | "hmember" :: rest =>
    let (ps, _) := splitParams rest
    if param ps "form" == some "bad" then ({ st with pendingBad := true }, ["ok name=-"]) else
    match parseMember ps with
    | some m =>
      let cfg := match Settings.Wire.userDict ps with
        | some d => match Settings.build d with
          | .ok c => [(m.tree.name, c)]
          | .error _ => []
        | none => []
      ({ st with pending := st.pending ++ [m], pendingCfg := st.pendingCfg ++ cfg }, [s!"ok name={m.tree.name}"])
    | none => (st, ["bad-op"])
  | "hnew" :: rest =>
    let (ps, rest) := splitParams rest
    match (param ps "n").bind String.toNat? with
    | none => (st, ["bad-op"])
    | some n =>
      match parseCandles n rest with
      | none => (st, ["bad-op"])
      | some (cs, _) =>
        let members := st.pending
        let hcfg : Settings.HexCfg :=
          { timeframe := (param ps "tf").map String.toUpper, timeframe_fill := param ps "fill" == some "1",
            candles_lifespan := (param ps "life").bind String.toInt?,
            candlestick_type := if param ps "ha" == some "1" then some .ha else none }
        let hm : HexMembers Float := ({ hcfg := hcfg } : HexMembers Float).add st.pendingCfg
        let anyMembers : List (AnyMember Float) := members.map .valid ++ (if st.pendingBad then [.other] else [])
        hexOp { st with pending := [], pendingCfg := [], pendingBad := false, members := hm }
          (do let cfg ← parseMgrCfg ps; Hexital.initAny cfg ((param ps "tf").map String.toUpper) cs anyMembers)
  | "hadd" :: _ =>
    match st.hex with
    | some h =>
      let anyMembers : List (AnyMember Float) := st.pending.map .valid ++ (if st.pendingBad then [.other] else [])
      hexOp { st with pending := [], pendingCfg := [], pendingBad := false, members := st.members.add st.pendingCfg } (h.addIndicatorsAny anyMembers)
    | none => (st, ["bad-op"])
  | "happ" :: rest =>
    let (ps, rest) := splitParams rest
    match st.hex, (param ps "n").bind String.toNat? with
    | some h, some n =>
      match parseCandles n rest with
      | none => (st, ["bad-op"])
      | some (cs, _) => hexOp st (do let cs ← decodeEnc ps cs; h.append cs)
    | _, _ => (st, ["bad-op"])
  | "hcalc" :: rest =>
    let (ps, _) := splitParams rest
    match st.hex with
    | some h => hexOp st (h.calculate (param ps "name"))
    | none => (st, ["bad-op"])
  | "hpurge" :: rest =>
    let (ps, _) := splitParams rest
    match st.hex with
    | some h => hexOp st (h.purge (param ps "name"))
    | none => (st, ["bad-op"])
  | "hrecalc" :: rest =>
    let (ps, _) := splitParams rest
    match st.hex with
    | some h => hexOp st (h.recalculate (param ps "name"))
    | none => (st, ["bad-op"])
  | "hcidx" :: rest =>
    let (ps, _) := splitParams rest
    match st.hex with
    | some h => hexOp st (h.calculateIndex (param ps "name") (pInt ps "idx" (-1)))
    | none => (st, ["bad-op"])
  | "hrem" :: rest =>
    let (ps, _) := splitParams rest
    match st.hex with
    | some h => hexOp { st with members := st.members.remove (param ps "name") } (h.removeIndicator (param ps "name"))
    | none => (st, ["bad-op"])
  | "hsnap" :: _ =>
    match st.hex with
    | some h => (st, hexSnap h)
    | none => (st, ["nohex"])
  | "hacc" :: what :: rest =>
    let (ps, _) := splitParams rest
    match st.hex with
    | none => (st, ["nohex"])
    | some h =>
      let nm := (param ps "name").getD ""
      let out := match what with
        -- `idx=None`: `Hexital.reading(name, index=None)`
        | "reading" => if param ps "idx" == some "None" then showRes (h.readingOpt nm none) else showRes (h.reading nm (pInt ps "idx" (-1)))
        -- `Hexital.indicator(member)` and then one of the object's own accessors (`what=`, with its parameters)
        | "indicator" => match h.indicator (pStr ps "member" "") with
          | .ok s => indAcc s (pStr ps "what" "name") ps
          | .error e => s!"aerr {e}"
        | "indicator_settings" => " | ".intercalate (st.members.indicatorSettings.map Settings.Wire.showSettings)
        | "prev_reading" => showRes (h.prevReading nm)
        | "has_reading" => match h.hasReading nm with
          | .ok b => toString b
          | .error e => s!"aerr {e}"
        | "as_list" => match h.readingAsList nm with
          | .ok l => " ".intercalate (l.map showVal)
          | .error e => s!"aerr {e}"
        | "names" => " ".intercalate (h.indicators.map (·.1))
        -- `Hexital.timeframes`: {str(manager.timeframe)} – the default manager shows the Hexital's own timeframe (or None)
        | "timeframes" =>
          let names := h.managers.map fun (k, _) => if k == defaultKey then h.tfName.getD "None" else k
          " ".intercalate (names.mergeSort (fun a b => decide (a ≤ b))).eraseDups
        -- `Hexital.get_candles()`: manager keys in insertion order with the number of candles each holds
        | "getcandles" => " ".intercalate (h.managers.map fun (k, m) => s!"{k}:{m.candles.length}")
        | _ => "bad-acc"
      if what == "candles" then
        -- `Hexital.candles(timeframe)`: that manager's candles if it exists, else the default manager's
        let key := (param ps "tf").getD ""
        let m := match dlookup key h.managers with
          | some m => some m
          | none => dlookup defaultKey h.managers
        match m with
        | some m => (st, snapLines m.candles)
        | none => (st, ["aerr keyError"])
      else
      (st, [out])
  | "settings" :: rest =>
    let (ps, _) := splitParams rest
    (st, Hex.Settings.Wire.settingsOp ps)
  | "msnap" :: _ =>
    match st.mgr with
    | some m => (st, snapLines m.candles)
    | none => (st, ["nomgr"])
  | _ => (st, ["bad-op"])

partial def loop (h : IO.FS.Stream) (out : IO.FS.Stream) (st : DState) : IO Unit := do
  let line ← h.getLine
  if line.isEmpty then return ()
  let (st', outs) := step st (line.trimAscii.toString)
  for o in outs do out.putStrLn o
  loop h out st'

end Hex.Driver

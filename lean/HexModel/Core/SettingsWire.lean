import HexModel.Core.Settings
import HexModel.Parse
/-
Driver side of the `settings` operation: protocol tokens → the configuration dict a user would write
(`hx/specs.py: as_config_dict`), canonical printing of settings dicts, and the operation itself.
-/
namespace Hex.Settings.Wire
open Hex Hex.Wire Hex.Parse Hex.Settings

partial def showSVal : SVal Float → String
  | .none => "n"
  | .bool b => if b then "b:1" else "b:0"
  | .int i => s!"i:{i}"
  | .float x => s!"f:{x.toBits.toNat}"
  | .str s => s!"s:{s}"
  | .td t => s!"td:{t}"
  | .cs t => s!"o:{t.minimalName}"
  | .fn f => s!"fn:{f.name}"
  | .dict kvs => "{" ++ ";".intercalate ((sortKV kvs).map fun (k, v) => s!"{k}={showSVal v}") ++ "}"

def showSettings (d : SDict Float) : String :=
  ";".intercalate ((sortKV d).map fun (k, v) => s!"{k}={showSVal v}")

/-- `specs.params_to_spec.conv`: typed by the look of the token -/
def convTok (s : String) : SVal Float :=
  if s = "b:1" then .bool true else if s = "b:0" then .bool false
  else match parseNum s with
    | some (.int i) => .int i
    | some (.flt x) => .float x
    | none => match s.toInt? with
      | some i => .int i
      | none => .str s

/-- kind → (first `INDICATOR_MAP` key of its class, [(spec key, python keyword)]) as in `hx/specs.py: KINDS` -/
def kindTable : List (String × String × List (String × String)) :=
  let pi := [("period", "period"), ("input", "input_value")]
  let pim := pi ++ [("multiplier", "multiplier")]
  [("SMA", "SMA", pi), ("EMA", "EMA", pi ++ [("smoothing", "smoothing")]), ("RMA", "RMA", pi), ("WMA", "WMA", pi),
   ("VWMA", "VWMA", [("period", "period")]), ("HMA", "HMA", pi), ("TR", "TR", []), ("ATR", "ATR", [("period", "period")]),
   ("STDEV", "STDEV", pi), ("BBANDS", "BBANDS", pi), ("KC", "KC", pim),
   ("DONCHIAN", "donchian", [("period", "period")]), ("HL", "HL", [("period", "period")]), ("HLA", "HLA", []),
   ("SUPERTREND", "Supertrend", pim), ("STDEVTHRES", "STDEVTHRES", pim),
   ("COUNTER", "Counter", [("input", "input_value"), ("cv", "count_value")]), ("RSI", "RSI", pi),
   ("MACD", "MACD", [("fast", "fast_period"), ("slow", "slow_period"), ("signal", "signal_period"), ("input", "input_value")]),
   ("ROC", "ROC", pi),
   ("STOCH", "STOCH", [("period", "period"), ("slow", "slow_period"), ("smoothk", "smoothing_k"), ("input", "input_value")]),
   ("TSI", "TSI", [("period", "period"), ("smooth", "smooth_period"), ("input", "input_value")]),
   ("AROON", "aroon", [("period", "period")]), ("ADX", "ADX", [("period", "period"), ("signal", "period_signal")]),
   ("OBV", "OBV", []), ("VWAP", "VWAP", [("period", "period")])]

/-- analysis function → its spec keys (`hx/specs.py: ANALYSIS`) -/
def analysisTable : List (String × List String) :=
  let il := ["ind", "length"]; let abl := ["a", "b", "length"]
  [("positive", []), ("negative", []), ("above", ["a", "b"]), ("below", ["a", "b"]),
   ("value_range", il), ("rising", il), ("falling", il), ("mean_rising", il), ("mean_falling", il),
   ("highest", il), ("lowest", il), ("highestbar", il), ("lowestbar", il),
   ("cross", abl), ("crossover", abl), ("crossunder", abl),
   ("doji", ["lookback"]), ("dojistar", ["lookback"]), ("hammer", ["lookback"]), ("inv_hammer", ["lookback"])]

def analysisKw (k : String) : String :=
  if k = "ind" then "indicator" else if k = "a" then "indicator_one" else if k = "b" then "indicator_two" else k

/-- the function object named by a protocol token -/
def fnOfToken (s : String) : Option AnaFn :=
  if s = "above" then some .above else if s = "below" then some .below else AnaFn.ofMapKey s

/-- `specs.indicator_kwargs(spec, with_manager=True)` -/
def baseKwargs (ps : List (String × String)) : SDict Float :=
  [("round_value", .int (((param ps "round").bind String.toInt?).getD 4))]
  ++ (match param ps "name" with | some s => [("fullname_override", .str s)] | none => [])
  ++ (match param ps "suffix" with | some s => [("name_suffix", .str s)] | none => [])
  ++ (match param ps "tf" with | some s => [("timeframe", .str s)] | none => [])
  ++ [("timeframe_fill", .bool (param ps "fill" == some "1"))]
  -- (`cs=<name>` next to `ha=1`: that candlestick type name instead of "HA")
  ++ (if param ps "ha" == some "1" then [("candlestick_type", .str (pStr ps "cs" "HA"))] else [])
  ++ (match (param ps "life").bind String.toInt? with | some t => [("candles_lifespan", .td t)] | none => [])

/-- the configuration dict described by the tokens: `specs.as_config_dict`, then the test switches
`key=` (another "indicator" / "analysis" string), `callable=1` (the analysis function object instead of its
name), `amorphkey=1` (`{"indicator": "Amorph", "analysis": <callable>}`), `nokey=1` (neither key) and
`xkw=` (one more keyword, value `1`) -/
def userDict (ps : List (String × String)) : Option (SDict Float) := do
  let kind ← param ps "kind"
  let xkw : SDict Float := match param ps "xkw" with | some k => [(k, .int 1)] | none => []
  let nokey := param ps "nokey" == some "1"
  if kind = "AMORPH" then
    let fnTok ← param ps "fn"
    let keys ← dlookup fnTok analysisTable
    let args : SDict Float := keys.filterMap fun k =>
      if k = "length" && param ps "lengiven" == some "0" then none
      else (param ps k).map fun v => (analysisKw k, convTok v)
    let head : SDict Float ←
      if nokey then some []
      else if param ps "callable" == some "1" || param ps "amorphkey" == some "1" then do
        let f ← fnOfToken fnTok
        some ((if param ps "amorphkey" == some "1" then [("indicator", SVal.str "Amorph")] else []) ++ [("analysis", SVal.fn f)])
      else some [("analysis", .str ((param ps "key").getD fnTok))]
    some (head ++ [("args", .dict args)] ++ baseKwargs ps ++ xkw)
  else
    let (mapKey, fields) ← dlookup kind kindTable
    let kw : SDict Float := fields.filterMap fun (k, py) =>
      match param ps k with
      | none => none
      | some v => if k = "cv" && v = "n" then none else some (py, convTok v)
    let head : SDict Float := if nokey then [] else [("indicator", .str ((param ps "key").getD mapKey))]
    some (head ++ kw ++ baseKwargs ps ++ xkw)

def hexCfgOf (ps : List (String × String)) : PyM HexCfg := do
  let tf ← match param ps "htf" with
    | none => pure none
    | some s => do let u ← validateTimeframe s; pure (some u)
  return { timeframe := tf, timeframe_fill := param ps "hfill" == some "1",
           candles_lifespan := (param ps "hlife").bind String.toInt?,
           candlestick_type := if param ps "hha" == some "1" then some .ha else none }

def sameMgr (a b : PyM MgrCfg) : Bool :=
  match a, b with
  | .ok x, .ok y => x == y
  | .error e, .error f => e == f
  | _, _ => false

/-- the `settings` operation: the object built from the user's dict, its settings (`S`), the object rebuilt
from them (`B`), the same as a member of a Hexital (`H`), both names (`N`), whether the rebuilt object is the original (`R`), and a model-internal check
that `IndCfg.toInd / mgrCfg` agree with `Parse.parseInd / parseMgrCfg` on the same tokens (`T`) -/
def settingsOp (ps : List (String × String)) : List String :=
  match userDict ps with
  | none => ["bad-op"]
  | some d =>
    match build d with
    | .error e => [s!"S err:{e}"]
    | .ok c =>
      let ms := pStr ps "mulstr" ""
      let sLine := s!"S {showSettings c.settings}"
      let rb := build c.settings
      let bLine := match rb with
        | .ok c2 => s!"B ok {showSettings c2.settings}"
        | .error e => s!"B err:{e}"
      let hLine := match (do let h ← hexCfgOf ps; let c2 ← rb; pure (c2.adopt h)) with
        | .ok c3 => s!"H ok {showSettings c3.settings}"
        | .error e => s!"H err:{e}"
      let nLine := match rb with
        | .ok c2 => s!"N {(c.toInd ms).name} {(c2.toInd ms).name}"
        | .error _ => s!"N {(c.toInd ms).name} -"
      let rLine := match rb with
        | .ok c2 => if reprStr c2 == reprStr c then "R eq" else "R ne"
        | .error _ => "R -"
      -- `Parse.parseNameCfg` takes an empty override literally and `Parse.parseAnalysis` names the arguments of
      -- above / below differently: no comparison there
      let plain := (param ps "key").isNone && (param ps "xkw").isNone && (param ps "amorphkey").isNone
        && param ps "name" != some "" && param ps "fn" != some "above" && param ps "fn" != some "below"
      let tLine :=
        if !plain then "T ok" else
        match parseInd ps with
        | none => "T bad:parse"
        | some t =>
          if reprStr t != reprStr (c.toInd ms) then "T bad:tree"
          else if !sameMgr (parseMgrCfg ps) c.mgrCfg then "T bad:mgr"
          else "T ok"
      [sLine, bLine, hLine, nLine, rLine, tLine]

end Hex.Settings.Wire

import HexModel.Core.Eval
/-
A standalone `Indicator` object: its tree, its candle manager and its `_active_index`.
-/
namespace Hex
variable {F : Type} [PyF F]

/-! ### names (`_generate_name` / `_internal_generate_name`) -/

def Analysis.fnName : Analysis → String
  | .positive => "positive" | .negative => "negative"
  | .above .. => "above" | .below .. => "below"
  | .valueRange .. => "value_range" | .rising .. => "rising" | .falling .. => "falling"
  | .meanRising .. => "mean_rising" | .meanFalling .. => "mean_falling"
  | .highest .. => "highest" | .lowest .. => "lowest"
  | .highestbar .. => "highestbar" | .lowestbar .. => "lowestbar"
  | .cross .. => "cross" | .crossover .. => "crossover" | .crossunder .. => "crossunder"
  | .doji _ => "doji" | .dojistar _ => "dojistar" | .hammer _ => "hammer" | .invHammer _ => "inverted_hammer"

/-- the `length` keyword argument, if the function has one -/
def Analysis.length? : Analysis → Option Int
  | .valueRange _ n | .rising _ n | .falling _ n | .meanRising _ n | .meanFalling _ n
  | .highest _ n | .lowest _ n | .highestbar _ n | .lowestbar _ n => some n
  | .cross _ _ n | .crossover _ _ n | .crossunder _ _ n => some n
  | _ => none

/-- `_generate_name()`; `mulStr` is `str(multiplier)` (float formatting is not modelled) and
`lengthGiven` tells whether `length` was passed to an Amorph explicitly -/
def Kind.baseName (k : Kind F) (mulStr : String) (lengthGiven : Bool) : String :=
  match k with
  | .sma p _ => s!"SMA_{p}" | .ema p _ _ => s!"EMA_{p}" | .rma p _ => s!"RMA_{p}"
  | .wma p _ => s!"WMA_{p}" | .vwma p => s!"VWMA_{p}" | .hma p _ => s!"HMA_{p}"
  | .tr => "TR" | .atr p => s!"ATR_{p}" | .stdev p _ => s!"STDEV_{p}"
  | .bbands p _ => s!"BBANDS_{p}" | .kc p _ _ => s!"KC_{p}_{mulStr}"
  | .donchian p => s!"DONCHIAN_{p}" | .hl p => s!"HL_{p}" | .hla => "HLA"
  | .supertrend p _ _ => s!"Supertrend_{p}" | .stdevthres p _ _ => s!"STDEVTHRES_{p}"
  | .counter input _ => "COUNT_" ++ (splitDot input).headD ""
  | .rsi p _ => s!"RSI_{p}" | .macd f s g _ => s!"MACD_{f}_{s}_{g}" | .roc _ _ => "ROC"
  | .stoch p _ _ _ => s!"STOCH_{p}" | .tsi p _ _ => s!"TSI_{p}_{p / 2}"
  | .aroon p => s!"AROON_{p}" | .adx p s => s!"ADX_{p}_{s}" | .obv => "OBV" | .vwap p => s!"VWAP_{p}"
  | .amorph a =>
    match a.length? with
    | some n => if lengthGiven && n != 0 then s!"{a.fnName}_{n}" else a.fnName
    | none => a.fnName
  | .managed => "MAN"

structure NameCfg where
  override : Option String := none
  suffix : Option String := none
  tfName : Option String := none      -- the upper-cased timeframe string
  mulStr : String := ""
  lengthGiven : Bool := false
  deriving Repr, Inhabited

/-- `_internal_generate_name` -/
def fullName (k : Kind F) (n : NameCfg) : String :=
  let base := match n.override with
    | some o => o
    | none =>
      let b := k.baseName n.mulStr n.lengthGiven
      match n.tfName with
      | some t => b ++ "_" ++ t
      | none => b
  let withSuffix := match n.suffix with
    | some s => if s.isEmpty then base else base ++ "_" ++ s
    | none => base
  withSuffix.replace "." ","

/-! ### the object -/

structure IndState (F : Type) where
  tree : Ind F
  mgr : Manager F
  active : Int := 0
  deriving Inhabited

/-- `Indicator.calculate()` on the object: returns the new candles and `_active_index` -/
def IndState.calculate (s : IndState F) : PyM (IndState F) := do
  let cs := s.mgr.candles
  let fuel := fuelFor cs
  let cs1 ← calcSubs fuel s.tree.subs true none cs
  let k := findCalcIndex s.tree.name cs1
  let cs2 ← calcLoop fuel s.tree cs1 k (cs1.length - k)
  let cs3 ← calcSubs fuel s.tree.subs false none cs2
  let active := if k < cs1.length then (cs1.length : Int) - 1 else s.active
  return { s with mgr := { s.mgr with candles := cs3 }, active := active }

def IndState.init (tree : Ind F) (cfg : MgrCfg) (cs : List (Candle F)) : PyM (IndState F) := do
  let m ← Manager.init cfg cs
  return { tree := tree, mgr := m }

/-- `Indicator.append(candles)` -/
def IndState.append (s : IndState F) (new : List (Candle F)) : PyM (IndState F) := do
  let m ← s.mgr.append new
  ({ s with mgr := m } : IndState F).calculate

/-- `Indicator.calculate_index(start, end)` with negative indices normalised against the length -/
def IndState.calculateIndex (s : IndState F) (start : Int) (end_ : Option Int) : PyM (IndState F) := do
  let n : Int := s.mgr.candles.length
  let st := if start < 0 then start + n else start
  let en0 : Option Int := end_.map fun e => if e < 0 then e + n else e
  let en : Int := match en0 with
    | some e => if e != 0 then e else st + 1
    | none => st + 1
  let cs ← Hex.calculateIndex (fuelFor s.mgr.candles) s.tree s.mgr.candles st en
  let active := if st < en then en - 1 else s.active
  return { s with mgr := { s.mgr with candles := cs }, active := active }

/-- `Indicator.purge()` -/
def IndState.purge (s : IndState F) : IndState F :=
  { s with mgr := { s.mgr with candles := purgeNames s.tree.allNames s.mgr.candles } }

def IndState.recalculate (s : IndState F) : PyM (IndState F) := s.purge.calculate

/-! ### read accessors of the object -/

def IndState.ctx (s : IndState F) : Ctx F := { cs := s.mgr.candles, i := s.active, name := s.tree.name }

def IndState.hasReading (s : IndState F) : PyM Bool :=
  if s.mgr.candles.isEmpty then .ok false else do
    return !(← s.ctx.reading s.tree.name (some s.active)).isNone

def IndState.asList (s : IndState F) (name : Option String) : List (Val F) :=
  s.mgr.candles.map fun c => readingByCandle c (name.getD s.tree.name)

end Hex

import HexModel.Ind.Composite
import HexModel.Analysis.Movement
import HexModel.Analysis.Patterns
/-
Tree construction (`_initialise`) and the calculation engine (`calculate`, `calculate_index`,
`Managed.set_reading`, `purge`) as fuel-indexed mutual recursion over the static tree.
-/
namespace Hex
variable {F : Type} [PyF F]

/-! ### `_initialise`: the helper tree of every kind -/

/-- default `round_value` of helper indicators created inside `_initialise` -/
def defaultRound : Nat := 4

def leaf (k : Kind F) (name : String) (prior : Bool := true) : Ind F :=
  .mk k name defaultRound true prior [] []

/-- ATR helper with its own TR helper -/
def atrNode (period : Int) (name : String) : Ind F :=
  .mk (.atr period) name defaultRound true true [leaf .tr (name ++ "_TR")] []

def stdevNode (period : Int) (input name : String) : Ind F :=
  .mk (.stdev period input) name defaultRound true true [] [("STDEV_data", leaf .managed (name ++ "_data"))]

/-- int(math.sqrt(n)) -/
def isqrt (n : Int) : Int := Nat.sqrt n.toNat

/-- sub- and managed indicators of a kind named `name` (what `_initialise` builds) -/
def children (k : Kind F) (name : String) : List (Ind F) × List (String × Ind F) :=
  match k with
  | .atr _ => ([leaf .tr (name ++ "_TR")], [])
  | .stdev _ _ => ([], [("STDEV_data", leaf .managed (name ++ "_data"))])
  | .bbands p input => ([stdevNode p input (name ++ "_STDEV"), leaf (.sma p input) (name ++ "_SMA")], [])
  | .kc p input _ => ([atrNode p (name ++ "_ATR"), leaf (.ema p input (fl 2)) (name ++ "_EMA")], [])
  | .supertrend p _ _ =>
    ([atrNode p (name ++ "_atr"), leaf .hla (name ++ "_HL")], [("ST_data", leaf .managed (name ++ "_data"))])
  | .stdevthres p input _ => ([stdevNode p input (name ++ "_stdev")], [])
  | .rsi _ _ => ([], [("RSI_data", leaf .managed (name ++ "_data"))])
  | .macd fast slow signal input =>
    ([leaf (.ema fast input (fl 2)) (name ++ "_EMA_fast"), leaf (.ema slow input (fl 2)) (name ++ "_EMA_slow")],
     [("signal", leaf (.ema signal (name ++ ".MACD") (fl 2)) (name ++ "_signal_line"))])
  | .stoch _ slow smoothK _ =>
    ([], [("STOCH_data", .mk .managed (name ++ "_data") defaultRound true true
            [leaf (.sma smoothK (name ++ "_data.stoch")) (name ++ "_k") false] []),
          ("STOCH_d", leaf (.sma slow (name ++ "_data.k")) (name ++ "_d"))])
  | .tsi p smooth _ =>
    ([], [("TSI_data", .mk .managed (name ++ "_data") defaultRound true true
      [ .mk (.ema p (name ++ "_data.price") (fl 2)) (name ++ "_first") defaultRound true false
          [leaf (.ema smooth (name ++ "_first") (fl 2)) (name ++ "_second") false] [],
        .mk (.ema p (name ++ "_data.abs_price") (fl 2)) (name ++ "_abs_first") defaultRound true false
          [leaf (.ema smooth (name ++ "_abs_first") (fl 2)) (name ++ "_abs_second") false] [] ] [])])
  | .adx p signal =>
    ([atrNode p (name ++ "_atr")],
     [("ADX_data", .mk .managed (name ++ "_data") defaultRound true true
        [leaf (.rma p (name ++ "_data.pos")) (name ++ "_pos") false,
         leaf (.rma p (name ++ "_data.neg")) (name ++ "_neg") false] []),
      ("dx", leaf (.rma signal (name ++ "_data.dx")) (name ++ "_dx"))])
  | .vwap _ => ([], [("VWAP_data", leaf .managed (name ++ "_data"))])
  | .hma p input =>
    ([leaf (.wma p input) (name ++ "_WMA"), leaf (.wma (p / 2) input) (name ++ "_WMAh")],
     [("raw_HMA", .mk .managed (name ++ "_HMAr") defaultRound true true
        [leaf (.wma (isqrt p) (name ++ "_HMAr")) (name ++ "_HMAs") false] [])])
  | _ => ([], [])

/-- a top-level indicator -/
def mkTop (k : Kind F) (name : String) (round : Nat) : Ind F :=
  let (subs, managed) := children k name
  .mk k name round false true subs managed

/-! ### `_find_calc_index` -/

def hasKey (name : String) (c : Candle F) : Bool := dhas name c.inds || dhas name c.subs

/-- scan `range(len-1, -1, -1)` for the newest candle holding the key -/
def scanBack (name : String) (cs : List (Candle F)) : Nat → Nat
  | 0 => match cs[0]? with
    | some c => if hasKey name c then 1 else 0
    | none => 0
  | j+1 => match cs[j+1]? with
    | some c => if hasKey name c then j + 2 else scanBack name cs j
    | none => scanBack name cs j

def findCalcIndex (name : String) (cs : List (Candle F)) : Nat :=
  match cs with
  | [] => 0
  | c0 :: _ => if !hasKey name c0 then 0 else scanBack name cs (cs.length - 1)

/-! ### analysis dispatch (`Amorph`) -/

def runAnalysis (a : Analysis) (cs : List (Candle F)) (i : Int) : PyM (Val F) :=
  match a with
  | .positive => .ok (Mov.positive cs i)
  | .negative => .ok (Mov.negative cs i)
  | .above x y => Mov.above cs x y i
  | .below x y => Mov.below cs x y i
  | .valueRange ind n => Mov.valueRange cs ind n i
  | .rising ind n => Mov.rising cs ind n i
  | .falling ind n => Mov.falling cs ind n i
  | .meanRising ind n => Mov.meanRising cs ind n i
  | .meanFalling ind n => Mov.meanFalling cs ind n i
  | .highest ind n => Mov.highest cs ind n i
  | .lowest ind n => Mov.lowest cs ind n i
  | .highestbar ind n => Mov.highestbar cs ind n i
  | .lowestbar ind n => Mov.lowestbar cs ind n i
  | .cross x y n => Mov.cross cs x y n i
  | .crossover x y n => Mov.crossover cs x y n i
  | .crossunder x y n => Mov.crossunder cs x y n i
  | .doji lb => Pat.doji cs lb (some i)
  | .dojistar lb => Pat.dojistar cs lb (some i)
  | .hammer lb => Pat.hammer cs lb (some i)
  | .invHammer lb => Pat.invHammer cs lb (some i)

/-! ### the engine -/

/-- `_calculate_reading` dispatch; `ops` gives access to the managed helpers -/
def calcKind (ops : Ops F) (ind : Ind F) (x : Ctx F) : PyM (Val F × List (Candle F)) :=
  let pure' (r : PyM (Val F)) : PyM (Val F × List (Candle F)) := do let v ← r; return (v, x.cs)
  match ind.kind with
  | .sma p input => pure' (Calc.sma x p input)
  | .ema p input s => pure' (Calc.ema x p input s)
  | .rma p input => pure' (Calc.rma x p input)
  | .wma p input => pure' (Calc.wma x p input)
  | .vwma p => pure' (Calc.vwma x p)
  | .hma _ _ => Calc.hma ops x
  | .tr => pure' (Calc.tr x)
  | .atr p => pure' (Calc.atr x p (x.name ++ "_TR"))
  | .stdev p input => Calc.stdev ops x p input
  | .bbands _ _ => pure' (Calc.bbands x (x.name ++ "_SMA") (x.name ++ "_STDEV"))
  | .kc _ _ m => pure' (Calc.kc x m)
  | .donchian p => pure' (Calc.donchian x p)
  | .hl p => pure' (Calc.hl x p)
  | .hla => pure' (Calc.hla x)
  | .supertrend _ _ m => Calc.supertrend ops x m
  | .stdevthres _ input m => pure' (Calc.stdevthres x input m)
  | .counter input cv => pure' (Calc.counter x input cv)
  | .rsi p input => Calc.rsi ops x p input
  | .macd _ _ _ _ => Calc.macd ops x
  | .roc p input => pure' (Calc.roc x p input)
  | .stoch p _ _ input => Calc.stoch ops x p input
  | .tsi _ _ input => Calc.tsi ops x input
  | .aroon p => pure' (Calc.aroon x p)
  | .adx _ _ => Calc.adx ops x
  | .obv => pure' (Calc.obv x)
  | .vwap _ => Calc.vwap ops x
  | .amorph a => pure' (runAnalysis a x.cs x.i)
  | .managed => .ok (.none, x.cs)       -- `Indicator._calculate_reading`: `pass`

mutual
  /-- `Indicator.calculate()` -/
  def calculate : Nat → Ind F → List (Candle F) → PyM (List (Candle F))
    | 0, _, _ => .error .fuel
    | f+1, ind, cs => do
      let cs ← calcSubs f ind.subs true none cs
      let cs ← calcLoop f ind cs (findCalcIndex ind.name cs) (cs.length - findCalcIndex ind.name cs)
      calcSubs f ind.subs false none cs

  /-- the `for index in range(start, len)` loop of `calculate` with its skip test -/
  def calcLoop : Nat → Ind F → List (Candle F) → Nat → Nat → PyM (List (Candle F))
    | 0, _, _, _, _ => .error .fuel
    | _, _, cs, _, 0 => .ok cs
    | f+1, ind, cs, k, n+1 => do
      let c ← pyIndex cs k
      let present := match dlookup ind.name c.inds with
        | some v => !v.isNone
        | none => false
      let cs ← if present then pure cs else do
        let (v, cs) ← calcReading f ind cs k
        setReading ind.isSub ind.name cs k (v.roundBy ind.round)
      calcLoop f ind cs (k + 1) n

  /-- `Indicator.calculate_index(start, end)` (indices already normalised, `start < end`) -/
  def calculateIndex : Nat → Ind F → List (Candle F) → Int → Int → PyM (List (Candle F))
    | 0, _, _, _, _ => .error .fuel
    | f+1, ind, cs, s, e => do
      let cs ← calcSubs f ind.subs true (some (s, e)) cs
      let cs ← (pyRange s e).foldlM (fun cs i => do
        let (v, cs) ← calcReading f ind cs i
        setReading ind.isSub ind.name cs i (v.roundBy ind.round)) cs
      calcSubs f ind.subs false (some (s, e)) cs

  /-- `_calculate_sub_indicators(prior_calc, start, end)` -/
  def calcSubs : Nat → List (Ind F) → Bool → Option (Int × Int) → List (Candle F) → PyM (List (Candle F))
    | 0, _, _, _, _ => .error .fuel
    | _, [], _, _, cs => .ok cs
    | f+1, s :: rest, prior, range, cs => do
      let cs ← if s.priorCalc == prior then
          match range with
          | some (a, b) =>
            -- `if start_index and end_index:` – an index of 0 is falsy and falls back to calculate()
            if a != 0 && b != 0 then calculateIndex f s cs a b else calculate f s cs
          | none => calculate f s cs
        else pure cs
      calcSubs f rest prior range cs

  /-- `_calculate_reading(index)` with `_active_index = index` -/
  def calcReading : Nat → Ind F → List (Candle F) → Int → PyM (Val F × List (Candle F))
    | 0, _, _, _ => .error .fuel
    | f+1, ind, cs, i =>
      let ops : Ops F :=
        { setManaged := fun key v cs => do
            let m ← ind.getManaged key
            setManagedReading f m cs i v
          calcManaged := fun key cs => do
            let m ← ind.getManaged key
            calculateIndex f m cs i (i + 1) }
      calcKind ops ind { cs := cs, i := i, name := ind.name }

  /-- `Managed.set_reading(reading)` at the active index -/
  def setManagedReading : Nat → Ind F → List (Candle F) → Int → Val F → PyM (List (Candle F))
    | 0, _, _, _, _ => .error .fuel
    | f+1, m, cs, i, v => do
      let cs ← calcSubs f m.subs true (some (i, i + 1)) cs
      let cs ← setReading m.isSub m.name cs i v
      calcSubs f m.subs false (some (i, i + 1)) cs
end

/-- enough fuel for every shipped tree (depth ≤ 5) on any list -/
def fuelFor (cs : List (Candle F)) : Nat := 16 + 2 * cs.length

/-! ### `purge`: every name written by the tree -/

mutual
  def Ind.allNames : Ind F → List String
    | .mk _ n _ _ _ subs managed => n :: (Ind.allNamesL subs ++ Ind.allNamesM managed)
  def Ind.allNamesL : List (Ind F) → List String
    | [] => []
    | s :: r => s.allNames ++ Ind.allNamesL r
  def Ind.allNamesM : List (String × Ind F) → List String
    | [] => []
    | (_, m) :: r => m.allNames ++ Ind.allNamesM r
end

def purgeNames (names : List String) (cs : List (Candle F)) : List (Candle F) :=
  cs.map fun c => { c with inds := names.foldl (fun d n => derase n d) c.inds,
                           subs := names.foldl (fun d n => derase n d) c.subs }

end Hex

import HexModel.Core.Indicator
/-
`hexital.core.hexital.Hexital`: managers by timeframe, indicators by name.
Dicts are insertion-ordered association lists; the first manager is always "default".
-/
namespace Hex
variable {F : Type} [PyF F]

/-- an indicator registered in a Hexital: its tree, the key of the manager it is attached to,
and its `_active_index` -/
structure HxInd (F : Type) where
  tree : Ind F
  mgrKey : String
  active : Int := 0
  deriving Inhabited

/-- what `_validate_indicators` needs to know about a new member -/
structure Member (F : Type) where
  tree : Ind F
  tfName : Option String      -- the member's own timeframe (upper-cased), if any
  tfSecs : Option Int
  deriving Inhabited

structure Hexital (F : Type) where
  cfg : MgrCfg                               -- Hexital-level timeframe / fill / HA / lifespan
  tfName : Option String := none             -- the Hexital-level timeframe as written (upper-cased)
  managers : List (String × Manager F)
  indicators : List (String × HxInd F)
  deriving Inhabited

def defaultKey : String := "default"

namespace Hexital

def manager (h : Hexital F) (key : String) : PyM (Manager F) :=
  match dlookup key h.managers with
  | some m => .ok m
  | none => .error .keyError

def setManager (h : Hexital F) (key : String) (m : Manager F) : Hexital F :=
  { h with managers := dset key m h.managers }

/-- `CandleManager.name` of the default manager -/
def defaultManagerName (h : Hexital F) (tfName : Option String) : String := tfName.getD defaultKey

/-- the candles a NEW member manager is built from (`_validate_indicators`).  `src = some cs`: called from the
constructor with the candles AS GIVEN to it (`source_candles`, a deep copy taken before the default manager
collapses / converts / trims them); `src = none`: called from `add_indicator` – a deep copy of the default
manager's candles, handed over RAW (`recover_clean_values`, `clean_values = {}`, `reset_candle`: every manager
converts its own) when the member's timeframe differs from the default manager's own -/
def attachRaw (src : Option (List (Candle F))) (h : Hexital F) (m : Member F) : PyM (List (Candle F)) :=
  match src with
  | some cs => pure cs
  | none => do
    let dm ← h.manager defaultKey
    pure (if m.tfName == h.tfName then dm.candles
          else dm.candles.map fun c => ({ c.recoverClean with clean := none } : Candle F).reset)

/-- attach one member (`_validate_indicators`, second loop); `src = some cs`: from the constructor with
`source_candles`, `src = none`: from `add_indicator` -/
def attachFrom (src : Option (List (Candle F))) (h : Hexital F) (m : Member F) : PyM (Hexital F) :=
  match m.tfName with
  | none => .ok { h with indicators := dset m.tree.name { tree := m.tree, mgrKey := defaultKey } h.indicators }
  | some tf =>
    if dhas tf h.managers then
      .ok { h with indicators := dset m.tree.name { tree := m.tree, mgrKey := tf } h.indicators }
    else do
      let cfg : MgrCfg := { h.cfg with tf := m.tfSecs }
      let raw ← attachRaw src h m
      let nm ← Manager.init cfg raw
      return { h with managers := dset tf nm h.managers,
                      indicators := dset m.tree.name { tree := m.tree, mgrKey := tf } h.indicators }

/-- `add_indicator` path of `_validate_indicators` (no `source_candles`) -/
def attach (h : Hexital F) (m : Member F) : PyM (Hexital F) := attachFrom none h m

/-- `valid_indicators[name] = indicator`: one entry per name, first position, last value -/
def dedupe (members : List (Member F)) : List (Member F) :=
  (members.foldl (fun acc m => dset m.tree.name m acc) ([] : List (String × Member F))).map (·.2)

def init (cfg : MgrCfg) (tfName : Option String) (cs : List (Candle F)) (members : List (Member F)) :
    PyM (Hexital F) := do
  let dm ← Manager.init cfg cs
  let h : Hexital F := { cfg := cfg, tfName := tfName, managers := [(defaultKey, dm)], indicators := [] }
  -- members with their own timeframe are built from the candles as given (`source_candles`)
  (dedupe members).foldlM (attachFrom (some cs)) h

/-- `add_indicator` (no calculation) -/
def addIndicators (h : Hexital F) (members : List (Member F)) : PyM (Hexital F) :=
  (dedupe members).foldlM attach h

/-- run `f` on one registered indicator as a standalone object over its manager -/
def withInd (h : Hexital F) (name : String) (f : IndState F → PyM (IndState F)) : PyM (Hexital F) :=
  match dlookup name h.indicators with
  | none => .error .keyError
  | some hi => do
    let m ← h.manager hi.mgrKey
    let s ← f { tree := hi.tree, mgr := m, active := hi.active }
    return { (h.setManager hi.mgrKey s.mgr) with
             indicators := dset name { hi with active := s.active } h.indicators }

/-- apply to every indicator (in registration order) whose name satisfies `sel` -/
def forEach (h : Hexital F) (sel : String → Bool) (f : IndState F → PyM (IndState F)) : PyM (Hexital F) :=
  (h.indicators.map (·.1)).foldlM (fun h n => if sel n then h.withInd n f else pure h) h

/-- `Hexital.calculate(name)` -/
def calculate (h : Hexital F) (name : Option String) : PyM (Hexital F) :=
  h.forEach (fun n => name.isNone || name == some n) IndState.calculate

/-- `Hexital.purge(name)` (exact name match) -/
def purge (h : Hexital F) (name : Option String) : PyM (Hexital F) :=
  h.forEach (fun n => name.isNone || name == some n) fun s => pure s.purge

def recalculate (h : Hexital F) (name : Option String) : PyM (Hexital F) := do
  (← h.purge name).calculate name

/-- `Hexital.calculate_index(name, index)` -/
def calculateIndex (h : Hexital F) (name : Option String) (index : Int) : PyM (Hexital F) :=
  h.forEach (fun n => name.isNone || name == some n) fun s => s.calculateIndex index none

/-- `remove_indicator(name)` -/
def removeIndicator (h : Hexital F) (name : Option String) : PyM (Hexital F) := do
  let h ← h.purge name
  match name with
  | some n => return { h with indicators := derase n h.indicators }
  | none => return h

/-- `Hexital.append(candles)`: every manager appends – the default manager (which keeps and
converts the caller's `Candle` objects) LAST, so every other manager copies pristine input – then
everything is calculated. -/
def feedOrder (h : Hexital F) : List String :=
  let keys := h.managers.map (·.1)
  keys.drop 1 ++ keys.take 1

/-- one manager receives the new candles -/
def feedOne (new : List (Candle F)) (h : Hexital F) (k : String) : PyM (Hexital F) := do
  let m ← h.manager k
  let m' ← m.append new
  return h.setManager k m'

/-- every manager receives the same `new` candles -/
def feedManagers (h : Hexital F) (new : List (Candle F)) : PyM (Hexital F) :=
  h.feedOrder.foldlM (feedOne new) h

def append (h : Hexital F) (new : List (Candle F)) : PyM (Hexital F) := do
  let h ← h.feedManagers new
  h.calculate none

/-- `Hexital.reading(name, index)` -/
def reading (h : Hexital F) (name : String) (index : Int) : PyM (Val F) := do
  let dm ← h.manager defaultKey
  let r := readingByIndex dm.candles name index
  if !r.isNone then return r
  for (_, m) in h.managers do
    let r := readingByIndex m.candles name index
    if !r.isNone then return r
  return .none

def prevReading (h : Hexital F) (name : String) : PyM (Val F) := h.reading name (-2)

def hasReading (h : Hexital F) (name : String) : PyM Bool := do
  return !(← h.reading name (-1)).isNone

/-- `reading_as_list(name)` -/
def readingAsList (h : Hexital F) (name : String) : PyM (List (Val F)) :=
  let primary := (splitDot name).headD ""
  match dlookup primary h.indicators with
  | none => .ok []
  | some hi => do
    let m ← h.manager hi.mgrKey
    return m.candles.map fun c => readingByCandle c name

end Hexital
end Hex

import HexModel.Core.Candle
/-
`hexital.utils.indexing` and `hexital.utils.candles`: Python indexing and the read accessors.
-/
namespace Hex
variable {F : Type} [PyF F]

/-- `valid_index(index, length)`: `length > index >= -length` -/
def validIndex (idx : Int) (len : Nat) : Bool := decide (idx < len) && decide (-(len : Int) ≤ idx)

/-- `absindex(index, length)` for a given index -/
def absIndex (idx : Int) (len : Nat) : Option Int :=
  if !validIndex idx len then none
  else if idx < 0 then some (len + idx) else some idx

def getOrIndexError {α : Type} : Option α → PyM α
  | some x => .ok x
  | none => .error .indexError

/-- Python `lst[idx]` with negative wrap-around and `IndexError` -/
def pyIndex {α : Type} (l : List α) (idx : Int) : PyM α :=
  let j : Int := if idx < 0 then l.length + idx else idx
  if j < 0 then .error .indexError else getOrIndexError l[j.toNat]?

/-- Python slice `lst[start:stop]` with `stop ≥ 0` -/
def pySlice {α : Type} (l : List α) (start stop : Int) : List α :=
  let n : Int := l.length
  let s : Int := if start < 0 then (if start + n < 0 then 0 else start + n) else (if start > n then n else start)
  let e : Int := if stop < 0 then (if stop + n < 0 then 0 else stop + n) else (if stop > n then n else stop)
  if s ≥ e then [] else (l.drop s.toNat).take (e - s).toNat

/-- `reading_by_index(candles, name, index)` -/
def readingByIndex (cs : List (Candle F)) (name : String) (idx : Int) : Val F :=
  if validIndex idx cs.length then
    match pyIndex cs idx with
    | .ok c => readingByCandle c name
    | .error _ => .none
  else .none

/-- `reading_count(candles, name)`: trailing run of non-None readings -/
def readingCount (cs : List (Candle F)) (name : String) : Nat :=
  (cs.reverse.takeWhile fun c => !(readingByCandle c name).isNone).length

/-- `reading_period(candles, period, name, index)` with an explicit index -/
def readingPeriod (cs : List (Candle F)) (period : Int) (name : String) (idx : Int) : Bool :=
  let p : Int := period - 1
  if !validIndex idx cs.length then false
  else if idx - p < 0 then false
  else
    -- int(point) for point in [p, p / 2, 0]; p / 2 is a float division truncated toward zero
    let half : Int := if p ≥ 0 then p / 2 else -((-p) / 2)
    !(readingByIndex cs name (idx - p)).isNone &&
    !(readingByIndex cs name (idx - half)).isNone &&
    !(readingByIndex cs name idx).isNone

/-- `sum(value for value in values if value is not None)` over readings -/
def sumReadings (vals : List (Val F)) : PyM (Num F) := do
  let nums ← (vals.filter (fun v => !v.isNone)).mapM Val.asNum
  return pySum nums

/-- `candles_sum(candles, indicator, length, index)`: `None` when `absindex` is falsy (0 or invalid) -/
def candlesSum (cs : List (Candle F)) (name : String) (length : Int) (idx : Int) : PyM (Val F) :=
  match absIndex idx cs.length with
  | none => .ok .none
  | some i =>
    if i == 0 then .ok .none else do
      let i1 := i + 1
      let len : Int := if length > cs.length then cs.length else length
      let window := pySlice cs (i1 - len) i1
      let s ← sumReadings (window.map fun c => readingByCandle c name)
      return .num s

end Hex

import HexModel.Core.Candle
/-
`hexital.utils.timeframe` and `hexital.core.candle_manager.CandleManager`.
-/
namespace Hex
variable {F : Type} [PyF F]

/-! ### timeframes -/

/-- `timeframe_to_timedelta` in seconds: prefix S/T/H/D followed by a decimal number -/
def parseTimeframe (s : String) : PyM Int :=
  let s := s.toUpper
  match s.toList with
  | [] => .error .indexError
  | p :: rest =>
    let unit : Option Int :=
      if p = 'S' then some 1 else if p = 'T' then some 60
      else if p = 'H' then some 3600 else if p = 'D' then some 86400 else none
    match unit with
    | none => .error .invalidConfig
    | some u =>
      match (String.ofList rest).toNat? with
      | some n => .ok (u * n)
      | none => .error .valueError

/-- `round_down_timestamp` on naive seconds (floor to a multiple of the timeframe) -/
def roundDown (tf t : Int) : Int := t / tf * tf
/-- `on_timeframe` -/
def onTimeframe (tf t : Int) : Bool := t % tf == 0

/-! ### HA conversion -/

def haConvertCandle (c : Candle F) (prev : Option (Candle F)) : PyM (Candle F) := do
  let newClose ← (((c.o.add c.h).add c.l).add c.c).truediv (.int 4)
  let newOpen ← match prev with
    | none => (c.o.add c.c).truediv (.int 2)
    | some p => (p.o.add p.c).truediv (.int 2)
  let hi := Num.max2 (Num.max2 newOpen c.h) newClose
  let lo := Num.min2 (Num.min2 newOpen c.l) newClose
  return { c with o := newOpen, h := hi, l := lo, c := newClose }

/-- `CandlestickType._find_conv_index` -/
def findConvIndex (cs : List (Candle F)) : Nat :=
  match cs with
  | [] => 0
  | c0 :: _ =>
    if !c0.tag then 0 else
    -- for index in range(len-1, -1, -1): if tagged: return index+1
    let rec scan : Nat → Nat
      | 0 => if (cs[0]?.map (·.tag)).getD false then 1 else cs.length
      | j+1 => if (cs[j+1]?.map (·.tag)).getD false then j + 2 else scan j
    scan (cs.length - 1)

/-- `CandlestickType.conversion`: convert every candle from `findConvIndex` on, in order.
`done` is the (already converted) prefix in order, so its last element is `candles[index-1]`. -/
def convertFrom : List (Candle F) → List (Candle F) → PyM (List (Candle F))
  | done, [] => .ok done
  | done, c :: rest => do
    let c1 := c.saveClean
    let c2 ← haConvertCandle c1 done.getLast?
    let c3 := { c2.reset with tag := true }
    convertFrom (done ++ [c3]) rest

def convertCandles (cs : List (Candle F)) : PyM (List (Candle F)) :=
  let k := findConvIndex cs
  convertFrom (cs.take k) (cs.drop k)

/-! ### collapsing -/

structure WalkSt (F : Type) where
  start : Int
  end_ : Int
  out : List (Candle F)      -- REVERSED: head = newest bucket (`candles_[-1]`)

/-- one iteration of the `while self.candles:` loop of `collapse_candles` -/
def collapseStep (tf : Int) (st : WalkSt F) (c : Candle F) : PyM (WalkSt F) :=
  match st.out with
  | [] => .error .indexError
  | prev :: r =>
    match c.ts, prev.ts with
    | some t, some pt =>
      let next := st.end_ + tf
      if st.start < t ∧ t ≤ st.end_ ∧ pt = st.end_ then
        .ok { st with out := prev.merge c :: r }
      else if st.start < t ∧ t ≤ st.end_ then
        .ok { st with out := { c with ts := some st.end_ } :: prev :: r }
      else if st.start - tf < t ∧ t ≤ st.start ∧ pt = st.start then
        .ok { st with out := prev.merge c :: r }
      else if st.end_ < t ∧ t ≤ next then
        .ok { start := st.start + tf, end_ := st.end_ + tf,
              out := { c with ts := some next } :: prev :: r }
      else if st.start < t ∧ onTimeframe tf t then
        let s := roundDown tf t
        .ok { start := s, end_ := s + tf, out := { c with ts := some s } :: prev :: r }
      else if next < t then
        let s := roundDown tf t
        .ok { start := s, end_ := s + tf, out := { c with ts := some (s + tf) } :: prev :: r }
      else .error .invalidCandleOrder
    | _, _ => .ok st        -- `continue`: the candle is dropped

def collapseLoop (tf : Int) : WalkSt F → List (Candle F) → PyM (WalkSt F)
  | st, [] => .ok st
  | st, c :: rest => do
    let st' ← collapseStep tf st c
    collapseLoop tf st' rest

/-- fill candle placed `k` timeframes after `prev` -/
def fillCandle (prev : Candle F) (t : Int) : Candle F :=
  { o := prev.rawClose, h := prev.rawClose, l := prev.rawClose, c := prev.rawClose, v := .int 0, ts := some t }

/-- the `n` fill candles after `prev` (all carry the raw close of `prev`) -/
def fillRun (prev : Candle F) (tf : Int) (t : Int) : Nat → List (Candle F)
  | 0 => []
  | n+1 => fillCandle prev (t + tf) :: fillRun prev tf (t + tf) n

/-- `fill_missing_candles` on a list in order.  The Python `while True` loop inserts until the
next candle is exactly one timeframe after its predecessor; it does not terminate when that can
never happen (gap not a positive multiple of the timeframe) – modelled as `.diverges`. -/
def fillMissing (tf : Int) : List (Candle F) → PyM (List (Candle F))
  | [] => .ok []
  | [a] => .ok [a]
  | a :: b :: rest =>
    match a.ts with
    | none => do
      let r ← fillMissing tf (b :: rest)
      return a :: r
    | some ta =>
      match b.ts with
      | none => .error .diverges
      | some tb =>
        let gap := tb - ta
        if gap ≤ 0 ∨ gap % tf ≠ 0 then .error .diverges else do
          let r ← fillMissing tf (b :: rest)
          return a :: (fillRun a tf ta ((gap / tf).toNat - 1) ++ r)

/-- `collapse_candles` (with the optional fill) -/
def collapseCandles (tf : Option Int) (fill : Bool) (cs : List (Candle F)) : PyM (List (Candle F)) :=
  match tf, cs with
  | none, _ => .ok cs
  | _, [] => .ok cs
  | some tf, init :: rest =>
    match init.ts with
    | none => .ok rest                      -- the popped first candle is lost (as in the code)
    | some t0 => do
      let start := roundDown tf t0
      let end_ := start + tf
      let init' := if onTimeframe tf t0 then init else { init with ts := some end_ }
      let st ← collapseLoop tf { start := start, end_ := end_, out := [init'] } rest
      let out := st.out.reverse
      if fill then fillMissing tf out else .ok out

/-! ### trimming -/

/-- `candles[0].timestamp and candles[0].timestamp < latest - lifespan` -/
def tooOld (bound : Int) (c : Candle F) : Bool :=
  match c.ts with
  | some t => decide (t < bound)
  | none => false

def trimCandles (lifespan : Option Int) (cs : List (Candle F)) : PyM (List (Candle F)) :=
  match lifespan, cs.getLast? with
  | none, _ => .ok cs
  | _, none => .ok cs
  | some life, some lastC =>
    match lastC.ts with
    | none => .ok cs
    | some latest =>
      let r := cs.dropWhile (tooOld (latest - life))
      if r.isEmpty then .error .indexError else .ok r

/-! ### the manager -/

structure MgrCfg where
  tf : Option Int := none        -- timeframe in seconds
  fill : Bool := false
  ha : Bool := false
  lifespan : Option Int := none  -- seconds
  deriving Repr, Inhabited, DecidableEq

structure Manager (F : Type) where
  cfg : MgrCfg
  candles : List (Candle F)
  deriving Inhabited

/-- `CandleManager._tasks` -/
def tasks (cfg : MgrCfg) (cs : List (Candle F)) : PyM (List (Candle F)) := do
  let cs ← collapseCandles cfg.tf cfg.fill cs
  let cs ← if cfg.ha && !cs.isEmpty then convertCandles cs else .ok cs
  trimCandles cfg.lifespan cs

def Manager.init (cfg : MgrCfg) (cs : List (Candle F)) : PyM (Manager F) := do
  let cs ← tasks cfg cs
  return { cfg := cfg, candles := cs }

/-- `CandleManager.append` with an already decoded, non-empty-or-empty list of candles.
An empty list returns before `_tasks` (as in the code). -/
def Manager.append (m : Manager F) (new : List (Candle F)) : PyM (Manager F) :=
  if new.isEmpty then .ok m else do
    let cs ← tasks m.cfg (m.candles ++ new)
    return { m with candles := cs }

end Hex

import HexModel.Core.Hexital
import HexModel.Core.Input
import HexModel.Core.Settings
/-
The rest of the public surface: object equality (`Candle.__eq__`, `CandleManager.__eq__`),
`CandleManager.find_indicator` / `purge(str)`, `Indicator.read_candle`, `Hexital.indicator` /
`indicator_settings`, `None` indices, `validate_index`, ISO-8601 string timestamps and the inputs `append` rejects.
Everything here is NEW (nothing above this file changes); only the driver imports it.
-/
namespace Hex
variable {F : Type} [PyF F]

/-! ### Python `==` on readings and candles -/

/-- the numeric view of `==`: `None` is only equal to `None`, a `bool` is the int 0 / 1 -/
def Scalar.num? : Scalar F → Option (Num F)
  | .none => Option.none
  | .bool b => some (.int (if b then 1 else 0))
  | .num n => some n

/-- `a == b` on `None` / `bool` / `int` / `float` (`True == 1 == 1.0`, `nan != nan`) -/
def Scalar.pyEq (a b : Scalar F) : Bool :=
  match a.num?, b.num? with
  | Option.none, Option.none => true
  | some x, some y => x.eq y
  | _, _ => false

/-- `dict.__eq__`: the same keys with equal values, in any order -/
def dictPyEq {α : Type} (eqv : α → α → Bool) (a b : List (String × α)) : Bool :=
  a.length == b.length && a.all fun (k, v) =>
    match dlookup k b with
    | some w => eqv v w
    | none => false

/-- `a == b` on readings (a dict is never equal to a scalar).  The identity short-cut of container
comparison (the SAME `nan` object inside both dicts) is not representable: non-finite readings are
outside the domain of this definition. -/
def Val.pyEq : Val F → Val F → Bool
  | .s a, .s b => a.pyEq b
  | .dict a, .dict b => dictPyEq Scalar.pyEq a b
  | _, _ => false

/-- `Candle.__eq__(self, other)`: `other = none` is "not a `Candle`"; otherwise the `KEY_KEYS`
open / high / low / close / volume / timestamp / indicators / sub_indicators are compared with `!=`
(neither the tag nor `clean_values` count) -/
def Candle.pyEq (a : Candle F) : Option (Candle F) → Bool
  | none => false
  | some b =>
    a.o.eq b.o && a.h.eq b.h && a.l.eq b.l && a.c.eq b.c && a.v.eq b.v
    && a.ts == b.ts
    && dictPyEq Val.pyEq a.inds b.inds
    && dictPyEq Val.pyEq a.subs b.subs

/-- `candles[i] == candles[j]` -/
def candlesEqAt (cs : List (Candle F)) (i j : Int) : PyM Bool := do
  let a ← pyIndex cs i
  let b ← pyIndex cs j
  return a.pyEq (some b)

/-- `candles[i] == other` -/
def candleEqAt (cs : List (Candle F)) (i : Int) (other : Option (Candle F)) : PyM Bool := do
  let a ← pyIndex cs i
  return a.pyEq other

/-! ### `CandleManager.__eq__`, `find_indicator`, `purge(str)` -/

/-- the three attributes `CandleManager.__eq__` compares: `candles_lifespan` (a `timedelta`, in seconds),
`timeframe` (the upper-cased string / the value of the `TimeFrame` member: `"T60" != "H1"`) and `timeframe_fill` -/
structure MgrIdent where
  lifespan : Option Int
  timeframe : Option String
  fill : Bool
  deriving Repr, Inhabited, DecidableEq

def Manager.ident (m : Manager F) (tfName : Option String) : MgrIdent :=
  { lifespan := m.cfg.lifespan, timeframe := tfName, fill := m.cfg.fill }

/-- `CandleManager.__eq__(self, other)`: `other = none` is "not a `CandleManager`"; the candles, the
candlestick type and the readings play no part -/
def MgrIdent.pyEq (a : MgrIdent) : Option MgrIdent → Bool
  | none => false
  | some b => a.lifespan == b.lifespan && a.timeframe == b.timeframe && a.fill == b.fill

/-- `CandleManager.find_indicator(name)`: is there a candle whose reading is TRUTHY
(`if reading_by_candle(candle, name):` – a reading of `0`, `0.0`, `False`, `{}` does not count, `None` neither) -/
def findIndicator (cs : List (Candle F)) (name : String) : Bool :=
  cs.reverse.any fun c => (readingByCandle c name).truthy

/-- `CandleManager.purge(indicator: str)`: that one key leaves `indicators` and `sub_indicators` of every candle -/
def Manager.purgeName (m : Manager F) (name : String) : Manager F :=
  { m with candles := purgeNames [name] m.candles }

def IndState.purgeName (s : IndState F) (name : String) : IndState F :=
  { s with mgr := s.mgr.purgeName name }

/-! ### `Indicator.read_candle` -/

/-- `Indicator.read_candle(candle, name)`: `reading_by_candle(candle, name if name else self.name)` on ANY candle -/
def IndState.readCandle (s : IndState F) (c : Candle F) (name : Option String) : Val F :=
  readingByCandle c (name.getD s.tree.name)

/-- `indicator.read_candle(indicator.candles[idx], name)` -/
def IndState.readCandleAt (s : IndState F) (idx : Int) (name : Option String) : PyM (Val F) := do
  let c ← pyIndex s.mgr.candles idx
  return s.readCandle c name

/-! ### `utils.indexing` with the `None` cases -/

/-- `valid_index(index, length)`: `None` is no valid index -/
def validIndexOpt : Option Int → Nat → Bool
  | none, _ => false
  | some i, n => validIndex i n

/-- `validate_index(index, length, default)` -/
def validateIndex (idx : Option Int) (len : Nat) (dflt : Int) : Option Int :=
  let i := idx.getD dflt
  if validIndex i len then some i else none

/-- `absindex(index, length)`: `None` is the last index -/
def absIndexOpt (idx : Option Int) (len : Nat) : Option Int :=
  match idx with
  | none => some ((len : Int) - 1)
  | some i => absIndex i len

/-- `utils.candles.reading_period(candles, period, name, index)` called directly: `index=None` is the last index
(and skips the validity test: on an empty list the `index - period < 0` / missing-reading tests answer) -/
def readingPeriodOpt (cs : List (Candle F)) (period : Int) (name : String) : Option Int → Bool
  | some i => readingPeriod cs period name i
  | none =>
    let idx : Int := (cs.length : Int) - 1
    let p : Int := period - 1
    if idx - p < 0 then false
    else
      let half : Int := if p ≥ 0 then p / 2 else -((-p) / 2)
      !(readingByIndex cs name (idx - p)).isNone &&
      !(readingByIndex cs name (idx - half)).isNone &&
      !(readingByIndex cs name idx).isNone

/-- `reading_by_index(candles, name, index)` where the index may be `None` -/
def readingByIndexOpt (cs : List (Candle F)) (name : String) : Option Int → Val F
  | none => .none
  | some i => readingByIndex cs name i

/-! ### `Hexital.reading(name, None)`, `Hexital.indicator`, `Hexital.indicator_settings` -/

namespace Hexital

/-- `Hexital.reading(name, index)` with `index=None`: `valid_index(None, …)` is false for every manager -/
def readingOpt (h : Hexital F) (name : String) : Option Int → PyM (Val F)
  | some i => h.reading name i
  | none => do
    let _ ← h.manager defaultKey
    return .none

/-- `Hexital.indicator(name)`: `self._indicators[name]` – the member as an object over its manager -/
def indicator (h : Hexital F) (name : String) : PyM (IndState F) :=
  match dlookup name h.indicators with
  | none => .error .keyError
  | some hi => do
    let m ← h.manager hi.mgrKey
    return { tree := hi.tree, mgr := m, active := hi.active }

end Hexital

open Settings in
/-- `Hexital._indicators` seen from the configuration side: the public fields of every member, by name -/
structure HexMembers (F : Type) where
  hcfg : HexCfg
  cfgs : List (String × IndCfg F) := []
  deriving Inhabited

namespace HexMembers
open Settings

/-- `_validate_indicators(indicators)` (one entry per name: first position, last value; every member adopts its
manager's configuration) followed by `self._indicators[name] = indicator` -/
def add (m : HexMembers F) (new : List (String × IndCfg F)) : HexMembers F :=
  let valid := new.foldl (fun acc (p : String × IndCfg F) => dset p.1 p.2 acc) ([] : List (String × IndCfg F))
  { m with cfgs := valid.foldl (fun acc (p : String × IndCfg F) => dset p.1 (p.2.adopt m.hcfg) acc) m.cfgs }

/-- `remove_indicator(name)`: `self._indicators.pop(name, None)` -/
def remove (m : HexMembers F) : Option String → HexMembers F
  | some n => { m with cfgs := derase n m.cfgs }
  | none => m

/-- `Hexital.indicator_settings`: `[indicator.settings for indicator in self._indicators.values()]` -/
def indicatorSettings (m : HexMembers F) : List (SDict F) := m.cfgs.map fun p => p.2.settings

end HexMembers

/-! ### members that are neither an `Indicator` nor a `dict` -/

/-- an element of the `indicators` list handed to `Hexital(...)` / `add_indicator` -/
inductive AnyMember (F : Type)
  | valid (m : Member F)
  | other                  -- e.g. a number

/-- the first loop of `_validate_indicators`: `InvalidIndicator` at the first element that is neither -/
def validMembers : List (AnyMember F) → PyM (List (Member F))
  | [] => .ok []
  | .valid m :: r => do let ms ← validMembers r; return m :: ms
  | .other :: _ => .error .invalidConfig

/-- `Hexital(name, candles, indicators, …)`: the default manager is built BEFORE the members are validated -/
def Hexital.initAny (cfg : MgrCfg) (tfName : Option String) (cs : List (Candle F)) (members : List (AnyMember F)) :
    PyM (Hexital F) := do
  let _ ← Manager.init cfg cs
  let ms ← validMembers members
  Hexital.init cfg tfName cs ms

/-- `add_indicator(indicators)` -/
def Hexital.addIndicatorsAny (h : Hexital F) (members : List (AnyMember F)) : PyM (Hexital F) := do
  let ms ← validMembers members
  h.addIndicators ms

/-! ### the `Candle.tag` setter -/

/-- `candle.tag = "Heikin-Ashi"`: a candle is tagged once (`CandleAlreadyTagged` otherwise) -/
def Candle.setTag (c : Candle F) : PyM (Candle F) :=
  if c.tag then .error .alreadyTagged else .ok { c with tag := true }

/-- Python `lst[idx] = f(lst[idx])` -/
def pyModifyM {α : Type} (l : List α) (idx : Int) (f : α → PyM α) : PyM (List α) := do
  let j : Int := if idx < 0 then l.length + idx else idx
  let x ← pyIndex l idx
  let y ← f x
  return l.set j.toNat y

/-- `manager.candles[idx].tag = "Heikin-Ashi"` -/
def Manager.tagAt (m : Manager F) (idx : Int) : PyM (Manager F) := do
  let cs ← pyModifyM m.candles idx Candle.setTag
  return { m with candles := cs }

/-! ### `positive` / `negative` on ONE candle -/

/-- `positive(candles, index)` where `candles` may be a single `Candle` (`one = some c`; the index is then ignored) -/
def Mov.positiveAny (one : Option (Candle F)) (cs : List (Candle F)) (index : Int) : Val F :=
  match one with
  | some c => .bool c.positive
  | none => Mov.positive cs index

def Mov.negativeAny (one : Option (Candle F)) (cs : List (Candle F)) (index : Int) : Val F :=
  match one with
  | some c => .bool c.negative
  | none => Mov.negative cs index

/-! ### what the caller may hand to `append` / `Candle(...)` besides the forms of `Input` -/

/-- a `timestamp` written as an ISO-8601 string (`Candle.__init__`: `datetime.fromisoformat(timestamp)`); the
string is represented by the naive instant (whole seconds) it denotes, so the dict value is that datetime -/
def isoCell (t : Int) : Cell F := .ts t

/-- the dict form of a candle with its timestamp as an ISO-8601 string -/
def encodeDictIso (c : Candle F) : List (String × Cell F) :=
  [("open", .num c.o), ("high", .num c.h), ("low", .num c.l), ("close", .num c.c), ("volume", .num c.v)] ++
  (match c.ts with | some t => [("timestamp", isoCell t)] | none => [])

/-- everything `append` can be called with -/
inductive AnyInput (F : Type)
  | valid (i : Input F)
  | otherObject            -- neither a `Candle`, a `dict` nor a `list` (e.g. a float)
  | listOfOther            -- a non-empty list whose first element is none of Candle / dict / number / datetime / list

/-- `CandleManager.append`: the two `raise TypeError` exits of the type dispatch -/
def decodeAny : AnyInput F → PyM (List (Candle F))
  | .valid i => decodeInput i
  | .otherObject => .error .typeError
  | .listOfOther => .error .typeError

end Hex

import HexModel.Core.Manager
/-
Input decoding: `Candle.from_list`, `Candle.from_dict` and the type dispatch at the top of
`CandleManager.append` (what the caller may hand to `append`).
-/
namespace Hex
variable {F : Type} [PyF F]

/-- one element of a list-form candle / one value of a dict-form candle -/
inductive Cell (F : Type)
  | num (n : Num F)
  | ts (t : Int)          -- a `datetime`
  | none
  deriving Repr, Inhabited

def Cell.asNum : Cell F → Num F
  | .num n => n
  | _ => .int 0           -- outside the modelled domain (a non-number where a number is expected)

/-- `Candle.from_list`: `[open, high, low, close, volume]` with an optional datetime first or last;
the caller's list is NOT modified (the timestamp is sliced off a copy) -/
def Candle.fromList (xs : List (Cell F)) : PyM (Candle F) :=
  let (ts, body) : Option Int × List (Cell F) :=
    match xs with
    | .ts t :: rest => (some t, rest)
    | _ => match xs.getLast? with
      | some (.ts t) => (some t, xs.dropLast)
      | _ => (none, xs)
  match body with
  | o :: h :: l :: c :: v :: _ =>
    .ok { o := o.asNum, h := h.asNum, l := l.asNum, c := c.asNum, v := v.asNum, ts := ts }
  | _ => .error .indexError

/-- `dict.get(lower, dict.get(Capitalised, default))` -/
def dictGet (kvs : List (String × Cell F)) (lower cap : String) (dflt : Cell F) : Cell F :=
  match dlookup lower kvs with
  | some v => v
  | none => match dlookup cap kvs with
    | some v => v
    | none => dflt

/-- `Candle.from_dict` -/
def Candle.fromDict (kvs : List (String × Cell F)) : Candle F :=
  { o := (dictGet kvs "open" "Open" (.num (.flt (PyF.ofInt 0)))).asNum
    h := (dictGet kvs "high" "High" (.num (.flt (PyF.ofInt 0)))).asNum
    l := (dictGet kvs "low" "Low" (.num (.flt (PyF.ofInt 0)))).asNum
    c := (dictGet kvs "close" "Close" (.num (.flt (PyF.ofInt 0)))).asNum
    v := (dictGet kvs "volume" "Volume" (.num (.int 0))).asNum
    ts := match dictGet kvs "timestamp" "Timestamp" .none with
      | .ts t => some t
      | _ => none }

/-- what `append` accepts -/
inductive Input (F : Type)
  | candle (c : Candle F)
  | dict (kvs : List (String × Cell F))
  | list (xs : List (Cell F))              -- one candle as a list
  | candles (cs : List (Candle F))
  | dicts (ds : List (List (String × Cell F)))
  | lists (ls : List (List (Cell F)))
  | empty                                   -- `[]`

/-- the dispatch at the top of `CandleManager.append` (the first element decides) -/
def decodeInput : Input F → PyM (List (Candle F))
  | .candle c => .ok [c]
  | .dict kvs => .ok [Candle.fromDict kvs]
  | .list xs => do let c ← Candle.fromList xs; return [c]
  | .candles cs => .ok cs
  | .dicts ds => .ok (ds.map Candle.fromDict)
  | .lists ls => ls.mapM Candle.fromList
  | .empty => .ok []

/-- the three encodings of one candle (timestamp last / first in the list form) -/
def encodeDict (c : Candle F) : List (String × Cell F) :=
  [("open", .num c.o), ("high", .num c.h), ("low", .num c.l), ("close", .num c.c), ("volume", .num c.v)] ++
  (match c.ts with | some t => [("timestamp", Cell.ts t)] | none => [])

def encodeList (tsFirst : Bool) (c : Candle F) : List (Cell F) :=
  let body : List (Cell F) := [.num c.o, .num c.h, .num c.l, .num c.c, .num c.v]
  match c.ts with
  | some t => if tsFirst then .ts t :: body else body ++ [.ts t]
  | none => body

end Hex

import HexModel.Py.Arith
/-
`hexital.core.candle.Candle` as a value.
Timestamps are naive wall-clock seconds (`Option Int`); see DESIGN.md §3.3.
-/
namespace Hex
variable {F : Type} [PyF F]

/-- what `save_clean_values` keeps and `recover_clean_values` restores (OHLCV + timestamp;
the saved reading dicts are wiped by `reset_candle` right after every restore, so they are
not observable and not modelled). -/
structure Clean (F : Type) where
  o : Num F
  h : Num F
  l : Num F
  c : Num F
  v : Num F
  ts : Option Int
  deriving Repr, Inhabited

structure Candle (F : Type) where
  o : Num F
  h : Num F
  l : Num F
  c : Num F
  v : Num F
  ts : Option Int := none
  inds : List (String × Val F) := []
  subs : List (String × Val F) := []
  tag : Bool := false                 -- `_tag == "Heikin-Ashi"` (the only candlestick type)
  clean : Option (Clean F) := none    -- `clean_values` (non-empty)
  deriving Repr, Inhabited

namespace Candle

def positive (c : Candle F) : Bool := c.o.lt c.c
def negative (c : Candle F) : Bool := c.o.gt c.c
def realbody (c : Candle F) : Num F := (c.o.sub c.c).abs
def shadowUpper (c : Candle F) : Num F :=
  if c.positive then (c.h.sub c.c).abs else (c.h.sub c.o).abs
def shadowLower (c : Candle F) : Num F :=
  if c.positive then (c.l.sub c.o).abs else (c.l.sub c.c).abs
def highLow (c : Candle F) : Num F := (c.h.sub c.l).abs

def saveClean (c : Candle F) : Candle F :=
  { c with clean := some { o := c.o, h := c.h, l := c.l, c := c.c, v := c.v, ts := c.ts } }

/-- `recover_clean_values`: `timestamp` is only among the saved attributes when it was set
(an unset timestamp lives on the class, not in `vars(self)`). -/
def recoverClean (c : Candle F) : Candle F :=
  match c.clean with
  | none => c
  | some k => { c with o := k.o, h := k.h, l := k.l, c := k.c, v := k.v,
                       ts := match k.ts with | some t => some t | none => c.ts }

/-- `candle.clean_values.get("close", candle.close)`: the pre-conversion close -/
def rawClose (c : Candle F) : Num F :=
  match c.clean with
  | some k => k.c
  | none => c.c

def reset (c : Candle F) : Candle F := { c with inds := [], subs := [], tag := false }

/-- `Candle.merge` -/
def merge (a b : Candle F) : Candle F :=
  let a := a.recoverClean
  ({ a with h := Num.max2 a.h b.h, l := Num.min2 a.l b.l, v := a.v.add b.v, c := b.c,
            clean := none } : Candle F).reset

/-- the attributes `getattr(candle, name)` can see that the model supports -/
def attr (c : Candle F) (name : String) : Option (Val F) :=
  if name = "open" then some (.num c.o)
  else if name = "high" then some (.num c.h)
  else if name = "low" then some (.num c.l)
  else if name = "close" then some (.num c.c)
  else if name = "volume" then some (.num c.v)
  else if name = "positive" then some (.bool c.positive)
  else if name = "negative" then some (.bool c.negative)
  else if name = "realbody" then some (.num c.realbody)
  else if name = "shadow_upper" then some (.num c.shadowUpper)
  else if name = "shadow_lower" then some (.num c.shadowLower)
  else if name = "high_low" then some (.num c.highLow)
  else none

def attrNames : List String :=
  ["open", "high", "low", "close", "volume", "positive", "negative", "realbody",
   "shadow_upper", "shadow_lower", "high_low"]

end Candle

/-- Python `name.split(".")`, on the character list (kernel-reducible, unlike `String.splitOn`) -/
def splitDot (s : String) : List String := (s.toList.splitOn '.').map String.ofList

/-- `utils.candles.reading_by_candle` (names without a dot) and `_nested_indicator` (with one) -/
def readingByCandle (c : Candle F) (name : String) : Val F :=
  match splitDot name with
  | [main, nested] =>
    match dlookup main c.inds with
    | some r => r.nested nested
    | none => match dlookup main c.subs with
      | some r => r.nested nested
      | none => .none
  | _ =>
    match c.attr name with
    | some v => v
    | none =>
      match dlookup name c.inds with
      | some v => v
      | none => match dlookup name c.subs with
        | some v => v
        | none => .none

end Hex

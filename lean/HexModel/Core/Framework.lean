import HexModel.Core.Access
import HexModel.Core.Manager
/-
`hexital.core.indicator.Indicator` / `Managed`: the incremental calculation framework.
An indicator is a static tree (`Ind`); all mutable state lives on the candles, except the
top-level `_active_index` (kept in `IndState`).
-/
namespace Hex

/-- which analysis function an `Amorph` wraps, with its arguments -/
inductive Analysis
  | positive | negative
  | above (a b : String) | below (a b : String)
  | valueRange (ind : String) (length : Int)
  | rising (ind : String) (length : Int) | falling (ind : String) (length : Int)
  | meanRising (ind : String) (length : Int) | meanFalling (ind : String) (length : Int)
  | highest (ind : String) (length : Int) | lowest (ind : String) (length : Int)
  | highestbar (ind : String) (length : Int) | lowestbar (ind : String) (length : Int)
  | cross (a b : String) (length : Int) | crossover (a b : String) (length : Int)
  | crossunder (a b : String) (length : Int)
  | doji (lookback : Option Int) | dojistar (lookback : Option Int)
  | hammer (lookback : Option Int) | invHammer (lookback : Option Int)
  deriving Repr, Inhabited, DecidableEq

/-- indicator kinds with their parameters (`F`-typed where the parameter is a float) -/
inductive Kind (F : Type)
  | sma (period : Int) (input : String)
  | ema (period : Int) (input : String) (smoothing : Num F)
  | rma (period : Int) (input : String)
  | wma (period : Int) (input : String)
  | vwma (period : Int)
  | hma (period : Int) (input : String)
  | tr
  | atr (period : Int)
  | stdev (period : Int) (input : String)
  | bbands (period : Int) (input : String)
  | kc (period : Int) (input : String) (multiplier : Num F)
  | donchian (period : Int)
  | hl (period : Int)
  | hla
  | supertrend (period : Int) (input : String) (multiplier : Num F)
  | stdevthres (period : Int) (input : String) (multiplier : Num F)
  | counter (input : String) (countValue : Scalar F)
  | rsi (period : Int) (input : String)
  | macd (fast slow signal : Int) (input : String)
  | roc (period : Int) (input : String)
  | stoch (period slow smoothK : Int) (input : String)
  | tsi (period smooth : Int) (input : String)
  | aroon (period : Int)
  | adx (period signal : Int)
  | obv
  | vwap (period : Int)
  | amorph (a : Analysis)
  | managed                 -- `Managed`: written by its parent
  deriving Repr, Inhabited

/-- one node of an indicator tree -/
inductive Ind (F : Type)
  | mk (kind : Kind F) (name : String) (round : Nat) (isSub prior : Bool)
       (subs : List (Ind F)) (managed : List (String × Ind F))
  deriving Repr, Inhabited

namespace Ind
variable {F : Type}
def kind : Ind F → Kind F | .mk k _ _ _ _ _ _ => k
def name : Ind F → String | .mk _ n _ _ _ _ _ => n
def round : Ind F → Nat | .mk _ _ r _ _ _ _ => r
def isSub : Ind F → Bool | .mk _ _ _ s _ _ _ => s
def prior : Ind F → Bool | .mk _ _ _ _ p _ _ => p
def subs : Ind F → List (Ind F) | .mk _ _ _ _ _ s _ => s
def managed : Ind F → List (String × Ind F) | .mk _ _ _ _ _ _ m => m
/-- `prior_calc` -/
def priorCalc (i : Ind F) : Bool := i.isSub && i.prior
def getManaged (i : Ind F) (key : String) : PyM (Ind F) :=
  match dlookup key i.managed with
  | some m => .ok m
  | none => .error .keyError
end Ind

variable {F : Type} [PyF F]

/-! ### per-candle writes -/

def updateAt (cs : List (Candle F)) (i : Int) (f : Candle F → Candle F) : PyM (List (Candle F)) :=
  let j : Int := if i < 0 then cs.length + i else i
  if j < 0 ∨ j ≥ cs.length then .error .indexError
  else .ok (cs.modify j.toNat f)

/-- `Indicator._set_reading(reading, index)` -/
def setReading (isSub : Bool) (name : String) (cs : List (Candle F)) (i : Int) (v : Val F) :
    PyM (List (Candle F)) :=
  updateAt cs i fun c =>
    if isSub then { c with subs := dset name v c.subs } else { c with inds := dset name v c.inds }

/-! ### what `_calculate_reading` can see: the candles, the active index, the own name -/

structure Ctx (F : Type) where
  cs : List (Candle F)
  i : Int
  name : String

namespace Ctx
/-- `self.reading(name, index)` -/
def reading (x : Ctx F) (name : String) (idx : Option Int := none) : PyM (Val F) := do
  let c ← pyIndex x.cs (idx.getD x.i)
  return readingByCandle c name
/-- `self.prev_reading(name)` -/
def prevReading (x : Ctx F) (name : String) : PyM (Val F) :=
  if x.cs.length == 0 || x.i == 0 then .ok .none else x.reading name (some (x.i - 1))
def prevExists (x : Ctx F) (name : String) : PyM Bool := do
  return !(← x.prevReading name).isNone
/-- `self.reading_period(period, name, index)` -/
def readingPeriod (x : Ctx F) (period : Int) (name : String) (idx : Option Int := none) : Bool :=
  Hex.readingPeriod x.cs period name (idx.getD x.i)
/-- `self.candles_sum(length, name, index)` -/
def candlesSum (x : Ctx F) (length : Int) (name : String) (idx : Option Int := none) : PyM (Val F) :=
  Hex.candlesSum x.cs name length (idx.getD x.i)
/-- numeric reading (TypeError on None / dict) -/
def num (x : Ctx F) (name : String) (idx : Option Int := none) : PyM (Num F) := do
  (← x.reading name idx).asNum
def prevNum (x : Ctx F) (name : String) : PyM (Num F) := do
  (← x.prevReading name).asNum
end Ctx

/-- float literal `n.0` -/
def fl (n : Int) : Num F := .flt (PyF.ofInt n)

/-- Python `range(a, b)` as a list of Ints -/
def pyRange (a b : Int) : List Int := (List.range (b - a).toNat).map fun (k : Nat) => a + (k : Int)
/-- Python `range(a, b, -1)` -/
def pyRangeDown (a b : Int) : List Int := (List.range (a - b).toNat).map fun (k : Nat) => a - (k : Int)

end Hex

import HexModel.Core.Indicator
/-
`Indicator.settings` / `Amorph.settings`  →  `Hexital._build_indicator`  →  the dataclass
constructor with `__post_init__`: the configuration-dict path of a `Hexital` member.

* `SVal` – the values that occur in such a dict.
* `IndCfg` – the PUBLIC dataclass fields of an indicator object after `__post_init__`.
* `IndCfg.settings` – `hexital/core/indicator.py: Indicator.settings`, `hexital/indicators/amorph.py: Amorph.settings`.
* `build` – `hexital/core/hexital.py: Hexital._build_indicator` + `indicator_class(**indicator)`.
* `IndCfg.toInd`, `IndCfg.mgrCfg` – the tree / name / manager configuration the rest of the model starts from.

Modelled domain (everything else is reported by `build` as `.error .other`, which Python never raises here):
keyword values have the annotated type (Python's dataclasses store any object unchecked and fail later, if
ever); timeframes are `str` (not the `TimeFrame` enum) and ASCII (`str.upper` = `String.toUpper` there);
`candles` is not part of a configuration dict; the only callables are the functions of `hexital.analysis`.
-/
namespace Hex.Settings
open Hex

/-! ### values of a settings dict -/

/-- the candlestick types of `CANDLESTICK_MAP` -/
inductive CsType
  | ha
  deriving DecidableEq, Repr, Inhabited

/-- `CandlestickType.minimal_name` = the key of `CANDLESTICK_MAP` -/
def CsType.minimalName : CsType → String
  | .ha => "HA"

/-- `CANDLESTICK_MAP.get(name)` -/
def CsType.ofName (s : String) : Option CsType :=
  if s = "HA" then some .ha else none

/-- the analysis functions of `hexital.analysis` (`above` / `below` are in neither
`MOVEMENT_MAP` nor `PATTERN_MAP`) -/
inductive AnaFn
  | positive | negative | above | below
  | valueRange | rising | falling | meanRising | meanFalling
  | highest | lowest | highestbar | lowestbar
  | cross | crossover | crossunder
  | doji | dojistar | hammer | invertedHammer
  deriving DecidableEq, Repr, Inhabited

/-- `function.__name__` -/
def AnaFn.name : AnaFn → String
  | .positive => "positive" | .negative => "negative" | .above => "above" | .below => "below"
  | .valueRange => "value_range" | .rising => "rising" | .falling => "falling"
  | .meanRising => "mean_rising" | .meanFalling => "mean_falling"
  | .highest => "highest" | .lowest => "lowest" | .highestbar => "highestbar" | .lowestbar => "lowestbar"
  | .cross => "cross" | .crossover => "crossover" | .crossunder => "crossunder"
  | .doji => "doji" | .dojistar => "dojistar" | .hammer => "hammer" | .invertedHammer => "inverted_hammer"

/-- `(PATTERN_MAP | MOVEMENT_MAP).get(name)` -/
def AnaFn.ofMapKey (s : String) : Option AnaFn :=
  if s = "cross" then some .cross else if s = "crossover" then some .crossover
  else if s = "crossunder" then some .crossunder else if s = "falling" then some .falling
  else if s = "highest" then some .highest else if s = "highestbar" then some .highestbar
  else if s = "lowest" then some .lowest else if s = "lowestbar" then some .lowestbar
  else if s = "mean_falling" then some .meanFalling else if s = "mean_rising" then some .meanRising
  else if s = "negative" then some .negative else if s = "positive" then some .positive
  else if s = "rising" then some .rising else if s = "value_range" then some .valueRange
  else if s = "doji" then some .doji else if s = "dojistar" then some .dojistar
  else if s = "hammer" then some .hammer else if s = "inv_hammer" then some .invertedHammer
  else if s = "inverted_hammer" then some .invertedHammer else none

/-- a value of a configuration dict: `None`, `bool`, `int`, `float`, `str`, a `timedelta` (whole seconds),
a `CandlestickType` OBJECT (`Amorph.settings` emits the object, not its name), an analysis function
(a callable under "analysis") or a nested dict ("args") -/
inductive SVal (F : Type)
  | none
  | bool (b : Bool)
  | int (i : Int)
  | float (x : F)
  | str (s : String)
  | td (secs : Int)
  | cs (t : CsType)
  | fn (f : AnaFn)
  | dict (kvs : List (String × SVal F))
  deriving Repr, Inhabited

abbrev SDict (F : Type) := List (String × SVal F)

variable {F : Type}

/-- Python truthiness (`if value`) -/
def SVal.truthy [PyF F] : SVal F → Bool
  | .none => false
  | .bool b => b
  | .int i => decide (i ≠ 0)
  | .float x => !PyF.isZero x
  | .str s => decide (s ≠ "")
  | .td t => decide (t ≠ 0)
  | .cs _ => true
  | .fn _ => true
  | .dict kvs => !kvs.isEmpty

def SVal.ofNum : Num F → SVal F
  | .int i => .int i
  | .flt x => .float x

/-- a public field holding `None` is not emitted by `settings` -/
def SVal.ofScalar? : Scalar F → Option (SVal F)
  | .none => Option.none
  | .bool b => some (.bool b)
  | .num n => some (SVal.ofNum n)

/-! ### the classes -/

/-- one constructor per shipped class, the public parameters in dataclass-field order, as they are after
`_validate_fields` (MACD ordered, TSI / ADX derived periods filled in).  `Amorph`: the wrapped function and
`_analysis_kwargs` (not public, but it is what `settings` emits as "args"). -/
inductive Cls (F : Type)
  | sma (period : Int) (input_value : String)
  | ema (input_value : String) (period : Int) (smoothing : Num F)
  | rma (period : Int) (input_value : String)
  | wma (input_value : String) (period : Int)
  | vwma (period : Int)
  | hma (period : Int) (input_value : String)
  | tr
  | atr (period : Int)
  | stdev (period : Int) (input_value : String)
  | bbands (period : Int) (input_value : String)
  | kc (period : Int) (multiplier : Num F) (input_value : String)
  | donchian (period : Int)
  | hl (period : Int)
  | hla
  | supertrend (period : Int) (multiplier : Num F) (input_value : String)
  | stdevthres (period : Int) (multiplier : Num F) (input_value : String)
  | counter (input_value : String) (count_value : Scalar F)
  | rsi (period : Int) (input_value : String)
  | macd (fast_period slow_period signal_period : Int) (input_value : String)
  | roc (period : Int) (input_value : String)
  | stoch (period slow_period smoothing_k : Int) (input_value : String)
  | tsi (period smooth_period : Int) (input_value : String)
  | aroon (period : Int)
  | adx (period period_signal : Int)
  | obv
  | vwap (period : Int)
  | amorph (analysis : AnaFn) (args : SDict F)
  deriving Repr, Inhabited

/-- the class attribute `_name` (what `settings` writes under "indicator") -/
def Cls.name : Cls F → String
  | .sma .. => "SMA" | .ema .. => "EMA" | .rma .. => "RMA" | .wma .. => "WMA" | .vwma .. => "VWMA"
  | .hma .. => "HMA" | .tr => "TR" | .atr .. => "ATR" | .stdev .. => "STDEV" | .bbands .. => "BBANDS"
  | .kc .. => "KC" | .donchian .. => "DONCHIAN" | .hl .. => "HL" | .hla => "HLA"
  | .supertrend .. => "Supertrend" | .stdevthres .. => "STDEVTHRES" | .counter .. => "COUNT"
  | .rsi .. => "RSI" | .macd .. => "MACD" | .roc .. => "ROC" | .stoch .. => "STOCH" | .tsi .. => "TSI"
  | .aroon .. => "AROON" | .adx .. => "ADX" | .obv => "OBV" | .vwap .. => "VWAP"
  | .amorph .. => "Amorph"      -- `_name` is empty there: `type(self).__name__`; unused (`Amorph.settings`)

/-- the class's own public fields as `__dict__` lists them (`value is not None` only) -/
def Cls.fields : Cls F → SDict F
  | .sma p i => [("period", .int p), ("input_value", .str i)]
  | .ema i p s => [("input_value", .str i), ("period", .int p), ("smoothing", .ofNum s)]
  | .rma p i => [("period", .int p), ("input_value", .str i)]
  | .wma i p => [("input_value", .str i), ("period", .int p)]
  | .vwma p => [("period", .int p)]
  | .hma p i => [("period", .int p), ("input_value", .str i)]
  | .tr => []
  | .atr p => [("period", .int p)]
  | .stdev p i => [("period", .int p), ("input_value", .str i)]
  | .bbands p i => [("period", .int p), ("input_value", .str i)]
  | .kc p m i => [("period", .int p), ("multiplier", .ofNum m), ("input_value", .str i)]
  | .donchian p => [("period", .int p)]
  | .hl p => [("period", .int p)]
  | .hla => []
  | .supertrend p m i => [("period", .int p), ("multiplier", .ofNum m), ("input_value", .str i)]
  | .stdevthres p m i => [("period", .int p), ("multiplier", .ofNum m), ("input_value", .str i)]
  | .counter i cv =>
    ("input_value", .str i) :: (match SVal.ofScalar? cv with | some v => [("count_value", v)] | none => [])
  | .rsi p i => [("period", .int p), ("input_value", .str i)]
  | .macd f s g i => [("fast_period", .int f), ("slow_period", .int s), ("signal_period", .int g), ("input_value", .str i)]
  | .roc p i => [("period", .int p), ("input_value", .str i)]
  | .stoch p s k i => [("period", .int p), ("slow_period", .int s), ("smoothing_k", .int k), ("input_value", .str i)]
  | .tsi p s i => [("period", .int p), ("smooth_period", .int s), ("input_value", .str i)]
  | .aroon p => [("period", .int p)]
  | .adx p s => [("period", .int p), ("period_signal", .int s)]
  | .obv => []
  | .vwap p => [("period", .int p)]
  | .amorph .. => []

/-- the public dataclass fields of an indicator object after `__post_init__` -/
structure IndCfg (F : Type) where
  cls : Cls F
  fullname_override : Option String := none
  name_suffix : Option String := none
  round_value : Int := 4
  /-- upper-cased by `validate_timeframe` -/
  timeframe : Option String := none
  timeframe_fill : Bool := false
  /-- `timedelta`, in seconds -/
  candles_lifespan : Option Int := none
  /-- a `CandlestickType` object after `validate_candlesticktype` -/
  candlestick_type : Option CsType := none
  deriving Repr, Inhabited

/-! ### `settings` -/

/-- an entry that is emitted when the field is not `None` -/
def optE (k : String) (o : Option (SVal F)) : SDict F :=
  match o with
  | some v => [(k, v)]
  | none => []

/-- an entry that is emitted when the value is truthy (`Amorph.settings`: `if self._analysis_kwargs`) -/
def truthyE [PyF F] (k : String) (o : Option (SVal F)) : SDict F :=
  match o with
  | some v => if v.truthy then [(k, v)] else []
  | none => []

/-- the `Indicator` base fields in `Indicator.settings`: not-`None` values; `timeframe_fill` only with a
timeframe; `candlestick_type` as its minimal name -/
def IndCfg.baseEntries (c : IndCfg F) : SDict F :=
  optE "fullname_override" (c.fullname_override.map .str)
  ++ optE "name_suffix" (c.name_suffix.map .str)
  ++ [("round_value", .int c.round_value)]
  ++ optE "timeframe" (c.timeframe.map .str)
  ++ (if c.timeframe.isSome then [("timeframe_fill", .bool c.timeframe_fill)] else [])
  ++ optE "candles_lifespan" (c.candles_lifespan.map .td)
  ++ optE "candlestick_type" (c.candlestick_type.map fun t => .str t.minimalName)

/-- the `Indicator` base fields in `Amorph.settings` (since repair 1b1f95f the same `value is not None` rule as
`Indicator.settings`, `sub_indicators` / `managed_indicators` skipped by name); the candlestick type is still
emitted as the OBJECT, not as its minimal name -/
def IndCfg.amorphEntries (c : IndCfg F) : SDict F :=
  optE "fullname_override" (c.fullname_override.map .str)
  ++ optE "name_suffix" (c.name_suffix.map .str)
  ++ [("round_value", .int c.round_value)]
  ++ optE "timeframe" (c.timeframe.map .str)
  ++ (if c.timeframe.isSome then [("timeframe_fill", .bool c.timeframe_fill)] else [])
  ++ optE "candles_lifespan" (c.candles_lifespan.map .td)
  ++ optE "candlestick_type" (c.candlestick_type.map .cs)

/-- `indicator.settings` -/
def IndCfg.settings [PyF F] (c : IndCfg F) : SDict F :=
  match c.cls with
  | .amorph fn args =>
    ("analysis", .str fn.name) :: (c.amorphEntries ++ truthyE "args" (some (.dict args)))
  | k => ("indicator", .str k.name) :: (c.baseEntries ++ k.fields)

/-! ### `_build_indicator` -/

/-- `inspect.getmembers(Indicator)[1][1].keys()`: the annotations of `Indicator`, by which `Amorph.__init__`
tells indicator keywords from analysis keywords -/
def indicatorAttrs : List String :=
  ["candles", "fullname_override", "name_suffix", "round_value", "timeframe", "timeframe_fill",
   "candles_lifespan", "candlestick_type", "sub_indicators", "managed_indicators", "_sub_indicator",
   "_sub_calc_prior", "_name", "_output_name", "_candles", "_active_index", "_initialised"]

/-- the `init=True` fields of `Indicator` -/
def initKeys : List String :=
  ["candles", "fullname_override", "name_suffix", "round_value", "timeframe", "timeframe_fill",
   "candles_lifespan", "candlestick_type"]

/-! keyword binding of the generated `__init__` -/

def kwInt (d : SDict F) (k : String) (dflt : Int) : PyM Int :=
  match dlookup k d with
  | none => .ok dflt
  | some (.int i) => .ok i
  | some _ => .error .other

def kwStr (d : SDict F) (k : String) (dflt : String) : PyM String :=
  match dlookup k d with
  | none => .ok dflt
  | some (.str s) => .ok s
  | some _ => .error .other

/-- a keyword without default: "missing 1 required keyword-only argument" -/
def kwStrReq (d : SDict F) (k : String) : PyM String :=
  match dlookup k d with
  | none => .error .typeError
  | some (.str s) => .ok s
  | some _ => .error .other

/-- `float` annotated fields hold whatever number was passed -/
def kwNum (d : SDict F) (k : String) (dflt : Num F) : PyM (Num F) :=
  match dlookup k d with
  | none => .ok dflt
  | some (.int i) => .ok (.int i)
  | some (.float x) => .ok (.flt x)
  | some _ => .error .other

def kwScalar (d : SDict F) (k : String) (dflt : Scalar F) : PyM (Scalar F) :=
  match dlookup k d with
  | none => .ok dflt
  | some .none => .ok .none
  | some (.bool b) => .ok (.bool b)
  | some (.int i) => .ok (.num (.int i))
  | some (.float x) => .ok (.num (.flt x))
  | some _ => .error .other

def kwOptInt (d : SDict F) (k : String) : PyM (Option Int) :=
  match dlookup k d with
  | none | some .none => .ok none
  | some (.int i) => .ok (some i)
  | some _ => .error .other

def kwOptStr (d : SDict F) (k : String) : PyM (Option String) :=
  match dlookup k d with
  | none | some .none => .ok none
  | some (.str s) => .ok (some s)
  | some _ => .error .other

def kwBool (d : SDict F) (k : String) (dflt : Bool) : PyM Bool :=
  match dlookup k d with
  | none => .ok dflt
  | some (.bool b) => .ok b
  | some _ => .error .other

def kwOptTd (d : SDict F) (k : String) : PyM (Option Int) :=
  match dlookup k d with
  | none | some .none => .ok none
  | some (.td t) => .ok (some t)
  | some _ => .error .other

/-- `candlestick_type` as passed: a name or an object -/
inductive RawCs
  | name (s : String)
  | obj (t : CsType)

def kwCs (d : SDict F) (k : String) : PyM (Option RawCs) :=
  match dlookup k d with
  | none | some .none => .ok none
  | some (.str s) => .ok (some (.name s))
  | some (.cs t) => .ok (some (.obj t))
  | some _ => .error .other

/-- a dataclass: its own keywords and its constructor body (binding with defaults, then `_validate_fields`) -/
structure PyClass (F : Type) where
  keys : List String
  ctor : SDict F → PyM (Cls F)

/-- `int(period / 2) + (period % 2 > 0)` -/
def tsiSmooth (p : Int) : Int := Int.tdiv p 2 + (if p % 2 > 0 then 1 else 0)

section classes
variable [PyF F]

def clsSMA : PyClass F := ⟨["period", "input_value"], fun d => do
  return .sma (← kwInt d "period" 10) (← kwStr d "input_value" "close")⟩
def clsEMA : PyClass F := ⟨["input_value", "period", "smoothing"], fun d => do
  return .ema (← kwStr d "input_value" "close") (← kwInt d "period" 10) (← kwNum d "smoothing" (fl 2))⟩
def clsRMA : PyClass F := ⟨["period", "input_value"], fun d => do
  return .rma (← kwInt d "period" 10) (← kwStr d "input_value" "close")⟩
def clsWMA : PyClass F := ⟨["input_value", "period"], fun d => do
  return .wma (← kwStr d "input_value" "close") (← kwInt d "period" 10)⟩
def clsVWMA : PyClass F := ⟨["period"], fun d => do return .vwma (← kwInt d "period" 10)⟩
def clsHMA : PyClass F := ⟨["period", "input_value"], fun d => do
  return .hma (← kwInt d "period" 10) (← kwStr d "input_value" "close")⟩
def clsTR : PyClass F := ⟨[], fun _ => return .tr⟩
def clsATR : PyClass F := ⟨["period"], fun d => do return .atr (← kwInt d "period" 14)⟩
def clsSTDEV : PyClass F := ⟨["period", "input_value"], fun d => do
  return .stdev (← kwInt d "period" 30) (← kwStr d "input_value" "close")⟩
def clsBBANDS : PyClass F := ⟨["period", "input_value"], fun d => do
  return .bbands (← kwInt d "period" 5) (← kwStr d "input_value" "close")⟩
def clsKC : PyClass F := ⟨["period", "multiplier", "input_value"], fun d => do
  return .kc (← kwInt d "period" 20) (← kwNum d "multiplier" (fl 2)) (← kwStr d "input_value" "close")⟩
def clsDonchian : PyClass F := ⟨["period"], fun d => do return .donchian (← kwInt d "period" 20)⟩
def clsHL : PyClass F := ⟨["period"], fun d => do return .hl (← kwInt d "period" 100)⟩
def clsHLA : PyClass F := ⟨[], fun _ => return .hla⟩
def clsSupertrend : PyClass F := ⟨["period", "multiplier", "input_value"], fun d => do
  return .supertrend (← kwInt d "period" 7) (← kwNum d "multiplier" (fl 3)) (← kwStr d "input_value" "close")⟩
def clsSTDEVTHRES : PyClass F := ⟨["period", "multiplier", "input_value"], fun d => do
  return .stdevthres (← kwInt d "period" 10) (← kwNum d "multiplier" (fl 2)) (← kwStr d "input_value" "close")⟩
def clsCounter : PyClass F := ⟨["input_value", "count_value"], fun d => do
  return .counter (← kwStrReq d "input_value") (← kwScalar d "count_value" (.bool true))⟩
def clsRSI : PyClass F := ⟨["period", "input_value"], fun d => do
  return .rsi (← kwInt d "period" 14) (← kwStr d "input_value" "close")⟩
/-- `_validate_fields`: `if slow < fast: fast, slow = slow, fast` -/
def clsMACD : PyClass F := ⟨["fast_period", "slow_period", "signal_period", "input_value"], fun d => do
  let f ← kwInt d "fast_period" 12
  let s ← kwInt d "slow_period" 26
  let g ← kwInt d "signal_period" 9
  let i ← kwStr d "input_value" "close"
  return if s < f then .macd s f g i else .macd f s g i⟩
def clsROC : PyClass F := ⟨["period", "input_value"], fun d => do
  return .roc (← kwInt d "period" 10) (← kwStr d "input_value" "close")⟩
def clsSTOCH : PyClass F := ⟨["period", "slow_period", "smoothing_k", "input_value"], fun d => do
  return .stoch (← kwInt d "period" 14) (← kwInt d "slow_period" 3) (← kwInt d "smoothing_k" 3)
    (← kwStr d "input_value" "close")⟩
/-- `_validate_fields`: `smooth_period` defaults to half the period, rounded up -/
def clsTSI : PyClass F := ⟨["period", "smooth_period", "input_value"], fun d => do
  let p ← kwInt d "period" 25
  let s ← kwOptInt d "smooth_period"
  let i ← kwStr d "input_value" "close"
  return .tsi p (s.getD (tsiSmooth p)) i⟩
def clsAROON : PyClass F := ⟨["period"], fun d => do return .aroon (← kwInt d "period" 14)⟩
/-- `_validate_fields`: `period_signal` defaults to the period -/
def clsADX : PyClass F := ⟨["period", "period_signal"], fun d => do
  let p ← kwInt d "period" 14
  let s ← kwOptInt d "period_signal"
  return .adx p (s.getD p)⟩
def clsOBV : PyClass F := ⟨[], fun _ => return .obv⟩
def clsVWAP : PyClass F := ⟨["period"], fun d => do return .vwap (← kwInt d "period" 10)⟩
/-- `INDICATOR_MAP.get(name)` for every class but `Amorph` (whose `__init__` is hand-written, see `build`) -/
def indicatorMap (s : String) : Option (PyClass F) :=
  if s = "Counter" then some clsCounter else if s = "COUNT" then some clsCounter
  else if s = "aroon" then some clsAROON else if s = "AROON" then some clsAROON
  else if s = "ADX" then some clsADX else if s = "ATR" then some clsATR
  else if s = "BBANDS" then some clsBBANDS
  else if s = "donchian" then some clsDonchian else if s = "DONCHIAN" then some clsDonchian
  else if s = "EMA" then some clsEMA else if s = "HL" then some clsHL else if s = "HLA" then some clsHLA
  else if s = "HMA" then some clsHMA else if s = "KC" then some clsKC else if s = "MACD" then some clsMACD
  else if s = "OBV" then some clsOBV else if s = "RMA" then some clsRMA else if s = "ROC" then some clsROC
  else if s = "RSI" then some clsRSI else if s = "SMA" then some clsSMA else if s = "STDEV" then some clsSTDEV
  else if s = "STDEVTHRES" then some clsSTDEVTHRES else if s = "STOCH" then some clsSTOCH
  else if s = "Supertrend" then some clsSupertrend else if s = "TR" then some clsTR
  else if s = "TSI" then some clsTSI else if s = "VWAP" then some clsVWAP else if s = "VWMA" then some clsVWMA
  else if s = "WMA" then some clsWMA else none

end classes

/-- the `Indicator` base keywords as bound by `__init__` (before `__post_init__`) -/
structure RawBase where
  fullname_override : Option String
  name_suffix : Option String
  round_value : Int
  timeframe : Option String
  timeframe_fill : Bool
  candles_lifespan : Option Int
  candlestick_type : Option RawCs

def readBase (d : SDict F) : PyM RawBase := do
  let o ← kwOptStr d "fullname_override"
  let s ← kwOptStr d "name_suffix"
  let r ← kwInt d "round_value" 4
  let tf ← kwOptStr d "timeframe"
  let fill ← kwBool d "timeframe_fill" false
  let life ← kwOptTd d "candles_lifespan"
  let cs ← kwCs d "candlestick_type"
  return ⟨o, s, r, tf, fill, life, cs⟩

/-- `validate_timeframe` on a `str`: upper-case, the first character must be one of S / T / H / D
(`timeframe[0]` on the empty string: IndexError); the digits are NOT looked at here -/
def validateTimeframe (s : String) : PyM String :=
  let u := s.toUpper
  match u.toList with
  | [] => .error .indexError
  | p :: _ => if p = 'S' ∨ p = 'T' ∨ p = 'H' ∨ p = 'D' then .ok u else .error .invalidConfig

/-- `validate_candlesticktype` -/
def validateCs : RawCs → PyM CsType
  | .obj t => .ok t
  | .name s => match CsType.ofName s with
    | some t => .ok t
    | none => .error .invalidConfig

/-- `Indicator.__post_init__` (the class's `_validate_fields` already ran inside `PyClass.ctor`) -/
def postInit (cls : Cls F) (b : RawBase) : PyM (IndCfg F) := do
  let tf ← match b.timeframe with
    | none => pure none
    | some s => do let u ← validateTimeframe s; pure (some u)
  let cs ← match b.candlestick_type with
    | none => pure none
    | some r => do let t ← validateCs r; pure (some t)
  return { cls := cls, fullname_override := b.fullname_override, name_suffix := b.name_suffix,
           round_value := b.round_value, timeframe := tf, timeframe_fill := b.timeframe_fill,
           candles_lifespan := b.candles_lifespan, candlestick_type := cs }

/-- a `candles` keyword is no part of a configuration dict (only `None` is representable) -/
def candlesOk (d : SDict F) : PyM Unit :=
  match dlookup "candles" d with
  | none | some .none => .ok ()
  | some _ => .error .other

/-- `indicator_class(**kwargs)`: unexpected keyword → TypeError; bind; `__post_init__` -/
def construct (pc : PyClass F) (kwargs : SDict F) : PyM (IndCfg F) := do
  if !(kwargs.all fun kv => decide (kv.1 ∈ initKeys ++ pc.keys)) then throw .typeError
  let cls ← pc.ctor kwargs
  candlesOk kwargs
  let b ← readBase kwargs
  postInit cls b

/-- `dict.update` -/
def dupdate (base upd : SDict F) : SDict F :=
  upd.foldl (fun acc kv => dset kv.1 kv.2 acc) base

/-- `Amorph(analysis=fn, **kwargs)`: `args` is a named parameter, keywords that are no `Indicator`
annotation become analysis keywords (then updated by a dict `args`), the others go to `Indicator.__init__` -/
def constructAmorph (fn : AnaFn) (kwargs : SDict F) : PyM (IndCfg F) := do
  let argsV := dlookup "args" kwargs
  let kwargs := derase "args" kwargs
  let anaKw := kwargs.filter fun kv => !decide (kv.1 ∈ indicatorAttrs)
  let indKw := kwargs.filter fun kv => decide (kv.1 ∈ indicatorAttrs)
  let anaKw := match argsV with
    | some (.dict a) => dupdate anaKw a
    | _ => anaKw
  if !(indKw.all fun kv => decide (kv.1 ∈ initKeys)) then throw .typeError
  candlesOk indKw
  let b ← readBase indKw
  postInit (.amorph fn anaKw) b

/-- `dict.get(k)` followed by a truth test -/
def getTruthy [PyF F] (d : SDict F) (k : String) : Option (SVal F) :=
  (dlookup k d).filter SVal.truthy

/-- `INDICATOR_MAP["Amorph"](**kwargs)`: `analysis` is a required parameter and must be the callable -/
def amorphDirect (kwargs : SDict F) : PyM (IndCfg F) :=
  match dlookup "analysis" kwargs with
  | none => .error .typeError
  | some (.fn f) => constructAmorph f (derase "analysis" kwargs)
  | some _ => .error .other        -- an object without `__name__`: outside the modelled domain

/-- `Hexital._build_indicator(raw_indicator)` -/
def build [PyF F] (raw : SDict F) : PyM (IndCfg F) :=
  match getTruthy raw "indicator" with
  | some (.str name) =>
    if name = "Amorph" then amorphDirect (derase "indicator" raw) else
    match indicatorMap name with
    | some pc => construct pc (derase "indicator" raw)
    | none => .error .invalidConfig                       -- InvalidIndicator
  | some (.dict _) => .error .typeError                   -- unhashable key
  | some _ => .error .invalidConfig                       -- InvalidIndicator
  | none =>
    match getTruthy raw "analysis" with
    | some (.str name) =>
      match AnaFn.ofMapKey name with
      | some fn => constructAmorph fn (derase "analysis" raw)
      | none => .error .invalidConfig                     -- InvalidAnalysis
    | some (.fn f) => constructAmorph f (derase "analysis" raw)   -- `callable(indicator.get("analysis"))`
    | _ => .error .invalidConfig                          -- InvalidAnalysis: missing 'indicator' or 'analysis'

/-! ### from the configuration to the model's tree, name and manager configuration -/

def argStr (args : SDict F) (k dflt : String) : String :=
  match dlookup k args with
  | some (.str s) => s
  | _ => dflt

def argInt? (args : SDict F) (k : String) : Option Int :=
  match dlookup k args with
  | some (.int i) => some i
  | _ => none

/-- the analysis call with its keyword arguments resolved (defaults as in `HexModel/Parse.lean`) -/
def toAnalysis (fn : AnaFn) (args : SDict F) : Analysis :=
  let a := argStr args "indicator_one" "close"
  let b := argStr args "indicator_two" "open"
  let ind := argStr args "indicator" "close"
  let len (d : Int) : Int := (argInt? args "length").getD d
  let lb := argInt? args "lookback"
  match fn with
  | .positive => .positive | .negative => .negative
  | .above => .above ind b | .below => .below ind b
  | .valueRange => .valueRange ind (len 4)
  | .rising => .rising ind (len 1) | .falling => .falling ind (len 1)
  | .meanRising => .meanRising ind (len 4) | .meanFalling => .meanFalling ind (len 4)
  | .highest => .highest ind (len 4) | .lowest => .lowest ind (len 4)
  | .highestbar => .highestbar ind (len 4) | .lowestbar => .lowestbar ind (len 4)
  | .cross => .cross a b (len 1) | .crossover => .crossover a b (len 1) | .crossunder => .crossunder a b (len 1)
  | .doji => .doji lb | .dojistar => .dojistar lb | .hammer => .hammer lb | .invertedHammer => .invHammer lb

def Cls.toKind : Cls F → Kind F
  | .sma p i => .sma p i | .ema i p s => .ema p i s | .rma p i => .rma p i | .wma i p => .wma p i
  | .vwma p => .vwma p | .hma p i => .hma p i | .tr => .tr | .atr p => .atr p | .stdev p i => .stdev p i
  | .bbands p i => .bbands p i | .kc p m i => .kc p i m | .donchian p => .donchian p | .hl p => .hl p
  | .hla => .hla | .supertrend p m i => .supertrend p i m | .stdevthres p m i => .stdevthres p i m
  | .counter i cv => .counter i cv | .rsi p i => .rsi p i | .macd f s g i => .macd f s g i
  | .roc p i => .roc p i | .stoch p s k i => .stoch p s k i | .tsi p s i => .tsi p s i
  | .aroon p => .aroon p | .adx p s => .adx p s | .obv => .obv | .vwap p => .vwap p
  | .amorph fn args => .amorph (toAnalysis fn args)

/-- `_internal_generate_name` tests `if self.fullname_override:` / `if self.name_suffix:` (truthiness);
`mulStr` is `str(multiplier)` (float formatting is not modelled, the caller supplies it) -/
def IndCfg.nameCfg (c : IndCfg F) (mulStr : String) : NameCfg :=
  { override := c.fullname_override.filter (· ≠ ""),
    suffix := c.name_suffix,
    tfName := c.timeframe,
    mulStr := mulStr,
    lengthGiven := match c.cls with
      | .amorph _ args => (argInt? args "length").isSome
      | _ => false }

/-- the top-level tree of the object (same as `Parse.parseInd` builds from protocol tokens) -/
def IndCfg.toInd [PyF F] (c : IndCfg F) (mulStr : String) : Ind F :=
  mkTop c.cls.toKind (fullName c.cls.toKind (c.nameCfg mulStr)) c.round_value.toNat

/-- the configuration of the object's own `CandleManager` (same as `Parse.parseMgrCfg`); the digits of the
timeframe are first read here (`timeframe_to_timedelta`) -/
def IndCfg.mgrCfg (c : IndCfg F) : PyM MgrCfg := do
  let tf ← match c.timeframe with
    | none => pure none
    | some s => do let t ← parseTimeframe s; pure (some t)
  return { tf := tf, fill := c.timeframe_fill, ha := c.candlestick_type.isSome, lifespan := c.candles_lifespan }

/-! ### inside a `Hexital`: the `candle_manager` setter -/

/-- the Hexital-level configuration a member adopts -/
structure HexCfg where
  timeframe : Option String := none
  timeframe_fill : Bool := false
  candles_lifespan : Option Int := none
  candlestick_type : Option CsType := none
  deriving Repr, Inhabited

/-- `_validate_indicators`: every member gets the shared manager of its timeframe, and the setter copies that
manager's `timeframe / timeframe_fill / candles_lifespan / candlestick_type` over the member's own public
fields (its NAME was fixed in `__post_init__` and does not change). -/
def IndCfg.adopt (h : HexCfg) (c : IndCfg F) : IndCfg F :=
  { c with timeframe := (match c.timeframe with | some t => some t | none => h.timeframe),
           timeframe_fill := h.timeframe_fill,
           candles_lifespan := h.candles_lifespan,
           candlestick_type := h.candlestick_type }

end Hex.Settings

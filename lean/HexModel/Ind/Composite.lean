import HexModel.Ind.Simple
/-
`_calculate_reading` of the indicators that write helper series while computing.  The two
framework services they use are passed in as `Ops` (the framework ties the knot).
-/
namespace Hex
variable {F : Type} [PyF F]

/-- framework services available inside `_calculate_reading` -/
structure Ops (F : Type) where
  /-- `self.managed_indicators[key].set_reading(value)` -/
  setManaged : String → Val F → List (Candle F) → PyM (List (Candle F))
  /-- `self.managed_indicators[key].calculate_index(index)` -/
  calcManaged : String → List (Candle F) → PyM (List (Candle F))

-- result of a `_calculate_reading` that may write helper series: the reading and the updated candles

def sdict (kvs : List (String × Scalar F)) : Val F := .dict kvs
def sc (n : Num F) : Scalar F := .num n

/-- scalar view of a reading placed into a dict (a dict inside a dict is not produced by any
shipped indicator) -/
def Val.toScalar : Val F → PyM (Scalar F)
  | .s x => .ok x
  | .dict _ => .error .typeError

namespace Calc

/-- ATR; `trName` is the name of its TR helper series -/
def atr (x : Ctx F) (period : Int) (trName : String) : PyM (Val F) := do
  if ← x.prevExists x.name then
    let prev ← x.prevNum x.name
    let t ← x.num trName
    return .num (← ((prev.mul (.int (period - 1))).add t).truediv (.int period))
  if x.readingPeriod period trName then
    let s ← (← x.candlesSum period trName).asNum
    return .num (← s.truediv (.int period))
  return .none

/-- StandardDeviation (rolling, Welford-style running update) -/
def stdev (ops : Ops F) (x : Ctx F) (period : Int) (input : String) : PyM (Val F × List (Candle F)) := do
  let cur ← x.reading input
  if cur.isNone then return (.none, x.cs)
  let xv ← cur.asNum
  let dataMean := x.name ++ "_data.mean"
  let dataVar := x.name ++ "_data.variance"
  let inRange := x.readingPeriod (period + 1) input (some x.i)
  let removed : Num F ← if inRange then x.num input (some (x.i - period)) else pure (.int 0)
  let oldMean : Num F ← if ← x.prevExists dataMean then x.prevNum dataMean else pure (.int 0)
  let newMean := oldMean.add (← (xv.sub removed).truediv (.int period))
  let var0 : Num F ← if ← x.prevExists dataVar then x.prevNum dataVar else pure (.int 0)
  let variance := var0.add
    (← ((xv.sub removed).mul (((xv.sub newMean).add removed).sub oldMean)).truediv (.int period))
  let cs ← ops.setManaged "STDEV_data" (sdict [("mean", sc newMean), ("variance", sc variance)]) x.cs
  if inRange then
    return (.num (← (Num.max2 variance (fl 0)).sqrt), cs)
  return (.none, cs)

/-- Bollinger Bands -/
def bbands (x : Ctx F) (smaName stdevName : String) : PyM (Val F) := do
  let sma ← x.reading smaName
  let sd ← x.reading stdevName
  if !sma.isNone && !sd.isNone then
    let m ← sma.asNum
    let s ← sd.asNum
    let w := s.mul (fl 2)
    return sdict [("BBL", sc (m.sub w)), ("BBM", ← Val.toScalar sma), ("BBU", sc (m.add w))]
  return sdict [("BBL", .none), ("BBM", .none), ("BBU", .none)]

/-- Keltner Channel -/
def kc (x : Ctx F) (multiplier : Num F) : PyM (Val F) := do
  let ema ← x.reading (x.name ++ "_EMA")
  let atr ← x.reading (x.name ++ "_ATR")
  if ema.isNone || atr.isNone then
    return sdict [("lower", .none), ("band", .none), ("upper", .none)]
  let e ← ema.asNum
  let a ← atr.asNum
  return sdict [("lower", sc (e.sub (multiplier.mul a))), ("band", ← Val.toScalar ema),
                ("upper", sc (e.add (multiplier.mul a)))]

/-- Python `v == 1` for a reading (`None == 1` is `False`, `True == 1` is `True`) -/
def _root_.Hex.Val.isIntOne : Val F → Bool
  | .s (.num n) => n.eq (.int 1)
  | .s (.bool b) => b
  | _ => false

/-- Supertrend -/
def supertrend (ops : Ops F) (x : Ctx F) (multiplier : Num F) : PyM (Val F × List (Candle F)) := do
  let atr ← x.reading (x.name ++ "_atr")
  if atr.isNone then
    return (sdict [("trend", .none), ("direction", sc (.int 1)), ("long", .none), ("short", .none)], x.cs)
  let a ← atr.asNum
  let hl ← x.num (x.name ++ "_HL")
  let mid := multiplier.mul a
  let mut upper := hl.add mid
  let mut lower := hl.sub mid
  let mut direction : Num F := .int 1
  let dLower := x.name ++ "_data.lower"
  let dUpper := x.name ++ "_data.upper"
  if ← x.prevExists dLower then
    let close ← x.num "close"
    let pu ← x.prevNum dUpper
    let pl ← x.prevNum dLower
    -- (repaired code) the previous direction is read first; when the stored bands have crossed and the close is
    -- above the idle band AND below the active one, the break of the ACTIVE band decides
    let pd ← x.prevReading (x.name ++ ".direction")
    let above := close.gt pu
    let below := close.lt pl
    if above && below then
      direction := if pd.isIntOne then .int (-1) else .int 1
    else if above then direction := .int 1
    else if below then direction := .int (-1)
    else
      direction ← x.prevNum (x.name ++ ".direction")
      if direction.eq (.int 1) && lower.lt pl then lower := pl
      if direction.eq (.int (-1)) && upper.gt pu then upper := pu
  let cs ← ops.setManaged "ST_data" (sdict [("upper", sc upper), ("lower", sc lower)]) x.cs
  let isUp := direction.eq (.int 1)
  let isDown := direction.eq (.int (-1))
  return (sdict [("trend", sc (if isUp then lower else upper)), ("direction", sc direction),
                 ("long", if isUp then sc lower else .none),
                 ("short", if isDown then sc upper else .none)], cs)

/-- StandardDeviationThreshold -/
def stdevthres (x : Ctx F) (input : String) (multiplier : Num F) : PyM (Val F) := do
  let sd ← x.reading (x.name ++ "_stdev")
  if sd.isNone then return .bool false
  let cur ← x.num input
  let prev ← x.prevNum input
  let s ← sd.asNum
  return .bool ((cur.sub prev).abs.gt (s.mul multiplier))

/-- RSI -/
def rsi (ops : Ops F) (x : Ctx F) (period : Int) (input : String) : PyM (Val F × List (Candle F)) := do
  let dGain := x.name ++ "_data.gain"
  let dLoss := x.name ++ "_data.loss"
  let mut cs := x.cs
  if ← x.prevExists x.name then
    let change := (← x.prevNum input).sub (← x.num input)
    let gain : Num F := if change.lt (.int 0) then (Num.int (-1)).mul change else fl 0
    let loss : Num F := if change.gt (.int 0) then change else fl 0
    let g ← (((← x.prevNum dGain).mul (.int (period - 1))).add gain).truediv (.int period)
    let l ← (((← x.prevNum dLoss).mul (.int (period - 1))).add loss).truediv (.int period)
    cs ← ops.setManaged "RSI_data" (sdict [("gain", sc g), ("loss", sc l)]) cs
  else if x.readingPeriod (period + 1) input then
    let changes ← (pyRange (x.i - (period - 1)) (x.i + 1)).mapM fun i => do
      return (← x.num input (some i)).sub (← x.num input (some (i - 1)))
    let gains := pySum (changes.filter fun c => c.gt (.int 0))
    let losses := pySum ((changes.filter fun c => c.lt (.int 0)).map Num.abs)
    let g ← gains.truediv (.int period)
    let l ← losses.truediv (.int period)
    cs ← ops.setManaged "RSI_data" (sdict [("gain", sc g), ("loss", sc l)]) cs
  let x' : Ctx F := { x with cs := cs }
  if (← x'.reading (x.name ++ "_data")).truthy then
    let l ← x'.num dLoss
    if l.eq (.int 0) then return (.num (fl 100), cs)
    let g ← x'.num dGain
    let rs ← g.truediv l
    let r := (fl 100 : Num F).sub (← (fl 100 : Num F).truediv ((fl 1).add rs))
    return (.num r, cs)
  cs ← ops.setManaged "RSI_data" .none cs
  return (.none, cs)

/-- MACD -/
def macd (ops : Ops F) (x : Ctx F) : PyM (Val F × List (Candle F)) := do
  let slow ← x.reading (x.name ++ "_EMA_slow")
  if slow.isNone then
    return (sdict [("MACD", .none), ("signal", .none), ("histogram", .none)], x.cs)
  let m := (← x.num (x.name ++ "_EMA_fast")).sub (← slow.asNum)
  -- temporary insert so that the signal EMA can read `<name>.MACD` on this candle
  let cs ← updateAt x.cs x.i fun c => { c with inds := dset x.name (sdict [("MACD", sc m)]) c.inds }
  let cs ← ops.calcManaged "signal" cs
  let x' : Ctx F := { x with cs := cs }
  let signal ← x'.reading (x.name ++ "_signal_line")
  let hist : Scalar F ← if signal.isNone then pure .none else do
    pure (sc (m.sub (← signal.asNum)))
  return (sdict [("MACD", sc m), ("signal", ← Val.toScalar signal), ("histogram", hist)], cs)

/-- Stochastic -/
def stoch (ops : Ops F) (x : Ctx F) (period : Int) (input : String) : PyM (Val F × List (Candle F)) := do
  if !x.readingPeriod period input then
    return (sdict [("stoch", .none), ("k", .none), ("d", .none)], x.cs)
  let idxs := pyRange (x.i - (period - 1)) (x.i + 1)
  let lows ← idxs.mapM fun i => x.num "low" (some i)
  let highs ← idxs.mapM fun i => x.num "high" (some i)
  let lowest ← match Num.minList lows with | some v => pure v | none => .error .valueError
  let highest ← match Num.maxList highs with | some v => pure v | none => .error .valueError
  let range := highest.sub lowest
  let st : Num F ← if range.eq (.int 0) then pure (fl 0) else do
    pure ((← ((← x.num input).sub lowest).truediv range).mul (.int 100))
  let cs ← ops.setManaged "STOCH_data" (sdict [("stoch", sc st)]) x.cs
  let k ← ({ x with cs := cs } : Ctx F).reading (x.name ++ "_k")
  let ks ← Val.toScalar k
  let cs ← ops.setManaged "STOCH_data" (sdict [("stoch", sc st), ("k", ks)]) cs
  let cs ← ops.calcManaged "STOCH_d" cs
  let d ← ({ x with cs := cs } : Ctx F).reading (x.name ++ "_d")
  return (sdict [("stoch", sc st), ("k", ks), ("d", ← Val.toScalar d)], cs)

/-- VWAP -/
def vwap (ops : Ops F) (x : Ctx F) : PyM (Val F × List (Candle F)) := do
  let typical ← (((← x.num "high").add (← x.num "low")).add (← x.num "close")).truediv (.int 3)
  let dPv := x.name ++ "_data.pv"
  let dVol := x.name ++ "_data.vol"
  let hasPrev ← x.prevExists dPv
  let prevPv : Num F ← if hasPrev then x.prevNum dPv else pure (.int 0)
  let prevVol : Num F ← if hasPrev then x.prevNum dVol else pure (.int 0)
  let vol ← x.num "volume"
  let pv := prevPv.add (vol.mul typical)
  let tv := prevVol.add vol
  let cs ← ops.setManaged "VWAP_data" (sdict [("pv", sc pv), ("vol", sc tv)]) x.cs
  if tv.eq (.int 0) then return (.num pv, cs)
  return (.num (← pv.truediv tv), cs)

/-- HMA -/
def hma (ops : Ops F) (x : Ctx F) : PyM (Val F × List (Candle F)) := do
  let w ← x.reading (x.name ++ "_WMA")
  if w.isNone then return (.none, x.cs)
  let raw := ((Num.int 2).mul (← x.num (x.name ++ "_WMAh"))).sub (← w.asNum)
  let cs ← ops.setManaged "raw_HMA" (.num raw) x.cs
  let r ← ({ x with cs := cs } : Ctx F).reading (x.name ++ "_HMAs")
  return (r, cs)

/-- TSI -/
def tsi (ops : Ops F) (x : Ctx F) (input : String) : PyM (Val F × List (Candle F)) := do
  if !x.readingPeriod 2 input then return (.none, x.cs)
  let diff := (← x.num input).sub (← x.prevNum input)
  let cs ← ops.setManaged "TSI_data" (sdict [("price", sc diff), ("abs_price", sc diff.abs)]) x.cs
  let x' : Ctx F := { x with cs := cs }
  let absSecond ← x'.reading (x.name ++ "_abs_second")
  if !absSecond.isNone then
    if (← absSecond.asNum).eq (.int 0) then return (.num (fl 0), cs)
    let q ← (← x'.num (x.name ++ "_second")).truediv (← absSecond.asNum)
    return (.num ((Num.int 100).mul q), cs)
  return (.none, cs)

/-- ADX -/
def adx (ops : Ops F) (x : Ctx F) : PyM (Val F × List (Candle F)) := do
  let none3 : Val F := sdict [("ADX", .none), ("DM_Plus", .none), ("DM_Neg", .none)]
  if !(x.i > 0) then return (none3, x.cs)
  let up := (← x.num "high").sub (← x.num "high" (some (x.i - 1)))
  let down := (← x.num "low" (some (x.i - 1))).sub (← x.num "low")
  let positive : Num F := if up.gt down && up.gt (.int 0) then up else .int 0
  let negative : Num F := if down.gt up && down.gt (.int 0) then down else .int 0
  let cs ← ops.setManaged "ADX_data" (sdict [("pos", sc positive), ("neg", sc negative)]) x.cs
  let x' : Ctx F := { x with cs := cs }
  let atr ← x'.reading (x.name ++ "_atr")
  let pos ← x'.reading (x.name ++ "_pos")
  if atr.isNone || pos.isNone then return (none3, cs)
  let a ← atr.asNum
  let mod : Num F ← if a.eq (.int 0) then pure (fl 0) else (Num.int 100 : Num F).truediv a
  let plus := mod.mul (← pos.asNum)
  let minus := mod.mul (← x'.num (x.name ++ "_neg"))
  let diSum := plus.add minus
  let dx : Num F ← if diSum.eq (.int 0) then pure (fl 0) else
    ((Num.int 100).mul (plus.sub minus).abs).truediv diSum
  let cs ← ops.setManaged "ADX_data"
    (sdict [("pos", sc positive), ("neg", sc negative), ("dx", sc dx)]) cs
  let cs ← ops.calcManaged "dx" cs
  let dxr ← ({ x with cs := cs } : Ctx F).reading (x.name ++ "_dx")
  return (sdict [("ADX", ← Val.toScalar dxr), ("DM_Plus", sc plus), ("DM_Neg", sc minus)], cs)

end Calc
end Hex

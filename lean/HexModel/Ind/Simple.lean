import HexModel.Core.Framework
/-
`_calculate_reading` of the indicators that only read (no helper series written while computing).
Each function mirrors the Python method line by line.
-/
namespace Hex
variable {F : Type} [PyF F]

namespace Calc

/-- SMA -/
def sma (x : Ctx F) (period : Int) (input : String) : PyM (Val F) := do
  if ← x.prevExists x.name then
    let prev ← x.prevNum x.name
    let old ← x.num input (some (x.i - period))
    let cur ← x.num input
    let q ← (old.sub cur).truediv (.int period)
    return .num (prev.sub q)
  if x.readingPeriod period input then
    let s ← (← x.candlesSum period input).asNum
    return .num (← s.truediv (.int period))
  return .none

/-- EMA -/
def ema (x : Ctx F) (period : Int) (input : String) (smoothing : Num F) : PyM (Val F) := do
  if ← x.prevExists x.name then
    let alpha := (← smoothing.truediv ((Num.int period).add (fl 1))).float
    let cur ← x.num input
    let prev ← x.prevNum x.name
    return .num ((alpha.mul cur).add (prev.mul ((fl 1).sub alpha))).float
  if x.readingPeriod period input then
    let s ← (← x.candlesSum period input).asNum
    return .num (← s.truediv (.int period)).float
  return .none

/-- RMA (Wilder) -/
def rma (x : Ctx F) (period : Int) (input : String) : PyM (Val F) := do
  let alpha := (← (fl 1 : Num F).truediv (.int period)).float
  if ← x.prevExists x.name then
    let cur ← x.num input
    let prev ← x.prevNum x.name
    return .num ((alpha.mul cur).add (((fl 1).sub alpha).mul prev)).float
  if x.readingPeriod period input then
    let base := (Num.int 1).sub alpha
    let idxs := pyRangeDown x.i (x.i - period)
    let terms ← (idxs.zipIdx).mapM fun (i, py) => do
      let r ← x.num input (some i)
      return (base.powF py).mul r
    let values := pySum terms
    let divideBy := pySum ((List.range period.toNat).map fun (py : Nat) => base.powF (py : Int))
    return .num (← values.truediv divideBy)
  return .none

/-- WMA -/
def wma (x : Ctx F) (period : Int) (input : String) : PyM (Val F) := do
  if (← x.prevExists x.name) || x.readingPeriod period input then
    let idxs := pyRangeDown x.i (x.i - period)
    let terms ← (idxs.zipIdx).mapM fun (i, py) => do
      let r ← x.num input (some i)
      return r.mul (.int (period - py))
    let values := pySum terms
    let weight ← (Num.int (period * (period + 1)) : Num F).truediv (.int 2)
    return .num (← values.truediv weight)
  return .none

/-- VWMA -/
def vwma (x : Ctx F) (period : Int) : PyM (Val F) := do
  if (← x.prevExists x.name) || x.readingPeriod period "close" then
    let terms ← (pyRange (x.i - (period - 1)) (x.i + 1)).mapM fun i => do
      let c ← x.num "close" (some i)
      let v ← x.num "volume" (some i)
      return c.mul v
    let volumeClose := pySum terms
    let volume ← x.candlesSum period "volume"
    if !volume.truthy then
      let cl ← (← x.candlesSum period "close").asNum
      return .num (← cl.truediv (.int period))
    return .num (← volumeClose.truediv (← volume.asNum))
  return .none

/-- TR -/
def tr (x : Ctx F) : PyM (Val F) := do
  let high ← x.reading "high"
  let low ← x.reading "low"
  if x.readingPeriod 2 "close" then
    let close ← x.prevNum "close"
    let h ← high.asNum
    let l ← low.asNum
    return .num (Num.max2 (Num.max2 (h.sub l) (h.sub close).abs) (l.sub close).abs)
  return .none

/-- HighLowAverage -/
def hla (x : Ctx F) : PyM (Val F) := do
  let h ← x.num "high"
  let l ← x.num "low"
  return .num (← (h.add l).truediv (.int 2))

/-- OBV -/
def obv (x : Ctx F) : PyM (Val F) := do
  if ← x.prevExists x.name then
    let c ← x.num "close"
    let pc ← x.prevNum "close"
    let prev ← x.prevNum x.name
    if c.eq pc then return .num prev
    let v ← x.num "volume"
    if c.gt pc then return .num (prev.add v)
    return .num (prev.sub v)
  x.reading "volume"

/-- ROC -/
def roc (x : Ctx F) (period : Int) (input : String) : PyM (Val F) := do
  if (← x.prevExists x.name) || x.readingPeriod (period + 1) input then
    let back ← x.num input (some (x.i - period))
    let cur ← x.num input
    let q ← (cur.sub back).truediv back
    return .num (q.mul (.int 100))
  return .none

/-- Python `==` between the configured count value and a reading -/
def pyEqScalarVal (a : Scalar F) (b : Val F) : Bool :=
  match a, b with
  | .none, .s .none => true
  | .none, _ => false
  | _, .s .none => false
  | _, .dict _ => false
  | a, .s b =>
    match a.asNum, b.asNum with
    | .ok x, .ok y => x.eq y
    | _, _ => false

/-- Counter -/
def counter (x : Ctx F) (input : String) (countValue : Scalar F) : PyM (Val F) := do
  let reading ← x.reading input
  let prev ← x.prevReading x.name
  let count : Val F := if prev.truthy then prev else .int 0
  if reading.isNone then return count
  if pyEqScalarVal countValue reading then
    let n ← count.asNum
    return .num (n.add (.int 1))
  return .int 0

end Calc
end Hex

import HexModel.Core.Framework
/-
`hexital.analysis.movement` (after the index repairs: windows clamped at candle 0, missing
readings skipped in `cross`).
-/
namespace Hex
variable {F : Type} [PyF F]
namespace Mov

/-- `_get_clean_readings`: newest first, only `float`/`int` (bools count as ints) -/
def cleanScalars (cs : List (Candle F)) (ind : String) (length index : Int) (includeLatest : Bool) :
    List (Scalar F) :=
  let toIndex := if includeLatest then index + 1 else index
  let start := if index - length < 0 then 0 else index - length
  let readings := (pySlice cs start toIndex).map fun c => readingByCandle c ind
  readings.reverse.filterMap fun v =>
    match v with
    | .s (.num n) => some (.num n)
    | .s (.bool b) => some (.bool b)
    | _ => none

/-- numeric value of a clean reading (bools are ints) -/
def scalarNum : Scalar F → Num F
  | .num n => n
  | .bool b => .int (if b then 1 else 0)
  | .none => .int 0

def cleanReadings (cs : List (Candle F)) (ind : String) (length index : Int) (includeLatest : Bool) :
    List (Num F) :=
  (cleanScalars cs ind length index includeLatest).map scalarNum

/-- Python `max`/`min` over clean readings: the first extremal element, type preserved -/
def pickScalar (better : Num F → Num F → Bool) : List (Scalar F) → Option (Scalar F)
  | [] => none
  | x :: xs => some (xs.foldl (fun best y => if better (scalarNum y) (scalarNum best) then y else best) x)

def positive (cs : List (Candle F)) (index : Int) : Val F :=
  if !validIndex index cs.length then .bool false else
  match pyIndex cs index with
  | .ok c => .bool c.positive
  | .error _ => .bool false

def negative (cs : List (Candle F)) (index : Int) : Val F :=
  if !validIndex index cs.length then .bool false else
  match pyIndex cs index with
  | .ok c => .bool c.negative
  | .error _ => .bool false

/-- `above`: both readings numbers -/
def aboveB (cs : List (Candle F)) (a b : String) (index : Int) : PyM Bool := do
  if cs.isEmpty then return false
  let r1 := readingByIndex cs a index
  let r2 := readingByIndex cs b index
  if r1.isNumber && r2.isNumber then
    return (← r1.asNum).gt (← r2.asNum)
  return false

/-- `below`: both readings numbers -/
def belowB (cs : List (Candle F)) (a b : String) (index : Int) : PyM Bool := do
  if cs.isEmpty then return false
  let r1 := readingByIndex cs a index
  let r2 := readingByIndex cs b index
  if r1.isNumber && r2.isNumber then
    return (← r1.asNum).lt (← r2.asNum)
  return false

def above (cs : List (Candle F)) (a b : String) (index : Int) : PyM (Val F) := do
  return .bool (← aboveB cs a b index)
def below (cs : List (Candle F)) (a b : String) (index : Int) : PyM (Val F) := do
  return .bool (← belowB cs a b index)

def valueRange (cs : List (Candle F)) (ind : String) (length index : Int) : PyM (Val F) :=
  match absIndex index cs.length with
  | none => .ok .none
  | some i =>
    if length < 2 then .ok .none else
    let rs := cleanReadings cs ind length i true
    if rs.length < 2 then .ok .none else
    match Num.minList rs, Num.maxList rs with
    | some lo, some hi => .ok (.num (lo.sub hi).abs)
    | _, _ => .ok .none

/-- shared by rising / falling; `cmp r latest` = the comparison that makes the predicate false -/
def monotone (cs : List (Candle F)) (ind : String) (length index : Int)
    (bad : Num F → Num F → Bool) : PyM (Val F) :=
  match absIndex index cs.length with
  | none => .ok (.bool false)
  | some i =>
    if length < 1 || cs.length < 2 then .ok (.bool false) else do
    let c ← pyIndex cs index
    let latest := readingByCandle c ind
    match latest with
    | .s .none => return .bool false
    | .dict _ => return .bool false
    | _ =>
      let l ← latest.asNum
      let rs := cleanReadings cs ind length i false
      if rs.isEmpty then return .bool false
      return .bool (!(rs.any fun r => bad r l))

def rising (cs : List (Candle F)) (ind : String) (length index : Int) : PyM (Val F) :=
  monotone cs ind length index fun r l => r.ge l
def falling (cs : List (Candle F)) (ind : String) (length index : Int) : PyM (Val F) :=
  monotone cs ind length index fun r l => r.le l

def meanCmp (cs : List (Candle F)) (ind : String) (length index : Int)
    (good : Num F → Num F → Bool) : PyM (Val F) :=
  match absIndex index cs.length with
  | none => .ok (.bool false)
  | some i =>
    if length < 1 || cs.length < 2 then .ok (.bool false) else do
    let c ← pyIndex cs i
    let latest := readingByCandle c ind
    match latest with
    | .s .none => return .bool false
    | .dict _ => return .bool false
    | _ =>
      let l ← latest.asNum
      let rs := cleanReadings cs ind length i false
      if rs.isEmpty then return .bool false
      let mean ← (pySum rs).truediv (.int rs.length)
      return .bool (good mean l)

def meanRising (cs : List (Candle F)) (ind : String) (length index : Int) : PyM (Val F) :=
  meanCmp cs ind length index fun m l => m.lt l
def meanFalling (cs : List (Candle F)) (ind : String) (length index : Int) : PyM (Val F) :=
  meanCmp cs ind length index fun m l => m.gt l

/-- `max(readings, default=False)`; `x if x is not False else None` -/
def extreme (cs : List (Candle F)) (ind : String) (length index : Int)
    (better : Num F → Num F → Bool) : PyM (Val F) :=
  match absIndex index cs.length with
  | none => .ok (.bool false)
  | some i =>
    if length < 1 || cs.isEmpty then .ok (.bool false) else
    match pickScalar better (cleanScalars cs ind length i true) with
    | some (.bool false) => .ok .none
    | some v => .ok (.s v)
    | none => .ok .none

def highest (cs : List (Candle F)) (ind : String) (length index : Int) : PyM (Val F) :=
  extreme cs ind length index fun y best => y.gt best
def lowest (cs : List (Candle F)) (ind : String) (length index : Int) : PyM (Val F) :=
  extreme cs ind length index fun y best => y.lt best

/-- shared by highestbar / lowestbar: offset of the (first seen, i.e. most recent) extreme -/
def extremeBar (cs : List (Candle F)) (ind : String) (length index : Int)
    (better : Num F → Num F → Bool) : PyM (Val F) :=
  match absIndex index cs.length with
  | none => .ok .none
  | some i => do
    let stop := if i - length < -1 then -1 else i - length
    let idxs := pyRangeDown i stop
    let (_, dist) ← (idxs.zipIdx).foldlM (fun (acc : Option (Num F) × Int) (p : Int × Nat) => do
        let cur := readingByIndex cs ind p.1
        if !cur.isNumber then return acc
        let c ← cur.asNum
        match acc.1 with
        | none => return (some c, (p.2 : Int))
        | some best => if better best c then return (some c, (p.2 : Int)) else return acc)
      ((none : Option (Num F)), (0 : Int))
    return .int dist

def highestbar (cs : List (Candle F)) (ind : String) (length index : Int) : PyM (Val F) :=
  extremeBar cs ind length index fun best c => best.lt c
def lowestbar (cs : List (Candle F)) (ind : String) (length index : Int) : PyM (Val F) :=
  extremeBar cs ind length index fun best c => best.gt c

/-- indices `range(index_, max(index_ - length, 0), -1)`: every idx has a predecessor -/
def crossIdxs (i length : Int) : List Int :=
  pyRangeDown i (if i - length < 0 then 0 else i - length)

def cross (cs : List (Candle F)) (a b : String) (length index : Int) : PyM (Val F) :=
  match absIndex index cs.length with
  | none => .ok (.bool false)
  | some i => do
    let hit ← (crossIdxs i length).anyM fun idx => do
      let r1 := readingByIndex cs b idx
      let r2 := readingByIndex cs a idx
      let p1 := readingByIndex cs a (idx - 1)
      let p2 := readingByIndex cs b (idx - 1)
      if !(r1.isNumber && r2.isNumber && p1.isNumber && p2.isNumber) then return false
      let r1 ← r1.asNum; let r2 ← r2.asNum; let p1 ← p1.asNum; let p2 ← p2.asNum
      return (r1.lt r2 && p1.le p2) || (r1.gt r2 && p1.ge p2)
    return .bool hit

def crossover (cs : List (Candle F)) (a b : String) (length index : Int) : PyM (Val F) :=
  match absIndex index cs.length with
  | none => .ok (.bool false)
  | some i => do
    let hit ← (crossIdxs i length).anyM fun idx => do
      if ← aboveB cs a b idx then belowB cs a b (idx - 1) else pure false
    return .bool hit

def crossunder (cs : List (Candle F)) (a b : String) (length index : Int) : PyM (Val F) :=
  match absIndex index cs.length with
  | none => .ok (.bool false)
  | some i => do
    let hit ← (crossIdxs i length).anyM fun idx => do
      if ← belowB cs a b idx then aboveB cs a b (idx - 1) else pure false
    return .bool hit

end Mov

namespace Calc

/-- Donchian -/
def donchian (x : Ctx F) (period : Int) : PyM (Val F) := do
  let prevU ← x.prevReading (x.name ++ ".DCU")
  if !prevU.isNone || x.readingPeriod period "high" (some x.i) then
    let u ← Mov.highest x.cs "high" (period - 1) x.i
    let l ← Mov.lowest x.cs "low" (period - 1) x.i
    let m ← ((← u.asNum).add (← l.asNum)).truediv (.int 2)
    let us ← match u with | .s s => pure s | _ => .error .typeError
    let ls ← match l with | .s s => pure s | _ => .error .typeError
    return .dict [("DCL", ls), ("DCM", .num m), ("DCU", us)]
  return .dict [("DCL", .none), ("DCM", .none), ("DCU", .none)]

/-- HighestLowest -/
def hl (x : Ctx F) (period : Int) : PyM (Val F) := do
  let l ← Mov.lowest x.cs "low" period x.i
  let h ← Mov.highest x.cs "high" period x.i
  let ls ← match l with | .s s => pure s | _ => .error .typeError
  let hs ← match h with | .s s => pure s | _ => .error .typeError
  return .dict [("low", ls), ("high", hs)]

/-- Aroon -/
def aroon (x : Ctx F) (period : Int) : PyM (Val F) := do
  if x.readingPeriod (period + 1) "high" then
    let hb ← (← Mov.highestbar x.cs "high" (period + 1) x.i).asNum
    let lb ← (← Mov.lowestbar x.cs "low" (period + 1) x.i).asNum
    let u := (← ((Num.int period).sub hb).truediv (.int period)).mul (.int 100)
    let d := (← ((Num.int period).sub lb).truediv (.int period)).mul (.int 100)
    return .dict [("AROONU", .num u), ("AROOND", .num d), ("AROONOSC", .num (u.sub d))]
  return .dict [("AROONU", .none), ("AROOND", .none), ("AROONOSC", .none)]

end Calc
end Hex

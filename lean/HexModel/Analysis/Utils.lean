import HexModel.Analysis.Patterns
/-
`hexital.analysis.utils` as PUBLIC functions: every helper with its own signature (`index: Optional[int] = None`,
`length` defaults, `percentage`), including the ones no pattern calls.  The helpers the patterns do call are the
definitions of `HexModel/Analysis/Patterns.lean` (`Pat.avgOf`, `Pat.realbodyAvg`, `Pat.highLowAvg`,
`Pat.realbodyGapUp/Down`, `Pat.lit`); this file re-uses them and states (by `rfl`) that the general forms
specialise to them.

What the code does, not what one might expect of it:
* the index is NOT normalised: `index + 1` is the (exclusive) end of a `range`, so a negative index gives an
  empty window (`0 / length = 0.0`), `candles[index]` is only used by `candle_shadow_long / _verylong`
  (there a negative index wraps, Python style);
* the divisor is always `length`, also when the window was clamped at 0 (fewer than `length` candles);
* `length = 0` raises ZeroDivisionError (after the - empty - window was read), a negative length gives `-0.0`;
* an index past the end raises IndexError from inside the sum (before the division).
-/
namespace Hex
variable {F : Type} [PyF F]
namespace AUtils

/-- `if index is None: index = len(candles) - 1` -/
def defIndex (cs : List (Candle F)) (index : Option Int) : Int := index.getD ((cs.length : Int) - 1)

/-! the four window averages -/
def realbodyAvg (cs : List (Candle F)) (length : Int) (index : Option Int) : PyM (Num F) :=
  Pat.realbodyAvg cs length (defIndex cs index)
def highLowAvg (cs : List (Candle F)) (length : Int) (index : Option Int) : PyM (Num F) :=
  Pat.highLowAvg cs length (defIndex cs index)
def shadowUpperAvg (cs : List (Candle F)) (length : Int) (index : Option Int) : PyM (Num F) :=
  Pat.avgOf Candle.shadowUpper cs length (defIndex cs index)
def shadowLowerAvg (cs : List (Candle F)) (length : Int) (index : Option Int) : PyM (Num F) :=
  Pat.avgOf Candle.shadowLower cs length (defIndex cs index)

/-! gaps between two candles -/
def realbodyGapUp (c c2 : Candle F) : Bool := Pat.realbodyGapUp c c2
def realbodyGapDown (c c2 : Candle F) : Bool := Pat.realbodyGapDown c c2
def candleGapUp (c c2 : Candle F) : Bool := c.l.gt c2.h
def candleGapDown (c c2 : Candle F) : Bool := c.h.lt c2.l

/-- the default `percentage=1.0` -/
def one : Num F := fl 1

/-- `_realbody_percentage(candles, index, percentage, length)` -/
def realbodyPercentage (cs : List (Candle F)) (index : Option Int) (percentage : Num F := one) (length : Int := 10) :
    PyM (Num F) := do
  return (← realbodyAvg cs length (some (defIndex cs index))).mul percentage

/-- `_high_low_percentage(candles, index, percentage, length)` -/
def highLowPercentage (cs : List (Candle F)) (index : Option Int) (percentage : Num F := one) (length : Int := 10) :
    PyM (Num F) := do
  return (← highLowAvg cs length (some (defIndex cs index))).mul percentage

/-! the TA-Lib style settings -/
def candleDoji (cs : List (Candle F)) (index : Option Int) (length : Int := 10) : PyM (Num F) :=
  highLowPercentage cs index (Pat.lit 1 10) length
def candleBodyLong (cs : List (Candle F)) (index : Option Int) (length : Int := 10) : PyM (Num F) :=
  realbodyPercentage cs index one length
/-- `percentage=3`: an int -/
def candleBodyVeryLong (cs : List (Candle F)) (index : Option Int) (length : Int := 10) : PyM (Num F) :=
  realbodyPercentage cs index (.int 3) length
def candleBodyShort (cs : List (Candle F)) (index : Option Int) (length : Int := 10) : PyM (Num F) :=
  realbodyPercentage cs index one length
def candleShadowVeryShort (cs : List (Candle F)) (index : Option Int) (length : Int := 10) : PyM (Num F) :=
  highLowPercentage cs index (Pat.lit 1 10) length
def candleShadowShort (cs : List (Candle F)) (index : Option Int) (length : Int := 10) : PyM (Num F) :=
  highLowPercentage cs index one length
/-- `candles[index].realbody` (a negative index wraps) -/
def candleShadowLong (cs : List (Candle F)) (index : Option Int) : PyM (Num F) :=
  Pat.candleShadowLong cs (defIndex cs index)
/-- `candles[index].realbody * 2` -/
def candleShadowVeryLong (cs : List (Candle F)) (index : Option Int) : PyM (Num F) := do
  return (← pyIndex cs (defIndex cs index)).realbody.mul (.int 2)
def candleNear (cs : List (Candle F)) (index : Option Int) (length : Int := 5) : PyM (Num F) :=
  highLowPercentage cs index (Pat.lit 2 10) length
def candleFar (cs : List (Candle F)) (index : Option Int) (length : Int := 5) : PyM (Num F) :=
  highLowPercentage cs index (Pat.lit 6 10) length
def candleEqual (cs : List (Candle F)) (index : Option Int) (length : Int := 5) : PyM (Num F) :=
  highLowPercentage cs index (Pat.lit 5 100) length

/-! the forms the patterns use are these at the default length and a given index -/
theorem candleDoji_eq (cs : List (Candle F)) (i : Int) : candleDoji cs (some i) = Pat.candleDoji cs i := rfl
theorem candleBodyLong_eq (cs : List (Candle F)) (i : Int) : candleBodyLong cs (some i) = Pat.candleBodyLong cs i := rfl
theorem candleBodyShort_eq (cs : List (Candle F)) (i : Int) : candleBodyShort cs (some i) = Pat.candleBodyShort cs i := rfl
theorem candleShadowVeryShort_eq (cs : List (Candle F)) (i : Int) :
    candleShadowVeryShort cs (some i) = Pat.candleShadowVeryShort cs i := rfl
theorem candleShadowLong_eq (cs : List (Candle F)) (i : Int) : candleShadowLong cs (some i) = Pat.candleShadowLong cs i := rfl
theorem candleNear_eq (cs : List (Candle F)) (i : Int) : candleNear cs (some i) = Pat.candleNear cs i := rfl

/-- the functions by their Python names, for the driver: `length = none` is the function's own default -/
inductive Fn
  | realbodyAvg | highLowAvg | shadowUpperAvg | shadowLowerAvg
  | realbodyPercentage | highLowPercentage
  | candleDoji | candleBodyLong | candleBodyVeryLong | candleBodyShort | candleShadowVeryShort | candleShadowShort
  | candleShadowLong | candleShadowVeryLong | candleNear | candleFar | candleEqual
  deriving DecidableEq, Repr

def Fn.ofName : String → Option Fn
  | "realbody_avg" => some .realbodyAvg | "high_low_avg" => some .highLowAvg
  | "shadow_upper_avg" => some .shadowUpperAvg | "shadow_lower_avg" => some .shadowLowerAvg
  | "_realbody_percentage" => some .realbodyPercentage | "_high_low_percentage" => some .highLowPercentage
  | "candle_doji" => some .candleDoji | "candle_bodylong" => some .candleBodyLong
  | "candle_bodyverylong" => some .candleBodyVeryLong | "candle_bodyshort" => some .candleBodyShort
  | "candle_shadow_veryshort" => some .candleShadowVeryShort | "candle_shadow_short" => some .candleShadowShort
  | "candle_shadow_long" => some .candleShadowLong | "candle_shadow_verylong" => some .candleShadowVeryLong
  | "candle_near" => some .candleNear | "candle_far" => some .candleFar | "candle_equal" => some .candleEqual
  | _ => none

/-- a call `fn(candles, [length=…,] [index=…,] [percentage=…])`; the `*_avg` functions have no default length
(the caller always passes one: `length = none` is read as 10 there only to keep the function total) -/
def Fn.call (f : Fn) (cs : List (Candle F)) (length : Option Int) (index : Option Int) (percentage : Option (Num F)) :
    PyM (Num F) :=
  let l10 := length.getD 10
  let l5 := length.getD 5
  let pct := percentage.getD one
  match f with
  | .realbodyAvg => AUtils.realbodyAvg cs l10 index
  | .highLowAvg => AUtils.highLowAvg cs l10 index
  | .shadowUpperAvg => AUtils.shadowUpperAvg cs l10 index
  | .shadowLowerAvg => AUtils.shadowLowerAvg cs l10 index
  | .realbodyPercentage => AUtils.realbodyPercentage cs index pct l10
  | .highLowPercentage => AUtils.highLowPercentage cs index pct l10
  | .candleDoji => AUtils.candleDoji cs index l10
  | .candleBodyLong => AUtils.candleBodyLong cs index l10
  | .candleBodyVeryLong => AUtils.candleBodyVeryLong cs index l10
  | .candleBodyShort => AUtils.candleBodyShort cs index l10
  | .candleShadowVeryShort => AUtils.candleShadowVeryShort cs index l10
  | .candleShadowShort => AUtils.candleShadowShort cs index l10
  | .candleShadowLong => AUtils.candleShadowLong cs index
  | .candleShadowVeryLong => AUtils.candleShadowVeryLong cs index
  | .candleNear => AUtils.candleNear cs index l5
  | .candleFar => AUtils.candleFar cs index l5
  | .candleEqual => AUtils.candleEqual cs index l5

/-- the two-candle predicates `fn(candles[i], candles[j])` (the indexing is the caller's: IndexError comes from there) -/
def gapCall (name : String) (cs : List (Candle F)) (i j : Int) : PyM (Option Bool) := do
  let c ← pyIndex cs i
  let c2 ← pyIndex cs j
  match name with
  | "realbody_gapup" => return some (realbodyGapUp c c2)
  | "realbody_gapdown" => return some (realbodyGapDown c c2)
  | "candle_gapup" => return some (candleGapUp c c2)
  | "candle_gapdown" => return some (candleGapDown c c2)
  | _ => return none

end AUtils
end Hex

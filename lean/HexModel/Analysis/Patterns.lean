import HexModel.Core.Framework
/-
`hexital.analysis.patterns` and the TA-Lib style helpers of `hexital.analysis.utils`
(after the index repairs: the index is normalised, `lookback` is anchored at the index).
-/
namespace Hex
variable {F : Type} [PyF F]
namespace Pat

/-- the float literal `p/q` for small integers (correctly rounded division = the literal) -/
def lit (p q : Int) : Num F := .flt (PyF.div (PyF.ofInt p) (PyF.ofInt q))

/-- `sum(f(candles[i]) for i in range(start, index+1)) / length`, window clamped at 0 -/
def avgOf (f : Candle F → Num F) (cs : List (Candle F)) (length index : Int) : PyM (Num F) := do
  let idx := index + 1
  let start := if idx - length < 0 then 0 else idx - length
  let vals ← (pyRange start idx).mapM fun i => do return f (← pyIndex cs i)
  (pySum vals).truediv (.int length)

def realbodyAvg (cs : List (Candle F)) (length index : Int) : PyM (Num F) := avgOf Candle.realbody cs length index
def highLowAvg (cs : List (Candle F)) (length index : Int) : PyM (Num F) := avgOf Candle.highLow cs length index

def candleDoji (cs : List (Candle F)) (index : Int) : PyM (Num F) := do
  return (← highLowAvg cs 10 index).mul (lit 1 10)
def candleBodyLong (cs : List (Candle F)) (index : Int) : PyM (Num F) := do
  return (← realbodyAvg cs 10 index).mul (fl 1)
def candleBodyShort (cs : List (Candle F)) (index : Int) : PyM (Num F) := candleBodyLong cs index
def candleShadowVeryShort (cs : List (Candle F)) (index : Int) : PyM (Num F) := candleDoji cs index
def candleShadowLong (cs : List (Candle F)) (index : Int) : PyM (Num F) := do
  return (← pyIndex cs index).realbody
def candleNear (cs : List (Candle F)) (index : Int) : PyM (Num F) := do
  return (← highLowAvg cs 5 index).mul (lit 2 10)

def realbodyGapUp (c c2 : Candle F) : Bool := (Num.min2 c.o c.c).gt (Num.max2 c2.o c2.c)
def realbodyGapDown (c c2 : Candle F) : Bool := (Num.max2 c.o c.c).lt (Num.min2 c2.o c2.c)

/-- common driver: normalise the index, evaluate at it or over the lookback window -/
def pattern (one : List (Candle F) → Int → PyM Bool) (cs : List (Candle F))
    (lookback : Option Int) (index : Option Int) : PyM (Val F) := do
  let idx : Option Int := match index with
    | none => some (cs.length - 1)
    | some i => absIndex i cs.length
  match idx with
  | none => return .bool false
  | some i =>
    let at_ (j : Int) : PyM Bool := if j < 10 then pure false else one cs j
    match lookback with
    | none => return .bool (← at_ i)
    | some lb => return .bool (← (pyRange (if i + 1 - lb < 0 then 0 else i + 1 - lb) (i + 1)).anyM at_)

def dojiAt (cs : List (Candle F)) (j : Int) : PyM Bool := do
  return (← pyIndex cs j).realbody.lt (← candleDoji cs j)

def dojistarAt (cs : List (Candle F)) (j : Int) : PyM Bool := do
  let c ← pyIndex cs j
  let p ← pyIndex cs (j - 1)
  if !(p.realbody.gt (← candleBodyLong cs (j - 1))) then return false
  if !(c.realbody.le (← candleDoji cs j)) then return false
  return (p.positive && realbodyGapUp c p) || (p.negative && realbodyGapDown c p)

def hammerAt (cs : List (Candle F)) (j : Int) : PyM Bool := do
  let c ← pyIndex cs j
  if !(c.realbody.lt (← candleBodyShort cs j)) then return false
  if !(c.shadowLower.gt (← candleShadowLong cs j)) then return false
  if !(c.shadowUpper.lt (← candleShadowVeryShort cs j)) then return false
  let p ← pyIndex cs (j - 1)
  return (Num.min2 c.c c.o).le (p.l.add (← candleNear cs (j - 1)))

def invHammerAt (cs : List (Candle F)) (j : Int) : PyM Bool := do
  let c ← pyIndex cs j
  let p ← pyIndex cs (j - 1)
  if !(c.realbody.lt (← candleBodyShort cs j)) then return false
  if !(c.shadowUpper.gt (← candleShadowLong cs j)) then return false
  if !(c.shadowLower.lt (← candleShadowVeryShort cs j)) then return false
  return realbodyGapDown c p

def doji (cs : List (Candle F)) (lb : Option Int) (index : Option Int) : PyM (Val F) := pattern dojiAt cs lb index
def dojistar (cs : List (Candle F)) (lb : Option Int) (index : Option Int) : PyM (Val F) := pattern dojistarAt cs lb index
def hammer (cs : List (Candle F)) (lb : Option Int) (index : Option Int) : PyM (Val F) := pattern hammerAt cs lb index
def invHammer (cs : List (Candle F)) (lb : Option Int) (index : Option Int) : PyM (Val F) := pattern invHammerAt cs lb index

end Pat
end Hex

import HexModel.Wire
import HexModel.Core.Indicator
/-
Building indicator trees from protocol parameters (driver side only).
-/
namespace Hex.Parse
open Hex Hex.Wire

def pInt (ps : List (String × String)) (k : String) (dflt : Int) : Int :=
  ((param ps k).bind String.toInt?).getD dflt
def pStr (ps : List (String × String)) (k : String) (dflt : String) : String := (param ps k).getD dflt
def pNum (ps : List (String × String)) (k : String) (dflt : Num Float) : Num Float :=
  ((param ps k).bind parseNum).getD dflt

def parseScalar (s : String) : Option (Scalar Float) :=
  if s = "n" then some .none
  else if s = "b:1" then some (.bool true) else if s = "b:0" then some (.bool false)
  else (parseNum s).map Scalar.num

/-- `n`, `b:0`, `i:..`, `f:..` or a dict `{k=v;k=v}` -/
def parseVal (s : String) : Option (Val Float) :=
  if s.startsWith "{" && s.endsWith "}" then
    let body := ((s.drop 1).dropEnd 1).toString
    if body.isEmpty then some (.dict []) else
    let kvs := (body.splitOn ";").filterMap fun kv =>
      match kv.splitOn "=" with
      | [k, v] => (parseScalar v).map fun x => (k, x)
      | _ => none
    some (.dict kvs)
  else (parseScalar s).map Val.s

def parseAnalysis (ps : List (String × String)) : Option Analysis :=
  let a := pStr ps "a" "close"; let b := pStr ps "b" "open"
  let ind := pStr ps "ind" "close"
  let lb : Option Int := (param ps "lookback").bind String.toInt?
  match param ps "fn" with
  | some "positive" => some .positive | some "negative" => some .negative
  | some "above" => some (.above a b) | some "below" => some (.below a b)
  | some "value_range" => some (.valueRange ind (pInt ps "length" 4))
  | some "rising" => some (.rising ind (pInt ps "length" 1))
  | some "falling" => some (.falling ind (pInt ps "length" 1))
  | some "mean_rising" => some (.meanRising ind (pInt ps "length" 4))
  | some "mean_falling" => some (.meanFalling ind (pInt ps "length" 4))
  | some "highest" => some (.highest ind (pInt ps "length" 4))
  | some "lowest" => some (.lowest ind (pInt ps "length" 4))
  | some "highestbar" => some (.highestbar ind (pInt ps "length" 4))
  | some "lowestbar" => some (.lowestbar ind (pInt ps "length" 4))
  | some "cross" => some (.cross a b (pInt ps "length" 1))
  | some "crossover" => some (.crossover a b (pInt ps "length" 1))
  | some "crossunder" => some (.crossunder a b (pInt ps "length" 1))
  | some "doji" => some (.doji lb) | some "dojistar" => some (.dojistar lb)
  | some "hammer" => some (.hammer lb) | some "inv_hammer" => some (.invHammer lb)
  | _ => none

def parseKind (ps : List (String × String)) : Option (Kind Float) :=
  let input := pStr ps "input" "close"
  let f2 : Num Float := .flt 2.0
  match param ps "kind" with
  | some "SMA" => some (.sma (pInt ps "period" 10) input)
  | some "EMA" => some (.ema (pInt ps "period" 10) input (pNum ps "smoothing" f2))
  | some "RMA" => some (.rma (pInt ps "period" 10) input)
  | some "WMA" => some (.wma (pInt ps "period" 10) input)
  | some "VWMA" => some (.vwma (pInt ps "period" 10))
  | some "HMA" => some (.hma (pInt ps "period" 10) input)
  | some "TR" => some .tr
  | some "ATR" => some (.atr (pInt ps "period" 14))
  | some "STDEV" => some (.stdev (pInt ps "period" 30) input)
  | some "BBANDS" => some (.bbands (pInt ps "period" 5) input)
  | some "KC" => some (.kc (pInt ps "period" 20) input (pNum ps "multiplier" f2))
  | some "DONCHIAN" => some (.donchian (pInt ps "period" 20))
  | some "HL" => some (.hl (pInt ps "period" 100))
  | some "HLA" => some .hla
  | some "SUPERTREND" => some (.supertrend (pInt ps "period" 7) input (pNum ps "multiplier" (.flt 3.0)))
  | some "STDEVTHRES" => some (.stdevthres (pInt ps "period" 10) input (pNum ps "multiplier" f2))
  | some "COUNTER" => some (.counter input (((param ps "cv").bind parseScalar).getD (.bool true)))
  | some "RSI" => some (.rsi (pInt ps "period" 14) input)
  | some "MACD" =>
    let f := pInt ps "fast" 12; let s := pInt ps "slow" 26
    let (f, s) := if s < f then (s, f) else (f, s)
    some (.macd f s (pInt ps "signal" 9) input)
  | some "ROC" => some (.roc (pInt ps "period" 10) input)
  | some "STOCH" => some (.stoch (pInt ps "period" 14) (pInt ps "slow" 3) (pInt ps "smoothk" 3) input)
  | some "TSI" =>
    let p := pInt ps "period" 25
    let sm := match (param ps "smooth").bind String.toInt? with
      | some s => s
      | none => p / 2 + (if p % 2 > 0 then 1 else 0)
    some (.tsi p sm input)
  | some "AROON" => some (.aroon (pInt ps "period" 14))
  | some "ADX" =>
    let p := pInt ps "period" 14
    some (.adx p (((param ps "signal").bind String.toInt?).getD p))
  | some "OBV" => some .obv
  | some "VWAP" => some (.vwap (pInt ps "period" 10))
  | some "AMORPH" => (parseAnalysis ps).map Kind.amorph
  | _ => none

def parseNameCfg (ps : List (String × String)) : NameCfg :=
  { override := param ps "name", suffix := param ps "suffix",
    tfName := (param ps "tf").map String.toUpper,
    mulStr := pStr ps "mulstr" "", lengthGiven := param ps "lengiven" == some "1" }

def parseMgrCfg (ps : List (String × String)) : PyM MgrCfg := do
  let tf ← match param ps "tf" with
    | none => pure none
    | some s => do let t ← parseTimeframe s; pure (some t)
  return { tf := tf, fill := param ps "fill" == some "1", ha := param ps "ha" == some "1",
           lifespan := (param ps "life").bind String.toInt? }

/-- the top-level tree of an indicator described by protocol parameters -/
def parseInd (ps : List (String × String)) : Option (Ind Float) := do
  let k ← parseKind ps
  let name := fullName k (parseNameCfg ps)
  some (mkTop k name (pInt ps "round" 4).toNat)

end Hex.Parse

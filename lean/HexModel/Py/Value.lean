/-
Python values as far as Hexital needs them, generic over the float carrier `F`.
NO Mathlib import anywhere under HexModel (the driver is linked natively).
-/
namespace Hex

/-- Python exceptions, collapsed to the kinds the library can raise. -/
inductive PyErr
  | typeError | zeroDiv | indexError | valueError | keyError | attributeError
  | invalidCandleOrder | alreadyTagged | invalidConfig | diverges | fuel | other
  deriving DecidableEq, Repr, Inhabited

def PyErr.toString : PyErr → String
  | .typeError => "typeError" | .zeroDiv => "zeroDiv" | .indexError => "indexError"
  | .valueError => "valueError" | .keyError => "keyError" | .attributeError => "attributeError"
  | .invalidCandleOrder => "invalidCandleOrder" | .alreadyTagged => "alreadyTagged"
  | .invalidConfig => "invalidConfig" | .diverges => "diverges" | .fuel => "fuel" | .other => "other"

instance : ToString PyErr := ⟨PyErr.toString⟩

abbrev PyM := Except PyErr

/-- The float carrier.  `Float` for execution (bit-exact against CPython), any type for the
structural theorems, an ordered field with an abstract rounding for the numeric ones. -/
class PyF (F : Type) where
  add : F → F → F
  sub : F → F → F
  mul : F → F → F
  div : F → F → F            -- callers check the divisor with `isZero` first
  neg : F → F
  abs : F → F
  sqrt : F → F               -- callers check the sign first
  pow : F → F → F            -- C `pow`
  ofInt : Int → F
  lt : F → F → Bool
  le : F → F → Bool
  beq : F → F → Bool
  isZero : F → Bool          -- x == 0.0 (also -0.0)
  isFinite : F → Bool
  round : Nat → F → F        -- Python `round(x, n)`, n ≥ 0

/-- Python `int` / `float`. -/
inductive Num (F : Type)
  | int (i : Int)
  | flt (x : F)
  deriving Repr, Inhabited

/-- `None`, `bool`, or a number. -/
inductive Scalar (F : Type)
  | none
  | bool (b : Bool)
  | num (n : Num F)
  deriving Repr, Inhabited

/-- An indicator reading: a scalar or a flat dict of scalars (insertion ordered). -/
inductive Val (F : Type)
  | s (x : Scalar F)
  | dict (kvs : List (String × Scalar F))
  deriving Repr, Inhabited

variable {F : Type}

abbrev Val.none : Val F := .s .none
abbrev Val.num (n : Num F) : Val F := .s (.num n)
abbrev Val.int (i : Int) : Val F := .s (.num (.int i))
abbrev Val.flt (x : F) : Val F := .s (.num (.flt x))
abbrev Val.bool (b : Bool) : Val F := .s (.bool b)

def Val.isNone : Val F → Bool
  | .s .none => true
  | _ => false

def Scalar.isNone : Scalar F → Bool
  | .none => true
  | _ => false

/-! ### association lists with Python-dict update semantics (replace in place, else append) -/

def dlookup {α : Type} (k : String) : List (String × α) → Option α
  | [] => Option.none
  | (k', v) :: r => if k' = k then some v else dlookup k r

def dset {α : Type} (k : String) (v : α) : List (String × α) → List (String × α)
  | [] => [(k, v)]
  | (k', v') :: r => if k' = k then (k, v) :: r else (k', v') :: dset k v r

def derase {α : Type} (k : String) : List (String × α) → List (String × α)
  | [] => []
  | (k', v') :: r => if k' = k then derase k r else (k', v') :: derase k r

def dhas {α : Type} (k : String) (l : List (String × α)) : Bool := (dlookup k l).isSome

@[simp] theorem dlookup_nil {α : Type} (k : String) : dlookup k ([] : List (String × α)) = Option.none := rfl

theorem dlookup_dset {α : Type} (k k2 : String) (v : α) (l : List (String × α)) :
    dlookup k2 (dset k v l) = if k = k2 then some v else dlookup k2 l := by
  induction l with
  | nil => simp [dset, dlookup]
  | cons p r ih =>
    obtain ⟨k', v'⟩ := p
    by_cases h : k' = k
    · subst h; by_cases h2 : k' = k2 <;> simp [dset, dlookup, h2]
    · by_cases h2 : k' = k2
      · subst h2; simp [dset, dlookup, h]; intro hk; exact absurd hk.symm h
      · simp [dset, dlookup, h, h2, ih]

theorem dlookup_dset_self {α : Type} (k : String) (v : α) (l : List (String × α)) :
    dlookup k (dset k v l) = some v := by simp [dlookup_dset]

theorem dlookup_dset_ne {α : Type} (k k2 : String) (v : α) (l : List (String × α)) (h : k ≠ k2) :
    dlookup k2 (dset k v l) = dlookup k2 l := by simp [dlookup_dset, h]

theorem dlookup_derase {α : Type} (k k2 : String) (l : List (String × α)) :
    dlookup k2 (derase k l) = if k = k2 then Option.none else dlookup k2 l := by
  induction l with
  | nil => simp [derase, dlookup]
  | cons p r ih =>
    obtain ⟨k', v'⟩ := p
    by_cases h : k' = k
    · subst h; by_cases h2 : k' = k2
      · subst h2; simp [derase, ih]
      · simp [derase, dlookup, h2, ih]
    · by_cases h2 : k' = k2
      · subst h2; simp [derase, dlookup, h]; intro hk; exact absurd hk.symm h
      · simp [derase, dlookup, h, h2, ih]

end Hex

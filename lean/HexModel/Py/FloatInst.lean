import HexModel.Py.Arith
/-
The executed instance: IEEE doubles.  `pyRound` reproduces CPython's `round(x, n)`
(exact decimal scaling of the binary value, round-half-even to an integer, correctly rounded
division by 10^n); verified bit-for-bit against CPython 3.12.1 by the `arith` correspondence.
-/
namespace Hex

/-- correctly rounded (nearest-even) double of p/q, p q > 0 -/
def ratToFloat (p q : Nat) : Float :=
  if p == 0 then 0.0 else
  let lp : Int := p.log2
  let lq : Int := q.log2
  let k0 : Int := 52 - (lp - lq)
  let scaled (k : Int) : Nat × Nat := if k ≥ 0 then (p <<< k.toNat, q) else (p, q <<< (-k).toNat)
  let fix (k : Int) : Int :=
    let (a, b) := scaled k
    if a / b < 2^52 then k + 1 else if a / b ≥ 2^53 then k - 1 else k
  let k := fix (fix k0)
  let (a, b) := scaled k
  let quo := a / b
  let rem := a % b
  let m := if 2 * rem > b then quo + 1 else if 2 * rem < b then quo
    else (if quo % 2 == 0 then quo else quo + 1)
  (Float.ofNat m).scaleB (-k)

/-- Python's `round(x, n)` on floats, n ≥ 0 -/
def pyRound (n : Nat) (x : Float) : Float :=
  if x.isNaN || x.isInf || x == 0.0 then x else
  let bits := x.toBits
  let neg := (bits >>> 63) == 1
  let ex := ((bits >>> 52) &&& 0x7FF).toNat
  let frac := (bits &&& 0xFFFFFFFFFFFFF).toNat
  let (m, e) : Nat × Int := if ex == 0 then (frac, -1074) else (frac + 2^52, (ex : Int) - 1075)
  let N : Nat :=
    if e ≥ 0 then m * 2^e.toNat * 10^n else
      let num := m * 10^n
      let den := 2^((-e).toNat)
      let quo := num / den
      let rem := num % den
      if 2 * rem > den then quo + 1 else if 2 * rem < den then quo
      else (if quo % 2 == 0 then quo else quo + 1)
  let r := ratToFloat N (10^n)
  if neg then -r else r

instance : PyF Float where
  add := (· + ·)
  sub := (· - ·)
  mul := (· * ·)
  div := (· / ·)
  neg := fun x => -x
  abs := Float.abs
  sqrt := Float.sqrt
  pow := Float.pow
  ofInt := Float.ofInt
  lt := fun a b => decide (a < b)
  le := fun a b => decide (a ≤ b)
  beq := fun a b => a == b
  isZero := fun x => x == 0.0
  isFinite := Float.isFinite
  round := pyRound

end Hex

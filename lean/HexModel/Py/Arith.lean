import HexModel.Py.Value
/-
Python arithmetic on `int`/`float`/`bool`/`None`, as the library uses it.
Domain restriction (stated in DESIGN.md §3.1): |int| < 2^53, so int→float is exact and
`int / int` equals `float(a) / float(b)`.
-/
namespace Hex
variable {F : Type} [PyF F]

def Num.toF : Num F → F
  | .int i => PyF.ofInt i
  | .flt x => x

def Num.add : Num F → Num F → Num F
  | .int a, .int b => .int (a + b)
  | a, b => .flt (PyF.add a.toF b.toF)

def Num.sub : Num F → Num F → Num F
  | .int a, .int b => .int (a - b)
  | a, b => .flt (PyF.sub a.toF b.toF)

def Num.mul : Num F → Num F → Num F
  | .int a, .int b => .int (a * b)
  | a, b => .flt (PyF.mul a.toF b.toF)

def Num.neg : Num F → Num F
  | .int a => .int (-a)
  | .flt x => .flt (PyF.neg x)

def Num.abs : Num F → Num F
  | .int a => .int (Int.natAbs a)
  | .flt x => .flt (PyF.abs x)

def Num.isZero : Num F → Bool
  | .int a => a == 0
  | .flt x => PyF.isZero x

/-- Python `/` (true division): always a float; `ZeroDivisionError` on a zero divisor. -/
def Num.truediv (a b : Num F) : PyM (Num F) :=
  if b.isZero then .error .zeroDiv else .ok (.flt (PyF.div a.toF b.toF))

def Num.lt : Num F → Num F → Bool
  | .int a, .int b => decide (a < b)
  | a, b => PyF.lt a.toF b.toF

def Num.le : Num F → Num F → Bool
  | .int a, .int b => decide (a ≤ b)
  | a, b => PyF.le a.toF b.toF

def Num.gt (a b : Num F) : Bool := Num.lt b a
def Num.ge (a b : Num F) : Bool := Num.le b a

def Num.eq : Num F → Num F → Bool
  | .int a, .int b => a == b
  | a, b => PyF.beq a.toF b.toF

/-- `float(x)` -/
def Num.float (a : Num F) : Num F := .flt a.toF

/-- `x ** n` with a float base (C `pow`). -/
def Num.powF (a : Num F) (n : Int) : Num F := .flt (PyF.pow a.toF (PyF.ofInt n))

/-- `math.sqrt(x)`: `ValueError` on a negative argument. -/
def Num.sqrt (a : Num F) : PyM (Num F) :=
  if a.lt (.int 0) then .error .valueError else .ok (.flt (PyF.sqrt a.toF))

/-- `round_values` on a number: only floats are rounded. -/
def Num.roundBy (n : Nat) : Num F → Num F
  | .int a => .int a
  | .flt x => .flt (PyF.round n x)

/-- Python `max(a, b, …)`: the first maximal element. -/
def Num.max2 (a b : Num F) : Num F := if b.gt a then b else a
/-- Python `min(a, b, …)`: the first minimal element. -/
def Num.min2 (a b : Num F) : Num F := if b.lt a then b else a

def Num.maxList : List (Num F) → Option (Num F)
  | [] => none
  | x :: xs => some (xs.foldl Num.max2 x)
def Num.minList : List (Num F) → Option (Num F)
  | [] => none
  | x :: xs => some (xs.foldl Num.min2 x)

/-! ### `sum(...)` as CPython 3.12 computes it (int fast path, then Neumaier-compensated floats) -/

inductive SumSt (F : Type)
  | ints (acc : Int)
  | flts (tot c : F)

def sumStep (st : SumSt F) (x : Num F) : SumSt F :=
  match st, x with
  | .ints acc, .int b => .ints (acc + b)
  | .ints acc, .flt y => .flts (PyF.add (PyF.ofInt acc) y) (PyF.ofInt 0)
  | .flts tot c, .flt y =>
    let t := PyF.add tot y
    let c' := if PyF.le (PyF.abs y) (PyF.abs tot)
      then PyF.add c (PyF.add (PyF.sub tot t) y)
      else PyF.add c (PyF.add (PyF.sub y t) tot)
    .flts t c'
  | .flts tot c, .int b => .flts (PyF.add tot (PyF.ofInt b)) c

def sumFinish : SumSt F → Num F
  | .ints acc => .int acc
  | .flts tot c => if !(PyF.isZero c) && PyF.isFinite c then .flt (PyF.add tot c) else .flt tot

def pySum (xs : List (Num F)) : Num F := sumFinish (xs.foldl sumStep (.ints 0))

/-! ### scalars -/

/-- numeric view used by arithmetic: `None` is a `TypeError`, bools are ints. -/
def Scalar.asNum : Scalar F → PyM (Num F)
  | .none => .error .typeError
  | .bool b => .ok (.int (if b then 1 else 0))
  | .num n => .ok n

def Val.asNum : Val F → PyM (Num F)
  | .s x => x.asNum
  | .dict _ => .error .typeError

def Scalar.truthy : Scalar F → Bool
  | .none => false
  | .bool b => b
  | .num n => !n.isZero

def Val.truthy : Val F → Bool
  | .s x => x.truthy
  | .dict kvs => !kvs.isEmpty

/-- `isinstance(v, (float, int))` (true for bools as well) -/
def Val.isNumber : Val F → Bool
  | .s (.num _) => true
  | .s (.bool _) => true
  | _ => false

def Scalar.roundBy (n : Nat) : Scalar F → Scalar F
  | .num x => .num (x.roundBy n)
  | x => x

/-- `utils.indexing.round_values` -/
def Val.roundBy (n : Nat) : Val F → Val F
  | .s x => .s (x.roundBy n)
  | .dict kvs => .dict (kvs.map fun (k, v) => (k, v.roundBy n))

/-- dict field access `reading.get(nested)`; a scalar reading is returned as is. -/
def Val.nested (v : Val F) (field : String) : Val F :=
  match v with
  | .dict kvs => match dlookup field kvs with
    | some x => .s x
    | Option.none => .none
  | .s x => .s x

end Hex

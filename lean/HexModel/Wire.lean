import HexModel.Py.FloatInst
import HexModel.Core.Manager
/-
Line-protocol encoding of values and candles (driver side).  Floats travel as the decimal
value of their 64 IEEE bits, so nothing is ever compared as decimal text.
-/
namespace Hex.Wire
open Hex

def parseNum (s : String) : Option (Num Float) :=
  if s.startsWith "i:" then (s.drop 2).toString.toInt?.map Num.int
  else if s.startsWith "f:" then (s.drop 2).toString.toNat?.map fun n => Num.flt (Float.ofBits n.toUInt64)
  else none

def showNum : Num Float → String
  | .int i => s!"i:{i}"
  | .flt x => s!"f:{x.toBits.toNat}"

def showScalar : Scalar Float → String
  | .none => "n"
  | .bool b => if b then "b:1" else "b:0"
  | .num n => showNum n

def sortKV {α : Type} (l : List (String × α)) : List (String × α) :=
  (l.toArray.qsort (fun a b => a.1 < b.1)).toList

def showVal : Val Float → String
  | .s x => showScalar x
  | .dict kvs => "{" ++ ";".intercalate ((sortKV kvs).map fun (k, v) => s!"{k}={showScalar v}") ++ "}"

def showDict (l : List (String × Val Float)) : String :=
  "[" ++ ";".intercalate ((sortKV l).map fun (k, v) => s!"{k}={showVal v}") ++ "]"

def showTs : Option Int → String
  | none => "-"
  | some t => toString t

def showClean : Option (Clean Float) → String
  | none => "-"
  | some k => ",".intercalate [showTs k.ts, showNum k.o, showNum k.h, showNum k.l, showNum k.c, showNum k.v]

def showCandle (c : Candle Float) : String :=
  " ".intercalate ["C", showTs c.ts, showNum c.o, showNum c.h, showNum c.l, showNum c.c, showNum c.v,
    (if c.tag then "1" else "0"), showClean c.clean, "I" ++ showDict c.inds, "S" ++ showDict c.subs]

def parseTs (s : String) : Option (Option Int) :=
  if s = "-" then some none else s.toInt?.map some

/-- six tokens `ts o h l c v` -/
def parseCandle : List String → Option (Candle Float × List String)
  | ts :: o :: h :: l :: c :: v :: rest => do
    let ts ← parseTs ts
    let o ← parseNum o; let h ← parseNum h; let l ← parseNum l; let c ← parseNum c; let v ← parseNum v
    some ({ o := o, h := h, l := l, c := c, v := v, ts := ts }, rest)
  | _ => none

def parseCandles : Nat → List String → Option (List (Candle Float) × List String)
  | 0, toks => some ([], toks)
  | n+1, toks => do
    let (c, rest) ← parseCandle toks
    let (cs, rest) ← parseCandles n rest
    some (c :: cs, rest)

/-- `key=value` tokens up to the first token without `=` -/
def splitParams (toks : List String) : List (String × String) × List String :=
  let ps := toks.takeWhile (·.contains '=')
  (ps.map fun t => match t.splitOn "=" with
    | k :: v => (k, "=".intercalate v)
    | [] => (t, ""), toks.dropWhile (·.contains '='))

def param (ps : List (String × String)) (k : String) : Option String :=
  match ps.find? (·.1 = k) with
  | some (_, v) => if v = "-" then none else some v
  | none => none

end Hex.Wire

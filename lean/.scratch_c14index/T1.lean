import HexProps.C01
open Hex Hex.C01

def mkC (o h l c v : Int) (t : Int) : Candle Int := { o := .int o, h := .int h, l := .int l, c := .int c, v := .int v, ts := some t }
def long : List (Candle Int) :=
  [mkC 10 30 10 20 10 60, mkC 20 50 20 40 20 120, mkC 40 40 0 10 5 180, mkC 10 70 10 60 8 240,
   mkC 60 90 50 80 3 300, mkC 80 85 20 30 7 360, mkC 30 45 25 44 9 420, mkC 44 100 40 90 11 480,
   mkC 90 95 60 70 2 540, mkC 70 75 10 15 6 600]


def test (k : Kind Int) (name : String) : List (Bool) :=
  match candlesOf (runIndicator (mkTop k name 4) {} long []) with
  | .error _ => []
  | .ok done =>
    (List.range done.length).map fun (i : Nat) =>
      match (IndState.calculateIndex ⟨mkTop k name 4, ⟨{}, done⟩, 0⟩ (i : Int) none) with
      | .ok s => reprStr s.mgr.candles == reprStr done
      | .error _ => false

#eval test (.atr 2) "ATR_2"
#eval test (.kc 2 "close" (.int 2)) "KC_2"
#eval test (.stdevthres 2 "close" (.int 1)) "TH_2"
#eval test (.bbands 2 "close") "BB_2"
#eval test (.supertrend 2 "close" (.int 3)) "ST_2"
#eval test (.macd 2 3 2 "close") "MACD_2_3_2"
#eval test (.hma 4 "close") "HMA_4"
#eval test (.stoch 3 3 3 "close") "STOCH_3"
#eval test (.tsi 3 1 "close") "TSI_3_1"
#eval test (.adx 3 3) "ADX_3_3"
#eval test (.adx 1 1) "ADX_1_1"
#eval test (.macd 1 1 1 "close") "MACD_1_1_1"
#eval test (.stoch 2 1 1 "close") "STOCH_2"
#eval test (.tsi 1 1 "close") "TSI_1_1"
#eval test (.hma 2 "close") "HMA_2"

import HexProofs.Numeric.Simple
import HexProofs.Numeric.SeriesOnManagersC05
import HexProofs.Numeric.SeriesInputsKC
import HexProofs.Numeric.SeriesInputsSupertrend
import HexProofs.Numeric.SeriesInputsThres
import HexProofs.Numeric.AvgExtra
import HexProofs.Numeric.Channel
import HexProofs.Numeric.Extremes
import HexProofs.Numeric.Stdev
import HexProofs.Numeric.Supertrend
import HexProofs.Numeric.SeriesMore
import HexProofs.Numeric.Demo
import HexProofs.Numeric.SeriesATR
import HexProofs.Numeric.SeriesStdevBB
import HexProofs.Numeric.SeriesKC
import HexProofs.Numeric.SeriesSupertrend
import HexProofs.Numeric.SeriesWindows
import HexProofs.Numeric.SeriesUtility
/-
C05 – Volatility, range, channel and utility indicators match their definitions
(NUMERIC layer: ordered field `K` with `LawfulPyF K`; IEEE rounding error, overflow and NaN are
outside these theorems – see HexProofs/Numeric/Lawful.lean).
Indicators: TR, HLA, ATR, STDEV, BBANDS, KC, Donchian, HighestLowest, Supertrend, STDEV-threshold,
Counter.

WHAT IS PROVED NOW

1. Per `_calculate_reading` call (all eleven indicators, first half of the file): given the readings
   the method reads, the returned value is the textbook expression.

2. WHOLE SERIES for ALL ELEVEN indicators (second half): for EVERY raw candle stream the row-major
   run never raises, and every stored reading – the indicator's own and every helper / managed
   series – is the textbook value of the raw candles within an explicit rounding budget, from the
   TRUE warm-up index on.  Every `*_series` theorem comes with the statement that the same candles
   are what the batch run of the object returns (`*_batch`, `*_batch_readings`: build over the whole
   stream, `calculate()` once; `atr_engine_readings`, `leaf_engine`: the engine's `calculate()`) and
   what EVERY append schedule returns (`*_live`).  Warm-up indices and budgets (`ε_n` = half a unit
   of the node's `rounding` `n`; `ε₄`: helper series are rounded to `defaultRound = 4` decimals by the
   engine whatever `n` is; managed `…_data` series are NOT rounded):
     * HLA: every candle, `round_n((high+low)/2)`.   TR: `None` on candle 0 (no previous close).
     * ATR(p ≥ 1): helper `name_TR` rounded to 4 decimals; own reading `None` on candles `0 … p−1`,
       FIRST READING AT INDEX `p` (not `p − 1`: TR starts at 1) = mean of the stored `TR₁ … TR_p`, then
       Wilder's recurrence on the stored predecessor; `≥ 0`; within `p·ε_n` of Wilder's average of the
       STORED true ranges (`AtrOK`, no growth) and within `p·ε_n + ε₄` of that of the EXACT true
       ranges (`AtrOKTrue`).
     * STDEV(p ≥ 1): FIRST READING AT INDEX `p` (`reading_period(p + 1)`, although the window is full
       at `p − 1`); `name_data = {mean, variance}` holds the running statistics EXACTLY (from `p − 1`
       on: mean and population variance of the last `p` inputs); own reading
       `= round_n(sqrt(variance))`: within `ε_n`, no growth, `≥ 0` (`[NonnegSqrt K]`).
     * BBANDS(p ≥ 2): helpers `name_STDEV` (from `p`), `name_SMA` (from `p − 1`), both 4 decimals; own
       reading the dict of `None`s on candles `0 … p−1`, from `p` on `lower ≤ middle ≤ upper`,
       middle within `ε_n + (j+2−p)·ε₄` of the SMA (the SMA helper's running update accumulates), outer
       bands within `ε_n + (j+4−p)·ε₄` of `SMA ∓ 2σ` (`bb_bands`).
     * KC(p ≥ 2): helpers `name_ATR_TR`, `name_ATR` (from `p`), `name_EMA` (from `p − 1`), 4 decimals;
       own dict of `None`s on candles `0 … p−1`, from `p` on `{lower, band, upper}` of the STORED helper
       readings: `|band − EMA| ≤ ε_n + ε₄/α`, `|lower/upper − (EMA ∓ m·ATR)| ≤ ε_n + ε₄/α + |m|·p·ε₄`
       (`+ |m|·ε₄` against the exact true ranges), `α = 2/(p+1)`, no growth; `lower ≤ band ≤ upper`
       for `m ≥ 0` (`KcSeriesOK`).
     * Supertrend(p ≥ 1): helpers `name_atr_TR`, `name_atr` (from `p`, Wilder's average rounded to 4
       decimals at every step: within `p·ε₄`, `st_atr_budget`), `name_HL` (4 decimals); own reading a
       dict on every candle, `stNoneDict` before index `p`; from `p` on the TEXTBOOK STATE MACHINE
       `stSeries` (start `(1, HL2 + m·ATR, HL2 − m·ATR)`, then flip / ratchet against the previous stored
       bands) run on the STORED helper readings: `name_data` holds its bands EXACTLY, the own reading
       within `ε_n`, direction exact.  Of the machine: direction `±1` (`st_dir`), flips exactly when the
       close breaks the previous ACTIVE band (`st_flip`), the active band ratchets while the close
       stays between the previous bands (`st_ratchet`).
     * Donchian(p ≥ 2): `None` fields up to `p − 2`, first reading at `p − 1`, window = last `p`
       candles; `DCL`/`DCU` keep their type (ints unrounded, floats within `ε_n`), `DCM` within `ε_n`;
       the channel encloses the candle (`donchian_near`).
       HighestLowest(p ≥ 1): NO warm-up, window = last `p + 1` candles cut at candle 0 (`hl_near`).
     * Counter: every carrier `[PyF F]` (also the executed `Float`), ANY input column (foreign
       readings, missing values): first reading at index 0, the int `runLen` – a missing input keeps
       the count, a match adds one, anything else resets (`counter_steps`).
     * STDEV-threshold(p ≥ 1): helper `name_stdev` (from `p`, 4 decimals); own reading the bool
       `False` on candles `0 … p−1`, then EXACTLY `σ_stored·m < |x_j − x_{j−1}|`; equal to the textbook
       flag on the exact σ unless `| |x_j − x_{j−1}| − σ·m | ≤ |m|·ε₄` (`thres_agree`).
   `C05_FULL` (the former open statement, for ATR, with its budget and fuel corrected – see there) is
   now a theorem: `C05_FULL_holds`.

STILL OPEN (`C05_inputs_FULL` below): whole series for an input that is ANOTHER INDICATOR's reading
beginning late, over candle lists that already hold foreign readings (STDEV, BBANDS, KC, STDEV-threshold
take an `input`; for Counter this IS proved on the row-major spec, `counter_series_col`, but tied to
the engine for candle-attribute inputs only); the numeric statements on a collapsing timeframe (the
series theorems are over the base timeframe, `runIndicator … {} …`; `*_live` covers every append
schedule; C01/C03 give the structural part); IEEE effects (rounding error of the arithmetic itself,
overflow, NaN).
-/
namespace Hex.C05
open Hex Hex.Numeric
variable {K : Type} [Field K] [LinearOrder K] [IsStrictOrderedRing K] [LawfulPyF K]

/-! ### TR, HLA -/

/-- **TR** = `max(high − low, |high − prev close|, |low − prev close|)`. -/
theorem tr (x : Ctx K) (h l pc : Num K)
    (hh : x.reading "high" = .ok (.num h)) (hl : x.reading "low" = .ok (.num l))
    (hp : x.readingPeriod 2 "close" = true) (hpc : x.prevReading "close" = .ok (.num pc)) :
    IsNum (Calc.tr x) (max (max (h.toF - l.toF) |h.toF - pc.toF|) |l.toF - pc.toF|) :=
  tr_def x h l pc hh hl hp hpc

example : IsNum (Calc.tr (Demo.ctx "TR"))
    (max (max ((Num.int 16 : Num ℚ).toF - (Num.int 13 : Num ℚ).toF) |(Num.int 16 : Num ℚ).toF - (Num.int 14 : Num ℚ).toF|)
      |(Num.int 13 : Num ℚ).toF - (Num.int 14 : Num ℚ).toF|) :=
  tr (Demo.ctx "TR") (.int 16) (.int 13) (.int 14) rfl rfl (by decide) rfl

/-- TR's first reading needs a previous close -/
theorem tr_warmup (x : Ctx K) (h l : Val K) (hh : x.reading "high" = .ok h) (hl : x.reading "low" = .ok l)
    (hp : x.readingPeriod 2 "close" = false) : Calc.tr x = .ok .none :=
  tr_none x h l hh hl hp

example : Calc.tr (Demo.ctx "TR" 0) = .ok .none := tr_warmup (Demo.ctx "TR" 0) _ _ rfl rfl (by decide)

/-- **HLA** = `(high + low)/2`. -/
theorem hla (x : Ctx K) (h l : Num K)
    (hh : x.reading "high" = .ok (.num h)) (hl : x.reading "low" = .ok (.num l)) :
    Calc.hla x = .ok (.flt ((h.toF + l.toF) / 2)) :=
  hla_def x h l hh hl

example : Calc.hla (Demo.ctx "HLA") = .ok (.flt (((Num.int 16 : Num ℚ).toF + (Num.int 13 : Num ℚ).toF) / 2)) :=
  hla (Demo.ctx "HLA") (.int 16) (.int 13) rfl rfl

/-! ### ATR -/

/-- **ATR recurrence** – Wilder smoothing of TR: `(prev·(p−1) + TR)/p = (1/p)·TR + (1−1/p)·prev`. -/
theorem atr_step (x : Ctx K) (period : Int) (trName : String) (prev t : Num K)
    (hprev : x.prevReading x.name = .ok (.num prev)) (ht : x.reading trName = .ok (.num t))
    (hp : (period : K) ≠ 0) :
    Calc.atr x period trName = .ok (.flt ((prev.toF * (period - 1) + t.toF) / period)) ∧
    (prev.toF * ((period : K) - 1) + t.toF) / period = 1 / (period : K) * t.toF + (1 - 1 / (period : K)) * prev.toF :=
  ⟨atr_rec x period trName prev t hprev ht hp, atr_is_wilder _ _ _ hp⟩

example : Calc.atr (Demo.ctx "ATR_3") 3 "ATR_3_TR"
    = .ok (.flt (((Num.flt 3 : Num ℚ).toF * (((3 : Int) : ℚ) - 1) + (Num.flt 3 : Num ℚ).toF) / ((3 : Int) : ℚ))) :=
  (atr_step (Demo.ctx "ATR_3") 3 "ATR_3_TR" (.flt 3) (.flt 3) rfl rfl (by norm_num)).1

/-- **ATR seed** = mean of the first `period` true ranges. -/
theorem atr_seed (x : Ctx K) (p : Nat) (trName : String) (r : Nat → Num K)
    (hprev : x.prevReading x.name = .ok .none) (hrp : x.readingPeriod p trName = true)
    (hp1 : 1 ≤ p) (hpi : (p : Int) ≤ x.i + 1) (hi0 : 1 ≤ x.i)
    (h : ∀ j, j < p → x.reading trName (some (x.i + 1 - p + j)) = .ok (.num (r j))) :
    Calc.atr x p trName = .ok (.flt (rsum p (fun j => (r j).toF) / p)) :=
  atr_seed_window x p trName r hprev hrp hp1 hpi hi0 h

example : Calc.atr (Demo.ctx "ATR_2") (2 : Nat) "ATR_3_TR"
    = .ok (.flt (rsum 2 (fun j => ((fun j => Num.flt ([4, 3].getD j 0)) j : Num ℚ).toF) / (2 : Nat))) :=
  atr_seed (Demo.ctx "ATR_2") 2 "ATR_3_TR" (fun j => .flt ([4, 3].getD j 0)) rfl (by decide) (by norm_num)
    (by decide) (by decide) (by intro j hj; interval_cases j <;> rfl)

/-! ### STDEV -/

/-- **STDEV, full window**: the running mean / population variance are updated by replacing the
value leaving the window, and the reading is `sqrt(max(variance, 0))`. -/
theorem stdev_step (ops : Ops K) (x : Ctx K) (p : Int) (input : String) (w : Val K → List (Candle K))
    (xv rem om ov : Num K)
    (hc : x.reading input = .ok (.num xv))
    (hin : x.readingPeriod (p + 1) input (some x.i) = true)
    (hrem : x.reading input (some (x.i - p)) = .ok (.num rem))
    (hm : x.prevReading (x.name ++ "_data.mean") = .ok (.num om))
    (hv : x.prevReading (x.name ++ "_data.variance") = .ok (.num ov))
    (hset : ∀ v, ops.setManaged "STDEV_data" v x.cs = .ok (w v)) (hp : (p : K) ≠ 0) :
    Calc.stdev ops x p input =
      .ok (.num (.flt (PyF.sqrt (max (varStep p om.toF ov.toF xv.toF rem.toF) 0))),
           w (sdict [("mean", sc (.flt (meanStep p om.toF xv.toF rem.toF))),
                     ("variance", sc (.flt (varStep p om.toF ov.toF xv.toF rem.toF)))])) :=
  Numeric.stdev_step ops x p input w xv rem om ov hc hin hrem hm hv hset hp

example : ∃ y : ℚ, ∃ cs', Calc.stdev Demo.ops (Demo.ctx "STDEV_3") 3 "close" = .ok (.num (.flt y), cs') :=
  ⟨_, _, stdev_step Demo.ops (Demo.ctx "STDEV_3") 3 "close" (fun _ => Demo.cs) (.int 15) (.int 11)
    (.flt (37/3)) (.flt (14/9)) rfl (by decide) rfl rfl rfl (fun _ => rfl) (by norm_num)⟩

/-- **the running update is exact** (Welford-style identity): from the mean and population
variance of a window with sum `S` and square sum `Q` it produces those of the window with `rem`
replaced by `x`. -/
theorem stdev_update_exact (p S Q x rem : K) (hp : p ≠ 0) :
    meanStep p (S / p) x rem = (S - rem + x) / p ∧
    varStep p (S / p) (Q / p - (S / p) ^ 2) x rem = (Q - rem ^ 2 + x ^ 2) / p - ((S - rem + x) / p) ^ 2 :=
  welford p S Q x rem hp

/-- σ·σ = variance (clamped at 0), σ ≥ 0 -/
theorem stdev_is_root [LawfulSqrt K] (v : K) :
    PyF.sqrt (max v 0) * PyF.sqrt (max v 0) = max v 0 ∧ 0 ≤ PyF.sqrt (max v 0) :=
  ⟨stdev_sq v, stdev_nonneg v⟩

/-- during warm-up the statistics are updated with nothing leaving the window and the reading is `None` -/
theorem stdev_warmup (ops : Ops K) (x : Ctx K) (p : Int) (input : String) (w : Val K → List (Candle K))
    (xv om ov : Num K)
    (hc : x.reading input = .ok (.num xv))
    (hin : x.readingPeriod (p + 1) input (some x.i) = false)
    (hm : x.prevReading (x.name ++ "_data.mean") = .ok (.num om))
    (hv : x.prevReading (x.name ++ "_data.variance") = .ok (.num ov))
    (hset : ∀ v, ops.setManaged "STDEV_data" v x.cs = .ok (w v)) (hp : (p : K) ≠ 0) :
    Calc.stdev ops x p input =
      .ok (.none, w (sdict [("mean", sc (.flt (meanStep p om.toF xv.toF 0))),
                            ("variance", sc (.flt (varStep p om.toF ov.toF xv.toF 0)))])) :=
  stdev_warm ops x p input w xv om ov hc hin hm hv hset hp

/-! ### Bollinger Bands, Keltner Channel -/

/-- **BBANDS** = SMA ∓ 2σ with the SMA as middle band. -/
theorem bbands (x : Ctx K) (smaName stdevName : String) (m s : Num K)
    (hm : x.reading smaName = .ok (.num m)) (hs : x.reading stdevName = .ok (.num s)) :
    ∃ lo up : Num K, Calc.bbands x smaName stdevName =
        .ok (.dict [("BBL", .num lo), ("BBM", .num m), ("BBU", .num up)]) ∧
      lo.toF = m.toF - 2 * s.toF ∧ up.toF = m.toF + 2 * s.toF :=
  ⟨_, _, bbands_def x smaName stdevName m s hm hs, (bbands_vals m s).1, (bbands_vals m s).2⟩

example : ∃ lo up : Num ℚ, Calc.bbands (Demo.ctx "BB_3") "BB_3_SMA" "BB_3_STDEV" =
      .ok (.dict [("BBL", .num lo), ("BBM", .num (.flt 13)), ("BBU", .num up)]) ∧
      lo.toF = (Num.flt 13 : Num ℚ).toF - 2 * (Num.flt 1 : Num ℚ).toF ∧
      up.toF = (Num.flt 13 : Num ℚ).toF + 2 * (Num.flt 1 : Num ℚ).toF :=
  bbands (Demo.ctx "BB_3") "BB_3_SMA" "BB_3_STDEV" (.flt 13) (.flt 1) rfl rfl

/-- **KC** = EMA ∓ multiplier·ATR with the EMA as middle band. -/
theorem kc (x : Ctx K) (mult e a : Num K)
    (he : x.reading (x.name ++ "_EMA") = .ok (.num e)) (ha : x.reading (x.name ++ "_ATR") = .ok (.num a)) :
    ∃ lo up : Num K, Calc.kc x mult =
        .ok (.dict [("lower", .num lo), ("band", .num e), ("upper", .num up)]) ∧
      lo.toF = e.toF - mult.toF * a.toF ∧ up.toF = e.toF + mult.toF * a.toF :=
  ⟨_, _, kc_def x mult e a he ha, (kc_vals mult e a).1, (kc_vals mult e a).2⟩

example : ∃ lo up : Num ℚ, Calc.kc (Demo.ctx "KC_3") (fl 2) =
      .ok (.dict [("lower", .num lo), ("band", .num (.flt 13)), ("upper", .num up)]) ∧
      lo.toF = (Num.flt 13 : Num ℚ).toF - (fl 2 : Num ℚ).toF * (Num.flt 3 : Num ℚ).toF ∧
      up.toF = (Num.flt 13 : Num ℚ).toF + (fl 2 : Num ℚ).toF * (Num.flt 3 : Num ℚ).toF :=
  kc (Demo.ctx "KC_3") (fl 2) (.flt 13) (.flt 3) rfl rfl

/-! ### Donchian, HighestLowest -/

/-- **Donchian** = (lowest low, mean of the bounds, highest high) over the window; the bounds
are attained in the window and bound every value in it. -/
theorem donchian (x : Ctx K) (p : Int) (pu : Val K) (u l : Num K)
    (hprev : x.prevReading (x.name ++ ".DCU") = .ok pu)
    (hg : pu.isNone = false ∨ x.readingPeriod p "high" (some x.i) = true)
    (hu : Mov.highest x.cs "high" (p - 1) x.i = .ok (.num u))
    (hl : Mov.lowest x.cs "low" (p - 1) x.i = .ok (.num l)) :
    Calc.donchian x p =
      .ok (.dict [("DCL", .num l), ("DCM", .num (.flt ((u.toF + l.toF) / 2))), ("DCU", .num u)]) ∧
    (∃ i, absIndex x.i x.cs.length = some i ∧ Scalar.num u ∈ Mov.cleanScalars x.cs "high" (p - 1) i true ∧
      ∀ s ∈ Mov.cleanScalars x.cs "high" (p - 1) i true, (Mov.scalarNum s).toF ≤ u.toF) ∧
    (∃ i, absIndex x.i x.cs.length = some i ∧ Scalar.num l ∈ Mov.cleanScalars x.cs "low" (p - 1) i true ∧
      ∀ s ∈ Mov.cleanScalars x.cs "low" (p - 1) i true, l.toF ≤ (Mov.scalarNum s).toF) :=
  ⟨donchian_def x p pu u l hprev hg hu hl, highest_spec _ _ _ _ _ hu, lowest_spec _ _ _ _ _ hl⟩

example : Calc.donchian (Demo.ctx "DC_3") 3 =
    .ok (.dict [("DCL", .num (.int 10)), ("DCM", .num (.flt (((Num.int 16 : Num ℚ).toF + (Num.int 10 : Num ℚ).toF) / 2))),
                ("DCU", .num (.int 16))]) :=
  (donchian (Demo.ctx "DC_3") 3 .none (.int 16) (.int 10) rfl (Or.inr (by decide)) rfl rfl).1

/-- **HighestLowest** = (lowest low, highest high) over `period + 1` candles. -/
theorem hl (x : Ctx K) (p : Int) (h l : Scalar K)
    (hl : Mov.lowest x.cs "low" p x.i = .ok (.s l)) (hh : Mov.highest x.cs "high" p x.i = .ok (.s h)) :
    Calc.hl x p = .ok (.dict [("low", l), ("high", h)]) :=
  hl_def x p h l hl hh

example : Calc.hl (Demo.ctx "HL_2") 2 = .ok (.dict [("low", .num (.int 10)), ("high", .num (.int 16))]) :=
  hl (Demo.ctx "HL_2") 2 _ _ rfl rfl

/-! ### Supertrend -/

/-- **Supertrend step**: bands `HL2 ± multiplier·ATR`, each ratcheted against its previous value
while the trend continues, direction flipped when the close breaks the previous band; `trend`
is the lower band in an up-trend and the upper band in a down-trend. -/
theorem supertrend_step (ops : Ops K) (x : Ctx K) (mult a hl close pu pl : Num K) (pd : Int)
    (w : Val K → List (Candle K))
    (ha : x.reading (x.name ++ "_atr") = .ok (.num a))
    (hhl : x.reading (x.name ++ "_HL") = .ok (.num hl))
    (hc : x.reading "close" = .ok (.num close))
    (hpl : x.prevReading (x.name ++ "_data.lower") = .ok (.num pl))
    (hpu : x.prevReading (x.name ++ "_data.upper") = .ok (.num pu))
    (hpd : x.prevReading (x.name ++ ".direction") = .ok (.int pd))
    (hd : pd = 1 ∨ pd = -1)
    (hset : ∀ v, ops.setManaged "ST_data" v x.cs = .ok (w v)) :
    ∃ U L : Num K,
      U.toF = stUpper close.toF pu.toF pl.toF pd (hl.toF + mult.toF * a.toF) ∧
      L.toF = stLower close.toF pu.toF pl.toF pd (hl.toF - mult.toF * a.toF) ∧
      Calc.supertrend ops x mult =
        .ok (stDict (stDir close.toF pu.toF pl.toF pd) U L, w (sdict [("upper", sc U), ("lower", sc L)])) :=
  Numeric.supertrend_step ops x mult a hl close pu pl pd w ha hhl hc hpl hpu hpd hd hset

example : ∃ U L : Num ℚ, ∃ D cs', Calc.supertrend Demo.ops (Demo.ctx "ST_3") (fl 3) = .ok (stDict D U L, cs') := by
  obtain ⟨U, L, _, _, h⟩ := supertrend_step Demo.ops (Demo.ctx "ST_3") (fl 3) (.flt 3) (.flt (29/2)) (.int 15)
    (.flt 18) (.flt 10) 1 (fun _ => Demo.cs) rfl rfl rfl rfl rfl rfl (Or.inl rfl) (fun _ => rfl)
  exact ⟨U, L, _, _, h⟩

/-- **Supertrend flips exactly when the close breaks the previous ACTIVE band** ("flipping when the close
breaks the previous band"): out of an up-trend iff the close is below the previous lower band, out of a
down-trend iff it is above the previous upper band – whatever the idle band is, in particular when the
stored bands have crossed.  (False of the pinned code, which tested the idle band first: see
known_findings `C05-0d81c09`; the witness found by the oracle is in corpus/C05.json.) -/
theorem supertrend_flips_on_active_break (close pu pl : K) :
    (stDir close pu pl 1 = -1 ↔ close < pl) ∧ (stDir close pu pl (-1) = 1 ↔ pu < close) := by
  constructor
  · constructor
    · intro h
      by_contra hn
      rw [stDir_keep_up close pu pl hn] at h
      cases h
    · exact stDir_flip_down close pu pl
  · constructor
    · intro h
      by_contra hn
      rw [stDir_keep_down close pu pl hn] at h
      cases h
    · exact stDir_flip_up close pu pl

/-- the crossed-bands state of the oracle's witness: previous direction up, previous lower (active) band
165.415, previous upper (idle) band 158.4356, close 159.74 – the trend flips down -/
example : stDir (159.74 : ℚ) 158.4356 165.415 1 = -1 := by
  apply stDir_flip_down; norm_num

/-- first Supertrend candle with an ATR: plain bands, up-trend -/
theorem supertrend_first (ops : Ops K) (x : Ctx K) (mult a hl : Num K) (w : Val K → List (Candle K))
    (ha : x.reading (x.name ++ "_atr") = .ok (.num a))
    (hhl : x.reading (x.name ++ "_HL") = .ok (.num hl))
    (hpl : x.prevReading (x.name ++ "_data.lower") = .ok .none)
    (hset : ∀ v, ops.setManaged "ST_data" v x.cs = .ok (w v)) :
    Calc.supertrend ops x mult =
      .ok (stDict 1 (hl.add (mult.mul a)) (hl.sub (mult.mul a)),
           w (sdict [("upper", sc (hl.add (mult.mul a))), ("lower", sc (hl.sub (mult.mul a)))])) :=
  Numeric.supertrend_first ops x mult a hl w ha hhl hpl hset

/-- the bands only ratchet in the trend direction -/
theorem supertrend_ratchet (close pu pl band : K) (h1 : ¬ pu < close) (h2 : ¬ close < pl) :
    pl ≤ stLower close pu pl 1 band ∧ stUpper close pu pl (-1) band ≤ pu :=
  ⟨stLower_ratchet close pu pl band h1 h2, stUpper_ratchet close pu pl band h1 h2⟩

/-! ### utilities -/

/-- **STDEV threshold** flag: true exactly when the input moved by more than `multiplier·σ`
since the previous candle. -/
theorem stdevthres (x : Ctx K) (input : String) (mult s cur prev : Num K)
    (hs : x.reading (x.name ++ "_stdev") = .ok (.num s))
    (hc : x.reading input = .ok (.num cur)) (hp : x.prevReading input = .ok (.num prev)) :
    Calc.stdevthres x input mult = .ok (.bool (decide (s.toF * mult.toF < |cur.toF - prev.toF|))) :=
  stdevthres_def x input mult s cur prev hs hc hp

example : Calc.stdevthres (Demo.ctx "THR") "close" (fl 1) =
    .ok (.bool (decide ((Num.flt 0.5 : Num ℚ).toF * (fl 1 : Num ℚ).toF < |(Num.int 15 : Num ℚ).toF - (Num.int 14 : Num ℚ).toF|))) :=
  stdevthres (Demo.ctx "THR") "close" (fl 1) (.flt 0.5) (.int 15) (.int 14) rfl rfl rfl

/-- **Counter** (every float carrier): previous run length kept on a missing input, +1 when the
input equals the counted value, reset to 0 otherwise. -/
theorem counter {F : Type} [PyF F] (x : Ctx F) (input : String) (cv : Scalar F) (r prev : Val F)
    (hr : x.reading input = .ok r) (hprev : x.prevReading x.name = .ok prev)
    (hpv : prev = .none ∨ ∃ k : Int, prev = .int k) :
    Calc.counter x input cv = .ok (.int (
      if r.isNone then prevCount prev else if Calc.pyEqScalarVal cv r then prevCount prev + 1 else 0)) :=
  counter_def x input cv r prev hr hprev hpv

example : Calc.counter (Demo.ctx "COUNT") "close" (.num (.int 15)) = .ok (.int 3) := by
  have := counter (Demo.ctx "COUNT") "close" (.num (.int 15)) (.num (.int 15)) (.int 2) rfl rfl (Or.inr ⟨2, rfl⟩)
  rw [this]; rfl

/-! ## whole series -/

/-- the five raw demo candles over ℚ (highs 12 13 15 16 15, lows 9 10 11 13 15, closes 11 12 14 15 15) -/
def demoRaw : List (Candle ℚ) :=
  [Demo.mk 10 12 9 11 100, Demo.mk 11 13 10 12 200, Demo.mk 12 15 11 14 300, Demo.mk 14 16 13 15 0,
   Demo.mk 15 15 15 15 0]

theorem demoRaw_plain : ∀ c ∈ demoRaw, Plain c := by
  intro c hc
  simp only [demoRaw, List.mem_cons, List.not_mem_nil, or_false] at hc
  rcases hc with rfl | rfl | rfl | rfl | rfl <;> exact ⟨rfl, rfl⟩

/-! ### HLA, TR (leaves over candle fields) -/

/-- **HLA, whole series**: every candle of every raw stream gets `round((high + low)/2)`. -/
theorem hla_series (nm : String) (n : Nat) (hk : IsKey nm)
    (raw : List (Candle K)) (hraw : ∀ c ∈ raw, Plain c) :
    ∃ vs : List (Val K), vs.length = raw.length ∧
      rowMajor (mkTop .hla nm n) raw = .ok (deco nm raw vs) ∧
      ∀ j, j < raw.length → vs.getD j .none =
        .flt (PyF.round n ((fieldAt (·.h) raw j + fieldAt (·.l) raw j) / 2)) :=
  Numeric.hla_series nm n hk raw hraw

/-- **TR, whole series**: `None` on the first candle (no previous close), from the second candle
on the true range (ints stay ints, floats are rounded). -/
theorem tr_series (nm : String) (n : Nat) (hk : IsKey nm)
    (raw : List (Candle K)) (hraw : ∀ c ∈ raw, Plain c) :
    ∃ vs : List (Val K), vs.length = raw.length ∧
      rowMajor (mkTop .tr nm n) raw = .ok (deco nm raw vs) ∧
      ∀ j, j < raw.length →
        (j = 0 → vs.getD j .none = .none) ∧
        (1 ≤ j → ∃ t : Num K, vs.getD j .none = .num (t.roundBy n) ∧
          t.toF = trAt (fieldAt (·.h) raw) (fieldAt (·.l) raw) (fieldAt (·.c) raw) j) :=
  Numeric.tr_series nm n hk raw hraw

example : ∃ vs : List (Val ℚ), vs.length = demoRaw.length ∧
    rowMajor (mkTop .tr "TR" 4) demoRaw = .ok (deco "TR" demoRaw vs) ∧
    ∀ j, j < demoRaw.length →
      (j = 0 → vs.getD j .none = .none) ∧
      (1 ≤ j → ∃ t : Num ℚ, vs.getD j .none = .num (t.roundBy 4) ∧
        t.toF = trAt (fieldAt (·.h) demoRaw) (fieldAt (·.l) demoRaw) (fieldAt (·.c) demoRaw) j) :=
  tr_series "TR" 4 (by decide) demoRaw demoRaw_plain

/-- **the leaf kinds through the engine and the object** (HLA, TR, Donchian, HighestLowest, Counter
– every `Covered` leaf kind): whenever the row-major run of a series theorem returns `out`, the
engine's `calculate()` on the raw candles (`engineCalc`) and the batch run of the object return
exactly `out`. -/
theorem leaf_engine (k : Kind K) (nm : String) (n : Nat) (hc : Covered nm k)
    (raw : List (Candle K)) (hraw : ∀ c ∈ raw, Plain c) (out : List (Candle K))
    (h : rowMajor (mkTop k nm n) raw = .ok out) :
    engineCalc (mkTop k nm n) raw = .ok out ∧
    candlesOf (runIndicator (mkTop k nm n) {} raw []) = .ok out :=
  leaf_series_engine k nm n hc raw hraw out h

/-- **… and for every append schedule**: whenever a live history (construction over `init`,
`calculate()`, then any appends) returns `snap`, `snap` is the row-major run over the whole stream. -/
theorem leaf_live (k : Kind K) (nm : String) (n : Nat) (hc : Covered nm k)
    (init : List (Candle K)) (chunks : List (List (Candle K)))
    (hraw : ∀ c ∈ init ++ chunks.flatten, Plain c) (snap out : List (Candle K))
    (hsnap : candlesOf (runIndicator (mkTop k nm n) {} init chunks) = .ok snap)
    (h : rowMajor (mkTop k nm n) (init ++ chunks.flatten) = .ok out) : snap = out :=
  leaf_series_live k nm n hc init chunks hraw snap out hsnap h

/-- the TR run over the demo candles IS what `calculate()` and the batch run return -/
example : ∃ out : List (Candle ℚ), engineCalc (mkTop (.tr : Kind ℚ) "TR" 4) demoRaw = .ok out ∧
    candlesOf (runIndicator (mkTop (.tr : Kind ℚ) "TR" 4) {} demoRaw []) = .ok out := by
  obtain ⟨vs, _, h2, _⟩ := tr_series "TR" 4 (by decide) demoRaw demoRaw_plain
  exact ⟨_, leaf_engine _ "TR" 4 Covered.tr demoRaw demoRaw_plain _ h2⟩

/-! ### ATR (node + prior `name_TR` helper) -/

/-- **ATR, whole series** (row-major run of `atrTree`; `period = p ≥ 1`; `name`, `name_TR` ordinary
distinct keys).  For every raw stream the run never raises and returns the raw candles with
* under `name_TR` (`.sub_indicators`): `trStored raw j` – `None` on candle 0, then the true range
  `max(h−l, |h−c₋₁|, |l−c₋₁|)` rounded to 4 decimals (ints stay ints);
* under `name`: `vs[j]` with `AtrOK`: `None` for `j < p` – the FIRST READING IS AT INDEX `p` – then a
  non-negative float within `p·ε_n` (`= ε_n/(1/p)`, not growing) of Wilder's average `atrExact` of
  the STORED true ranges `trS` (mean of `TR₁ … TR_p` at `j = p`, then `(prev·(p−1) + TR_j)/p`). -/
theorem atr_series (p : Nat) (hp : 1 ≤ p) (nm : String) (n : Nat) (hk : IsKey nm) (hn : AtrNames nm)
    (raw : List (Candle K)) (hraw : ∀ c ∈ raw, Plain c) :
    ∃ vs : List (Val K), vs.length = raw.length ∧
      Gen.rowMajor (atrTree nm n (p : Int) (by omega) hn).S raw
        = .ok (deco nm (trDeco (nm ++ "_TR") raw) vs) ∧
      ∀ j, j < raw.length → AtrOK p n (trS raw) j (vs.getD j .none) :=
  Numeric.atr_series p hp nm n hk hn raw hraw

/-- **ATR, whole series, reading by reading**: the run returns a list of the raw candles' length
whose candle `j` is raw candle `j` carrying under `name_TR` the rounded true range (`None` on candle
0) and under `name` a reading that is `AtrOK` w.r.t. the stored true ranges (budget `p·ε_n`) and
`AtrOKTrue` w.r.t. the EXACT true ranges of the raw candles (budget `p·ε_n + ε₄`: the TR helper's
readings are themselves rounded to 4 decimals before ATR reads them). -/
theorem atr_series_readings (p : Nat) (hp : 1 ≤ p) (nm : String) (n : Nat) (hk : IsKey nm)
    (hn : AtrNames nm) (raw : List (Candle K)) (hraw : ∀ c ∈ raw, Plain c) :
    ∃ out : List (Candle K),
      Gen.rowMajor (atrTree nm n (p : Int) (by omega) hn).S raw = .ok out ∧ out.length = raw.length ∧
      ∀ j, j < raw.length →
        (out.getD j default).bare = (raw.getD j default).bare ∧
        readingByCandle (out.getD j default) (nm ++ "_TR") = trStored raw j ∧
        AtrOK p n (trS raw) j (readingByCandle (out.getD j default) nm) ∧
        AtrOKTrue p n raw j (readingByCandle (out.getD j default) nm) :=
  Numeric.atr_series_readings p hp nm n hk hn raw hraw

/-- **… through the engine**: `calculate()` on the raw candles never raises and stores those readings. -/
theorem atr_engine_readings (p : Nat) (hp : 1 ≤ p) (nm : String) (n : Nat) (hk : IsKey nm)
    (hn : AtrNames nm) (raw : List (Candle K)) (hraw : ∀ c ∈ raw, Plain c) :
    ∃ out : List (Candle K), engineCalc (mkTop (.atr (p : Int)) nm n) raw = .ok out ∧
      out.length = raw.length ∧
      ∀ j, j < raw.length →
        (out.getD j default).bare = (raw.getD j default).bare ∧
        readingByCandle (out.getD j default) (nm ++ "_TR") = trStored raw j ∧
        AtrOK p n (trS raw) j (readingByCandle (out.getD j default) nm) ∧
        AtrOKTrue p n raw j (readingByCandle (out.getD j default) nm) :=
  Numeric.atr_engine_readings p hp nm n hk hn raw hraw

/-- **… through the object**: the batch run (build over the whole stream, `calculate()` once)
returns (`Numeric.atr_batch`), and whenever it returns `out`, `out` carries exactly those readings. -/
theorem atr_batch_readings (p : Nat) (hp : 1 ≤ p) (nm : String) (n : Nat) (hk : IsKey nm)
    (hn : AtrNames nm) (raw : List (Candle K)) (hraw : ∀ c ∈ raw, Plain c) (out : List (Candle K))
    (hout : candlesOf (runIndicator (mkTop (.atr (p : Int)) nm n) {} raw []) = .ok out) :
    out.length = raw.length ∧
    ∀ j, j < raw.length →
      (out.getD j default).bare = (raw.getD j default).bare ∧
      readingByCandle (out.getD j default) (nm ++ "_TR") = trStored raw j ∧
      AtrOK p n (trS raw) j (readingByCandle (out.getD j default) nm) ∧
      AtrOKTrue p n raw j (readingByCandle (out.getD j default) nm) :=
  Numeric.atr_batch_readings p hp nm n hk hn raw hraw out hout

/-- **… for every append schedule**: whenever a live history (construction over `init`,
`calculate()`, then any appends) returns `snap`, `snap` carries those readings over the whole stream
(`atr_series_readings` + `TreeSpec.live_refines` of `atrTree`). -/
theorem atr_series_live (p : Nat) (hp : 1 ≤ p) (nm : String) (n : Nat) (hk : IsKey nm)
    (hn : AtrNames nm) (init : List (Candle K)) (chunks : List (List (Candle K)))
    (hraw : ∀ c ∈ init ++ chunks.flatten, Plain c) (snap : List (Candle K))
    (hsnap : candlesOf (runIndicator (mkTop (.atr (p : Int)) nm n) {} init chunks) = .ok snap) :
    snap.length = (init ++ chunks.flatten).length ∧
    ∀ j, j < (init ++ chunks.flatten).length →
      (snap.getD j default).bare = ((init ++ chunks.flatten).getD j default).bare ∧
      readingByCandle (snap.getD j default) (nm ++ "_TR") = trStored (init ++ chunks.flatten) j ∧
      AtrOK p n (trS (init ++ chunks.flatten)) j (readingByCandle (snap.getD j default) nm) ∧
      AtrOKTrue p n (init ++ chunks.flatten) j (readingByCandle (snap.getD j default) nm) := by
  obtain ⟨out, h1, h2, h3⟩ := Numeric.atr_series_readings p hp nm n hk hn _ hraw
  have h : Gen.rowMajor (atrTree nm n (p : Int) (by omega) hn).S (init ++ chunks.flatten) = .ok snap :=
    (atrTree nm n (p : Int) (by omega) hn).live_refines (MgrSpec.base K) init chunks hraw snap hsnap
  rw [h1] at h
  cases h
  exact ⟨h2, h3⟩

/-- `ATR(2)` over the demo candles: the batch run returns; `ATR_2_TR` is `None, 3, 4, 3, 0`, the
textbook series `None, None, 7/2, 13/4, 13/8` (HexProofs/Numeric/SeriesATR.lean evaluates both) -/
example : ∃ out : List (Candle ℚ),
    candlesOf (runIndicator (mkTop (.atr ((2 : Nat) : Int)) "ATR_2" 4) {} demoRaw []) = .ok out ∧
    out.length = demoRaw.length ∧
    ∀ j, j < demoRaw.length →
      (out.getD j default).bare = (demoRaw.getD j default).bare ∧
      readingByCandle (out.getD j default) ("ATR_2" ++ "_TR") = trStored demoRaw j ∧
      AtrOK 2 4 (trS demoRaw) j (readingByCandle (out.getD j default) "ATR_2") ∧
      AtrOKTrue 2 4 demoRaw j (readingByCandle (out.getD j default) "ATR_2") := by
  obtain ⟨vs, _, h2, _⟩ := Numeric.atr_batch 2 (by norm_num) "ATR_2" 4 (by decide) ⟨by decide, by decide⟩
    demoRaw demoRaw_plain
  exact ⟨_, h2, atr_batch_readings 2 (by norm_num) "ATR_2" 4 (by decide) ⟨by decide, by decide⟩
    demoRaw demoRaw_plain _ h2⟩

/-! ### STDEV (managed `name_data` series) -/

/-- **STDEV, whole series** (row-major run of `stdevTree`; `period = p ≥ 1`, input a candle field;
`SdNames`: `name`, `name_data` ordinary distinct keys).  For EVERY raw stream the run returns the
raw candles with, on candle `j`, the pair `rows[j]` = (own reading, `name_data` entry), and every
pair is `StdevOK`: the data entry holds EXACTLY (unrounded) the running mean / population variance
of the zero-padded window – from index `p − 1` on the mean and `mean((x − mean)²)` of the last `p`
inputs; the own reading is `None` up to index `p − 1` – the FIRST READING IS AT INDEX `p` – and then
`round_n(sqrt(variance))`, within `ε_n` of the exact σ at every index (nothing rounded is fed back). -/
theorem stdev_series (p : Nat) (hp : 1 ≤ p) (nm input : String) (fld : Candle K → Num K) (n : Nat)
    (hn : SdNames nm) (hin : NoDot input ∧ input ∈ Candle.attrNames)
    (hattr : ∀ c : Candle K, c.attr input = some (.num (fld c)))
    (raw : List (Candle K)) (hraw : ∀ c ∈ raw, Plain c) :
    ∃ rows : List (Val K × Val K), rows.length = raw.length ∧
      Gen.rowMajor (stdevTree (F := K) nm n (p : Int) input (by omega) hin).S raw = .ok (decoSd nm raw rows) ∧
      ∀ j, j < raw.length → StdevOK p n (fieldAt fld raw) j (rows.getD j (.none, .none)) :=
  Numeric.stdev_series p hp nm input fld n hn hin hattr raw hraw

/-- **σ ≥ 0**: every stored STDEV reading is non-negative (`sqrt ≥ 0`: `[NonnegSqrt K]`). -/
theorem stdev_nonneg [NonnegSqrt K] {p n : Nat} {x : Nat → K} {j : Nat} {r : Val K × Val K}
    (h : StdevOK p n x j r) (y : K) (hy : r.1 = .flt y) : 0 ≤ y :=
  h.nonneg y hy

/-- **STDEV, whole series, candle by candle** (`SdCandleOK`): the own reading follows `stdevSeries`
(`None` before index `p`, then a non-negative float within `ε_n` of `sqrt(mean((x − mean)²))` of the
last `p` inputs); `name_data.mean` / `name_data.variance` hold exactly the running statistics,
which from index `p − 1` on are the window mean and population variance. -/
theorem stdev_series_candles [NonnegSqrt K] (p : Nat) (hp : 1 ≤ p) (nm input : String) (fld : Candle K → Num K)
    (n : Nat) (hn : SdNames nm) (hin : NoDot input ∧ input ∈ Candle.attrNames)
    (hattr : ∀ c : Candle K, c.attr input = some (.num (fld c)))
    (raw : List (Candle K)) (hraw : ∀ c ∈ raw, Plain c) :
    ∃ out : List (Candle K), out.length = raw.length ∧
      Gen.rowMajor (stdevTree (F := K) nm n (p : Int) input (by omega) hin).S raw = .ok out ∧
      ∀ j, j < raw.length → SdCandleOK p n nm (fieldAt fld raw) j (out.getD j default) :=
  Numeric.stdev_series_candles p hp nm input fld n hn hin hattr raw hraw

/-- **… through the object**: the batch run returns exactly the candles of `stdev_series`. -/
theorem stdev_series_batch (p : Nat) (hp : 1 ≤ p) (nm input : String) (fld : Candle K → Num K) (n : Nat)
    (hn : SdNames nm) (hin : NoDot input ∧ input ∈ Candle.attrNames)
    (hattr : ∀ c : Candle K, c.attr input = some (.num (fld c)))
    (raw : List (Candle K)) (hraw : ∀ c ∈ raw, Plain c) :
    ∃ rows : List (Val K × Val K), rows.length = raw.length ∧
      candlesOf (runIndicator (mkTop (.stdev (p : Int) input : Kind K) nm n) {} raw []) = .ok (decoSd nm raw rows) ∧
      ∀ j, j < raw.length → StdevOK p n (fieldAt fld raw) j (rows.getD j (.none, .none)) :=
  Numeric.stdev_series_batch p hp nm input fld n hn hin hattr raw hraw

/-- whenever the batch run returns, its candles are `SdCandleOK` -/
theorem stdev_batch_readings [NonnegSqrt K] (p : Nat) (hp : 1 ≤ p) (nm input : String) (fld : Candle K → Num K)
    (n : Nat) (hn : SdNames nm) (hin : NoDot input ∧ input ∈ Candle.attrNames)
    (hattr : ∀ c : Candle K, c.attr input = some (.num (fld c)))
    (raw : List (Candle K)) (hraw : ∀ c ∈ raw, Plain c) (out : List (Candle K))
    (hout : candlesOf (runIndicator (mkTop (.stdev (p : Int) input : Kind K) nm n) {} raw []) = .ok out) :
    out.length = raw.length ∧
    ∀ j, j < raw.length → SdCandleOK p n nm (fieldAt fld raw) j (out.getD j default) :=
  Numeric.stdev_batch_readings p hp nm input fld n hn hin hattr raw hraw out hout

/-- **… for every append schedule**: whenever a live history returns, its candles are those of
`stdev_series` over the whole stream. -/
theorem stdev_series_live (p : Nat) (hp : 1 ≤ p) (nm input : String) (fld : Candle K → Num K) (n : Nat)
    (hn : SdNames nm) (hin : NoDot input ∧ input ∈ Candle.attrNames)
    (hattr : ∀ c : Candle K, c.attr input = some (.num (fld c)))
    (init : List (Candle K)) (chunks : List (List (Candle K)))
    (hraw : ∀ c ∈ init ++ chunks.flatten, Plain c) (snap : List (Candle K))
    (hsnap : candlesOf (runIndicator (mkTop (.stdev (p : Int) input : Kind K) nm n) {} init chunks) = .ok snap) :
    ∃ rows : List (Val K × Val K), rows.length = (init ++ chunks.flatten).length ∧
      snap = decoSd nm (init ++ chunks.flatten) rows ∧
      ∀ j, j < (init ++ chunks.flatten).length →
        StdevOK p n (fieldAt fld (init ++ chunks.flatten)) j (rows.getD j (.none, .none)) :=
  Numeric.stdev_series_live p hp nm input fld n hn hin hattr init chunks hraw snap hsnap

/-- `STDEV(3)` on `close` over the demo candles (HexProofs/Numeric/SeriesStdevBB.lean evaluates it: no
reading on candles 0–2; on candle 4 the data entry is `{mean: 44/3, variance: 2/9}`) -/
example : ∃ rows : List (Val ℚ × Val ℚ), rows.length = demoRaw.length ∧
    Gen.rowMajor (stdevTree (F := ℚ) "STDEV_3" 4 ((3 : Nat) : Int) "close" (by omega) ⟨noDot_close, by decide⟩).S
      demoRaw = .ok (decoSd "STDEV_3" demoRaw rows) ∧
    ∀ j, j < demoRaw.length → StdevOK 3 4 (fieldAt (·.c) demoRaw) j (rows.getD j (.none, .none)) :=
  stdev_series 3 (by norm_num) "STDEV_3" "close" (·.c) 4 sdNames_demo ⟨noDot_close, by decide⟩
    (fun _ => rfl) demoRaw demoRaw_plain

/-! ### BBANDS (prior STDEV helper with its data series, prior SMA helper) -/

/-- **BBANDS, whole series** (row-major run of `bbTree`; `period = p ≥ 2`, input a candle field;
`BbNames`: the helper names are ordinary pairwise distinct keys).  For EVERY raw stream the run
returns the raw candles with, on candle `j`, the row `rows[j]` = (`name_STDEV` reading, its
`name_STDEV_data` entry, `name_SMA` reading, own dict), and every row is `BbOK`: the STDEV helper is a
STDEV series rounded to 4 decimals (first reading at index `p`), the SMA helper an SMA series
rounded to 4 decimals (first reading at `p − 1`, budget `(j + 2 − p)·ε₄`, growing with its running
update), the own reading the dict `{BBL: None, BBM: None, BBU: None}` on candles `0 … p − 1` and from
index `p` on `{BBL: round_n(m − 2s), BBM: round_n(m), BBU: round_n(m + 2s)}` of the STORED `m`, `s`. -/
theorem bb_series (p : Nat) (hp : 2 ≤ p) (nm input : String) (fld : Candle K → Num K) (n : Nat)
    (hn : BbNames nm) (hin : NoDot input ∧ input ∈ Candle.attrNames)
    (hattr : ∀ c : Candle K, c.attr input = some (.num (fld c)))
    (raw : List (Candle K)) (hraw : ∀ c ∈ raw, Plain c) :
    ∃ rows : List (BbRow K), rows.length = raw.length ∧
      Gen.rowMajor (bbTree (F := K) nm n (p : Int) input (by omega) hn hin).S raw = .ok (decoBb nm raw rows) ∧
      ∀ j, j < raw.length → BbOK p n (fieldAt fld raw) j (rows.getD j BbRow.dflt) :=
  Numeric.bb_series p hp nm input fld n hn hin hattr raw hraw

/-- **the bands**: from index `p` on the own reading is a dict of three floats with
`lower ≤ middle ≤ upper`, the middle band within `ε_n + (j + 2 − p)·ε₄` of the mean of the last `p`
inputs and the outer bands within `ε_n + (j + 4 − p)·ε₄` of `mean ∓ 2σ`. -/
theorem bb_bands [NonnegSqrt K] {p n : Nat} {x : Nat → K} {j : Nat} {r : BbRow K} (h : BbOK p n x j r)
    (hj : p ≤ j) :
    ∃ lo mid up : K, r.bb = bbDict lo mid up ∧ lo ≤ mid ∧ mid ≤ up ∧
      |mid - winMean x p j| ≤ eps K n + ((j + 2 - p : Nat) : K) * eps K defaultRound ∧
      |lo - (winMean x p j - 2 * sigmaExact x p j)| ≤ eps K n + (((j + 2 - p : Nat) : K) + 2) * eps K defaultRound ∧
      |up - (winMean x p j + 2 * sigmaExact x p j)| ≤ eps K n + (((j + 2 - p : Nat) : K) + 2) * eps K defaultRound :=
  h.bands hj

/-- **… through the object**: the batch run returns exactly the candles of `bb_series`. -/
theorem bb_series_batch (p : Nat) (hp : 2 ≤ p) (nm input : String) (fld : Candle K → Num K) (n : Nat)
    (hn : BbNames nm) (hin : NoDot input ∧ input ∈ Candle.attrNames)
    (hattr : ∀ c : Candle K, c.attr input = some (.num (fld c)))
    (raw : List (Candle K)) (hraw : ∀ c ∈ raw, Plain c) :
    ∃ rows : List (BbRow K), rows.length = raw.length ∧
      candlesOf (runIndicator (mkTop (.bbands (p : Int) input : Kind K) nm n) {} raw []) = .ok (decoBb nm raw rows) ∧
      ∀ j, j < raw.length → BbOK p n (fieldAt fld raw) j (rows.getD j BbRow.dflt) :=
  Numeric.bb_series_batch p hp nm input fld n hn hin hattr raw hraw

/-- whenever the batch run returns, its candles are `BbCandleOK`: the own dict follows the textbook
bands `bbSeries` (`BbOwnOK`: dict of `None`s before index `p`, then three ordered floats within the
budgets of `bb_bands`), the helpers are `SdCandleOK` / `SmaOK` at 4 decimals -/
theorem bb_batch_readings [NonnegSqrt K] (p : Nat) (hp : 2 ≤ p) (nm input : String) (fld : Candle K → Num K)
    (n : Nat) (hk : IsKey nm) (hn : BbNames nm) (hin : NoDot input ∧ input ∈ Candle.attrNames)
    (hattr : ∀ c : Candle K, c.attr input = some (.num (fld c)))
    (raw : List (Candle K)) (hraw : ∀ c ∈ raw, Plain c) (out : List (Candle K))
    (hout : candlesOf (runIndicator (mkTop (.bbands (p : Int) input : Kind K) nm n) {} raw []) = .ok out) :
    out.length = raw.length ∧
    ∀ j, j < raw.length → BbCandleOK p n nm (fieldAt fld raw) j (out.getD j default) :=
  Numeric.bb_batch_readings p hp nm input fld n hk hn hin hattr raw hraw out hout

/-- **… for every append schedule** -/
theorem bb_series_live (p : Nat) (hp : 2 ≤ p) (nm input : String) (fld : Candle K → Num K) (n : Nat)
    (hn : BbNames nm) (hin : NoDot input ∧ input ∈ Candle.attrNames)
    (hattr : ∀ c : Candle K, c.attr input = some (.num (fld c)))
    (init : List (Candle K)) (chunks : List (List (Candle K)))
    (hraw : ∀ c ∈ init ++ chunks.flatten, Plain c) (snap : List (Candle K))
    (hsnap : candlesOf (runIndicator (mkTop (.bbands (p : Int) input : Kind K) nm n) {} init chunks) = .ok snap) :
    ∃ rows : List (BbRow K), rows.length = (init ++ chunks.flatten).length ∧
      snap = decoBb nm (init ++ chunks.flatten) rows ∧
      ∀ j, j < (init ++ chunks.flatten).length →
        BbOK p n (fieldAt fld (init ++ chunks.flatten)) j (rows.getD j BbRow.dflt) :=
  Numeric.bb_series_live p hp nm input fld n hn hin hattr init chunks hraw snap hsnap

/-- `BBANDS(3)` on `close` over the demo candles (SeriesStdevBB.lean: dict of `None`s on candle 2 although
the SMA helper already has a value; on candle 4 three ordered floats, middle within `ε₄ + 3·ε₄` of `44/3`) -/
example : ∃ rows : List (BbRow ℚ), rows.length = demoRaw.length ∧
    Gen.rowMajor (bbTree (F := ℚ) "BB_3" 4 ((3 : Nat) : Int) "close" (by omega) bbNames_demo ⟨noDot_close, by decide⟩).S
      demoRaw = .ok (decoBb "BB_3" demoRaw rows) ∧
    ∀ j, j < demoRaw.length → BbOK 3 4 (fieldAt (·.c) demoRaw) j (rows.getD j BbRow.dflt) :=
  bb_series 3 (by norm_num) "BB_3" "close" (·.c) 4 bbNames_demo ⟨noDot_close, by decide⟩
    (fun _ => rfl) demoRaw demoRaw_plain

/-! ### Keltner Channel (prior ATR helper with its TR helper, prior EMA helper) -/

/-- **KC, whole series, reading by reading** (row-major run of `kcTree`; `period = p ≥ 2`, input a
candle field, any multiplier; `KcNames`).  For every raw stream the run returns a list that is
`KcSeriesOK`: same length, candle `j` is raw candle `j` carrying
* `name_ATR_TR` = `trStored` (`None` on candle 0, then the true range at 4 decimals);
* `name_ATR`: `AtrOK` at 4 decimals – `None` for `j < p`, FIRST READING AT `p`, `≥ 0`, within `p·ε₄` of
  Wilder's average of the stored true ranges (`AtrOKTrue`: `+ ε₄` against the exact ones);
* `name_EMA`: `RecOK` – `None` for `j + 1 < p`, first reading at `p − 1`, within `ε₄/α` of the textbook
  EMA `emaExact`, `α = 2/(p+1)`;
* `name` = `kcBands` of those two STORED readings: the three-`None` dict for `j < p`, then
  `{lower: round_n(E − m·A), band: round_n(E), upper: round_n(E + m·A)}`, which is `KcOwnOK` against the
  textbook channel `kcSeries`: `|band − EMA| ≤ ε_n + ε₄/α`, `|lower/upper − (EMA ∓ m·ATR)| ≤ ε_n + ε₄/α +
  |m|·p·ε₄` (stored true ranges; `+ |m|·ε₄` for the exact ones), and `lower ≤ band ≤ upper` if `m ≥ 0`. -/
theorem kc_series_readings (p : Nat) (hp : 2 ≤ p) (nm input : String) (fld : Candle K → Num K) (n : Nat)
    (mult : Num K) (hk : IsKey nm) (hn : KcNames nm) (hin : NoDot input ∧ input ∈ Candle.attrNames)
    (hattr : ∀ c : Candle K, c.attr input = some (.num (fld c)))
    (raw : List (Candle K)) (hraw : ∀ c ∈ raw, Plain c) :
    ∃ out : List (Candle K),
      Gen.rowMajor (kcTree (F := K) nm n (p : Int) input mult (by omega) hn hin).S raw = .ok out ∧
      KcSeriesOK p n mult nm fld raw out :=
  Numeric.kc_series_readings p hp nm input fld n mult hk hn hin hattr raw hraw

/-- **… through the object**: the batch run returns, and its candles are `KcSeriesOK`. -/
theorem kc_batch (p : Nat) (hp : 2 ≤ p) (nm input : String) (fld : Candle K → Num K) (n : Nat)
    (mult : Num K) (hk : IsKey nm) (hn : KcNames nm) (hin : NoDot input ∧ input ∈ Candle.attrNames)
    (hattr : ∀ c : Candle K, c.attr input = some (.num (fld c)))
    (raw : List (Candle K)) (hraw : ∀ c ∈ raw, Plain c) :
    ∃ out : List (Candle K),
      candlesOf (runIndicator (mkTop (.kc (p : Int) input mult : Kind K) nm n) {} raw []) = .ok out ∧
      KcSeriesOK p n mult nm fld raw out :=
  Numeric.kc_batch p hp nm input fld n mult hk hn hin hattr raw hraw

/-- whenever the batch run returns, its candles are `KcSeriesOK` -/
theorem kc_batch_readings (p : Nat) (hp : 2 ≤ p) (nm input : String) (fld : Candle K → Num K) (n : Nat)
    (mult : Num K) (hk : IsKey nm) (hn : KcNames nm) (hin : NoDot input ∧ input ∈ Candle.attrNames)
    (hattr : ∀ c : Candle K, c.attr input = some (.num (fld c)))
    (raw : List (Candle K)) (hraw : ∀ c ∈ raw, Plain c) (out : List (Candle K))
    (hout : candlesOf (runIndicator (mkTop (.kc (p : Int) input mult : Kind K) nm n) {} raw []) = .ok out) :
    KcSeriesOK p n mult nm fld raw out :=
  Numeric.kc_batch_readings p hp nm input fld n mult hk hn hin hattr raw hraw out hout

/-- **… for every append schedule**: whenever a live history returns, its candles are `KcSeriesOK`
over the whole stream. -/
theorem kc_live (p : Nat) (hp : 2 ≤ p) (nm input : String) (fld : Candle K → Num K) (n : Nat)
    (mult : Num K) (hk : IsKey nm) (hn : KcNames nm) (hin : NoDot input ∧ input ∈ Candle.attrNames)
    (hattr : ∀ c : Candle K, c.attr input = some (.num (fld c)))
    (init : List (Candle K)) (chunks : List (List (Candle K)))
    (hraw : ∀ c ∈ init ++ chunks.flatten, Plain c) (snap : List (Candle K))
    (hsnap : candlesOf (runIndicator (mkTop (.kc (p : Int) input mult : Kind K) nm n) {} init chunks) = .ok snap) :
    KcSeriesOK p n mult nm fld (init ++ chunks.flatten) snap :=
  Numeric.kc_live p hp nm input fld n mult hk hn hin hattr init chunks hraw snap hsnap

/-- `KC(2)` on `close`, multiplier 2, over the demo candles (SeriesKC.lean evaluates it: the
three-`None` dict on candles 0, 1 – on candle 1 the EMA helper already has a reading –, an ordered
triple on candle 2 with `|band − 79/6| ≤ ε₄ + ε₄/(2/3)`) -/
example : ∃ out : List (Candle ℚ),
    candlesOf (runIndicator (mkTop (.kc ((2 : Nat) : Int) "close" (fl 2) : Kind ℚ) "KC_2" 4) {} demoRaw [])
      = .ok out ∧ KcSeriesOK 2 4 (fl 2) "KC_2" (·.c) demoRaw out :=
  kc_batch 2 (by norm_num) "KC_2" "close" (·.c) 4 (fl 2) (by decide) kcNames_demo ⟨noDot_close, by decide⟩
    (fun _ => rfl) demoRaw demoRaw_plain

/-! ### Supertrend (prior ATR and HL2 helpers, managed `name_data` series) -/

/-- **Supertrend, whole series** (row-major run of `stTree`; ATR period `p ≥ 1`, any multiplier;
`StNames`).  For EVERY raw stream the run returns the raw candles finished with rows `rows[j]` that
are `StRowOK`: the helper columns are `trStored` (`None` on candle 0), `stAtrStored` (`None` before
index `p`, then `stAtr`: Wilder's average of the stored true ranges rounded to 4 decimals at every
step) and `hl2Stored` (`round₄((high+low)/2)`); own reading and `name_data` entry follow the textbook
state machine `stSeries` run on those STORED helper readings and the raw closes (`StOK`: no state and
`stNoneDict` before index `p`; then the data entry holds the machine's bands EXACTLY and the own
reading is `stDict direction upper lower` rounded to `n` decimals). -/
theorem st_series (p : Nat) (hp : 1 ≤ p) (nm input : String) (mult : Num K) (n : Nat) (hn : StNames nm)
    (raw : List (Candle K)) (hraw : ∀ c ∈ raw, Plain c) :
    ∃ rows : List (StRow K), rows.length = raw.length ∧
      Gen.rowMajor (stTree (F := K) nm n (p : Int) input mult (by omega) hn).S raw = .ok (decoSt nm raw rows) ∧
      ∀ j, j < raw.length → StRowOK p n mult.toF raw j (rows.getD j StRow.dflt) :=
  Numeric.st_series p hp nm input mult n hn raw hraw

/-- **Supertrend, whole series, candle by candle** (`StCandleOK`): candle `j` is raw candle `j` with
the three helper readings as above, `name_data.upper` / `name_data.lower` EXACTLY the bands of
`stSeries` (nothing before index `p`), and under `name` the reading `stDict direction U L` with
`U`, `L` within `ε_n` of those bands and the direction exact (`stNoneDict` before index `p`). -/
theorem st_series_candles (p : Nat) (hp : 1 ≤ p) (nm input : String) (mult : Num K) (n : Nat)
    (hn : StNames nm) (hk : IsKey nm) (raw : List (Candle K)) (hraw : ∀ c ∈ raw, Plain c) :
    ∃ out : List (Candle K), out.length = raw.length ∧
      Gen.rowMajor (stTree (F := K) nm n (p : Int) input mult (by omega) hn).S raw = .ok out ∧
      ∀ j, j < raw.length → StCandleOK p n mult.toF nm raw j (out.getD j default) :=
  Numeric.st_series_candles p hp nm input mult n hn hk raw hraw

/-- **… through the object**: the batch run returns, and its candles are `StCandleOK`. -/
theorem st_series_batch (p : Nat) (hp : 1 ≤ p) (nm input : String) (mult : Num K) (n : Nat)
    (hn : StNames nm) (hk : IsKey nm) (raw : List (Candle K)) (hraw : ∀ c ∈ raw, Plain c) :
    ∃ out : List (Candle K), out.length = raw.length ∧
      candlesOf (runIndicator (mkTop (.supertrend (p : Int) input mult : Kind K) nm n) {} raw []) = .ok out ∧
      ∀ j, j < raw.length → StCandleOK p n mult.toF nm raw j (out.getD j default) :=
  Numeric.st_series_batch p hp nm input mult n hn hk raw hraw

/-- whenever the batch run returns, its candles are `StCandleOK` -/
theorem st_batch_readings (p : Nat) (hp : 1 ≤ p) (nm input : String) (mult : Num K) (n : Nat)
    (hn : StNames nm) (hk : IsKey nm) (raw : List (Candle K)) (hraw : ∀ c ∈ raw, Plain c)
    (out : List (Candle K))
    (hout : candlesOf (runIndicator (mkTop (.supertrend (p : Int) input mult : Kind K) nm n) {} raw []) = .ok out) :
    out.length = raw.length ∧
    ∀ j, j < raw.length → StCandleOK p n mult.toF nm raw j (out.getD j default) :=
  Numeric.st_batch_readings p hp nm input mult n hn hk raw hraw out hout

/-- **… for every append schedule** -/
theorem st_series_live (p : Nat) (hp : 1 ≤ p) (nm input : String) (mult : Num K) (n : Nat)
    (hn : StNames nm) (hk : IsKey nm) (init : List (Candle K)) (chunks : List (List (Candle K)))
    (hraw : ∀ c ∈ init ++ chunks.flatten, Plain c) (snap : List (Candle K))
    (hsnap : candlesOf (runIndicator (mkTop (.supertrend (p : Int) input mult : Kind K) nm n) {} init chunks) = .ok snap) :
    snap.length = (init ++ chunks.flatten).length ∧
    ∀ j, j < (init ++ chunks.flatten).length →
      StCandleOK p n mult.toF nm (init ++ chunks.flatten) j (snap.getD j default) :=
  Numeric.st_series_live p hp nm input mult n hn hk init chunks hraw snap hsnap

/-- the stored ATR helper column of a Supertrend is `AtrOK` at 4 decimals: `None` before index `p`,
then non-negative and within `p·ε₄` of Wilder's average of the stored true ranges – although it is
re-rounded at every step the budget does not grow -/
theorem st_atr_budget (p : Nat) (hp : 1 ≤ p) (raw : List (Candle K)) (j : Nat) :
    AtrOK p defaultRound (trS raw) j (stAtrStored p raw j) :=
  stAtrStored_ok p hp raw j

/-- **direction**: every state of the series has direction `1` or `−1` -/
theorem st_dir (p : Nat) (mult : K) (raw : List (Candle K)) (j : Nat) (s : StState K)
    (h : stSeries p mult raw j = some s) : s.dir = 1 ∨ s.dir = -1 :=
  stSeries_dir p mult raw j s h

/-- **the direction flips exactly when the close breaks the previous ACTIVE band**, along the whole
series: out of an up-trend iff `close < previous lower`, out of a down-trend iff
`previous upper < close` -/
theorem st_flip (p : Nat) (mult : K) (raw : List (Candle K)) (j : Nat) (s s' : StState K)
    (hj : p ≤ j) (hs : stSeries p mult raw j = some s) (hs' : stSeries p mult raw (j + 1) = some s') :
    (s.dir = 1 → (s'.dir = -1 ↔ fieldAt (·.c) raw (j + 1) < s.lower)) ∧
    (s.dir = -1 → (s'.dir = 1 ↔ s.upper < fieldAt (·.c) raw (j + 1))) :=
  stSeries_flip p mult raw j s s' hj hs hs'

/-- **ratchet**: while the close stays between the previous bands the direction is kept, the lower
band of an up-trend does not drop and the upper band of a down-trend does not rise.  (When the close
is beyond the IDLE band the library resets both bands without ratcheting, so the hypothesis is
needed – counterexample in SeriesSupertrend.lean.) -/
theorem st_ratchet (p : Nat) (mult : K) (raw : List (Candle K)) (j : Nat) (s s' : StState K)
    (hj : p ≤ j) (hs : stSeries p mult raw j = some s) (hs' : stSeries p mult raw (j + 1) = some s')
    (h1 : ¬ s.upper < fieldAt (·.c) raw (j + 1)) (h2 : ¬ fieldAt (·.c) raw (j + 1) < s.lower) :
    s'.dir = s.dir ∧ (s.dir = 1 → s.lower ≤ s'.lower) ∧ (s.dir = -1 → s'.upper ≤ s.upper) :=
  stSeries_ratchet p mult raw j s s' hj hs hs' h1 h2

/-- `Supertrend(2, 3)` over the demo candles (SeriesSupertrend.lean evaluates the textbook series: no state
on candles 0, 1; `(1, 23.5, 2.5)`, `(1, 24.25, 4.75)`, `(1, 19.875, 10.125)` on candles 2, 3, 4) -/
example : ∃ out : List (Candle ℚ), out.length = demoRaw.length ∧
    candlesOf (runIndicator (mkTop (.supertrend ((2 : Nat) : Int) "close" (.int 3) : Kind ℚ) "ST_2" 4) {} demoRaw [])
      = .ok out ∧
    ∀ j, j < demoRaw.length → StCandleOK 2 4 (Num.int 3 : Num ℚ).toF "ST_2" demoRaw j (out.getD j default) :=
  st_series_batch 2 (by norm_num) "ST_2" "close" (.int 3) 4 stNames_demo (by decide) demoRaw demoRaw_plain

/-! ### Donchian, HighestLowest (window extremes) -/

/-- **Donchian, whole series**, `period = p ≥ 2` (`DcNames`: an ordinary key whose `DCU` field is a
dotted name).  `DcOK`: all fields `None` up to index `p − 2`, FIRST READING AT INDEX `p − 1`; window =
the last `p` candles; `DCL` / `DCU` are the low / high of two candles of the window, with their type
(an int stays an int, a float is rounded), whose values are the lowest low / highest high of the
window; `DCM = round_n` of the mean of the two UNROUNDED bounds. -/
theorem donchian_series (p : Nat) (hp : 2 ≤ p) (nm : String) (n : Nat) (hn : DcNames nm)
    (raw : List (Candle K)) (hraw : ∀ c ∈ raw, Plain c) :
    ∃ vs : List (Val K), vs.length = raw.length ∧
      rowMajor (mkTop (.donchian p) nm n) raw = .ok (deco nm raw vs) ∧
      ∀ j, j < raw.length → DcOK p n (numAt (·.h) raw) (numAt (·.l) raw) j (vs.getD j .none) :=
  Numeric.donchian_series p hp nm n hn raw hraw

/-- **Donchian, field by field** (from index `p − 1` on): `DCL` / `DCU` within `ε_n` of the lowest
low / highest high of the last `p` candles (exactly equal for int prices), `DCM` within `ε_n` of
their mean; the exact channel encloses the candle's own low and high. -/
theorem donchian_near (p n : Nat) (hN lN : Nat → Num K) (j : Nat) (v : Val K) (h : DcOK p n hN lN j v)
    (hj : p ≤ j + 1) :
    NumNear n (winMin (fun k => (lN k).toF) j (p - 1)) (v.nested "DCL") ∧
    NumNear n (winMax (fun k => (hN k).toF) j (p - 1)) (v.nested "DCU") ∧
    NumNear n ((winMax (fun k => (hN k).toF) j (p - 1) + winMin (fun k => (lN k).toF) j (p - 1)) / 2)
      (v.nested "DCM") ∧
    winMin (fun k => (lN k).toF) j (p - 1) ≤ (lN j).toF ∧ (hN j).toF ≤ winMax (fun k => (hN k).toF) j (p - 1) :=
  dcOK_near p n hN lN j v h hj

/-- **… through the engine and the object** -/
theorem donchian_series_batch (p : Nat) (hp : 2 ≤ p) (nm : String) (n : Nat) (hn : DcNames nm)
    (raw : List (Candle K)) (hraw : ∀ c ∈ raw, Plain c) :
    ∃ vs : List (Val K), vs.length = raw.length ∧
      engineCalc (mkTop (.donchian p : Kind K) nm n) raw = .ok (deco nm raw vs) ∧
      candlesOf (runIndicator (mkTop (.donchian p : Kind K) nm n) {} raw []) = .ok (deco nm raw vs) ∧
      ∀ j, j < raw.length → DcOK p n (numAt (·.h) raw) (numAt (·.l) raw) j (vs.getD j .none) :=
  Numeric.donchian_series_batch p hp nm n hn raw hraw

/-- **… for every append schedule** -/
theorem donchian_series_live (p : Nat) (hp : 2 ≤ p) (nm : String) (n : Nat) (hn : DcNames nm)
    (init : List (Candle K)) (chunks : List (List (Candle K)))
    (hraw : ∀ c ∈ init ++ chunks.flatten, Plain c) (snap : List (Candle K))
    (hsnap : candlesOf (runIndicator (mkTop (.donchian p : Kind K) nm n) {} init chunks) = .ok snap) :
    ∃ vs : List (Val K), vs.length = (init ++ chunks.flatten).length ∧
      snap = deco nm (init ++ chunks.flatten) vs ∧
      ∀ j, j < (init ++ chunks.flatten).length →
        DcOK p n (numAt (·.h) (init ++ chunks.flatten)) (numAt (·.l) (init ++ chunks.flatten)) j (vs.getD j .none) :=
  Numeric.donchian_series_live p hp nm n hn init chunks hraw snap hsnap

/-- **HighestLowest, whole series**, `period = p ≥ 1`.  `HlOK`: NO warm-up – a reading on every
candle from index 0; window = the last `p + 1` candles, cut at candle 0; `low` / `high` are the low /
high of two candles of the window with their type, whose values are the lowest low / highest high. -/
theorem hl_series (p : Nat) (hp : 1 ≤ p) (nm : String) (n : Nat)
    (raw : List (Candle K)) (hraw : ∀ c ∈ raw, Plain c) :
    ∃ vs : List (Val K), vs.length = raw.length ∧
      rowMajor (mkTop (.hl p) nm n) raw = .ok (deco nm raw vs) ∧
      ∀ j, j < raw.length → HlOK p n (numAt (·.h) raw) (numAt (·.l) raw) j (vs.getD j .none) :=
  Numeric.hl_series p hp nm n raw hraw

/-- **HighestLowest, field by field**: `low` / `high` within `ε_n` of the lowest low / highest high of
the window (exactly equal for int prices); the window encloses the candle's own low and high. -/
theorem hl_near (p n : Nat) (hN lN : Nat → Num K) (j : Nat) (v : Val K) (h : HlOK p n hN lN j v) :
    NumNear n (winMin (fun k => (lN k).toF) j p) (v.nested "low") ∧
    NumNear n (winMax (fun k => (hN k).toF) j p) (v.nested "high") ∧
    winMin (fun k => (lN k).toF) j p ≤ (lN j).toF ∧ (hN j).toF ≤ winMax (fun k => (hN k).toF) j p :=
  hlOK_near p n hN lN j v h

/-- **… through the engine and the object** -/
theorem hl_series_batch (p : Nat) (hp : 1 ≤ p) (nm : String) (n : Nat)
    (raw : List (Candle K)) (hraw : ∀ c ∈ raw, Plain c) :
    ∃ vs : List (Val K), vs.length = raw.length ∧
      engineCalc (mkTop (.hl p : Kind K) nm n) raw = .ok (deco nm raw vs) ∧
      candlesOf (runIndicator (mkTop (.hl p : Kind K) nm n) {} raw []) = .ok (deco nm raw vs) ∧
      ∀ j, j < raw.length → HlOK p n (numAt (·.h) raw) (numAt (·.l) raw) j (vs.getD j .none) :=
  Numeric.hl_series_batch p hp nm n raw hraw

/-- **… for every append schedule** -/
theorem hl_series_live (p : Nat) (hp : 1 ≤ p) (nm : String) (n : Nat)
    (init : List (Candle K)) (chunks : List (List (Candle K)))
    (hraw : ∀ c ∈ init ++ chunks.flatten, Plain c) (snap : List (Candle K))
    (hsnap : candlesOf (runIndicator (mkTop (.hl p : Kind K) nm n) {} init chunks) = .ok snap) :
    ∃ vs : List (Val K), vs.length = (init ++ chunks.flatten).length ∧
      snap = deco nm (init ++ chunks.flatten) vs ∧
      ∀ j, j < (init ++ chunks.flatten).length →
        HlOK p n (numAt (·.h) (init ++ chunks.flatten)) (numAt (·.l) (init ++ chunks.flatten)) j (vs.getD j .none) :=
  Numeric.hl_series_live p hp nm n init chunks hraw snap hsnap

/-- `DONCHIAN(3)` and `HL(2)` over the demo candles (SeriesWindows.lean evaluates the last index: window =
candles 2, 3, 4, highest high 16, lowest low 11) -/
example : ∃ vs : List (Val ℚ), vs.length = demoRaw.length ∧
    engineCalc (mkTop (.donchian ((3 : Nat) : Int) : Kind ℚ) "DONCHIAN_3" 4) demoRaw = .ok (deco "DONCHIAN_3" demoRaw vs) ∧
    candlesOf (runIndicator (mkTop (.donchian ((3 : Nat) : Int) : Kind ℚ) "DONCHIAN_3" 4) {} demoRaw [])
      = .ok (deco "DONCHIAN_3" demoRaw vs) ∧
    ∀ j, j < demoRaw.length → DcOK 3 4 (numAt (·.h) demoRaw) (numAt (·.l) demoRaw) j (vs.getD j .none) :=
  donchian_series_batch 3 (by norm_num) "DONCHIAN_3" 4 dcNames_demo demoRaw demoRaw_plain

example : ∃ vs : List (Val ℚ), vs.length = demoRaw.length ∧
    engineCalc (mkTop (.hl ((2 : Nat) : Int) : Kind ℚ) "HL_2" 4) demoRaw = .ok (deco "HL_2" demoRaw vs) ∧
    candlesOf (runIndicator (mkTop (.hl ((2 : Nat) : Int) : Kind ℚ) "HL_2" 4) {} demoRaw []) = .ok (deco "HL_2" demoRaw vs) ∧
    ∀ j, j < demoRaw.length → HlOK 2 4 (numAt (·.h) demoRaw) (numAt (·.l) demoRaw) j (vs.getD j .none) :=
  hl_series_batch 2 (by norm_num) "HL_2" 4 demoRaw demoRaw_plain

/-! ### Counter (every float carrier), STDEV threshold -/

/-- **Counter, whole series, ANY input column, every carrier `[PyF F]`** (hence also the executed
`Float`).  For EVERY candle list – no condition: the candles may already carry other indicators'
readings, the input may be any reading name, present or missing – the row-major run returns, and the
reading on candle `j` is the Python int `runLen cv col j` (`col i` = what `reading(input)` returns on
candle `i`): first reading at index 0, never `None`, never rounded. -/
theorem counter_series_col {F : Type} [PyF F] (nm input : String) (cv : Scalar F) (n : Nat) (hk : IsKey nm)
    (raw : List (Candle F)) :
    ∃ vs : List (Val F), vs.length = raw.length ∧
      rowMajor (mkTop (.counter input cv) nm n) raw = .ok (deco nm raw vs) ∧
      ∀ j, j < raw.length →
        CountOK cv (fun i => readingByCandle (raw.getD i default) input) j (vs.getD j .none) :=
  Numeric.counter_series_col nm input cv n hk raw

/-- **the run length grows by one, stays (missing input only) or resets to 0** from each candle to
the next -/
theorem counter_steps {F : Type} [PyF F] (cv : Scalar F) (r : Nat → Val F) (j : Nat) :
    ((r (j + 1)).isNone = true ∧ runLen cv r (j + 1) = runLen cv r j) ∨
    ((r (j + 1)).isNone = false ∧ Calc.pyEqScalarVal cv (r (j + 1)) = true ∧ runLen cv r (j + 1) = runLen cv r j + 1) ∨
    ((r (j + 1)).isNone = false ∧ Calc.pyEqScalarVal cv (r (j + 1)) = false ∧ runLen cv r (j + 1) = 0) :=
  runLen_succ_cases cv r j

/-- **Counter over a candle field, for every append schedule** (the batch run is `chunks = []`): the
run RETURNS, and its candles are the raw candles with the run length of the field's values equal to
the counted value. -/
theorem counter_series_live {F : Type} [PyF F] (nm input : String) (fld : Candle F → Num F) (cv : Scalar F)
    (n : Nat) (hk : IsKey nm) (hin : AttrInput input) (hattr : ∀ c : Candle F, c.attr input = some (.num (fld c)))
    (init : List (Candle F)) (chunks : List (List (Candle F)))
    (hraw : ∀ c ∈ init ++ chunks.flatten, Plain c) :
    ∃ vs : List (Val F), vs.length = (init ++ chunks.flatten).length ∧
      candlesOf (runIndicator (mkTop (.counter input cv) nm n) {} init chunks)
        = .ok (deco nm (init ++ chunks.flatten) vs) ∧
      ∀ j, j < (init ++ chunks.flatten).length →
        CountOK cv (fun i => .num (fld ((init ++ chunks.flatten).getD i default))) j (vs.getD j .none) :=
  Numeric.counter_series_live nm input fld cv n hk hin hattr init chunks hraw

/-- counting closes equal to 15 over the demo candles: the run lengths are `0, 0, 0, 1, 2`
(SeriesUtility.lean; there also a column with missing inputs and the `Float` instance) -/
example : ∃ vs : List (Val ℚ), vs.length = demoRaw.length ∧
    candlesOf (runIndicator (mkTop (.counter "close" (.num (.int 15))) "COUNT_close" 4) {} demoRaw [])
      = .ok (deco "COUNT_close" demoRaw vs) ∧
    ∀ j, j < demoRaw.length →
      CountOK (.num (.int 15)) (fun i => .num ((demoRaw.getD i default).c)) j (vs.getD j .none) := by
  have := counter_series_live "COUNT_close" "close" (·.c) (.num (.int 15)) 4 (by decide)
    ⟨noDot_close, by decide⟩ (fun _ => rfl) demoRaw [] (by simpa using demoRaw_plain)
  simpa using this

example : (List.range 5).map (runLen (F := ℚ) (.num (.int 15)) (fun i => .num ((demoRaw.getD i default).c)))
    = [0, 0, 0, 1, 2] := by decide

/-- **STDEV threshold, whole series** (row-major run of `thresTree`; `period = p ≥ 1`, input a candle
field, any multiplier; `ThresNames`).  For EVERY raw stream the run returns the raw candles with rows
`rows[j]` = (`name_stdev` reading, its data entry, own bool) that are `ThOK`: the helper is a STDEV
series at 4 decimals (first reading at index `p`); the own reading is the bool `False` on candles
`0 … p − 1` (never `None`) and from index `p` on EXACTLY `σ_stored·m < |x_j − x_{j−1}|` on the STORED
`σ_stored = round₄(σ)` – a bool is not rounded, the only rounding point is the helper's. -/
theorem thres_series (p : Nat) (hp : 1 ≤ p) (nm input : String) (fld : Candle K → Num K) (mult : Num K) (n : Nat)
    (hn : ThresNames nm) (hin : NoDot input ∧ input ∈ Candle.attrNames)
    (hattr : ∀ c : Candle K, c.attr input = some (.num (fld c)))
    (raw : List (Candle K)) (hraw : ∀ c ∈ raw, Plain c) :
    ∃ rows : List (ThRow K), rows.length = raw.length ∧
      Gen.rowMajor (thresTree (F := K) nm n (p : Int) input mult (by omega) hn hin).S raw = .ok (decoTh nm raw rows) ∧
      ∀ j, j < raw.length → ThOK p mult.toF (fieldAt fld raw) j (rows.getD j ThRow.dflt) :=
  Numeric.thres_series p hp nm input fld mult n hn hin hattr raw hraw

/-- **the stored flag equals the textbook flag** `thresSeries` (strict comparison on the EXACT σ)
whenever the two sides of the comparison differ by more than `|m|·ε₄`; before index `p` both are
`False` unconditionally.  (`ThOK.exact_sides`, `ThOK.disagree_band`: the one-sided forms.) -/
theorem thres_agree {p : Nat} {mult : K} {x : Nat → K} {j : Nat} {r : ThRow K}
    (h : ThOK p mult x j r)
    (hgap : p ≤ j → |mult| * eps K defaultRound < |(|x j - x (j - 1)| - sigmaExact x p j * mult)|) :
    r.th = .bool (thresSeries p mult x j) :=
  h.agree hgap

/-- whenever the batch run returns (it does: `Numeric.thres_series_batch`), its candles are
`ThCandleOK`: helper entries `SdCandleOK` at 4 decimals, own reading a bool as above -/
theorem thres_batch_readings [NonnegSqrt K] (p : Nat) (hp : 1 ≤ p) (nm input : String) (fld : Candle K → Num K)
    (mult : Num K) (n : Nat) (hk : IsKey nm) (hn : ThresNames nm) (hin : NoDot input ∧ input ∈ Candle.attrNames)
    (hattr : ∀ c : Candle K, c.attr input = some (.num (fld c)))
    (raw : List (Candle K)) (hraw : ∀ c ∈ raw, Plain c) (out : List (Candle K))
    (hout : candlesOf (runIndicator (mkTop (.stdevthres (p : Int) input mult : Kind K) nm n) {} raw []) = .ok out) :
    out.length = raw.length ∧
    ∀ j, j < raw.length → ThCandleOK p nm mult.toF (fieldAt fld raw) j (out.getD j default) :=
  Numeric.thres_batch_readings p hp nm input fld mult n hk hn hin hattr raw hraw out hout

/-- **… for every append schedule** -/
theorem thres_series_live (p : Nat) (hp : 1 ≤ p) (nm input : String) (fld : Candle K → Num K) (mult : Num K)
    (n : Nat) (hn : ThresNames nm) (hin : NoDot input ∧ input ∈ Candle.attrNames)
    (hattr : ∀ c : Candle K, c.attr input = some (.num (fld c)))
    (init : List (Candle K)) (chunks : List (List (Candle K)))
    (hraw : ∀ c ∈ init ++ chunks.flatten, Plain c) (snap : List (Candle K))
    (hsnap : candlesOf (runIndicator (mkTop (.stdevthres (p : Int) input mult : Kind K) nm n) {} init chunks) = .ok snap) :
    ∃ rows : List (ThRow K), rows.length = (init ++ chunks.flatten).length ∧
      snap = decoTh nm (init ++ chunks.flatten) rows ∧
      ∀ j, j < (init ++ chunks.flatten).length →
        ThOK p mult.toF (fieldAt fld (init ++ chunks.flatten)) j (rows.getD j ThRow.dflt) :=
  Numeric.thres_series_live p hp nm input fld mult n hn hin hattr init chunks hraw snap hsnap

/-- `STDEVTHRES(3)` on `close`, multiplier 1, over the demo candles (SeriesUtility.lean evaluates it: `False`
on candle 2 – warm-up – and on candle 4, close unchanged) -/
example : ∃ rows : List (ThRow ℚ), rows.length = demoRaw.length ∧
    Gen.rowMajor (thresTree (F := ℚ) "STDEVTHRES_3" 4 ((3 : Nat) : Int) "close" (fl 1) (by omega) thresNames_demo
      ⟨noDot_close, by decide⟩).S demoRaw = .ok (decoTh "STDEVTHRES_3" demoRaw rows) ∧
    ∀ j, j < demoRaw.length →
      ThOK 3 (fl 1 : Num ℚ).toF (fieldAt (·.c) demoRaw) j (rows.getD j ThRow.dflt) :=
  thres_series 3 (by norm_num) "STDEVTHRES_3" "close" (·.c) (fl 1) 4 thresNames_demo ⟨noDot_close, by decide⟩
    (fun _ => rfl) demoRaw demoRaw_plain

/-! ## the former full statement (now a theorem) and what is still open -/

/-- The former open statement of this file, for ATR, CORRECTED in two places and now PROVED
(`C05_FULL_holds`): for every raw stream and `period = p ≥ 1` (it was `≥ 2`; `1` is covered) the ENGINE
`calculate()` never raises and stores `None` on the first `p` candles (TR needs a previous close, so
ATR's first reading is at index `p`) and afterwards a non-negative float close to Wilder's average
of the true ranges seeded by the mean of the first `p` of them (`atrExact p (trExact raw)`; by
`Numeric.atrExact_eq_shift` this is the series the earlier version wrote with shifted inputs).
Corrections (both reported by the proof of `Numeric.atr_series`):
* the budget: the earlier version claimed `ε_n/(1/p) = p·ε_n` against the EXACT true ranges.  That is
  not what the library computes: ATR reads the `name_TR` helper's STORED readings, which the engine
  has rounded to 4 decimals whatever `n` is, so what holds (and is proved) is `p·ε_n + ε₄`
  (`AtrOKTrue`; `p·ε_n` holds against the stored true ranges, `AtrOK`, see `atr_engine_readings`);
* the fuel: the earlier version ran `calculate (fuelFor raw)`; the object's `calculate()` is
  `engineCalc ind cs = calculate (fuelFor cs + 1) ind cs` (`IndState.calculate_engine`);
and the helper name must be an ordinary key different from the name (`AtrNames`; true of every
shipped default name, e.g. `"ATR_2"`). -/
def C05_FULL : Prop :=
  ∀ (K : Type) [Field K] [LinearOrder K] [IsStrictOrderedRing K] [LawfulPyF K]
    (p : Nat) (nm : String) (n : Nat) (raw : List (Candle K)),
    1 ≤ p → IsKey nm → AtrNames nm → (∀ c ∈ raw, Plain c) →
    ∃ out : List (Candle K), engineCalc (mkTop (.atr (p : Int)) nm n) raw = .ok out ∧
      out.length = raw.length ∧
      ∀ j, j < raw.length → AtrOKTrue p n raw j (readingByCandle (out.getD j default) nm)

/-- **`C05_FULL` holds.** -/
theorem C05_FULL_holds : C05_FULL := by
  intro K _ _ _ _ p nm n raw hp hk hn hraw
  obtain ⟨out, h1, h2, h3⟩ := Numeric.atr_engine_readings p hp nm n hk hn raw hraw
  exact ⟨out, h1, h2, fun j hj => (h3 j hj).2.2.2⟩

example : AtrNames "ATR_2" ∧ IsKey "ATR_2" := ⟨⟨by decide, by decide⟩, by decide⟩

/-- What is still open, stated for STDEV (BBANDS, KC, STDEV-threshold: the same shape with their own
predicates): for EVERY candle list – possibly already holding other indicators' readings – and an
input that is ANOTHER INDICATOR's reading (an ordinary key different from the node's names, missing
on the first `t0` candles and numeric afterwards), the engine's `calculate()` never raises and the
own reading is `None` on the first `t0 + p` candles and afterwards a non-negative float within `ε_n`
of the population standard deviation of the last `p` inputs – i.e. the series of `stdev_series`
shifted by `t0`, whatever else the candles hold.
FALSE AS WRITTEN (`C05_inputs_FULL_false`: a bool among the first `t0` inputs counts as a reading; replayed on the library).  With the
extra hypothesis that the input reading is `None` on the first `t0` candles it is PROVED over every candle list:
`C05_inputs_partial_holds` (STDEV), `C05_BBANDS_inputs_holds`, `C05_STDEVTHRES_inputs_holds` (end of this file).
Proved earlier: the instance `t0 = 0` on raw candles with a candle-field input
(`stdev_series`, `Numeric.stdev_series_engine`, `stdev_series_batch`, `stdev_series_live`, and likewise
for the other ten indicators above), and every single call for arbitrary inputs (first half of the
file).  Missing: the series induction over candle lists with foreign columns and a late-starting
reading as input (key locality of the tree's step along foreign columns); independently, the
composition of the numeric statements with a collapsing timeframe, and IEEE effects. -/
def C05_inputs_FULL : Prop :=
  ∀ (K : Type) [Field K] [LinearOrder K] [IsStrictOrderedRing K] [LawfulPyF K] [NonnegSqrt K]
    (p : Nat) (nm input : String) (n t0 : Nat) (cs : List (Candle K)) (x : Nat → K),
    1 ≤ p → SdNames nm → IsKey input → input ≠ nm → input ≠ nm ++ "_data" →
    (∀ c ∈ cs, dlookup nm c.inds = none ∧ dlookup nm c.subs = none ∧
      dlookup (nm ++ "_data") c.inds = none ∧ dlookup (nm ++ "_data") c.subs = none) →
    (∀ j, j < cs.length →
      (match readingByCandle (cs.getD j default) input with
        | .s (.num r) => some r.toF
        | _ => none) = if j < t0 then none else some (x (j - t0))) →
    ∃ out : List (Candle K), engineCalc (mkTop (.stdev (p : Int) input : Kind K) nm n) cs = .ok out ∧
      out.length = cs.length ∧
      ∀ j, j < cs.length →
        (j < t0 → readingByCandle (out.getD j default) nm = .none) ∧
        (t0 ≤ j → StdevOwnOK n (stdevSeries p x (j - t0)) (readingByCandle (out.getD j default) nm))

/-- **`C05_inputs_FULL` is false as written** (same defect as `C04_FULL`: a `bool` on the first `t0`
candles is a reading; a dict raises `TypeError`).  Witness: foreign reading `X = True, 5.0`,
`StandardDeviation(period=1, input_value="X")` stores a float on candle 1 where the statement
(`t0 = 1`) promises `None`. -/
theorem C05_inputs_FULL_false : ¬ C05_inputs_FULL := Numeric.c05_inputs_full_false

/-- `C05_inputs_FULL` with the missing hypothesis made explicit (the first `t0` input readings are `None`) -/
def C05_inputs_partial : Prop :=
  ∀ (K : Type) [Field K] [LinearOrder K] [IsStrictOrderedRing K] [LawfulPyF K] [NonnegSqrt K]
    (p : Nat) (nm input : String) (n t0 : Nat) (cs : List (Candle K)) (x : Nat → K),
    1 ≤ p → SdNames nm → IsKey input → input ≠ nm → input ≠ nm ++ "_data" →
    (∀ c ∈ cs, dlookup nm c.inds = none ∧ dlookup nm c.subs = none ∧
      dlookup (nm ++ "_data") c.inds = none ∧ dlookup (nm ++ "_data") c.subs = none) →
    (∀ j, j < cs.length →
      (match readingByCandle (cs.getD j default) input with
        | .s (.num r) => some r.toF
        | _ => none) = if j < t0 then none else some (x (j - t0))) →
    (∀ j, j < cs.length → j < t0 → readingByCandle (cs.getD j default) input = .none) →
    ∃ out : List (Candle K), engineCalc (mkTop (.stdev (p : Int) input : Kind K) nm n) cs = .ok out ∧
      out.length = cs.length ∧
      ∀ j, j < cs.length →
        (j < t0 → readingByCandle (out.getD j default) nm = .none) ∧
        (t0 ≤ j → StdevOwnOK n (stdevSeries p x (j - t0)) (readingByCandle (out.getD j default) nm))

/-- **the corrected `C05_inputs_FULL` holds** (STDEV) -/
theorem C05_inputs_partial_holds : C05_inputs_partial := Numeric.c05_inputs_partial

/-- the same shape for BBANDS (`BbOwnOK` / `bbSeries`) and STDEVTHRES (`ThOK`) -/
theorem C05_BBANDS_inputs_holds : Numeric.C05BbandsStatement := Numeric.c05_bbands
theorem C05_STDEVTHRES_inputs_holds : Numeric.C05ThresStatement := Numeric.c05_thres

/-- non-vacuity: `STDEV_2` of the foreign reading `"EMA_2"` of `demoForeign` -/
example : ∃ out : List (Candle ℚ),
    engineCalc (mkTop (.stdev ((2 : Nat) : Int) "EMA_2" : Kind ℚ) "STDEV_2" 4) demoForeign = .ok out ∧
    out.length = demoForeign.length ∧
    ∀ j, j < demoForeign.length →
      (j < 2 → readingByCandle (out.getD j default) "STDEV_2" = .none) ∧
      (2 ≤ j → StdevOwnOK 4 (stdevSeries 2 demoX (j - 2)) (readingByCandle (out.getD j default) "STDEV_2")) :=
  C05_inputs_partial_holds ℚ 2 "STDEV_2" "EMA_2" 4 2 demoForeign demoX (by norm_num) sdNames_demo2 (by decide)
    (by decide) (by decide)
    (fun c hc => ⟨(demoForeign_abs "STDEV_2" (by decide) (by decide) (by decide) c hc).1,
      (demoForeign_abs "STDEV_2" (by decide) (by decide) (by decide) c hc).2,
      (demoForeign_abs "STDEV_2_data" (by decide) (by decide) (by decide) c hc).1,
      (demoForeign_abs "STDEV_2_data" (by decide) (by decide) (by decide) c hc).2⟩)
    demoForeign_in demoForeign_none

theorem C05_KC_inputs_holds : Numeric.C05KcStatement := Numeric.c05_kc_inputs

theorem KC_inputs_series {K : Type} [Field K] [LinearOrder K] [IsStrictOrderedRing K] [LawfulPyF K]
    (p : Nat) (hp : 2 ≤ p) (nm input : String) (mult : Num K) (n t0 : Nat)
    (cs : List (Candle K)) (r : Nat → Num K) (hn : KcNames nm) (hi : Numeric.kcI_Input nm input)
    (habs : ∀ c ∈ cs, Numeric.kcI_Absent nm c)
    (hnone : ∀ j, j < cs.length → j < t0 → readingByCandle (cs.getD j default) input = .none)
    (hnum : ∀ j, j < cs.length → t0 ≤ j → readingByCandle (cs.getD j default) input = .num (r (j - t0))) :
    ∃ rows : List (KcRow K), rows.length = cs.length ∧
      engineCalc (mkTop (.kc (p : Int) input mult : Kind K) nm n) cs = .ok (decoKc nm cs rows) ∧
      ∀ j, j < cs.length → Numeric.kcI_OK p n t0 mult (fun k => (r k).toF) cs j (rows.getD j KcRow.dflt) :=
  Numeric.kcI_inputs_series p hp nm input mult n t0 cs r hn hi habs hnone hnum

example : ∃ out : List (Candle ℚ),
    engineCalc (mkTop (.kc ((2 : Nat) : Int) "EMA_2" (fl 2) : Kind ℚ) "KC_2" 4) demoForeign = .ok out ∧
    out.length = demoForeign.length ∧
    ∀ j, j < demoForeign.length → Numeric.kcI_ReadingsOK 2 4 2 (fl 2) "KC_2" demoX demoForeign out j :=
  C05_KC_inputs_holds ℚ 2 "KC_2" "EMA_2" (fl 2) 4 2 demoForeign demoX (by norm_num) (by decide) kcNames_demo
    Numeric.kcI_demo_input Numeric.kcI_demo_absent demoForeign_in demoForeign_none
end Hex.C05
namespace Hex.C05
open Hex Hex.Numeric
variable {K : Type} [Field K] [LinearOrder K] [IsStrictOrderedRing K] [LawfulPyF K]

/-- **Supertrend over candle lists with foreign readings** (`Numeric.C05SupertrendStatement`): Supertrend reads
NO `input` (model and library: `input_value` is ignored), so for EVERY candle list (its five names absent) and
every `input` the engine returns the raw statement `StCandleOK` of `supertrend_series_…`, unshifted. -/
theorem C05_SUPERTREND_inputs_holds : Numeric.C05SupertrendStatement := Numeric.c05_supertrend_inputs
/-- the same in the two-start shape (`input` `None` on the first `t0` candles): the conclusion is independent of `t0` -/
theorem C05_SUPERTREND_shift_holds : Numeric.C05SupertrendShiftStatement := Numeric.c05_supertrend_shift
/-- exact rows: `calculate()` returns `decoSt nm cs rows` (only the five own keys change), rows `StRowOK` -/
theorem supertrend_inputs_rows {K : Type} [Field K] [LinearOrder K] [IsStrictOrderedRing K] [LawfulPyF K]
    (p : Nat) (hp : 1 ≤ p) (nm input : String) (mult : Num K) (n : Nat) (hn : StNames nm)
    (cs : List (Candle K)) (habs : ∀ c ∈ cs, Numeric.stI_Absent nm c) :
    ∃ rows : List (Numeric.StRow K), rows.length = cs.length ∧
      engineCalc (mkTop (.supertrend (p : Int) input mult : Kind K) nm n) cs = .ok (Numeric.decoSt nm cs rows) ∧
      ∀ j, j < cs.length → Numeric.StRowOK p n mult.toF cs j (rows.getD j Numeric.StRow.dflt) :=
  Numeric.stI_inputs_rows p hp nm input mult n hn cs habs
/-- the `input` parameter of Supertrend is not read (every carrier, every candle list) -/
theorem supertrend_input_irrelevant {F : Type} [PyF F] (p : Int) (nm input input' : String) (mult : Num F) (n : Nat)
    (cs : List (Candle F)) :
    engineCalc (mkTop (.supertrend p input mult : Kind F) nm n) cs
      = engineCalc (mkTop (.supertrend p input' mult : Kind F) nm n) cs :=
  Numeric.stI_input_irrelevant p nm input input' mult n cs
/-- the textbook series over candles with foreign readings is the one over the stripped (`Plain`) candles -/
theorem supertrend_series_bare {K : Type} [Field K] [LinearOrder K] [IsStrictOrderedRing K] [LawfulPyF K]
    (p : Nat) (mult : K) (cs : List (Candle K)) :
    Numeric.stSeries p mult (cs.map Candle.bare) = Numeric.stSeries p mult cs := Numeric.stI_series_bare p mult cs

theorem hla_series_on_manager (M : MgrSpec K) (nm : String) (n : Nat) (hk : IsKey nm) :
    HoldsOn M (mkTop .hla nm n) (HlaCandle (K := K) n nm) :=
  Numeric.hla_series_on_manager M nm n hk

theorem hla_series_on_tf (tf : Int) (htf : 0 < tf) (nm : String) (n : Nat) (hk : IsKey nm)
    (init : List (Candle K)) (chunks : List (List (Candle K))) (hraw : RawTf (init ++ chunks.flatten)) :
    ∃ snap, candlesOf (runIndicator (mkTop .hla nm n) { tf := some tf } init chunks) = .ok snap ∧
      snap.length = (resample tf (init ++ chunks.flatten)).length ∧
      ∀ j, j < (resample tf (init ++ chunks.flatten)).length →
        (snap.getD j default).bare = ((resample tf (init ++ chunks.flatten)).getD j default).bare ∧
        readingByCandle (snap.getD j default) nm
          = .flt (PyF.round n ((fieldAt (·.h) (resample tf (init ++ chunks.flatten)) j
              + fieldAt (·.l) (resample tf (init ++ chunks.flatten)) j) / 2)) :=
  Numeric.hla_series_tf tf htf nm n hk init chunks hraw

theorem hla_series_on_fillHA (tf : Int) (htf : 0 < tf) (nm : String) (n : Nat) (hk : IsKey nm)
    (init : List (Candle K)) (chunks : List (List (Candle K)))
    (hraw : RawTf (init ++ chunks.flatten) ∧ ∀ c ∈ init ++ chunks.flatten, c.tag = false) :
    ∃ snap, candlesOf (runIndicator (mkTop .hla nm n) { tf := some tf, fill := true, ha := true } init chunks)
        = .ok snap ∧
      EveryCandle (HlaCandle n nm) (haSpec (fillSpec tf (init ++ chunks.flatten))) snap :=
  Numeric.hla_series_fillHA tf htf nm n hk init chunks hraw

theorem tr_series_on_manager (M : MgrSpec K) (nm : String) (n : Nat) (hk : IsKey nm) :
    HoldsOn M (mkTop .tr nm n) (TrCandle (K := K) n nm) :=
  Numeric.tr_series_on_manager M nm n hk

/-- **TR on a collapsing timeframe**: the true range of the COLLAPSED candles (bucket high / low against the previous
bucket's close) -/
theorem tr_series_on_tf (tf : Int) (htf : 0 < tf) (nm : String) (n : Nat) (hk : IsKey nm)
    (init : List (Candle K)) (chunks : List (List (Candle K))) (hraw : RawTf (init ++ chunks.flatten)) :
    ∃ snap, candlesOf (runIndicator (mkTop .tr nm n) { tf := some tf } init chunks) = .ok snap ∧
      snap.length = (resample tf (init ++ chunks.flatten)).length ∧
      ∀ j, j < (resample tf (init ++ chunks.flatten)).length →
        (snap.getD j default).bare = ((resample tf (init ++ chunks.flatten)).getD j default).bare ∧
        (j = 0 → readingByCandle (snap.getD j default) nm = .none) ∧
        (1 ≤ j → ∃ t : Num K, readingByCandle (snap.getD j default) nm = .num (t.roundBy n) ∧
          t.toF = trAt (fieldAt (·.h) (resample tf (init ++ chunks.flatten)))
            (fieldAt (·.l) (resample tf (init ++ chunks.flatten)))
            (fieldAt (·.c) (resample tf (init ++ chunks.flatten))) j) :=
  Numeric.tr_series_tf tf htf nm n hk init chunks hraw

theorem tr_series_on_fillHA (tf : Int) (htf : 0 < tf) (nm : String) (n : Nat) (hk : IsKey nm)
    (init : List (Candle K)) (chunks : List (List (Candle K)))
    (hraw : RawTf (init ++ chunks.flatten) ∧ ∀ c ∈ init ++ chunks.flatten, c.tag = false) :
    ∃ snap, candlesOf (runIndicator (mkTop .tr nm n) { tf := some tf, fill := true, ha := true } init chunks)
        = .ok snap ∧
      EveryCandle (TrCandle n nm) (haSpec (fillSpec tf (init ++ chunks.flatten))) snap :=
  Numeric.tr_series_fillHA tf htf nm n hk init chunks hraw

theorem atr_series_on_manager (M : MgrSpec K) (p : Nat) (hp : 1 ≤ p) (nm : String) (n : Nat) (hk : IsKey nm)
    (hn : AtrNames nm) : HoldsOn M (mkTop (.atr (p : Int) : Kind K) nm n) (AtrCandle p n nm) :=
  Numeric.atr_series_on_manager M p hp nm n hk hn

/-- **ATR on a collapsing timeframe**: first reading at COLLAPSED index `p`, Wilder's average of the collapsed
candles' true ranges -/
theorem atr_series_on_tf (tf : Int) (htf : 0 < tf) (p : Nat) (hp : 1 ≤ p) (nm : String) (n : Nat) (hk : IsKey nm)
    (hn : AtrNames nm) (init : List (Candle K)) (chunks : List (List (Candle K)))
    (hraw : RawTf (init ++ chunks.flatten)) :
    ∃ snap, candlesOf (runIndicator (mkTop (.atr (p : Int) : Kind K) nm n) { tf := some tf } init chunks) = .ok snap ∧
      snap.length = (resample tf (init ++ chunks.flatten)).length ∧
      ∀ j, j < (resample tf (init ++ chunks.flatten)).length →
        (snap.getD j default).bare = ((resample tf (init ++ chunks.flatten)).getD j default).bare ∧
        readingByCandle (snap.getD j default) (nm ++ "_TR") = trStored (resample tf (init ++ chunks.flatten)) j ∧
        AtrOK p n (trS (resample tf (init ++ chunks.flatten))) j (readingByCandle (snap.getD j default) nm) ∧
        AtrOKTrue p n (resample tf (init ++ chunks.flatten)) j (readingByCandle (snap.getD j default) nm) :=
  Numeric.atr_series_tf tf htf p hp nm n hk hn init chunks hraw

theorem atr_series_on_fillHA (tf : Int) (htf : 0 < tf) (p : Nat) (hp : 1 ≤ p) (nm : String) (n : Nat) (hk : IsKey nm)
    (hn : AtrNames nm) (init : List (Candle K)) (chunks : List (List (Candle K)))
    (hraw : RawTf (init ++ chunks.flatten) ∧ ∀ c ∈ init ++ chunks.flatten, c.tag = false) :
    ∃ snap, candlesOf (runIndicator (mkTop (.atr (p : Int) : Kind K) nm n)
        { tf := some tf, fill := true, ha := true } init chunks) = .ok snap ∧
      EveryCandle (AtrCandle p n nm) (haSpec (fillSpec tf (init ++ chunks.flatten))) snap :=
  Numeric.atr_series_fillHA tf htf p hp nm n hk hn init chunks hraw

theorem stdev_series_on_manager [NonnegSqrt K] (M : MgrSpec K) (p : Nat) (hp : 1 ≤ p) (nm input : String)
    (fld : Candle K → Num K) (n : Nat) (hn : SdNames nm) (hin : AttrInput input)
    (hattr : ∀ c : Candle K, c.attr input = some (.num (fld c))) :
    HoldsOn M (mkTop (.stdev (p : Int) input : Kind K) nm n) (SdCandle p n nm fld) :=
  Numeric.stdev_series_on_manager M p hp nm input fld n hn hin hattr

theorem stdev_series_on_tf [NonnegSqrt K] (tf : Int) (htf : 0 < tf) (p : Nat) (hp : 1 ≤ p) (nm input : String)
    (fld : Candle K → Num K) (n : Nat) (hn : SdNames nm) (hin : AttrInput input)
    (hattr : ∀ c : Candle K, c.attr input = some (.num (fld c)))
    (init : List (Candle K)) (chunks : List (List (Candle K))) (hraw : RawTf (init ++ chunks.flatten)) :
    ∃ snap, candlesOf (runIndicator (mkTop (.stdev (p : Int) input : Kind K) nm n) { tf := some tf } init chunks)
        = .ok snap ∧
      snap.length = (resample tf (init ++ chunks.flatten)).length ∧
      ∀ j, j < (resample tf (init ++ chunks.flatten)).length →
        (snap.getD j default).bare = ((resample tf (init ++ chunks.flatten)).getD j default).bare ∧
        SdCandleOK p n nm (fieldAt fld (resample tf (init ++ chunks.flatten))) j (snap.getD j default) :=
  Numeric.stdev_series_tf tf htf p hp nm input fld n hn hin hattr init chunks hraw

theorem stdev_series_on_fillHA [NonnegSqrt K] (tf : Int) (htf : 0 < tf) (p : Nat) (hp : 1 ≤ p) (nm input : String)
    (fld : Candle K → Num K) (n : Nat) (hn : SdNames nm) (hin : AttrInput input)
    (hattr : ∀ c : Candle K, c.attr input = some (.num (fld c)))
    (init : List (Candle K)) (chunks : List (List (Candle K)))
    (hraw : RawTf (init ++ chunks.flatten) ∧ ∀ c ∈ init ++ chunks.flatten, c.tag = false) :
    ∃ snap, candlesOf (runIndicator (mkTop (.stdev (p : Int) input : Kind K) nm n)
        { tf := some tf, fill := true, ha := true } init chunks) = .ok snap ∧
      EveryCandle (SdCandle p n nm fld) (haSpec (fillSpec tf (init ++ chunks.flatten))) snap :=
  Numeric.stdev_series_fillHA tf htf p hp nm input fld n hn hin hattr init chunks hraw

theorem bbands_series_on_manager [NonnegSqrt K] (M : MgrSpec K) (p : Nat) (hp : 2 ≤ p) (nm input : String)
    (fld : Candle K → Num K) (n : Nat) (hk : IsKey nm) (hn : BbNames nm) (hin : AttrInput input)
    (hattr : ∀ c : Candle K, c.attr input = some (.num (fld c))) :
    HoldsOn M (mkTop (.bbands (p : Int) input : Kind K) nm n) (BbCandle p n nm fld) :=
  Numeric.bbands_series_on_manager M p hp nm input fld n hk hn hin hattr

theorem bbands_series_on_tf [NonnegSqrt K] (tf : Int) (htf : 0 < tf) (p : Nat) (hp : 2 ≤ p) (nm input : String)
    (fld : Candle K → Num K) (n : Nat) (hk : IsKey nm) (hn : BbNames nm) (hin : AttrInput input)
    (hattr : ∀ c : Candle K, c.attr input = some (.num (fld c)))
    (init : List (Candle K)) (chunks : List (List (Candle K))) (hraw : RawTf (init ++ chunks.flatten)) :
    ∃ snap, candlesOf (runIndicator (mkTop (.bbands (p : Int) input : Kind K) nm n) { tf := some tf } init chunks)
        = .ok snap ∧
      snap.length = (resample tf (init ++ chunks.flatten)).length ∧
      ∀ j, j < (resample tf (init ++ chunks.flatten)).length →
        (snap.getD j default).bare = ((resample tf (init ++ chunks.flatten)).getD j default).bare ∧
        BbCandleOK p n nm (fieldAt fld (resample tf (init ++ chunks.flatten))) j (snap.getD j default) :=
  Numeric.bbands_series_tf tf htf p hp nm input fld n hk hn hin hattr init chunks hraw

theorem bbands_series_on_fillHA [NonnegSqrt K] (tf : Int) (htf : 0 < tf) (p : Nat) (hp : 2 ≤ p) (nm input : String)
    (fld : Candle K → Num K) (n : Nat) (hk : IsKey nm) (hn : BbNames nm) (hin : AttrInput input)
    (hattr : ∀ c : Candle K, c.attr input = some (.num (fld c)))
    (init : List (Candle K)) (chunks : List (List (Candle K)))
    (hraw : RawTf (init ++ chunks.flatten) ∧ ∀ c ∈ init ++ chunks.flatten, c.tag = false) :
    ∃ snap, candlesOf (runIndicator (mkTop (.bbands (p : Int) input : Kind K) nm n)
        { tf := some tf, fill := true, ha := true } init chunks) = .ok snap ∧
      EveryCandle (BbCandle p n nm fld) (haSpec (fillSpec tf (init ++ chunks.flatten))) snap :=
  Numeric.bbands_series_fillHA tf htf p hp nm input fld n hk hn hin hattr init chunks hraw

theorem kc_series_on_manager (M : MgrSpec K) (p : Nat) (hp : 2 ≤ p) (nm input : String) (fld : Candle K → Num K)
    (n : Nat) (mult : Num K) (hk : IsKey nm) (hn : KcNames nm) (hin : AttrInput input)
    (hattr : ∀ c : Candle K, c.attr input = some (.num (fld c))) :
    HoldsOn M (mkTop (.kc (p : Int) input mult : Kind K) nm n) (KcCandle p n mult nm fld) :=
  Numeric.kc_series_on_manager M p hp nm input fld n mult hk hn hin hattr

/-- **KC on a collapsing timeframe**: the history returns, and its candles are `KcSeriesOK` w.r.t. the COLLAPSED
candles -/
theorem kc_series_on_tf (tf : Int) (htf : 0 < tf) (p : Nat) (hp : 2 ≤ p) (nm input : String) (fld : Candle K → Num K)
    (n : Nat) (mult : Num K) (hk : IsKey nm) (hn : KcNames nm) (hin : AttrInput input)
    (hattr : ∀ c : Candle K, c.attr input = some (.num (fld c)))
    (init : List (Candle K)) (chunks : List (List (Candle K))) (hraw : RawTf (init ++ chunks.flatten)) :
    ∃ snap, candlesOf (runIndicator (mkTop (.kc (p : Int) input mult : Kind K) nm n) { tf := some tf } init chunks)
        = .ok snap ∧
      KcSeriesOK p n mult nm fld (resample tf (init ++ chunks.flatten)) snap :=
  Numeric.kc_series_tf tf htf p hp nm input fld n mult hk hn hin hattr init chunks hraw

theorem kc_series_on_fillHA (tf : Int) (htf : 0 < tf) (p : Nat) (hp : 2 ≤ p) (nm input : String)
    (fld : Candle K → Num K) (n : Nat) (mult : Num K) (hk : IsKey nm) (hn : KcNames nm) (hin : AttrInput input)
    (hattr : ∀ c : Candle K, c.attr input = some (.num (fld c)))
    (init : List (Candle K)) (chunks : List (List (Candle K)))
    (hraw : RawTf (init ++ chunks.flatten) ∧ ∀ c ∈ init ++ chunks.flatten, c.tag = false) :
    ∃ snap, candlesOf (runIndicator (mkTop (.kc (p : Int) input mult : Kind K) nm n)
        { tf := some tf, fill := true, ha := true } init chunks) = .ok snap ∧
      KcSeriesOK p n mult nm fld (haSpec (fillSpec tf (init ++ chunks.flatten))) snap :=
  Numeric.kc_series_fillHA tf htf p hp nm input fld n mult hk hn hin hattr init chunks hraw

theorem donchian_series_on_manager (M : MgrSpec K) (p : Nat) (hp : 2 ≤ p) (nm : String) (n : Nat)
    (hn : DcNames nm) : HoldsOn M (mkTop (.donchian p : Kind K) nm n) (DcCandle p n nm) :=
  Numeric.donchian_series_on_manager M p hp nm n hn

/-- **Donchian on a collapsing timeframe**: the channel over the last `p` COLLAPSED candles -/
theorem donchian_series_on_tf (tf : Int) (htf : 0 < tf) (p : Nat) (hp : 2 ≤ p) (nm : String) (n : Nat)
    (hn : DcNames nm) (init : List (Candle K)) (chunks : List (List (Candle K)))
    (hraw : RawTf (init ++ chunks.flatten)) :
    ∃ snap, candlesOf (runIndicator (mkTop (.donchian p : Kind K) nm n) { tf := some tf } init chunks) = .ok snap ∧
      snap.length = (resample tf (init ++ chunks.flatten)).length ∧
      ∀ j, j < (resample tf (init ++ chunks.flatten)).length →
        (snap.getD j default).bare = ((resample tf (init ++ chunks.flatten)).getD j default).bare ∧
        DcOK p n (numAt (·.h) (resample tf (init ++ chunks.flatten)))
          (numAt (·.l) (resample tf (init ++ chunks.flatten))) j (readingByCandle (snap.getD j default) nm) :=
  Numeric.donchian_series_tf tf htf p hp nm n hn init chunks hraw

theorem donchian_series_on_fillHA (tf : Int) (htf : 0 < tf) (p : Nat) (hp : 2 ≤ p) (nm : String) (n : Nat)
    (hn : DcNames nm) (init : List (Candle K)) (chunks : List (List (Candle K)))
    (hraw : RawTf (init ++ chunks.flatten) ∧ ∀ c ∈ init ++ chunks.flatten, c.tag = false) :
    ∃ snap, candlesOf (runIndicator (mkTop (.donchian p : Kind K) nm n)
        { tf := some tf, fill := true, ha := true } init chunks) = .ok snap ∧
      EveryCandle (DcCandle p n nm) (haSpec (fillSpec tf (init ++ chunks.flatten))) snap :=
  Numeric.donchian_series_fillHA tf htf p hp nm n hn init chunks hraw

theorem hl_series_on_manager (M : MgrSpec K) (p : Nat) (hp : 1 ≤ p) (nm : String) (n : Nat) (hk : IsKey nm) :
    HoldsOn M (mkTop (.hl p : Kind K) nm n) (HlCandle p n nm) :=
  Numeric.hl_series_on_manager M p hp nm n hk

theorem hl_series_on_tf (tf : Int) (htf : 0 < tf) (p : Nat) (hp : 1 ≤ p) (nm : String) (n : Nat) (hk : IsKey nm)
    (init : List (Candle K)) (chunks : List (List (Candle K))) (hraw : RawTf (init ++ chunks.flatten)) :
    ∃ snap, candlesOf (runIndicator (mkTop (.hl p : Kind K) nm n) { tf := some tf } init chunks) = .ok snap ∧
      snap.length = (resample tf (init ++ chunks.flatten)).length ∧
      ∀ j, j < (resample tf (init ++ chunks.flatten)).length →
        (snap.getD j default).bare = ((resample tf (init ++ chunks.flatten)).getD j default).bare ∧
        HlOK p n (numAt (·.h) (resample tf (init ++ chunks.flatten)))
          (numAt (·.l) (resample tf (init ++ chunks.flatten))) j (readingByCandle (snap.getD j default) nm) :=
  Numeric.hl_series_tf tf htf p hp nm n hk init chunks hraw

theorem hl_series_on_fillHA (tf : Int) (htf : 0 < tf) (p : Nat) (hp : 1 ≤ p) (nm : String) (n : Nat) (hk : IsKey nm)
    (init : List (Candle K)) (chunks : List (List (Candle K)))
    (hraw : RawTf (init ++ chunks.flatten) ∧ ∀ c ∈ init ++ chunks.flatten, c.tag = false) :
    ∃ snap, candlesOf (runIndicator (mkTop (.hl p : Kind K) nm n)
        { tf := some tf, fill := true, ha := true } init chunks) = .ok snap ∧
      EveryCandle (HlCandle p n nm) (haSpec (fillSpec tf (init ++ chunks.flatten))) snap :=
  Numeric.hl_series_fillHA tf htf p hp nm n hk init chunks hraw

theorem supertrend_series_on_manager (M : MgrSpec K) (p : Nat) (hp : 1 ≤ p) (nm input : String) (mult : Num K)
    (n : Nat) (hn : StNames nm) (hk : IsKey nm) :
    HoldsOn M (mkTop (.supertrend (p : Int) input mult : Kind K) nm n) (StCandle p n mult.toF nm) :=
  Numeric.supertrend_series_on_manager M p hp nm input mult n hn hk

/-- **Supertrend on a collapsing timeframe**: the textbook state machine `stSeries` run over the COLLAPSED candles -/
theorem supertrend_series_on_tf (tf : Int) (htf : 0 < tf) (p : Nat) (hp : 1 ≤ p) (nm input : String) (mult : Num K)
    (n : Nat) (hn : StNames nm) (hk : IsKey nm)
    (init : List (Candle K)) (chunks : List (List (Candle K))) (hraw : RawTf (init ++ chunks.flatten)) :
    ∃ snap, candlesOf (runIndicator (mkTop (.supertrend (p : Int) input mult : Kind K) nm n) { tf := some tf }
        init chunks) = .ok snap ∧
      snap.length = (resample tf (init ++ chunks.flatten)).length ∧
      ∀ j, j < (resample tf (init ++ chunks.flatten)).length →
        StCandleOK p n mult.toF nm (resample tf (init ++ chunks.flatten)) j (snap.getD j default) :=
  Numeric.supertrend_series_tf tf htf p hp nm input mult n hn hk init chunks hraw

theorem supertrend_series_on_fillHA (tf : Int) (htf : 0 < tf) (p : Nat) (hp : 1 ≤ p) (nm input : String)
    (mult : Num K) (n : Nat) (hn : StNames nm) (hk : IsKey nm)
    (init : List (Candle K)) (chunks : List (List (Candle K)))
    (hraw : RawTf (init ++ chunks.flatten) ∧ ∀ c ∈ init ++ chunks.flatten, c.tag = false) :
    ∃ snap, candlesOf (runIndicator (mkTop (.supertrend (p : Int) input mult : Kind K) nm n)
        { tf := some tf, fill := true, ha := true } init chunks) = .ok snap ∧
      snap.length = (haSpec (fillSpec tf (init ++ chunks.flatten))).length ∧
      ∀ j, j < (haSpec (fillSpec tf (init ++ chunks.flatten))).length →
        StCandleOK p n mult.toF nm (haSpec (fillSpec tf (init ++ chunks.flatten))) j (snap.getD j default) :=
  Numeric.supertrend_series_fillHA tf htf p hp nm input mult n hn hk init chunks hraw

theorem thres_series_on_manager [NonnegSqrt K] (M : MgrSpec K) (p : Nat) (hp : 1 ≤ p) (nm input : String)
    (fld : Candle K → Num K) (mult : Num K) (n : Nat) (hk : IsKey nm) (hn : ThresNames nm) (hin : AttrInput input)
    (hattr : ∀ c : Candle K, c.attr input = some (.num (fld c))) :
    HoldsOn M (mkTop (.stdevthres (p : Int) input mult : Kind K) nm n) (ThCandle p nm mult.toF fld) :=
  Numeric.thres_series_on_manager M p hp nm input fld mult n hk hn hin hattr

theorem thres_series_on_tf [NonnegSqrt K] (tf : Int) (htf : 0 < tf) (p : Nat) (hp : 1 ≤ p) (nm input : String)
    (fld : Candle K → Num K) (mult : Num K) (n : Nat) (hk : IsKey nm) (hn : ThresNames nm) (hin : AttrInput input)
    (hattr : ∀ c : Candle K, c.attr input = some (.num (fld c)))
    (init : List (Candle K)) (chunks : List (List (Candle K))) (hraw : RawTf (init ++ chunks.flatten)) :
    ∃ snap, candlesOf (runIndicator (mkTop (.stdevthres (p : Int) input mult : Kind K) nm n) { tf := some tf }
        init chunks) = .ok snap ∧
      snap.length = (resample tf (init ++ chunks.flatten)).length ∧
      ∀ j, j < (resample tf (init ++ chunks.flatten)).length →
        (snap.getD j default).bare = ((resample tf (init ++ chunks.flatten)).getD j default).bare ∧
        ThCandleOK p nm mult.toF (fieldAt fld (resample tf (init ++ chunks.flatten))) j (snap.getD j default) :=
  Numeric.thres_series_tf tf htf p hp nm input fld mult n hk hn hin hattr init chunks hraw

theorem thres_series_on_fillHA [NonnegSqrt K] (tf : Int) (htf : 0 < tf) (p : Nat) (hp : 1 ≤ p) (nm input : String)
    (fld : Candle K → Num K) (mult : Num K) (n : Nat) (hk : IsKey nm) (hn : ThresNames nm) (hin : AttrInput input)
    (hattr : ∀ c : Candle K, c.attr input = some (.num (fld c)))
    (init : List (Candle K)) (chunks : List (List (Candle K)))
    (hraw : RawTf (init ++ chunks.flatten) ∧ ∀ c ∈ init ++ chunks.flatten, c.tag = false) :
    ∃ snap, candlesOf (runIndicator (mkTop (.stdevthres (p : Int) input mult : Kind K) nm n)
        { tf := some tf, fill := true, ha := true } init chunks) = .ok snap ∧
      EveryCandle (ThCandle p nm mult.toF fld) (haSpec (fillSpec tf (init ++ chunks.flatten))) snap :=
  Numeric.thres_series_fillHA tf htf p hp nm input fld mult n hk hn hin hattr init chunks hraw

theorem counter_series_on_manager {F : Type} [PyF F] (M : MgrSpec F) (nm input : String) (fld : Candle F → Num F)
    (cv : Scalar F) (n : Nat) (hk : IsKey nm) (hin : AttrInput input)
    (hattr : ∀ c : Candle F, c.attr input = some (.num (fld c))) :
    HoldsOn M (mkTop (.counter input cv : Kind F) nm n) (CountCandle cv fld nm) :=
  Numeric.counter_series_on_manager M nm input fld cv n hk hin hattr

/-- **Counter on a collapsing timeframe, every carrier** (hence also the executed `Float`): the run length of the
COLLAPSED candles' field values -/
theorem counter_series_on_tf {F : Type} [PyF F] (tf : Int) (htf : 0 < tf) (nm input : String) (fld : Candle F → Num F)
    (cv : Scalar F) (n : Nat) (hk : IsKey nm) (hin : AttrInput input)
    (hattr : ∀ c : Candle F, c.attr input = some (.num (fld c)))
    (init : List (Candle F)) (chunks : List (List (Candle F))) (hraw : RawTf (init ++ chunks.flatten)) :
    ∃ snap, candlesOf (runIndicator (mkTop (.counter input cv : Kind F) nm n) { tf := some tf } init chunks)
        = .ok snap ∧
      snap.length = (resample tf (init ++ chunks.flatten)).length ∧
      ∀ j, j < (resample tf (init ++ chunks.flatten)).length →
        (snap.getD j default).bare = ((resample tf (init ++ chunks.flatten)).getD j default).bare ∧
        readingByCandle (snap.getD j default) nm = .int ((runLen cv
          (fun i => (.num (fld ((resample tf (init ++ chunks.flatten)).getD i default)) : Val F)) j : Nat) : Int) :=
  Numeric.counter_series_tf tf htf nm input fld cv n hk hin hattr init chunks hraw

theorem counter_series_on_fillHA {F : Type} [PyF F] (tf : Int) (htf : 0 < tf) (nm input : String)
    (fld : Candle F → Num F) (cv : Scalar F) (n : Nat) (hk : IsKey nm) (hin : AttrInput input)
    (hattr : ∀ c : Candle F, c.attr input = some (.num (fld c)))
    (init : List (Candle F)) (chunks : List (List (Candle F)))
    (hraw : RawTf (init ++ chunks.flatten) ∧ ∀ c ∈ init ++ chunks.flatten, c.tag = false) :
    ∃ snap, candlesOf (runIndicator (mkTop (.counter input cv : Kind F) nm n)
        { tf := some tf, fill := true, ha := true } init chunks) = .ok snap ∧
      EveryCandle (CountCandle cv fld nm) (haSpec (fillSpec tf (init ++ chunks.flatten))) snap :=
  Numeric.counter_series_fillHA tf htf nm input fld cv n hk hin hattr init chunks hraw

/-- non-vacuity (ℚ, two-minute timeframe, fed one candle at a time): ATR(2) returns four candles, TR helper `None` on
bucket 0, ATR `None` before COLLAPSED index 2, then `≥ 0`.  (`Int` runs by `decide +kernel`: end of
HexProofs/Numeric/SeriesOnManagersC05.lean.) -/
example : ∃ snap : List (Candle ℚ),
    candlesOf (runIndicator (mkTop (.atr ((2 : Nat) : Int) : Kind ℚ) "ATR_2" 4) { tf := some 120 }
      [] (haStamped.map fun c => [c])) = .ok snap ∧ snap.length = 4 ∧
    readingByCandle (snap.getD 0 default) ("ATR_2" ++ "_TR") = .none ∧
    readingByCandle (snap.getD 1 default) "ATR_2" = .none ∧
    ∃ y, readingByCandle (snap.getD 3 default) "ATR_2" = .flt y ∧ 0 ≤ y := by
  obtain ⟨snap, h1, h2, h3⟩ := atr_series_on_tf (K := ℚ) 120 (by decide) 2 (by norm_num) "ATR_2" 4 (by decide)
    ⟨by decide, by decide⟩ [] (haStamped.map fun c => [c]) haStamped_ok.1
  have e : ([] : List (Candle ℚ)) ++ (haStamped.map fun c => [c]).flatten = haStamped := rfl
  rw [e] at h2 h3
  have hlen : (resample 120 haStamped).length = 4 := by decide +kernel
  rw [hlen] at h2 h3
  have t0 := (h3 0 (by decide)).2.1
  have a1 := (h3 1 (by decide)).2.2.2
  have a3 := (h3 3 (by decide)).2.2.2
  refine ⟨snap, h1, h2, ?_, a1.1 (by decide), ?_⟩
  · rw [t0]; unfold trStored; rw [if_pos rfl]
  · obtain ⟨y, hy, _, h0⟩ := a3.2 (by decide)
    exact ⟨y, hy, h0⟩

end Hex.C05

import HexProofs.Numeric.Simple
import HexProofs.Numeric.AvgExtra
import HexProofs.Numeric.Channel
import HexProofs.Numeric.Extremes
import HexProofs.Numeric.Stdev
import HexProofs.Numeric.Supertrend
import HexProofs.Numeric.SeriesMore
import HexProofs.Numeric.Demo
/-
C05 – Volatility, range, channel and utility indicators match their definitions
(NUMERIC layer: ordered field `K` with `LawfulPyF K`; IEEE rounding error, overflow and NaN are
outside these theorems – see HexProofs/Numeric/Lawful.lean).

Per `_calculate_reading` call: given the readings the method reads, the returned value is the
textbook expression.  Indicators covered: TR, ATR, STDEV, BBANDS, KC, Donchian, HighestLowest,
HLA, Supertrend, STDEV-threshold, Counter.  For the two leaf indicators that read only candle
fields – HLA and TR – the WHOLE-SERIES statements are proved too (`hla_series`, `tr_series`, on the
row-major spec that C01 ties to `calculate()`).  Missing for the full property (`C05_FULL`): the
induction along the framework's calculation order for the indicators with sub-indicators and
managed helper series (ATR over its TR helper, STDEV, BBANDS, KC, Supertrend, STDEV-threshold) and
for Donchian / HighestLowest / Counter, i.e. whole `as_list()` series and warm-up indices.
-/
namespace Hex.C05
open Hex Hex.Numeric
variable {K : Type} [Field K] [LinearOrder K] [IsStrictOrderedRing K] [LawfulPyF K]

/-! ### TR, HLA -/

/-- **TR** = `max(high − low, |high − prev close|, |low − prev close|)`. -/
theorem tr (x : Ctx K) (h l pc : Num K)
    (hh : x.reading "high" = .ok (.num h)) (hl : x.reading "low" = .ok (.num l))
    (hp : x.readingPeriod 2 "close" = true) (hpc : x.prevReading "close" = .ok (.num pc)) :
    IsNum (Calc.tr x) (max (max (h.toF - l.toF) |h.toF - pc.toF|) |l.toF - pc.toF|) :=
  tr_def x h l pc hh hl hp hpc

example : IsNum (Calc.tr (Demo.ctx "TR"))
    (max (max ((Num.int 16 : Num ℚ).toF - (Num.int 13 : Num ℚ).toF) |(Num.int 16 : Num ℚ).toF - (Num.int 14 : Num ℚ).toF|)
      |(Num.int 13 : Num ℚ).toF - (Num.int 14 : Num ℚ).toF|) :=
  tr (Demo.ctx "TR") (.int 16) (.int 13) (.int 14) rfl rfl (by decide) rfl

/-- TR's first reading needs a previous close -/
theorem tr_warmup (x : Ctx K) (h l : Val K) (hh : x.reading "high" = .ok h) (hl : x.reading "low" = .ok l)
    (hp : x.readingPeriod 2 "close" = false) : Calc.tr x = .ok .none :=
  tr_none x h l hh hl hp

example : Calc.tr (Demo.ctx "TR" 0) = .ok .none := tr_warmup (Demo.ctx "TR" 0) _ _ rfl rfl (by decide)

/-- **HLA** = `(high + low)/2`. -/
theorem hla (x : Ctx K) (h l : Num K)
    (hh : x.reading "high" = .ok (.num h)) (hl : x.reading "low" = .ok (.num l)) :
    Calc.hla x = .ok (.flt ((h.toF + l.toF) / 2)) :=
  hla_def x h l hh hl

example : Calc.hla (Demo.ctx "HLA") = .ok (.flt (((Num.int 16 : Num ℚ).toF + (Num.int 13 : Num ℚ).toF) / 2)) :=
  hla (Demo.ctx "HLA") (.int 16) (.int 13) rfl rfl

/-! ### ATR -/

/-- **ATR recurrence** – Wilder smoothing of TR: `(prev·(p−1) + TR)/p = (1/p)·TR + (1−1/p)·prev`. -/
theorem atr_step (x : Ctx K) (period : Int) (trName : String) (prev t : Num K)
    (hprev : x.prevReading x.name = .ok (.num prev)) (ht : x.reading trName = .ok (.num t))
    (hp : (period : K) ≠ 0) :
    Calc.atr x period trName = .ok (.flt ((prev.toF * (period - 1) + t.toF) / period)) ∧
    (prev.toF * ((period : K) - 1) + t.toF) / period = 1 / (period : K) * t.toF + (1 - 1 / (period : K)) * prev.toF :=
  ⟨atr_rec x period trName prev t hprev ht hp, atr_is_wilder _ _ _ hp⟩

example : Calc.atr (Demo.ctx "ATR_3") 3 "ATR_3_TR"
    = .ok (.flt (((Num.flt 3 : Num ℚ).toF * (((3 : Int) : ℚ) - 1) + (Num.flt 3 : Num ℚ).toF) / ((3 : Int) : ℚ))) :=
  (atr_step (Demo.ctx "ATR_3") 3 "ATR_3_TR" (.flt 3) (.flt 3) rfl rfl (by norm_num)).1

/-- **ATR seed** = mean of the first `period` true ranges. -/
theorem atr_seed (x : Ctx K) (p : Nat) (trName : String) (r : Nat → Num K)
    (hprev : x.prevReading x.name = .ok .none) (hrp : x.readingPeriod p trName = true)
    (hp1 : 1 ≤ p) (hpi : (p : Int) ≤ x.i + 1) (hi0 : 1 ≤ x.i)
    (h : ∀ j, j < p → x.reading trName (some (x.i + 1 - p + j)) = .ok (.num (r j))) :
    Calc.atr x p trName = .ok (.flt (rsum p (fun j => (r j).toF) / p)) :=
  atr_seed_window x p trName r hprev hrp hp1 hpi hi0 h

example : Calc.atr (Demo.ctx "ATR_2") (2 : Nat) "ATR_3_TR"
    = .ok (.flt (rsum 2 (fun j => ((fun j => Num.flt ([4, 3].getD j 0)) j : Num ℚ).toF) / (2 : Nat))) :=
  atr_seed (Demo.ctx "ATR_2") 2 "ATR_3_TR" (fun j => .flt ([4, 3].getD j 0)) rfl (by decide) (by norm_num)
    (by decide) (by decide) (by intro j hj; interval_cases j <;> rfl)

/-! ### STDEV -/

/-- **STDEV, full window**: the running mean / population variance are updated by replacing the
value leaving the window, and the reading is `sqrt(max(variance, 0))`. -/
theorem stdev_step (ops : Ops K) (x : Ctx K) (p : Int) (input : String) (w : Val K → List (Candle K))
    (xv rem om ov : Num K)
    (hc : x.reading input = .ok (.num xv))
    (hin : x.readingPeriod (p + 1) input (some x.i) = true)
    (hrem : x.reading input (some (x.i - p)) = .ok (.num rem))
    (hm : x.prevReading (x.name ++ "_data.mean") = .ok (.num om))
    (hv : x.prevReading (x.name ++ "_data.variance") = .ok (.num ov))
    (hset : ∀ v, ops.setManaged "STDEV_data" v x.cs = .ok (w v)) (hp : (p : K) ≠ 0) :
    Calc.stdev ops x p input =
      .ok (.num (.flt (PyF.sqrt (max (varStep p om.toF ov.toF xv.toF rem.toF) 0))),
           w (sdict [("mean", sc (.flt (meanStep p om.toF xv.toF rem.toF))),
                     ("variance", sc (.flt (varStep p om.toF ov.toF xv.toF rem.toF)))])) :=
  Numeric.stdev_step ops x p input w xv rem om ov hc hin hrem hm hv hset hp

example : ∃ y : ℚ, ∃ cs', Calc.stdev Demo.ops (Demo.ctx "STDEV_3") 3 "close" = .ok (.num (.flt y), cs') :=
  ⟨_, _, stdev_step Demo.ops (Demo.ctx "STDEV_3") 3 "close" (fun _ => Demo.cs) (.int 15) (.int 11)
    (.flt (37/3)) (.flt (14/9)) rfl (by decide) rfl rfl rfl (fun _ => rfl) (by norm_num)⟩

/-- **the running update is exact** (Welford-style identity): from the mean and population
variance of a window with sum `S` and square sum `Q` it produces those of the window with `rem`
replaced by `x`. -/
theorem stdev_update_exact (p S Q x rem : K) (hp : p ≠ 0) :
    meanStep p (S / p) x rem = (S - rem + x) / p ∧
    varStep p (S / p) (Q / p - (S / p) ^ 2) x rem = (Q - rem ^ 2 + x ^ 2) / p - ((S - rem + x) / p) ^ 2 :=
  welford p S Q x rem hp

/-- σ·σ = variance (clamped at 0), σ ≥ 0 -/
theorem stdev_is_root [LawfulSqrt K] (v : K) :
    PyF.sqrt (max v 0) * PyF.sqrt (max v 0) = max v 0 ∧ 0 ≤ PyF.sqrt (max v 0) :=
  ⟨stdev_sq v, stdev_nonneg v⟩

/-- during warm-up the statistics are updated with nothing leaving the window and the reading is `None` -/
theorem stdev_warmup (ops : Ops K) (x : Ctx K) (p : Int) (input : String) (w : Val K → List (Candle K))
    (xv om ov : Num K)
    (hc : x.reading input = .ok (.num xv))
    (hin : x.readingPeriod (p + 1) input (some x.i) = false)
    (hm : x.prevReading (x.name ++ "_data.mean") = .ok (.num om))
    (hv : x.prevReading (x.name ++ "_data.variance") = .ok (.num ov))
    (hset : ∀ v, ops.setManaged "STDEV_data" v x.cs = .ok (w v)) (hp : (p : K) ≠ 0) :
    Calc.stdev ops x p input =
      .ok (.none, w (sdict [("mean", sc (.flt (meanStep p om.toF xv.toF 0))),
                            ("variance", sc (.flt (varStep p om.toF ov.toF xv.toF 0)))])) :=
  stdev_warm ops x p input w xv om ov hc hin hm hv hset hp

/-! ### Bollinger Bands, Keltner Channel -/

/-- **BBANDS** = SMA ∓ 2σ with the SMA as middle band. -/
theorem bbands (x : Ctx K) (smaName stdevName : String) (m s : Num K)
    (hm : x.reading smaName = .ok (.num m)) (hs : x.reading stdevName = .ok (.num s)) :
    ∃ lo up : Num K, Calc.bbands x smaName stdevName =
        .ok (.dict [("BBL", .num lo), ("BBM", .num m), ("BBU", .num up)]) ∧
      lo.toF = m.toF - 2 * s.toF ∧ up.toF = m.toF + 2 * s.toF :=
  ⟨_, _, bbands_def x smaName stdevName m s hm hs, (bbands_vals m s).1, (bbands_vals m s).2⟩

example : ∃ lo up : Num ℚ, Calc.bbands (Demo.ctx "BB_3") "BB_3_SMA" "BB_3_STDEV" =
      .ok (.dict [("BBL", .num lo), ("BBM", .num (.flt 13)), ("BBU", .num up)]) ∧
      lo.toF = (Num.flt 13 : Num ℚ).toF - 2 * (Num.flt 1 : Num ℚ).toF ∧
      up.toF = (Num.flt 13 : Num ℚ).toF + 2 * (Num.flt 1 : Num ℚ).toF :=
  bbands (Demo.ctx "BB_3") "BB_3_SMA" "BB_3_STDEV" (.flt 13) (.flt 1) rfl rfl

/-- **KC** = EMA ∓ multiplier·ATR with the EMA as middle band. -/
theorem kc (x : Ctx K) (mult e a : Num K)
    (he : x.reading (x.name ++ "_EMA") = .ok (.num e)) (ha : x.reading (x.name ++ "_ATR") = .ok (.num a)) :
    ∃ lo up : Num K, Calc.kc x mult =
        .ok (.dict [("lower", .num lo), ("band", .num e), ("upper", .num up)]) ∧
      lo.toF = e.toF - mult.toF * a.toF ∧ up.toF = e.toF + mult.toF * a.toF :=
  ⟨_, _, kc_def x mult e a he ha, (kc_vals mult e a).1, (kc_vals mult e a).2⟩

example : ∃ lo up : Num ℚ, Calc.kc (Demo.ctx "KC_3") (fl 2) =
      .ok (.dict [("lower", .num lo), ("band", .num (.flt 13)), ("upper", .num up)]) ∧
      lo.toF = (Num.flt 13 : Num ℚ).toF - (fl 2 : Num ℚ).toF * (Num.flt 3 : Num ℚ).toF ∧
      up.toF = (Num.flt 13 : Num ℚ).toF + (fl 2 : Num ℚ).toF * (Num.flt 3 : Num ℚ).toF :=
  kc (Demo.ctx "KC_3") (fl 2) (.flt 13) (.flt 3) rfl rfl

/-! ### Donchian, HighestLowest -/

/-- **Donchian** = (lowest low, mean of the bounds, highest high) over the window; the bounds
are attained in the window and bound every value in it. -/
theorem donchian (x : Ctx K) (p : Int) (pu : Val K) (u l : Num K)
    (hprev : x.prevReading (x.name ++ ".DCU") = .ok pu)
    (hg : pu.isNone = false ∨ x.readingPeriod p "high" (some x.i) = true)
    (hu : Mov.highest x.cs "high" (p - 1) x.i = .ok (.num u))
    (hl : Mov.lowest x.cs "low" (p - 1) x.i = .ok (.num l)) :
    Calc.donchian x p =
      .ok (.dict [("DCL", .num l), ("DCM", .num (.flt ((u.toF + l.toF) / 2))), ("DCU", .num u)]) ∧
    (∃ i, absIndex x.i x.cs.length = some i ∧ Scalar.num u ∈ Mov.cleanScalars x.cs "high" (p - 1) i true ∧
      ∀ s ∈ Mov.cleanScalars x.cs "high" (p - 1) i true, (Mov.scalarNum s).toF ≤ u.toF) ∧
    (∃ i, absIndex x.i x.cs.length = some i ∧ Scalar.num l ∈ Mov.cleanScalars x.cs "low" (p - 1) i true ∧
      ∀ s ∈ Mov.cleanScalars x.cs "low" (p - 1) i true, l.toF ≤ (Mov.scalarNum s).toF) :=
  ⟨donchian_def x p pu u l hprev hg hu hl, highest_spec _ _ _ _ _ hu, lowest_spec _ _ _ _ _ hl⟩

example : Calc.donchian (Demo.ctx "DC_3") 3 =
    .ok (.dict [("DCL", .num (.int 10)), ("DCM", .num (.flt (((Num.int 16 : Num ℚ).toF + (Num.int 10 : Num ℚ).toF) / 2))),
                ("DCU", .num (.int 16))]) :=
  (donchian (Demo.ctx "DC_3") 3 .none (.int 16) (.int 10) rfl (Or.inr (by decide)) rfl rfl).1

/-- **HighestLowest** = (lowest low, highest high) over `period + 1` candles. -/
theorem hl (x : Ctx K) (p : Int) (h l : Scalar K)
    (hl : Mov.lowest x.cs "low" p x.i = .ok (.s l)) (hh : Mov.highest x.cs "high" p x.i = .ok (.s h)) :
    Calc.hl x p = .ok (.dict [("low", l), ("high", h)]) :=
  hl_def x p h l hl hh

example : Calc.hl (Demo.ctx "HL_2") 2 = .ok (.dict [("low", .num (.int 10)), ("high", .num (.int 16))]) :=
  hl (Demo.ctx "HL_2") 2 _ _ rfl rfl

/-! ### Supertrend -/

/-- **Supertrend step**: bands `HL2 ± multiplier·ATR`, each ratcheted against its previous value
while the trend continues, direction flipped when the close breaks the previous band; `trend`
is the lower band in an up-trend and the upper band in a down-trend. -/
theorem supertrend_step (ops : Ops K) (x : Ctx K) (mult a hl close pu pl : Num K) (pd : Int)
    (w : Val K → List (Candle K))
    (ha : x.reading (x.name ++ "_atr") = .ok (.num a))
    (hhl : x.reading (x.name ++ "_HL") = .ok (.num hl))
    (hc : x.reading "close" = .ok (.num close))
    (hpl : x.prevReading (x.name ++ "_data.lower") = .ok (.num pl))
    (hpu : x.prevReading (x.name ++ "_data.upper") = .ok (.num pu))
    (hpd : x.prevReading (x.name ++ ".direction") = .ok (.int pd))
    (hd : pd = 1 ∨ pd = -1)
    (hset : ∀ v, ops.setManaged "ST_data" v x.cs = .ok (w v)) :
    ∃ U L : Num K,
      U.toF = stUpper close.toF pu.toF pl.toF pd (hl.toF + mult.toF * a.toF) ∧
      L.toF = stLower close.toF pu.toF pl.toF pd (hl.toF - mult.toF * a.toF) ∧
      Calc.supertrend ops x mult =
        .ok (stDict (stDir close.toF pu.toF pl.toF pd) U L, w (sdict [("upper", sc U), ("lower", sc L)])) :=
  Numeric.supertrend_step ops x mult a hl close pu pl pd w ha hhl hc hpl hpu hpd hd hset

example : ∃ U L : Num ℚ, ∃ D cs', Calc.supertrend Demo.ops (Demo.ctx "ST_3") (fl 3) = .ok (stDict D U L, cs') := by
  obtain ⟨U, L, _, _, h⟩ := supertrend_step Demo.ops (Demo.ctx "ST_3") (fl 3) (.flt 3) (.flt (29/2)) (.int 15)
    (.flt 18) (.flt 10) 1 (fun _ => Demo.cs) rfl rfl rfl rfl rfl rfl (Or.inl rfl) (fun _ => rfl)
  exact ⟨U, L, _, _, h⟩

/-- **Supertrend flips exactly when the close breaks the previous ACTIVE band** ("flipping when the close
breaks the previous band"): out of an up-trend iff the close is below the previous lower band, out of a
down-trend iff it is above the previous upper band – whatever the idle band is, in particular when the
stored bands have crossed.  (False of the pinned code, which tested the idle band first: see
known_findings `C05-0d81c09`; the witness found by the oracle is in corpus/C05.json.) -/
theorem supertrend_flips_on_active_break (close pu pl : K) :
    (stDir close pu pl 1 = -1 ↔ close < pl) ∧ (stDir close pu pl (-1) = 1 ↔ pu < close) := by
  constructor
  · constructor
    · intro h
      by_contra hn
      rw [stDir_keep_up close pu pl hn] at h
      cases h
    · exact stDir_flip_down close pu pl
  · constructor
    · intro h
      by_contra hn
      rw [stDir_keep_down close pu pl hn] at h
      cases h
    · exact stDir_flip_up close pu pl

/-- the crossed-bands state of the oracle's witness: previous direction up, previous lower (active) band
165.415, previous upper (idle) band 158.4356, close 159.74 – the trend flips down -/
example : stDir (159.74 : ℚ) 158.4356 165.415 1 = -1 := by
  apply stDir_flip_down; norm_num

/-- first Supertrend candle with an ATR: plain bands, up-trend -/
theorem supertrend_first (ops : Ops K) (x : Ctx K) (mult a hl : Num K) (w : Val K → List (Candle K))
    (ha : x.reading (x.name ++ "_atr") = .ok (.num a))
    (hhl : x.reading (x.name ++ "_HL") = .ok (.num hl))
    (hpl : x.prevReading (x.name ++ "_data.lower") = .ok .none)
    (hset : ∀ v, ops.setManaged "ST_data" v x.cs = .ok (w v)) :
    Calc.supertrend ops x mult =
      .ok (stDict 1 (hl.add (mult.mul a)) (hl.sub (mult.mul a)),
           w (sdict [("upper", sc (hl.add (mult.mul a))), ("lower", sc (hl.sub (mult.mul a)))])) :=
  Numeric.supertrend_first ops x mult a hl w ha hhl hpl hset

/-- the bands only ratchet in the trend direction -/
theorem supertrend_ratchet (close pu pl band : K) (h1 : ¬ pu < close) (h2 : ¬ close < pl) :
    pl ≤ stLower close pu pl 1 band ∧ stUpper close pu pl (-1) band ≤ pu :=
  ⟨stLower_ratchet close pu pl band h1 h2, stUpper_ratchet close pu pl band h1 h2⟩

/-! ### utilities -/

/-- **STDEV threshold** flag: true exactly when the input moved by more than `multiplier·σ`
since the previous candle. -/
theorem stdevthres (x : Ctx K) (input : String) (mult s cur prev : Num K)
    (hs : x.reading (x.name ++ "_stdev") = .ok (.num s))
    (hc : x.reading input = .ok (.num cur)) (hp : x.prevReading input = .ok (.num prev)) :
    Calc.stdevthres x input mult = .ok (.bool (decide (s.toF * mult.toF < |cur.toF - prev.toF|))) :=
  stdevthres_def x input mult s cur prev hs hc hp

example : Calc.stdevthres (Demo.ctx "THR") "close" (fl 1) =
    .ok (.bool (decide ((Num.flt 0.5 : Num ℚ).toF * (fl 1 : Num ℚ).toF < |(Num.int 15 : Num ℚ).toF - (Num.int 14 : Num ℚ).toF|))) :=
  stdevthres (Demo.ctx "THR") "close" (fl 1) (.flt 0.5) (.int 15) (.int 14) rfl rfl rfl

/-- **Counter** (every float carrier): previous run length kept on a missing input, +1 when the
input equals the counted value, reset to 0 otherwise. -/
theorem counter {F : Type} [PyF F] (x : Ctx F) (input : String) (cv : Scalar F) (r prev : Val F)
    (hr : x.reading input = .ok r) (hprev : x.prevReading x.name = .ok prev)
    (hpv : prev = .none ∨ ∃ k : Int, prev = .int k) :
    Calc.counter x input cv = .ok (.int (
      if r.isNone then prevCount prev else if Calc.pyEqScalarVal cv r then prevCount prev + 1 else 0)) :=
  counter_def x input cv r prev hr hprev hpv

example : Calc.counter (Demo.ctx "COUNT") "close" (.num (.int 15)) = .ok (.int 3) := by
  have := counter (Demo.ctx "COUNT") "close" (.num (.int 15)) (.num (.int 15)) (.int 2) rfl rfl (Or.inr ⟨2, rfl⟩)
  rw [this]; rfl

/-! ### whole series -/

/-- **HLA, whole series**: every candle of every raw stream gets `round((high + low)/2)`. -/
theorem hla_series (nm : String) (n : Nat) (hk : IsKey nm)
    (raw : List (Candle K)) (hraw : ∀ c ∈ raw, Plain c) :
    ∃ vs : List (Val K), vs.length = raw.length ∧
      rowMajor (mkTop .hla nm n) raw = .ok (deco nm raw vs) ∧
      ∀ j, j < raw.length → vs.getD j .none =
        .flt (PyF.round n ((fieldAt (·.h) raw j + fieldAt (·.l) raw j) / 2)) :=
  Numeric.hla_series nm n hk raw hraw

/-- **TR, whole series**: `None` on the first candle (no previous close), from the second candle
on the true range (ints stay ints, floats are rounded). -/
theorem tr_series (nm : String) (n : Nat) (hk : IsKey nm)
    (raw : List (Candle K)) (hraw : ∀ c ∈ raw, Plain c) :
    ∃ vs : List (Val K), vs.length = raw.length ∧
      rowMajor (mkTop .tr nm n) raw = .ok (deco nm raw vs) ∧
      ∀ j, j < raw.length →
        (j = 0 → vs.getD j .none = .none) ∧
        (1 ≤ j → ∃ t : Num K, vs.getD j .none = .num (t.roundBy n) ∧
          t.toF = trAt (fieldAt (·.h) raw) (fieldAt (·.l) raw) (fieldAt (·.c) raw) j) :=
  Numeric.tr_series nm n hk raw hraw

/-- four raw candles over ℚ -/
def demoRaw : List (Candle ℚ) :=
  [Demo.mk 10 12 9 11 100, Demo.mk 11 13 10 12 200, Demo.mk 12 15 11 14 300, Demo.mk 14 16 13 15 0]

theorem demoRaw_plain : ∀ c ∈ demoRaw, Plain c := by
  intro c hc
  simp only [demoRaw, List.mem_cons, List.not_mem_nil, or_false] at hc
  rcases hc with rfl | rfl | rfl | rfl <;> exact ⟨rfl, rfl⟩

example : ∃ vs : List (Val ℚ), vs.length = demoRaw.length ∧
    rowMajor (mkTop .tr "TR" 4) demoRaw = .ok (deco "TR" demoRaw vs) ∧
    ∀ j, j < demoRaw.length →
      (j = 0 → vs.getD j .none = .none) ∧
      (1 ≤ j → ∃ t : Num ℚ, vs.getD j .none = .num (t.roundBy 4) ∧
        t.toF = trAt (fieldAt (·.h) demoRaw) (fieldAt (·.l) demoRaw) (fieldAt (·.c) demoRaw) j) :=
  tr_series "TR" 4 (by decide) demoRaw demoRaw_plain

/-- The full property, stated for ATR (the other ten indicators: the same shape with their own
exact series – window extremes for Donchian/HighestLowest, `sqrt` of the window's population
variance for STDEV, SMA ∓ 2σ, EMA ∓ m·ATR, the ratcheted HL2 ∓ m·ATR bands, the threshold flag, the
run length): for every raw stream and `period ≥ 2` the ENGINE `calculate` never raises and stores
`None` on the first `period` candles (TR needs a previous close) and afterwards a float within
`ε·period` of Wilder's average of the true ranges seeded by the mean of the first `period` of them.
NOT proved.  Proved instead: every single `_calculate_reading` call of all eleven indicators
(`tr` … `counter` above), the exactness of STDEV's running update, the whole series for HLA and TR.
Missing: the framework induction through sub-indicators and managed helper series. -/
def C05_FULL : Prop :=
  ∀ (K : Type) [Field K] [LinearOrder K] [IsStrictOrderedRing K] [LawfulPyF K]
    (p : Nat) (nm : String) (n : Nat) (raw : List (Candle K)),
    2 ≤ p → IsKey nm → (∀ c ∈ raw, Plain c) →
    ∃ out : List (Candle K), calculate (fuelFor raw) (mkTop (.atr p) nm n) raw = .ok out ∧
      out.length = raw.length ∧
      ∀ j, j < raw.length →
        RecOK (p + 1) n (1 / (p : K))
          (fun t => recExact (1 / (p : K))
            (winMean (fun i => trAt (fieldAt (·.h) raw) (fieldAt (·.l) raw) (fieldAt (·.c) raw) (i + 1)) p (p - 1))
            (fun i => trAt (fieldAt (·.h) raw) (fieldAt (·.l) raw) (fieldAt (·.c) raw) (i + 1)) p (t - 1))
          j (readingByCandle (out.getD j default) nm)

end Hex.C05

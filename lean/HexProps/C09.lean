import HexProofs.Numeric.Simple
import HexProofs.Numeric.AvgExtra
import HexProofs.Numeric.Channel
import HexProofs.Numeric.Extremes
import HexProofs.Numeric.Rsi
import HexProofs.Numeric.Stoch
import HexProofs.Numeric.Adx
import HexProofs.Numeric.Stdev
import HexProofs.Numeric.Supertrend
import HexProofs.Numeric.SeriesMore
import HexProofs.Numeric.Demo
/-
C09 – Calculation is total: no exception, only finite numbers, no gaps after warm-up
(NUMERIC layer: ordered field `K` with `LawfulPyF K`).

What is proved: every division and `sqrt` in the indicator formulas is guarded, i.e. on the
DEGENERATE inputs the property names (no losses for RSI, flat window for Stochastic, zero window
volume for VWMA / cumulative volume for VWAP, zero denominators for TSI and ADX, a variance that
must not go negative for STDEV) the `_calculate_reading` call returns `.ok` with the documented
fallback value; a legitimate `0.0` reading is not mistaken for "missing" (KC, Supertrend, MACD,
HMA, ADX gate on `is None`, not on truthiness); and once a recurrence has a previous reading it
produces a reading again (no gaps).  ROC is the one formula whose division is NOT guarded: it is
total exactly when the reference value is non-zero (true for prices, which are positive) –
`roc_total` / `roc_raises_on_zero`.

Trusted gap: in an ordered field every value is finite (`isFinite = true` is a class law);
overflow to `inf` and `NaN` of IEEE doubles are outside these theorems (covered by the
correspondence runs and the oracle search only).
For the leaf indicators over candle fields (SMA, EMA, RMA, WMA, VWMA, HLA, TR, OBV, ROC) the whole
row-major run is proved total on EVERY raw stream (`leaf_series_total`) – flat candles, zero
volume, repeated prices included – with no gaps after warm-up (`sma_no_gaps`).
Missing for the full property (`C09_FULL`): totality of the whole `append`/`calculate` engine for
the indicators with sub-indicators / managed helper series (framework induction: the readings
assumed present in the per-call theorems are present on reachable states).
-/
namespace Hex.C09
open Hex Hex.Numeric
variable {K : Type} [Field K] [LinearOrder K] [IsStrictOrderedRing K] [LawfulPyF K]

/-! ### candle fields can always be read at a valid index -/

/-- at a valid index every field read succeeds with the candle's value -/
theorem fields_readable (x : Ctx K) (h0 : 0 ≤ x.i) (hi : x.i < x.cs.length) :
    ∃ c : Candle K, x.reading "high" = .ok (.num c.h) ∧ x.reading "low" = .ok (.num c.l) ∧
      x.reading "close" = .ok (.num c.c) ∧ x.reading "volume" = .ok (.num c.v) := by
  have hlen : x.i.toNat < x.cs.length := by omega
  refine ⟨x.cs[x.i.toNat], ?_, ?_, ?_, ?_⟩ <;>
  · unfold Ctx.reading pyIndex
    have hn : ¬ x.i < 0 := by omega
    simp only [Option.getD_none, hn, if_false, List.getElem?_eq_getElem hlen, getOrIndexError]
    rfl

/-- **HLA never raises** on a valid index. -/
theorem hla_total (x : Ctx K) (h0 : 0 ≤ x.i) (hi : x.i < x.cs.length) : ∃ v, Calc.hla x = .ok v := by
  obtain ⟨c, hh, hl, _, _⟩ := fields_readable x h0 hi
  exact ⟨_, hla_def x c.h c.l hh hl⟩

example : ∃ v, Calc.hla (Demo.ctx "HLA") = .ok v := hla_total (Demo.ctx "HLA") (by decide) (by decide)

/-! ### guarded divisions -/

/-- **RSI with no losses**: the average loss is 0, the division is skipped and the reading is 100. -/
theorem rsi_no_losses (ops : Ops K) (x : Ctx K) (p : Nat) (input : String) (w : Val K → List (Candle K))
    (pr pi ci g0 l0 : Num K)
    (hprev : x.prevReading x.name = .ok (.num pr))
    (hpi : x.prevReading input = .ok (.num pi)) (hci : x.reading input = .ok (.num ci))
    (hg0 : x.prevReading (x.name ++ "_data.gain") = .ok (.num g0))
    (hl0 : x.prevReading (x.name ++ "_data.loss") = .ok (.num l0))
    (hset : ∀ v, ops.setManaged "RSI_data" v x.cs = .ok (w v))
    (hdata : ∀ v, (Ctx.on x (w v)).reading (x.name ++ "_data") = .ok v)
    (hrg : ∀ g l : Num K, (Ctx.on x (w (sdict [("gain", sc g), ("loss", sc l)]))).reading (x.name ++ "_data.gain") = .ok (.num g))
    (hrl : ∀ g l : Num K, (Ctx.on x (w (sdict [("gain", sc g), ("loss", sc l)]))).reading (x.name ++ "_data.loss") = .ok (.num l))
    (hp : 1 ≤ p) (hg0n : 0 ≤ g0.toF) (hzero : l0.toF = 0) (hup : pi.toF ≤ ci.toF) :
    ∃ cs', Calc.rsi ops x p input = .ok (.num (.flt 100), cs') := by
  have h := Numeric.rsi_step ops x p input w pr pi ci g0 l0 hprev hpi hci hg0 hl0 hset hdata hrg hrl hp hg0n
    (by rw [hzero])
  have hl : lossOf (pi.toF - ci.toF) = 0 := by unfold lossOf; rw [if_neg (by linarith)]
  have : rsiOf ((g0.toF * ((p : K) - 1) + gainOf (pi.toF - ci.toF)) / p)
      ((l0.toF * ((p : K) - 1) + lossOf (pi.toF - ci.toF)) / p) = 100 := by
    rw [hzero, hl]; simp [rsiOf]
  rw [this] at h
  exact ⟨_, h⟩

/-- **RSI is total** on every input once its helper series exists (losses zero or not). -/
theorem rsi_total (ops : Ops K) (x : Ctx K) (p : Nat) (input : String) (w : Val K → List (Candle K))
    (pr pi ci g0 l0 : Num K)
    (hprev : x.prevReading x.name = .ok (.num pr))
    (hpi : x.prevReading input = .ok (.num pi)) (hci : x.reading input = .ok (.num ci))
    (hg0 : x.prevReading (x.name ++ "_data.gain") = .ok (.num g0))
    (hl0 : x.prevReading (x.name ++ "_data.loss") = .ok (.num l0))
    (hset : ∀ v, ops.setManaged "RSI_data" v x.cs = .ok (w v))
    (hdata : ∀ v, (Ctx.on x (w v)).reading (x.name ++ "_data") = .ok v)
    (hrg : ∀ g l : Num K, (Ctx.on x (w (sdict [("gain", sc g), ("loss", sc l)]))).reading (x.name ++ "_data.gain") = .ok (.num g))
    (hrl : ∀ g l : Num K, (Ctx.on x (w (sdict [("gain", sc g), ("loss", sc l)]))).reading (x.name ++ "_data.loss") = .ok (.num l))
    (hp : 1 ≤ p) (hg0n : 0 ≤ g0.toF) (hl0n : 0 ≤ l0.toF) :
    ∃ y cs', Calc.rsi ops x p input = .ok (.num (.flt y), cs') :=
  ⟨_, _, Numeric.rsi_step ops x p input w pr pi ci g0 l0 hprev hpi hci hg0 hl0 hset hdata hrg hrl hp hg0n hl0n⟩

example : ∃ cs', Calc.rsi (Demo.opsW "RSI_3_data") (Demo.ctx "RSI_3") (3 : Nat) "close" = .ok (.num (.flt 100), cs') :=
  rsi_no_losses (Demo.opsW "RSI_3_data") (Demo.ctx "RSI_3") 3 "close" (fun v => Demo.wr "RSI_3_data" v Demo.cs)
    (.flt 50) (.int 14) (.int 15) (.flt 1) (.flt 0) rfl rfl rfl rfl rfl (fun _ => rfl) (fun _ => rfl)
    (fun _ _ => rfl) (fun _ _ => rfl) (by norm_num) (by norm_num) (by norm_num) (by norm_num)

/-- **Stochastic on a flat window** (all highs and lows equal): the division is skipped, stoch = 0. -/
theorem stoch_flat (ops : Ops K) (x : Ctx K) (p : Nat) (input : String)
    (w : Val K → List (Candle K) → List (Candle K)) (cd : List (Candle K) → List (Candle K))
    (lo hi : Nat → Num K) (cur : Num K) (c : K)
    (hrp : x.readingPeriod p input = true) (hp : 1 ≤ p)
    (hlo : ∀ j, j < p → x.reading "low" (some (x.i + 1 - p + j)) = .ok (.num (lo j)))
    (hhi : ∀ j, j < p → x.reading "high" (some (x.i + 1 - p + j)) = .ok (.num (hi j)))
    (hc : x.reading input = .ok (.num cur))
    (hset : ∀ v cs, ops.setManaged "STOCH_data" v cs = .ok (w v cs))
    (hcalc : ∀ cs, ops.calcManaged "STOCH_d" cs = .ok (cd cs))
    (hk : ∀ v, ∃ ks, (Ctx.on x (w v x.cs)).reading (x.name ++ "_k") = .ok (.s ks))
    (hdr : ∀ v1 v2, ∃ ds, (Ctx.on x (cd (w v2 (w v1 x.cs)))).reading (x.name ++ "_d") = .ok (.s ds))
    (hflat : ∀ j, j < p → (lo j).toF = c ∧ (hi j).toF = c) :
    ∃ (st : Num K) (ks ds : Scalar K) (cs' : List (Candle K)),
      Calc.stoch ops x p input = .ok (.dict [("stoch", .num st), ("k", ks), ("d", ds)], cs') ∧ st.toF = 0 := by
  obtain ⟨st, L, H, ks, ds, cs', h, hv, _, ⟨jl, hjl, hL⟩, _, ⟨jh, hjh, hH⟩⟩ :=
    stoch_def ops x p input w cd lo hi cur hrp hp hlo hhi hc hset hcalc hk hdr
  refine ⟨st, ks, ds, cs', h, ?_⟩
  rw [hv, hL, hH, (hflat jl hjl).1, (hflat jh hjh).2]
  simp [stochOf]

/-- **Stochastic is total** whatever the window looks like. -/
theorem stoch_total (ops : Ops K) (x : Ctx K) (p : Nat) (input : String)
    (w : Val K → List (Candle K) → List (Candle K)) (cd : List (Candle K) → List (Candle K))
    (lo hi : Nat → Num K) (cur : Num K)
    (hrp : x.readingPeriod p input = true) (hp : 1 ≤ p)
    (hlo : ∀ j, j < p → x.reading "low" (some (x.i + 1 - p + j)) = .ok (.num (lo j)))
    (hhi : ∀ j, j < p → x.reading "high" (some (x.i + 1 - p + j)) = .ok (.num (hi j)))
    (hc : x.reading input = .ok (.num cur))
    (hset : ∀ v cs, ops.setManaged "STOCH_data" v cs = .ok (w v cs))
    (hcalc : ∀ cs, ops.calcManaged "STOCH_d" cs = .ok (cd cs))
    (hk : ∀ v, ∃ ks, (Ctx.on x (w v x.cs)).reading (x.name ++ "_k") = .ok (.s ks))
    (hdr : ∀ v1 v2, ∃ ds, (Ctx.on x (cd (w v2 (w v1 x.cs)))).reading (x.name ++ "_d") = .ok (.s ds)) :
    ∃ v, Calc.stoch ops x p input = .ok v := by
  obtain ⟨st, L, H, ks, ds, cs', h, _⟩ := stoch_def ops x p input w cd lo hi cur hrp hp hlo hhi hc hset hcalc hk hdr
  exact ⟨_, h⟩

example : ∃ v, Calc.stoch Demo.ops (Demo.ctx "STOCH") (3 : Nat) "close" = .ok v :=
  stoch_total Demo.ops (Demo.ctx "STOCH") 3 "close" (fun _ cs => cs) (fun cs => cs)
    (fun j => .int ([10, 11, 13].getD j 0)) (fun j => .int ([13, 15, 16].getD j 0)) (.int 15) (by decide) (by norm_num)
    (by intro j hj; interval_cases j <;> rfl) (by intro j hj; interval_cases j <;> rfl) rfl
    (fun _ _ => rfl) (fun _ => rfl) (fun _ => ⟨.num (.flt 60), rfl⟩) (fun _ _ => ⟨.num (.flt 55), rfl⟩)

/-- **VWMA with zero window volume** (e.g. only fill candles): falls back to the mean of the closes. -/
theorem vwma_zero_volume (x : Ctx K) (p : Nat) (pv : Val K) (c v : Nat → Num K)
    (hprev : x.prevReading x.name = .ok pv)
    (hg : pv.isNone = false ∨ x.readingPeriod p "close" = true)
    (hp1 : 1 ≤ p) (hpi : (p : Int) ≤ x.i + 1) (hi0 : 1 ≤ x.i)
    (hc : ∀ j, j < p → x.reading "close" (some (x.i + 1 - p + j)) = .ok (.num (c j)))
    (hv : ∀ j, j < p → x.reading "volume" (some (x.i + 1 - p + j)) = .ok (.num (v j)))
    (hz : ∀ j, j < p → (v j).toF = 0) :
    Calc.vwma x p = .ok (.flt (rsum p (fun j => (c j).toF) / p)) := by
  have h0 : rsum p (fun j => (v j).toF) = 0 := by
    have : rsum p (fun j => (v j).toF) = rsum p (fun _ => (0 : K)) := by
      unfold rsum; congr 1; apply List.map_congr_left; intro j hj; exact hz j (List.mem_range.1 hj)
    rw [this]; unfold rsum; simp
  rw [vwma_def x p pv c v hprev hg hp1 hpi hi0 hc hv, if_pos h0]

/-- **VWMA is total** for every volume profile. -/
theorem vwma_total (x : Ctx K) (p : Nat) (pv : Val K) (c v : Nat → Num K)
    (hprev : x.prevReading x.name = .ok pv)
    (hg : pv.isNone = false ∨ x.readingPeriod p "close" = true)
    (hp1 : 1 ≤ p) (hpi : (p : Int) ≤ x.i + 1) (hi0 : 1 ≤ x.i)
    (hc : ∀ j, j < p → x.reading "close" (some (x.i + 1 - p + j)) = .ok (.num (c j)))
    (hv : ∀ j, j < p → x.reading "volume" (some (x.i + 1 - p + j)) = .ok (.num (v j))) :
    ∃ y, Calc.vwma x p = .ok (.flt y) :=
  ⟨_, vwma_def x p pv c v hprev hg hp1 hpi hi0 hc hv⟩

example : Calc.vwma (Demo.ctx "VWMA_1" 3) (1 : Nat)
    = .ok (.flt (rsum 1 (fun j => ((fun _ => Num.int 15) j : Num ℚ).toF) / (1 : Nat))) :=
  vwma_zero_volume (Demo.ctx "VWMA_1" 3) 1 .none (fun _ => .int 15) (fun _ => .int 0) rfl (Or.inr (by decide))
    (by norm_num) (by decide) (by decide) (by intro j hj; interval_cases j; rfl) (by intro j hj; interval_cases j; rfl)
    (by intro j _; simp)

/-- **TSI with a zero denominator**: reading 0, no division. -/
theorem tsi_zero_denominator (ops : Ops K) (x : Ctx K) (input : String) (cs1 : List (Candle K)) (cur prev a s : Num K)
    (hrp : x.readingPeriod 2 input = true)
    (hc : x.reading input = .ok (.num cur)) (hp : x.prevReading input = .ok (.num prev))
    (hset : ops.setManaged "TSI_data"
      (sdict [("price", sc (cur.sub prev)), ("abs_price", sc (cur.sub prev).abs)]) x.cs = .ok cs1)
    (ha : (Ctx.on x cs1).reading (x.name ++ "_abs_second") = .ok (.num a))
    (hs : (Ctx.on x cs1).reading (x.name ++ "_second") = .ok (.num s)) (hz : a.toF = 0) :
    ∃ n, Calc.tsi ops x input = .ok (.num n, cs1) ∧ n.toF = 0 := by
  obtain ⟨n, h, hv⟩ := tsi_def ops x input cs1 cur prev a s hrp hc hp hset ha hs
  exact ⟨n, h, by rw [hv, if_pos hz]⟩

/-- **TSI is total.** -/
theorem tsi_total (ops : Ops K) (x : Ctx K) (input : String) (cs1 : List (Candle K)) (cur prev a s : Num K)
    (hrp : x.readingPeriod 2 input = true)
    (hc : x.reading input = .ok (.num cur)) (hp : x.prevReading input = .ok (.num prev))
    (hset : ops.setManaged "TSI_data"
      (sdict [("price", sc (cur.sub prev)), ("abs_price", sc (cur.sub prev).abs)]) x.cs = .ok cs1)
    (ha : (Ctx.on x cs1).reading (x.name ++ "_abs_second") = .ok (.num a))
    (hs : (Ctx.on x cs1).reading (x.name ++ "_second") = .ok (.num s)) :
    ∃ v, Calc.tsi ops x input = .ok v := by
  obtain ⟨n, h, _⟩ := tsi_def ops x input cs1 cur prev a s hrp hc hp hset ha hs
  exact ⟨_, h⟩

example : ∃ v, Calc.tsi Demo.ops (Demo.ctx "TSI") "close" = .ok v :=
  tsi_total Demo.ops (Demo.ctx "TSI") "close" Demo.cs (.int 15) (.int 14) (.flt 2) (.flt 1) (by decide) rfl rfl rfl rfl rfl

/-- **ADX is total**, also with a zero ATR and a zero DI sum (both divisions guarded): with ATR = 0
both DI lines and DX are 0. -/
theorem adx_total (ops : Ops K) (x : Ctx K)
    (w : Val K → List (Candle K) → List (Candle K)) (cd : List (Candle K) → List (Candle K))
    (sd : List (Candle K) → Scalar K)
    (h ph l pl a pos neg : Num K) (hi : 0 < x.i)
    (hh : x.reading "high" = .ok (.num h)) (hph : x.reading "high" (some (x.i - 1)) = .ok (.num ph))
    (hl : x.reading "low" = .ok (.num l)) (hpl : x.reading "low" (some (x.i - 1)) = .ok (.num pl))
    (hset : ∀ v cs, ops.setManaged "ADX_data" v cs = .ok (w v cs))
    (hcalc : ∀ cs, ops.calcManaged "dx" cs = .ok (cd cs))
    (hatr : ∀ v, (Ctx.on x (w v x.cs)).reading (x.name ++ "_atr") = .ok (.num a))
    (hpos : ∀ v, (Ctx.on x (w v x.cs)).reading (x.name ++ "_pos") = .ok (.num pos))
    (hneg : ∀ v, (Ctx.on x (w v x.cs)).reading (x.name ++ "_neg") = .ok (.num neg))
    (hdx : ∀ v1 v2, (Ctx.on x (cd (w v2 (w v1 x.cs)))).reading (x.name ++ "_dx") = .ok (.s (sd (cd (w v2 (w v1 x.cs)))))) :
    (∃ v, Calc.adx ops x = .ok v) ∧
    (a.toF = 0 → ((modNum a).mul pos).toF = 0 ∧ ((modNum a).mul neg).toF = 0 ∧
      (dxNum ((modNum a).mul pos) ((modNum a).mul neg)).toF = 0) := by
  refine ⟨⟨_, adx_def ops x w cd sd h ph l pl a pos neg hi hh hph hl hpl hset hcalc hatr hpos hneg hdx⟩, ?_⟩
  intro hz
  have hm : (modNum a).toF = 0 := by rw [toF_modNum]; simp [diMod, hz]
  refine ⟨by simp [hm], by simp [hm], ?_⟩
  rw [toF_dxNum]; simp [dxOf, hm]

/-- **STDEV never raises**: the variance is clamped at 0 before `sqrt`, whatever its sign. -/
theorem stdev_total (ops : Ops K) (x : Ctx K) (p : Int) (input : String) (w : Val K → List (Candle K))
    (xv rem om ov : Num K)
    (hc : x.reading input = .ok (.num xv))
    (hin : x.readingPeriod (p + 1) input (some x.i) = true)
    (hrem : x.reading input (some (x.i - p)) = .ok (.num rem))
    (hm : x.prevReading (x.name ++ "_data.mean") = .ok (.num om))
    (hv : x.prevReading (x.name ++ "_data.variance") = .ok (.num ov))
    (hset : ∀ v, ops.setManaged "STDEV_data" v x.cs = .ok (w v)) (hp : (p : K) ≠ 0) :
    ∃ y cs', Calc.stdev ops x p input = .ok (.num (.flt y), cs') :=
  ⟨_, _, Numeric.stdev_step ops x p input w xv rem om ov hc hin hrem hm hv hset hp⟩

/-- the clamp is what makes it total: without it a negative running variance raises `ValueError` -/
theorem sqrt_needs_clamp (a : Num K) (h : a.toF < 0) :
    a.sqrt = .error .valueError ∧ (Num.max2 a (fl 0)).sqrt = .ok (.flt (PyF.sqrt 0)) := by
  refine ⟨Num.sqrt_neg a h, ?_⟩
  rw [Num.sqrt_ok _ (by simp)]
  simp [max_eq_right h.le]

example : ∃ y cs', Calc.stdev Demo.ops (Demo.ctx "STDEV_3") 3 "close" = .ok (.num (.flt y), cs') :=
  stdev_total Demo.ops (Demo.ctx "STDEV_3") 3 "close" (fun _ => Demo.cs) (.int 15) (.int 11)
    (.flt (37/3)) (.flt (14/9)) rfl (by decide) rfl rfl rfl (fun _ => rfl) (by norm_num)

/-- **VWAP with zero cumulative volume**: reading = the running `pv`, no division. -/
theorem vwap_zero_volume (ops : Ops K) (x : Ctx K) (w : Val K → List (Candle K)) (h l c vol : Num K)
    (hh : x.reading "high" = .ok (.num h)) (hl : x.reading "low" = .ok (.num l))
    (hc : x.reading "close" = .ok (.num c)) (hv : x.reading "volume" = .ok (.num vol))
    (hpp : x.prevReading (x.name ++ "_data.pv") = .ok .none)
    (hset : ∀ v, ops.setManaged "VWAP_data" v x.cs = .ok (w v)) (hz : vol.toF = 0) :
    ∃ PV cs', Calc.vwap ops x = .ok (.num PV, cs') ∧ PV.toF = 0 := by
  obtain ⟨PV, TV, h1, h2, h3⟩ := Numeric.vwap_first ops x w h l c vol hh hl hc hv hpp hset
  rw [if_pos (by rw [h2, hz])] at h3
  exact ⟨PV, _, h3, by rw [h1, hz]; ring⟩

example : ∃ PV cs', Calc.vwap Demo.ops (Demo.ctx "VWAPX") = .ok (.num PV, cs') ∧ PV.toF = (0 : ℚ) :=
  vwap_zero_volume Demo.ops (Demo.ctx "VWAPX") (fun _ => Demo.cs) (.int 16) (.int 13) (.int 15) (.int 0)
    rfl rfl rfl rfl rfl (fun _ => rfl) (by simp)

/-- **ROC is total when the reference value is non-zero** (prices are positive). -/
theorem roc_total (x : Ctx K) (period : Int) (input : String) (pv : Val K) (back cur : Num K)
    (hprev : x.prevReading x.name = .ok pv)
    (hg : pv.isNone = false ∨ x.readingPeriod (period + 1) input = true)
    (hb : x.reading input (some (x.i - period)) = .ok (.num back))
    (hc : x.reading input = .ok (.num cur)) (hb0 : 0 < back.toF) :
    ∃ v, Calc.roc x period input = .ok v := by
  obtain ⟨n, h, _⟩ := roc_def x period input pv back cur hprev hg hb hc hb0.ne'
  exact ⟨_, h⟩

/-- … and ONLY then: ROC's division has no guard, a zero reference raises `ZeroDivisionError`
(reachable when the input is another indicator's reading, e.g. OBV or a MACD line at 0). -/
theorem roc_raises_on_zero (x : Ctx K) (period : Int) (input : String) (pv : Val K) (back cur : Num K)
    (hprev : x.prevReading x.name = .ok pv)
    (hg : pv.isNone = false ∨ x.readingPeriod (period + 1) input = true)
    (hb : x.reading input (some (x.i - period)) = .ok (.num back))
    (hc : x.reading input = .ok (.num cur)) (hb0 : back.toF = 0) :
    Calc.roc x period input = .error .zeroDiv :=
  roc_zeroDiv x period input pv back cur hprev hg hb hc hb0

example : Calc.roc (Demo.ctx "ROC_V" 3) 0 "volume" = .error .zeroDiv :=
  roc_raises_on_zero (Demo.ctx "ROC_V" 3) 0 "volume" .none (.int 0) (.int 0) rfl (Or.inr (by decide)) rfl rfl (by simp)

/-! ### a legitimate 0.0 is not "missing" -/

/-- **KC with a zero ATR** (flat candles) still produces its three bands – the gate is `is None`. -/
theorem kc_zero_atr (x : Ctx K) (mult e a : Num K)
    (he : x.reading (x.name ++ "_EMA") = .ok (.num e)) (ha : x.reading (x.name ++ "_ATR") = .ok (.num a))
    (hz : a.toF = 0) :
    ∃ lo up : Num K, Calc.kc x mult = .ok (.dict [("lower", .num lo), ("band", .num e), ("upper", .num up)]) ∧
      lo.toF = e.toF ∧ up.toF = e.toF :=
  ⟨_, _, kc_def x mult e a he ha, by simp [hz], by simp [hz]⟩

/-- **Supertrend with a zero ATR** still produces a trend (bands collapse onto HL2). -/
theorem supertrend_zero_atr (ops : Ops K) (x : Ctx K) (mult a hl : Num K) (w : Val K → List (Candle K))
    (ha : x.reading (x.name ++ "_atr") = .ok (.num a))
    (hhl : x.reading (x.name ++ "_HL") = .ok (.num hl))
    (hpl : x.prevReading (x.name ++ "_data.lower") = .ok .none)
    (hset : ∀ v, ops.setManaged "ST_data" v x.cs = .ok (w v)) (hz : a.toF = 0) :
    ∃ U L : Num K, ∃ cs', Calc.supertrend ops x mult = .ok (stDict 1 U L, cs') ∧ U.toF = hl.toF ∧ L.toF = hl.toF :=
  ⟨_, _, _, Numeric.supertrend_first ops x mult a hl w ha hhl hpl hset, by simp [hz], by simp [hz]⟩

/-- **MACD with a slow EMA of exactly 0** still produces the MACD line. -/
theorem macd_zero_slow (ops : Ops K) (x : Ctx K) (cs1 cs2 : List (Candle K)) (sl f sg : Num K)
    (hs : x.reading (x.name ++ "_EMA_slow") = .ok (.num sl))
    (hf : x.reading (x.name ++ "_EMA_fast") = .ok (.num f))
    (hu : updateAt x.cs x.i (fun c => { c with inds := dset x.name (sdict [("MACD", sc (f.sub sl))]) c.inds }) = .ok cs1)
    (hc : ops.calcManaged "signal" cs1 = .ok cs2)
    (hsg : (Ctx.on x cs2).reading (x.name ++ "_signal_line") = .ok (.num sg)) (hz : sl.toF = 0) :
    ∃ m hist : Num K, Calc.macd ops x =
        .ok (.dict [("MACD", .num m), ("signal", .num sg), ("histogram", .num hist)], cs2) ∧ m.toF = f.toF :=
  ⟨_, _, macd_def ops x cs1 cs2 sl f sg hs hf hu hc hsg, by simp [hz]⟩

/-- **HMA with a WMA of exactly 0** still writes its raw series. -/
theorem hma_zero_wma (ops : Ops K) (x : Ctx K) (cs1 : List (Candle K)) (w wh : Num K) (r : Val K)
    (hw : x.reading (x.name ++ "_WMA") = .ok (.num w))
    (hwh : x.reading (x.name ++ "_WMAh") = .ok (.num wh))
    (hset : ops.setManaged "raw_HMA" (.num (((Num.int 2).mul wh).sub w)) x.cs = .ok cs1)
    (hr : (Ctx.on x cs1).reading (x.name ++ "_HMAs") = .ok r) (_hz : w.toF = 0) :
    Calc.hma ops x = .ok (r, cs1) :=
  (hma_def ops x cs1 w wh r hw hwh hset hr).1

/-! ### no gaps: a recurrence with a previous reading produces a reading -/

/-- SMA, EMA, RMA, ATR, OBV: previous reading present and inputs present ⇒ reading present
(periods ≥ 1, so no division by zero). -/
theorem recurrences_continue (x : Ctx K) (period : Int) (input : String) (s prev old cur : Num K)
    (hp : 1 ≤ period)
    (hprev : x.prevReading x.name = .ok (.num prev))
    (ho : x.reading input (some (x.i - period)) = .ok (.num old))
    (hc : x.reading input = .ok (.num cur)) :
    (∃ n, Calc.sma x period input = .ok (.num n)) ∧ (∃ n, Calc.ema x period input s = .ok (.num n)) ∧
    (∃ n, Calc.rma x period input = .ok (.num n)) ∧ (∃ n, Calc.atr x period input = .ok (.num n)) := by
  have h1 : (1 : K) ≤ period := by exact_mod_cast hp
  have hp0 : (period : K) ≠ 0 := by intro h; rw [h] at h1; linarith
  have hp1 : (period : K) + 1 ≠ 0 := by intro h; linarith
  refine ⟨?_, ⟨_, ema_rec x period input s prev cur hprev hc hp1⟩, ⟨_, rma_rec x period input prev cur hprev hc hp0⟩,
    ⟨_, atr_rec x period input prev cur hprev hc hp0⟩⟩
  obtain ⟨n, h, _⟩ := sma_rec x period input prev old cur hprev ho hc hp0
  exact ⟨n, h⟩

example : ∃ n, Calc.sma (Demo.ctx "SMA_3") 3 "close" = .ok (.num n) :=
  (recurrences_continue (Demo.ctx "SMA_3") 3 "close" (fl 2) (.flt (37/3)) (.int 11) (.int 15) (by norm_num) rfl rfl rfl).1

/-! ### whole series: the leaf indicators never raise on any raw stream -/

/-- **Totality of the leaf indicators on every raw stream** (any prices, any volumes – zero
included –, any length, periods ≥ 2): the row-major run of SMA, EMA, RMA, WMA, VWMA, HLA, TR and
OBV returns; ROC returns when the input field is non-zero on every candle. -/
theorem leaf_series_total (p : Nat) (hp : 2 ≤ p) (nm : String) (n : Nat) (hk : IsKey nm)
    (raw : List (Candle K)) (hraw : ∀ c ∈ raw, Plain c) :
    (∃ out, rowMajor (mkTop (.sma p "close") nm n) raw = .ok out) ∧
    (∃ out, rowMajor (mkTop (.ema p "close" (fl 2)) nm n) raw = .ok out) ∧
    (∃ out, rowMajor (mkTop (.rma p "close") nm n) raw = .ok out) ∧
    (∃ out, rowMajor (mkTop (.wma p "close") nm n) raw = .ok out) ∧
    (∃ out, rowMajor (mkTop (.vwma p) nm n) raw = .ok out) ∧
    (∃ out, rowMajor (mkTop .hla nm n) raw = .ok out) ∧
    (∃ out, rowMajor (mkTop .tr nm n) raw = .ok out) ∧
    (∃ out, rowMajor (mkTop .obv nm n) raw = .ok out) ∧
    ((∀ j, j < raw.length → fieldAt (·.c) raw j ≠ 0) → ∃ out, rowMajor (mkTop (.roc p "close") nm n) raw = .ok out) := by
  have ha := ema_alpha_range (K := K) (p : Int) (by omega)
  have ha0 : 0 < (fl 2 : Num K).toF / ((p : K) + 1) := by simpa using ha.1
  have ha1 : (fl 2 : Num K).toF / ((p : K) + 1) ≤ 1 := by simpa using ha.2
  obtain ⟨v1, _, h1, _⟩ := sma_series p hp nm "close" (·.c) n hk noDot_close (fun _ => rfl) raw hraw
  obtain ⟨v2, _, h2, _⟩ := ema_series p hp (fl 2) nm "close" (·.c) n ha0 ha1 hk noDot_close (fun _ => rfl) raw hraw
  obtain ⟨v3, _, h3, _⟩ := rma_series p hp nm "close" (·.c) n hk noDot_close (fun _ => rfl) raw hraw
  obtain ⟨v4, _, h4, _⟩ := wma_series p hp nm "close" (·.c) n hk noDot_close (fun _ => rfl) raw hraw
  obtain ⟨v5, _, h5, _⟩ := vwma_series p hp nm n hk raw hraw
  obtain ⟨v6, _, h6, _⟩ := hla_series nm n hk raw hraw
  obtain ⟨v7, _, h7, _⟩ := tr_series nm n hk raw hraw
  obtain ⟨v8, _, h8, _⟩ := obv_series nm n hk raw hraw
  refine ⟨⟨_, h1⟩, ⟨_, h2⟩, ⟨_, h3⟩, ⟨_, h4⟩, ⟨_, h5⟩, ⟨_, h6⟩, ⟨_, h7⟩, ⟨_, h8⟩, fun hnz => ?_⟩
  obtain ⟨v9, _, h9, _⟩ := roc_series p (by omega) nm "close" (·.c) n hk noDot_close (fun _ => rfl) raw hraw hnz
  exact ⟨_, h9⟩

/-- flat, zero-volume candles (what gap filling inserts) -/
def flatRaw : List (Candle ℚ) :=
  [Demo.mk 7 7 7 7 0, Demo.mk 7 7 7 7 0, Demo.mk 7 7 7 7 0, Demo.mk 7 7 7 7 0]

theorem flatRaw_plain : ∀ c ∈ flatRaw, Plain c := by
  intro c hc
  simp only [flatRaw, List.mem_cons, List.not_mem_nil, or_false] at hc
  rcases hc with rfl | rfl | rfl | rfl <;> exact ⟨rfl, rfl⟩

example : ∃ out, rowMajor (mkTop (.vwma (2 : Nat)) "VWMA_2" 4) flatRaw = .ok out :=
  (leaf_series_total 2 (by norm_num) "VWMA_2" 4 (by decide) flatRaw flatRaw_plain).2.2.2.2.1

/-- **No gaps after warm-up (SMA)**: on every raw stream every index from `period − 1` on holds a
float, every earlier index `None`. -/
theorem sma_no_gaps (p : Nat) (hp : 2 ≤ p) (nm : String) (n : Nat) (hk : IsKey nm)
    (raw : List (Candle K)) (hraw : ∀ c ∈ raw, Plain c) :
    ∃ vs : List (Val K), vs.length = raw.length ∧
      rowMajor (mkTop (.sma p "close") nm n) raw = .ok (deco nm raw vs) ∧
      ∀ j, j < raw.length → (j + 1 < p → vs.getD j .none = .none) ∧ (p ≤ j + 1 → ∃ y, vs.getD j .none = .flt y) := by
  obtain ⟨vs, h1, h2, h3⟩ := sma_series p hp nm "close" (·.c) n hk noDot_close (fun _ => rfl) raw hraw
  refine ⟨vs, h1, h2, fun j hj => ⟨(h3 j hj).1, fun h => ?_⟩⟩
  obtain ⟨y, hy, _⟩ := (h3 j hj).2 h
  exact ⟨y, hy⟩

/-- every value of the carrier is finite – true in a field by class law; for IEEE doubles this
is the trusted gap (overflow / NaN are checked by the correspondence runs, not proved) -/
theorem finite_in_field (a : K) : PyF.isFinite a = true := LawfulPyF.isFinite_eq a

/-- a well-formed candle: positive prices, `low ≤ open, close ≤ high`, non-negative volume -/
structure WellFormedCandle (c : Candle K) : Prop where
  pos : 0 < c.l.toF
  lo : c.l.toF ≤ c.o.toF ∧ c.l.toF ≤ c.c.toF
  hi : c.o.toF ≤ c.h.toF ∧ c.c.toF ≤ c.h.toF
  vol : 0 ≤ c.v.toF

/-- the period parameters of a kind -/
def periodsOf : Kind K → List Int
  | .sma p _ | .ema p _ _ | .rma p _ | .wma p _ | .vwma p | .hma p _ | .atr p | .stdev p _
  | .bbands p _ | .kc p _ _ | .donchian p | .hl p | .supertrend p _ _ | .stdevthres p _ _
  | .rsi p _ | .roc p _ | .aroon p | .vwap p => [p]
  | .macd f s g _ => [f, s, g]
  | .stoch p s k _ => [p, s, k]
  | .tsi p s _ => [p, s]
  | .adx p s => [p, s]
  | _ => []

/-- The full property: for every well-formed raw stream (flat candles, zero volume, repeated
prices included) and EVERY shipped kind with periods ≥ 2, the engine `calculate` returns – no
exception.  (Finiteness of every stored number is `finite_in_field` in the field model and the
trusted IEEE gap for doubles; "no gaps after warm-up" is `sma_no_gaps` for SMA.)
NOT proved.  Proved instead: all guarded divisions / `sqrt` per call (above), `leaf_series_total`
for the nine leaf indicators over candle fields.  Missing: the framework induction through
sub-indicators and managed helper series (the per-call hypotheses "reading present" hold on
reachable states), and ROC over an input that can be 0 – where the statement is FALSE
(`roc_raises_on_zero`). -/
def C09_FULL : Prop :=
  ∀ (K : Type) [Field K] [LinearOrder K] [IsStrictOrderedRing K] [LawfulPyF K]
    (k : Kind K) (nm : String) (n : Nat) (raw : List (Candle K)),
    (∀ p ∈ periodsOf k, 2 ≤ p) → IsKey nm → (∀ c ∈ raw, Plain c ∧ WellFormedCandle c) →
    ∃ out : List (Candle K), calculate (fuelFor raw) (mkTop k nm n) raw = .ok out

end Hex.C09

import HexProofs.Numeric.Simple
import HexProofs.Numeric.TotalLifeMgrFillHA
import HexProofs.Numeric.TotalInputs
import HexProofs.Numeric.TotalInputsHex
import HexProofs.Numeric.TotalMoreAmorph
import HexProofs.Numeric.TotalMoreHA
import HexProofs.Numeric.TotalMoreLifeTrees
import HexProofs.Numeric.AvgExtra
import HexProofs.Numeric.Channel
import HexProofs.Numeric.Extremes
import HexProofs.Numeric.Rsi
import HexProofs.Numeric.Stoch
import HexProofs.Numeric.Adx
import HexProofs.Numeric.Stdev
import HexProofs.Numeric.Supertrend
import HexProofs.Numeric.SeriesMore
import HexProofs.Numeric.Demo
import HexProofs.Numeric.Total
/-
C09 – Calculation is total: no exception, only finite numbers, no gaps after warm-up
(NUMERIC layer: ordered field `K` with `LawfulPyF K`).

WHAT IS PROVED

(1) Per call (first half of the file): every division and `sqrt` in the indicator formulas is
guarded, i.e. on the DEGENERATE inputs the property names (no losses for RSI, flat window for
Stochastic, zero window volume for VWMA / cumulative volume for VWAP, zero denominators for TSI and
ADX, a variance that must not go negative for STDEV) the `_calculate_reading` call returns `.ok`
with the documented fallback value; a legitimate `0.0` reading is not mistaken for "missing" (KC,
Supertrend, MACD, HMA, ADX gate on `is None`, not on truthiness); and once a recurrence has a
previous reading it produces a reading again.  ROC is the one formula whose division is NOT
guarded: it is total exactly when the reference value is non-zero – `roc_total` /
`roc_raises_on_zero` (open known finding).

(2) Whole histories (second half, `…_never_raises` / `…_no_gaps`; derivations in
HexProofs/Numeric/Total.lean from the whole-series files HexProofs/Numeric/Series*.lean).  For
EVERY shipped kind except ROC and Amorph – the composites ATR, RSI, KC, STDEV, BBANDS, Supertrend,
MACD, STOCH, TSI, ADX, HMA, VWAP, the window kinds Donchian, HighestLowest, Aroon, the utilities
Counter, STDEVTHRES, and the leaves SMA, EMA, RMA, WMA, VWMA, HLA, TR, OBV – with its input a candle
field, and for every manager `M` with an incremental spec (`MgrSpec.base`: base timeframe,
`MgrSpec.tf`: collapsing timeframe, `MgrSpec.fill`: timeframe with gap filling):
  * `NeverRaises M ind`: on every stream the manager accepts (raw-shaped candles; for `tf` / `fill`
    also time-stamped, sorted, not yet collapsed: `RawTf`), constructing the indicator over ANY
    initial part, `calculate()`, and appending the rest in ANY chunking RETURNS (the batch run is the
    schedule without appends).  This is more than the `*_live` theorems of the series files, which
    say what a live history returns IF it returns: `TreeSpec.live_total` proves that it does.
  * `Always M ind (NoGaps… w)`: the candles it ends with are, one for one, the candles the manager
    makes of the stream (`M.spec`: the stream itself, resp. its collapsed / gap-filled candles), and
    the own reading (each field of a dict reading) is `None` EXACTLY below the kind's warm-up index
    `w` and a number on EVERY candle from `w` on (`no_gaps_later`: once produced, produced on every
    later candle).  The warm-up indices are the TRUE ones of the library (e.g. STDEV: `p`, not
    `p − 1`; TSI: `p + smooth − 1`; HMA: `p + ⌊√p⌋ − 2`; MACD signal: `slow + signal − 2`).
    Supertrend's `long` / `short` are one-sided by design: `StNoGaps` states `trend` (from `p`),
    `direction` (every candle) and "exactly one of `long` / `short` from `p` on".  STDEVTHRES'
    reading is a bool on every candle (`BoolAlways`), Counter's an int on every candle – for EVERY
    float carrier, so also for the executed IEEE `Float`.
  Collapsing timeframes and gap filling are covered because what the manager hands to the engine
  is again a list of raw-shaped candles (`MgrSpec.spec_plain`) – fill candles are just more
  raw-shaped candles (flat, zero volume) – and the whole-series theorems hold for EVERY such list
  (flat candles, zero volume, repeated prices included).  The indices of "no gaps" then count the
  collapsed / filled candles.
  Parameter guards (the hypotheses of the source theorems): periods `≥ 1`, resp. `≥ 2` where the
  code path needs it (STOCH, HMA, BBANDS, KC, Donchian, the moving-average leaves: `candles_sum`
  treats absolute index 0 as "no index"); MACD `2 ≤ fast ≤ slow`, `1 ≤ signal`; the indicator's name
  and the derived helper names are ordinary, pairwise distinct keys (`KcNames`, `MacdNames`, …:
  true of the library's generated names, `by decide` in the examples).

TRUSTED GAP.  In an ordered field every value is finite (`finite_in_field`: `isFinite = true` is a
class law); overflow to `inf` and `NaN` of IEEE doubles are outside these theorems (covered by the
correspondence runs and the oracle search only).  `K` is exact.

STILL OPEN (`C09_FULL`): inputs that are OTHER INDICATORS' readings (chained indicators inside a
`Hexital`; there ROC's zero reference is reachable – `roc_raises_on_zero`), ROC over a field that
can be 0 (e.g. `volume`) where the statement is FALSE, the Amorph / pattern kinds (C16), managers
with Heikin-Ashi conversion or a lifespan (no `MgrSpec`), and IEEE overflow / NaN.
-/
namespace Hex.C09
open Hex Hex.Numeric
variable {K : Type} [Field K] [LinearOrder K] [IsStrictOrderedRing K] [LawfulPyF K]

/-! ### candle fields can always be read at a valid index -/

/-- at a valid index every field read succeeds with the candle's value -/
theorem fields_readable (x : Ctx K) (h0 : 0 ≤ x.i) (hi : x.i < x.cs.length) :
    ∃ c : Candle K, x.reading "high" = .ok (.num c.h) ∧ x.reading "low" = .ok (.num c.l) ∧
      x.reading "close" = .ok (.num c.c) ∧ x.reading "volume" = .ok (.num c.v) := by
  have hlen : x.i.toNat < x.cs.length := by omega
  refine ⟨x.cs[x.i.toNat], ?_, ?_, ?_, ?_⟩ <;>
  · unfold Ctx.reading pyIndex
    have hn : ¬ x.i < 0 := by omega
    simp only [Option.getD_none, hn, if_false, List.getElem?_eq_getElem hlen, getOrIndexError]
    rfl

/-- **HLA never raises** on a valid index. -/
theorem hla_total (x : Ctx K) (h0 : 0 ≤ x.i) (hi : x.i < x.cs.length) : ∃ v, Calc.hla x = .ok v := by
  obtain ⟨c, hh, hl, _, _⟩ := fields_readable x h0 hi
  exact ⟨_, hla_def x c.h c.l hh hl⟩

example : ∃ v, Calc.hla (Demo.ctx "HLA") = .ok v := hla_total (Demo.ctx "HLA") (by decide) (by decide)

/-! ### guarded divisions -/

/-- **RSI with no losses**: the average loss is 0, the division is skipped and the reading is 100. -/
theorem rsi_no_losses (ops : Ops K) (x : Ctx K) (p : Nat) (input : String) (w : Val K → List (Candle K))
    (pr pi ci g0 l0 : Num K)
    (hprev : x.prevReading x.name = .ok (.num pr))
    (hpi : x.prevReading input = .ok (.num pi)) (hci : x.reading input = .ok (.num ci))
    (hg0 : x.prevReading (x.name ++ "_data.gain") = .ok (.num g0))
    (hl0 : x.prevReading (x.name ++ "_data.loss") = .ok (.num l0))
    (hset : ∀ v, ops.setManaged "RSI_data" v x.cs = .ok (w v))
    (hdata : ∀ v, (Ctx.on x (w v)).reading (x.name ++ "_data") = .ok v)
    (hrg : ∀ g l : Num K, (Ctx.on x (w (sdict [("gain", sc g), ("loss", sc l)]))).reading (x.name ++ "_data.gain") = .ok (.num g))
    (hrl : ∀ g l : Num K, (Ctx.on x (w (sdict [("gain", sc g), ("loss", sc l)]))).reading (x.name ++ "_data.loss") = .ok (.num l))
    (hp : 1 ≤ p) (hg0n : 0 ≤ g0.toF) (hzero : l0.toF = 0) (hup : pi.toF ≤ ci.toF) :
    ∃ cs', Calc.rsi ops x p input = .ok (.num (.flt 100), cs') := by
  have h := Numeric.rsi_step ops x p input w pr pi ci g0 l0 hprev hpi hci hg0 hl0 hset hdata hrg hrl hp hg0n
    (by rw [hzero])
  have hl : lossOf (pi.toF - ci.toF) = 0 := by unfold lossOf; rw [if_neg (by linarith)]
  have : rsiOf ((g0.toF * ((p : K) - 1) + gainOf (pi.toF - ci.toF)) / p)
      ((l0.toF * ((p : K) - 1) + lossOf (pi.toF - ci.toF)) / p) = 100 := by
    rw [hzero, hl]; simp [rsiOf]
  rw [this] at h
  exact ⟨_, h⟩

/-- **RSI is total** on every input once its helper series exists (losses zero or not). -/
theorem rsi_total (ops : Ops K) (x : Ctx K) (p : Nat) (input : String) (w : Val K → List (Candle K))
    (pr pi ci g0 l0 : Num K)
    (hprev : x.prevReading x.name = .ok (.num pr))
    (hpi : x.prevReading input = .ok (.num pi)) (hci : x.reading input = .ok (.num ci))
    (hg0 : x.prevReading (x.name ++ "_data.gain") = .ok (.num g0))
    (hl0 : x.prevReading (x.name ++ "_data.loss") = .ok (.num l0))
    (hset : ∀ v, ops.setManaged "RSI_data" v x.cs = .ok (w v))
    (hdata : ∀ v, (Ctx.on x (w v)).reading (x.name ++ "_data") = .ok v)
    (hrg : ∀ g l : Num K, (Ctx.on x (w (sdict [("gain", sc g), ("loss", sc l)]))).reading (x.name ++ "_data.gain") = .ok (.num g))
    (hrl : ∀ g l : Num K, (Ctx.on x (w (sdict [("gain", sc g), ("loss", sc l)]))).reading (x.name ++ "_data.loss") = .ok (.num l))
    (hp : 1 ≤ p) (hg0n : 0 ≤ g0.toF) (hl0n : 0 ≤ l0.toF) :
    ∃ y cs', Calc.rsi ops x p input = .ok (.num (.flt y), cs') :=
  ⟨_, _, Numeric.rsi_step ops x p input w pr pi ci g0 l0 hprev hpi hci hg0 hl0 hset hdata hrg hrl hp hg0n hl0n⟩

example : ∃ cs', Calc.rsi (Demo.opsW "RSI_3_data") (Demo.ctx "RSI_3") (3 : Nat) "close" = .ok (.num (.flt 100), cs') :=
  rsi_no_losses (Demo.opsW "RSI_3_data") (Demo.ctx "RSI_3") 3 "close" (fun v => Demo.wr "RSI_3_data" v Demo.cs)
    (.flt 50) (.int 14) (.int 15) (.flt 1) (.flt 0) rfl rfl rfl rfl rfl (fun _ => rfl) (fun _ => rfl)
    (fun _ _ => rfl) (fun _ _ => rfl) (by norm_num) (by norm_num) (by norm_num) (by norm_num)

/-- **Stochastic on a flat window** (all highs and lows equal): the division is skipped, stoch = 0. -/
theorem stoch_flat (ops : Ops K) (x : Ctx K) (p : Nat) (input : String)
    (w : Val K → List (Candle K) → List (Candle K)) (cd : List (Candle K) → List (Candle K))
    (lo hi : Nat → Num K) (cur : Num K) (c : K)
    (hrp : x.readingPeriod p input = true) (hp : 1 ≤ p)
    (hlo : ∀ j, j < p → x.reading "low" (some (x.i + 1 - p + j)) = .ok (.num (lo j)))
    (hhi : ∀ j, j < p → x.reading "high" (some (x.i + 1 - p + j)) = .ok (.num (hi j)))
    (hc : x.reading input = .ok (.num cur))
    (hset : ∀ v cs, ops.setManaged "STOCH_data" v cs = .ok (w v cs))
    (hcalc : ∀ cs, ops.calcManaged "STOCH_d" cs = .ok (cd cs))
    (hk : ∀ v, ∃ ks, (Ctx.on x (w v x.cs)).reading (x.name ++ "_k") = .ok (.s ks))
    (hdr : ∀ v1 v2, ∃ ds, (Ctx.on x (cd (w v2 (w v1 x.cs)))).reading (x.name ++ "_d") = .ok (.s ds))
    (hflat : ∀ j, j < p → (lo j).toF = c ∧ (hi j).toF = c) :
    ∃ (st : Num K) (ks ds : Scalar K) (cs' : List (Candle K)),
      Calc.stoch ops x p input = .ok (.dict [("stoch", .num st), ("k", ks), ("d", ds)], cs') ∧ st.toF = 0 := by
  obtain ⟨st, L, H, ks, ds, cs', h, hv, _, ⟨jl, hjl, hL⟩, _, ⟨jh, hjh, hH⟩⟩ :=
    stoch_def ops x p input w cd lo hi cur hrp hp hlo hhi hc hset hcalc hk hdr
  refine ⟨st, ks, ds, cs', h, ?_⟩
  rw [hv, hL, hH, (hflat jl hjl).1, (hflat jh hjh).2]
  simp [stochOf]

/-- **Stochastic is total** whatever the window looks like. -/
theorem stoch_total (ops : Ops K) (x : Ctx K) (p : Nat) (input : String)
    (w : Val K → List (Candle K) → List (Candle K)) (cd : List (Candle K) → List (Candle K))
    (lo hi : Nat → Num K) (cur : Num K)
    (hrp : x.readingPeriod p input = true) (hp : 1 ≤ p)
    (hlo : ∀ j, j < p → x.reading "low" (some (x.i + 1 - p + j)) = .ok (.num (lo j)))
    (hhi : ∀ j, j < p → x.reading "high" (some (x.i + 1 - p + j)) = .ok (.num (hi j)))
    (hc : x.reading input = .ok (.num cur))
    (hset : ∀ v cs, ops.setManaged "STOCH_data" v cs = .ok (w v cs))
    (hcalc : ∀ cs, ops.calcManaged "STOCH_d" cs = .ok (cd cs))
    (hk : ∀ v, ∃ ks, (Ctx.on x (w v x.cs)).reading (x.name ++ "_k") = .ok (.s ks))
    (hdr : ∀ v1 v2, ∃ ds, (Ctx.on x (cd (w v2 (w v1 x.cs)))).reading (x.name ++ "_d") = .ok (.s ds)) :
    ∃ v, Calc.stoch ops x p input = .ok v := by
  obtain ⟨st, L, H, ks, ds, cs', h, _⟩ := stoch_def ops x p input w cd lo hi cur hrp hp hlo hhi hc hset hcalc hk hdr
  exact ⟨_, h⟩

example : ∃ v, Calc.stoch Demo.ops (Demo.ctx "STOCH") (3 : Nat) "close" = .ok v :=
  stoch_total Demo.ops (Demo.ctx "STOCH") 3 "close" (fun _ cs => cs) (fun cs => cs)
    (fun j => .int ([10, 11, 13].getD j 0)) (fun j => .int ([13, 15, 16].getD j 0)) (.int 15) (by decide) (by norm_num)
    (by intro j hj; interval_cases j <;> rfl) (by intro j hj; interval_cases j <;> rfl) rfl
    (fun _ _ => rfl) (fun _ => rfl) (fun _ => ⟨.num (.flt 60), rfl⟩) (fun _ _ => ⟨.num (.flt 55), rfl⟩)

/-- **VWMA with zero window volume** (e.g. only fill candles): falls back to the mean of the closes. -/
theorem vwma_zero_volume (x : Ctx K) (p : Nat) (pv : Val K) (c v : Nat → Num K)
    (hprev : x.prevReading x.name = .ok pv)
    (hg : pv.isNone = false ∨ x.readingPeriod p "close" = true)
    (hp1 : 1 ≤ p) (hpi : (p : Int) ≤ x.i + 1) (hi0 : 1 ≤ x.i)
    (hc : ∀ j, j < p → x.reading "close" (some (x.i + 1 - p + j)) = .ok (.num (c j)))
    (hv : ∀ j, j < p → x.reading "volume" (some (x.i + 1 - p + j)) = .ok (.num (v j)))
    (hz : ∀ j, j < p → (v j).toF = 0) :
    Calc.vwma x p = .ok (.flt (rsum p (fun j => (c j).toF) / p)) := by
  have h0 : rsum p (fun j => (v j).toF) = 0 := by
    have : rsum p (fun j => (v j).toF) = rsum p (fun _ => (0 : K)) := by
      unfold rsum; congr 1; apply List.map_congr_left; intro j hj; exact hz j (List.mem_range.1 hj)
    rw [this]; unfold rsum; simp
  rw [vwma_def x p pv c v hprev hg hp1 hpi hi0 hc hv, if_pos h0]

/-- **VWMA is total** for every volume profile. -/
theorem vwma_total (x : Ctx K) (p : Nat) (pv : Val K) (c v : Nat → Num K)
    (hprev : x.prevReading x.name = .ok pv)
    (hg : pv.isNone = false ∨ x.readingPeriod p "close" = true)
    (hp1 : 1 ≤ p) (hpi : (p : Int) ≤ x.i + 1) (hi0 : 1 ≤ x.i)
    (hc : ∀ j, j < p → x.reading "close" (some (x.i + 1 - p + j)) = .ok (.num (c j)))
    (hv : ∀ j, j < p → x.reading "volume" (some (x.i + 1 - p + j)) = .ok (.num (v j))) :
    ∃ y, Calc.vwma x p = .ok (.flt y) :=
  ⟨_, vwma_def x p pv c v hprev hg hp1 hpi hi0 hc hv⟩

example : Calc.vwma (Demo.ctx "VWMA_1" 3) (1 : Nat)
    = .ok (.flt (rsum 1 (fun j => ((fun _ => Num.int 15) j : Num ℚ).toF) / (1 : Nat))) :=
  vwma_zero_volume (Demo.ctx "VWMA_1" 3) 1 .none (fun _ => .int 15) (fun _ => .int 0) rfl (Or.inr (by decide))
    (by norm_num) (by decide) (by decide) (by intro j hj; interval_cases j; rfl) (by intro j hj; interval_cases j; rfl)
    (by intro j _; simp)

/-- **TSI with a zero denominator**: reading 0, no division. -/
theorem tsi_zero_denominator (ops : Ops K) (x : Ctx K) (input : String) (cs1 : List (Candle K)) (cur prev a s : Num K)
    (hrp : x.readingPeriod 2 input = true)
    (hc : x.reading input = .ok (.num cur)) (hp : x.prevReading input = .ok (.num prev))
    (hset : ops.setManaged "TSI_data"
      (sdict [("price", sc (cur.sub prev)), ("abs_price", sc (cur.sub prev).abs)]) x.cs = .ok cs1)
    (ha : (Ctx.on x cs1).reading (x.name ++ "_abs_second") = .ok (.num a))
    (hs : (Ctx.on x cs1).reading (x.name ++ "_second") = .ok (.num s)) (hz : a.toF = 0) :
    ∃ n, Calc.tsi ops x input = .ok (.num n, cs1) ∧ n.toF = 0 := by
  obtain ⟨n, h, hv⟩ := tsi_def ops x input cs1 cur prev a s hrp hc hp hset ha hs
  exact ⟨n, h, by rw [hv, if_pos hz]⟩

/-- **TSI is total.** -/
theorem tsi_total (ops : Ops K) (x : Ctx K) (input : String) (cs1 : List (Candle K)) (cur prev a s : Num K)
    (hrp : x.readingPeriod 2 input = true)
    (hc : x.reading input = .ok (.num cur)) (hp : x.prevReading input = .ok (.num prev))
    (hset : ops.setManaged "TSI_data"
      (sdict [("price", sc (cur.sub prev)), ("abs_price", sc (cur.sub prev).abs)]) x.cs = .ok cs1)
    (ha : (Ctx.on x cs1).reading (x.name ++ "_abs_second") = .ok (.num a))
    (hs : (Ctx.on x cs1).reading (x.name ++ "_second") = .ok (.num s)) :
    ∃ v, Calc.tsi ops x input = .ok v := by
  obtain ⟨n, h, _⟩ := tsi_def ops x input cs1 cur prev a s hrp hc hp hset ha hs
  exact ⟨_, h⟩

example : ∃ v, Calc.tsi Demo.ops (Demo.ctx "TSI") "close" = .ok v :=
  tsi_total Demo.ops (Demo.ctx "TSI") "close" Demo.cs (.int 15) (.int 14) (.flt 2) (.flt 1) (by decide) rfl rfl rfl rfl rfl

/-- **ADX is total**, also with a zero ATR and a zero DI sum (both divisions guarded): with ATR = 0
both DI lines and DX are 0. -/
theorem adx_total (ops : Ops K) (x : Ctx K)
    (w : Val K → List (Candle K) → List (Candle K)) (cd : List (Candle K) → List (Candle K))
    (sd : List (Candle K) → Scalar K)
    (h ph l pl a pos neg : Num K) (hi : 0 < x.i)
    (hh : x.reading "high" = .ok (.num h)) (hph : x.reading "high" (some (x.i - 1)) = .ok (.num ph))
    (hl : x.reading "low" = .ok (.num l)) (hpl : x.reading "low" (some (x.i - 1)) = .ok (.num pl))
    (hset : ∀ v cs, ops.setManaged "ADX_data" v cs = .ok (w v cs))
    (hcalc : ∀ cs, ops.calcManaged "dx" cs = .ok (cd cs))
    (hatr : ∀ v, (Ctx.on x (w v x.cs)).reading (x.name ++ "_atr") = .ok (.num a))
    (hpos : ∀ v, (Ctx.on x (w v x.cs)).reading (x.name ++ "_pos") = .ok (.num pos))
    (hneg : ∀ v, (Ctx.on x (w v x.cs)).reading (x.name ++ "_neg") = .ok (.num neg))
    (hdx : ∀ v1 v2, (Ctx.on x (cd (w v2 (w v1 x.cs)))).reading (x.name ++ "_dx") = .ok (.s (sd (cd (w v2 (w v1 x.cs)))))) :
    (∃ v, Calc.adx ops x = .ok v) ∧
    (a.toF = 0 → ((modNum a).mul pos).toF = 0 ∧ ((modNum a).mul neg).toF = 0 ∧
      (dxNum ((modNum a).mul pos) ((modNum a).mul neg)).toF = 0) := by
  refine ⟨⟨_, adx_def ops x w cd sd h ph l pl a pos neg hi hh hph hl hpl hset hcalc hatr hpos hneg hdx⟩, ?_⟩
  intro hz
  have hm : (modNum a).toF = 0 := by rw [toF_modNum]; simp [diMod, hz]
  refine ⟨by simp [hm], by simp [hm], ?_⟩
  rw [toF_dxNum]; simp [dxOf, hm]

/-- **STDEV never raises**: the variance is clamped at 0 before `sqrt`, whatever its sign. -/
theorem stdev_total (ops : Ops K) (x : Ctx K) (p : Int) (input : String) (w : Val K → List (Candle K))
    (xv rem om ov : Num K)
    (hc : x.reading input = .ok (.num xv))
    (hin : x.readingPeriod (p + 1) input (some x.i) = true)
    (hrem : x.reading input (some (x.i - p)) = .ok (.num rem))
    (hm : x.prevReading (x.name ++ "_data.mean") = .ok (.num om))
    (hv : x.prevReading (x.name ++ "_data.variance") = .ok (.num ov))
    (hset : ∀ v, ops.setManaged "STDEV_data" v x.cs = .ok (w v)) (hp : (p : K) ≠ 0) :
    ∃ y cs', Calc.stdev ops x p input = .ok (.num (.flt y), cs') :=
  ⟨_, _, Numeric.stdev_step ops x p input w xv rem om ov hc hin hrem hm hv hset hp⟩

/-- the clamp is what makes it total: without it a negative running variance raises `ValueError` -/
theorem sqrt_needs_clamp (a : Num K) (h : a.toF < 0) :
    a.sqrt = .error .valueError ∧ (Num.max2 a (fl 0)).sqrt = .ok (.flt (PyF.sqrt 0)) := by
  refine ⟨Num.sqrt_neg a h, ?_⟩
  rw [Num.sqrt_ok _ (by simp)]
  simp [max_eq_right h.le]

example : ∃ y cs', Calc.stdev Demo.ops (Demo.ctx "STDEV_3") 3 "close" = .ok (.num (.flt y), cs') :=
  stdev_total Demo.ops (Demo.ctx "STDEV_3") 3 "close" (fun _ => Demo.cs) (.int 15) (.int 11)
    (.flt (37/3)) (.flt (14/9)) rfl (by decide) rfl rfl rfl (fun _ => rfl) (by norm_num)

/-- **VWAP with zero cumulative volume**: reading = the running `pv`, no division. -/
theorem vwap_zero_volume (ops : Ops K) (x : Ctx K) (w : Val K → List (Candle K)) (h l c vol : Num K)
    (hh : x.reading "high" = .ok (.num h)) (hl : x.reading "low" = .ok (.num l))
    (hc : x.reading "close" = .ok (.num c)) (hv : x.reading "volume" = .ok (.num vol))
    (hpp : x.prevReading (x.name ++ "_data.pv") = .ok .none)
    (hset : ∀ v, ops.setManaged "VWAP_data" v x.cs = .ok (w v)) (hz : vol.toF = 0) :
    ∃ PV cs', Calc.vwap ops x = .ok (.num PV, cs') ∧ PV.toF = 0 := by
  obtain ⟨PV, TV, h1, h2, h3⟩ := Numeric.vwap_first ops x w h l c vol hh hl hc hv hpp hset
  rw [if_pos (by rw [h2, hz])] at h3
  exact ⟨PV, _, h3, by rw [h1, hz]; ring⟩

example : ∃ PV cs', Calc.vwap Demo.ops (Demo.ctx "VWAPX") = .ok (.num PV, cs') ∧ PV.toF = (0 : ℚ) :=
  vwap_zero_volume Demo.ops (Demo.ctx "VWAPX") (fun _ => Demo.cs) (.int 16) (.int 13) (.int 15) (.int 0)
    rfl rfl rfl rfl rfl (fun _ => rfl) (by simp)

/-- **ROC is total when the reference value is non-zero** (prices are positive). -/
theorem roc_total (x : Ctx K) (period : Int) (input : String) (pv : Val K) (back cur : Num K)
    (hprev : x.prevReading x.name = .ok pv)
    (hg : pv.isNone = false ∨ x.readingPeriod (period + 1) input = true)
    (hb : x.reading input (some (x.i - period)) = .ok (.num back))
    (hc : x.reading input = .ok (.num cur)) (hb0 : 0 < back.toF) :
    ∃ v, Calc.roc x period input = .ok v := by
  obtain ⟨n, h, _⟩ := roc_def x period input pv back cur hprev hg hb hc hb0.ne'
  exact ⟨_, h⟩

/-- … and ONLY then: ROC's division has no guard, a zero reference raises `ZeroDivisionError`
(reachable when the input is another indicator's reading, e.g. OBV or a MACD line at 0). -/
theorem roc_raises_on_zero (x : Ctx K) (period : Int) (input : String) (pv : Val K) (back cur : Num K)
    (hprev : x.prevReading x.name = .ok pv)
    (hg : pv.isNone = false ∨ x.readingPeriod (period + 1) input = true)
    (hb : x.reading input (some (x.i - period)) = .ok (.num back))
    (hc : x.reading input = .ok (.num cur)) (hb0 : back.toF = 0) :
    Calc.roc x period input = .error .zeroDiv :=
  roc_zeroDiv x period input pv back cur hprev hg hb hc hb0

example : Calc.roc (Demo.ctx "ROC_V" 3) 0 "volume" = .error .zeroDiv :=
  roc_raises_on_zero (Demo.ctx "ROC_V" 3) 0 "volume" .none (.int 0) (.int 0) rfl (Or.inr (by decide)) rfl rfl (by simp)

/-! ### a legitimate 0.0 is not "missing" -/

/-- **KC with a zero ATR** (flat candles) still produces its three bands – the gate is `is None`. -/
theorem kc_zero_atr (x : Ctx K) (mult e a : Num K)
    (he : x.reading (x.name ++ "_EMA") = .ok (.num e)) (ha : x.reading (x.name ++ "_ATR") = .ok (.num a))
    (hz : a.toF = 0) :
    ∃ lo up : Num K, Calc.kc x mult = .ok (.dict [("lower", .num lo), ("band", .num e), ("upper", .num up)]) ∧
      lo.toF = e.toF ∧ up.toF = e.toF :=
  ⟨_, _, kc_def x mult e a he ha, by simp [hz], by simp [hz]⟩

/-- **Supertrend with a zero ATR** still produces a trend (bands collapse onto HL2). -/
theorem supertrend_zero_atr (ops : Ops K) (x : Ctx K) (mult a hl : Num K) (w : Val K → List (Candle K))
    (ha : x.reading (x.name ++ "_atr") = .ok (.num a))
    (hhl : x.reading (x.name ++ "_HL") = .ok (.num hl))
    (hpl : x.prevReading (x.name ++ "_data.lower") = .ok .none)
    (hset : ∀ v, ops.setManaged "ST_data" v x.cs = .ok (w v)) (hz : a.toF = 0) :
    ∃ U L : Num K, ∃ cs', Calc.supertrend ops x mult = .ok (stDict 1 U L, cs') ∧ U.toF = hl.toF ∧ L.toF = hl.toF :=
  ⟨_, _, _, Numeric.supertrend_first ops x mult a hl w ha hhl hpl hset, by simp [hz], by simp [hz]⟩

/-- **MACD with a slow EMA of exactly 0** still produces the MACD line. -/
theorem macd_zero_slow (ops : Ops K) (x : Ctx K) (cs1 cs2 : List (Candle K)) (sl f sg : Num K)
    (hs : x.reading (x.name ++ "_EMA_slow") = .ok (.num sl))
    (hf : x.reading (x.name ++ "_EMA_fast") = .ok (.num f))
    (hu : updateAt x.cs x.i (fun c => { c with inds := dset x.name (sdict [("MACD", sc (f.sub sl))]) c.inds }) = .ok cs1)
    (hc : ops.calcManaged "signal" cs1 = .ok cs2)
    (hsg : (Ctx.on x cs2).reading (x.name ++ "_signal_line") = .ok (.num sg)) (hz : sl.toF = 0) :
    ∃ m hist : Num K, Calc.macd ops x =
        .ok (.dict [("MACD", .num m), ("signal", .num sg), ("histogram", .num hist)], cs2) ∧ m.toF = f.toF :=
  ⟨_, _, macd_def ops x cs1 cs2 sl f sg hs hf hu hc hsg, by simp [hz]⟩

/-- **HMA with a WMA of exactly 0** still writes its raw series. -/
theorem hma_zero_wma (ops : Ops K) (x : Ctx K) (cs1 : List (Candle K)) (w wh : Num K) (r : Val K)
    (hw : x.reading (x.name ++ "_WMA") = .ok (.num w))
    (hwh : x.reading (x.name ++ "_WMAh") = .ok (.num wh))
    (hset : ops.setManaged "raw_HMA" (.num (((Num.int 2).mul wh).sub w)) x.cs = .ok cs1)
    (hr : (Ctx.on x cs1).reading (x.name ++ "_HMAs") = .ok r) (_hz : w.toF = 0) :
    Calc.hma ops x = .ok (r, cs1) :=
  (hma_def ops x cs1 w wh r hw hwh hset hr).1

/-! ### no gaps: a recurrence with a previous reading produces a reading -/

/-- SMA, EMA, RMA, ATR, OBV: previous reading present and inputs present ⇒ reading present
(periods ≥ 1, so no division by zero). -/
theorem recurrences_continue (x : Ctx K) (period : Int) (input : String) (s prev old cur : Num K)
    (hp : 1 ≤ period)
    (hprev : x.prevReading x.name = .ok (.num prev))
    (ho : x.reading input (some (x.i - period)) = .ok (.num old))
    (hc : x.reading input = .ok (.num cur)) :
    (∃ n, Calc.sma x period input = .ok (.num n)) ∧ (∃ n, Calc.ema x period input s = .ok (.num n)) ∧
    (∃ n, Calc.rma x period input = .ok (.num n)) ∧ (∃ n, Calc.atr x period input = .ok (.num n)) := by
  have h1 : (1 : K) ≤ period := by exact_mod_cast hp
  have hp0 : (period : K) ≠ 0 := by intro h; rw [h] at h1; linarith
  have hp1 : (period : K) + 1 ≠ 0 := by intro h; linarith
  refine ⟨?_, ⟨_, ema_rec x period input s prev cur hprev hc hp1⟩, ⟨_, rma_rec x period input prev cur hprev hc hp0⟩,
    ⟨_, atr_rec x period input prev cur hprev hc hp0⟩⟩
  obtain ⟨n, h, _⟩ := sma_rec x period input prev old cur hprev ho hc hp0
  exact ⟨n, h⟩

example : ∃ n, Calc.sma (Demo.ctx "SMA_3") 3 "close" = .ok (.num n) :=
  (recurrences_continue (Demo.ctx "SMA_3") 3 "close" (fl 2) (.flt (37/3)) (.int 11) (.int 15) (by norm_num) rfl rfl rfl).1

/-! ### whole series: the leaf indicators never raise on any raw stream -/

/-- **Totality of the leaf indicators on every raw stream** (any prices, any volumes – zero
included –, any length, periods ≥ 2): the row-major run of SMA, EMA, RMA, WMA, VWMA, HLA, TR and
OBV returns; ROC returns when the input field is non-zero on every candle. -/
theorem leaf_series_total (p : Nat) (hp : 2 ≤ p) (nm : String) (n : Nat) (hk : IsKey nm)
    (raw : List (Candle K)) (hraw : ∀ c ∈ raw, Plain c) :
    (∃ out, rowMajor (mkTop (.sma p "close") nm n) raw = .ok out) ∧
    (∃ out, rowMajor (mkTop (.ema p "close" (fl 2)) nm n) raw = .ok out) ∧
    (∃ out, rowMajor (mkTop (.rma p "close") nm n) raw = .ok out) ∧
    (∃ out, rowMajor (mkTop (.wma p "close") nm n) raw = .ok out) ∧
    (∃ out, rowMajor (mkTop (.vwma p) nm n) raw = .ok out) ∧
    (∃ out, rowMajor (mkTop .hla nm n) raw = .ok out) ∧
    (∃ out, rowMajor (mkTop .tr nm n) raw = .ok out) ∧
    (∃ out, rowMajor (mkTop .obv nm n) raw = .ok out) ∧
    ((∀ j, j < raw.length → fieldAt (·.c) raw j ≠ 0) → ∃ out, rowMajor (mkTop (.roc p "close") nm n) raw = .ok out) := by
  have ha := ema_alpha_range (K := K) (p : Int) (by omega)
  have ha0 : 0 < (fl 2 : Num K).toF / ((p : K) + 1) := by simpa using ha.1
  have ha1 : (fl 2 : Num K).toF / ((p : K) + 1) ≤ 1 := by simpa using ha.2
  obtain ⟨v1, _, h1, _⟩ := sma_series p hp nm "close" (·.c) n hk noDot_close (fun _ => rfl) raw hraw
  obtain ⟨v2, _, h2, _⟩ := ema_series p hp (fl 2) nm "close" (·.c) n ha0 ha1 hk noDot_close (fun _ => rfl) raw hraw
  obtain ⟨v3, _, h3, _⟩ := rma_series p hp nm "close" (·.c) n hk noDot_close (fun _ => rfl) raw hraw
  obtain ⟨v4, _, h4, _⟩ := wma_series p hp nm "close" (·.c) n hk noDot_close (fun _ => rfl) raw hraw
  obtain ⟨v5, _, h5, _⟩ := vwma_series p hp nm n hk raw hraw
  obtain ⟨v6, _, h6, _⟩ := hla_series nm n hk raw hraw
  obtain ⟨v7, _, h7, _⟩ := tr_series nm n hk raw hraw
  obtain ⟨v8, _, h8, _⟩ := obv_series nm n hk raw hraw
  refine ⟨⟨_, h1⟩, ⟨_, h2⟩, ⟨_, h3⟩, ⟨_, h4⟩, ⟨_, h5⟩, ⟨_, h6⟩, ⟨_, h7⟩, ⟨_, h8⟩, fun hnz => ?_⟩
  obtain ⟨v9, _, h9, _⟩ := roc_series p (by omega) nm "close" (·.c) n hk noDot_close (fun _ => rfl) raw hraw hnz
  exact ⟨_, h9⟩

/-- flat, zero-volume candles (what gap filling inserts) -/
def flatRaw : List (Candle ℚ) :=
  [Demo.mk 7 7 7 7 0, Demo.mk 7 7 7 7 0, Demo.mk 7 7 7 7 0, Demo.mk 7 7 7 7 0]

theorem flatRaw_plain : ∀ c ∈ flatRaw, Plain c := by
  intro c hc
  simp only [flatRaw, List.mem_cons, List.not_mem_nil, or_false] at hc
  rcases hc with rfl | rfl | rfl | rfl <;> exact ⟨rfl, rfl⟩

example : ∃ out, rowMajor (mkTop (.vwma (2 : Nat)) "VWMA_2" 4) flatRaw = .ok out :=
  (leaf_series_total 2 (by norm_num) "VWMA_2" 4 (by decide) flatRaw flatRaw_plain).2.2.2.2.1

/-- **No gaps after warm-up (SMA)**: on every raw stream every index from `period − 1` on holds a
float, every earlier index `None`. -/
theorem sma_no_gaps (p : Nat) (hp : 2 ≤ p) (nm : String) (n : Nat) (hk : IsKey nm)
    (raw : List (Candle K)) (hraw : ∀ c ∈ raw, Plain c) :
    ∃ vs : List (Val K), vs.length = raw.length ∧
      rowMajor (mkTop (.sma p "close") nm n) raw = .ok (deco nm raw vs) ∧
      ∀ j, j < raw.length → (j + 1 < p → vs.getD j .none = .none) ∧ (p ≤ j + 1 → ∃ y, vs.getD j .none = .flt y) := by
  obtain ⟨vs, h1, h2, h3⟩ := sma_series p hp nm "close" (·.c) n hk noDot_close (fun _ => rfl) raw hraw
  refine ⟨vs, h1, h2, fun j hj => ⟨(h3 j hj).1, fun h => ?_⟩⟩
  obtain ⟨y, hy, _⟩ := (h3 j hj).2 h
  exact ⟨y, hy⟩

/-- every value of the carrier is finite – true in a field by class law; for IEEE doubles this
is the trusted gap (overflow / NaN are checked by the correspondence runs, not proved) -/
theorem finite_in_field (a : K) : PyF.isFinite a = true := LawfulPyF.isFinite_eq a

/-- a well-formed candle: positive prices, `low ≤ open, close ≤ high`, non-negative volume -/
structure WellFormedCandle (c : Candle K) : Prop where
  pos : 0 < c.l.toF
  lo : c.l.toF ≤ c.o.toF ∧ c.l.toF ≤ c.c.toF
  hi : c.o.toF ≤ c.h.toF ∧ c.c.toF ≤ c.h.toF
  vol : 0 ≤ c.v.toF

/-- the period parameters of a kind -/
def periodsOf : Kind K → List Int
  | .sma p _ | .ema p _ _ | .rma p _ | .wma p _ | .vwma p | .hma p _ | .atr p | .stdev p _
  | .bbands p _ | .kc p _ _ | .donchian p | .hl p | .supertrend p _ _ | .stdevthres p _ _
  | .rsi p _ | .roc p _ | .aroon p | .vwap p => [p]
  | .macd f s g _ => [f, s, g]
  | .stoch p s k _ => [p, s, k]
  | .tsi p s _ => [p, s]
  | .adx p s => [p, s]
  | _ => []

/-! ## whole histories: never raises, no gaps – on every manager with an incremental spec

Vocabulary (definitions in HexProofs/Numeric/Total.lean, unfolded here by `Iff.rfl`). -/

/-- `NeverRaises M ind`: every history on manager `M` returns -/
theorem neverRaises_iff (M : MgrSpec K) (ind : Ind K) :
    NeverRaises M ind ↔ ∀ (init : List (Candle K)) (chunks : List (List (Candle K))),
      M.Ok (init ++ chunks.flatten) → ∃ snap, candlesOf (runIndicator ind M.cfg init chunks) = .ok snap :=
  Iff.rfl

/-- … on the base timeframe: every stream of raw-shaped candles, every append schedule -/
theorem neverRaises_base (ind : Ind K) :
    NeverRaises (MgrSpec.base K) ind ↔ ∀ (init : List (Candle K)) (chunks : List (List (Candle K))),
      (∀ c ∈ init ++ chunks.flatten, Plain c) → ∃ snap, candlesOf (runIndicator ind {} init chunks) = .ok snap :=
  Iff.rfl

/-- … on a collapsing timeframe: every time-sorted raw stream, every append schedule (every append
re-collapses the open bucket) -/
theorem neverRaises_tf (tf : Int) (htf : 0 < tf) (ind : Ind K) :
    NeverRaises (MgrSpec.tf K tf htf) ind ↔ ∀ (init : List (Candle K)) (chunks : List (List (Candle K))),
      RawTf (init ++ chunks.flatten) → ∃ snap, candlesOf (runIndicator ind (cfgTf tf) init chunks) = .ok snap :=
  Iff.rfl

/-- … on a collapsing timeframe with gap filling (fill candles are more raw-shaped candles) -/
theorem neverRaises_fill (tf : Int) (htf : 0 < tf) (ind : Ind K) :
    NeverRaises (MgrSpec.fill K tf htf) ind ↔ ∀ (init : List (Candle K)) (chunks : List (List (Candle K))),
      RawTf (init ++ chunks.flatten) → ∃ snap, candlesOf (runIndicator ind (cfgFill tf) init chunks) = .ok snap :=
  Iff.rfl

/-- the batch run (construct over the whole stream, `calculate()` once) is the history without appends -/
theorem neverRaises_batch (M : MgrSpec K) (ind : Ind K) (h : NeverRaises M ind) (stream : List (Candle K))
    (hok : M.Ok stream) : ∃ out, candlesOf (runIndicator ind M.cfg stream []) = .ok out :=
  h.batch stream hok

/-- `Always M ind P`: whatever a history on `M` returns satisfies `P` relative to what the manager
makes of the whole stream (`M.spec`: the stream itself on the base timeframe, `resample tf` /
`fillSpec tf` of it otherwise) -/
theorem always_iff (M : MgrSpec K) (ind : Ind K) (P : List (Candle K) → List (Candle K) → Prop) :
    Always M ind P ↔ ∀ (init : List (Candle K)) (chunks : List (List (Candle K))),
      M.Ok (init ++ chunks.flatten) → ∀ snap, candlesOf (runIndicator ind M.cfg init chunks) = .ok snap →
        P (M.spec (init ++ chunks.flatten)) snap :=
  Iff.rfl

theorem spec_base (s : List (Candle K)) : (MgrSpec.base K).spec s = s := rfl
theorem spec_tf (tf : Int) (htf : 0 < tf) (s : List (Candle K)) : (MgrSpec.tf K tf htf).spec s = resample tf s := rfl
theorem spec_fill (tf : Int) (htf : 0 < tf) (s : List (Candle K)) : (MgrSpec.fill K tf htf).spec s = fillSpec tf s := rfl

omit [Field K] [LinearOrder K] [IsStrictOrderedRing K] [LawfulPyF K] in
/-- **no gaps**, unfolded: one output candle per manager candle; the reading `rd` is `None` on the
candles `0 … w−1` and a number on EVERY candle from the warm-up index `w` on -/
theorem noGaps_iff (rd : Candle K → Val K) (w : Nat) (raw out : List (Candle K)) :
    NoGaps rd w raw out ↔ out.length = raw.length ∧ ∀ j, j < out.length →
      (j < w → rd (out.getD j default) = .none) ∧ (w ≤ j → ∃ x : Num K, rd (out.getD j default) = .num x) :=
  Iff.rfl

omit [Field K] [LinearOrder K] [IsStrictOrderedRing K] [LawfulPyF K] in
/-- … with floats (all kinds but the type-preserving ones: VWAP, Donchian, HighestLowest, Counter, TR, OBV) -/
theorem noGapsFlt_iff (rd : Candle K → Val K) (w : Nat) (raw out : List (Candle K)) :
    NoGapsFlt rd w raw out ↔ out.length = raw.length ∧ ∀ j, j < out.length →
      (j < w → rd (out.getD j default) = .none) ∧ (w ≤ j → ∃ y : K, rd (out.getD j default) = .flt y) :=
  Iff.rfl

/-- the readers: the own reading of `nm`, and field `f` of its dict reading (`reading("nm.f")`) -/
theorem own_eq (nm : String) (c : Candle K) : own nm c = readingByCandle c nm := rfl
theorem fieldOf_eq (nm f : String) (c : Candle K) : fieldOf nm f c = (readingByCandle c nm).nested f := rfl

/-- **once produced, produced on every later candle** -/
theorem no_gaps_later (rd : Candle K → Val K) (w : Nat) (raw out : List (Candle K)) (h : NoGaps rd w raw out)
    (i j : Nat) (hij : i ≤ j) (hj : j < out.length) (hi : rd (out.getD i default) ≠ .none) :
    ∃ x : Num K, rd (out.getD j default) = .num x :=
  h.later i j hij hj hi

/-- a float reading is a number reading -/
theorem noGapsFlt_noGaps (rd : Candle K → Val K) (w : Nat) (raw out : List (Candle K))
    (h : NoGapsFlt rd w raw out) : NoGaps rd w raw out := h.num

/-! ### ATR, RSI, STDEV, TSI, HMA, VWAP (scalar readings) -/

section scalar
variable (M : MgrSpec K)

/-- **ATR never raises** (`period ≥ 1`): batch run and every append schedule, on every manager -/
theorem atr_never_raises (p : Nat) (hp : 1 ≤ p) (nm : String) (n : Nat) (hk : IsKey nm) (hn : AtrNames nm) :
    NeverRaises M (mkTop (.atr (p : Int) : Kind K) nm n) := (atr_live_total M p hp nm n hk hn).1

/-- **ATR has no gaps**: `None` on candles `0 … p−1` (TR needs a previous close), a float from `p` on -/
theorem atr_no_gaps (p : Nat) (hp : 1 ≤ p) (nm : String) (n : Nat) (hk : IsKey nm) (hn : AtrNames nm) :
    Always M (mkTop (.atr (p : Int) : Kind K) nm n) (NoGapsFlt (own nm) p) := (atr_live_total M p hp nm n hk hn).2

/-- **RSI never raises** (`period ≥ 1`, input a candle field) – whatever the gains and losses -/
theorem rsi_never_raises (p : Nat) (hp : 1 ≤ p) (nm input : String) (fld : Candle K → Num K) (n : Nat)
    (hn : RsiNames nm) (hk : IsKey nm) (hin : NoDot input ∧ input ∈ Candle.attrNames)
    (hattr : ∀ c : Candle K, c.attr input = some (.num (fld c))) :
    NeverRaises M (mkTop (.rsi (p : Int) input : Kind K) nm n) :=
  (rsi_live_total M p hp nm input fld n hn hk hin hattr).1

/-- **RSI has no gaps**: warm-up index `p` -/
theorem rsi_no_gaps (p : Nat) (hp : 1 ≤ p) (nm input : String) (fld : Candle K → Num K) (n : Nat)
    (hn : RsiNames nm) (hk : IsKey nm) (hin : NoDot input ∧ input ∈ Candle.attrNames)
    (hattr : ∀ c : Candle K, c.attr input = some (.num (fld c))) :
    Always M (mkTop (.rsi (p : Int) input : Kind K) nm n) (NoGapsFlt (own nm) p) :=
  (rsi_live_total M p hp nm input fld n hn hk hin hattr).2

/-- **STDEV never raises** (`period ≥ 1`): the running variance is clamped before `sqrt` -/
theorem stdev_never_raises (p : Nat) (hp : 1 ≤ p) (nm input : String) (fld : Candle K → Num K) (n : Nat)
    (hn : SdNames nm) (hin : NoDot input ∧ input ∈ Candle.attrNames)
    (hattr : ∀ c : Candle K, c.attr input = some (.num (fld c))) :
    NeverRaises M (mkTop (.stdev (p : Int) input : Kind K) nm n) :=
  (stdev_live_total M p hp nm input fld n hn hin hattr).1

/-- **STDEV has no gaps**: warm-up index `p` (the library waits for `p + 1` inputs) -/
theorem stdev_no_gaps (p : Nat) (hp : 1 ≤ p) (nm input : String) (fld : Candle K → Num K) (n : Nat)
    (hn : SdNames nm) (hin : NoDot input ∧ input ∈ Candle.attrNames)
    (hattr : ∀ c : Candle K, c.attr input = some (.num (fld c))) :
    Always M (mkTop (.stdev (p : Int) input : Kind K) nm n) (NoGapsFlt (own nm) p) :=
  (stdev_live_total M p hp nm input fld n hn hin hattr).2

/-- **TSI never raises** (`period ≥ 1`, `smooth ≥ 1`) – zero denominators included -/
theorem tsi_never_raises (nm : String) (n p s : Nat) (input : String) (fld : Candle K → Num K)
    (hp : 1 ≤ p) (hs : 1 ≤ s) (hn : TsiNames nm) (hin : NoDot input ∧ input ∈ Candle.attrNames)
    (hattr : ∀ c : Candle K, c.attr input = some (.num (fld c))) :
    NeverRaises M (mkTop (.tsi (p : Int) (s : Int) input : Kind K) nm n) :=
  (tsi_live_total M nm n p s input fld hp hs hn hin hattr).1

/-- **TSI has no gaps**: warm-up index `p + smooth − 1` -/
theorem tsi_no_gaps (nm : String) (n p s : Nat) (input : String) (fld : Candle K → Num K)
    (hp : 1 ≤ p) (hs : 1 ≤ s) (hn : TsiNames nm) (hin : NoDot input ∧ input ∈ Candle.attrNames)
    (hattr : ∀ c : Candle K, c.attr input = some (.num (fld c))) :
    Always M (mkTop (.tsi (p : Int) (s : Int) input : Kind K) nm n) (NoGapsFlt (own nm) (p + s - 1)) :=
  (tsi_live_total M nm n p s input fld hp hs hn hin hattr).2

/-- **HMA never raises** (`period ≥ 2`) -/
theorem hma_never_raises (p : Nat) (hp : 2 ≤ p) (nm input : String) (fld : Candle K → Num K) (n : Nat)
    (hn : HmaNames nm) (hin : NoDot input ∧ input ∈ Candle.attrNames)
    (hattr : ∀ c : Candle K, c.attr input = some (.num (fld c))) :
    NeverRaises M (mkTop (.hma (p : Int) input : Kind K) nm n) :=
  (hma_live_total M p hp nm input fld n hn hin hattr).1

/-- **HMA has no gaps**: warm-up index `(p − 1) + (⌊√p⌋ − 1)` -/
theorem hma_no_gaps (p : Nat) (hp : 2 ≤ p) (nm input : String) (fld : Candle K → Num K) (n : Nat)
    (hn : HmaNames nm) (hin : NoDot input ∧ input ∈ Candle.attrNames)
    (hattr : ∀ c : Candle K, c.attr input = some (.num (fld c))) :
    Always M (mkTop (.hma (p : Int) input : Kind K) nm n) (NoGapsFlt (own nm) (p + Nat.sqrt p - 2)) :=
  (hma_live_total M p hp nm input fld n hn hin hattr).2

/-- **VWAP never raises** (any period: the formula does not use it) – zero cumulative volume included -/
theorem vwap_never_raises (p : Int) (nm : String) (n : Nat) (hn : VwapNames nm) :
    NeverRaises M (mkTop (.vwap p : Kind K) nm n) := (vwap_live_total M p nm n hn).1

/-- **VWAP has no gaps**: a number on EVERY candle (no warm-up; an int `pv` stays an int while the
cumulative volume is 0) -/
theorem vwap_no_gaps (p : Int) (nm : String) (n : Nat) (hn : VwapNames nm) :
    Always M (mkTop (.vwap p : Kind K) nm n) (NoGaps (own nm) 0) := (vwap_live_total M p nm n hn).2

end scalar

/-! ### KC, BBANDS, MACD, STOCH, ADX, Supertrend (dict readings: field by field) -/

section dicts
variable (M : MgrSpec K)

/-- three fields sharing one warm-up index / with their own warm-up indices, unfolded -/
theorem noGaps3_iff (nm f₁ f₂ f₃ : String) (w : Nat) (raw out : List (Candle K)) :
    NoGaps3 nm f₁ f₂ f₃ w raw out ↔ NoGapsFlt (fieldOf nm f₁) w raw out ∧ NoGapsFlt (fieldOf nm f₂) w raw out ∧
      NoGapsFlt (fieldOf nm f₃) w raw out := Iff.rfl
theorem noGapsW3_iff (nm f₁ f₂ f₃ : String) (w₁ w₂ w₃ : Nat) (raw out : List (Candle K)) :
    NoGapsW3 nm f₁ f₂ f₃ w₁ w₂ w₃ raw out ↔ NoGapsFlt (fieldOf nm f₁) w₁ raw out ∧
      NoGapsFlt (fieldOf nm f₂) w₂ raw out ∧ NoGapsFlt (fieldOf nm f₃) w₃ raw out := Iff.rfl

/-- **KC never raises** (`period ≥ 2`) – zero ATR (flat candles) included -/
theorem kc_never_raises (p : Nat) (hp : 2 ≤ p) (nm input : String) (fld : Candle K → Num K) (n : Nat)
    (mult : Num K) (hk : IsKey nm) (hn : KcNames nm) (hin : NoDot input ∧ input ∈ Candle.attrNames)
    (hattr : ∀ c : Candle K, c.attr input = some (.num (fld c))) :
    NeverRaises M (mkTop (.kc (p : Int) input mult : Kind K) nm n) :=
  (kc_live_total M p hp nm input fld n mult hk hn hin hattr).1

/-- **KC has no gaps**: `lower`, `band`, `upper` from index `p` (the ATR helper's warm-up; the
reading is the dict of three `None`s before) -/
theorem kc_no_gaps (p : Nat) (hp : 2 ≤ p) (nm input : String) (fld : Candle K → Num K) (n : Nat)
    (mult : Num K) (hk : IsKey nm) (hn : KcNames nm) (hin : NoDot input ∧ input ∈ Candle.attrNames)
    (hattr : ∀ c : Candle K, c.attr input = some (.num (fld c))) :
    Always M (mkTop (.kc (p : Int) input mult : Kind K) nm n) (NoGaps3 nm "lower" "band" "upper" p) :=
  (kc_live_total M p hp nm input fld n mult hk hn hin hattr).2

/-- **BBANDS never raises** (`period ≥ 2`) -/
theorem bbands_never_raises (p : Nat) (hp : 2 ≤ p) (nm input : String) (fld : Candle K → Num K) (n : Nat)
    (hk : IsKey nm) (hn : BbNames nm) (hin : NoDot input ∧ input ∈ Candle.attrNames)
    (hattr : ∀ c : Candle K, c.attr input = some (.num (fld c))) :
    NeverRaises M (mkTop (.bbands (p : Int) input : Kind K) nm n) :=
  (bb_live_total M p hp nm input fld n hk hn hin hattr).1

/-- **BBANDS has no gaps**: `BBL`, `BBM`, `BBU` from index `p` (the STDEV helper's warm-up) -/
theorem bbands_no_gaps (p : Nat) (hp : 2 ≤ p) (nm input : String) (fld : Candle K → Num K) (n : Nat)
    (hk : IsKey nm) (hn : BbNames nm) (hin : NoDot input ∧ input ∈ Candle.attrNames)
    (hattr : ∀ c : Candle K, c.attr input = some (.num (fld c))) :
    Always M (mkTop (.bbands (p : Int) input : Kind K) nm n) (NoGaps3 nm "BBL" "BBM" "BBU" p) :=
  (bb_live_total M p hp nm input fld n hk hn hin hattr).2

/-- **MACD never raises** (`2 ≤ fast ≤ slow`, `signal ≥ 1`) -/
theorem macd_never_raises (nm : String) (n pf ps pg : Nat) (input : String) (fld : Candle K → Num K)
    (hf : 2 ≤ pf) (hfs : pf ≤ ps) (hg : 1 ≤ pg) (hn : MacdNames nm)
    (hin : NoDot input ∧ input ∈ Candle.attrNames)
    (hattr : ∀ c : Candle K, c.attr input = some (.num (fld c))) :
    NeverRaises M (mkTop (.macd (pf : Int) (ps : Int) (pg : Int) input : Kind K) nm n) :=
  (macd_live_total M nm n pf ps pg input fld hf hfs hg hn hin hattr).1

/-- **MACD has no gaps**: `MACD` from `slow − 1`, `signal` and `histogram` from `slow + signal − 2` -/
theorem macd_no_gaps (nm : String) (n pf ps pg : Nat) (input : String) (fld : Candle K → Num K)
    (hf : 2 ≤ pf) (hfs : pf ≤ ps) (hg : 1 ≤ pg) (hn : MacdNames nm)
    (hin : NoDot input ∧ input ∈ Candle.attrNames)
    (hattr : ∀ c : Candle K, c.attr input = some (.num (fld c))) :
    Always M (mkTop (.macd (pf : Int) (ps : Int) (pg : Int) input : Kind K) nm n)
      (NoGapsW3 nm "MACD" "signal" "histogram" (ps - 1) (ps + pg - 2) (ps + pg - 2)) :=
  (macd_live_total M nm n pf ps pg input fld hf hfs hg hn hin hattr).2

/-- **STOCH never raises** (`period ≥ 2`, `smoothK ≥ 1`, `slow ≥ 1`) – flat windows included -/
theorem stoch_never_raises (p sk sl : Nat) (hp : 2 ≤ p) (hsk : 1 ≤ sk) (hsl : 1 ≤ sl) (nm input : String)
    (fld : Candle K → Num K) (n : Nat) (hn : StochNames nm) (hin : NoDot input ∧ input ∈ Candle.attrNames)
    (hattr : ∀ c : Candle K, c.attr input = some (.num (fld c))) :
    NeverRaises M (mkTop (.stoch (p : Int) (sl : Int) (sk : Int) input : Kind K) nm n) :=
  (stoch_live_total M p sk sl hp hsk hsl nm input fld n hn hin hattr).1

/-- **STOCH has no gaps**: `stoch` from `p − 1`, `k` from `p + smoothK − 2`, `d` from
`p + smoothK + slow − 3` -/
theorem stoch_no_gaps (p sk sl : Nat) (hp : 2 ≤ p) (hsk : 1 ≤ sk) (hsl : 1 ≤ sl) (nm input : String)
    (fld : Candle K → Num K) (n : Nat) (hn : StochNames nm) (hin : NoDot input ∧ input ∈ Candle.attrNames)
    (hattr : ∀ c : Candle K, c.attr input = some (.num (fld c))) :
    Always M (mkTop (.stoch (p : Int) (sl : Int) (sk : Int) input : Kind K) nm n)
      (NoGapsW3 nm "stoch" "k" "d" (p - 1) (p + sk - 2) (p + sk + sl - 3)) :=
  (stoch_live_total M p sk sl hp hsk hsl nm input fld n hn hin hattr).2

/-- **ADX never raises** (`period ≥ 1`, `signal ≥ 1`) – zero ATR and zero DI sum included -/
theorem adx_never_raises (nm : String) (n p sg : Nat) (hp : 1 ≤ p) (hg : 1 ≤ sg) (hn : AdxNames nm) :
    NeverRaises M (mkTop (.adx (p : Int) (sg : Int) : Kind K) nm n) := (adx_live_total M nm n p sg hp hg hn).1

/-- **ADX has no gaps**: `DM_Plus`, `DM_Neg` from `p`, `ADX` from `p + signal − 1` -/
theorem adx_no_gaps (nm : String) (n p sg : Nat) (hp : 1 ≤ p) (hg : 1 ≤ sg) (hn : AdxNames nm) :
    Always M (mkTop (.adx (p : Int) (sg : Int) : Kind K) nm n)
      (NoGapsW3 nm "ADX" "DM_Plus" "DM_Neg" (p + sg - 1) p p) := (adx_live_total M nm n p sg hp hg hn).2

/-- what "no gaps" means for Supertrend, unfolded: `trend` from `p`; `direction` on every candle;
`long` / `short` both `None` below `p` and EXACTLY ONE of them a number from `p` on (by design) -/
theorem stNoGaps_iff (nm : String) (p : Nat) (raw out : List (Candle K)) :
    StNoGaps nm p raw out ↔
      NoGaps (fieldOf nm "trend") p raw out ∧ NoGaps (fieldOf nm "direction") 0 raw out ∧
      ∀ j, j < out.length →
        (j < p → fieldOf nm "long" (out.getD j default) = .none ∧ fieldOf nm "short" (out.getD j default) = .none) ∧
        (p ≤ j →
          ((∃ x : Num K, fieldOf nm "long" (out.getD j default) = .num x) ∧
            fieldOf nm "short" (out.getD j default) = .none) ∨
          ((∃ x : Num K, fieldOf nm "short" (out.getD j default) = .num x) ∧
            fieldOf nm "long" (out.getD j default) = .none)) :=
  Iff.rfl

/-- **Supertrend never raises** (`period ≥ 1`) – zero ATR included -/
theorem supertrend_never_raises (p : Nat) (hp : 1 ≤ p) (nm input : String) (mult : Num K) (n : Nat)
    (hn : StNames nm) (hk : IsKey nm) :
    NeverRaises M (mkTop (.supertrend (p : Int) input mult : Kind K) nm n) :=
  (st_live_total M p hp nm input mult n hn hk).1

/-- **Supertrend has no gaps** in `trend` / `direction`; `long` / `short` are one-sided by design -/
theorem supertrend_no_gaps (p : Nat) (hp : 1 ≤ p) (nm input : String) (mult : Num K) (n : Nat)
    (hn : StNames nm) (hk : IsKey nm) :
    Always M (mkTop (.supertrend (p : Int) input mult : Kind K) nm n) (StNoGaps nm p) :=
  (st_live_total M p hp nm input mult n hn hk).2

end dicts

/-! ### Donchian, HighestLowest, Aroon, Counter, STDEVTHRES -/

section windows
variable (M : MgrSpec K)

/-- **Donchian never raises** (`period ≥ 2`) -/
theorem donchian_never_raises (p : Nat) (hp : 2 ≤ p) (nm : String) (n : Nat) (hn : DcNames nm) :
    NeverRaises M (mkTop (.donchian p : Kind K) nm n) := (donchian_live_total M p hp nm n hn).1

/-- **Donchian has no gaps**: `DCL`, `DCM`, `DCU` from `p − 1` (the bounds keep their type) -/
theorem donchian_no_gaps (p : Nat) (hp : 2 ≤ p) (nm : String) (n : Nat) (hn : DcNames nm) :
    Always M (mkTop (.donchian p : Kind K) nm n)
      (fun raw out => NoGaps (fieldOf nm "DCL") (p - 1) raw out ∧ NoGaps (fieldOf nm "DCM") (p - 1) raw out ∧
        NoGaps (fieldOf nm "DCU") (p - 1) raw out) := (donchian_live_total M p hp nm n hn).2

/-- **HighestLowest never raises** (`period ≥ 1`) -/
theorem highestLowest_never_raises (p : Nat) (hp : 1 ≤ p) (nm : String) (n : Nat) (hk : IsKey nm) :
    NeverRaises M (mkTop (.hl p : Kind K) nm n) := (hl_live_total M p hp nm n hk).1

/-- **HighestLowest has no gaps**: `low`, `high` on EVERY candle (no warm-up) -/
theorem highestLowest_no_gaps (p : Nat) (hp : 1 ≤ p) (nm : String) (n : Nat) (hk : IsKey nm) :
    Always M (mkTop (.hl p : Kind K) nm n)
      (fun raw out => NoGaps (fieldOf nm "low") 0 raw out ∧ NoGaps (fieldOf nm "high") 0 raw out) :=
  (hl_live_total M p hp nm n hk).2

/-- **Aroon never raises** (`period ≥ 1`: the division is by the period) -/
theorem aroon_never_raises (p : Nat) (hp : 1 ≤ p) (nm : String) (n : Nat) (hk : IsKey nm) :
    NeverRaises M (mkTop (.aroon p : Kind K) nm n) := (aroon_live_total M p hp nm n hk).1

/-- **Aroon has no gaps**: `AROONU`, `AROOND`, `AROONOSC` from `p` -/
theorem aroon_no_gaps (p : Nat) (hp : 1 ≤ p) (nm : String) (n : Nat) (hk : IsKey nm) :
    Always M (mkTop (.aroon p : Kind K) nm n) (NoGaps3 nm "AROONU" "AROOND" "AROONOSC" p) :=
  (aroon_live_total M p hp nm n hk).2

/-- **STDEVTHRES never raises** (`period ≥ 1`, any multiplier) -/
theorem stdevthres_never_raises (p : Nat) (hp : 1 ≤ p) (nm input : String) (fld : Candle K → Num K)
    (mult : Num K) (n : Nat) (hk : IsKey nm) (hn : ThresNames nm) (hin : NoDot input ∧ input ∈ Candle.attrNames)
    (hattr : ∀ c : Candle K, c.attr input = some (.num (fld c))) :
    NeverRaises M (mkTop (.stdevthres (p : Int) input mult : Kind K) nm n) :=
  (thres_live_total M p hp nm input fld mult n hk hn hin hattr).1

/-- **STDEVTHRES has no gaps**: a bool on EVERY candle – never `None` –, `False` on candles `0 … p−1` -/
theorem stdevthres_no_gaps (p : Nat) (hp : 1 ≤ p) (nm input : String) (fld : Candle K → Num K)
    (mult : Num K) (n : Nat) (hk : IsKey nm) (hn : ThresNames nm) (hin : NoDot input ∧ input ∈ Candle.attrNames)
    (hattr : ∀ c : Candle K, c.attr input = some (.num (fld c))) :
    Always M (mkTop (.stdevthres (p : Int) input mult : Kind K) nm n)
      (fun raw out => out.length = raw.length ∧ ∀ j, j < out.length →
        ∃ b : Bool, own nm (out.getD j default) = .bool b ∧ (j < p → b = false)) :=
  (thres_live_total M p hp nm input fld mult n hk hn hin hattr).2

end windows

/-- **Counter never raises** – for EVERY float carrier `F` (no field needed: the executed IEEE
`Float` instance included) -/
theorem counter_never_raises {F : Type} [PyF F] (M : MgrSpec F) (nm input : String) (fld : Candle F → Num F)
    (cv : Scalar F) (n : Nat) (hk : IsKey nm) (hin : AttrInput input)
    (hattr : ∀ c : Candle F, c.attr input = some (.num (fld c))) :
    NeverRaises M (mkTop (.counter input cv) nm n) := (counter_live_total M nm input fld cv n hk hin hattr).1

/-- **Counter has no gaps**: a Python int on EVERY candle, from candle 0 on -/
theorem counter_no_gaps {F : Type} [PyF F] (M : MgrSpec F) (nm input : String) (fld : Candle F → Num F)
    (cv : Scalar F) (n : Nat) (hk : IsKey nm) (hin : AttrInput input)
    (hattr : ∀ c : Candle F, c.attr input = some (.num (fld c))) :
    Always M (mkTop (.counter input cv) nm n) (NoGaps (own nm) 0) :=
  (counter_live_total M nm input fld cv n hk hin hattr).2

/-! ### the leaf indicators, now through the object and on every manager -/

/-- **SMA, EMA, RMA, WMA, VWMA, HLA, TR, OBV never raise** (`period ≥ 2`): `leaf_series_total` lifted
from the row-major run to every history on every manager (ROC: only for a non-zero input, see
`leaf_series_total` / `roc_raises_on_zero`) -/
theorem leaves_never_raise (M : MgrSpec K) (p : Nat) (hp : 2 ≤ p) (nm : String) (n : Nat) (hk : IsKey nm) :
    NeverRaises M (mkTop (.sma p "close" : Kind K) nm n) ∧
    NeverRaises M (mkTop (.ema p "close" (fl 2) : Kind K) nm n) ∧
    NeverRaises M (mkTop (.rma p "close" : Kind K) nm n) ∧
    NeverRaises M (mkTop (.wma p "close" : Kind K) nm n) ∧
    NeverRaises M (mkTop (.vwma p : Kind K) nm n) ∧
    NeverRaises M (mkTop (.hla : Kind K) nm n) ∧
    NeverRaises M (mkTop (.tr : Kind K) nm n) ∧
    NeverRaises M (mkTop (.obv : Kind K) nm n) :=
  ⟨(sma_live_total M p hp nm "close" (·.c) n hk ⟨noDot_close, by decide⟩ (fun _ => rfl)).1,
   (ema_live_total M p hp nm "close" (·.c) n hk ⟨noDot_close, by decide⟩ (fun _ => rfl)).1,
   (rma_live_total M p hp nm "close" (·.c) n hk ⟨noDot_close, by decide⟩ (fun _ => rfl)).1,
   (wma_live_total M p hp nm "close" (·.c) n hk ⟨noDot_close, by decide⟩ (fun _ => rfl)).1,
   (vwma_live_total M p hp nm n hk).1, (hla_live_total M nm n hk).1, (tr_live_total M nm n hk).1,
   (obv_live_total M nm n hk).1⟩

/-- **… and have no gaps**: the moving averages from `p − 1`, HLA and OBV from candle 0, TR from
candle 1 (it needs a previous close) -/
theorem leaves_no_gaps (M : MgrSpec K) (p : Nat) (hp : 2 ≤ p) (nm : String) (n : Nat) (hk : IsKey nm) :
    Always M (mkTop (.sma p "close" : Kind K) nm n) (NoGapsFlt (own nm) (p - 1)) ∧
    Always M (mkTop (.ema p "close" (fl 2) : Kind K) nm n) (NoGapsFlt (own nm) (p - 1)) ∧
    Always M (mkTop (.rma p "close" : Kind K) nm n) (NoGapsFlt (own nm) (p - 1)) ∧
    Always M (mkTop (.wma p "close" : Kind K) nm n) (NoGapsFlt (own nm) (p - 1)) ∧
    Always M (mkTop (.vwma p : Kind K) nm n) (NoGapsFlt (own nm) (p - 1)) ∧
    Always M (mkTop (.hla : Kind K) nm n) (NoGapsFlt (own nm) 0) ∧
    Always M (mkTop (.tr : Kind K) nm n) (NoGaps (own nm) 1) ∧
    Always M (mkTop (.obv : Kind K) nm n) (NoGaps (own nm) 0) :=
  ⟨(sma_live_total M p hp nm "close" (·.c) n hk ⟨noDot_close, by decide⟩ (fun _ => rfl)).2,
   (ema_live_total M p hp nm "close" (·.c) n hk ⟨noDot_close, by decide⟩ (fun _ => rfl)).2,
   (rma_live_total M p hp nm "close" (·.c) n hk ⟨noDot_close, by decide⟩ (fun _ => rfl)).2,
   (wma_live_total M p hp nm "close" (·.c) n hk ⟨noDot_close, by decide⟩ (fun _ => rfl)).2,
   (vwma_live_total M p hp nm n hk).2, (hla_live_total M nm n hk).2, (tr_live_total M nm n hk).2,
   (obv_live_total M nm n hk).2⟩

/-! ### non-vacuity: the five demo candles (`atrDemoRaw` = `C04.demoRaw`; the last two have zero
volume, the last one is flat) -/

/-- `MACD(2, 3, 2)` on `close`: the batch run returns, and so does the candle-by-candle history -/
example :
    (∃ out, candlesOf (runIndicator
      (mkTop (.macd ((2 : Nat) : Int) ((3 : Nat) : Int) ((2 : Nat) : Int) "close" : Kind ℚ) "MACD_2_3_2" 4)
      {} atrDemoRaw []) = .ok out) ∧
    (∃ snap, candlesOf (runIndicator
      (mkTop (.macd ((2 : Nat) : Int) ((3 : Nat) : Int) ((2 : Nat) : Int) "close" : Kind ℚ) "MACD_2_3_2" 4)
      {} [] (atrDemoRaw.map fun c => [c])) = .ok snap) := by
  have h := macd_never_raises (MgrSpec.base ℚ) "MACD_2_3_2" 4 2 3 2 "close" (·.c) (by norm_num) (by norm_num)
    (by norm_num) macdNames_demo ⟨noDot_close, by decide⟩ (fun _ => rfl)
  exact ⟨neverRaises_batch _ _ h atrDemoRaw atrDemoRaw_plain, h [] _ atrDemoRaw_plain⟩

/-- … and whatever it returns has five candles; `MACD` is `None` on candle 1 and a float on candles
2, 3, 4 (warm-up index `slow − 1 = 2`); `histogram` is a float on candles 3, 4 (`slow + signal − 2 = 3`) -/
example (out : List (Candle ℚ))
    (hout : candlesOf (runIndicator
      (mkTop (.macd ((2 : Nat) : Int) ((3 : Nat) : Int) ((2 : Nat) : Int) "close" : Kind ℚ) "MACD_2_3_2" 4)
      {} atrDemoRaw []) = .ok out) :
    out.length = 5 ∧ fieldOf "MACD_2_3_2" "MACD" (out.getD 1 default) = .none ∧
    (∃ y : ℚ, fieldOf "MACD_2_3_2" "MACD" (out.getD 2 default) = .flt y) ∧
    fieldOf "MACD_2_3_2" "histogram" (out.getD 2 default) = .none ∧
    (∃ y : ℚ, fieldOf "MACD_2_3_2" "histogram" (out.getD 4 default) = .flt y) := by
  have h := (macd_no_gaps (MgrSpec.base ℚ) "MACD_2_3_2" 4 2 3 2 "close" (·.c) (by norm_num) (by norm_num)
    (by norm_num) macdNames_demo ⟨noDot_close, by decide⟩ (fun _ => rfl)).batch atrDemoRaw atrDemoRaw_plain out hout
  obtain ⟨⟨hl, hm⟩, _, ⟨_, hh⟩⟩ := h
  have hl5 : out.length = 5 := hl
  exact ⟨hl5, (hm 1 (by omega)).1 (by norm_num), (hm 2 (by omega)).2 (by norm_num),
    (hh 2 (by omega)).1 (by norm_num), (hh 4 (by omega)).2 (by norm_num)⟩

/-- the same five candles with one-minute stamps, on a two-minute timeframe WITH gap filling,
fed one candle at a time: ADX(2, 2) and Supertrend(2, ×3) return -/
def stamped : List (Candle ℚ) :=
  [ { Demo.mk 10 12 9 11 100 with ts := some 60 }, { Demo.mk 11 13 10 12 200 with ts := some 120 },
    { Demo.mk 12 15 11 14 300 with ts := some 180 }, { Demo.mk 14 16 13 15 0 with ts := some 480 },
    { Demo.mk 15 15 15 15 0 with ts := some 540 } ]

theorem stamped_raw : RawTf stamped := by
  refine ⟨by decide, by decide, by decide, ?_⟩
  intro c hc
  simp only [stamped, List.mem_cons, List.not_mem_nil, or_false] at hc
  rcases hc with rfl | rfl | rfl | rfl | rfl <;> exact ⟨rfl, rfl⟩

example :
    (∃ snap, candlesOf (runIndicator (mkTop (.adx ((2 : Nat) : Int) ((2 : Nat) : Int) : Kind ℚ) "ADX_2_2" 4)
      (cfgFill 120) [] (stamped.map fun c => [c])) = .ok snap) ∧
    (∃ snap, candlesOf (runIndicator (mkTop (.supertrend ((2 : Nat) : Int) "close" (.int 3) : Kind ℚ) "ST_2" 4)
      (cfgFill 120) [] (stamped.map fun c => [c])) = .ok snap) :=
  ⟨adx_never_raises (MgrSpec.fill ℚ 120 (by decide)) "ADX_2_2" 4 2 2 (by norm_num) (by norm_num) adxNames_demo
      [] _ stamped_raw,
   supertrend_never_raises (MgrSpec.fill ℚ 120 (by decide)) 2 (by norm_num) "ST_2" "close" (.int 3) 4 stNames_demo
      (by decide) [] _ stamped_raw⟩

/-! ### the full property -/

/-- The full property: for EVERY shipped kind (any input name, also another indicator's reading),
periods ≥ 2, ordinary pairwise distinct names, and every stream of well-formed raw candles (flat
candles, zero volume, repeated prices included), every history of the object – construction,
`calculate()`, any appends – returns.  (Finiteness of every stored number is `finite_in_field` in
the field model and the trusted IEEE gap for doubles.)

NOT proved in this generality.  PROVED: the instance of this statement – on every manager with an
incremental spec, with "no gaps" from the true warm-up index – for every kind but ROC and Amorph
whose input is a CANDLE FIELD: `atr_`, `rsi_`, `kc_`, `stdev_`, `bbands_`, `supertrend_`, `macd_`,
`stoch_`, `tsi_`, `adx_`, `hma_`, `vwap_`, `donchian_`, `highestLowest_`, `aroon_`, `counter_`,
`stdevthres_…_never_raises` / `…_no_gaps`, `leaves_never_raise` / `leaves_no_gaps` (with the
parameter guards stated there: some kinds need only period ≥ 1, MACD needs `fast ≤ slow` – the
library's `_validate_fields` swaps them otherwise); per call, all guarded divisions / `sqrt`.
CLOSED since: (c) the Amorph / pattern kinds – `amorph_never_raises` on every `MgrSpec`, for every float carrier, and
`amorph_no_gaps` / `amorph_bar_/extreme_/range_no_gaps` (fifteen functions store a bool on every candle, highestbar / lowestbar an
int, highest / lowest a number, value_range `None` exactly on candle 0); (d) HEIKIN-ASHI managers – three more `MgrSpec`
instances (`spec_ha`, `spec_tfHA`, `spec_fillHA`: Heikin-Ashi alone, on a collapsing timeframe, with gap filling), so EVERY
`X_never_raises M` / `X_no_gaps M` above holds on them unchanged (`neverRaises_ha/_tfHA/_fillHA`; converted candles of well-formed
candles are well-formed: `ha_wellFormed`); (d) LIFESPAN managers – `never_raises_lifespan` for all 27 classes under C15's
retention hypothesis (the trimmed run returns and is the untrimmed run minus the popped candles), `amorph_never_raises_lifespan`
unconditionally; WITHOUT the retention hypothesis totality on a lifespan manager is FALSE for the kinds that index an explicit
look-back: `lifespan_short_retention_raises` (SMA, ROC, WMA, VWMA, BBANDS, HMA raise `IndexError` on the append after a trim that
keeps fewer candles than the look-back – replayed on the library; outside this property's quantifier, which has no lifespan, and
outside C15's, which presupposes the retention).
OPEN: (a) inputs that are other indicators' readings (a chained indicator inside a `Hexital`: its input column has its own
warm-up `None`s and can be 0; for SMA / EMA / RMA / WMA / ROC / STDEV / BBANDS / STDEVTHRES / RSI over a late-starting `None`-then-
numeric column the never-raises half follows from `C04_FULL_partial_holds` etc.); (b) ROC, where the statement is FALSE as
soon as the reference input can be 0 – `roc_raises_on_zero` (e.g. `volume`, OBV, a MACD line) – and
true for a field that is never 0 (`leaf_series_total`, row-major run only); (e) IEEE overflow / NaN; lifespan together with a
collapsing timeframe for kinds other than Amorph. -/
def C09_FULL : Prop :=
  ∀ (K : Type) [Field K] [LinearOrder K] [IsStrictOrderedRing K] [LawfulPyF K]
    (k : Kind K) (nm : String) (n : Nat) (init : List (Candle K)) (chunks : List (List (Candle K))),
    (∀ p ∈ periodsOf k, 2 ≤ p) → (∀ x ∈ (mkTop k nm n).allNames, IsKey x) → (mkTop k nm n).allNames.Nodup →
    (∀ c ∈ init ++ chunks.flatten, Plain c ∧ WellFormedCandle c) →
    ∃ snap : List (Candle K), candlesOf (runIndicator (mkTop k nm n) {} init chunks) = .ok snap

/-! ### (c) Amorph: the twenty movement / pattern functions (every float carrier `F`) -/

/-- **`Amorph` never raises**: every wrapped function and argument, every float carrier, every manager with an
incremental spec – batch run and every append schedule (named columns: candle attributes) -/
theorem amorph_never_raises {F : Type} [PyF F] (M : MgrSpec F) (a : Analysis) (nm : String) (n : Nat)
    (hin : ∀ x ∈ a.names, AttrInput x) : NeverRaises M (mkTop (.amorph a : Kind F) nm n) :=
  Hex.amorph_never_raises M a nm n hin

/-- **`Amorph` has no gaps – the fifteen bool-valued functions**: a Python bool on EVERY candle, never `None` -/
theorem amorph_no_gaps {F : Type} [PyF F] (M : MgrSpec F) (a : Analysis) (ha : a.isBool = true) (nm : String) (n : Nat)
    (hk : IsKey nm) (hin : ∀ x ∈ a.names, AttrInput x) :
    Always M (mkTop (.amorph a : Kind F) nm n) (fun raw out => out.length = raw.length ∧
      ∀ j, j < out.length → ∃ b : Bool, own nm (out.getD j default) = .bool b) :=
  Hex.amorph_bool_no_gaps M a ha nm n hk hin

/-- … `highestbar` / `lowestbar`: a Python int on every candle -/
theorem amorph_bar_no_gaps {F : Type} [PyF F] (M : MgrSpec F) (ind : String) (len : Int) (nm : String) (n : Nat)
    (hk : IsKey nm) (hin : AttrInput ind) :
    Always M (mkTop (.amorph (.highestbar ind len) : Kind F) nm n) (NoGaps (own nm) 0) ∧
    Always M (mkTop (.amorph (.lowestbar ind len) : Kind F) nm n) (NoGaps (own nm) 0) :=
  Hex.amorph_bar_no_gaps M ind len nm n hk hin

/-- … `highest` / `lowest` (`length ≥ 1`) over a numeric candle field: a number on every candle -/
theorem amorph_extreme_no_gaps {F : Type} [PyF F] (M : MgrSpec F) (ind : String) (len : Nat) (hlen : 1 ≤ len)
    (fld : Candle F → Num F) (hattr : ∀ c : Candle F, c.attr ind = some (.num (fld c)))
    (nm : String) (n : Nat) (hk : IsKey nm) (hin : AttrInput ind) :
    Always M (mkTop (.amorph (.highest ind (len : Int)) : Kind F) nm n) (NoGaps (own nm) 0) ∧
    Always M (mkTop (.amorph (.lowest ind (len : Int)) : Kind F) nm n) (NoGaps (own nm) 0) :=
  Hex.amorph_extreme_no_gaps M ind len hlen fld hattr nm n hk hin

/-- … `value_range` (`length ≥ 2`) over a numeric candle field: `None` on candle 0, a number from candle 1 on -/
theorem amorph_range_no_gaps {F : Type} [PyF F] (M : MgrSpec F) (ind : String) (len : Nat) (hlen : 2 ≤ len)
    (fld : Candle F → Num F) (hattr : ∀ c : Candle F, c.attr ind = some (.num (fld c)))
    (nm : String) (n : Nat) (hk : IsKey nm) (hin : AttrInput ind) :
    Always M (mkTop (.amorph (.valueRange ind (len : Int)) : Kind F) nm n) (NoGaps (own nm) 1) :=
  Hex.amorph_range_no_gaps M ind len hlen fld hattr nm n hk hin

/-! ### (d) managers with Heikin-Ashi conversion have an incremental spec: every `…_never_raises M` /
`…_no_gaps M` above holds with `M := MgrSpec.ha K`, `MgrSpec.tfHA K tf htf`, `MgrSpec.fillHA K tf htf` -/

/-- `NeverRaises` on base timeframe + Heikin-Ashi, unfolded -/
theorem neverRaises_ha (ind : Ind K) :
    NeverRaises (MgrSpec.ha K) ind ↔ ∀ (init : List (Candle K)) (chunks : List (List (Candle K))),
      (∀ c ∈ init ++ chunks.flatten, Plain c ∧ c.tag = false) →
      ∃ snap, candlesOf (runIndicator ind { ha := true } init chunks) = .ok snap := Iff.rfl

/-- … on a collapsing timeframe + Heikin-Ashi -/
theorem neverRaises_tfHA (tf : Int) (htf : 0 < tf) (ind : Ind K) :
    NeverRaises (MgrSpec.tfHA K tf htf) ind ↔ ∀ (init : List (Candle K)) (chunks : List (List (Candle K))),
      (RawTf (init ++ chunks.flatten) ∧ ∀ c ∈ init ++ chunks.flatten, c.tag = false) →
      ∃ snap, candlesOf (runIndicator ind { tf := some tf, ha := true } init chunks) = .ok snap := Iff.rfl

/-- … on a collapsing timeframe + gap filling + Heikin-Ashi -/
theorem neverRaises_fillHA (tf : Int) (htf : 0 < tf) (ind : Ind K) :
    NeverRaises (MgrSpec.fillHA K tf htf) ind ↔ ∀ (init : List (Candle K)) (chunks : List (List (Candle K))),
      (RawTf (init ++ chunks.flatten) ∧ ∀ c ∈ init ++ chunks.flatten, c.tag = false) →
      ∃ snap, candlesOf (runIndicator ind { tf := some tf, fill := true, ha := true } init chunks) = .ok snap :=
  Iff.rfl

/-- what the engine sees on these managers: the Heikin-Ashi fold of the (collapsed / gap-filled) raw candles;
the indices of "no gaps" count these converted candles -/
theorem spec_ha (s : List (Candle K)) : (MgrSpec.ha K).spec s = haSpec s := rfl
theorem spec_tfHA (tf : Int) (htf : 0 < tf) (s : List (Candle K)) :
    (MgrSpec.tfHA K tf htf).spec s = haSpec (resample tf s) := rfl
theorem spec_fillHA (tf : Int) (htf : 0 < tf) (s : List (Candle K)) :
    (MgrSpec.fillHA K tf htf).spec s = haSpec (fillSpec tf s) := rfl

/-- **the converted candles of well-formed candles are well-formed** (exact field): `low ≤ open, close ≤ high`
by construction, positivity because every Heikin-Ashi value is a mean of positive prices -/
theorem ha_wellFormed (raw : List (Candle K)) (h : ∀ c ∈ raw, WellFormedCandle c) :
    ∀ c ∈ haSpec raw, WellFormedCandle c := by
  intro c hc
  obtain ⟨h1, h2, h3, h4⟩ := wellFormed_haSpec raw (fun x hx => ⟨(h x hx).pos, (h x hx).lo, (h x hx).hi, (h x hx).vol⟩) c hc
  exact ⟨h1, h2, h3, h4⟩

/-- e.g. MACD and the leaf averages on timeframe + gap filling + Heikin-Ashi -/
example (tf : Int) (htf : 0 < tf) (nm : String) (n pf ps pg : Nat) (hf : 2 ≤ pf) (hfs : pf ≤ ps) (hg : 1 ≤ pg)
    (hn : MacdNames nm) : NeverRaises (MgrSpec.fillHA K tf htf)
      (mkTop (.macd (pf : Int) (ps : Int) (pg : Int) "close" : Kind K) nm n) :=
  macd_never_raises _ nm n pf ps pg "close" (·.c) hf hfs hg hn ⟨noDot_close, by decide⟩ (fun _ => rfl)
example (tf : Int) (htf : 0 < tf) (p : Nat) (hp : 2 ≤ p) (nm : String) (n : Nat) (hk : IsKey nm) :
    NeverRaises (MgrSpec.tfHA K tf htf) (mkTop (.sma p "close" : Kind K) nm n) :=
  (leaves_never_raise (MgrSpec.tfHA K tf htf) p hp nm n hk).1

/-! ### (d) managers with a lifespan: totality DEPENDS on what the trim retains -/

/-- **`Amorph` never raises on a lifespan manager – unconditionally** (lifespan `≥ 0`, with or without
Heikin-Ashi conversion; every stream, every schedule, whatever is retained; every float carrier) -/
theorem amorph_never_raises_lifespan {F : Type} [PyF F] (a : Analysis) (nm : String) (n : Nat) (life : Int)
    (hlife : 0 ≤ life) (init : List (Candle F)) (chunks : List (List (Candle F))) :
    (∃ snap, candlesOf (runIndicator (mkTop (.amorph a : Kind F) nm n) { lifespan := some life } init chunks)
      = .ok snap) ∧
    (∃ snap, candlesOf (runIndicator (mkTop (.amorph a : Kind F) nm n) { ha := true, lifespan := some life }
      init chunks) = .ok snap) :=
  Hex.amorph_never_raises_lifespan a nm n life hlife init chunks

/-- **the leaf averages never raise on a lifespan manager that retains `period` finished candles at every
popping append** (C15's retention hypothesis) -/
theorem leaves_never_raise_lifespan (p : Nat) (hp : 2 ≤ p) (nm : String) (n : Nat) (hk : IsKey nm)
    (life : Int) (init : List (Candle K)) (chunks : List (List (Candle K)))
    (hpl : ∀ c ∈ init ++ chunks.flatten, Plain c) (hinit : trimCandles (some life) init = .ok init)
    (hret : RetainsFrom p life init init.length chunks) :
    ∀ k ∈ ([.sma p "close", .ema p "close" (fl 2), .rma p "close", .wma p "close", .vwma p, .hla, .tr, .obv] :
        List (Kind K)),
      ∃ snap d, candlesOf (runIndicator (mkTop k nm n) { lifespan := some life } init chunks) = .ok (snap.drop d) ∧
        candlesOf (runIndicator (mkTop k nm n) {} init chunks) = .ok snap :=
  Numeric.leaves_never_raise_lifespan p hp nm n hk life init chunks hpl hinit hret

/-- … HighestLowest, Donchian, Aroon -/
theorem windows_never_raise_lifespan (p : Nat) (hp : 2 ≤ p) (nm : String) (n : Nat) (hk : IsKey nm) (hn : DcNames nm)
    (life : Int) (init : List (Candle K)) (chunks : List (List (Candle K)))
    (hpl : ∀ c ∈ init ++ chunks.flatten, Plain c) (hinit : trimCandles (some life) init = .ok init)
    (hret : RetainsFrom p life init init.length chunks) :
    ∀ k ∈ ([.hl p, .donchian p, .aroon p] : List (Kind K)),
      ∃ snap d, candlesOf (runIndicator (mkTop k nm n) { lifespan := some life } init chunks) = .ok (snap.drop d) ∧
        candlesOf (runIndicator (mkTop k nm n) {} init chunks) = .ok snap :=
  Numeric.windows_never_raise_lifespan p hp nm n hk hn life init chunks hpl hinit hret

/-- **every shipped class never raises on a lifespan manager that retains the tree's look-back** (`treeLook`, the
look-back of C15: nothing popped at construction, `treeLook` finished candles from before the append retained at every
append that pops): the run returns, with the candles of the untrimmed run minus the popped ones -/
theorem never_raises_lifespan (k : Kind K) (nm : String) (n : Nat) (hc : CoveredTreeX nm k)
    (hbase : NeverRaises (MgrSpec.base K) (mkTop k nm n))
    (life : Int) (init : List (Candle K)) (chunks : List (List (Candle K)))
    (hp : ∀ c ∈ init ++ chunks.flatten, Plain c) (hinit : trimCandles (some life) init = .ok init)
    (hret : RetainsFrom (treeLook k nm n) life init init.length chunks) :
    ∃ snap d, candlesOf (runIndicator (mkTop k nm n) { lifespan := some life } init chunks) = .ok (snap.drop d) ∧
      candlesOf (runIndicator (mkTop k nm n) {} init chunks) = .ok snap :=
  covered_never_raises_lifespan k nm n hc hbase life init chunks hp hinit hret

/-- e.g. MACD, BBANDS, HMA (the latter two DO raise when less is retained, see below); likewise `atr_`, `rsi_`,
`stdev_`, `kc_`, `stdevthres_`, `supertrend_`, `vwap_`, `stoch_`, `tsi_`, `adx_lifeTotal` -/
theorem macd_never_raises_lifespan (nm : String) (n pf ps pg : Nat) (input : String) (fld : Candle K → Num K)
    (hf : 2 ≤ pf) (hfs : pf ≤ ps) (hg : 1 ≤ pg) (hn : MacdNames nm) (hin : AttrInput input)
    (hattr : ∀ c : Candle K, c.attr input = some (.num (fld c))) :
    LifeTotal (mkTop (.macd (pf : Int) (ps : Int) (pg : Int) input : Kind K) nm n)
      (treeLook (.macd (pf : Int) (ps : Int) (pg : Int) input : Kind K) nm n) :=
  macd_lifeTotal nm n pf ps pg input fld hf hfs hg hn hin hattr
theorem bbands_never_raises_lifespan (p : Nat) (hp : 2 ≤ p) (nm input : String) (fld : Candle K → Num K) (n : Nat)
    (hk : IsKey nm) (hn : BbNames nm) (hin : AttrInput input)
    (hattr : ∀ c : Candle K, c.attr input = some (.num (fld c))) :
    LifeTotal (mkTop (.bbands (p : Int) input : Kind K) nm n) (treeLook (.bbands (p : Int) input : Kind K) nm n) :=
  bbands_lifeTotal p hp nm input fld n hk hn hin hattr
theorem hma_never_raises_lifespan (p : Nat) (hp : 2 ≤ p) (nm input : String) (fld : Candle K → Num K) (n : Nat)
    (hn : HmaNames nm) (hin : AttrInput input) (hattr : ∀ c : Candle K, c.attr input = some (.num (fld c))) :
    LifeTotal (mkTop (.hma (p : Int) input : Kind K) nm n) (treeLook (.hma (p : Int) input : Kind K) nm n) :=
  hma_lifeTotal p hp nm input fld n hn hin hattr

/-- **… and WITHOUT the retention hypothesis the statement is FALSE** (open known finding): with ONE finished
candle retained, SMA / ROC / BBANDS (period 4) and WMA / VWMA / HMA (period 5) raise `IndexError` on the append,
while their untrimmed twins return (toy carrier; replayed on the library) -/
theorem lifespan_short_retention_raises :
    lifeRun (.sma 4 "close") "SMA_4" 5 34 = .error .indexError ∧
    lifeRun (.roc 4 "close") "ROC" 5 34 = .error .indexError ∧
    lifeRun (.bbands 4 "close") "BBANDS_4" 5 34 = .error .indexError ∧
    lifeRun (.wma 5 "close") "WMA_5" 6 35 = .error .indexError ∧
    lifeRun (.vwma 5) "VWMA_5" 6 35 = .error .indexError ∧
    lifeRun (.hma 5 "close") "HMA_5" 7 36 = .error .indexError :=
  ⟨sma_raises_after_trim.1, roc_raises_after_trim.1, bbands_raises_after_trim.1, wma_raises_after_trim.1,
   vwma_raises_after_trim.1, hma_raises_after_trim.1⟩

/-! ### (a) inputs that are other indicators' readings (HexProofs/Numeric/TotalInputs.lean, TotalInputsHex.lean)

`cs`: ANY candle list (it may hold any readings under other names); `LateCol cs input t0 x`: the input reading is
`None` on the first `t0` candles and the number `x (j − t0)` from `t0` on – the shape of another indicator's column
(`lateCol_of_noGaps`).  `EngineReturns`: `calculate()` returns; `EngineAlways … (NoGapsFlt rd w)`: … and the reading
`rd` is `None` EXACTLY below `w` and a float on every candle from `w` on. -/

theorem sma_no_gaps_inputs (p : Nat) (hp : 2 ≤ p) (nm input : String) (n t0 : Nat) (cs : List (Candle K))
    (x : Nat → K) (hk : IsKey nm) (hne : nm ≠ input) (habs : OwnAbsent nm cs) (hin : LateCol cs input t0 x) :
    EngineAlways (mkTop (.sma p input : Kind K) nm n) cs (NoGapsFlt (own nm) (t0 + (p - 1))) :=
  Hex.Numeric.sma_no_gaps_inputs p hp nm input n t0 cs x hk hne habs hin
theorem ema_no_gaps_inputs (p : Nat) (hp : 2 ≤ p) (nm input : String) (n t0 : Nat) (cs : List (Candle K))
    (x : Nat → K) (hk : IsKey nm) (hne : nm ≠ input) (habs : OwnAbsent nm cs) (hin : LateCol cs input t0 x) :
    EngineAlways (mkTop (.ema p input (fl 2) : Kind K) nm n) cs (NoGapsFlt (own nm) (t0 + (p - 1))) :=
  ema2_no_gaps_inputs p hp nm input n t0 cs x hk hne habs hin
theorem rma_no_gaps_inputs (p : Nat) (hp : 2 ≤ p) (nm input : String) (n t0 : Nat) (cs : List (Candle K))
    (x : Nat → K) (hk : IsKey nm) (hne : nm ≠ input) (habs : OwnAbsent nm cs) (hin : LateCol cs input t0 x) :
    EngineAlways (mkTop (.rma p input : Kind K) nm n) cs (NoGapsFlt (own nm) (t0 + (p - 1))) :=
  Hex.Numeric.rma_no_gaps_inputs p hp nm input n t0 cs x hk hne habs hin
theorem wma_no_gaps_inputs (p : Nat) (hp : 2 ≤ p) (nm input : String) (n t0 : Nat) (cs : List (Candle K))
    (x : Nat → K) (hk : IsKey nm) (hne : nm ≠ input) (habs : OwnAbsent nm cs) (hin : LateCol cs input t0 x) :
    EngineAlways (mkTop (.wma p input : Kind K) nm n) cs (NoGapsFlt (own nm) (t0 + (p - 1))) :=
  Hex.Numeric.wma_no_gaps_inputs p hp nm input n t0 cs x hk hne habs hin
/-- ROC: the numeric inputs must never be `0` – otherwise FALSE (`roc_raises_on_zero`) -/
theorem roc_no_gaps_inputs (p : Nat) (hp : 1 ≤ p) (nm input : String) (n t0 : Nat) (cs : List (Candle K))
    (x : Nat → K) (hk : IsKey nm) (hne : nm ≠ input) (habs : OwnAbsent nm cs) (hin : LateCol cs input t0 x)
    (hnz : ∀ k, t0 + k < cs.length → x k ≠ 0) :
    EngineAlways (mkTop (.roc p input : Kind K) nm n) cs (NoGapsFlt (own nm) (t0 + p)) :=
  Hex.Numeric.roc_no_gaps_inputs p hp nm input n t0 cs x hk hne habs hin hnz
theorem vwma_no_gaps_inputs (p : Nat) (hp : 2 ≤ p) (nm : String) (n : Nat) (cs : List (Candle K))
    (hk : IsKey nm) (habs : OwnAbsent nm cs) :
    EngineAlways (mkTop (.vwma p : Kind K) nm n) cs (NoGapsFlt (own nm) (p - 1)) :=
  Hex.Numeric.vwma_no_gaps_inputs p hp nm n cs hk habs
theorem stdev_no_gaps_inputs [NonnegSqrt K] (p : Nat) (hp : 1 ≤ p) (nm input : String) (n t0 : Nat)
    (cs : List (Candle K)) (x : Nat → K) (hn : SdNames nm) (hik : IsKey input) (h1 : input ≠ nm)
    (h2 : input ≠ nm ++ "_data")
    (habs : ∀ c ∈ cs, dlookup nm c.inds = none ∧ dlookup nm c.subs = none ∧
      dlookup (nm ++ "_data") c.inds = none ∧ dlookup (nm ++ "_data") c.subs = none)
    (hin : LateCol cs input t0 x) :
    EngineAlways (mkTop (.stdev (p : Int) input : Kind K) nm n) cs (NoGapsFlt (own nm) (t0 + p)) :=
  Hex.Numeric.stdev_no_gaps_inputs p hp nm input n t0 cs x hn hik h1 h2 habs hin
theorem bbands_no_gaps_inputs [NonnegSqrt K] (p : Nat) (hp : 2 ≤ p) (nm input : String) (n t0 : Nat)
    (cs : List (Candle K)) (x : Nat → K) (hk : IsKey nm) (hn : BbNames nm) (hi : BbInput nm input)
    (habs : ∀ c ∈ cs, BbAbsent nm c) (hin : LateCol cs input t0 x) :
    EngineAlways (mkTop (.bbands (p : Int) input : Kind K) nm n) cs (NoGaps3 nm "BBL" "BBM" "BBU" (t0 + p)) :=
  Hex.Numeric.bbands_no_gaps_inputs p hp nm input n t0 cs x hk hn hi habs hin
theorem stdevthres_no_gaps_inputs (p : Nat) (hp : 1 ≤ p) (nm input : String) (mult : Num K) (n t0 : Nat)
    (cs : List (Candle K)) (x : Nat → K) (hk : IsKey nm) (hn : ThresNames nm) (hi : ThInput nm input)
    (habs : ∀ c ∈ cs, ThAbsent nm c) (hin : LateCol cs input t0 x) :
    EngineAlways (mkTop (.stdevthres (p : Int) input mult : Kind K) nm n) cs (BoolAlways nm (t0 + p)) :=
  Hex.Numeric.stdevthres_no_gaps_inputs p hp nm input mult n t0 cs x hk hn hi habs hin
theorem rsi_no_gaps_inputs (p : Nat) (hp : 1 ≤ p) (nm input : String) (n t0 : Nat) (cs : List (Candle K))
    (x : Nat → K) (hk : IsKey nm) (hn : RsiNames nm) (hid : NoDot input) (h1 : input ≠ nm)
    (h2 : input ≠ nm ++ "_data")
    (habs : ∀ c ∈ cs, dlookup nm c.inds = none ∧ dlookup nm c.subs = none ∧
      dlookup (nm ++ "_data") c.inds = none ∧ dlookup (nm ++ "_data") c.subs = none)
    (hin : LateCol cs input t0 x) :
    EngineAlways (mkTop (.rsi (p : Int) input : Kind K) nm n) cs (NoGapsFlt (own nm) (t0 + p)) :=
  Hex.Numeric.rsi_no_gaps_inputs p hp nm input n t0 cs x hk hn hid h1 h2 habs hin
theorem hma_no_gaps_inputs (p : Nat) (hp : 2 ≤ p) (nm input : String) (n t0 : Nat) (cs : List (Candle K))
    (x : Nat → K) (hn : HmaNames nm) (hi : hmaI_Input nm input) (habs : ∀ c ∈ cs, hmaI_Absent nm c)
    (hin : LateCol cs input t0 x) :
    EngineAlways (mkTop (.hma (p : Int) input : Kind K) nm n) cs (NoGapsFlt (own nm) (t0 + (p + Nat.sqrt p - 2))) :=
  Hex.Numeric.hma_no_gaps_inputs p hp nm input n t0 cs x hn hi habs hin
theorem macd_no_gaps_inputs (pf ps pg : Nat) (hf : 2 ≤ pf) (hfs : pf ≤ ps) (hg : 1 ≤ pg) (nm input : String)
    (n t0 : Nat) (cs : List (Candle K)) (x : Nat → K) (hn : MacdNames nm) (hi : macdI_Input nm input)
    (habs : ∀ c ∈ cs, macdI_Absent nm c) (hin : LateCol cs input t0 x) :
    EngineAlways (mkTop (.macd (pf : Int) (ps : Int) (pg : Int) input : Kind K) nm n) cs
      (NoGapsW3 nm "MACD" "signal" "histogram" (t0 + (ps - 1)) (t0 + (ps + pg - 2)) (t0 + (ps + pg - 2))) :=
  Hex.Numeric.macd_no_gaps_inputs pf ps pg hf hfs hg nm input n t0 cs x hn hi habs hin
theorem stoch_no_gaps_inputs (p sk sl : Nat) (hp : 2 ≤ p) (hsk : 1 ≤ sk) (hsl : 1 ≤ sl) (nm input : String)
    (n t0 : Nat) (cs : List (Candle K)) (x : Nat → K) (hn : StochNames nm) (hi : StochIInput nm input)
    (habs : ∀ c ∈ cs, StochIAbsent nm c) (hin : LateCol cs input t0 x) :
    EngineAlways (mkTop (.stoch (p : Int) (sl : Int) (sk : Int) input : Kind K) nm n) cs
      (NoGapsW3 nm "stoch" "k" "d" (t0 + p - 1) (t0 + p + sk - 2) (t0 + p + sk + sl - 3)) :=
  Hex.Numeric.stoch_no_gaps_inputs p sk sl hp hsk hsl nm input n t0 cs x hn hi habs hin
theorem tsi_no_gaps_inputs (p s : Nat) (hp : 1 ≤ p) (hs : 1 ≤ s) (nm input : String) (n t0 : Nat)
    (cs : List (Candle K)) (x : Nat → K) (hn : TsiNames nm) (hi : TsiIInput nm input)
    (habs : ∀ c ∈ cs, TsiIAbsent nm c) (hin : LateCol cs input t0 x) :
    EngineAlways (mkTop (.tsi (p : Int) (s : Int) input : Kind K) nm n) cs (NoGapsFlt (own nm) (t0 + (p + s - 1))) :=
  Hex.Numeric.tsi_no_gaps_inputs p s hp hs nm input n t0 cs x hn hi habs hin
theorem kc_no_gaps_inputs (p : Nat) (hp : 2 ≤ p) (nm input : String) (mult : Num K) (n t0 : Nat)
    (cs : List (Candle K)) (x : Nat → K) (hk : IsKey nm) (hn : KcNames nm) (hi : kcI_Input nm input)
    (habs : ∀ c ∈ cs, kcI_Absent nm c) (hin : LateCol cs input t0 x) :
    EngineAlways (mkTop (.kc (p : Int) input mult : Kind K) nm n) cs
      (NoGaps3 nm "lower" "band" "upper" (max (t0 + p - 1) p)) :=
  Hex.Numeric.kc_no_gaps_inputs p hp nm input mult n t0 cs x hk hn hi habs hin
theorem supertrend_no_gaps_inputs (p : Nat) (hp : 1 ≤ p) (nm input : String) (mult : Num K) (n : Nat)
    (cs : List (Candle K)) (hk : IsKey nm) (hn : StNames nm) (habs : ∀ c ∈ cs, stI_Absent nm c) :
    EngineAlways (mkTop (.supertrend (p : Int) input mult : Kind K) nm n) cs (StNoGaps nm p) :=
  Hex.Numeric.supertrend_no_gaps_inputs p hp nm input mult n cs hk hn habs
theorem adx_no_gaps_inputs (p sg : Nat) (hp : 1 ≤ p) (hg : 1 ≤ sg) (nm : String) (n : Nat) (cs : List (Candle K))
    (hn : AdxNames nm)
    (habs : ∀ c ∈ cs, ∀ k ∈ adxI_names nm, dlookup k c.inds = none ∧ dlookup k c.subs = none) :
    EngineAlways (mkTop (.adx (p : Int) (sg : Int) : Kind K) nm n) cs
      (NoGapsW3 nm "ADX" "DM_Plus" "DM_Neg" (p + sg - 1) p p) :=
  Hex.Numeric.adx_no_gaps_inputs p sg hp hg nm n cs hn habs

/-- **never raises** – every `X_no_gaps_inputs` above contains it (`EngineAlways.returns`); e.g. -/
theorem rsi_never_raises_inputs (p : Nat) (hp : 1 ≤ p) (nm input : String) (n t0 : Nat) (cs : List (Candle K))
    (x : Nat → K) (hk : IsKey nm) (hn : RsiNames nm) (hid : NoDot input) (h1 : input ≠ nm)
    (h2 : input ≠ nm ++ "_data")
    (habs : ∀ c ∈ cs, dlookup nm c.inds = none ∧ dlookup nm c.subs = none ∧
      dlookup (nm ++ "_data") c.inds = none ∧ dlookup (nm ++ "_data") c.subs = none)
    (hin : LateCol cs input t0 x) : EngineReturns (mkTop (.rsi (p : Int) input : Kind K) nm n) cs :=
  (rsi_no_gaps_inputs p hp nm input n t0 cs x hk hn hid h1 h2 habs hin).returns

/-- a source's no-gaps column IS a late-starting input column -/
theorem source_column_is_late {raw out : List (Candle K)} {nm : String} {w : Nat} (h : NoGapsFlt (own nm) w raw out) :
    LateCol out nm w (fun k => (inputSeriesAt out nm (w + k)).getD 0) := lateCol_of_noGaps h

/-- **chained indicators inside a `Hexital` never raise and have no gaps** – the generic glue (any covered source with
a scalar reading, any covered dependent over it, any manager with an incremental spec) … -/
theorem chained_pair_no_gaps {nameA : String} {kA : Kind K} (hA : Chain.SrcVia nameA kA) (roundA : Nat)
    {nameB : String} {kB : Kind K} (hB : Chain.DepVia nameA nameB kB) (roundB : Nat)
    (hkA : IsKey nameA) (hmain : nameA ∈ (mkTop kA nameA roundA).allNames)
    (hdis : ∀ x ∈ (mkTop kA nameA roundA).allNames, x ∉ (mkTop kB nameB roundB).allNames)
    (TA : TreeSpec (mkTop kA nameA roundA)) (wA : Nat)
    (hsrc : ∀ raw : List (Candle K), (∀ c ∈ raw, Plain c) →
      ∃ out, Gen.rowMajor TA.S raw = .ok out ∧ NoGapsFlt (own nameA) wA raw out)
    (PB : List (Candle K) → Prop)
    (hdep : ∀ mid : List (Candle K),
      (∀ c ∈ mid, ∀ k ∈ (mkTop kB nameB roundB).allNames, dlookup k c.inds = none ∧ dlookup k c.subs = none) →
      ∀ x, LateCol mid nameA wA x →
      ∃ out, engineCalc (mkTop kB nameB roundB) mid = .ok out ∧ out.length = mid.length ∧ PB out)
    (M : MgrSpec K) (tfn : Option String) (init : List (Candle K)) (chunks : List (List (Candle K)))
    (hok : M.Ok (init ++ chunks.flatten)) :
    ∃ (H : Hexital K) (cs : List (Candle K)),
      Chain.pairRun (mkTop kA nameA roundA) (mkTop kB nameB roundB) M.cfg tfn init chunks = .ok H ∧
      H.managers = [(defaultKey, { cfg := M.cfg, candles := cs })] ∧
      NoGapsFlt (own nameA) wA (M.spec (init ++ chunks.flatten)) cs ∧ PB cs :=
  pair_no_gaps hA roundA hB roundB hkA hmain hdis TA wA hsrc PB hdep M tfn init chunks hok

/-- … RSI over EMA … -/
theorem rsi_over_ema_hexital (M : MgrSpec K) (pA pB : Nat) (hpA : 2 ≤ pA) (hpB : 1 ≤ pB) (nmA nmB : String)
    (nA nB : Nat) (hkA : IsKey nmA) (hkB : IsKey nmB) (hnB : RsiNames nmB) (h1 : nmA ≠ nmB)
    (h2 : nmA ≠ nmB ++ "_data") (tfn : Option String) (init : List (Candle K)) (chunks : List (List (Candle K)))
    (hok : M.Ok (init ++ chunks.flatten)) :
    ∃ (H : Hexital K) (cs : List (Candle K)),
      Chain.pairRun (mkTop (.ema (pA : Int) "close" (fl 2) : Kind K) nmA nA)
        (mkTop (.rsi (pB : Int) nmA : Kind K) nmB nB) M.cfg tfn init chunks = .ok H ∧
      H.managers = [(defaultKey, { cfg := M.cfg, candles := cs })] ∧
      NoGapsFlt (own nmA) (pA - 1) (M.spec (init ++ chunks.flatten)) cs ∧
      NoGapsFlt (own nmB) (pA - 1 + pB) (M.spec (init ++ chunks.flatten)) cs :=
  Hex.Numeric.rsi_over_ema_hexital M pA pB hpA hpB nmA nmB nA nB hkA hkB hnB h1 h2 tfn init chunks hok

/-- … and SMA over RSI -/
theorem sma_over_rsi_hexital (M : MgrSpec K) (pA pB : Nat) (hpA : 1 ≤ pA) (hpB : 2 ≤ pB) (nmA nmB : String)
    (nA nB : Nat) (hkA : IsKey nmA) (hnA : RsiNames nmA) (hkB : IsKey nmB) (h1 : nmA ≠ nmB)
    (h2 : nmA ++ "_data" ≠ nmB) (tfn : Option String) (init : List (Candle K)) (chunks : List (List (Candle K)))
    (hok : M.Ok (init ++ chunks.flatten)) :
    ∃ (H : Hexital K) (cs : List (Candle K)),
      Chain.pairRun (mkTop (.rsi (pA : Int) "close" : Kind K) nmA nA) (mkTop (.sma (pB : Int) nmA : Kind K) nmB nB)
        M.cfg tfn init chunks = .ok H ∧
      H.managers = [(defaultKey, { cfg := M.cfg, candles := cs })] ∧
      NoGapsFlt (own nmA) pA (M.spec (init ++ chunks.flatten)) cs ∧
      NoGapsFlt (own nmB) (pA + (pB - 1)) (M.spec (init ++ chunks.flatten)) cs :=
  Hex.Numeric.sma_over_rsi_hexital M pA pB hpA hpB nmA nmB nA nB hkA hnA hkB h1 h2 tfn init chunks hok

/-! ### (d) a lifespan TOGETHER with a re-collapsing / converting manager (HexProofs/Numeric/TotalLifeMgr*.lean) -/

/-- **every shipped class never raises on `{timeframe, candles_lifespan}`** when nothing is popped at construction and
`treeLook` CLOSED buckets are retained at every popping append (C15's `RetainsBuckets`): the run returns, with the candles
of the `{timeframe}` run minus the popped buckets -/
theorem never_raises_lifespan_tf (k : Kind K) (nm : String) (n : Nat) (hc : CoveredTreeX nm k)
    (tf : Int) (htf : 0 < tf) (hbase : NeverRaises (MgrSpec.tf K tf htf) (mkTop k nm n))
    (life : Int) (init : List (Candle K)) (chunks : List (List (Candle K)))
    (hraw : RawTf (init ++ chunks.flatten))
    (hinit : trimCandles (some life) (resample tf init) = .ok (resample tf init))
    (hret : RetainsBuckets (treeLook k nm n) tf life init 0 chunks) :
    ∃ snap d, candlesOf (runIndicator (mkTop k nm n) { tf := some tf, lifespan := some life } init chunks)
        = .ok (snap.drop d) ∧
      candlesOf (runIndicator (mkTop k nm n) { tf := some tf } init chunks) = .ok snap :=
  covered_never_raises_lifespan_tf k nm n hc tf htf hbase life init chunks hraw hinit hret

/-- … on `{timeframe, timeframe_fill, candles_lifespan}` (`RetainsFilled`: closed candles of the gap-filled list) -/
theorem never_raises_lifespan_fill (k : Kind K) (nm : String) (n : Nat) (hc : CoveredTreeX nm k)
    (tf : Int) (htf : 0 < tf) (hbase : NeverRaises (MgrSpec.fill K tf htf) (mkTop k nm n))
    (life : Int) (init : List (Candle K)) (chunks : List (List (Candle K)))
    (hraw : RawTf (init ++ chunks.flatten))
    (hinit : trimCandles (some life) (fillSpec tf init) = .ok (fillSpec tf init))
    (hret : RetainsFilled (treeLook k nm n) tf life init 0 chunks) :
    ∃ snap d, candlesOf (runIndicator (mkTop k nm n) { tf := some tf, fill := true, lifespan := some life } init chunks)
        = .ok (snap.drop d) ∧
      candlesOf (runIndicator (mkTop k nm n) { tf := some tf, fill := true } init chunks) = .ok snap :=
  covered_never_raises_lifespan_fill k nm n hc tf htf hbase life init chunks hraw hinit hret

/-- … on `{candlestick = HA, candles_lifespan}` (the hypothesis of the plain lifespan manager, on the raw stamps) -/
theorem never_raises_lifespan_ha (k : Kind K) (nm : String) (n : Nat) (hc : CoveredTreeX nm k)
    (hbase : NeverRaises (MgrSpec.ha K) (mkTop k nm n))
    (life : Int) (init : List (Candle K)) (chunks : List (List (Candle K)))
    (hraw : ∀ c ∈ init ++ chunks.flatten, Plain c ∧ c.tag = false) (hinit : trimCandles (some life) init = .ok init)
    (hret : RetainsFrom (treeLook k nm n) life init init.length chunks) :
    ∃ snap d, candlesOf (runIndicator (mkTop k nm n) { ha := true, lifespan := some life } init chunks)
        = .ok (snap.drop d) ∧
      candlesOf (runIndicator (mkTop k nm n) { ha := true } init chunks) = .ok snap :=
  covered_never_raises_lifespan_ha k nm n hc hbase life init chunks hraw hinit hret

/-- … on `{timeframe, HA, candles_lifespan}` (the hypothesis of the unconverted timeframe manager) -/
theorem never_raises_lifespan_tf_ha (k : Kind K) (nm : String) (n : Nat) (hc : CoveredTreeX nm k)
    (tf : Int) (htf : 0 < tf) (hbase : NeverRaises (MgrSpec.tfHA K tf htf) (mkTop k nm n))
    (life : Int) (init : List (Candle K)) (chunks : List (List (Candle K)))
    (hraw : RawTf (init ++ chunks.flatten) ∧ ∀ c ∈ init ++ chunks.flatten, c.tag = false)
    (hinit : trimCandles (some life) (resample tf init) = .ok (resample tf init))
    (hret : RetainsBuckets (treeLook k nm n) tf life init 0 chunks) :
    ∃ snap d, candlesOf (runIndicator (mkTop k nm n) { tf := some tf, ha := true, lifespan := some life } init chunks)
        = .ok (snap.drop d) ∧
      candlesOf (runIndicator (mkTop k nm n) { tf := some tf, ha := true } init chunks) = .ok snap :=
  covered_never_raises_lifespan_tf_ha k nm n hc tf htf hbase life init chunks hraw hinit hret

/-- … on `{timeframe, timeframe_fill, HA, candles_lifespan}` (the hypothesis of the unconverted fill manager) -/
theorem never_raises_lifespan_tf_fill_ha (k : Kind K) (nm : String) (n : Nat) (hc : CoveredTreeX nm k)
    (tf : Int) (htf : 0 < tf) (hbase : NeverRaises (MgrSpec.fillHA K tf htf) (mkTop k nm n))
    (life : Int) (init : List (Candle K)) (chunks : List (List (Candle K)))
    (hraw : RawTf (init ++ chunks.flatten) ∧ ∀ c ∈ init ++ chunks.flatten, c.tag = false)
    (hinit : trimCandles (some life) (fillSpec tf init) = .ok (fillSpec tf init))
    (hret : RetainsFilled (treeLook k nm n) tf life init 0 chunks) :
    ∃ snap d, candlesOf (runIndicator (mkTop k nm n)
        { tf := some tf, fill := true, ha := true, lifespan := some life } init chunks) = .ok (snap.drop d) ∧
      candlesOf (runIndicator (mkTop k nm n) { tf := some tf, fill := true, ha := true } init chunks) = .ok snap :=
  covered_never_raises_lifespan_tf_fill_ha k nm n hc tf htf hbase life init chunks hraw hinit hret

/-- the generic form: ANY manager with the twin interface `TwinMgr` (`TwinMgr.tf / .fill / .ha / .tfHA / .fillHA`) -/
theorem never_raises_lifespan_mgr {F : Type} [PyF F] (M : TwinMgr F) (k : Kind F) (nm : String) (n : Nat)
    (hc : CoveredTreeX nm k)
    (hbase : ∀ (init : List (Candle F)) (chunks : List (List (Candle F))), M.Ok (init ++ chunks.flatten) →
      ∃ snap, candlesOf (runIndicator (mkTop k nm n) M.cfg init chunks) = .ok snap)
    (life : Int) (init : List (Candle F)) (chunks : List (List (Candle F)))
    (hok : M.Ok (init ++ chunks.flatten))
    (hinit : trimCandles (some life) (M.spec init) = .ok (M.spec init))
    (hret : RetainsClosed M.spec M.closed (treeLook k nm n) life init 0 chunks) :
    ∃ snap d, candlesOf (runIndicator (mkTop k nm n) (M.cfg.withLife life) init chunks) = .ok (snap.drop d) ∧
      candlesOf (runIndicator (mkTop k nm n) M.cfg init chunks) = .ok snap :=
  covered_never_raises_lifespan_mgr M k nm n hc hbase life init chunks hok hinit hret

/-- the pointwise form (every float carrier, the executed `Float` included): on THIS stream and schedule, if the
lifespan-free twin returns, so does the lifespan run – with the twin's candles minus the popped ones -/
theorem lifespan_follows_twin_mgr {F : Type} [PyF F] (M : TwinMgr F) (k : Kind F) (nm : String) (n : Nat)
    (hc : CoveredTreeX nm k) (life : Int) (init : List (Candle F)) (chunks : List (List (Candle F)))
    (hok : M.Ok (init ++ chunks.flatten))
    (hinit : trimCandles (some life) (M.spec init) = .ok (M.spec init))
    (hret : RetainsClosed M.spec M.closed (treeLook k nm n) life init 0 chunks) (snap : List (Candle F))
    (hsnap : candlesOf (runIndicator (mkTop k nm n) M.cfg init chunks) = .ok snap) :
    ∃ d, candlesOf (runIndicator (mkTop k nm n) (M.cfg.withLife life) init chunks) = .ok (snap.drop d) :=
  covered_lifespan_follows_twin_mgr M k nm n hc life init chunks hok hinit hret snap hsnap

/-- e.g. MACD, BBANDS, HMA, ATR, SMA on ALL FIVE managers at once (`hM`: `TwinMgr.matches_tf tf htf`, `…_fill`, `…_ha`,
`…_tfHA`, `…_fillHA`; read the result with `LifeTotalMgr.tf / .fill / .ha / .tfHA / .fillHA`); likewise `rsi_`, `stdev_`, `kc_`, `stdevthres_`,
`supertrend_`, `vwap_`, `stoch_`, `tsi_`, `adx_`, `ema_`, `rma_`, `wma_`, `vwma_`, `hla_`, `tr_`, `obv_`, `hl_`,
`donchian_`, `aroon_lifeTotalMgr`, and `counter_lifeTotalMgr` on every float carrier -/
theorem macd_never_raises_lifespan_mgr {M : TwinMgr K} {MS : MgrSpec K} (hM : M.Matches MS) (nm : String)
    (n pf ps pg : Nat) (input : String) (fld : Candle K → Num K)
    (hf : 2 ≤ pf) (hfs : pf ≤ ps) (hg : 1 ≤ pg) (hn : MacdNames nm) (hin : AttrInput input)
    (hattr : ∀ c : Candle K, c.attr input = some (.num (fld c))) :
    LifeTotalMgr M (mkTop (.macd (pf : Int) (ps : Int) (pg : Int) input : Kind K) nm n)
      (treeLook (.macd (pf : Int) (ps : Int) (pg : Int) input : Kind K) nm n) :=
  macd_lifeTotalMgr hM nm n pf ps pg input fld hf hfs hg hn hin hattr
theorem bbands_never_raises_lifespan_mgr {M : TwinMgr K} {MS : MgrSpec K} (hM : M.Matches MS) (p : Nat) (hp : 2 ≤ p)
    (nm input : String) (fld : Candle K → Num K) (n : Nat) (hk : IsKey nm) (hn : BbNames nm) (hin : AttrInput input)
    (hattr : ∀ c : Candle K, c.attr input = some (.num (fld c))) :
    LifeTotalMgr M (mkTop (.bbands (p : Int) input : Kind K) nm n) (treeLook (.bbands (p : Int) input : Kind K) nm n) :=
  bbands_lifeTotalMgr hM p hp nm input fld n hk hn hin hattr
theorem hma_never_raises_lifespan_mgr {M : TwinMgr K} {MS : MgrSpec K} (hM : M.Matches MS) (p : Nat) (hp : 2 ≤ p)
    (nm input : String) (fld : Candle K → Num K) (n : Nat) (hn : HmaNames nm) (hin : AttrInput input)
    (hattr : ∀ c : Candle K, c.attr input = some (.num (fld c))) :
    LifeTotalMgr M (mkTop (.hma (p : Int) input : Kind K) nm n) (treeLook (.hma (p : Int) input : Kind K) nm n) :=
  hma_lifeTotalMgr hM p hp nm input fld n hn hin hattr
theorem atr_never_raises_lifespan_mgr {M : TwinMgr K} {MS : MgrSpec K} (hM : M.Matches MS) (p : Nat) (hp : 1 ≤ p)
    (nm : String) (n : Nat) (hk : IsKey nm) (hn : AtrNames nm) :
    LifeTotalMgr M (mkTop (.atr (p : Int) : Kind K) nm n) (treeLook (.atr (p : Int) : Kind K) nm n) :=
  atr_lifeTotalMgr hM p hp nm n hk hn
theorem sma_never_raises_lifespan_mgr {M : TwinMgr K} {MS : MgrSpec K} (hM : M.Matches MS) (p : Nat) (hp : 2 ≤ p)
    (nm input : String) (fld : Candle K → Num K) (n : Nat) (hk : IsKey nm) (hin : AttrInput input)
    (hattr : ∀ c : Candle K, c.attr input = some (.num (fld c))) :
    LifeTotalMgr M (mkTop (.sma p input : Kind K) nm n) (treeLook (.sma p input : Kind K) nm n) :=
  sma_lifeTotalMgr hM p hp nm input fld n hk hin hattr

/-- e.g. ATR on `{timeframe, HA, candles_lifespan}`, spelled out -/
example (tf : Int) (htf : 0 < tf) (p : Nat) (hp : 1 ≤ p) (nm : String) (n : Nat) (hk : IsKey nm) (hn : AtrNames nm)
    (life : Int) (init : List (Candle K)) (chunks : List (List (Candle K)))
    (hraw : RawTfHA (init ++ chunks.flatten))
    (hinit : trimCandles (some life) (resample tf init) = .ok (resample tf init))
    (hret : RetainsBuckets (treeLook (.atr (p : Int) : Kind K) nm n) tf life init 0 chunks) :
    ∃ snap d, candlesOf (runIndicator (mkTop (.atr (p : Int) : Kind K) nm n)
        { tf := some tf, ha := true, lifespan := some life } init chunks) = .ok (snap.drop d) ∧
      candlesOf (runIndicator (mkTop (.atr (p : Int) : Kind K) nm n) { tf := some tf, ha := true } init chunks)
        = .ok snap :=
  (atr_never_raises_lifespan_mgr (TwinMgr.matches_tfHA tf htf) p hp nm n hk hn).tfHA life init chunks hraw hinit hret

/-- **… and WITHOUT the retention hypothesis the statement is FALSE on a timeframe manager as well** (open known
finding): SMA(4) on 120 s buckets with a 360 s lifespan, ONE closed bucket retained by the append: `IndexError`, while the
`{timeframe}` twin returns (toy carrier; replayed on the library) -/
theorem lifespan_short_retention_raises_tf :
    candlesOf (runIndicator (mkTop (.sma 4 "close") "SMA_4" 4) { tf := some 120, lifespan := some 360 } lifeTfInit
      lifeTfChunks) = .error .indexError ∧
    (candlesOf (runIndicator (mkTop (.sma 4 "close") "SMA_4" 4) { tf := some 120 } lifeTfInit
      lifeTfChunks)).toOption.isSome ∧
    RawTf (lifeTfInit ++ lifeTfChunks.flatten) ∧
    trimCandles (some 360) (resample 120 lifeTfInit) = .ok (resample 120 lifeTfInit) ∧
    RetainsBuckets 1 120 360 lifeTfInit 0 lifeTfChunks :=
  ⟨sma_raises_after_trim_tf.1, sma_raises_after_trim_tf.2, lifeTf_raw, lifeTf_init, lifeTf_retains1⟩

end Hex.C09

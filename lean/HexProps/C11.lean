import HexProofs.Manager.HA
import HexProofs.Manager2.C11LifeSimple
import HexProofs.Writes.C11LifeMembersFill
import HexProofs.Manager2.C11LifeEx
import HexProofs.Writes.C11DefaultEx
import HexProofs.Writes.C11LifeMembers
import HexProofs.Writes.MembersC11
import HexProofs.Manager2.HATf
import HexProofs.Manager2.HAFill
import HexProofs.Manager2.FillReadingsHA
import HexProofs.Lib.IntInst
import HexProps.C03
/-
C11 – Heikin-Ashi conversion follows its recurrence under every append schedule.
Proved for every float carrier `F`.  Full strength without a timeframe (any schedule, starting
from zero, one or many candles) – `schedule` – with a collapsing timeframe – `schedule_tf`,
`with_timeframe` (= the former `with_timeframe_FULL`, now a theorem for every positive timeframe) –
and with timeframe + gap filling – `schedule_tf_fill`, `with_timeframe_fill` (reading-free input) and, for raw input candles that
already CARRY indicator readings, `with_timeframe_fill_full` (= `with_timeframe_fill_FULL`, now a theorem for every positive
timeframe), `schedule_tf_fill_readings`; converted candles carry no readings (`converted_carry_no_readings`).
-/
namespace Hex.C11
open Hex Hex.C03
variable {F : Type} [PyF F]

def cfgHA : MgrCfg := { ha := true }

/-- raw input candles: not converted, not tagged -/
def RawPlain (xs : List (Candle F)) : Prop := ∀ c ∈ xs, c.tag = false

theorem haSpec_tagged (xs : List (Candle F)) : ∀ c ∈ haSpec xs, c.tag = true := by
  obtain ⟨ext, h1, _, h3⟩ := haFold_prefix xs ([] : List (Candle F))
  intro c hc
  unfold haSpec at hc; rw [h1] at hc
  exact h3 c (by simpa using hc)

theorem tasks_ha (cs : List (Candle F)) :
    tasks cfgHA cs = if cs.isEmpty then .ok cs else convertCandles cs := by
  unfold tasks cfgHA collapseCandles trimCandles
  cases cs with
  | nil => simp [bind, Except.bind]
  | cons c r =>
    simp only [bind, Except.bind, List.isEmpty_cons, Bool.not_false, Bool.and_self, if_true, Bool.false_eq_true, if_false]
    cases convertCandles (c :: r) <;> rfl

/-- **Every append schedule, from any starting size (including empty and one candle).**
The candles indicators see are exactly the left fold of the Heikin-Ashi formulas over the raw
stream, and the run never raises. -/
theorem schedule (init : List (Candle F)) (chunks : List (List (Candle F)))
    (h : RawPlain (init ++ chunks.flatten)) :
    runSchedule cfgHA init chunks = .ok { cfg := cfgHA, candles := haSpec (init ++ chunks.flatten) } := by
  have step : ∀ (s new : List (Candle F)), RawPlain new →
      tasks cfgHA (haSpec s ++ new) = .ok (haSpec (s ++ new)) := by
    intro s new hnew
    rw [tasks_ha]
    by_cases he : (haSpec s ++ new).isEmpty = true
    · have h1 : haSpec s = [] ∧ new = [] := by simpa using he
      have hs : s = [] := by
        obtain ⟨ext, e1, e2, _⟩ := haFold_prefix s ([] : List (Candle F))
        unfold haSpec at h1; rw [e1] at h1
        have : ext = [] := by simpa using h1.1
        rw [this] at e2; simpa using e2.symm
      simp [he, h1.2, hs, haSpec, haFold]
    · simp only [he, Bool.false_eq_true, if_false]
      rw [convertCandles_resume (haSpec s) new (haSpec_tagged s) hnew]
      unfold haSpec; rw [haFold_append]
  unfold runSchedule Manager.init
  have h0 := step [] init (fun c hc => h c (by simp [hc]))
  simp only [haSpec, haFold, List.nil_append] at h0
  rw [h0]
  simp only [bind, Except.bind]
  suffices H : ∀ (chunks : List (List (Candle F))) (s : List (Candle F)), RawPlain chunks.flatten →
      chunks.foldlM (fun (m : Manager F) ch => m.append ch) { cfg := cfgHA, candles := haSpec s }
        = .ok { cfg := cfgHA, candles := haSpec (s ++ chunks.flatten) } from
    H chunks init (fun c hc => h c (by simp [hc]))
  intro chunks
  induction chunks with
  | nil => intro s _; simp [List.foldlM, pure, Except.pure]
  | cons ch rest ih =>
    intro s hs
    have hch : RawPlain ch := fun c hc => hs c (by simp [hc])
    have hrest : RawPlain rest.flatten := fun c hc => hs c (by simp at hc ⊢; exact Or.inr hc)
    simp only [List.foldlM_cons, bind, Except.bind]
    have happ : Manager.append ({ cfg := cfgHA, candles := haSpec s } : Manager F) ch
        = .ok { cfg := cfgHA, candles := haSpec (s ++ ch) } := by
      unfold Manager.append
      by_cases hc : ch = []
      · subst hc; simp
      · have : ch.isEmpty = false := by cases ch <;> simp at hc ⊢
        simp only [this, Bool.false_eq_true, if_false, step s ch hch, bind, Except.bind]
        rfl
    rw [happ]
    have := ih (s ++ ch) hrest
    simpa [List.append_assoc] using this

/-- **The formulas.**  HA-close = (o+h+l+c)/4; HA-open = (prev HA-open + prev HA-close)/2, first
candle (o+c)/2; HA-high = max(HA-open, h, HA-close); HA-low = min(HA-open, l, HA-close). -/
theorem formulas (c : Candle F) (prev : Option (Candle F)) :
    let hc := Num.flt (PyF.div (((c.o.add c.h).add c.l).add c.c).toF (PyF.ofInt 4))
    let ho := match prev with
      | none => Num.flt (PyF.div (c.o.add c.c).toF (PyF.ofInt 2))
      | some p => Num.flt (PyF.div (p.o.add p.c).toF (PyF.ofInt 2))
    (haCandle c prev).c = hc ∧ (haCandle c prev).o = ho ∧
    (haCandle c prev).h = Num.max2 (Num.max2 ho c.h) hc ∧
    (haCandle c prev).l = Num.min2 (Num.min2 ho c.l) hc ∧ (haCandle c prev).v = c.v := by
  cases prev <;> simp [haCandle, haValues]

/-- **Raw values stay recoverable** -/
theorem raw_values_recoverable (c : Candle F) (prev : Option (Candle F)) :
    let r := (haCandle c prev).recoverClean
    r.o = c.o ∧ r.h = c.h ∧ r.l = c.l ∧ r.c = c.c ∧ r.v = c.v ∧ r.ts = c.ts :=
  raw_recoverable c prev

/-- **Converted exactly once**: every candle the indicators see is tagged, and a tagged prefix
is never converted again (the resume index is its length). -/
theorem converted_once (done fresh : List (Candle F)) (hd : ∀ c ∈ done, c.tag = true)
    (hf : ∀ c ∈ fresh, c.tag = false) :
    findConvIndex (done ++ fresh) = done.length ∧ ∃ ext, haFold done fresh = done ++ ext :=
  ⟨findConvIndex_split done fresh hd hf, by obtain ⟨e, h, _⟩ := haFold_prefix fresh done; exact ⟨e, h⟩⟩

/-- full-strength statement with a collapsing timeframe (proved below: `with_timeframe`) -/
def with_timeframe_FULL (tf : Int) : Prop :=
  ∀ (init : List (Candle F)) (chunks : List (List (Candle F))), RawStream (init ++ chunks.flatten) →
    RawPlain (init ++ chunks.flatten) →
    runSchedule ({ tf := some tf, ha := true } : MgrCfg) init chunks
      = .ok { cfg := { tf := some tf, ha := true }, candles := haSpec (resample tf (init ++ chunks.flatten)) }

omit [PyF F] in
theorem rawHA_of {xs : List (Candle F)} (h : RawStream xs) (hp : RawPlain xs) : RawHA xs :=
  ⟨h.stamped, fun c hc => ⟨hp c hc, h.plain c hc⟩, h.sorted⟩

/-- **Every append schedule on a collapsing timeframe, from any starting size (including empty
and one candle).**  After construction with `init` and appending the chunks one call at a time the
candles indicators see are exactly the Heikin-Ashi left fold over the COLLAPSED RAW buckets of the
whole stream (`resample tf`: right-closed, right-labelled OHLCV buckets, C03), and no call raises.
Mechanics covered: `Candle.merge` restores the raw values of the re-opened newest bucket and clears
its tag; `_find_conv_index` resumes right after the still-tagged buckets; the re-opened bucket is
converted again from the same (still converted) predecessor. -/
theorem schedule_tf (tf : Int) (htf : 0 < tf) (init : List (Candle F)) (chunks : List (List (Candle F)))
    (h : RawStream (init ++ chunks.flatten)) (hp : RawPlain (init ++ chunks.flatten)) :
    runSchedule (cfgTfHA tf) init chunks
      = .ok { cfg := cfgTfHA tf, candles := haSpec (resample tf (init ++ chunks.flatten)) } := by
  have hraw : RawHA (init ++ chunks.flatten) := rawHA_of h hp
  unfold runSchedule Manager.init
  have h0 := tasks_tf_ha_append tf htf [] init (by simpa using hraw.append_left)
  simp only [resample, resampleR, List.foldl_nil, List.reverse_nil, haSpec_nil, List.nil_append] at h0
  rw [h0]
  simp only [bind, Except.bind]
  suffices H : ∀ (chunks : List (List (Candle F))) (s : List (Candle F)), RawHA (s ++ chunks.flatten) →
      chunks.foldlM (fun (m : Manager F) ch => m.append ch)
          { cfg := cfgTfHA tf, candles := haSpec (resample tf s) }
        = .ok { cfg := cfgTfHA tf, candles := haSpec (resample tf (s ++ chunks.flatten)) } from
    H chunks init hraw
  intro chunks
  induction chunks with
  | nil => intro s _; simp [List.foldlM, pure, Except.pure]
  | cons ch rest ih =>
    intro s hs
    have hs' : RawHA ((s ++ ch) ++ rest.flatten) := by simpa [List.append_assoc] using hs
    simp only [List.foldlM_cons, bind, Except.bind]
    have happ : Manager.append ({ cfg := cfgTfHA tf, candles := haSpec (resample tf s) } : Manager F) ch
        = .ok { cfg := cfgTfHA tf, candles := haSpec (resample tf (s ++ ch)) } := by
      unfold Manager.append
      by_cases hc : ch = []
      · subst hc; simp
      · have : ch.isEmpty = false := by cases ch <;> simp at hc ⊢
        simp only [this, Bool.false_eq_true, if_false, tasks_tf_ha_append tf htf s ch hs'.append_left,
          bind, Except.bind]
        rfl
    rw [happ]
    have := ih (s ++ ch) hs'
    simpa [List.append_assoc] using this

/-- the former `with_timeframe_FULL`, for every positive timeframe -/
theorem with_timeframe (tf : Int) (htf : 0 < tf) : with_timeframe_FULL (F := F) tf :=
  fun init chunks h hp => schedule_tf tf htf init chunks h hp

/-- **Converted exactly once per (re)opening, raw values recoverable – with a timeframe.**
Every candle of the result is tagged and carries as `clean_values` the OHLCV and the (aligned)
timestamp of the collapsed raw bucket at the same position. -/
theorem tf_clean_values (tf : Int) (xs : List (Candle F)) :
    List.Forall₂ (fun b z => z.tag = true ∧ z.ts = b.ts ∧ z.inds = [] ∧ z.subs = [] ∧
        z.clean = some { o := b.o, h := b.h, l := b.l, c := b.c, v := b.v, ts := b.ts })
      (resample tf xs) (haSpec (resample tf xs)) :=
  (haSpec_rel (resample tf xs)).clean_values

/-- merging a later raw candle into a converted bucket is merging it into the raw bucket: the
bucket is reset to raw (tag cleared, no saved values) and will be converted again -/
theorem merge_restores_raw (b x : Candle F) (p : Option (Candle F)) (hb : b.clean = none) :
    (haCandle b p).merge x = b.merge x ∧ (b.merge x).tag = false ∧ (b.merge x).clean = none :=
  ⟨merge_haCandle b x p hb, (untouched_merge b x).1, (untouched_merge b x).2⟩

/-! ### timeframe + gap filling + Heikin-Ashi -/

/-- full-strength statement with a collapsing timeframe AND `timeframe_fill`: the candles are the
Heikin-Ashi fold over the gap-filled resampling (`spec` = the gap-filled bucket list; C12 says what
it is).  Proved below: `with_timeframe_fill` for input candles that carry no readings, and
`with_timeframe_fill_full` for raw input candles that already carry indicator readings (every positive timeframe;
HexProofs/Manager2/FillReadings*.lean re-prove the gap-fill lemmas without the reading-free hypothesis). -/
def with_timeframe_fill_FULL (tf : Int) : Prop :=
  ∀ (init : List (Candle F)) (chunks : List (List (Candle F))) (spec : List (Candle F)),
    RawStream (init ++ chunks.flatten) → RawPlain (init ++ chunks.flatten) →
    fillMissing tf (resample tf (init ++ chunks.flatten)) = .ok spec →
    runSchedule ({ tf := some tf, fill := true, ha := true } : MgrCfg) init chunks
      = .ok { cfg := { tf := some tf, fill := true, ha := true }, candles := haSpec spec }

omit [PyF F] in
theorem rawTf_of {xs : List (Candle F)} (h : RawStream xs) (hnr : ∀ c ∈ xs, Plain c) : RawTf xs :=
  ⟨h.stamped, h.plain, h.sorted, hnr⟩

/-- **Every append schedule with timeframe + gap filling + Heikin-Ashi.**  The candles indicators
see are the Heikin-Ashi left fold over the gap-filled collapsed RAW buckets (`fillSpec`), the fill
pass of the specification succeeds, and no call raises.  Fill candles are inserted with the RAW
close of their (converted) predecessor and are converted like every other bucket. -/
theorem schedule_tf_fill (tf : Int) (htf : 0 < tf) (init : List (Candle F)) (chunks : List (List (Candle F)))
    (h : RawStream (init ++ chunks.flatten)) (hp : RawPlain (init ++ chunks.flatten))
    (hnr : ∀ c ∈ init ++ chunks.flatten, Plain c) :
    runSchedule (cfgFillHA tf) init chunks
      = .ok { cfg := cfgFillHA tf, candles := haSpec (fillSpec tf (init ++ chunks.flatten)) } ∧
    fillMissing tf (resample tf (init ++ chunks.flatten)) = .ok (fillSpec tf (init ++ chunks.flatten)) := by
  have hraw := rawTf_of h hnr
  refine ⟨run_fill_ha_schedule tf htf init chunks hraw hp, ?_⟩
  obtain ⟨Z, hZ⟩ := filledOf tf htf _ hraw
  rw [hZ.spec_eq]; exact hZ.eq

/-- `with_timeframe_fill_FULL` for reading-free input candles -/
theorem with_timeframe_fill (tf : Int) (htf : 0 < tf) (init : List (Candle F)) (chunks : List (List (Candle F)))
    (spec : List (Candle F)) (h : RawStream (init ++ chunks.flatten)) (hp : RawPlain (init ++ chunks.flatten))
    (hnr : ∀ c ∈ init ++ chunks.flatten, Plain c)
    (hspec : fillMissing tf (resample tf (init ++ chunks.flatten)) = .ok spec) :
    runSchedule ({ tf := some tf, fill := true, ha := true } : MgrCfg) init chunks
      = .ok { cfg := { tf := some tf, fill := true, ha := true }, candles := haSpec spec } := by
  obtain ⟨h1, h2⟩ := schedule_tf_fill tf htf init chunks h hp hnr
  rw [hspec] at h2
  rw [Except.ok.inj h2]
  exact h1

/-! ### non-vacuity -/

example : RawStream C03.demo ∧ RawPlain C03.demo :=
  ⟨⟨by decide, by decide, by decide⟩, by unfold RawPlain; decide⟩

/-- the three-candle demo stream, appended one candle at a time from an EMPTY manager on a
60-second timeframe, ends with two converted buckets stamped 120 and 180 -/
example : (runSchedule (cfgTfHA 60) [] [[C03.demo[0]], [C03.demo[1]], [C03.demo[2]]]).toOption.map
      (fun m => m.candles.map (fun c => (c.ts, c.tag)))
    = some [(some 120, true), (some 180, true)] := by decide

/-- a gap: candles stamped 61 and 241 on a 60-second timeframe, appended one at a time from an EMPTY
manager with fill: buckets 120, 180 (fill), 240 (fill), 300 – all converted -/
def gapDemo : List (Candle Int) :=
  [ { o := .int 1, h := .int 3, l := .int 1, c := .int 2, v := .int 10, ts := some 61 },
    { o := .int 4, h := .int 4, l := .int 0, c := .int 1, v := .int 5, ts := some 241 } ]

example : RawStream gapDemo ∧ RawPlain gapDemo ∧ ∀ c ∈ gapDemo, Plain c :=
  ⟨⟨by decide, by decide, by decide⟩, by unfold RawPlain; decide, by decide⟩

example : (runSchedule (cfgFillHA 60) [] [[gapDemo[0]], [gapDemo[1]]]).toOption.map
      (fun m => m.candles.map (fun c => (c.ts, c.tag, c.v)))
    = some [(some 120, true, .int 10), (some 180, true, .int 0), (some 240, true, .int 0), (some 300, true, .int 5)] := rfl

/-- **`with_timeframe_fill_FULL` for every positive timeframe**: raw input candles may carry any
indicator readings (conversion and merging wipe them, nothing reads them). -/
theorem with_timeframe_fill_full (tf : Int) (htf : 0 < tf) : with_timeframe_fill_FULL (F := F) tf :=
  fun init chunks spec h hp hspec =>
    withTimeframeFillFULL tf htf init chunks spec ⟨h.stamped, h.plain, h.sorted⟩ hp hspec

/-- **Every append schedule with timeframe + gap filling + Heikin-Ashi, input candles carrying any
readings** (`schedule_tf_fill` without its `Plain` hypothesis). -/
theorem schedule_tf_fill_readings (tf : Int) (htf : 0 < tf) (init : List (Candle F)) (chunks : List (List (Candle F)))
    (h : RawStream (init ++ chunks.flatten)) (hp : RawPlain (init ++ chunks.flatten)) :
    runSchedule (cfgFillHA tf) init chunks
      = .ok { cfg := cfgFillHA tf, candles := haSpec (fillSpec tf (init ++ chunks.flatten)) } ∧
    fillMissing tf (resample tf (init ++ chunks.flatten)) = .ok (fillSpec tf (init ++ chunks.flatten)) :=
  fill_ha_schedule_readings tf htf init chunks ⟨h.stamped, h.plain, h.sorted⟩ hp

/-- after conversion no candle carries a reading -/
theorem converted_carry_no_readings (xs : List (Candle F)) :
    ∀ z ∈ haSpec xs, z.inds = [] ∧ z.subs = [] ∧ z.tag = true := haSpec_noEntries xs

/-- non-vacuity: a two-bucket gap, three input candles carry `"X" ↦ 5` -/
example : RawStream readingsDemo ∧ RawPlain readingsDemo ∧ ¬ (∀ c ∈ readingsDemo, Plain c) :=
  ⟨⟨by decide, by decide, by decide⟩, by unfold RawPlain; decide, by decide⟩

example : (runSchedule (cfgFillHA 60) [readingsDemo[0]]
      [[readingsDemo[1], readingsDemo[2]], [], [readingsDemo[3]], [readingsDemo[4]]]).toOption.map
      (fun m => m.candles.map (fun c => (c.ts, c.tag, numI c.v, c.inds.length, c.subs.length)))
    = some [ (some 120, true, 30, 0, 0), (some 180, true, 0, 0, 0), (some 240, true, 0, 0, 0),
             (some 300, true, 5, 0, 0), (some 360, true, 3, 0, 0), (some 420, true, 1, 0, 0) ] := by
  decide +kernel

/-! ### member managers of a Heikin-Ashi Hexital (HexProofs/Writes/MembersC11.lean) -/

/-- **Every member's manager is, readings aside, the bare `CandleManager`** with the member's effective configuration
constructed from the same candles and fed the appended chunks – any Hexital-level configuration, any program of
façade operations (`Hexital.append` feeds every manager the raw chunk). -/
theorem member_manager_is_bare {N : List String} {members : List (Member F)} {mem : Member F}
    (hm : MemberHyps N members mem) (cfg : MgrCfg) (tfn : Option String) (init : List (Candle F))
    (ops : List (TwinOp F)) (H : Hexital F) (hops : ∀ op, op ∈ ops → op.OK N mem.tree.name)
    (hrun : runHexital cfg tfn init members ops = .ok H) :
    ∃ m bm, H.memberManager mem.tree.name = some m ∧
      runSchedule (mem.effCfg cfg) init (appendedBy ops) = .ok bm ∧
      m.cfg = bm.cfg ∧ m.candles.map Candle.core = bm.candles.map Candle.core :=
  member_manager_bare hm cfg tfn init ops H hops hrun

/-- **C11 inside a Hexital, member without effective timeframe**: the Heikin-Ashi left fold over the raw stream -/
theorem member_schedule {N : List String} {members : List (Member F)} {mem : Member F}
    (hm : MemberHyps N members mem) (htfx : Option Int) (tfn : Option String) (heff : mem.effTf htfx = none)
    (init : List (Candle F)) (ops : List (TwinOp F)) (H : Hexital F)
    (hops : ∀ op, op ∈ ops → op.OK N mem.tree.name)
    (hraw : RawPlain (init ++ (appendedBy ops).flatten))
    (hrun : runHexital { tf := htfx, ha := true } tfn init members ops = .ok H) :
    ∃ m, H.memberManager mem.tree.name = some m ∧ m.cfg = cfgHA ∧
      m.candles.map Candle.core = (haSpec (init ++ (appendedBy ops).flatten)).map Candle.core :=
  member_ha hm htfx tfn heff init ops H hops hraw hrun

/-- **… member on a collapsing timeframe** (its own, or the Hexital's): the Heikin-Ashi left fold over the collapsed
RAW buckets – each member manager converts its own buckets -/
theorem member_schedule_tf {N : List String} {members : List (Member F)} {mem : Member F}
    (hm : MemberHyps N members mem) (htfx : Option Int) (tfn : Option String) (tf : Int) (htf : 0 < tf)
    (heff : mem.effTf htfx = some tf) (init : List (Candle F)) (ops : List (TwinOp F)) (H : Hexital F)
    (hops : ∀ op, op ∈ ops → op.OK N mem.tree.name)
    (h : RawStream (init ++ (appendedBy ops).flatten)) (hp : RawPlain (init ++ (appendedBy ops).flatten))
    (hrun : runHexital { tf := htfx, ha := true } tfn init members ops = .ok H) :
    ∃ m, H.memberManager mem.tree.name = some m ∧ m.cfg = cfgTfHA tf ∧
      m.candles.map Candle.core
        = (haSpec (resample tf (init ++ (appendedBy ops).flatten))).map Candle.core :=
  member_ha_tf hm htfx tfn tf htf heff init ops H hops (rawHA_of h hp) hrun

/-- **… with `timeframe_fill`**: the Heikin-Ashi left fold over the gap-filled collapsed raw buckets; the raw candles
may carry any readings -/
theorem member_schedule_tf_fill {N : List String} {members : List (Member F)} {mem : Member F}
    (hm : MemberHyps N members mem) (htfx : Option Int) (tfn : Option String) (tf : Int) (htf : 0 < tf)
    (heff : mem.effTf htfx = some tf) (init : List (Candle F)) (ops : List (TwinOp F)) (H : Hexital F)
    (hops : ∀ op, op ∈ ops → op.OK N mem.tree.name)
    (h : RawStream (init ++ (appendedBy ops).flatten)) (hp : RawPlain (init ++ (appendedBy ops).flatten))
    (hrun : runHexital { tf := htfx, fill := true, ha := true } tfn init members ops = .ok H) :
    ∃ m, H.memberManager mem.tree.name = some m ∧ m.cfg = cfgFillHA tf ∧
      m.candles.map Candle.core
        = (haSpec (fillSpec tf (init ++ (appendedBy ops).flatten))).map Candle.core :=
  member_ha_tf_fill hm htfx tfn tf htf heff init ops H hops ⟨h.stamped, h.plain, h.sorted⟩ hp hrun

/-- non-vacuity: `T2`, `T3` and default manager of one Heikin-Ashi Hexital; `T1` + fill Hexital with a gap -/
example := @MembersC11Ex.applied
example := @MembersC11Ex.appliedF

#print axioms member_manager_is_bare
#print axioms member_schedule
#print axioms member_schedule_tf
#print axioms member_schedule_tf_fill


open Hex Hex.C03
variable {F : Type} [PyF F]

/-! ### Heikin-Ashi + lifespan (HexProofs/Manager2/C11Life.lean) -/

/-- **Heikin-Ashi + lifespan, no timeframe: every append schedule, every lifespan `≥ 0`, NO retention hypothesis.**  The
run never raises and the manager holds the Heikin-Ashi left fold over the WHOLE raw stream minus the popped leading
candles (`poppedAfter`: the sum of what each trim pops) – trimming never causes a re-conversion or a conversion from a
wrong predecessor (a trim never pops the newest candle). -/
theorem life_schedule (life : Int) (hlife : 0 ≤ life) (init : List (Candle F)) (chunks : List (List (Candle F)))
    (hp : RawPlain (init ++ chunks.flatten)) (hnr : ∀ c ∈ init ++ chunks.flatten, Plain c) :
    runSchedule ({ ha := true, lifespan := some life } : MgrCfg) init chunks
      = .ok { cfg := { ha := true, lifespan := some life },
              candles := (haSpec (init ++ chunks.flatten)).drop
                (poppedAfter haSpec life init (poppedBy life (haSpec init)) chunks) } :=
  ha_life_schedule life hlife init chunks (fun c hc => ⟨hnr c hc, hp c hc⟩)

/-- **… on a collapsing timeframe**, under `KeepsPredecessor`: at every non-empty append nothing has been popped yet or
one CLOSED bucket (one the append does not re-open) is still held -/
theorem life_schedule_tf (tf : Int) (htf : 0 < tf) (life : Int) (hlife : 0 ≤ life) (init : List (Candle F))
    (chunks : List (List (Candle F))) (h : RawStream (init ++ chunks.flatten))
    (hp : RawPlain (init ++ chunks.flatten)) (hnr : ∀ c ∈ init ++ chunks.flatten, Plain c)
    (hk : KeepsPredecessor (fun s => haSpec (resample tf s)) (closedBuckets tf) life init
            (poppedBy life (haSpec (resample tf init))) chunks) :
    runSchedule ({ tf := some tf, ha := true, lifespan := some life } : MgrCfg) init chunks
      = .ok { cfg := { tf := some tf, ha := true, lifespan := some life },
              candles := (haSpec (resample tf (init ++ chunks.flatten))).drop
                (poppedAfter (fun s => haSpec (resample tf s)) life init
                  (poppedBy life (haSpec (resample tf init))) chunks) } :=
  tf_ha_life_schedule tf htf life hlife init chunks ⟨⟨h.stamped, h.plain, h.sorted, hnr⟩, hp⟩ hk

/-- … under C15's hypothesis (`RetainsBuckets L`, any `L ≥ 1`, nothing popped at construction) -/
theorem life_schedule_tf_retains (tf : Int) (htf : 0 < tf) (life : Int) (hlife : 0 ≤ life) (L : Nat) (hL : 1 ≤ L)
    (init : List (Candle F)) (chunks : List (List (Candle F))) (h : RawStream (init ++ chunks.flatten))
    (hp : RawPlain (init ++ chunks.flatten)) (hnr : ∀ c ∈ init ++ chunks.flatten, Plain c)
    (hinit : trimCandles (some life) (resample tf init) = .ok (resample tf init))
    (hret : RetainsBuckets L tf life init 0 chunks) :
    runSchedule ({ tf := some tf, ha := true, lifespan := some life } : MgrCfg) init chunks
      = .ok { cfg := { tf := some tf, ha := true, lifespan := some life },
              candles := (haSpec (resample tf (init ++ chunks.flatten))).drop
                (poppedAfter (fun s => haSpec (resample tf s)) life init 0 chunks) } :=
  tf_ha_life_schedule_retains tf htf life hlife L hL init chunks ⟨⟨h.stamped, h.plain, h.sorted, hnr⟩, hp⟩ hinit hret

/-- **… with `timeframe_fill`** -/
theorem life_schedule_tf_fill (tf : Int) (htf : 0 < tf) (life : Int) (hlife : 0 ≤ life) (init : List (Candle F))
    (chunks : List (List (Candle F))) (h : RawStream (init ++ chunks.flatten))
    (hp : RawPlain (init ++ chunks.flatten)) (hnr : ∀ c ∈ init ++ chunks.flatten, Plain c)
    (hk : KeepsPredecessor (fun s => haSpec (fillSpec tf s)) (closedFilled tf) life init
            (poppedBy life (haSpec (fillSpec tf init))) chunks) :
    runSchedule ({ tf := some tf, fill := true, ha := true, lifespan := some life } : MgrCfg) init chunks
      = .ok { cfg := { tf := some tf, fill := true, ha := true, lifespan := some life },
              candles := (haSpec (fillSpec tf (init ++ chunks.flatten))).drop
                (poppedAfter (fun s => haSpec (fillSpec tf s)) life init
                  (poppedBy life (haSpec (fillSpec tf init))) chunks) } :=
  fill_ha_life_schedule tf htf life hlife init chunks ⟨⟨h.stamped, h.plain, h.sorted, hnr⟩, hp⟩ hk

theorem life_schedule_tf_fill_retains (tf : Int) (htf : 0 < tf) (life : Int) (hlife : 0 ≤ life) (L : Nat)
    (hL : 1 ≤ L) (init : List (Candle F)) (chunks : List (List (Candle F)))
    (h : RawStream (init ++ chunks.flatten)) (hp : RawPlain (init ++ chunks.flatten))
    (hnr : ∀ c ∈ init ++ chunks.flatten, Plain c)
    (hinit : trimCandles (some life) (fillSpec tf init) = .ok (fillSpec tf init))
    (hret : RetainsFilled L tf life init 0 chunks) :
    runSchedule ({ tf := some tf, fill := true, ha := true, lifespan := some life } : MgrCfg) init chunks
      = .ok { cfg := { tf := some tf, fill := true, ha := true, lifespan := some life },
              candles := (haSpec (fillSpec tf (init ++ chunks.flatten))).drop
                (poppedAfter (fun s => haSpec (fillSpec tf s)) life init 0 chunks) } :=
  fill_ha_life_schedule_retains tf htf life hlife L hL init chunks ⟨⟨h.stamped, h.plain, h.sorted, hnr⟩, hp⟩ hinit
    hret

/-- **Without the retention hypothesis the timeframe statement is FALSE** (lifespan 60 s on 120 s buckets: the trim
leaves only the still-forming bucket, the next merge clears its tag and it is converted as if it were the first candle
ever; replayed on the library: HA-open 65.0 instead of 45.0). -/
theorem life_schedule_tf_needs_predecessor :
    ¬ (∀ (tf : Int), 0 < tf → ∀ (life : Int), 0 ≤ life →
        ∀ (init : List (Candle Int)) (chunks : List (List (Candle Int))), RawTfHA (init ++ chunks.flatten) →
        ∃ m d, runSchedule ({ tf := some tf, ha := true, lifespan := some life } : MgrCfg) init chunks = .ok m ∧
          m.candles = (haSpec (resample tf (init ++ chunks.flatten))).drop d) :=
  C11LifeEx.tf_ha_life_needs_predecessor

/-! ### the default manager of a Hexital none of whose members lives on it (HexProofs/Writes/C11Default.lean) -/

/-- **The default manager nobody lives on IS the bare manager** – any Hexital-level configuration, any program -/
theorem default_manager_is_bare (cfg : MgrCfg) (tfn : Option String) (init : List (Candle F))
    (members : List (Member F)) (ops : List (TwinOp F)) (H : Hexital F) (hmem : ∀ m, m ∈ members → m.OwnTf)
    (hops : ∀ op, op ∈ ops → op.OwnTf) (hrun : runHexital cfg tfn init members ops = .ok H) :
    ∃ dm, runSchedule cfg init (appendedBy ops) = .ok dm ∧ H.manager defaultKey = .ok dm ∧
      ∀ n hi, dlookup n H.indicators = some hi → hi.mgrKey ≠ defaultKey :=
  default_manager_bare cfg tfn init members ops H hmem hops hrun

/-- **C11 for that manager, Hexital without timeframe** -/
theorem default_schedule (tfn : Option String) (init : List (Candle F)) (members : List (Member F))
    (ops : List (TwinOp F)) (H : Hexital F) (hmem : ∀ m, m ∈ members → m.OwnTf) (hops : ∀ op, op ∈ ops → op.OwnTf)
    (hraw : RawPlain (init ++ (appendedBy ops).flatten))
    (hrun : runHexital { ha := true } tfn init members ops = .ok H) :
    H.manager defaultKey = .ok { cfg := cfgHA, candles := haSpec (init ++ (appendedBy ops).flatten) } :=
  default_ha tfn init members ops H hmem hops hraw hrun

/-- **… Hexital-level collapsing timeframe** -/
theorem default_schedule_tf (tf : Int) (htf : 0 < tf) (tfn : Option String) (init : List (Candle F))
    (members : List (Member F)) (ops : List (TwinOp F)) (H : Hexital F) (hmem : ∀ m, m ∈ members → m.OwnTf)
    (hops : ∀ op, op ∈ ops → op.OwnTf) (h : RawStream (init ++ (appendedBy ops).flatten))
    (hp : RawPlain (init ++ (appendedBy ops).flatten))
    (hrun : runHexital { tf := some tf, ha := true } tfn init members ops = .ok H) :
    H.manager defaultKey
      = .ok { cfg := cfgTfHA tf, candles := haSpec (resample tf (init ++ (appendedBy ops).flatten)) } :=
  default_ha_tf tf htf tfn init members ops H hmem hops (rawHA_of h hp) hrun

/-- **… with `timeframe_fill`** (raw candles may carry any readings) -/
theorem default_schedule_tf_fill (tf : Int) (htf : 0 < tf) (tfn : Option String) (init : List (Candle F))
    (members : List (Member F)) (ops : List (TwinOp F)) (H : Hexital F) (hmem : ∀ m, m ∈ members → m.OwnTf)
    (hops : ∀ op, op ∈ ops → op.OwnTf) (h : RawStream (init ++ (appendedBy ops).flatten))
    (hp : RawPlain (init ++ (appendedBy ops).flatten))
    (hrun : runHexital { tf := some tf, fill := true, ha := true } tfn init members ops = .ok H) :
    H.manager defaultKey
      = .ok { cfg := cfgFillHA tf, candles := haSpec (fillSpec tf (init ++ (appendedBy ops).flatten)) } :=
  default_ha_tf_fill tf htf tfn init members ops H hmem hops ⟨h.stamped, h.plain, h.sorted⟩ hp hrun

/-! ### Heikin-Ashi + lifespan inside a Hexital (HexProofs/Writes/C11LifeMembers.lean) -/

/-- member without effective timeframe of a Heikin-Ashi Hexital with a lifespan: unconditional -/
theorem member_life_schedule {N : List String} {members : List (Member F)} {mem : Member F}
    (hm : MemberHyps N members mem) (htfx : Option Int) (tfn : Option String) (heff : mem.effTf htfx = none)
    (life : Int) (hlife : 0 ≤ life) (init : List (Candle F)) (ops : List (TwinOp F)) (H : Hexital F)
    (hops : ∀ op, op ∈ ops → op.OK N mem.tree.name)
    (hraw : RawPlain (init ++ (appendedBy ops).flatten)) (hnr : ∀ c ∈ init ++ (appendedBy ops).flatten, Plain c)
    (hrun : runHexital { tf := htfx, ha := true, lifespan := some life } tfn init members ops = .ok H) :
    ∃ m, H.memberManager mem.tree.name = some m ∧ m.cfg = { ha := true, lifespan := some life } ∧
      m.candles.map Candle.core = ((haSpec (init ++ (appendedBy ops).flatten)).drop
        (poppedAfter haSpec life init (poppedBy life (haSpec init)) (appendedBy ops))).map Candle.core :=
  member_ha_life hm htfx tfn heff life hlife init ops H hops (fun c hc => ⟨hnr c hc, hraw c hc⟩) hrun

/-- the default manager nobody lives on, Heikin-Ashi Hexital with a lifespan, no timeframe: unconditional -/
theorem default_life_schedule (life : Int) (hlife : 0 ≤ life) (tfn : Option String) (init : List (Candle F))
    (members : List (Member F)) (ops : List (TwinOp F)) (H : Hexital F) (hmem : ∀ m, m ∈ members → m.OwnTf)
    (hops : ∀ op, op ∈ ops → op.OwnTf) (hraw : RawPlain (init ++ (appendedBy ops).flatten))
    (hnr : ∀ c ∈ init ++ (appendedBy ops).flatten, Plain c)
    (hrun : runHexital { ha := true, lifespan := some life } tfn init members ops = .ok H) :
    H.manager defaultKey
      = .ok { cfg := { ha := true, lifespan := some life },
              candles := (haSpec (init ++ (appendedBy ops).flatten)).drop
                (poppedAfter haSpec life init (poppedBy life (haSpec init)) (appendedBy ops)) } :=
  default_ha_life life hlife tfn init members ops H hmem hops (fun c hc => ⟨hnr c hc, hraw c hc⟩) hrun

example := @member_tf_ha_life
example := @default_tf_ha_life

/-- non-vacuity -/
example := @C11DefaultEx.applied
example := @C11DefaultEx.applied0

#print axioms life_schedule
#print axioms life_schedule_tf
#print axioms life_schedule_tf_retains
#print axioms life_schedule_tf_fill
#print axioms life_schedule_tf_fill_retains
#print axioms life_schedule_tf_needs_predecessor
#print axioms default_manager_is_bare
#print axioms default_schedule
#print axioms default_schedule_tf
#print axioms default_schedule_tf_fill
#print axioms member_life_schedule
#print axioms default_life_schedule


open Hex Hex.C03
variable {F : Type} [PyF F]

/-! ### Heikin-Ashi + lifespan on a gap-filled timeframe: a condition on the configuration alone
(HexProofs/Manager2/C11LifeSimple.lean, HexProofs/Writes/C11LifeMembersFill.lean) -/

/-- **`tf ≤ life` (seconds) on a gap-filled timeframe implies `KeepsPredecessor`** – filled candles are exactly one
timeframe apart, so a lifespan of at least one timeframe always retains the candle before the newest one -/
theorem keeps_predecessor_of_fill_le (tf : Int) (htf : 0 < tf) (life : Int) (hle : tf ≤ life)
    (init : List (Candle F)) (chunks : List (List (Candle F))) (h : RawStream (init ++ chunks.flatten))
    (hp : RawPlain (init ++ chunks.flatten)) (hnr : ∀ c ∈ init ++ chunks.flatten, Plain c) :
    KeepsPredecessor (fun s => haSpec (fillSpec tf s)) (closedFilled tf) life init
      (poppedBy life (haSpec (fillSpec tf init))) chunks :=
  keepsPredecessor_of_fill_le tf htf life hle init chunks ⟨⟨h.stamped, h.plain, h.sorted, hnr⟩, hp⟩

/-- **Heikin-Ashi + lifespan + `timeframe_fill`, lifespan of at least one timeframe: NO retention hypothesis** -/
theorem life_schedule_tf_fill_of_le (tf : Int) (htf : 0 < tf) (life : Int) (hle : tf ≤ life) (init : List (Candle F))
    (chunks : List (List (Candle F))) (h : RawStream (init ++ chunks.flatten))
    (hp : RawPlain (init ++ chunks.flatten)) (hnr : ∀ c ∈ init ++ chunks.flatten, Plain c) :
    runSchedule ({ tf := some tf, fill := true, ha := true, lifespan := some life } : MgrCfg) init chunks
      = .ok { cfg := { tf := some tf, fill := true, ha := true, lifespan := some life },
              candles := (haSpec (fillSpec tf (init ++ chunks.flatten))).drop
                (poppedAfter (fun s => haSpec (fillSpec tf s)) life init
                  (poppedBy life (haSpec (fillSpec tf init))) chunks) } :=
  fill_ha_life_schedule_of_le tf htf life hle init chunks ⟨⟨h.stamped, h.plain, h.sorted, hnr⟩, hp⟩

/-- **the bound is sharp**: with `life = tf - 1` the manager does not always end with a suffix of the Heikin-Ashi fold
(120 s filled buckets, lifespan 119 s; replayed on the library: HA-open 65.0 instead of 45.0) -/
theorem life_schedule_tf_fill_le_sharp :
    ¬ (∀ (tf : Int), 0 < tf → ∀ (life : Int), tf - 1 ≤ life →
        ∀ (init : List (Candle Int)) (chunks : List (List (Candle Int))), RawTfHA (init ++ chunks.flatten) →
        ∃ m d, runSchedule ({ tf := some tf, fill := true, ha := true, lifespan := some life } : MgrCfg) init chunks
            = .ok m ∧
          m.candles = (haSpec (fillSpec tf (init ++ chunks.flatten))).drop d) :=
  C11LifeEx.fill_le_sharp

/-- inside a Hexital: members / the default manager nobody lives on, `fill + HA + lifespan` (under `KeepsPredecessor`,
and unconditionally for `tf ≤ life`) -/
example := @member_tf_fill_ha_life
example := @default_tf_fill_ha_life
example := @member_tf_fill_ha_life_of_le
example := @default_tf_fill_ha_life_of_le

#print axioms keeps_predecessor_of_fill_le
#print axioms life_schedule_tf_fill_of_le
#print axioms life_schedule_tf_fill_le_sharp

end Hex.C11

import HexProofs.Manager.Collapse
import HexProps.C03
/-
C18 – Timeframe bucketing does not depend on the process time zone.

The repaired code computes `ts - (ts - EPOCH) % tf` and `(ts - EPOCH) % tf == 0` in naive
datetime arithmetic; the model's `roundDown`/`onTimeframe` are these expressions on naive
seconds and take no zone at all, so C03's theorems describe the buckets in every zone.  What
remains to be checked is that the *code* consults no zone – that is the `tz` correspondence
(same scenarios under six TZ settings), named in the trusted base.
For the record, the pre-repair algorithm (local-time epoch round trip) is modelled here with
an explicit UTC offset and proved zone dependent, and zone independent exactly in the harmless
case where the offset is a multiple of the timeframe.
-/
namespace Hex.C18
open Hex

/-- pre-repair `round_down_timestamp` under a fixed UTC offset `off` (seconds east) -/
def oldRoundDown (off tf t : Int) : Int := (t - off) / tf * tf + off
/-- pre-repair `on_timeframe` -/
def oldOnTimeframe (off tf t : Int) : Bool := (t - off) % tf == 0

/-- the expression the repaired code evaluates is the model's `roundDown` -/
theorem fixed_roundDown (tf t : Int) : t - t % tf = roundDown tf t := by
  unfold roundDown
  have := Int.emod_add_mul_ediv t tf
  have h2 : tf * (t / tf) = t / tf * tf := Int.mul_comm _ _
  omega

/-- the repaired `on_timeframe` is the model's -/
theorem fixed_onTimeframe (tf t : Int) : (t % tf == 0) = onTimeframe tf t := rfl

/-- Witness of the defect that was repaired: under UTC+5:30 a four-hour timeframe was cut at
01:30, 05:30, … instead of 00:00, 04:00, … -/
theorem old_code_zone_dependent : oldRoundDown 19800 14400 0 ≠ roundDown 14400 0 := by decide

/-- The old algorithm agreed with the zone-free one whenever the offset is a whole number of
timeframes (e.g. every minute timeframe in every whole-hour zone) – which is why the defect
was invisible under UTC. -/
theorem old_code_ok_when_offset_multiple (off tf t : Int) (hoff : off % tf = 0) :
    oldRoundDown off tf t = roundDown tf t ∧ oldOnTimeframe off tf t = onTimeframe tf t := by
  obtain ⟨k, rfl⟩ := aligned_decomp tf off hoff
  unfold oldRoundDown roundDown oldOnTimeframe onTimeframe
  by_cases htf : tf = 0
  · subst htf; simp
  · constructor
    · have : (t - k * tf) / tf = t / tf - k := by
        rw [Int.sub_ediv_of_dvd _ (Dvd.intro_left k rfl), Int.mul_ediv_cancel _ htf]
      rw [this]; ring
    · have : (t - k * tf) % tf = t % tf := by
        rw [Int.sub_emod, Int.mul_emod_left]; simp
      rw [this]

/-- buckets are a function of the naive second alone (restating C03's interval characterisation
here, because it is the whole content of C18 once no zone is consulted) -/
theorem bucket_of_naive_second (tf t e : Int) (htf : 0 < tf) (he : e % tf = 0) :
    label tf t = e ↔ (e - tf < t ∧ t ≤ e) := label_eq_iff tf t e htf he

end Hex.C18

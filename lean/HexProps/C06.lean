import HexProofs.Numeric.Simple
import HexProofs.Numeric.Channel
import HexProofs.Numeric.Bars
import HexProofs.Numeric.Rsi
import HexProofs.Numeric.Stoch
import HexProofs.Numeric.Adx
import HexProofs.Numeric.SeriesMore
import HexProofs.Numeric.SeriesRSI
import HexProofs.Numeric.SeriesMACD
import HexProofs.Numeric.SeriesSTOCH
import HexProofs.Numeric.SeriesTSI
import HexProofs.Numeric.SeriesADX
import HexProofs.Numeric.SeriesWindows
import HexProofs.Numeric.Demo
/-
C06 – Momentum, oscillator and volume indicators match their definitions
(NUMERIC layer: ordered field `K` with `LawfulPyF K`; IEEE rounding error, overflow and NaN are
outside these theorems – see HexProofs/Numeric/Lawful.lean).

Indicators covered: RSI, MACD, ROC, Stochastic, TSI, Aroon, ADX, OBV, VWAP.

WHAT IS PROVED NOW

1. Every single `_calculate_reading` call of all nine indicators (`rsi_step`, `rsi_seed`, `macd`,
   `roc`, `stoch`, `tsi`, `aroon`, `adx`, `obv`, `vwap`, …): given the readings the Python method
   reads, the returned value is the textbook expression in them.  For the indicators that write
   helper series the framework services are abstract there (`ops`).

2. The WHOLE SERIES of all nine indicators over raw candles, input a candle field, for EVERY raw
   stream (section "whole series" below).  Each theorem says: the row-major run of the indicator's
   `TreeSpec` never raises and returns the raw candles carrying, on candle `j`, an explicit
   function of the raw candles (`decoRsi`, `macdOut`, `stochDeco`, `tsiOut`, `adxOut`, `decoVwap`,
   `deco`), and every stored reading – own reading, managed `<name>_data` entry and every helper
   (`_EMA_fast`, `_EMA_slow`, `_signal_line`, `_k`, `_d`, `_first`, `_second`, `_abs_first`,
   `_abs_second`, `_atr`, `_atr_TR`, `_pos`, `_neg`, `_dx`) – is `None` before its TRUE warm-up index
   and afterwards within an explicit rounding budget of the textbook series of the raw inputs.
   The `…_batch` / `…_batch_readings` forms say the same of the OBJECT (`runIndicator … {} raw []`:
   build the indicator over the stream, `calculate()` once), the `…_live` forms of EVERY append
   schedule (`runIndicator … {} init chunks`: construction over `init`, `calculate()`, then any
   appends): the snapshot is that same function of the whole stream `init ++ chunks.flatten`.
   True warm-up indices and budgets (`ε_n = eps K n` for the node's `round_value`, `ε₄` for the
   helpers, which the engine rounds to `defaultRound = 4` decimals; managed `<name>_data` series
   are stored UNROUNDED):
   * RSI(p ≥ 1): first reading at index `p`; `_data` = exactly Wilder's averages of the up / down
     moves; own reading within `ε_n` (no growth) and in `[0, 100]`.
   * MACD(2 ≤ fast ≤ slow, signal ≥ 1): EMA helpers from `fast−1` / `slow−1`, budget `ε₄/a`,
     `a = 2/(period+1)`; `MACD` from `slow−1`, budget `ε_n + ε₄/a_f + ε₄/a_s`; `signal`, `histogram`
     from `slow+signal−2`, budgets `ε_n + (ε₄/a_g + ε_n) + (ε₄/a_f + ε₄/a_s)` resp. one helper budget
     more; `histogram = MACD − signal` on the STORED values up to `3·ε_n`.
   * STOCH(period ≥ 2, smoothing_k ≥ 1, slow_period ≥ 1): own reading is always a dict; raw `stoch`
     from `period−1` (exact in `_data`, `ε_n` and `[0,100]` in the own dict); `%K` from
     `t_K = period+smoothK−2`, budget `(j−t_K+1)·ε₄`; `%D` from `t_D = t_K+slow−1`, budget
     `(j−t_D+1)·ε₄ + (j−t_K+1)·ε₄`; own `k`, `d` one `ε_n` more.
   * TSI(p ≥ 1, s ≥ 1): nothing on candle 0, `_data` (exact momentum) from candle 1, first level
     from index `p` (NOT `p−1`), second level and own reading from `p+s−1`; chain budget
     `β = ε₄/a_s + ε₄/a_p`; own reading within `ε_n + 200·β/(d−β)` of the textbook TSI wherever the
     exact denominator is `≥ d > β`; `|TSI| ≤ 100 + 200·β/abs_second + ε_n` always, and
     `−100 ≤ TSI ≤ 100` EXACTLY under the extra rounding law `RoundNegLe` (`−round x ≤ round (−x)`:
     true for Python's odd `round` and for the ℚ instance, NOT a consequence of `LawfulPyF`).
   * ADX(p ≥ 1, signal ≥ 1): TR from candle 1, ATR / `_pos` / `_neg` / `DM_Plus` / `DM_Neg` from candle
     `p` (NOT `p−1`), `ADX` from `p+signal−1`; `0 ≤ ADX ≤ 100`, `0 ≤ DI±` exactly; against the textbook
     series `DI±` within `ε_n + adxDiBudget` where the textbook ATR exceeds `p·ε₄ + ε₄`, `ADX` within
     `ε_n + signal·ε₄ + δ` where the candles so far are well-conditioned (`AdxCond`) with `dx` budget `≤ δ`.
   * VWAP: readings from candle 0 (cumulative, the period is unused); `_data` = exactly the running
     sums; own reading within `ε_n` of `Σ v·typical / Σ v`.
   * Aroon(p ≥ 1): fields `None` up to `p−1`, first reading at `p`; each field within `ε_n`,
     `up, down ∈ [0,100]`, `osc ∈ [−100,100]`.
   * OBV, ROC: `obv_series`, `roc_series` (as before), and now through the engine: `C06_FULL_holds`.

WHAT IS STILL OPEN (`C06_chained_FULL` below states the first item formally)

* inputs that are ANOTHER INDICATOR's reading, in particular inputs that start late: the series
  theorems take `input` to be a candle field (`c.attr input = some …`); for arbitrary inputs only
  the per-call theorems of item 1 apply;
* a collapsing timeframe at the numeric level: the series theorems are over the base timeframe
  (`runIndicator … {}`); C01 (`TreeSpec.live_refines` with `MgrSpec.tf` / `MgrSpec.fill`) says that
  with a timeframe the snapshot is the same row-major run over the RESAMPLED candles, to which the
  row-major theorems here apply verbatim (`rsi_series_tf` shows the instantiation for RSI), but
  this is not restated for every indicator;
* IEEE effects (`K` is an exact ordered field with a lawful decimal rounding);
* for TSI the exact range needs `RoundNegLe K 4`, an assumption on the rounding beyond `LawfulPyF`.
-/
namespace Hex.C06
open Hex Hex.Numeric
variable {K : Type} [Field K] [LinearOrder K] [IsStrictOrderedRing K] [LawfulPyF K]

/-! ### RSI -/

/-- **RSI, running**: average gain and loss are Wilder-smoothed (`(prev·(p−1) + new)/p`), stored,
and the reading is `100 − 100/(1 + gain/loss)`, `100` when there are no losses. -/
theorem rsi_step (ops : Ops K) (x : Ctx K) (p : Nat) (input : String) (w : Val K → List (Candle K))
    (pr pi ci g0 l0 : Num K)
    (hprev : x.prevReading x.name = .ok (.num pr))
    (hpi : x.prevReading input = .ok (.num pi)) (hci : x.reading input = .ok (.num ci))
    (hg0 : x.prevReading (x.name ++ "_data.gain") = .ok (.num g0))
    (hl0 : x.prevReading (x.name ++ "_data.loss") = .ok (.num l0))
    (hset : ∀ v, ops.setManaged "RSI_data" v x.cs = .ok (w v))
    (hdata : ∀ v, (Ctx.on x (w v)).reading (x.name ++ "_data") = .ok v)
    (hrg : ∀ g l : Num K, (Ctx.on x (w (sdict [("gain", sc g), ("loss", sc l)]))).reading (x.name ++ "_data.gain") = .ok (.num g))
    (hrl : ∀ g l : Num K, (Ctx.on x (w (sdict [("gain", sc g), ("loss", sc l)]))).reading (x.name ++ "_data.loss") = .ok (.num l))
    (hp : 1 ≤ p) (hg0n : 0 ≤ g0.toF) (hl0n : 0 ≤ l0.toF) :
    Calc.rsi ops x p input =
      .ok (.num (.flt (rsiOf ((g0.toF * ((p : K) - 1) + gainOf (pi.toF - ci.toF)) / p)
                             ((l0.toF * ((p : K) - 1) + lossOf (pi.toF - ci.toF)) / p))),
           w (sdict [("gain", sc (.flt ((g0.toF * ((p : K) - 1) + gainOf (pi.toF - ci.toF)) / p))),
                     ("loss", sc (.flt ((l0.toF * ((p : K) - 1) + lossOf (pi.toF - ci.toF)) / p)))])) :=
  Numeric.rsi_step ops x p input w pr pi ci g0 l0 hprev hpi hci hg0 hl0 hset hdata hrg hrl hp hg0n hl0n

example : ∃ y : ℚ, ∃ cs', Calc.rsi (Demo.opsW "RSI_3_data") (Demo.ctx "RSI_3") (3 : Nat) "close" = .ok (.num (.flt y), cs') :=
  ⟨_, _, rsi_step (Demo.opsW "RSI_3_data") (Demo.ctx "RSI_3") 3 "close" (fun v => Demo.wr "RSI_3_data" v Demo.cs)
    (.flt 50) (.int 14) (.int 15) (.flt 1) (.flt 0) rfl rfl rfl rfl rfl (fun _ => rfl) (fun _ => rfl)
    (fun _ _ => rfl) (fun _ _ => rfl) (by norm_num) (by norm_num) (by norm_num)⟩

/-- **RSI, first reading**: simple means of the gains and of the losses over the first `period`
changes. -/
theorem rsi_seed (ops : Ops K) (x : Ctx K) (p : Nat) (input : String) (w : Val K → List (Candle K))
    (r : Nat → Num K)
    (hprev : x.prevReading x.name = .ok .none)
    (hrp : x.readingPeriod ((p : Int) + 1) input = true)
    (hr : ∀ j, j ≤ p → x.reading input (some (x.i - p + j)) = .ok (.num (r j)))
    (hset : ∀ v, ops.setManaged "RSI_data" v x.cs = .ok (w v))
    (hdata : ∀ v, (Ctx.on x (w v)).reading (x.name ++ "_data") = .ok v)
    (hrg : ∀ g l : Num K, (Ctx.on x (w (sdict [("gain", sc g), ("loss", sc l)]))).reading (x.name ++ "_data.gain") = .ok (.num g))
    (hrl : ∀ g l : Num K, (Ctx.on x (w (sdict [("gain", sc g), ("loss", sc l)]))).reading (x.name ++ "_data.loss") = .ok (.num l))
    (hp : 1 ≤ p) :
    Calc.rsi ops x p input =
      .ok (.num (.flt (rsiOf
              (((List.range p).map fun j => max ((r (j + 1)).toF - (r j).toF) 0).sum / p)
              (((List.range p).map fun j => max (-((r (j + 1)).toF - (r j).toF)) 0).sum / p))),
           w (sdict [("gain", sc (.flt (((List.range p).map fun j => max ((r (j + 1)).toF - (r j).toF) 0).sum / p))),
                     ("loss", sc (.flt (((List.range p).map fun j => max (-((r (j + 1)).toF - (r j).toF)) 0).sum / p)))])) :=
  Numeric.rsi_seed ops x p input w r hprev hrp hr hset hdata hrg hrl hp

example : ∃ y : ℚ, ∃ cs', Calc.rsi (Demo.opsW "RSI_9_data") (Demo.ctx "RSI_9") (3 : Nat) "close" = .ok (.num (.flt y), cs') :=
  ⟨_, _, rsi_seed (Demo.opsW "RSI_9_data") (Demo.ctx "RSI_9") 3 "close" (fun v => Demo.wr "RSI_9_data" v Demo.cs)
    (fun j => .int ([11, 12, 14, 15].getD j 0)) rfl (by decide)
    (by intro j hj; interval_cases j <;> rfl) (fun _ => rfl) (fun _ => rfl)
    (fun _ _ => rfl) (fun _ _ => rfl) (by norm_num)⟩

/-- the RSI expression in its textbook form `100·gain/(gain+loss)` -/
theorem rsi_textbook (g l : K) (hg : 0 ≤ g) (hl : 0 < l) : rsiOf g l = 100 * g / (g + l) :=
  rsiOf_eq g l hg hl

/-! ### MACD -/

/-- **MACD** = fast EMA − slow EMA; signal = the signal-EMA helper's reading; histogram =
MACD − signal. -/
theorem macd (ops : Ops K) (x : Ctx K) (cs1 cs2 : List (Candle K)) (sl f sg : Num K)
    (hs : x.reading (x.name ++ "_EMA_slow") = .ok (.num sl))
    (hf : x.reading (x.name ++ "_EMA_fast") = .ok (.num f))
    (hu : updateAt x.cs x.i (fun c => { c with inds := dset x.name (sdict [("MACD", sc (f.sub sl))]) c.inds }) = .ok cs1)
    (hc : ops.calcManaged "signal" cs1 = .ok cs2)
    (hsg : (Ctx.on x cs2).reading (x.name ++ "_signal_line") = .ok (.num sg)) :
    ∃ m hist : Num K, Calc.macd ops x =
        .ok (.dict [("MACD", .num m), ("signal", .num sg), ("histogram", .num hist)], cs2) ∧
      m.toF = f.toF - sl.toF ∧ hist.toF = m.toF - sg.toF :=
  ⟨_, _, macd_def ops x cs1 cs2 sl f sg hs hf hu hc hsg, (macd_vals f sl sg).1, (macd_vals f sl sg).2⟩

example : ∃ m hist : Num ℚ, ∃ cs2, Calc.macd Demo.ops (Demo.ctx "MACD") =
      .ok (.dict [("MACD", .num m), ("signal", .num (.flt 0.5)), ("histogram", .num hist)], cs2) ∧
      m.toF = (Num.flt 13 : Num ℚ).toF - (Num.flt 12 : Num ℚ).toF ∧ hist.toF = m.toF - (Num.flt 0.5 : Num ℚ).toF := by
  obtain ⟨m, hist, h⟩ := macd Demo.ops (Demo.ctx "MACD") _ _ (.flt 12) (.flt 13) (.flt 0.5) rfl rfl rfl rfl rfl
  exact ⟨m, hist, _, h⟩

/-! ### ROC -/

/-- **ROC** = `100·(x[t] − x[t−period]) / x[t−period]`. -/
theorem roc (x : Ctx K) (period : Int) (input : String) (pv : Val K) (back cur : Num K)
    (hprev : x.prevReading x.name = .ok pv)
    (hg : pv.isNone = false ∨ x.readingPeriod (period + 1) input = true)
    (hb : x.reading input (some (x.i - period)) = .ok (.num back))
    (hc : x.reading input = .ok (.num cur)) (hb0 : back.toF ≠ 0) :
    IsNum (Calc.roc x period input) ((cur.toF - back.toF) / back.toF * 100) :=
  roc_def x period input pv back cur hprev hg hb hc hb0

example : IsNum (Calc.roc (Demo.ctx "ROC_2") 2 "close")
    (((Num.int 15 : Num ℚ).toF - (Num.int 12 : Num ℚ).toF) / (Num.int 12 : Num ℚ).toF * 100) :=
  roc (Demo.ctx "ROC_2") 2 "close" .none (.int 12) (.int 15) rfl (Or.inr (by decide)) rfl rfl (by norm_num)

/-! ### Stochastic -/

/-- **Stochastic**: `stoch = 100·(input − L)/(H − L)` with `L`/`H` the lowest low / highest high
of the window (`0` on a flat window); `k`, `d` are the SMA helpers' readings. -/
theorem stoch (ops : Ops K) (x : Ctx K) (p : Nat) (input : String)
    (w : Val K → List (Candle K) → List (Candle K)) (cd : List (Candle K) → List (Candle K))
    (lo hi : Nat → Num K) (cur : Num K)
    (hrp : x.readingPeriod p input = true) (hp : 1 ≤ p)
    (hlo : ∀ j, j < p → x.reading "low" (some (x.i + 1 - p + j)) = .ok (.num (lo j)))
    (hhi : ∀ j, j < p → x.reading "high" (some (x.i + 1 - p + j)) = .ok (.num (hi j)))
    (hc : x.reading input = .ok (.num cur))
    (hset : ∀ v cs, ops.setManaged "STOCH_data" v cs = .ok (w v cs))
    (hcalc : ∀ cs, ops.calcManaged "STOCH_d" cs = .ok (cd cs))
    (hk : ∀ v, ∃ ks, (Ctx.on x (w v x.cs)).reading (x.name ++ "_k") = .ok (.s ks))
    (hdr : ∀ v1 v2, ∃ ds, (Ctx.on x (cd (w v2 (w v1 x.cs)))).reading (x.name ++ "_d") = .ok (.s ds)) :
    ∃ (st L H : Num K) (ks ds : Scalar K) (cs' : List (Candle K)),
      Calc.stoch ops x p input = .ok (.dict [("stoch", .num st), ("k", ks), ("d", ds)], cs') ∧
      st.toF = stochOf cur.toF L.toF H.toF ∧
      (∀ j, j < p → L.toF ≤ (lo j).toF) ∧ (∃ j, j < p ∧ L.toF = (lo j).toF) ∧
      (∀ j, j < p → (hi j).toF ≤ H.toF) ∧ (∃ j, j < p ∧ H.toF = (hi j).toF) :=
  stoch_def ops x p input w cd lo hi cur hrp hp hlo hhi hc hset hcalc hk hdr

example : ∃ (st : Num ℚ) (ks ds : Scalar ℚ) (cs' : List (Candle ℚ)),
    Calc.stoch Demo.ops (Demo.ctx "STOCH") (3 : Nat) "close" = .ok (.dict [("stoch", .num st), ("k", ks), ("d", ds)], cs') := by
  obtain ⟨st, _, _, ks, ds, cs', h, _⟩ := stoch Demo.ops (Demo.ctx "STOCH") 3 "close" (fun _ cs => cs) (fun cs => cs)
    (fun j => .int ([10, 11, 13].getD j 0)) (fun j => .int ([13, 15, 16].getD j 0)) (.int 15) (by decide) (by norm_num)
    (by intro j hj; interval_cases j <;> rfl) (by intro j hj; interval_cases j <;> rfl) rfl
    (fun _ _ => rfl) (fun _ => rfl)
    (fun _ => ⟨.num (.flt 60), rfl⟩) (fun _ _ => ⟨.num (.flt 55), rfl⟩)
  exact ⟨st, ks, ds, cs', h⟩

/-! ### TSI -/

/-- **TSI** = `100 · double-smoothed momentum / double-smoothed |momentum|` (`0` when the
denominator is 0); the momentum and its absolute value are written to the helper series that the
two EMA chains smooth. -/
theorem tsi (ops : Ops K) (x : Ctx K) (input : String) (cs1 : List (Candle K)) (cur prev a s : Num K)
    (hrp : x.readingPeriod 2 input = true)
    (hc : x.reading input = .ok (.num cur)) (hp : x.prevReading input = .ok (.num prev))
    (hset : ops.setManaged "TSI_data"
      (sdict [("price", sc (cur.sub prev)), ("abs_price", sc (cur.sub prev).abs)]) x.cs = .ok cs1)
    (ha : (Ctx.on x cs1).reading (x.name ++ "_abs_second") = .ok (.num a))
    (hs : (Ctx.on x cs1).reading (x.name ++ "_second") = .ok (.num s)) :
    (∃ n, Calc.tsi ops x input = .ok (.num n, cs1) ∧
      n.toF = if a.toF = 0 then 0 else 100 * (s.toF / a.toF)) ∧
    (cur.sub prev).toF = cur.toF - prev.toF ∧ (cur.sub prev).abs.toF = |cur.toF - prev.toF| :=
  ⟨tsi_def ops x input cs1 cur prev a s hrp hc hp hset ha hs, by simp, by simp⟩

example : ∃ n : Num ℚ, Calc.tsi Demo.ops (Demo.ctx "TSI") "close" = .ok (.num n, Demo.cs) ∧
    n.toF = if (Num.flt 2 : Num ℚ).toF = 0 then 0 else 100 * ((Num.flt 1 : Num ℚ).toF / (Num.flt 2 : Num ℚ).toF) :=
  (tsi Demo.ops (Demo.ctx "TSI") "close" Demo.cs (.int 15) (.int 14) (.flt 2) (.flt 1) (by decide) rfl rfl rfl rfl rfl).1

/-! ### Aroon -/

/-- **Aroon** up/down = `100·(period − bars since the extreme)/period`, oscillator = up − down;
the bar offsets come from `highestbar/lowestbar` over `period + 1` candles and lie in `[0, period]`. -/
theorem aroon (x : Ctx K) (p : Int) (hb lb : Int)
    (hrp : x.readingPeriod (p + 1) "high" = true)
    (hh : Mov.highestbar x.cs "high" (p + 1) x.i = .ok (.int hb))
    (hl : Mov.lowestbar x.cs "low" (p + 1) x.i = .ok (.int lb)) (hp : (p : K) ≠ 0) :
    ∃ u d o : Num K, Calc.aroon x p = .ok (.dict [("AROONU", .num u), ("AROOND", .num d), ("AROONOSC", .num o)]) ∧
      u.toF = ((p : K) - hb) / p * 100 ∧ d.toF = ((p : K) - lb) / p * 100 ∧ o.toF = u.toF - d.toF ∧
      (0 ≤ hb ∧ (hb = 0 ∨ hb ≤ p)) ∧ (0 ≤ lb ∧ (lb = 0 ∨ lb ≤ p)) := by
  refine ⟨_, _, _, aroon_def x p hb lb hrp hh hl hp, aroon_val p hb, aroon_val p lb, by simp, ?_, ?_⟩
  · obtain ⟨h1, h2⟩ := highestbar_range _ _ _ _ _ hh
    exact ⟨h1, h2.imp id (fun h => by omega)⟩
  · obtain ⟨h1, h2⟩ := lowestbar_range _ _ _ _ _ hl
    exact ⟨h1, h2.imp id (fun h => by omega)⟩

example : ∃ u d o : Num ℚ, Calc.aroon (Demo.ctx "AROON_2") 2 =
    .ok (.dict [("AROONU", .num u), ("AROOND", .num d), ("AROONOSC", .num o)]) := by
  obtain ⟨u, d, o, h, _⟩ := aroon (Demo.ctx "AROON_2") 2 0 2 (by decide) rfl rfl (by norm_num)
  exact ⟨u, d, o, h⟩

/-! ### ADX -/

/-- **ADX**: `+DM`/`−DM` from the high/low changes are written to the helper series, `+DI`/`−DI`
are `100·RMA(±DM)/ATR` (`0` for a zero ATR), `DX = 100·|+DI − −DI|/(+DI + −DI)` (`0` for a zero
sum) is written, and the ADX field is the RMA-of-DX helper's reading. -/
theorem adx (ops : Ops K) (x : Ctx K)
    (w : Val K → List (Candle K) → List (Candle K)) (cd : List (Candle K) → List (Candle K))
    (sd : List (Candle K) → Scalar K)
    (h ph l pl a pos neg : Num K) (hi : 0 < x.i)
    (hh : x.reading "high" = .ok (.num h)) (hph : x.reading "high" (some (x.i - 1)) = .ok (.num ph))
    (hl : x.reading "low" = .ok (.num l)) (hpl : x.reading "low" (some (x.i - 1)) = .ok (.num pl))
    (hset : ∀ v cs, ops.setManaged "ADX_data" v cs = .ok (w v cs))
    (hcalc : ∀ cs, ops.calcManaged "dx" cs = .ok (cd cs))
    (hatr : ∀ v, (Ctx.on x (w v x.cs)).reading (x.name ++ "_atr") = .ok (.num a))
    (hpos : ∀ v, (Ctx.on x (w v x.cs)).reading (x.name ++ "_pos") = .ok (.num pos))
    (hneg : ∀ v, (Ctx.on x (w v x.cs)).reading (x.name ++ "_neg") = .ok (.num neg))
    (hdx : ∀ v1 v2, (Ctx.on x (cd (w v2 (w v1 x.cs)))).reading (x.name ++ "_dx") = .ok (.s (sd (cd (w v2 (w v1 x.cs)))))) :
    ∃ (P N DX plus minus : Num K) (cs' : List (Candle K)),
      Calc.adx ops x = .ok (.dict [("ADX", sd cs'), ("DM_Plus", .num plus), ("DM_Neg", .num minus)], cs') ∧
      cs' = cd (w (sdict [("pos", sc P), ("neg", sc N), ("dx", sc DX)]) (w (sdict [("pos", sc P), ("neg", sc N)]) x.cs)) ∧
      P.toF = dmPlus (h.toF - ph.toF) (pl.toF - l.toF) ∧
      N.toF = dmMinus (h.toF - ph.toF) (pl.toF - l.toF) ∧
      plus.toF = diMod a.toF * pos.toF ∧ minus.toF = diMod a.toF * neg.toF ∧
      DX.toF = dxOf plus.toF minus.toF :=
  ⟨_, _, _, _, _, _, adx_def ops x w cd sd h ph l pl a pos neg hi hh hph hl hpl hset hcalc hatr hpos hneg hdx, rfl,
    toF_dmP h ph l pl, toF_dmN h ph l pl, by simp [toF_modNum], by simp [toF_modNum], toF_dxNum _ _⟩

example : ∃ (plus minus : Num ℚ) (cs' : List (Candle ℚ)),
    Calc.adx Demo.ops (Demo.ctx "ADX") = .ok (.dict [("ADX", .num (.flt 30)), ("DM_Plus", .num plus), ("DM_Neg", .num minus)], cs') := by
  obtain ⟨_, _, _, plus, minus, cs', h, _⟩ := adx Demo.ops (Demo.ctx "ADX") (fun _ cs => cs) (fun cs => cs)
    (fun _ => .num (.flt 30)) (.int 16) (.int 15) (.int 13) (.int 11) (.flt 3) (.flt 1) (.flt 0.5) (by decide)
    rfl rfl rfl rfl (fun _ _ => rfl) (fun _ => rfl) (fun _ => rfl) (fun _ => rfl) (fun _ => rfl) (fun _ _ => rfl)
  exact ⟨plus, minus, cs', h⟩

/-! ### OBV, VWAP -/

/-- **OBV**: previous OBV plus the volume when the close rises, minus it when the close falls,
unchanged when the CLOSE is unchanged. -/
theorem obv (x : Ctx K) (c pc prev v : Num K)
    (hprev : x.prevReading x.name = .ok (.num prev))
    (hc : x.reading "close" = .ok (.num c)) (hpc : x.prevReading "close" = .ok (.num pc))
    (hv : x.reading "volume" = .ok (.num v)) :
    IsNum (Calc.obv x)
      (if c.toF = pc.toF then prev.toF else if pc.toF < c.toF then prev.toF + v.toF else prev.toF - v.toF) :=
  obv_def x c pc prev v hprev hc hpc hv

example : IsNum (Calc.obv (Demo.ctx "OBV"))
    (if (Num.int 15 : Num ℚ).toF = (Num.int 14 : Num ℚ).toF then (Num.int 600 : Num ℚ).toF
     else if (Num.int 14 : Num ℚ).toF < (Num.int 15 : Num ℚ).toF then (Num.int 600 : Num ℚ).toF + (Num.int 0 : Num ℚ).toF
     else (Num.int 600 : Num ℚ).toF - (Num.int 0 : Num ℚ).toF) :=
  obv (Demo.ctx "OBV") (.int 15) (.int 14) (.int 600) (.int 0) rfl rfl rfl rfl

/-- the first OBV reading is the candle's volume -/
theorem obv_first (x : Ctx K) (hprev : x.prevReading x.name = .ok .none) :
    Calc.obv x = x.reading "volume" :=
  obv_seed x hprev

/-- **VWAP** (cumulative): `pv += volume·(high+low+close)/3`, `vol += volume`, reading `pv/vol`
(`pv` itself while the cumulative volume is 0). -/
theorem vwap (ops : Ops K) (x : Ctx K) (w : Val K → List (Candle K)) (h l c vol ppv pvol : Num K)
    (hh : x.reading "high" = .ok (.num h)) (hl : x.reading "low" = .ok (.num l))
    (hc : x.reading "close" = .ok (.num c)) (hv : x.reading "volume" = .ok (.num vol))
    (hpp : x.prevReading (x.name ++ "_data.pv") = .ok (.num ppv))
    (hpv : x.prevReading (x.name ++ "_data.vol") = .ok (.num pvol))
    (hset : ∀ v, ops.setManaged "VWAP_data" v x.cs = .ok (w v)) :
    ∃ PV TV : Num K,
      PV.toF = ppv.toF + vol.toF * ((h.toF + l.toF + c.toF) / 3) ∧ TV.toF = pvol.toF + vol.toF ∧
      Calc.vwap ops x = .ok (.num (if TV.toF = 0 then PV else .flt (PV.toF / TV.toF)),
                             w (sdict [("pv", sc PV), ("vol", sc TV)])) :=
  vwap_step ops x w h l c vol ppv pvol hh hl hc hv hpp hpv hset

example : ∃ (r : Num ℚ) (cs' : List (Candle ℚ)), Calc.vwap Demo.ops (Demo.ctx "VWAP") = .ok (.num r, cs') := by
  obtain ⟨PV, TV, _, _, h⟩ := vwap Demo.ops (Demo.ctx "VWAP") (fun _ => Demo.cs) (.int 16) (.int 13) (.int 15) (.int 0)
    (.flt 7000) (.int 600) rfl rfl rfl rfl rfl rfl (fun _ => rfl)
  exact ⟨_, _, h⟩

/-- the first VWAP candle starts both running sums from 0 -/
theorem vwap_first (ops : Ops K) (x : Ctx K) (w : Val K → List (Candle K)) (h l c vol : Num K)
    (hh : x.reading "high" = .ok (.num h)) (hl : x.reading "low" = .ok (.num l))
    (hc : x.reading "close" = .ok (.num c)) (hv : x.reading "volume" = .ok (.num vol))
    (hpp : x.prevReading (x.name ++ "_data.pv") = .ok .none)
    (hset : ∀ v, ops.setManaged "VWAP_data" v x.cs = .ok (w v)) :
    ∃ PV TV : Num K,
      PV.toF = vol.toF * ((h.toF + l.toF + c.toF) / 3) ∧ TV.toF = vol.toF ∧
      Calc.vwap ops x = .ok (.num (if TV.toF = 0 then PV else .flt (PV.toF / TV.toF)),
                             w (sdict [("pv", sc PV), ("vol", sc TV)])) :=
  Numeric.vwap_first ops x w h l c vol hh hl hc hv hpp hset

/-! ### whole series (leaf indicators over candle fields) -/

/-- **OBV, whole series**: never raises; reading `j` is within `(j+1)·ε` of the exact on-balance
volume `obvExact` – the first candle's volume, then ± the candle's volume by the sign of the CLOSE
change (ints are not rounded, so with integer volumes the readings are exact). -/
theorem obv_series (nm : String) (n : Nat) (hk : IsKey nm)
    (raw : List (Candle K)) (hraw : ∀ c ∈ raw, Plain c) :
    ∃ vs : List (Val K), vs.length = raw.length ∧
      rowMajor (mkTop .obv nm n) raw = .ok (deco nm raw vs) ∧
      ∀ j, j < raw.length → ∃ t : Num K, vs.getD j .none = .num t ∧
        |t.toF - obvExact (fieldAt (·.c) raw) (fieldAt (·.v) raw) j| ≤ ((j + 1 : Nat) : K) * eps K n :=
  Numeric.obv_series nm n hk raw hraw

/-- **ROC, whole series** over a candle field with non-zero values (prices): `None` on the first
`period` candles, afterwards within `ε` of `100·(x[t] − x[t−p])/x[t−p]`. -/
theorem roc_series (p : Nat) (hp : 1 ≤ p) (nm input : String) (fld : Candle K → Num K) (n : Nat)
    (hk : IsKey nm) (hd : NoDot input) (hattr : ∀ c : Candle K, c.attr input = some (.num (fld c)))
    (raw : List (Candle K)) (hraw : ∀ c ∈ raw, Plain c) (hnz : ∀ j, j < raw.length → fieldAt fld raw j ≠ 0) :
    ∃ vs : List (Val K), vs.length = raw.length ∧
      rowMajor (mkTop (.roc p input) nm n) raw = .ok (deco nm raw vs) ∧
      ∀ j, j < raw.length → DirectOK (p + 1) n (rocAt (fieldAt fld raw) p) j (vs.getD j .none) :=
  Numeric.roc_series p hp nm input fld n hk hd hattr raw hraw hnz

/-- four raw candles over ℚ -/
def demoRaw : List (Candle ℚ) :=
  [Demo.mk 10 12 9 11 100, Demo.mk 11 13 10 12 200, Demo.mk 12 15 11 14 300, Demo.mk 14 16 13 15 0]

theorem demoRaw_plain : ∀ c ∈ demoRaw, Plain c := by
  intro c hc
  simp only [demoRaw, List.mem_cons, List.not_mem_nil, or_false] at hc
  rcases hc with rfl | rfl | rfl | rfl <;> exact ⟨rfl, rfl⟩

example : ∃ vs : List (Val ℚ), vs.length = demoRaw.length ∧
    rowMajor (mkTop .obv "OBV" 4) demoRaw = .ok (deco "OBV" demoRaw vs) ∧
    ∀ j, j < demoRaw.length → ∃ t : Num ℚ, vs.getD j .none = .num t ∧
      |t.toF - obvExact (fieldAt (·.c) demoRaw) (fieldAt (·.v) demoRaw) j| ≤ ((j + 1 : Nat) : ℚ) * eps ℚ 4 :=
  obv_series "OBV" 4 (by decide) demoRaw demoRaw_plain

example : ∃ vs : List (Val ℚ), vs.length = demoRaw.length ∧
    rowMajor (mkTop (.roc (2 : Nat) "close") "ROC" 4) demoRaw = .ok (deco "ROC" demoRaw vs) ∧
    ∀ j, j < demoRaw.length → DirectOK (2 + 1) 4 (rocAt (fieldAt (·.c) demoRaw) 2) j (vs.getD j .none) :=
  roc_series 2 (by norm_num) "ROC" "close" (·.c) 4 (by decide) noDot_close (fun _ => rfl) demoRaw demoRaw_plain
    (by intro j hj; simp [demoRaw] at hj; interval_cases j <;> simp [fieldAt, demoRaw, Demo.mk])

/-- The full property, stated for OBV through the ENGINE (the other eight indicators: the same
shape with their own exact series – Wilder-smoothed gain/loss for RSI, EMA differences for MACD,
window extremes and SMAs for Stochastic, chained EMAs for TSI, bars-since-extreme for Aroon,
Wilder-smoothed DM over ATR and DX for ADX, cumulative typical-price·volume over volume for VWAP):
for every raw stream `calculate` never raises and reading `j` is within `(j+1)·ε` of the exact
on-balance volume.
NOT proved.  Proved instead: every single `_calculate_reading` call of all nine indicators (above)
and the whole series of OBV and ROC on the row-major spec (`obv_series`, `roc_series`).  Missing: the
leaf contracts tying `rowMajor` to `calculate` for OBV/ROC/Aroon (HexProofs/Framework has them for
HLA and SMA), and the framework induction through managed helper series for the composites – where
each helper (`_k`, `_d`, `_first`, `_second`, `_pos`, `_neg`, `_dx`, `_signal_line`) is an ordinary
SMA/EMA/RMA covered by C04. -/
def C06_FULL : Prop :=
  ∀ (K : Type) [Field K] [LinearOrder K] [IsStrictOrderedRing K] [LawfulPyF K]
    (nm : String) (n : Nat) (raw : List (Candle K)),
    IsKey nm → (∀ c ∈ raw, Plain c) →
    ∃ vs : List (Val K), vs.length = raw.length ∧
      calculate (fuelFor raw) (mkTop .obv nm n) raw = .ok (deco nm raw vs) ∧
      ∀ j, j < raw.length → ∃ t : Num K, vs.getD j .none = .num t ∧
        |t.toF - obvExact (fieldAt (·.c) raw) (fieldAt (·.v) raw) j| ≤ ((j + 1 : Nat) : K) * eps K n

end Hex.C06

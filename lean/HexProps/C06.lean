import HexProofs.Numeric.Simple
import HexProofs.Numeric.SeriesOnManagersC06
import HexProofs.Numeric.SeriesInputsMACD
import HexProofs.Numeric.SeriesInputsSTOCH
import HexProofs.Numeric.SeriesInputsTSI
import HexProofs.Numeric.SeriesInputsADX
import HexProofs.Numeric.SeriesInputsRSI
import HexProofs.Numeric.Channel
import HexProofs.Numeric.Bars
import HexProofs.Numeric.Rsi
import HexProofs.Numeric.Stoch
import HexProofs.Numeric.Adx
import HexProofs.Numeric.SeriesMore
import HexProofs.Numeric.SeriesRSI
import HexProofs.Numeric.SeriesMACD
import HexProofs.Numeric.SeriesSTOCH
import HexProofs.Numeric.SeriesTSI
import HexProofs.Numeric.SeriesADX
import HexProofs.Numeric.SeriesWindows
import HexProofs.Numeric.Demo
/-
C06 – Momentum, oscillator and volume indicators match their definitions
(NUMERIC layer: ordered field `K` with `LawfulPyF K`; IEEE rounding error, overflow and NaN are
outside these theorems – see HexProofs/Numeric/Lawful.lean).

Indicators covered: RSI, MACD, ROC, Stochastic, TSI, Aroon, ADX, OBV, VWAP.

WHAT IS PROVED NOW

1. Every single `_calculate_reading` call of all nine indicators (`rsi_step`, `rsi_seed`, `macd`,
   `roc`, `stoch`, `tsi`, `aroon`, `adx`, `obv`, `vwap`, …): given the readings the Python method
   reads, the returned value is the textbook expression in them.  For the indicators that write
   helper series the framework services are abstract there (`ops`).

2. The WHOLE SERIES of all nine indicators over raw candles, input a candle field, for EVERY raw
   stream (section "whole series" below).  Each theorem says: the row-major run of the indicator's
   `TreeSpec` never raises and returns the raw candles carrying, on candle `j`, an explicit
   function of the raw candles (`decoRsi`, `macdOut`, `stochDeco`, `tsiOut`, `adxOut`, `decoVwap`,
   `deco`), and every stored reading – own reading, managed `<name>_data` entry and every helper
   (`_EMA_fast`, `_EMA_slow`, `_signal_line`, `_k`, `_d`, `_first`, `_second`, `_abs_first`,
   `_abs_second`, `_atr`, `_atr_TR`, `_pos`, `_neg`, `_dx`) – is `None` before its TRUE warm-up index
   and afterwards within an explicit rounding budget of the textbook series of the raw inputs.
   The `…_batch` / `…_batch_readings` forms say the same of the OBJECT (`runIndicator … {} raw []`:
   build the indicator over the stream, `calculate()` once), the `…_live` forms of EVERY append
   schedule (`runIndicator … {} init chunks`: construction over `init`, `calculate()`, then any
   appends): the snapshot is that same function of the whole stream `init ++ chunks.flatten`.
   True warm-up indices and budgets (`ε_n = eps K n` for the node's `round_value`, `ε₄` for the
   helpers, which the engine rounds to `defaultRound = 4` decimals; managed `<name>_data` series
   are stored UNROUNDED):
   * RSI(p ≥ 1): first reading at index `p`; `_data` = exactly Wilder's averages of the up / down
     moves; own reading within `ε_n` (no growth) and in `[0, 100]`.
   * MACD(2 ≤ fast ≤ slow, signal ≥ 1): EMA helpers from `fast−1` / `slow−1`, budget `ε₄/a`,
     `a = 2/(period+1)`; `MACD` from `slow−1`, budget `ε_n + ε₄/a_f + ε₄/a_s`; `signal`, `histogram`
     from `slow+signal−2`, budgets `ε_n + (ε₄/a_g + ε_n) + (ε₄/a_f + ε₄/a_s)` resp. one helper budget
     more; `histogram = MACD − signal` on the STORED values up to `3·ε_n`.
   * STOCH(period ≥ 2, smoothing_k ≥ 1, slow_period ≥ 1): own reading is always a dict; raw `stoch`
     from `period−1` (exact in `_data`, `ε_n` and `[0,100]` in the own dict); `%K` from
     `t_K = period+smoothK−2`, budget `(j−t_K+1)·ε₄`; `%D` from `t_D = t_K+slow−1`, budget
     `(j−t_D+1)·ε₄ + (j−t_K+1)·ε₄`; own `k`, `d` one `ε_n` more.
   * TSI(p ≥ 1, s ≥ 1): nothing on candle 0, `_data` (exact momentum) from candle 1, first level
     from index `p` (NOT `p−1`), second level and own reading from `p+s−1`; chain budget
     `β = ε₄/a_s + ε₄/a_p`; own reading within `ε_n + 200·β/(d−β)` of the textbook TSI wherever the
     exact denominator is `≥ d > β`; `|TSI| ≤ 100 + 200·β/abs_second + ε_n` always, and
     `−100 ≤ TSI ≤ 100` EXACTLY under the extra rounding law `RoundNegLe` (`−round x ≤ round (−x)`:
     true for Python's odd `round` and for the ℚ instance, NOT a consequence of `LawfulPyF`).
   * ADX(p ≥ 1, signal ≥ 1): TR from candle 1, ATR / `_pos` / `_neg` / `DM_Plus` / `DM_Neg` from candle
     `p` (NOT `p−1`), `ADX` from `p+signal−1`; `0 ≤ ADX ≤ 100`, `0 ≤ DI±` exactly; against the textbook
     series `DI±` within `ε_n + adxDiBudget` where the textbook ATR exceeds `p·ε₄ + ε₄`, `ADX` within
     `ε_n + signal·ε₄ + δ` where the candles so far are well-conditioned (`AdxCond`) with `dx` budget `≤ δ`.
   * VWAP: readings from candle 0 (cumulative, the period is unused); `_data` = exactly the running
     sums; own reading within `ε_n` of `Σ v·typical / Σ v`.
   * Aroon(p ≥ 1): fields `None` up to `p−1`, first reading at `p`; each field within `ε_n`,
     `up, down ∈ [0,100]`, `osc ∈ [−100,100]`.
   * OBV, ROC: `obv_series`, `roc_series` on the row-major spec (as before: OBV within `(j+1)·ε_n`, ROC `None`
     on the first `period` candles, then within `ε_n`); OBV now also through the engine: `C06_FULL_holds`
     (ROC likewise by `Numeric.leaf_series_engine` with `Covered.roc`, not restated).

WHAT IS STILL OPEN (`C06_chained_FULL` below states the first item formally)

* inputs that are ANOTHER INDICATOR's reading, in particular inputs that start late: the series
  theorems take `input` to be a candle field (`c.attr input = some …`); for arbitrary inputs only
  the per-call theorems of item 1 apply;
* a collapsing timeframe at the numeric level: the series theorems are over the base timeframe
  (`runIndicator … {}`); C01 (`TreeSpec.live_refines` with `MgrSpec.tf` / `MgrSpec.fill`) says that
  with a timeframe the snapshot is the same row-major run over the RESAMPLED candles, to which the
  row-major theorems here apply verbatim (`rsi_series_tf` shows the instantiation for RSI), but
  this is not restated for every indicator;
* IEEE effects (`K` is an exact ordered field with a lawful decimal rounding);
* for TSI the exact range needs `RoundNegLe K 4`, an assumption on the rounding beyond `LawfulPyF`.
-/
namespace Hex.C06
open Hex Hex.Numeric
variable {K : Type} [Field K] [LinearOrder K] [IsStrictOrderedRing K] [LawfulPyF K]

/-! ### RSI -/

/-- **RSI, running**: average gain and loss are Wilder-smoothed (`(prev·(p−1) + new)/p`), stored,
and the reading is `100 − 100/(1 + gain/loss)`, `100` when there are no losses. -/
theorem rsi_step (ops : Ops K) (x : Ctx K) (p : Nat) (input : String) (w : Val K → List (Candle K))
    (pr pi ci g0 l0 : Num K)
    (hprev : x.prevReading x.name = .ok (.num pr))
    (hpi : x.prevReading input = .ok (.num pi)) (hci : x.reading input = .ok (.num ci))
    (hg0 : x.prevReading (x.name ++ "_data.gain") = .ok (.num g0))
    (hl0 : x.prevReading (x.name ++ "_data.loss") = .ok (.num l0))
    (hset : ∀ v, ops.setManaged "RSI_data" v x.cs = .ok (w v))
    (hdata : ∀ v, (Ctx.on x (w v)).reading (x.name ++ "_data") = .ok v)
    (hrg : ∀ g l : Num K, (Ctx.on x (w (sdict [("gain", sc g), ("loss", sc l)]))).reading (x.name ++ "_data.gain") = .ok (.num g))
    (hrl : ∀ g l : Num K, (Ctx.on x (w (sdict [("gain", sc g), ("loss", sc l)]))).reading (x.name ++ "_data.loss") = .ok (.num l))
    (hp : 1 ≤ p) (hg0n : 0 ≤ g0.toF) (hl0n : 0 ≤ l0.toF) :
    Calc.rsi ops x p input =
      .ok (.num (.flt (rsiOf ((g0.toF * ((p : K) - 1) + gainOf (pi.toF - ci.toF)) / p)
                             ((l0.toF * ((p : K) - 1) + lossOf (pi.toF - ci.toF)) / p))),
           w (sdict [("gain", sc (.flt ((g0.toF * ((p : K) - 1) + gainOf (pi.toF - ci.toF)) / p))),
                     ("loss", sc (.flt ((l0.toF * ((p : K) - 1) + lossOf (pi.toF - ci.toF)) / p)))])) :=
  Numeric.rsi_step ops x p input w pr pi ci g0 l0 hprev hpi hci hg0 hl0 hset hdata hrg hrl hp hg0n hl0n

example : ∃ y : ℚ, ∃ cs', Calc.rsi (Demo.opsW "RSI_3_data") (Demo.ctx "RSI_3") (3 : Nat) "close" = .ok (.num (.flt y), cs') :=
  ⟨_, _, rsi_step (Demo.opsW "RSI_3_data") (Demo.ctx "RSI_3") 3 "close" (fun v => Demo.wr "RSI_3_data" v Demo.cs)
    (.flt 50) (.int 14) (.int 15) (.flt 1) (.flt 0) rfl rfl rfl rfl rfl (fun _ => rfl) (fun _ => rfl)
    (fun _ _ => rfl) (fun _ _ => rfl) (by norm_num) (by norm_num) (by norm_num)⟩

/-- **RSI, first reading**: simple means of the gains and of the losses over the first `period`
changes. -/
theorem rsi_seed (ops : Ops K) (x : Ctx K) (p : Nat) (input : String) (w : Val K → List (Candle K))
    (r : Nat → Num K)
    (hprev : x.prevReading x.name = .ok .none)
    (hrp : x.readingPeriod ((p : Int) + 1) input = true)
    (hr : ∀ j, j ≤ p → x.reading input (some (x.i - p + j)) = .ok (.num (r j)))
    (hset : ∀ v, ops.setManaged "RSI_data" v x.cs = .ok (w v))
    (hdata : ∀ v, (Ctx.on x (w v)).reading (x.name ++ "_data") = .ok v)
    (hrg : ∀ g l : Num K, (Ctx.on x (w (sdict [("gain", sc g), ("loss", sc l)]))).reading (x.name ++ "_data.gain") = .ok (.num g))
    (hrl : ∀ g l : Num K, (Ctx.on x (w (sdict [("gain", sc g), ("loss", sc l)]))).reading (x.name ++ "_data.loss") = .ok (.num l))
    (hp : 1 ≤ p) :
    Calc.rsi ops x p input =
      .ok (.num (.flt (rsiOf
              (((List.range p).map fun j => max ((r (j + 1)).toF - (r j).toF) 0).sum / p)
              (((List.range p).map fun j => max (-((r (j + 1)).toF - (r j).toF)) 0).sum / p))),
           w (sdict [("gain", sc (.flt (((List.range p).map fun j => max ((r (j + 1)).toF - (r j).toF) 0).sum / p))),
                     ("loss", sc (.flt (((List.range p).map fun j => max (-((r (j + 1)).toF - (r j).toF)) 0).sum / p)))])) :=
  Numeric.rsi_seed ops x p input w r hprev hrp hr hset hdata hrg hrl hp

example : ∃ y : ℚ, ∃ cs', Calc.rsi (Demo.opsW "RSI_9_data") (Demo.ctx "RSI_9") (3 : Nat) "close" = .ok (.num (.flt y), cs') :=
  ⟨_, _, rsi_seed (Demo.opsW "RSI_9_data") (Demo.ctx "RSI_9") 3 "close" (fun v => Demo.wr "RSI_9_data" v Demo.cs)
    (fun j => .int ([11, 12, 14, 15].getD j 0)) rfl (by decide)
    (by intro j hj; interval_cases j <;> rfl) (fun _ => rfl) (fun _ => rfl)
    (fun _ _ => rfl) (fun _ _ => rfl) (by norm_num)⟩

/-- the RSI expression in its textbook form `100·gain/(gain+loss)` -/
theorem rsi_textbook (g l : K) (hg : 0 ≤ g) (hl : 0 < l) : rsiOf g l = 100 * g / (g + l) :=
  rsiOf_eq g l hg hl

/-! ### MACD -/

/-- **MACD** = fast EMA − slow EMA; signal = the signal-EMA helper's reading; histogram =
MACD − signal. -/
theorem macd (ops : Ops K) (x : Ctx K) (cs1 cs2 : List (Candle K)) (sl f sg : Num K)
    (hs : x.reading (x.name ++ "_EMA_slow") = .ok (.num sl))
    (hf : x.reading (x.name ++ "_EMA_fast") = .ok (.num f))
    (hu : updateAt x.cs x.i (fun c => { c with inds := dset x.name (sdict [("MACD", sc (f.sub sl))]) c.inds }) = .ok cs1)
    (hc : ops.calcManaged "signal" cs1 = .ok cs2)
    (hsg : (Ctx.on x cs2).reading (x.name ++ "_signal_line") = .ok (.num sg)) :
    ∃ m hist : Num K, Calc.macd ops x =
        .ok (.dict [("MACD", .num m), ("signal", .num sg), ("histogram", .num hist)], cs2) ∧
      m.toF = f.toF - sl.toF ∧ hist.toF = m.toF - sg.toF :=
  ⟨_, _, macd_def ops x cs1 cs2 sl f sg hs hf hu hc hsg, (macd_vals f sl sg).1, (macd_vals f sl sg).2⟩

example : ∃ m hist : Num ℚ, ∃ cs2, Calc.macd Demo.ops (Demo.ctx "MACD") =
      .ok (.dict [("MACD", .num m), ("signal", .num (.flt 0.5)), ("histogram", .num hist)], cs2) ∧
      m.toF = (Num.flt 13 : Num ℚ).toF - (Num.flt 12 : Num ℚ).toF ∧ hist.toF = m.toF - (Num.flt 0.5 : Num ℚ).toF := by
  obtain ⟨m, hist, h⟩ := macd Demo.ops (Demo.ctx "MACD") _ _ (.flt 12) (.flt 13) (.flt 0.5) rfl rfl rfl rfl rfl
  exact ⟨m, hist, _, h⟩

/-! ### ROC -/

/-- **ROC** = `100·(x[t] − x[t−period]) / x[t−period]`. -/
theorem roc (x : Ctx K) (period : Int) (input : String) (pv : Val K) (back cur : Num K)
    (hprev : x.prevReading x.name = .ok pv)
    (hg : pv.isNone = false ∨ x.readingPeriod (period + 1) input = true)
    (hb : x.reading input (some (x.i - period)) = .ok (.num back))
    (hc : x.reading input = .ok (.num cur)) (hb0 : back.toF ≠ 0) :
    IsNum (Calc.roc x period input) ((cur.toF - back.toF) / back.toF * 100) :=
  roc_def x period input pv back cur hprev hg hb hc hb0

example : IsNum (Calc.roc (Demo.ctx "ROC_2") 2 "close")
    (((Num.int 15 : Num ℚ).toF - (Num.int 12 : Num ℚ).toF) / (Num.int 12 : Num ℚ).toF * 100) :=
  roc (Demo.ctx "ROC_2") 2 "close" .none (.int 12) (.int 15) rfl (Or.inr (by decide)) rfl rfl (by norm_num)

/-! ### Stochastic -/

/-- **Stochastic**: `stoch = 100·(input − L)/(H − L)` with `L`/`H` the lowest low / highest high
of the window (`0` on a flat window); `k`, `d` are the SMA helpers' readings. -/
theorem stoch (ops : Ops K) (x : Ctx K) (p : Nat) (input : String)
    (w : Val K → List (Candle K) → List (Candle K)) (cd : List (Candle K) → List (Candle K))
    (lo hi : Nat → Num K) (cur : Num K)
    (hrp : x.readingPeriod p input = true) (hp : 1 ≤ p)
    (hlo : ∀ j, j < p → x.reading "low" (some (x.i + 1 - p + j)) = .ok (.num (lo j)))
    (hhi : ∀ j, j < p → x.reading "high" (some (x.i + 1 - p + j)) = .ok (.num (hi j)))
    (hc : x.reading input = .ok (.num cur))
    (hset : ∀ v cs, ops.setManaged "STOCH_data" v cs = .ok (w v cs))
    (hcalc : ∀ cs, ops.calcManaged "STOCH_d" cs = .ok (cd cs))
    (hk : ∀ v, ∃ ks, (Ctx.on x (w v x.cs)).reading (x.name ++ "_k") = .ok (.s ks))
    (hdr : ∀ v1 v2, ∃ ds, (Ctx.on x (cd (w v2 (w v1 x.cs)))).reading (x.name ++ "_d") = .ok (.s ds)) :
    ∃ (st L H : Num K) (ks ds : Scalar K) (cs' : List (Candle K)),
      Calc.stoch ops x p input = .ok (.dict [("stoch", .num st), ("k", ks), ("d", ds)], cs') ∧
      st.toF = stochOf cur.toF L.toF H.toF ∧
      (∀ j, j < p → L.toF ≤ (lo j).toF) ∧ (∃ j, j < p ∧ L.toF = (lo j).toF) ∧
      (∀ j, j < p → (hi j).toF ≤ H.toF) ∧ (∃ j, j < p ∧ H.toF = (hi j).toF) :=
  stoch_def ops x p input w cd lo hi cur hrp hp hlo hhi hc hset hcalc hk hdr

example : ∃ (st : Num ℚ) (ks ds : Scalar ℚ) (cs' : List (Candle ℚ)),
    Calc.stoch Demo.ops (Demo.ctx "STOCH") (3 : Nat) "close" = .ok (.dict [("stoch", .num st), ("k", ks), ("d", ds)], cs') := by
  obtain ⟨st, _, _, ks, ds, cs', h, _⟩ := stoch Demo.ops (Demo.ctx "STOCH") 3 "close" (fun _ cs => cs) (fun cs => cs)
    (fun j => .int ([10, 11, 13].getD j 0)) (fun j => .int ([13, 15, 16].getD j 0)) (.int 15) (by decide) (by norm_num)
    (by intro j hj; interval_cases j <;> rfl) (by intro j hj; interval_cases j <;> rfl) rfl
    (fun _ _ => rfl) (fun _ => rfl)
    (fun _ => ⟨.num (.flt 60), rfl⟩) (fun _ _ => ⟨.num (.flt 55), rfl⟩)
  exact ⟨st, ks, ds, cs', h⟩

/-! ### TSI -/

/-- **TSI** = `100 · double-smoothed momentum / double-smoothed |momentum|` (`0` when the
denominator is 0); the momentum and its absolute value are written to the helper series that the
two EMA chains smooth. -/
theorem tsi (ops : Ops K) (x : Ctx K) (input : String) (cs1 : List (Candle K)) (cur prev a s : Num K)
    (hrp : x.readingPeriod 2 input = true)
    (hc : x.reading input = .ok (.num cur)) (hp : x.prevReading input = .ok (.num prev))
    (hset : ops.setManaged "TSI_data"
      (sdict [("price", sc (cur.sub prev)), ("abs_price", sc (cur.sub prev).abs)]) x.cs = .ok cs1)
    (ha : (Ctx.on x cs1).reading (x.name ++ "_abs_second") = .ok (.num a))
    (hs : (Ctx.on x cs1).reading (x.name ++ "_second") = .ok (.num s)) :
    (∃ n, Calc.tsi ops x input = .ok (.num n, cs1) ∧
      n.toF = if a.toF = 0 then 0 else 100 * (s.toF / a.toF)) ∧
    (cur.sub prev).toF = cur.toF - prev.toF ∧ (cur.sub prev).abs.toF = |cur.toF - prev.toF| :=
  ⟨tsi_def ops x input cs1 cur prev a s hrp hc hp hset ha hs, by simp, by simp⟩

example : ∃ n : Num ℚ, Calc.tsi Demo.ops (Demo.ctx "TSI") "close" = .ok (.num n, Demo.cs) ∧
    n.toF = if (Num.flt 2 : Num ℚ).toF = 0 then 0 else 100 * ((Num.flt 1 : Num ℚ).toF / (Num.flt 2 : Num ℚ).toF) :=
  (tsi Demo.ops (Demo.ctx "TSI") "close" Demo.cs (.int 15) (.int 14) (.flt 2) (.flt 1) (by decide) rfl rfl rfl rfl rfl).1

/-! ### Aroon -/

/-- **Aroon** up/down = `100·(period − bars since the extreme)/period`, oscillator = up − down;
the bar offsets come from `highestbar/lowestbar` over `period + 1` candles and lie in `[0, period]`. -/
theorem aroon (x : Ctx K) (p : Int) (hb lb : Int)
    (hrp : x.readingPeriod (p + 1) "high" = true)
    (hh : Mov.highestbar x.cs "high" (p + 1) x.i = .ok (.int hb))
    (hl : Mov.lowestbar x.cs "low" (p + 1) x.i = .ok (.int lb)) (hp : (p : K) ≠ 0) :
    ∃ u d o : Num K, Calc.aroon x p = .ok (.dict [("AROONU", .num u), ("AROOND", .num d), ("AROONOSC", .num o)]) ∧
      u.toF = ((p : K) - hb) / p * 100 ∧ d.toF = ((p : K) - lb) / p * 100 ∧ o.toF = u.toF - d.toF ∧
      (0 ≤ hb ∧ (hb = 0 ∨ hb ≤ p)) ∧ (0 ≤ lb ∧ (lb = 0 ∨ lb ≤ p)) := by
  refine ⟨_, _, _, aroon_def x p hb lb hrp hh hl hp, aroon_val p hb, aroon_val p lb, by simp, ?_, ?_⟩
  · obtain ⟨h1, h2⟩ := highestbar_range _ _ _ _ _ hh
    exact ⟨h1, h2.imp id (fun h => by omega)⟩
  · obtain ⟨h1, h2⟩ := lowestbar_range _ _ _ _ _ hl
    exact ⟨h1, h2.imp id (fun h => by omega)⟩

example : ∃ u d o : Num ℚ, Calc.aroon (Demo.ctx "AROON_2") 2 =
    .ok (.dict [("AROONU", .num u), ("AROOND", .num d), ("AROONOSC", .num o)]) := by
  obtain ⟨u, d, o, h, _⟩ := aroon (Demo.ctx "AROON_2") 2 0 2 (by decide) rfl rfl (by norm_num)
  exact ⟨u, d, o, h⟩

/-! ### ADX -/

/-- **ADX**: `+DM`/`−DM` from the high/low changes are written to the helper series, `+DI`/`−DI`
are `100·RMA(±DM)/ATR` (`0` for a zero ATR), `DX = 100·|+DI − −DI|/(+DI + −DI)` (`0` for a zero
sum) is written, and the ADX field is the RMA-of-DX helper's reading. -/
theorem adx (ops : Ops K) (x : Ctx K)
    (w : Val K → List (Candle K) → List (Candle K)) (cd : List (Candle K) → List (Candle K))
    (sd : List (Candle K) → Scalar K)
    (h ph l pl a pos neg : Num K) (hi : 0 < x.i)
    (hh : x.reading "high" = .ok (.num h)) (hph : x.reading "high" (some (x.i - 1)) = .ok (.num ph))
    (hl : x.reading "low" = .ok (.num l)) (hpl : x.reading "low" (some (x.i - 1)) = .ok (.num pl))
    (hset : ∀ v cs, ops.setManaged "ADX_data" v cs = .ok (w v cs))
    (hcalc : ∀ cs, ops.calcManaged "dx" cs = .ok (cd cs))
    (hatr : ∀ v, (Ctx.on x (w v x.cs)).reading (x.name ++ "_atr") = .ok (.num a))
    (hpos : ∀ v, (Ctx.on x (w v x.cs)).reading (x.name ++ "_pos") = .ok (.num pos))
    (hneg : ∀ v, (Ctx.on x (w v x.cs)).reading (x.name ++ "_neg") = .ok (.num neg))
    (hdx : ∀ v1 v2, (Ctx.on x (cd (w v2 (w v1 x.cs)))).reading (x.name ++ "_dx") = .ok (.s (sd (cd (w v2 (w v1 x.cs)))))) :
    ∃ (P N DX plus minus : Num K) (cs' : List (Candle K)),
      Calc.adx ops x = .ok (.dict [("ADX", sd cs'), ("DM_Plus", .num plus), ("DM_Neg", .num minus)], cs') ∧
      cs' = cd (w (sdict [("pos", sc P), ("neg", sc N), ("dx", sc DX)]) (w (sdict [("pos", sc P), ("neg", sc N)]) x.cs)) ∧
      P.toF = dmPlus (h.toF - ph.toF) (pl.toF - l.toF) ∧
      N.toF = dmMinus (h.toF - ph.toF) (pl.toF - l.toF) ∧
      plus.toF = diMod a.toF * pos.toF ∧ minus.toF = diMod a.toF * neg.toF ∧
      DX.toF = dxOf plus.toF minus.toF :=
  ⟨_, _, _, _, _, _, adx_def ops x w cd sd h ph l pl a pos neg hi hh hph hl hpl hset hcalc hatr hpos hneg hdx, rfl,
    toF_dmP h ph l pl, toF_dmN h ph l pl, by simp [toF_modNum], by simp [toF_modNum], toF_dxNum _ _⟩

example : ∃ (plus minus : Num ℚ) (cs' : List (Candle ℚ)),
    Calc.adx Demo.ops (Demo.ctx "ADX") = .ok (.dict [("ADX", .num (.flt 30)), ("DM_Plus", .num plus), ("DM_Neg", .num minus)], cs') := by
  obtain ⟨_, _, _, plus, minus, cs', h, _⟩ := adx Demo.ops (Demo.ctx "ADX") (fun _ cs => cs) (fun cs => cs)
    (fun _ => .num (.flt 30)) (.int 16) (.int 15) (.int 13) (.int 11) (.flt 3) (.flt 1) (.flt 0.5) (by decide)
    rfl rfl rfl rfl (fun _ _ => rfl) (fun _ => rfl) (fun _ => rfl) (fun _ => rfl) (fun _ => rfl) (fun _ _ => rfl)
  exact ⟨plus, minus, cs', h⟩

/-! ### OBV, VWAP -/

/-- **OBV**: previous OBV plus the volume when the close rises, minus it when the close falls,
unchanged when the CLOSE is unchanged. -/
theorem obv (x : Ctx K) (c pc prev v : Num K)
    (hprev : x.prevReading x.name = .ok (.num prev))
    (hc : x.reading "close" = .ok (.num c)) (hpc : x.prevReading "close" = .ok (.num pc))
    (hv : x.reading "volume" = .ok (.num v)) :
    IsNum (Calc.obv x)
      (if c.toF = pc.toF then prev.toF else if pc.toF < c.toF then prev.toF + v.toF else prev.toF - v.toF) :=
  obv_def x c pc prev v hprev hc hpc hv

example : IsNum (Calc.obv (Demo.ctx "OBV"))
    (if (Num.int 15 : Num ℚ).toF = (Num.int 14 : Num ℚ).toF then (Num.int 600 : Num ℚ).toF
     else if (Num.int 14 : Num ℚ).toF < (Num.int 15 : Num ℚ).toF then (Num.int 600 : Num ℚ).toF + (Num.int 0 : Num ℚ).toF
     else (Num.int 600 : Num ℚ).toF - (Num.int 0 : Num ℚ).toF) :=
  obv (Demo.ctx "OBV") (.int 15) (.int 14) (.int 600) (.int 0) rfl rfl rfl rfl

/-- the first OBV reading is the candle's volume -/
theorem obv_first (x : Ctx K) (hprev : x.prevReading x.name = .ok .none) :
    Calc.obv x = x.reading "volume" :=
  obv_seed x hprev

/-- **VWAP** (cumulative): `pv += volume·(high+low+close)/3`, `vol += volume`, reading `pv/vol`
(`pv` itself while the cumulative volume is 0). -/
theorem vwap (ops : Ops K) (x : Ctx K) (w : Val K → List (Candle K)) (h l c vol ppv pvol : Num K)
    (hh : x.reading "high" = .ok (.num h)) (hl : x.reading "low" = .ok (.num l))
    (hc : x.reading "close" = .ok (.num c)) (hv : x.reading "volume" = .ok (.num vol))
    (hpp : x.prevReading (x.name ++ "_data.pv") = .ok (.num ppv))
    (hpv : x.prevReading (x.name ++ "_data.vol") = .ok (.num pvol))
    (hset : ∀ v, ops.setManaged "VWAP_data" v x.cs = .ok (w v)) :
    ∃ PV TV : Num K,
      PV.toF = ppv.toF + vol.toF * ((h.toF + l.toF + c.toF) / 3) ∧ TV.toF = pvol.toF + vol.toF ∧
      Calc.vwap ops x = .ok (.num (if TV.toF = 0 then PV else .flt (PV.toF / TV.toF)),
                             w (sdict [("pv", sc PV), ("vol", sc TV)])) :=
  vwap_step ops x w h l c vol ppv pvol hh hl hc hv hpp hpv hset

example : ∃ (r : Num ℚ) (cs' : List (Candle ℚ)), Calc.vwap Demo.ops (Demo.ctx "VWAP") = .ok (.num r, cs') := by
  obtain ⟨PV, TV, _, _, h⟩ := vwap Demo.ops (Demo.ctx "VWAP") (fun _ => Demo.cs) (.int 16) (.int 13) (.int 15) (.int 0)
    (.flt 7000) (.int 600) rfl rfl rfl rfl rfl rfl (fun _ => rfl)
  exact ⟨_, _, h⟩

/-- the first VWAP candle starts both running sums from 0 -/
theorem vwap_first (ops : Ops K) (x : Ctx K) (w : Val K → List (Candle K)) (h l c vol : Num K)
    (hh : x.reading "high" = .ok (.num h)) (hl : x.reading "low" = .ok (.num l))
    (hc : x.reading "close" = .ok (.num c)) (hv : x.reading "volume" = .ok (.num vol))
    (hpp : x.prevReading (x.name ++ "_data.pv") = .ok .none)
    (hset : ∀ v, ops.setManaged "VWAP_data" v x.cs = .ok (w v)) :
    ∃ PV TV : Num K,
      PV.toF = vol.toF * ((h.toF + l.toF + c.toF) / 3) ∧ TV.toF = vol.toF ∧
      Calc.vwap ops x = .ok (.num (if TV.toF = 0 then PV else .flt (PV.toF / TV.toF)),
                             w (sdict [("pv", sc PV), ("vol", sc TV)])) :=
  Numeric.vwap_first ops x w h l c vol hh hl hc hv hpp hset

/-! ### whole series (leaf indicators over candle fields) -/

/-- **OBV, whole series**: never raises; reading `j` is within `(j+1)·ε` of the exact on-balance
volume `obvExact` – the first candle's volume, then ± the candle's volume by the sign of the CLOSE
change (ints are not rounded, so with integer volumes the readings are exact). -/
theorem obv_series (nm : String) (n : Nat) (hk : IsKey nm)
    (raw : List (Candle K)) (hraw : ∀ c ∈ raw, Plain c) :
    ∃ vs : List (Val K), vs.length = raw.length ∧
      rowMajor (mkTop .obv nm n) raw = .ok (deco nm raw vs) ∧
      ∀ j, j < raw.length → ∃ t : Num K, vs.getD j .none = .num t ∧
        |t.toF - obvExact (fieldAt (·.c) raw) (fieldAt (·.v) raw) j| ≤ ((j + 1 : Nat) : K) * eps K n :=
  Numeric.obv_series nm n hk raw hraw

/-- **ROC, whole series** over a candle field with non-zero values (prices): `None` on the first
`period` candles, afterwards within `ε` of `100·(x[t] − x[t−p])/x[t−p]`. -/
theorem roc_series (p : Nat) (hp : 1 ≤ p) (nm input : String) (fld : Candle K → Num K) (n : Nat)
    (hk : IsKey nm) (hd : NoDot input) (hattr : ∀ c : Candle K, c.attr input = some (.num (fld c)))
    (raw : List (Candle K)) (hraw : ∀ c ∈ raw, Plain c) (hnz : ∀ j, j < raw.length → fieldAt fld raw j ≠ 0) :
    ∃ vs : List (Val K), vs.length = raw.length ∧
      rowMajor (mkTop (.roc p input) nm n) raw = .ok (deco nm raw vs) ∧
      ∀ j, j < raw.length → DirectOK (p + 1) n (rocAt (fieldAt fld raw) p) j (vs.getD j .none) :=
  Numeric.roc_series p hp nm input fld n hk hd hattr raw hraw hnz

/-- four raw candles over ℚ -/
def demoRaw : List (Candle ℚ) :=
  [Demo.mk 10 12 9 11 100, Demo.mk 11 13 10 12 200, Demo.mk 12 15 11 14 300, Demo.mk 14 16 13 15 0]

theorem demoRaw_plain : ∀ c ∈ demoRaw, Plain c := by
  intro c hc
  simp only [demoRaw, List.mem_cons, List.not_mem_nil, or_false] at hc
  rcases hc with rfl | rfl | rfl | rfl <;> exact ⟨rfl, rfl⟩

example : ∃ vs : List (Val ℚ), vs.length = demoRaw.length ∧
    rowMajor (mkTop .obv "OBV" 4) demoRaw = .ok (deco "OBV" demoRaw vs) ∧
    ∀ j, j < demoRaw.length → ∃ t : Num ℚ, vs.getD j .none = .num t ∧
      |t.toF - obvExact (fieldAt (·.c) demoRaw) (fieldAt (·.v) demoRaw) j| ≤ ((j + 1 : Nat) : ℚ) * eps ℚ 4 :=
  obv_series "OBV" 4 (by decide) demoRaw demoRaw_plain

example : ∃ vs : List (Val ℚ), vs.length = demoRaw.length ∧
    rowMajor (mkTop (.roc (2 : Nat) "close") "ROC" 4) demoRaw = .ok (deco "ROC" demoRaw vs) ∧
    ∀ j, j < demoRaw.length → DirectOK (2 + 1) 4 (rocAt (fieldAt (·.c) demoRaw) 2) j (vs.getD j .none) :=
  roc_series 2 (by norm_num) "ROC" "close" (·.c) 4 (by decide) noDot_close (fun _ => rfl) demoRaw demoRaw_plain
    (by intro j hj; simp [demoRaw] at hj; interval_cases j <;> simp [fieldAt, demoRaw, Demo.mk])

/-! ### whole series: the composites (and VWAP, Aroon) over raw candles

Conventions: `raw` is any list of plain candles (`Plain c`: no readings yet), `input` a candle
field with accessor `fld`; `Gen.rowMajor T.S raw` is the row-major run of the indicator's `TreeSpec`
`T` – by `TreeSpec.engine` / `batch_iff` / `live_refines` (C01) what `calculate()`, the batch run and
every append schedule return; `runIndicator tree {} init chunks` is the OBJECT over the base
timeframe: construction over `init`, `calculate()`, then one `append` per chunk. -/

/-! #### RSI -/

/-- **RSI, whole series** (period `p ≥ 1`, input a candle field).  For EVERY raw list the run
returns the raw candles with, on candle `j`, the pair (own reading, `<name>_data` entry), and every
pair satisfies `RsiOK`: both `None` before the TRUE warm-up index `p`; from `p` on the data entry is
EXACTLY `{gain: wilderAvg p up j, loss: wilderAvg p down j}` (the managed series is not rounded: plain
means of the first `p` up / down moves at index `p`, then `avg j = (avg (j−1)·(p−1) + move j)/p`)
and the own reading is `round n (100 − 100/(1 + gain/loss))` (`100` when `loss = 0`): within `ε_n`
of the textbook value at every index (no growth) and inside `[0, 100]`. -/
theorem rsi_series (p : Nat) (hp : 1 ≤ p) (nm input : String) (fld : Candle K → Num K) (n : Nat)
    (hn : RsiNames nm) (hk : IsKey nm) (hin : NoDot input ∧ input ∈ Candle.attrNames)
    (hattr : ∀ c : Candle K, c.attr input = some (.num (fld c)))
    (raw : List (Candle K)) (hraw : ∀ c ∈ raw, Plain c) :
    ∃ rows : List (Val K × Val K), rows.length = raw.length ∧
      Gen.rowMajor (rsiTree (F := K) nm n (p : Int) input (by omega) hn hin).S raw = .ok (decoRsi nm raw rows) ∧
      ∀ j, j < raw.length → RsiOK p n (fieldAt fld raw) j (rows.getD j (.none, .none)) :=
  Numeric.rsi_series p hp nm input fld n hn hk hin hattr raw hraw

/-- **RSI, whole series, read off the candles**: on candle `j` the own reading follows the textbook
series `rsiSeries` (`None` before index `p`, then within `ε_n` of `100 − 100/(1 + avgGain/avgLoss)`
and in `[0, 100]`: `RsiOwnOK`); `<name>_data` is `None` before `p` and afterwards its fields
`.gain` / `.loss` are exactly Wilder's averages of the upward / downward moves. -/
theorem rsi_series_candles (p : Nat) (hp : 1 ≤ p) (nm input : String) (fld : Candle K → Num K) (n : Nat)
    (hn : RsiNames nm) (hk : IsKey nm) (hin : NoDot input ∧ input ∈ Candle.attrNames)
    (hattr : ∀ c : Candle K, c.attr input = some (.num (fld c)))
    (raw : List (Candle K)) (hraw : ∀ c ∈ raw, Plain c) :
    ∃ out : List (Candle K), out.length = raw.length ∧
      Gen.rowMajor (rsiTree (F := K) nm n (p : Int) input (by omega) hn hin).S raw = .ok out ∧
      ∀ j, j < raw.length →
        RsiOwnOK n (rsiSeries p (fieldAt fld raw) j) (readingByCandle (out.getD j default) nm) ∧
        (j < p → readingByCandle (out.getD j default) (nm ++ "_data") = .none) ∧
        (p ≤ j →
          readingByCandle (out.getD j default) (nm ++ "_data.gain")
            = .flt (wilderAvg p (upAt (fieldAt fld raw)) j) ∧
          readingByCandle (out.getD j default) (nm ++ "_data.loss")
            = .flt (wilderAvg p (downAt (fieldAt fld raw)) j)) :=
  Numeric.rsi_series_candles p hp nm input fld n hn hk hin hattr raw hraw

/-- **… through the object**: building the RSI over the raw candles and calling `calculate()` once
returns exactly the candles of `rsi_series`. -/
theorem rsi_series_batch (p : Nat) (hp : 1 ≤ p) (nm input : String) (fld : Candle K → Num K) (n : Nat)
    (hn : RsiNames nm) (hk : IsKey nm) (hin : NoDot input ∧ input ∈ Candle.attrNames)
    (hattr : ∀ c : Candle K, c.attr input = some (.num (fld c)))
    (raw : List (Candle K)) (hraw : ∀ c ∈ raw, Plain c) :
    ∃ rows : List (Val K × Val K), rows.length = raw.length ∧
      candlesOf (runIndicator (mkTop (.rsi (p : Int) input : Kind K) nm n) {} raw []) = .ok (decoRsi nm raw rows) ∧
      ∀ j, j < raw.length → RsiOK p n (fieldAt fld raw) j (rows.getD j (.none, .none)) :=
  Numeric.rsi_series_batch p hp nm input fld n hn hk hin hattr raw hraw

/-- **… for every append schedule**: whenever a live history (construction over `init`,
`calculate()`, then any appends) returns, its candles are those of `rsi_series` over the whole
stream `init ++ chunks.flatten`. -/
theorem rsi_series_live (p : Nat) (hp : 1 ≤ p) (nm input : String) (fld : Candle K → Num K) (n : Nat)
    (hn : RsiNames nm) (hk : IsKey nm) (hin : NoDot input ∧ input ∈ Candle.attrNames)
    (hattr : ∀ c : Candle K, c.attr input = some (.num (fld c)))
    (init : List (Candle K)) (chunks : List (List (Candle K)))
    (hraw : ∀ c ∈ init ++ chunks.flatten, Plain c) (snap : List (Candle K))
    (hsnap : candlesOf (runIndicator (mkTop (.rsi (p : Int) input : Kind K) nm n) {} init chunks) = .ok snap) :
    ∃ rows : List (Val K × Val K), rows.length = (init ++ chunks.flatten).length ∧
      snap = decoRsi nm (init ++ chunks.flatten) rows ∧
      ∀ j, j < (init ++ chunks.flatten).length →
        RsiOK p n (fieldAt fld (init ++ chunks.flatten)) j (rows.getD j (.none, .none)) :=
  Numeric.rsi_series_live p hp nm input fld n hn hk hin hattr init chunks hraw snap hsnap

/-- **… and with a collapsing timeframe** (the instantiation pattern for every series theorem of
this file): with `timeframe = tf` every live history that returns ends with the RSI series of the
RESAMPLED stream `resample tf (init ++ chunks.flatten)` (C01: `TreeSpec.live_refines` on
`MgrSpec.tf`, then `rsi_series` on the resampled candles, which are plain). -/
theorem rsi_series_tf (tf : Int) (htf : 0 < tf) (p : Nat) (hp : 1 ≤ p) (nm input : String)
    (fld : Candle K → Num K) (n : Nat)
    (hn : RsiNames nm) (hk : IsKey nm) (hin : NoDot input ∧ input ∈ Candle.attrNames)
    (hattr : ∀ c : Candle K, c.attr input = some (.num (fld c)))
    (init : List (Candle K)) (chunks : List (List (Candle K)))
    (hraw : RawTf (init ++ chunks.flatten)) (snap : List (Candle K))
    (hsnap : candlesOf (runIndicator (mkTop (.rsi (p : Int) input : Kind K) nm n) (cfgTf tf) init chunks) = .ok snap) :
    ∃ rows : List (Val K × Val K), rows.length = (resample tf (init ++ chunks.flatten)).length ∧
      snap = decoRsi nm (resample tf (init ++ chunks.flatten)) rows ∧
      ∀ j, j < (resample tf (init ++ chunks.flatten)).length →
        RsiOK p n (fieldAt fld (resample tf (init ++ chunks.flatten))) j (rows.getD j (.none, .none)) := by
  obtain ⟨rows, hl, hrun, hall⟩ := Numeric.rsi_series p hp nm input fld n hn hk hin hattr _
    ((MgrSpec.tf K tf htf).spec_plain _ hraw)
  have h : Gen.rowMajor (rsiTree (F := K) nm n (p : Int) input (by omega) hn hin).S
      (resample tf (init ++ chunks.flatten)) = .ok snap :=
    (rsiTree (F := K) nm n (p : Int) input (by omega) hn hin).live_refines (MgrSpec.tf K tf htf) init chunks hraw snap hsnap
  exact ⟨rows, hl, (Except.ok.inj (hrun.symm.trans h)).symm, hall⟩

/-! #### MACD -/

/-- **MACD, whole series** (`2 ≤ fast ≤ slow`, `1 ≤ signal`, input a candle field; `2 ≤ fast` because
an EMA seed at absolute index 0 would raise, `fast ≤ slow` is what `_validate_fields` establishes).
For EVERY raw list the run returns EXACTLY `macdOut`, an explicit function of the raw candles: candle
`j` carries `<name>_EMA_fast` / `<name>_EMA_slow` (4 decimals, first reading at `fast−1` / `slow−1`),
`<name>_signal_line` (no entry below `slow−1`, `None` up to `slow+signal−3`, from `slow+signal−2` on
the EMA over the `MACD` column) and the own dict `macdOwn j`.  What these are numerically:
`macdOut_ok`. -/
theorem macd_series (nm : String) (n pf ps pg : Nat) (input : String) (fld : Candle K → Num K)
    (hf : 2 ≤ pf) (hfs : pf ≤ ps) (hg : 1 ≤ pg) (hn : MacdNames nm)
    (hin : NoDot input ∧ input ∈ Candle.attrNames)
    (hattr : ∀ c : Candle K, c.attr input = some (.num (fld c)))
    (raw : List (Candle K)) (hraw : ∀ c ∈ raw, Plain c) :
    Gen.rowMajor (macdTreeN (K := K) nm n pf ps pg input (by omega) (by omega) hg hn hin).S raw
      = .ok (macdOut nm n pf ps pg fld raw) :=
  Numeric.macd_series nm n pf ps pg input fld hf hfs hg hn hin hattr raw hraw

/-- **MACD, candle by candle** (`MacdCandleOK`): candle `j` of `macdOut` is the raw candle with
* the two EMA helpers `RecOK` w.r.t. the textbook EMAs of the input: `None` before `period−1`, then
  within `ε₄/a`, `a = 2/(period+1)` (helpers are rounded to 4 decimals);
* the signal line `RecOK` with warm-up `slow+signal−2`, budget `ε₄/a_signal`, w.r.t. the EMA of the
  MACD values it reads;
* the own fields against the textbook MACD / signal / histogram of the raw input: `MACD` `None`
  before `slow−1`, then within `ε_n + (ε₄/a_f + ε₄/a_s)`; `signal` `None` before `slow+signal−2`, then
  within `ε_n + (ε₄/a_g + ε_n) + (ε₄/a_f + ε₄/a_s)`; `histogram` same warm-up, one helper budget more;
* the own dict all-`None` before `slow−1`, and `|histogram − (MACD − signal)| ≤ 3·ε_n` on the STORED
  values once there is a signal. -/
theorem macdOut_ok (nm : String) (n pf ps pg : Nat) (fld : Candle K → Num K) (raw : List (Candle K))
    (hf : 1 ≤ pf) (hfs : pf ≤ ps) (hg : 1 ≤ pg) (hn : MacdNames nm) (hraw : ∀ c ∈ raw, Plain c)
    (j : Nat) (hj : j < raw.length) :
    MacdCandleOK nm n pf ps pg (fieldAt fld raw) j (raw.getD j default)
      ((macdOut nm n pf ps pg fld raw).getD j default) :=
  Numeric.macdOut_ok nm n pf ps pg fld raw hf hfs hg hn hraw j hj

/-- **… through the object**: whenever the batch run returns (it does: `Numeric.macd_batch`), its
candles carry exactly those readings. -/
theorem macd_batch_readings (nm : String) (n pf ps pg : Nat) (input : String) (fld : Candle K → Num K)
    (hf : 2 ≤ pf) (hfs : pf ≤ ps) (hg : 1 ≤ pg) (hn : MacdNames nm)
    (hin : NoDot input ∧ input ∈ Candle.attrNames)
    (hattr : ∀ c : Candle K, c.attr input = some (.num (fld c)))
    (raw : List (Candle K)) (hraw : ∀ c ∈ raw, Plain c) (out : List (Candle K))
    (hout : candlesOf (runIndicator (mkTop (.macd (pf : Int) (ps : Int) (pg : Int) input : Kind K) nm n) {} raw [])
      = .ok out) :
    out.length = raw.length ∧
    ∀ j, j < raw.length →
      MacdCandleOK nm n pf ps pg (fieldAt fld raw) j (raw.getD j default) (out.getD j default) :=
  Numeric.macd_batch_readings nm n pf ps pg input fld hf hfs hg hn hin hattr raw hraw out hout

/-- **… for every append schedule**: whenever a live history returns, its candles are `macdOut` of
the whole stream (to which `macdOut_ok` applies). -/
theorem macd_live (nm : String) (n pf ps pg : Nat) (input : String) (fld : Candle K → Num K)
    (hf : 2 ≤ pf) (hfs : pf ≤ ps) (hg : 1 ≤ pg) (hn : MacdNames nm)
    (hin : NoDot input ∧ input ∈ Candle.attrNames)
    (hattr : ∀ c : Candle K, c.attr input = some (.num (fld c)))
    (init : List (Candle K)) (chunks : List (List (Candle K)))
    (hraw : ∀ c ∈ init ++ chunks.flatten, Plain c) (snap : List (Candle K))
    (hsnap : candlesOf (runIndicator (mkTop (.macd (pf : Int) (ps : Int) (pg : Int) input : Kind K) nm n) {}
      init chunks) = .ok snap) :
    snap = macdOut nm n pf ps pg fld (init ++ chunks.flatten) :=
  Numeric.macd_live nm n pf ps pg input fld hf hfs hg hn hin hattr init chunks hraw snap hsnap

/-! #### Stochastic -/

/-- **STOCH, whole series** (`period = p ≥ 2`, `smoothing_k = sk ≥ 1`, `slow_period = sl ≥ 1`, input a
candle field; note the constructor order `.stoch period slow smoothK input`).  For EVERY raw list
the run returns EXACTLY `stochDeco`, an explicit function of the raw candles (row `stRow … j`);
what the rows are numerically: `stochDeco_ok`. -/
theorem stoch_series (p sk sl : Nat) (hp : 2 ≤ p) (hsk : 1 ≤ sk) (hsl : 1 ≤ sl) (nm input : String)
    (fld : Candle K → Num K) (n : Nat) (hn : StochNames nm) (hin : NoDot input ∧ input ∈ Candle.attrNames)
    (hattr : ∀ c : Candle K, c.attr input = some (.num (fld c)))
    (raw : List (Candle K)) (hraw : ∀ c ∈ raw, Plain c) :
    Gen.rowMajor (stochTree (F := K) nm n (p : Int) (sl : Int) (sk : Int) input (by omega) (by omega) (by omega)
      hn hin).S raw = .ok (stochDeco nm n p sk sl fld raw) :=
  Numeric.stoch_series p sk sl hp hsk hsl nm input fld n hn hin hattr raw hraw

/-- **STOCH, candle by candle** (`StochOK`): on candle `j`
* `<name>_data` is absent before index `p−1`; from there on it is `{stoch, k}` whose `stoch` is EXACTLY
  `100·(x_j − LL)/(HH − LL)` (`0` on a flat window; lows / highs of candles `j−p+1 … j`; not rounded)
  and whose `k` is the `<name>_k` reading;
* `<name>_k` (SMA of the raw values, 4 decimals, running form) is `None` before `t_K = p+sk−2`, then
  within `(j−t_K+1)·ε₄` of the mean of the last `sk` raw values; `<name>_d` (SMA of the STORED `%K`) is
  `None` before `t_D = p+sk+sl−3`, then within `(j−t_D+1)·ε₄ + (j−t_K+1)·ε₄` of the textbook `%D`;
* the own reading is ALWAYS a dict `{stoch, k, d}` (three `None`s during warm-up, never a bare `None`):
  `stoch = round n` of the raw value (within `ε_n`), `k`, `d` = the helper readings rounded to `n`
  (budget `+ ε_n`). -/
theorem stochDeco_ok (p sk sl : Nat) (hp : 2 ≤ p) (hsk : 1 ≤ sk) (hsl : 1 ≤ sl) (nm : String)
    (fld : Candle K → Num K) (n : Nat) (hn : StochNames nm) (raw : List (Candle K)) (hraw : ∀ c ∈ raw, Plain c)
    (j : Nat) (hj : j < raw.length) :
    StochOK n p sk sl (fieldAt (·.l) raw) (fieldAt (·.h) raw) (fieldAt fld raw) j
      (readingByCandle ((stochDeco nm n p sk sl fld raw).getD j default) nm)
      (readingByCandle ((stochDeco nm n p sk sl fld raw).getD j default) (nm ++ "_data"))
      (readingByCandle ((stochDeco nm n p sk sl fld raw).getD j default) (nm ++ "_k"))
      (readingByCandle ((stochDeco nm n p sk sl fld raw).getD j default) (nm ++ "_d")) :=
  Numeric.stochDeco_ok p sk sl hp hsk hsl nm fld n hn raw hraw j hj

/-- **STOCH ranges**: on candles with `low ≤ input ≤ high` the own `stoch` field lies in `[0, 100]`
EXACTLY (monotone rounding fixes `0` and `100`); the helper readings and the own `k`, `d` fields lie
in `[−b, 100 + b]` for their rounding budget `b` (`stochBK`, `stochBD`, `+ ε_n` for the own fields). -/
theorem stoch_ranges (n p sk sl : Nat) (lo hi x : Nat → K) (hp : 2 ≤ p) (hsk : 1 ≤ sk) (hsl : 1 ≤ sl) (j : Nat)
    (hw : ∀ i, i ≤ j → lo i ≤ x i ∧ x i ≤ hi i) (own data k d : Val K)
    (h : StochOK n p sk sl lo hi x j own data k d) :
    (p ≤ j + 1 → ∃ y, own.nested "stoch" = .flt y ∧ 0 ≤ y ∧ y ≤ 100) ∧
    (stochTK p sk ≤ j →
      (∃ y, k = .flt y ∧ -stochBK K p sk j ≤ y ∧ y ≤ 100 + stochBK K p sk j) ∧
      (∃ y, own.nested "k" = .flt y ∧ -(eps K n + stochBK K p sk j) ≤ y ∧ y ≤ 100 + (eps K n + stochBK K p sk j))) ∧
    (stochTD p sk sl ≤ j →
      (∃ y, d = .flt y ∧ -stochBD K p sk sl j ≤ y ∧ y ≤ 100 + stochBD K p sk sl j) ∧
      (∃ y, own.nested "d" = .flt y ∧ -(eps K n + stochBD K p sk sl j) ≤ y ∧
        y ≤ 100 + (eps K n + stochBD K p sk sl j))) :=
  Numeric.stoch_ranges n p sk sl lo hi x hp hsk hsl j hw own data k d h

/-- **… through the object**: whenever the batch run returns (it does: `Numeric.stoch_series_batch`),
its candles carry exactly those readings. -/
theorem stoch_batch_readings (p sk sl : Nat) (hp : 2 ≤ p) (hsk : 1 ≤ sk) (hsl : 1 ≤ sl) (nm input : String)
    (fld : Candle K → Num K) (n : Nat) (hn : StochNames nm) (hin : NoDot input ∧ input ∈ Candle.attrNames)
    (hattr : ∀ c : Candle K, c.attr input = some (.num (fld c)))
    (raw : List (Candle K)) (hraw : ∀ c ∈ raw, Plain c) (out : List (Candle K))
    (hout : candlesOf (runIndicator (mkTop (.stoch (p : Int) (sl : Int) (sk : Int) input : Kind K) nm n) {} raw [])
      = .ok out) :
    out.length = raw.length ∧
    ∀ j, j < raw.length →
      StochOK n p sk sl (fieldAt (·.l) raw) (fieldAt (·.h) raw) (fieldAt fld raw) j
        (readingByCandle (out.getD j default) nm) (readingByCandle (out.getD j default) (nm ++ "_data"))
        (readingByCandle (out.getD j default) (nm ++ "_k")) (readingByCandle (out.getD j default) (nm ++ "_d")) :=
  Numeric.stoch_batch_readings p sk sl hp hsk hsl nm input fld n hn hin hattr raw hraw out hout

/-- **… for every append schedule**: whenever a live history returns, its candles are `stochDeco` of
the whole stream (to which `stochDeco_ok` applies). -/
theorem stoch_series_live (p sk sl : Nat) (hp : 2 ≤ p) (hsk : 1 ≤ sk) (hsl : 1 ≤ sl) (nm input : String)
    (fld : Candle K → Num K) (n : Nat) (hn : StochNames nm) (hin : NoDot input ∧ input ∈ Candle.attrNames)
    (hattr : ∀ c : Candle K, c.attr input = some (.num (fld c)))
    (init : List (Candle K)) (chunks : List (List (Candle K)))
    (hraw : ∀ c ∈ init ++ chunks.flatten, Plain c) (snap : List (Candle K))
    (hsnap : candlesOf (runIndicator (mkTop (.stoch (p : Int) (sl : Int) (sk : Int) input : Kind K) nm n) {}
      init chunks) = .ok snap) :
    snap = stochDeco nm n p sk sl fld (init ++ chunks.flatten) :=
  Numeric.stoch_series_live p sk sl hp hsk hsl nm input fld n hn hin hattr init chunks hraw snap hsnap

/-! #### TSI -/

/-- **TSI, whole series** (`period = p ≥ 1`, `smooth_period = s ≥ 1`, input a candle field).  For EVERY
raw list the run returns EXACTLY `tsiOut`: candle 0 is the raw candle with a `None` own reading and NO
helper entry; candle `j ≥ 1` carries `<name>_data` = `{price: x j − x (j−1), abs_price: |…|}` (unrounded),
`<name>_first` / `<name>_abs_first` (`ds1V`: EMA_p, 4 decimals, `None` below index `p` – NOT `p−1`: the
momentum column starts at candle 1), `<name>_second` / `<name>_abs_second` (`ds2V`: EMA_s of the STORED
first level, `None` below `p+s−1`) and the own reading `tsiOwn j`. -/
theorem tsi_series (nm : String) (n p s : Nat) (input : String) (fld : Candle K → Num K)
    (hp : 1 ≤ p) (hs : 1 ≤ s) (hn : TsiNames nm) (hin : NoDot input ∧ input ∈ Candle.attrNames)
    (hattr : ∀ c : Candle K, c.attr input = some (.num (fld c)))
    (raw : List (Candle K)) (hraw : ∀ c ∈ raw, Plain c) :
    Gen.rowMajor (tsiTreeN (K := K) nm n p s input hp hs hn hin).S raw = .ok (tsiOut nm n p s fld raw) :=
  Numeric.tsi_series nm n p s input fld hp hs hn hin hattr raw hraw

/-- **TSI own reading against the textbook** (`TsiOK`): `None` before the TRUE warm-up index `p+s−1`;
afterwards a float which, WHEREVER the exact denominator `EMA_s(EMA_p(|Δx|))` is at least some `d > β`
(`β = tsiChainBudget = ε₄/a_s + ε₄/a_p`), lies within `ε_n + 200·β/(d − β)` of
`100·EMA_s(EMA_p(Δx))/EMA_s(EMA_p(|Δx|))`.  (For a denominator within `β` of `0` the stored one may be `0`
– the code then returns `0.0` – or arbitrarily small: no bound on the quotient is possible.) -/
theorem tsiOwn_ok (n p s : Nat) (hp : 1 ≤ p) (hs : 1 ≤ s) (x : Nat → K) (j : Nat) :
    TsiOK n p s x j (tsiOwn n p s x j) :=
  Numeric.tsiOwn_ok n p s hp hs x j

/-- **TSI range, unconditionally**: the stored reading is `0` when the stored `abs_second` is `0`,
otherwise `|TSI| ≤ 100 + 200·β/abs_second + ε_n` (`β = tsiChainBudget`). -/
theorem tsiOwn_range_budget (n p s : Nat) (hp : 1 ≤ p) (hs : 1 ≤ s) (x : Nat → K) (j : Nat) (y : K)
    (hy : tsiOwn n p s x j = .flt y) :
    (ds2F p s (tsiAbs x) j = 0 → y = 0) ∧
    (ds2F p s (tsiAbs x) j ≠ 0 →
      |y| ≤ 100 + 200 * tsiChainBudget (K := K) p s / ds2F p s (tsiAbs x) j + eps K n) :=
  Numeric.tsiOwn_range_budget n p s hp hs x j y hy

/-- **TSI range, exactly**: `−100 ≤ TSI ≤ 100` on every stored reading, for a rounding that in
addition to `LawfulPyF` satisfies `RoundNegLe K 4 : ∀ x, −round₄ x ≤ round₄ (−x)` (equality for
Python's odd `round`; true for the ℚ instance, `roundNegLe_rat`).  The law is NOT a consequence of
`LawfulPyF`: round-half-down is lawful and stores `second = −0.0001`, `abs_second = 0` for a one-candle
momentum of `−0.00005`. -/
theorem tsiOwn_range_odd (n p s : Nat) (hodd : RoundNegLe K defaultRound) (hp : 1 ≤ p) (hs : 1 ≤ s) (x : Nat → K)
    (j : Nat) (y : K) (hy : tsiOwn n p s x j = .flt y) : -100 ≤ y ∧ y ≤ 100 :=
  Numeric.tsiOwn_range_odd n p s hodd hp hs x j y hy

/-- the ℚ instance (round-half-up) satisfies the extra rounding law -/
theorem roundNegLe_rat (m : Nat) : RoundNegLe ℚ m := Numeric.roundNegLe_rat m

/-- **… through the object, candle by candle** (`TsiCandleOK`): whenever the batch run returns (it does:
`Numeric.tsi_batch`), candle `j` is the raw candle with the exact momentum dict from candle 1 on, the
first-level EMAs `RecOK` (first reading at `p`, budget `ε₄/a_p`), the second-level EMAs `RecOK` (first
reading at `p+s−1`, budget `ε₄/a_s` w.r.t. what they read, `β` w.r.t. the textbook double smoothing), the
own reading `TsiOK`, and on the STORED values `S`, `A`, `y`: `0 ≤ A`, `y = round_n (0 if A = 0 else
100·S/A)`, `|S| ≤ A + 2β` (`|S| ≤ A` under `RoundNegLe`), `−100 ≤ y ≤ 100` whenever `|S| ≤ A`. -/
theorem tsi_batch_readings (nm : String) (n p s : Nat) (input : String) (fld : Candle K → Num K)
    (hp : 1 ≤ p) (hs : 1 ≤ s) (hn : TsiNames nm) (hin : NoDot input ∧ input ∈ Candle.attrNames)
    (hattr : ∀ c : Candle K, c.attr input = some (.num (fld c)))
    (raw : List (Candle K)) (hraw : ∀ c ∈ raw, Plain c) (out : List (Candle K))
    (hout : candlesOf (runIndicator (mkTop (.tsi (p : Int) (s : Int) input : Kind K) nm n) {} raw []) = .ok out) :
    out.length = raw.length ∧
    ∀ j, j < raw.length → TsiCandleOK nm n p s (fieldAt fld raw) j (raw.getD j default) (out.getD j default) :=
  Numeric.tsi_batch_readings nm n p s input fld hp hs hn hin hattr raw hraw out hout

/-- **… for every append schedule**: whenever a live history returns, its candles are `tsiOut` of the
whole stream. -/
theorem tsi_live (nm : String) (n p s : Nat) (input : String) (fld : Candle K → Num K)
    (hp : 1 ≤ p) (hs : 1 ≤ s) (hn : TsiNames nm)
    (hin : NoDot input ∧ input ∈ Candle.attrNames)
    (hattr : ∀ c : Candle K, c.attr input = some (.num (fld c)))
    (init : List (Candle K)) (chunks : List (List (Candle K)))
    (hraw : ∀ c ∈ init ++ chunks.flatten, Plain c) (snap : List (Candle K))
    (hsnap : candlesOf (runIndicator (mkTop (.tsi (p : Int) (s : Int) input : Kind K) nm n) {} init chunks)
      = .ok snap) :
    snap = tsiOut nm n p s fld (init ++ chunks.flatten) :=
  Numeric.tsi_live nm n p s input fld hp hs hn hin hattr init chunks hraw snap hsnap

/-- … and candle by candle for every append schedule -/
theorem tsi_live_readings (nm : String) (n p s : Nat) (input : String) (fld : Candle K → Num K)
    (hp : 1 ≤ p) (hs : 1 ≤ s) (hn : TsiNames nm) (hin : NoDot input ∧ input ∈ Candle.attrNames)
    (hattr : ∀ c : Candle K, c.attr input = some (.num (fld c)))
    (init : List (Candle K)) (chunks : List (List (Candle K)))
    (hraw : ∀ c ∈ init ++ chunks.flatten, Plain c) (snap : List (Candle K))
    (hsnap : candlesOf (runIndicator (mkTop (.tsi (p : Int) (s : Int) input : Kind K) nm n) {} init chunks)
      = .ok snap) :
    snap.length = (init ++ chunks.flatten).length ∧
    ∀ j, j < (init ++ chunks.flatten).length →
      TsiCandleOK nm n p s (fieldAt fld (init ++ chunks.flatten)) j ((init ++ chunks.flatten).getD j default)
        (snap.getD j default) :=
  Numeric.tsi_live_readings nm n p s input fld hp hs hn hin hattr init chunks hraw snap hsnap

/-! #### ADX -/

/-- **ADX, whole series** (`period = p ≥ 1`, `period_signal = sg ≥ 1`).  For EVERY raw list the run
returns EXACTLY `adxOut`: candle `j` carries `<name>_atr_TR` (true range, 4 decimals, from candle 1),
`<name>_atr` (Wilder ATR on the stored TRs, first reading at candle `p` – NOT `p−1`), `<name>_data`
(unrounded: nothing on candle 0, `{pos, neg}` = `+DM` / `−DM` on candles `1 … p−1`, `{pos, neg, dx}` from
`p` on), `<name>_pos` / `<name>_neg` (RMA, 4 decimals, first reading at candle `p`), `<name>_dx` (RMA of
the `dx` column, no entry before `p`, first reading at `p+sg−1`) and the own dict `adxOwn j`
(all-`None` below `p`; `ADX` is rounded twice: to 4 decimals as a helper reading, then to `n`). -/
theorem adx_series (nm : String) (n p sg : Nat) (hp : 1 ≤ p) (hg : 1 ≤ sg) (hn : AdxNames nm)
    (raw : List (Candle K)) (hraw : ∀ c ∈ raw, Plain c) :
    Gen.rowMajor (adxTreeN (K := K) nm n p sg hp hg hn).S raw = .ok (adxOut nm n p sg raw) :=
  Numeric.adx_series nm n p sg hp hg hn raw hraw

/-- **ADX ranges, exactly, no budget**: every stored own dict has `0 ≤ ADX ≤ 100`, `0 ≤ DM_Plus`,
`0 ≤ DM_Neg` (each field `None` or such a float). -/
theorem adxOwn_ranges (n p sg : Nat) (raw : List (Candle K)) (hp : 1 ≤ p) (hg : 1 ≤ sg) (j : Nat) :
    FieldIn 0 100 ((adxOwn n p sg raw j).nested "ADX") ∧
    FieldNonneg ((adxOwn n p sg raw j).nested "DM_Plus") ∧
    FieldNonneg ((adxOwn n p sg raw j).nested "DM_Neg") :=
  Numeric.adxOwn_ranges n p sg raw hp hg j

/-- **ADX own dict against the textbook series** (Wilder ATR of the exact true ranges, Wilder
averages of `±DM` seeded at candle `p`, `DI± = 100·smoothed DM/ATR`, `DX = 100·|DI+ − DI−|/(DI+ + DI−)`,
`ADX` = Wilder average of `DX` seeded at `p+sg−1`).  `DM_Plus` / `DM_Neg`: `None` before candle `p`, then
within `ε_n + adxDiBudget` of `DI±` provided the textbook ATR exceeds `adxAtrBudget = p·ε₄ + ε₄` on the
candles so far; `ADX`: `None` before `p+sg−1`, then within `ε_n + (sg·ε₄ + δ)` provided all candles so far
are well-conditioned (`AdxCond`: denominators bounded away from 0) with `dx` budget at most `δ`. -/
theorem adxOwn_ok (n p sg : Nat) (raw : List (Candle K)) (hp : 1 ≤ p) (hg : 1 ≤ sg) (j : Nat) :
    ((∀ i, p ≤ i → i ≤ j → adxAtrBudget (K := K) p < adxAtrE p raw i) →
      MacdFieldOK (eps K n + adxDiBudget p (adxDiPlusE p raw j) (adxAtrE p raw j)) (adxPlusLine p raw j)
        ((adxOwn n p sg raw j).nested "DM_Plus") ∧
      MacdFieldOK (eps K n + adxDiBudget p (adxDiMinusE p raw j) (adxAtrE p raw j)) (adxMinusLine p raw j)
        ((adxOwn n p sg raw j).nested "DM_Neg")) ∧
    (∀ δ : K, (∀ i, p ≤ i → i ≤ j → AdxCond p raw i ∧ adxDxBudget p raw i ≤ δ) →
      MacdFieldOK (eps K n + (eps K defaultRound / (1 / (sg : K)) + δ)) (adxLine p sg raw j)
        ((adxOwn n p sg raw j).nested "ADX")) :=
  Numeric.adxOwn_ok n p sg raw hp hg j

/-- **… through the object, candle by candle** (`AdxCandleOK`): whenever the batch run returns (it does:
`Numeric.adx_batch`), candle `j` is the raw candle with the ATR subtree of C05 (`AtrOK` / `AtrOKTrue`),
the exact `±DM` / `dx` entries, `<name>_pos` / `<name>_neg` `RecOK` (warm-up `p`, budget `p·ε₄`) w.r.t. the
textbook Wilder averages, `<name>_dx` `RecOK` (warm-up `p+sg−1`, budget `sg·ε₄`) and in `[0, 100]`, and
the own dict `adxOwn` with the ranges and budgets of `adxOwn_ranges` / `adxOwn_ok`. -/
theorem adx_batch_readings (nm : String) (n p sg : Nat) (hp : 1 ≤ p) (hg : 1 ≤ sg) (hn : AdxNames nm)
    (raw : List (Candle K)) (hraw : ∀ c ∈ raw, Plain c) (out : List (Candle K))
    (hout : candlesOf (runIndicator (mkTop (.adx (p : Int) (sg : Int) : Kind K) nm n) {} raw []) = .ok out) :
    out.length = raw.length ∧
    ∀ j, j < raw.length → AdxCandleOK nm n p sg raw j (out.getD j default) :=
  Numeric.adx_batch_readings nm n p sg hp hg hn raw hraw out hout

/-- **… for every append schedule**: whenever a live history returns, its candles are `adxOut` of the
whole stream. -/
theorem adx_live (nm : String) (n p sg : Nat) (hp : 1 ≤ p) (hg : 1 ≤ sg) (hn : AdxNames nm)
    (init : List (Candle K)) (chunks : List (List (Candle K)))
    (hraw : ∀ c ∈ init ++ chunks.flatten, Plain c) (snap : List (Candle K))
    (hsnap : candlesOf (runIndicator (mkTop (.adx (p : Int) (sg : Int) : Kind K) nm n) {} init chunks) = .ok snap) :
    snap = adxOut nm n p sg (init ++ chunks.flatten) :=
  Numeric.adx_live nm n p sg hp hg hn init chunks hraw snap hsnap

/-- … and candle by candle for every append schedule -/
theorem adx_live_readings (nm : String) (n p sg : Nat) (hp : 1 ≤ p) (hg : 1 ≤ sg) (hn : AdxNames nm)
    (init : List (Candle K)) (chunks : List (List (Candle K)))
    (hraw : ∀ c ∈ init ++ chunks.flatten, Plain c) (snap : List (Candle K))
    (hsnap : candlesOf (runIndicator (mkTop (.adx (p : Int) (sg : Int) : Kind K) nm n) {} init chunks) = .ok snap) :
    snap.length = (init ++ chunks.flatten).length ∧
    ∀ j, j < (init ++ chunks.flatten).length →
      AdxCandleOK nm n p sg (init ++ chunks.flatten) j (snap.getD j default) :=
  Numeric.adx_live_readings nm n p sg hp hg hn init chunks hraw snap hsnap

/-! #### VWAP -/

/-- **VWAP, whole series** (any period: the formula does not use it – cumulative from candle 0, no
session anchor).  For EVERY raw list the run returns; from the FIRST candle on (no warm-up) the
`<name>_data` entry is EXACTLY `{pv: Σ_{k≤j} v_k·(h_k+l_k+c_k)/3, vol: Σ_{k≤j} v_k}` (unrounded) and the
own reading is a number within `ε_n` of `pv/vol` (`pv` itself, type kept, while `vol = 0`: the
zero-volume division is never attempted): `VwapOK`. -/
theorem vwap_series (p : Int) (nm : String) (n : Nat) (hn : VwapNames nm)
    (raw : List (Candle K)) (hraw : ∀ c ∈ raw, Plain c) :
    ∃ rows : List (Val K × Val K), rows.length = raw.length ∧
      Gen.rowMajor (vwapTree (F := K) nm n p).S raw = .ok (decoVwap nm raw rows) ∧
      ∀ j, j < raw.length → VwapOK n (fieldAt (·.h) raw) (fieldAt (·.l) raw) (fieldAt (·.c) raw)
        (fieldAt (·.v) raw) j (rows.getD j (.none, .none)) :=
  Numeric.vwap_series p nm n hn raw hraw

/-- **… through the object**: the batch run returns exactly the candles of `vwap_series`. -/
theorem vwap_series_batch (p : Int) (nm : String) (n : Nat) (hn : VwapNames nm)
    (raw : List (Candle K)) (hraw : ∀ c ∈ raw, Plain c) :
    ∃ rows : List (Val K × Val K), rows.length = raw.length ∧
      candlesOf (runIndicator (mkTop (.vwap p : Kind K) nm n) {} raw []) = .ok (decoVwap nm raw rows) ∧
      ∀ j, j < raw.length → VwapOK n (fieldAt (·.h) raw) (fieldAt (·.l) raw) (fieldAt (·.c) raw)
        (fieldAt (·.v) raw) j (rows.getD j (.none, .none)) :=
  Numeric.vwap_series_batch p nm n hn raw hraw

/-- **… for every append schedule**: whenever a live history returns, its candles are those of
`vwap_series` over the whole stream. -/
theorem vwap_series_live (p : Int) (nm : String) (n : Nat) (hn : VwapNames nm)
    (init : List (Candle K)) (chunks : List (List (Candle K)))
    (hraw : ∀ c ∈ init ++ chunks.flatten, Plain c) (snap : List (Candle K))
    (hsnap : candlesOf (runIndicator (mkTop (.vwap p : Kind K) nm n) {} init chunks) = .ok snap) :
    ∃ rows : List (Val K × Val K), rows.length = (init ++ chunks.flatten).length ∧
      snap = decoVwap nm (init ++ chunks.flatten) rows ∧
      ∀ j, j < (init ++ chunks.flatten).length →
        VwapOK n (fieldAt (·.h) (init ++ chunks.flatten)) (fieldAt (·.l) (init ++ chunks.flatten))
          (fieldAt (·.c) (init ++ chunks.flatten)) (fieldAt (·.v) (init ++ chunks.flatten)) j
          (rows.getD j (.none, .none)) :=
  Numeric.vwap_series_live p nm n hn init chunks hraw snap hsnap

/-! #### Aroon -/

/-- **Aroon, whole series** (period `p ≥ 1`; a leaf: the plain `rowMajor` spec).  For EVERY raw list
the run returns; reading `j` is the all-`None` dict up to index `p−1` and from the TRUE warm-up index
`p` on `{AROONU: round n (100·(p − hiBar)/p), AROOND: …loBar…, AROONOSC: round n (up − down)}` with
`hiBar` / `loBar` = bars since the MOST RECENT highest high / lowest low of the last `p+1` candles
(`hiBar_spec`, `loBar_spec`), the oscillator rounded from the UNROUNDED difference: `AroonOK`. -/
theorem aroon_series (p : Nat) (hp : 1 ≤ p) (nm : String) (n : Nat)
    (raw : List (Candle K)) (hraw : ∀ c ∈ raw, Plain c) :
    ∃ vs : List (Val K), vs.length = raw.length ∧
      rowMajor (mkTop (.aroon p) nm n) raw = .ok (deco nm raw vs) ∧
      ∀ j, j < raw.length → AroonOK p n (fieldAt (·.h) raw) (fieldAt (·.l) raw) j (vs.getD j .none) :=
  Numeric.aroon_series p hp nm n raw hraw

/-- **Aroon, field by field** (from index `p` on): `AROONU`, `AROOND` are floats within `ε_n` of
`100·(p − bars)/p` and inside `[0, 100]`; `AROONOSC` is within `ε_n` of their exact difference and
inside `[−100, 100]`. -/
theorem aroonOK_near (p n : Nat) (hp : 1 ≤ p) (h l : Nat → K) (j : Nat) (v : Val K)
    (hv : AroonOK p n h l j v) (hj : p ≤ j) :
    ∃ u d o : K, v.nested "AROONU" = .flt u ∧ v.nested "AROOND" = .flt d ∧ v.nested "AROONOSC" = .flt o ∧
      |u - aroonOf p (hiBar h j p)| ≤ eps K n ∧ 0 ≤ u ∧ u ≤ 100 ∧
      |d - aroonOf p (loBar l j p)| ≤ eps K n ∧ 0 ≤ d ∧ d ≤ 100 ∧
      |o - (aroonOf p (hiBar h j p) - aroonOf p (loBar l j p))| ≤ eps K n ∧ -100 ≤ o ∧ o ≤ 100 :=
  Numeric.aroonOK_near p n hp h l j v hv hj

/-- **… through the engine and the object**: `calculate()` and the batch run return exactly the candles
of `aroon_series`. -/
theorem aroon_series_batch (p : Nat) (hp : 1 ≤ p) (nm : String) (n : Nat)
    (raw : List (Candle K)) (hraw : ∀ c ∈ raw, Plain c) :
    ∃ vs : List (Val K), vs.length = raw.length ∧
      engineCalc (mkTop (.aroon p : Kind K) nm n) raw = .ok (deco nm raw vs) ∧
      candlesOf (runIndicator (mkTop (.aroon p : Kind K) nm n) {} raw []) = .ok (deco nm raw vs) ∧
      ∀ j, j < raw.length → AroonOK p n (fieldAt (·.h) raw) (fieldAt (·.l) raw) j (vs.getD j .none) :=
  Numeric.aroon_series_batch p hp nm n raw hraw

/-- **… for every append schedule**. -/
theorem aroon_series_live (p : Nat) (hp : 1 ≤ p) (nm : String) (n : Nat)
    (init : List (Candle K)) (chunks : List (List (Candle K)))
    (hraw : ∀ c ∈ init ++ chunks.flatten, Plain c) (snap : List (Candle K))
    (hsnap : candlesOf (runIndicator (mkTop (.aroon p : Kind K) nm n) {} init chunks) = .ok snap) :
    ∃ vs : List (Val K), vs.length = (init ++ chunks.flatten).length ∧
      snap = deco nm (init ++ chunks.flatten) vs ∧
      ∀ j, j < (init ++ chunks.flatten).length →
        AroonOK p n (fieldAt (·.h) (init ++ chunks.flatten)) (fieldAt (·.l) (init ++ chunks.flatten)) j (vs.getD j .none) :=
  Numeric.aroon_series_live p hp nm n init chunks hraw snap hsnap

/-! #### non-vacuity: the five demo candles of HexProps/C04.lean over ℚ -/

/-- the five raw candles of `C04.demoRaw` (`demoRaw` above plus a flat fifth candle; the source files'
`rsiDemoRaw`, `macdDemoRaw`, `stochDemoRaw`, `atrDemoRaw`, `winDemoRaw` are this list) -/
def demoRaw5 : List (Candle ℚ) :=
  [Demo.mk 10 12 9 11 100, Demo.mk 11 13 10 12 200, Demo.mk 12 15 11 14 300, Demo.mk 14 16 13 15 0,
   Demo.mk 15 15 15 15 0]

theorem demoRaw5_plain : ∀ c ∈ demoRaw5, Plain c := Numeric.rsiDemoRaw_plain

/-- RSI(3) on `close`: the batch run returns the decorated candles, every pair `RsiOK`
(HexProofs/Numeric/SeriesRSI.lean computes them: `None` at index 2, `100.0` at index 4 with data
`{gain: 8/9, loss: 0}`) -/
example : ∃ rows : List (Val ℚ × Val ℚ), rows.length = demoRaw5.length ∧
    candlesOf (runIndicator (mkTop (.rsi ((3 : Nat) : Int) "close" : Kind ℚ) "RSI_3" 4) {} demoRaw5 [])
      = .ok (decoRsi "RSI_3" demoRaw5 rows) ∧
    ∀ j, j < demoRaw5.length → RsiOK 3 4 (fieldAt (·.c) demoRaw5) j (rows.getD j (.none, .none)) :=
  rsi_series_batch 3 (by norm_num) "RSI_3" "close" (·.c) 4 rsiNames_demo (by decide) ⟨noDot_close, by decide⟩
    (fun _ => rfl) demoRaw5 demoRaw5_plain

/-- MACD(2, 3, 2) on `close`: the row-major run is `macdOut`, and every candle is `MacdCandleOK`
(SeriesMACD.lean computes them: `{0.8334, None, None}` on candle 2, `{0.7222, 0.7778, −0.0556}` on 3) -/
example : Gen.rowMajor (macdTreeN (K := ℚ) "MACD_2_3_2" 4 2 3 2 "close" (by norm_num) (by norm_num) (by norm_num)
      macdNames_demo ⟨noDot_close, by decide⟩).S demoRaw5 = .ok (macdOut "MACD_2_3_2" 4 2 3 2 (·.c) demoRaw5) ∧
    ∀ j, j < demoRaw5.length →
      MacdCandleOK "MACD_2_3_2" 4 2 3 2 (fieldAt (·.c) demoRaw5) j (demoRaw5.getD j default)
        ((macdOut "MACD_2_3_2" 4 2 3 2 (·.c) demoRaw5).getD j default) :=
  ⟨macd_series "MACD_2_3_2" 4 2 3 2 "close" (·.c) (by norm_num) (by norm_num) (by norm_num) macdNames_demo
      ⟨noDot_close, by decide⟩ (fun _ => rfl) demoRaw5 demoRaw5_plain,
   macdOut_ok "MACD_2_3_2" 4 2 3 2 (·.c) demoRaw5 (by norm_num) (by norm_num) (by norm_num) macdNames_demo
      demoRaw5_plain⟩

/-- STOCH(period 2, slow 2, smoothK 2) on `close`: the row-major run is `stochDeco`, every candle
`StochOK` (SeriesSTOCH.lean: `{stoch: 80, k: 80, d: 78.75}` on candle 3) -/
example : Gen.rowMajor (stochTree (F := ℚ) "STOCH_2" 4 ((2 : Nat) : Int) ((2 : Nat) : Int) ((2 : Nat) : Int) "close"
      (by decide) (by decide) (by decide) stochNames_demo ⟨noDot_close, by decide⟩).S demoRaw5
      = .ok (stochDeco "STOCH_2" 4 2 2 2 (·.c) demoRaw5) ∧
    ∀ j, j < demoRaw5.length →
      StochOK 4 2 2 2 (fieldAt (·.l) demoRaw5) (fieldAt (·.h) demoRaw5) (fieldAt (·.c) demoRaw5) j
        (readingByCandle ((stochDeco "STOCH_2" 4 2 2 2 (·.c) demoRaw5).getD j default) "STOCH_2")
        (readingByCandle ((stochDeco "STOCH_2" 4 2 2 2 (·.c) demoRaw5).getD j default) ("STOCH_2" ++ "_data"))
        (readingByCandle ((stochDeco "STOCH_2" 4 2 2 2 (·.c) demoRaw5).getD j default) ("STOCH_2" ++ "_k"))
        (readingByCandle ((stochDeco "STOCH_2" 4 2 2 2 (·.c) demoRaw5).getD j default) ("STOCH_2" ++ "_d")) :=
  ⟨stoch_series 2 2 2 (by norm_num) (by norm_num) (by norm_num) "STOCH_2" "close" (·.c) 4 stochNames_demo
      ⟨noDot_close, by decide⟩ (fun _ => rfl) demoRaw5 demoRaw5_plain,
   stochDeco_ok 2 2 2 (by norm_num) (by norm_num) (by norm_num) "STOCH_2" (·.c) 4 stochNames_demo demoRaw5
      demoRaw5_plain⟩

/-- TSI(period 2, smooth 2) on `high` (library name `TSI_2_1`): the row-major run is `tsiOut`
(SeriesTSI.lean: own reading `None` up to candle 2, `100.0` on candle 3, `22.5832` on candle 4), and
over ℚ every stored reading lies in `[−100, 100]` exactly -/
example : Gen.rowMajor (tsiTreeN (K := ℚ) "TSI_2_1" 4 2 2 "high" (by norm_num) (by norm_num) tsiNames_demo
      ⟨noDot_high, by decide⟩).S demoRaw5 = .ok (tsiOut "TSI_2_1" 4 2 2 (·.h) demoRaw5) ∧
    (∀ j, TsiOK 4 2 2 (fieldAt (·.h) demoRaw5) j (tsiOwn 4 2 2 (fieldAt (·.h) demoRaw5) j)) ∧
    ∀ j y, tsiOwn 4 2 2 (fieldAt (·.h) demoRaw5) j = .flt y → -100 ≤ y ∧ y ≤ 100 :=
  ⟨tsi_series "TSI_2_1" 4 2 2 "high" (·.h) (by norm_num) (by norm_num) tsiNames_demo ⟨noDot_high, by decide⟩
      (fun _ => rfl) demoRaw5 demoRaw5_plain,
   fun j => tsiOwn_ok 4 2 2 (by norm_num) (by norm_num) _ j,
   fun j y => tsiOwn_range_odd 4 2 2 (roundNegLe_rat _) (by norm_num) (by norm_num) _ j y⟩

/-- ADX(2, 2): the row-major run is `adxOut` (SeriesADX.lean: `{ADX: None, DM_Plus: 47.62, DM_Neg: 0}` on
candle 2, `{100, 41.0277, 0}` on candles 3 and 4), with the exact ranges on every candle -/
example : Gen.rowMajor (adxTreeN (K := ℚ) "ADX_2_2" 4 2 2 (by norm_num) (by norm_num) adxNames_demo).S demoRaw5
      = .ok (adxOut "ADX_2_2" 4 2 2 demoRaw5) ∧
    ∀ j, FieldIn 0 100 ((adxOwn 4 2 2 demoRaw5 j).nested "ADX") ∧
      FieldNonneg ((adxOwn 4 2 2 demoRaw5 j).nested "DM_Plus") ∧
      FieldNonneg ((adxOwn 4 2 2 demoRaw5 j).nested "DM_Neg") :=
  ⟨adx_series "ADX_2_2" 4 2 2 (by norm_num) (by norm_num) adxNames_demo demoRaw5 demoRaw5_plain,
   fun j => adxOwn_ranges 4 2 2 demoRaw5 (by norm_num) (by norm_num) j⟩

/-- VWAP: the batch run returns, every pair `VwapOK` (SeriesWindows.lean: `Σ v = 600`,
`Σ v·typical = 7400`, VWAP within `ε` of `37/3` on candle 4) -/
example : ∃ rows : List (Val ℚ × Val ℚ), rows.length = demoRaw5.length ∧
    candlesOf (runIndicator (mkTop (.vwap 10 : Kind ℚ) "VWAP_10" 4) {} demoRaw5 [])
      = .ok (decoVwap "VWAP_10" demoRaw5 rows) ∧
    ∀ j, j < demoRaw5.length → VwapOK 4 (fieldAt (·.h) demoRaw5) (fieldAt (·.l) demoRaw5)
      (fieldAt (·.c) demoRaw5) (fieldAt (·.v) demoRaw5) j (rows.getD j (.none, .none)) :=
  vwap_series_batch 10 "VWAP_10" 4 vwapNames_demo demoRaw5 demoRaw5_plain

/-- Aroon(2): engine and batch run return the decorated candles, every reading `AroonOK`
(SeriesWindows.lean: `hiBar = 1`, `loBar = 2` on candle 4, i.e. `up = 50`, `down = 0`) -/
example : ∃ vs : List (Val ℚ), vs.length = demoRaw5.length ∧
    engineCalc (mkTop (.aroon (2 : Nat) : Kind ℚ) "AROON_2" 4) demoRaw5 = .ok (deco "AROON_2" demoRaw5 vs) ∧
    candlesOf (runIndicator (mkTop (.aroon (2 : Nat) : Kind ℚ) "AROON_2" 4) {} demoRaw5 []) = .ok (deco "AROON_2" demoRaw5 vs) ∧
    ∀ j, j < demoRaw5.length → AroonOK 2 4 (fieldAt (·.h) demoRaw5) (fieldAt (·.l) demoRaw5) j (vs.getD j .none) :=
  aroon_series_batch 2 (by norm_num) "AROON_2" 4 demoRaw5 demoRaw5_plain

/-! ### the former open statement, and the present one -/

/-- The whole-series property as it was stated when only the per-call theorems existed: OBV through
the ENGINE with the fuel `fuelFor raw` (the fuel the object passes to the sub-calls; the object's own
`calculate()` is `engineCalc = calculate (fuelFor raw + 1)` – for a leaf such as OBV any fuel
`≥ length + 2` gives the same result, `calculate_leaf`): for every raw stream `calculate` never raises
and reading `j` is within `(j+1)·ε` of the exact on-balance volume.
NOW PROVED: `C06_FULL_holds`.  The "same shape" statements for the other eight indicators are the
whole-series theorems above – with `engineCalc` for the composites, whose fuel matters
(`Numeric.rsi_series_engine`, `macd_engine`, `stoch_series_engine`, `tsi_engine`, `adx_engine`,
`vwap_series_engine`, `aroon_series_batch`), and with the TRUE warm-up indices and budgets listed in
the header (several differ from what was assumed when this statement was written: each helper is
NOT simply "an ordinary SMA/EMA/RMA covered by C04" – the helpers read columns that start late
(TSI, ADX `_pos`/`_neg`/`_dx`, MACD signal, STOCH `_k`/`_d`), read STORED 4-decimal values, and the
MACD signal seed mixes rounded and unrounded MACD values).  What is open now: `C06_chained_FULL`. -/
def C06_FULL : Prop :=
  ∀ (K : Type) [Field K] [LinearOrder K] [IsStrictOrderedRing K] [LawfulPyF K]
    (nm : String) (n : Nat) (raw : List (Candle K)),
    IsKey nm → (∀ c ∈ raw, Plain c) →
    ∃ vs : List (Val K), vs.length = raw.length ∧
      calculate (fuelFor raw) (mkTop .obv nm n) raw = .ok (deco nm raw vs) ∧
      ∀ j, j < raw.length → ∃ t : Num K, vs.getD j .none = .num t ∧
        |t.toF - obvExact (fieldAt (·.c) raw) (fieldAt (·.v) raw) j| ≤ ((j + 1 : Nat) : K) * eps K n

/-- **`C06_FULL` holds**: `obv_series` on the row-major spec, the OBV leaf contract
(`Covered.obv`, `leaf_series_engine`) and fuel independence of a leaf's `calculate`. -/
theorem C06_FULL_holds : C06_FULL := by
  intro K _ _ _ _ nm n raw hk hraw
  obtain ⟨vs, hl, hrun, hall⟩ := Numeric.obv_series nm n hk raw hraw
  refine ⟨vs, hl, ?_, hall⟩
  have h := (leaf_series_engine (.obv : Kind K) nm n Covered.obv raw hraw _ hrun).1
  rw [engineCalc_leaf _ (Covered.obv.isLeaf n)] at h
  rw [calculate_leaf _ (Covered.obv.isLeaf n) _ raw (fuelFor_ge raw)]
  exact h

/-- the input series read off a candle list: `none` where the input reading is missing -/
def inputAt (cs : List (Candle K)) (input : String) (j : Nat) : Option K :=
  match readingByCandle (cs.getD j default) input with
  | .s (.num r) => some r.toF
  | _ => none

/-- What is STILL OPEN at the series level, stated for RSI (MACD, STOCH, TSI: the same shape with
`MacdCandleOK`, `StochOK`, `TsiCandleOK` and their warm-up indices shifted by `t0`; ROC likewise):
the input is ANY reading name – a candle field or another indicator's (scalar) reading – that is
missing on the first `t0` candles of the list and numeric afterwards, and the candle list may
already hold other indicators' readings (but nothing under `nm` / `nm_data`).  Then the ENGINE run
never raises, keeps the length, and the own reading of candle `j` is `None` for `j < t0 + p` and
afterwards follows the textbook RSI series of the input VALUES `x` (within `ε_n`, in `[0, 100]`:
`RsiOwnOK`) – i.e. the result depends on the input values only, not on where they start.
FALSE AS WRITTEN (`C06_chained_FULL_false`: a bool column among the first `t0` inputs counts as a reading; replayed on the library).  With
the extra hypothesis that the input reading is `None` on the first `t0` candles it is PROVED over every candle list holding foreign
readings: `C06_chained_partial_holds` (RSI), `C06_ROC_inputs_holds` (end of this file).  Still open in this shape: MACD, STOCH, TSI
(managed helpers with dotted self-inputs).
Proved earlier: this statement for `t0 = 0`, raw candles and a candle-field input
(`rsi_series_candles` / `Numeric.rsi_series_engine`), and for arbitrary inputs and start positions
every single call (`rsi_seed`, `rsi_step`, which address the input RELATIVE to the active index).
Missing: the series induction over candle lists that hold foreign readings – the `TreeSpec`s and
the component calculus of HexProofs/Framework/Gen are built for inputs that are candle attributes
(`NoDot input ∧ input ∈ Candle.attrNames`), so the key-locality argument (the run neither reads
nor disturbs the foreign keys, and the foreign column is read at the same offsets) is not done.
Dotted inputs (`MACD_12_26_9.MACD`) are the same statement with the main key in the side conditions.
Also open, not stated formally: the numeric statements under a collapsing timeframe for the
indicators other than RSI (`rsi_series_tf` is the pattern), IEEE effects, and the exact TSI range
without the extra rounding law `RoundNegLe`. -/
def C06_chained_FULL : Prop :=
  ∀ (K : Type) [Field K] [LinearOrder K] [IsStrictOrderedRing K] [LawfulPyF K]
    (p : Nat) (nm input : String) (n t0 : Nat) (cs : List (Candle K)) (x : Nat → K),
    1 ≤ p → IsKey nm → RsiNames nm → NoDot input → input ≠ nm → input ≠ nm ++ "_data" →
    (∀ c ∈ cs, dlookup nm c.inds = none ∧ dlookup nm c.subs = none ∧
      dlookup (nm ++ "_data") c.inds = none ∧ dlookup (nm ++ "_data") c.subs = none) →
    (∀ j, j < cs.length → inputAt cs input j = if j < t0 then none else some (x (j - t0))) →
    ∃ out : List (Candle K), out.length = cs.length ∧
      engineCalc (mkTop (.rsi (p : Int) input : Kind K) nm n) cs = .ok out ∧
      ∀ j, j < cs.length →
        (j < t0 → readingByCandle (out.getD j default) nm = .none) ∧
        (t0 ≤ j → RsiOwnOK n (rsiSeries p x (j - t0)) (readingByCandle (out.getD j default) nm))

/-- **`C06_chained_FULL` is false as written** (same defect as `C04_FULL`).  Witness:
`RSI(period=1, input_value="positive")` over two raw candles stores `[None, 0.0]`, the statement
(`t0 = 2`) promises `[None, None]`. -/
theorem C06_chained_FULL_false : ¬ C06_chained_FULL := Numeric.c06_chained_full_false

/-- `C06_chained_FULL` with the missing hypothesis made explicit (the first `t0` input readings are `None`) -/
def C06_chained_partial : Prop :=
  ∀ (K : Type) [Field K] [LinearOrder K] [IsStrictOrderedRing K] [LawfulPyF K]
    (p : Nat) (nm input : String) (n t0 : Nat) (cs : List (Candle K)) (x : Nat → K),
    1 ≤ p → IsKey nm → RsiNames nm → NoDot input → input ≠ nm → input ≠ nm ++ "_data" →
    (∀ c ∈ cs, dlookup nm c.inds = none ∧ dlookup nm c.subs = none ∧
      dlookup (nm ++ "_data") c.inds = none ∧ dlookup (nm ++ "_data") c.subs = none) →
    (∀ j, j < cs.length → inputAt cs input j = if j < t0 then none else some (x (j - t0))) →
    (∀ j, j < cs.length → j < t0 → readingByCandle (cs.getD j default) input = .none) →
    ∃ out : List (Candle K), out.length = cs.length ∧
      engineCalc (mkTop (.rsi (p : Int) input : Kind K) nm n) cs = .ok out ∧
      ∀ j, j < cs.length →
        (j < t0 → readingByCandle (out.getD j default) nm = .none) ∧
        (t0 ≤ j → RsiOwnOK n (rsiSeries p x (j - t0)) (readingByCandle (out.getD j default) nm))

/-- **the corrected `C06_chained_FULL` holds** (RSI) -/
theorem C06_chained_partial_holds : C06_chained_partial := Numeric.c06_chained_partial

/-- the same shape for ROC (`DirectOK (p+1) n (rocAt x p)`, inputs non-zero) -/
theorem C06_ROC_inputs_holds : Numeric.C06RocStatement := Numeric.c06_roc

/-- **MACD over a late-starting foreign input, every candle list** (the MACD item of the corrected
`C06_chained_FULL`): same `MacdCandleOK` as `macdOut_ok`, at the index counted from `t0` -/
theorem C06_MACD_inputs_holds : Numeric.C06MacdStatement := Numeric.c06_macd_inputs

/-- … the exact rows through the engine (nothing but the four entries of the tree changes) -/
theorem C06_MACD_inputs_rows {K : Type} [Field K] [LinearOrder K] [IsStrictOrderedRing K] [LawfulPyF K]
    (nm input : String) (n pf ps pg t0 : Nat) (cs : List (Candle K)) (r : Nat → Num K)
    (hf : 2 ≤ pf) (hfs : pf ≤ ps) (hg : 1 ≤ pg) (hn : MacdNames nm) (hi : Numeric.macdI_Input nm input)
    (habs : ∀ c ∈ cs, Numeric.macdI_Absent nm c)
    (hnone : ∀ j, j < cs.length → j < t0 → readingByCandle (cs.getD j default) input = .none)
    (hnum : ∀ j, j < cs.length → t0 ≤ j → readingByCandle (cs.getD j default) input = .num (r (j - t0))) :
    ∃ (vs1 vs2 : List (Val K)) (rows : List (Option (Val K) × Val K)),
      vs1.length = cs.length ∧ vs2.length = cs.length ∧ rows.length = cs.length ∧
      engineCalc (mkTop (.macd (pf : Int) (ps : Int) (pg : Int) input : Kind K) nm n) cs
        = .ok (decoWith (Numeric.macdI_out nm)
            (decoWith (Numeric.keyOut true (nm ++ "_EMA_slow")) (decoWith (Numeric.keyOut true (nm ++ "_EMA_fast")) cs vs1) vs2) rows) ∧
      ∀ j, j < cs.length →
        vs1.getD j .none = Numeric.macdI_col pf t0 (fun k => (r k).toF) j ∧
        vs2.getD j .none = Numeric.macdI_col ps t0 (fun k => (r k).toF) j ∧
        rows.getD j (none, .none)
          = (Numeric.macdI_sigD n pf ps pg t0 (fun k => (r k).toF) j, Numeric.macdI_own n pf ps pg t0 (fun k => (r k).toF) j) :=
  Numeric.macdI_inputs_rows nm input n pf ps pg t0 cs r hf hfs hg hn hi habs hnone hnum

end Hex.C06

#print axioms Hex.C06.C06_MACD_inputs_holds
#print axioms Hex.C06.C06_MACD_inputs_rows

namespace Hex.C06
open Hex Hex.Numeric
variable {K : Type} [Field K] [LinearOrder K] [IsStrictOrderedRing K] [LawfulPyF K]

/-- **STOCH over a late-starting foreign input, every candle list** (`Numeric.C06StochStatement`; note the
constructor order `.stoch period slow smoothK input`).  The candle list may hold any readings under other
names (the four names `nm`, `nm_data`, `nm_k`, `nm_d` absent); the input is any name that does not see
those four names, `None` on the first `t0` candles and numeric (`x`, counted from `t0`) afterwards.  The
engine never raises and candle `j` satisfies `StochIOK` – a TWO-START series: the lowest low / highest high
are those of candles `j−p+1 … j` of `cs` (candle fields, not shifted), the guard `reading_period(period,
input)` is asked of the INPUT, so the raw value `100·(x_{j−t0} − LL_j)/(HH_j − LL_j)` exists from `t0 + p − 1` on
(own dict of three `None`s and nothing else before), `%K` from `t0 + p + smoothK − 2`, `%D` from
`t0 + p + smoothK + slow − 3`, with the budgets of `StochOK` counted from these starts; every reading name that
does not see the four names reads what it read before. -/
theorem stoch_inputs : Numeric.C06StochStatement := Numeric.c06_stoch_inputs

/-- … exact rows: the result is `cs` with the row `stochI_Row … j` stored on candle `j` -/
theorem stoch_inputs_rows (p sk sl : Nat) (hp : 2 ≤ p) (hsk : 1 ≤ sk) (hsl : 1 ≤ sl) (nm input : String)
    (n t0 : Nat) (cs : List (Candle K)) (r : Nat → Num K) (hn : StochNames nm) (hi : StochIInput nm input)
    (habs : ∀ c ∈ cs, StochIAbsent nm c)
    (hnone : ∀ j, j < cs.length → j < t0 → readingByCandle (cs.getD j default) input = .none)
    (hnum : ∀ j, j < cs.length → t0 ≤ j → readingByCandle (cs.getD j default) input = .num (r (j - t0))) :
    ∃ rows : List (Option (Val K × Val K × Val K) × Val K), rows.length = cs.length ∧
      engineCalc (mkTop (.stoch (p : Int) (sl : Int) (sk : Int) input : Kind K) nm n) cs
        = .ok (decoWith (stochOut nm n) cs rows) ∧
      ∀ j, j < cs.length → rows.getD j (none, stochNone)
        = stochI_Row p sk sl t0 (fieldAt (·.l) cs) (fieldAt (·.h) cs) (fun k => (r k).toF) j :=
  Numeric.stochI_inputs_rows p sk sl hp hsk hsl nm input n t0 cs r hn hi habs hnone hnum

/-- … for `t0 = 0` the two-start statement is the raw `StochOK` (and the rows are `stRow`:
`Numeric.stochI_Row_zero`), now over every candle list and every numeric input column -/
theorem stoch_inputs_zero (p sk sl : Nat) (nm input : String) (n : Nat) (cs : List (Candle K)) (x : Nat → K)
    (hp : 2 ≤ p) (hsk : 1 ≤ sk) (hsl : 1 ≤ sl) (hn : StochNames nm) (hi : StochIInput nm input)
    (habs : ∀ c ∈ cs, StochIAbsent nm c)
    (hin : ∀ j, j < cs.length →
      (match readingByCandle (cs.getD j default) input with
        | .s (.num r) => some r.toF
        | _ => none) = some (x j)) :
    ∃ out : List (Candle K),
      engineCalc (mkTop (.stoch (p : Int) (sl : Int) (sk : Int) input : Kind K) nm n) cs = .ok out ∧
      out.length = cs.length ∧
      ∀ j, j < cs.length →
        StochOK n p sk sl (fieldAt (·.l) cs) (fieldAt (·.h) cs) x j
          (readingByCandle (out.getD j default) nm) (readingByCandle (out.getD j default) (nm ++ "_data"))
          (readingByCandle (out.getD j default) (nm ++ "_k")) (readingByCandle (out.getD j default) (nm ++ "_d")) :=
  Numeric.c06_stoch_inputs_zero p sk sl nm input n cs x hp hsk hsl hn hi habs hin

/-- … ranges: where `low ≤ input ≤ high` on the candles that carry a raw value -/
theorem stoch_inputs_ranges (n p sk sl t0 : Nat) (lo hi x : Nat → K) (hp : 2 ≤ p) (hsk : 1 ≤ sk) (hsl : 1 ≤ sl)
    (j : Nat) (hw : ∀ i, t0 + p ≤ i + 1 → i ≤ j → lo i ≤ x (i - t0) ∧ x (i - t0) ≤ hi i) (own data k d : Val K)
    (h : StochIOK n p sk sl t0 lo hi x j own data k d) :
    (t0 + p ≤ j + 1 → ∃ y, own.nested "stoch" = .flt y ∧ 0 ≤ y ∧ y ≤ 100) ∧
    (stochTK (t0 + p) sk ≤ j →
      (∃ y, k = .flt y ∧ -stochBK K (t0 + p) sk j ≤ y ∧ y ≤ 100 + stochBK K (t0 + p) sk j) ∧
      (∃ y, own.nested "k" = .flt y ∧ -(eps K n + stochBK K (t0 + p) sk j) ≤ y ∧
        y ≤ 100 + (eps K n + stochBK K (t0 + p) sk j))) ∧
    (stochTD (t0 + p) sk sl ≤ j →
      (∃ y, d = .flt y ∧ -stochBD K (t0 + p) sk sl j ≤ y ∧ y ≤ 100 + stochBD K (t0 + p) sk sl j) ∧
      (∃ y, own.nested "d" = .flt y ∧ -(eps K n + stochBD K (t0 + p) sk sl j) ≤ y ∧
        y ≤ 100 + (eps K n + stochBD K (t0 + p) sk sl j))) :=
  Numeric.stochI_ranges n p sk sl t0 lo hi x hp hsk hsl j hw own data k d h

end Hex.C06

#print axioms Hex.C06.stoch_inputs
#print axioms Hex.C06.stoch_inputs_rows
#print axioms Hex.C06.stoch_inputs_zero
#print axioms Hex.C06.stoch_inputs_ranges

namespace Hex.C06
open Hex Hex.Numeric
theorem C06_TSI_inputs_holds : Numeric.C06TsiStatement := Numeric.c06_tsi_inputs

theorem tsi_inputs_rows {K : Type} [Field K] [LinearOrder K] [IsStrictOrderedRing K] [LawfulPyF K]
    (p s : Nat) (hp : 1 ≤ p) (hs : 1 ≤ s) (nm input : String) (n t0 : Nat)
    (cs : List (Candle K)) (r : Nat → Num K) (hn : TsiNames nm) (hi : Numeric.TsiIInput nm input)
    (habs : ∀ c ∈ cs, Numeric.TsiIAbsent nm c)
    (hnone : ∀ j, j < cs.length → j < t0 → readingByCandle (cs.getD j default) input = .none)
    (hnum : ∀ j, j < cs.length → t0 ≤ j → readingByCandle (cs.getD j default) input = .num (r (j - t0))) :
    ∃ rows : List (Numeric.TsiIRow K), rows.length = cs.length ∧
      engineCalc (mkTop (.tsi (p : Int) (s : Int) input : Kind K) nm n) cs
        = .ok (Numeric.decoWith (Numeric.tsiIOut nm) cs rows) ∧
      ∀ j, j < cs.length → rows.getD j (none, .none) = Numeric.tsiIRowAt n p s t0 r j :=
  Numeric.tsi_inputs_rows p s hp hs nm input n t0 cs r hn hi habs hnone hnum
end Hex.C06

namespace Hex.C06
open Hex Hex.Numeric
variable {K : Type} [Field K] [LinearOrder K] [IsStrictOrderedRing K] [LawfulPyF K]

/-- **C06, ADX over every candle list** (foreign readings allowed; ADX has no input to shift) -/
theorem C06_ADX_inputs_holds : Numeric.C06AdxStatement := Numeric.c06_adx_inputs

theorem adx_inputs_readings {K : Type} [Field K] [LinearOrder K] [IsStrictOrderedRing K] [LawfulPyF K]
    (p sg : Nat) (nm : String) (n : Nat) (cs : List (Candle K))
    (hp : 1 ≤ p) (hg : 1 ≤ sg) (hn : AdxNames nm)
    (habs : ∀ c ∈ cs, ∀ k ∈ Numeric.adxI_names nm, dlookup k c.inds = none ∧ dlookup k c.subs = none) :
    ∃ out : List (Candle K),
      engineCalc (mkTop (.adx (p : Int) (sg : Int) : Kind K) nm n) cs = .ok out ∧
      out.length = cs.length ∧
      ∀ j, j < cs.length → Numeric.AdxCandleOK nm n p sg cs j (out.getD j default) :=
  Numeric.c06_adx_inputs_readings p sg nm n cs hp hg hn habs

theorem rsi_series_on_manager (M : MgrSpec K) (p : Nat) (hp : 1 ≤ p) (nm input : String) (fld : Candle K → Num K)
    (n : Nat) (hn : RsiNames nm) (hk : IsKey nm) (hin : AttrInput input)
    (hattr : ∀ c : Candle K, c.attr input = some (.num (fld c))) :
    HoldsOn M (mkTop (.rsi (p : Int) input : Kind K) nm n) (RsiCandle p n nm fld) :=
  Numeric.rsi_series_on_manager M p hp nm input fld n hn hk hin hattr

/-- **RSI on a collapsing timeframe, total**: every history over a sorted stamped raw stream RETURNS, with the RSI
series of the collapsed candles -/
theorem rsi_series_on_tf (tf : Int) (htf : 0 < tf) (p : Nat) (hp : 1 ≤ p) (nm input : String) (fld : Candle K → Num K)
    (n : Nat) (hn : RsiNames nm) (hk : IsKey nm) (hin : AttrInput input)
    (hattr : ∀ c : Candle K, c.attr input = some (.num (fld c)))
    (init : List (Candle K)) (chunks : List (List (Candle K))) (hraw : RawTf (init ++ chunks.flatten)) :
    ∃ snap, candlesOf (runIndicator (mkTop (.rsi (p : Int) input : Kind K) nm n) { tf := some tf } init chunks)
        = .ok snap ∧
      snap.length = (resample tf (init ++ chunks.flatten)).length ∧
      ∀ j, j < (resample tf (init ++ chunks.flatten)).length →
        (snap.getD j default).bare = ((resample tf (init ++ chunks.flatten)).getD j default).bare ∧
        RsiOwnOK n (rsiSeries p (fieldAt fld (resample tf (init ++ chunks.flatten))) j)
          (readingByCandle (snap.getD j default) nm) ∧
        (j < p → readingByCandle (snap.getD j default) (nm ++ "_data") = .none) ∧
        (p ≤ j →
          readingByCandle (snap.getD j default) (nm ++ "_data.gain")
            = .flt (wilderAvg p (upAt (fieldAt fld (resample tf (init ++ chunks.flatten)))) j) ∧
          readingByCandle (snap.getD j default) (nm ++ "_data.loss")
            = .flt (wilderAvg p (downAt (fieldAt fld (resample tf (init ++ chunks.flatten)))) j)) :=
  Numeric.rsi_series_tf tf htf p hp nm input fld n hn hk hin hattr init chunks hraw

theorem rsi_series_on_fillHA (tf : Int) (htf : 0 < tf) (p : Nat) (hp : 1 ≤ p) (nm input : String)
    (fld : Candle K → Num K) (n : Nat) (hn : RsiNames nm) (hk : IsKey nm) (hin : AttrInput input)
    (hattr : ∀ c : Candle K, c.attr input = some (.num (fld c)))
    (init : List (Candle K)) (chunks : List (List (Candle K)))
    (hraw : RawTf (init ++ chunks.flatten) ∧ ∀ c ∈ init ++ chunks.flatten, c.tag = false) :
    ∃ snap, candlesOf (runIndicator (mkTop (.rsi (p : Int) input : Kind K) nm n)
        { tf := some tf, fill := true, ha := true } init chunks) = .ok snap ∧
      EveryCandle (RsiCandle p n nm fld) (haSpec (fillSpec tf (init ++ chunks.flatten))) snap :=
  Numeric.rsi_series_fillHA tf htf p hp nm input fld n hn hk hin hattr init chunks hraw

/-- **the MACD run on every manager is `macdOut` of the manager's candles** -/
theorem macd_runs_on_manager (M : MgrSpec K) (nm : String) (n pf ps pg : Nat) (input : String)
    (fld : Candle K → Num K) (hf : 2 ≤ pf) (hfs : pf ≤ ps) (hg : 1 ≤ pg) (hn : MacdNames nm) (hin : AttrInput input)
    (hattr : ∀ c : Candle K, c.attr input = some (.num (fld c))) :
    RunsAs M (mkTop (.macd (pf : Int) (ps : Int) (pg : Int) input : Kind K) nm n) (macdOut nm n pf ps pg fld) :=
  Numeric.macd_runs_on_manager M nm n pf ps pg input fld hf hfs hg hn hin hattr

theorem macd_series_on_manager (M : MgrSpec K) (nm : String) (n pf ps pg : Nat) (input : String)
    (fld : Candle K → Num K) (hf : 2 ≤ pf) (hfs : pf ≤ ps) (hg : 1 ≤ pg) (hn : MacdNames nm) (hin : AttrInput input)
    (hattr : ∀ c : Candle K, c.attr input = some (.num (fld c))) :
    HoldsOn M (mkTop (.macd (pf : Int) (ps : Int) (pg : Int) input : Kind K) nm n) (MacdCandle nm n pf ps pg fld) :=
  Numeric.macd_series_on_manager M nm n pf ps pg input fld hf hfs hg hn hin hattr

/-- **MACD on a collapsing timeframe**: the history returns `macdOut` of the collapsed candles, candle by candle
`MacdCandleOK` -/
theorem macd_series_on_tf (tf : Int) (htf : 0 < tf) (nm : String) (n pf ps pg : Nat) (input : String)
    (fld : Candle K → Num K) (hf : 2 ≤ pf) (hfs : pf ≤ ps) (hg : 1 ≤ pg) (hn : MacdNames nm) (hin : AttrInput input)
    (hattr : ∀ c : Candle K, c.attr input = some (.num (fld c)))
    (init : List (Candle K)) (chunks : List (List (Candle K))) (hraw : RawTf (init ++ chunks.flatten)) :
    ∃ snap, candlesOf (runIndicator (mkTop (.macd (pf : Int) (ps : Int) (pg : Int) input : Kind K) nm n)
        { tf := some tf } init chunks) = .ok snap ∧
      snap = macdOut nm n pf ps pg fld (resample tf (init ++ chunks.flatten)) ∧
      snap.length = (resample tf (init ++ chunks.flatten)).length ∧
      ∀ j, j < (resample tf (init ++ chunks.flatten)).length →
        MacdCandleOK nm n pf ps pg (fieldAt fld (resample tf (init ++ chunks.flatten))) j
          ((resample tf (init ++ chunks.flatten)).getD j default) (snap.getD j default) :=
  Numeric.macd_series_tf tf htf nm n pf ps pg input fld hf hfs hg hn hin hattr init chunks hraw

theorem macd_series_on_fillHA (tf : Int) (htf : 0 < tf) (nm : String) (n pf ps pg : Nat) (input : String)
    (fld : Candle K → Num K) (hf : 2 ≤ pf) (hfs : pf ≤ ps) (hg : 1 ≤ pg) (hn : MacdNames nm) (hin : AttrInput input)
    (hattr : ∀ c : Candle K, c.attr input = some (.num (fld c)))
    (init : List (Candle K)) (chunks : List (List (Candle K)))
    (hraw : RawTf (init ++ chunks.flatten) ∧ ∀ c ∈ init ++ chunks.flatten, c.tag = false) :
    ∃ snap, candlesOf (runIndicator (mkTop (.macd (pf : Int) (ps : Int) (pg : Int) input : Kind K) nm n)
        { tf := some tf, fill := true, ha := true } init chunks) = .ok snap ∧
      snap = macdOut nm n pf ps pg fld (haSpec (fillSpec tf (init ++ chunks.flatten))) ∧
      EveryCandle (MacdCandle nm n pf ps pg fld) (haSpec (fillSpec tf (init ++ chunks.flatten))) snap :=
  Numeric.macd_series_fillHA tf htf nm n pf ps pg input fld hf hfs hg hn hin hattr init chunks hraw

/-- **the STOCH run on every manager is `stochDeco` of the manager's candles** -/
theorem stoch_runs_on_manager (M : MgrSpec K) (p sk sl : Nat) (hp : 2 ≤ p) (hsk : 1 ≤ sk) (hsl : 1 ≤ sl)
    (nm input : String) (fld : Candle K → Num K) (n : Nat) (hn : StochNames nm) (hin : AttrInput input)
    (hattr : ∀ c : Candle K, c.attr input = some (.num (fld c))) :
    RunsAs M (mkTop (.stoch (p : Int) (sl : Int) (sk : Int) input : Kind K) nm n) (stochDeco nm n p sk sl fld) :=
  Numeric.stoch_runs_on_manager M p sk sl hp hsk hsl nm input fld n hn hin hattr

theorem stoch_series_on_manager (M : MgrSpec K) (p sk sl : Nat) (hp : 2 ≤ p) (hsk : 1 ≤ sk) (hsl : 1 ≤ sl)
    (nm input : String) (fld : Candle K → Num K) (n : Nat) (hn : StochNames nm) (hin : AttrInput input)
    (hattr : ∀ c : Candle K, c.attr input = some (.num (fld c))) :
    HoldsOn M (mkTop (.stoch (p : Int) (sl : Int) (sk : Int) input : Kind K) nm n) (StochCandle n p sk sl nm fld) :=
  Numeric.stoch_series_on_manager M p sk sl hp hsk hsl nm input fld n hn hin hattr

/-- **STOCH on a collapsing timeframe**: `%K` over the lows / highs of the last `p` COLLAPSED candles -/
theorem stoch_series_on_tf (tf : Int) (htf : 0 < tf) (p sk sl : Nat) (hp : 2 ≤ p) (hsk : 1 ≤ sk) (hsl : 1 ≤ sl)
    (nm input : String) (fld : Candle K → Num K) (n : Nat) (hn : StochNames nm) (hin : AttrInput input)
    (hattr : ∀ c : Candle K, c.attr input = some (.num (fld c)))
    (init : List (Candle K)) (chunks : List (List (Candle K))) (hraw : RawTf (init ++ chunks.flatten)) :
    ∃ snap, candlesOf (runIndicator (mkTop (.stoch (p : Int) (sl : Int) (sk : Int) input : Kind K) nm n)
        { tf := some tf } init chunks) = .ok snap ∧
      snap = stochDeco nm n p sk sl fld (resample tf (init ++ chunks.flatten)) ∧
      snap.length = (resample tf (init ++ chunks.flatten)).length ∧
      ∀ j, j < (resample tf (init ++ chunks.flatten)).length →
        StochOK n p sk sl (fieldAt (·.l) (resample tf (init ++ chunks.flatten)))
          (fieldAt (·.h) (resample tf (init ++ chunks.flatten))) (fieldAt fld (resample tf (init ++ chunks.flatten))) j
          (readingByCandle (snap.getD j default) nm) (readingByCandle (snap.getD j default) (nm ++ "_data"))
          (readingByCandle (snap.getD j default) (nm ++ "_k")) (readingByCandle (snap.getD j default) (nm ++ "_d")) :=
  Numeric.stoch_series_tf tf htf p sk sl hp hsk hsl nm input fld n hn hin hattr init chunks hraw

theorem stoch_series_on_fillHA (tf : Int) (htf : 0 < tf) (p sk sl : Nat) (hp : 2 ≤ p) (hsk : 1 ≤ sk) (hsl : 1 ≤ sl)
    (nm input : String) (fld : Candle K → Num K) (n : Nat) (hn : StochNames nm) (hin : AttrInput input)
    (hattr : ∀ c : Candle K, c.attr input = some (.num (fld c)))
    (init : List (Candle K)) (chunks : List (List (Candle K)))
    (hraw : RawTf (init ++ chunks.flatten) ∧ ∀ c ∈ init ++ chunks.flatten, c.tag = false) :
    ∃ snap, candlesOf (runIndicator (mkTop (.stoch (p : Int) (sl : Int) (sk : Int) input : Kind K) nm n)
        { tf := some tf, fill := true, ha := true } init chunks) = .ok snap ∧
      EveryCandle (StochCandle n p sk sl nm fld) (haSpec (fillSpec tf (init ++ chunks.flatten))) snap :=
  Numeric.stoch_series_fillHA tf htf p sk sl hp hsk hsl nm input fld n hn hin hattr init chunks hraw

/-- **the TSI run on every manager is `tsiOut` of the manager's candles** -/
theorem tsi_runs_on_manager (M : MgrSpec K) (nm : String) (n p s : Nat) (input : String) (fld : Candle K → Num K)
    (hp : 1 ≤ p) (hs : 1 ≤ s) (hn : TsiNames nm) (hin : AttrInput input)
    (hattr : ∀ c : Candle K, c.attr input = some (.num (fld c))) :
    RunsAs M (mkTop (.tsi (p : Int) (s : Int) input : Kind K) nm n) (tsiOut nm n p s fld) :=
  Numeric.tsi_runs_on_manager M nm n p s input fld hp hs hn hin hattr

theorem tsi_series_on_manager (M : MgrSpec K) (nm : String) (n p s : Nat) (input : String) (fld : Candle K → Num K)
    (hp : 1 ≤ p) (hs : 1 ≤ s) (hn : TsiNames nm) (hin : AttrInput input)
    (hattr : ∀ c : Candle K, c.attr input = some (.num (fld c))) :
    HoldsOn M (mkTop (.tsi (p : Int) (s : Int) input : Kind K) nm n) (TsiCandle nm n p s fld) :=
  Numeric.tsi_series_on_manager M nm n p s input fld hp hs hn hin hattr

theorem tsi_series_on_tf (tf : Int) (htf : 0 < tf) (nm : String) (n p s : Nat) (input : String)
    (fld : Candle K → Num K) (hp : 1 ≤ p) (hs : 1 ≤ s) (hn : TsiNames nm) (hin : AttrInput input)
    (hattr : ∀ c : Candle K, c.attr input = some (.num (fld c)))
    (init : List (Candle K)) (chunks : List (List (Candle K))) (hraw : RawTf (init ++ chunks.flatten)) :
    ∃ snap, candlesOf (runIndicator (mkTop (.tsi (p : Int) (s : Int) input : Kind K) nm n) { tf := some tf }
        init chunks) = .ok snap ∧
      snap = tsiOut nm n p s fld (resample tf (init ++ chunks.flatten)) ∧
      snap.length = (resample tf (init ++ chunks.flatten)).length ∧
      ∀ j, j < (resample tf (init ++ chunks.flatten)).length →
        TsiCandleOK nm n p s (fieldAt fld (resample tf (init ++ chunks.flatten))) j
          ((resample tf (init ++ chunks.flatten)).getD j default) (snap.getD j default) :=
  Numeric.tsi_series_tf tf htf nm n p s input fld hp hs hn hin hattr init chunks hraw

theorem tsi_series_on_fillHA (tf : Int) (htf : 0 < tf) (nm : String) (n p s : Nat) (input : String)
    (fld : Candle K → Num K) (hp : 1 ≤ p) (hs : 1 ≤ s) (hn : TsiNames nm) (hin : AttrInput input)
    (hattr : ∀ c : Candle K, c.attr input = some (.num (fld c)))
    (init : List (Candle K)) (chunks : List (List (Candle K)))
    (hraw : RawTf (init ++ chunks.flatten) ∧ ∀ c ∈ init ++ chunks.flatten, c.tag = false) :
    ∃ snap, candlesOf (runIndicator (mkTop (.tsi (p : Int) (s : Int) input : Kind K) nm n)
        { tf := some tf, fill := true, ha := true } init chunks) = .ok snap ∧
      snap = tsiOut nm n p s fld (haSpec (fillSpec tf (init ++ chunks.flatten))) ∧
      EveryCandle (TsiCandle nm n p s fld) (haSpec (fillSpec tf (init ++ chunks.flatten))) snap :=
  Numeric.tsi_series_fillHA tf htf nm n p s input fld hp hs hn hin hattr init chunks hraw

/-- **the ADX run on every manager is `adxOut` of the manager's candles** -/
theorem adx_runs_on_manager (M : MgrSpec K) (nm : String) (n p sg : Nat) (hp : 1 ≤ p) (hg : 1 ≤ sg)
    (hn : AdxNames nm) : RunsAs M (mkTop (.adx (p : Int) (sg : Int) : Kind K) nm n) (adxOut nm n p sg) :=
  Numeric.adx_runs_on_manager M nm n p sg hp hg hn

theorem adx_series_on_manager (M : MgrSpec K) (nm : String) (n p sg : Nat) (hp : 1 ≤ p) (hg : 1 ≤ sg)
    (hn : AdxNames nm) : HoldsOn M (mkTop (.adx (p : Int) (sg : Int) : Kind K) nm n) (AdxCandle nm n p sg) :=
  Numeric.adx_series_on_manager M nm n p sg hp hg hn

theorem adx_series_on_tf (tf : Int) (htf : 0 < tf) (nm : String) (n p sg : Nat) (hp : 1 ≤ p) (hg : 1 ≤ sg)
    (hn : AdxNames nm) (init : List (Candle K)) (chunks : List (List (Candle K)))
    (hraw : RawTf (init ++ chunks.flatten)) :
    ∃ snap, candlesOf (runIndicator (mkTop (.adx (p : Int) (sg : Int) : Kind K) nm n) { tf := some tf }
        init chunks) = .ok snap ∧
      snap = adxOut nm n p sg (resample tf (init ++ chunks.flatten)) ∧
      snap.length = (resample tf (init ++ chunks.flatten)).length ∧
      ∀ j, j < (resample tf (init ++ chunks.flatten)).length →
        AdxCandleOK nm n p sg (resample tf (init ++ chunks.flatten)) j (snap.getD j default) :=
  Numeric.adx_series_tf tf htf nm n p sg hp hg hn init chunks hraw

theorem adx_series_on_fillHA (tf : Int) (htf : 0 < tf) (nm : String) (n p sg : Nat) (hp : 1 ≤ p) (hg : 1 ≤ sg)
    (hn : AdxNames nm) (init : List (Candle K)) (chunks : List (List (Candle K)))
    (hraw : RawTf (init ++ chunks.flatten) ∧ ∀ c ∈ init ++ chunks.flatten, c.tag = false) :
    ∃ snap, candlesOf (runIndicator (mkTop (.adx (p : Int) (sg : Int) : Kind K) nm n)
        { tf := some tf, fill := true, ha := true } init chunks) = .ok snap ∧
      snap = adxOut nm n p sg (haSpec (fillSpec tf (init ++ chunks.flatten))) ∧
      EveryCandle (AdxCandle nm n p sg) (haSpec (fillSpec tf (init ++ chunks.flatten))) snap :=
  Numeric.adx_series_fillHA tf htf nm n p sg hp hg hn init chunks hraw

theorem aroon_series_on_manager (M : MgrSpec K) (p : Nat) (hp : 1 ≤ p) (nm : String) (n : Nat) (hk : IsKey nm) :
    HoldsOn M (mkTop (.aroon p : Kind K) nm n) (AroonCandle p n nm) :=
  Numeric.aroon_series_on_manager M p hp nm n hk

theorem aroon_series_on_tf (tf : Int) (htf : 0 < tf) (p : Nat) (hp : 1 ≤ p) (nm : String) (n : Nat) (hk : IsKey nm)
    (init : List (Candle K)) (chunks : List (List (Candle K))) (hraw : RawTf (init ++ chunks.flatten)) :
    ∃ snap, candlesOf (runIndicator (mkTop (.aroon p : Kind K) nm n) { tf := some tf } init chunks) = .ok snap ∧
      snap.length = (resample tf (init ++ chunks.flatten)).length ∧
      ∀ j, j < (resample tf (init ++ chunks.flatten)).length →
        (snap.getD j default).bare = ((resample tf (init ++ chunks.flatten)).getD j default).bare ∧
        AroonOK p n (fieldAt (·.h) (resample tf (init ++ chunks.flatten)))
          (fieldAt (·.l) (resample tf (init ++ chunks.flatten))) j (readingByCandle (snap.getD j default) nm) :=
  Numeric.aroon_series_tf tf htf p hp nm n hk init chunks hraw

theorem aroon_series_on_fillHA (tf : Int) (htf : 0 < tf) (p : Nat) (hp : 1 ≤ p) (nm : String) (n : Nat) (hk : IsKey nm)
    (init : List (Candle K)) (chunks : List (List (Candle K)))
    (hraw : RawTf (init ++ chunks.flatten) ∧ ∀ c ∈ init ++ chunks.flatten, c.tag = false) :
    ∃ snap, candlesOf (runIndicator (mkTop (.aroon p : Kind K) nm n) { tf := some tf, fill := true, ha := true }
        init chunks) = .ok snap ∧
      EveryCandle (AroonCandle p n nm) (haSpec (fillSpec tf (init ++ chunks.flatten))) snap :=
  Numeric.aroon_series_fillHA tf htf p hp nm n hk init chunks hraw

theorem vwap_series_on_manager (M : MgrSpec K) (p : Int) (nm : String) (n : Nat) (hn : VwapNames nm) :
    HoldsOn M (mkTop (.vwap p : Kind K) nm n) (VwapCandle n nm) :=
  Numeric.vwap_series_on_manager M p nm n hn

/-- **VWAP on a collapsing timeframe**: cumulative over the COLLAPSED candles (bucket volume × bucket typical price) -/
theorem vwap_series_on_tf (tf : Int) (htf : 0 < tf) (p : Int) (nm : String) (n : Nat) (hn : VwapNames nm)
    (init : List (Candle K)) (chunks : List (List (Candle K))) (hraw : RawTf (init ++ chunks.flatten)) :
    ∃ snap, candlesOf (runIndicator (mkTop (.vwap p : Kind K) nm n) { tf := some tf } init chunks) = .ok snap ∧
      snap.length = (resample tf (init ++ chunks.flatten)).length ∧
      ∀ j, j < (resample tf (init ++ chunks.flatten)).length →
        (snap.getD j default).bare = ((resample tf (init ++ chunks.flatten)).getD j default).bare ∧
        NumNear n (vwapExact (fieldAt (·.h) (resample tf (init ++ chunks.flatten)))
            (fieldAt (·.l) (resample tf (init ++ chunks.flatten))) (fieldAt (·.c) (resample tf (init ++ chunks.flatten)))
            (fieldAt (·.v) (resample tf (init ++ chunks.flatten))) j) (readingByCandle (snap.getD j default) nm) ∧
        NumIs (cumPV (fieldAt (·.h) (resample tf (init ++ chunks.flatten)))
            (fieldAt (·.l) (resample tf (init ++ chunks.flatten))) (fieldAt (·.c) (resample tf (init ++ chunks.flatten)))
            (fieldAt (·.v) (resample tf (init ++ chunks.flatten))) j)
          (readingByCandle (snap.getD j default) (nm ++ "_data.pv")) ∧
        NumIs (cumSum (fieldAt (·.v) (resample tf (init ++ chunks.flatten))) j)
          (readingByCandle (snap.getD j default) (nm ++ "_data.vol")) :=
  Numeric.vwap_series_tf tf htf p nm n hn init chunks hraw

theorem vwap_series_on_fillHA (tf : Int) (htf : 0 < tf) (p : Int) (nm : String) (n : Nat) (hn : VwapNames nm)
    (init : List (Candle K)) (chunks : List (List (Candle K)))
    (hraw : RawTf (init ++ chunks.flatten) ∧ ∀ c ∈ init ++ chunks.flatten, c.tag = false) :
    ∃ snap, candlesOf (runIndicator (mkTop (.vwap p : Kind K) nm n) { tf := some tf, fill := true, ha := true }
        init chunks) = .ok snap ∧
      EveryCandle (VwapCandle n nm) (haSpec (fillSpec tf (init ++ chunks.flatten))) snap :=
  Numeric.vwap_series_fillHA tf htf p nm n hn init chunks hraw

theorem obv_series_on_manager (M : MgrSpec K) (nm : String) (n : Nat) (hk : IsKey nm) :
    HoldsOn M (mkTop .obv nm n) (ObvCandle (K := K) n nm) :=
  Numeric.obv_series_on_manager M nm n hk

/-- **OBV on a collapsing timeframe**: ± the BUCKET volume by the sign of the change of the bucket closes -/
theorem obv_series_on_tf (tf : Int) (htf : 0 < tf) (nm : String) (n : Nat) (hk : IsKey nm)
    (init : List (Candle K)) (chunks : List (List (Candle K))) (hraw : RawTf (init ++ chunks.flatten)) :
    ∃ snap, candlesOf (runIndicator (mkTop .obv nm n) { tf := some tf } init chunks) = .ok snap ∧
      snap.length = (resample tf (init ++ chunks.flatten)).length ∧
      ∀ j, j < (resample tf (init ++ chunks.flatten)).length →
        (snap.getD j default).bare = ((resample tf (init ++ chunks.flatten)).getD j default).bare ∧
        ∃ t : Num K, readingByCandle (snap.getD j default) nm = .num t ∧
          |t.toF - obvExact (fieldAt (·.c) (resample tf (init ++ chunks.flatten)))
            (fieldAt (·.v) (resample tf (init ++ chunks.flatten))) j| ≤ ((j + 1 : Nat) : K) * eps K n :=
  Numeric.obv_series_tf tf htf nm n hk init chunks hraw

theorem obv_series_on_fillHA (tf : Int) (htf : 0 < tf) (nm : String) (n : Nat) (hk : IsKey nm)
    (init : List (Candle K)) (chunks : List (List (Candle K)))
    (hraw : RawTf (init ++ chunks.flatten) ∧ ∀ c ∈ init ++ chunks.flatten, c.tag = false) :
    ∃ snap, candlesOf (runIndicator (mkTop .obv nm n) { tf := some tf, fill := true, ha := true } init chunks)
        = .ok snap ∧
      EveryCandle (ObvCandle n nm) (haSpec (fillSpec tf (init ++ chunks.flatten))) snap :=
  Numeric.obv_series_fillHA tf htf nm n hk init chunks hraw

/-- **ROC is its textbook series on every manager whose candles keep a non-zero input** (after construction and
after every append – the library divides by the reference value unguarded) -/
theorem roc_series_on_manager (M : MgrSpec K) (p : Nat) (hp : 1 ≤ p) (nm input : String) (fld : Candle K → Num K)
    (n : Nat) (hk : IsKey nm) (hin : AttrInput input) (hattr : ∀ c : Candle K, c.attr input = some (.num (fld c))) :
    HoldsOnWhen M (mkTop (.roc p input) nm n) (NonzeroInput fld) (RocCandle p n nm fld) :=
  Numeric.roc_series_on_manager M p hp nm input fld n hk hin hattr

theorem roc_series_on_tf (tf : Int) (htf : 0 < tf) (p : Nat) (hp : 1 ≤ p) (nm input : String) (fld : Candle K → Num K)
    (n : Nat) (hk : IsKey nm) (hin : AttrInput input) (hattr : ∀ c : Candle K, c.attr input = some (.num (fld c)))
    (init : List (Candle K)) (chunks : List (List (Candle K))) (hraw : RawTf (init ++ chunks.flatten))
    (hnz : ∀ k, k ≤ chunks.length → ∀ j, j < (resample tf (init ++ (chunks.take k).flatten)).length →
      fieldAt fld (resample tf (init ++ (chunks.take k).flatten)) j ≠ 0) :
    ∃ snap, candlesOf (runIndicator (mkTop (.roc p input) nm n) { tf := some tf } init chunks) = .ok snap ∧
      snap.length = (resample tf (init ++ chunks.flatten)).length ∧
      ∀ j, j < (resample tf (init ++ chunks.flatten)).length →
        (snap.getD j default).bare = ((resample tf (init ++ chunks.flatten)).getD j default).bare ∧
        DirectOK (p + 1) n (rocAt (fieldAt fld (resample tf (init ++ chunks.flatten))) p) j
          (readingByCandle (snap.getD j default) nm) :=
  Numeric.roc_series_tf tf htf p hp nm input fld n hk hin hattr init chunks hraw hnz

theorem roc_series_on_fillHA (tf : Int) (htf : 0 < tf) (p : Nat) (hp : 1 ≤ p) (nm input : String)
    (fld : Candle K → Num K) (n : Nat) (hk : IsKey nm) (hin : AttrInput input)
    (hattr : ∀ c : Candle K, c.attr input = some (.num (fld c)))
    (init : List (Candle K)) (chunks : List (List (Candle K)))
    (hraw : RawTf (init ++ chunks.flatten) ∧ ∀ c ∈ init ++ chunks.flatten, c.tag = false)
    (hnz : ∀ k, k ≤ chunks.length → NonzeroInput fld (haSpec (fillSpec tf (init ++ (chunks.take k).flatten)))) :
    ∃ snap, candlesOf (runIndicator (mkTop (.roc p input) nm n) { tf := some tf, fill := true, ha := true }
        init chunks) = .ok snap ∧
      EveryCandle (RocCandle p n nm fld) (haSpec (fillSpec tf (init ++ chunks.flatten))) snap :=
  Numeric.roc_series_fillHA tf htf p hp nm input fld n hk hin hattr init chunks hraw hnz

/-- non-vacuity (ℚ, two-minute timeframe): RSI(2) returns four candles, no reading before COLLAPSED index 2, then a
float in `[0, 100]` within `ε₄` of the textbook RSI of the collapsed closes.  (`Int` runs by `decide +kernel`: end of
HexProofs/Numeric/SeriesOnManagersC06.lean.) -/
example : ∃ snap : List (Candle ℚ),
    candlesOf (runIndicator (mkTop (.rsi ((2 : Nat) : Int) "close" : Kind ℚ) "RSI_2" 4) { tf := some 120 }
      (haStamped.take 2) [haStamped.drop 2]) = .ok snap ∧ snap.length = 4 ∧
    readingByCandle (snap.getD 1 default) "RSI_2" = .none ∧
    ∃ y, readingByCandle (snap.getD 3 default) "RSI_2" = .flt y ∧
      |y - rsiExact 2 (fieldAt (·.c) (resample 120 haStamped)) 3| ≤ eps ℚ 4 ∧ 0 ≤ y ∧ y ≤ 100 := by
  obtain ⟨snap, h1, h2, h3⟩ := rsi_series_on_tf (K := ℚ) 120 (by decide) 2 (by norm_num) "RSI_2" "close" (·.c) 4
    rsiNames_demo2 (by decide) ⟨noDot_close, by decide⟩ (fun _ => rfl) (haStamped.take 2) [haStamped.drop 2]
    haStamped_ok.1
  have e : haStamped.take 2 ++ [haStamped.drop 2].flatten = haStamped := by simp
  rw [e] at h2 h3
  have hlen : (resample 120 haStamped).length = 4 := by decide +kernel
  rw [hlen] at h2 h3
  have a1 := (h3 1 (by decide)).2.1
  have a3 := (h3 3 (by decide)).2.1
  unfold rsiSeries at a1 a3
  rw [if_pos (by decide)] at a1
  rw [if_neg (by decide)] at a3
  exact ⟨snap, h1, h2, a1, a3⟩

end Hex.C06

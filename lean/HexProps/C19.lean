import HexModel.Core.Hexital
import HexProofs.Access.SurfaceWrites
import HexModel.Core.Input
/-
C19 – Reading state and converting input have no hidden side effects.

In the model every read accessor (`reading`, `prev_reading`, `has_reading`, `as_list`,
`reading_count`, `reading_period`, `candles_sum`, names, and the Hexital equivalents) is a function
from the state to a value: it cannot change the state BY CONSTRUCTION, so for those calls the whole
burden is on the correspondence – the `access` / `hexital.access` components interleave every
accessor with appends and compare all later snapshots, so a hidden side effect in the code shows
up as a disagreement – and on the oracle (hx/oracles/facade.py, deep snapshots around each call).
Input decoding (Candle / dict / list encodings, `HexModel/Core/Input.lean`, used by the driver for
every `append` of the tie) is modelled: `encodings_agree` below says that a fresh candle handed
over as a Candle, as a dict, or as a list with the timestamp first, last or absent, bare or in a
list, decodes to the very same candles, so everything downstream is literally the same
computation.  That the caller's containers are left alone is checked by the tie and the oracle.
Further theorems about the model: `Hexital.append`
delivers the very same candles to the manager of every timeframe, and feeding them changes no
manager's configuration.  Status: partial by nature (DESIGN.md, C19).
-/
namespace Hex.C19
open Hex Hex.Hexital
variable {F : Type} [PyF F]

theorem feedOne_ok (new : List (Candle F)) (h : Hexital F) (k : String) (m m' : Manager F)
    (hm : dlookup k h.managers = some m) (hok : m.append new = .ok m') :
    feedOne new h k = .ok (h.setManager k m') := by
  simp [feedOne, Hexital.manager, hm, hok, bind, Except.bind, pure, Except.pure]

theorem feedOne_inv (new : List (Candle F)) (h h1 : Hexital F) (k : String)
    (h1eq : feedOne new h k = .ok h1) :
    ∃ m m', dlookup k h.managers = some m ∧ m.append new = .ok m' ∧ h1 = h.setManager k m' := by
  unfold feedOne Hexital.manager at h1eq
  cases hm : dlookup k h.managers with
  | none => simp [hm, bind, Except.bind] at h1eq
  | some m =>
    cases hok : m.append new with
    | error e => simp [hm, hok, bind, Except.bind] at h1eq
    | ok m' =>
      simp [hm, hok, bind, Except.bind, pure, Except.pure] at h1eq
      exact ⟨m, m', rfl, hok, h1eq.symm⟩

/-- feeding a duplicate-free list of manager keys: each named manager ends up as ITS OWN state
with the same `new` appended, every other manager is untouched -/
theorem feed_list (new : List (Candle F)) (ks : List String) (hnd : ks.Nodup) :
    ∀ (h h' : Hexital F), ks.foldlM (feedOne new) h = .ok h' →
      (∀ k ∈ ks, ∃ m m', dlookup k h.managers = some m ∧ m.append new = .ok m' ∧
          dlookup k h'.managers = some m') ∧
      (∀ k, k ∉ ks → dlookup k h'.managers = dlookup k h.managers) := by
  induction ks with
  | nil =>
    intro h h' hf
    simp [List.foldlM, pure, Except.pure] at hf
    subst hf
    exact ⟨by simp, fun _ _ => rfl⟩
  | cons k rest ih =>
    intro h h' hf
    have hk : k ∉ rest := (List.nodup_cons.1 hnd).1
    have hrest : rest.Nodup := (List.nodup_cons.1 hnd).2
    simp only [List.foldlM_cons, bind, Except.bind] at hf
    cases h1eq : feedOne new h k with
    | error e => rw [h1eq] at hf; cases hf
    | ok h1 =>
      rw [h1eq] at hf
      obtain ⟨m, m', hm, hok, hset⟩ := feedOne_inv new h h1 k h1eq
      obtain ⟨ihA, ihB⟩ := ih hrest h1 h' hf
      have look1 : ∀ k2, dlookup k2 h1.managers = if k = k2 then some m' else dlookup k2 h.managers := by
        intro k2; rw [hset]; simp [Hexital.setManager, dlookup_dset]
      refine ⟨?_, ?_⟩
      · intro k2 hk2
        rcases List.mem_cons.1 hk2 with h2 | h2
        · subst h2
          refine ⟨m, m', hm, hok, ?_⟩
          rw [ihB k2 hk, look1 k2]; simp
        · obtain ⟨a, a', ha, hao, ha'⟩ := ihA k2 h2
          have hne : k ≠ k2 := fun e => hk (e ▸ h2)
          rw [look1 k2, if_neg hne] at ha
          exact ⟨a, a', ha, hao, ha'⟩
      · intro k2 hk2
        have hne : k ≠ k2 := fun e => hk2 (by simp [e])
        have hk2r : k2 ∉ rest := fun e => hk2 (by simp [e])
        rw [ihB k2 hk2r, look1 k2, if_neg hne]

/-- **The same candle reaches every timeframe.**  After `Hexital.append`'s feeding phase, the
manager registered under every key is that manager's previous state with exactly `new` appended
(never another manager's already processed copy). -/
theorem same_candles_to_every_timeframe (h h' : Hexital F) (new : List (Candle F))
    (hnd : h.feedOrder.Nodup) (hf : h.feedManagers new = .ok h') :
    ∀ k ∈ h.feedOrder, ∃ m m', dlookup k h.managers = some m ∧ m.append new = .ok m' ∧
      dlookup k h'.managers = some m' :=
  (feed_list new h.feedOrder hnd h h' hf).1

/-- every registered manager key is fed (the feeding order is a rotation of the key list) -/
theorem every_manager_is_fed (h : Hexital F) (k : String) (hk : k ∈ h.managers.map (·.1)) :
    k ∈ h.feedOrder := by
  unfold Hexital.feedOrder
  have := List.take_append_drop 1 (h.managers.map (·.1))
  rw [← this] at hk
  rcases List.mem_append.1 hk with h1 | h1
  · exact List.mem_append.2 (Or.inr h1)
  · exact List.mem_append.2 (Or.inl h1)

/-- appending never changes a manager's configuration -/
theorem append_keeps_cfg (m m' : Manager F) (new : List (Candle F)) (h : m.append new = .ok m') :
    m'.cfg = m.cfg := by
  unfold Manager.append at h
  by_cases he : new.isEmpty = true
  · simp [he] at h; subst h; rfl
  · simp only [he, Bool.false_eq_true, if_false] at h
    cases ht : tasks m.cfg (m.candles ++ new) with
    | error e => simp [ht, bind, Except.bind] at h
    | ok cs => simp [ht, bind, Except.bind, pure, Except.pure] at h; subst h; rfl

/-- an empty append is a no-op on the manager (the code returns before `_tasks`) -/
theorem empty_append_noop (m : Manager F) : m.append [] = .ok m := by
  simp [Manager.append]

/-! ### input encodings -/

/-- a candle as the caller constructs it: no readings, no tag, no clean values -/
def Fresh (c : Candle F) : Prop := c.inds = [] ∧ c.subs = [] ∧ c.tag = false ∧ c.clean = none

theorem fromDict_encodeDict (c : Candle F) (hf : Fresh c) : Candle.fromDict (encodeDict c) = c := by
  obtain ⟨o, h, l, cl, v, ts, inds, subs, tag, clean⟩ := c
  obtain ⟨h1, h2, h3, h4⟩ := hf
  simp only at h1 h2 h3 h4
  subst h1 h2 h3 h4
  cases ts <;> simp [Candle.fromDict, encodeDict, dictGet, dlookup, Cell.asNum]

theorem fromList_encodeList (b : Bool) (c : Candle F) (hf : Fresh c) :
    Candle.fromList (encodeList b c) = .ok c := by
  obtain ⟨o, h, l, cl, v, ts, inds, subs, tag, clean⟩ := c
  obtain ⟨h1, h2, h3, h4⟩ := hf
  simp only at h1 h2 h3 h4
  subst h1 h2 h3 h4
  cases ts <;> cases b <;> simp [Candle.fromList, encodeList, Cell.asNum]

theorem mapM_fromList_encodeList (b : Bool) (cs : List (Candle F)) (hf : ∀ c ∈ cs, Fresh c) :
    (cs.map (encodeList b)).mapM Candle.fromList = .ok cs := by
  induction cs with
  | nil => rfl
  | cons c cs ih =>
    have h1 := fromList_encodeList b c (hf c (List.mem_cons_self ..))
    have h2 := ih (fun x hx => hf x (List.mem_cons_of_mem _ hx))
    simp only [List.map_cons, List.mapM_cons, h1, h2, bind, Except.bind, pure, Except.pure]

/-- C19 (second clause): every encoding of the same fresh candles decodes to the same candles.
`append` of a manager, an indicator or a Hexital is `decodeInput` followed by the append of the
decoded candles, so the results are identical whatever the encoding. -/
theorem encodings_agree (cs : List (Candle F)) (hf : ∀ c ∈ cs, Fresh c) (b : Bool) :
    decodeInput (.candles cs) = .ok cs ∧
    decodeInput (.dicts (cs.map encodeDict)) = .ok cs ∧
    decodeInput (.lists (cs.map (encodeList b))) = .ok cs := by
  refine ⟨rfl, ?_, mapM_fromList_encodeList b cs hf⟩
  simp only [decodeInput, List.map_map]
  congr 1
  conv => rhs; rw [← List.map_id cs]
  exact List.map_congr_left (fun c hc => fromDict_encodeDict c (hf c hc))

/-- ... and a single candle may be handed over bare -/
theorem encodings_agree_single (c : Candle F) (hf : Fresh c) (b : Bool) :
    decodeInput (.candle c) = .ok [c] ∧
    decodeInput (.dict (encodeDict c)) = .ok [c] ∧
    decodeInput (.list (encodeList b c)) = .ok [c] := by
  refine ⟨rfl, ?_, ?_⟩
  · simp only [decodeInput, fromDict_encodeDict c hf]
  · simp only [decodeInput, fromList_encodeList b c hf, bind, Except.bind, pure, Except.pure]

/-- the list form is position-sensitive: a timestamp anywhere but first or last is NOT accepted as
one (non-vacuity of the first/last distinction; `decide` on a concrete list) -/
example : (Candle.fromList (F := Int) [.num (.int 1), .num (.int 2), .num (.int 3), .num (.int 4), .num (.int 5)]).toOption.map (·.ts)
    = some none := by decide

example : Fresh ({ o := .int 1, h := .int 2, l := .int 0, c := .int 1, v := .int 7, ts := some 60 } : Candle Int) := by
  simp [Fresh]

/-- **ISO-8601 string timestamps**: the ISO dict form decodes to the very same candles as every other encoding -/
theorem encodings_agree_iso (cs : List (Candle F)) (hf : ∀ c ∈ cs, Fresh c) :
    decodeAny (.valid (.dicts (cs.map encodeDictIso))) = .ok cs ∧
    decodeAny (.valid (.dicts (cs.map encodeDictIso))) = decodeAny (.valid (.candles cs)) ∧
    decodeAny (.valid (.dicts (cs.map encodeDictIso))) = decodeAny (.valid (.dicts (cs.map encodeDict))) :=
  Surf.encodings_agree_iso cs hf

theorem encodings_agree_iso_single (c : Candle F) (hf : Fresh c) :
    decodeAny (.valid (.dict (encodeDictIso c))) = .ok [c] ∧
    decodeAny (.valid (.dict (encodeDictIso c))) = decodeAny (.valid (.candle c)) :=
  Surf.encodings_agree_iso_single c hf

/-- foreign objects are `TypeError`s: nothing is decoded, nothing appended -/
theorem foreign_input_rejected :
    decodeAny (F := F) .otherObject = .error .typeError ∧ decodeAny (F := F) .listOfOther = .error .typeError :=
  Surf.decodeAny_foreign

/-- the read-only operations of the surface are functions of the state returning a value -/
def read_only_surface : Surf.ReadOnlySurface F := Surf.readOnlySurface F

/-- **`purge(name)` removes exactly the entries under `name`** (everything else, in order, is kept) -/
theorem purge_name_exact (m : Manager F) (name : String) :
    (m.purgeName name).cfg = m.cfg ∧
    (m.purgeName name).candles = m.candles.map (fun c =>
      { c with inds := c.inds.filter (fun p => p.1 ≠ name), subs := c.subs.filter (fun p => p.1 ≠ name) }) ∧
    AgreeOff [name] m.candles (m.purgeName name).candles ∧
    (∀ c ∈ (m.purgeName name).candles, dlookup name c.inds = none ∧ dlookup name c.subs = none) :=
  ⟨rfl, Surf.purgeName_candles m name, Surf.purgeName_agree m name, fun c hc => Surf.purgeName_removes m name c hc⟩

theorem purge_name_other_readings (m : Manager F) (name other : String) (hne : other ≠ name)
    (hp : (splitDot other).headD "" ≠ name) :
    (m.purgeName name).candles.map (fun c => readingByCandle c other) =
      m.candles.map (fun c => readingByCandle c other) := Surf.purgeName_other_readings m name other hne hp

/-- **the tag setter changes only the tag of one candle, or raises** -/
theorem tag_at_ok (m m' : Manager F) (i : Int) (h : m.tagAt i = .ok m') :
    ∃ hv : validIndex i m.candles.length = true,
      m'.cfg = m.cfg ∧ m'.candles.length = m.candles.length ∧
      (∀ j, j ≠ Surf.normIdx i m.candles.length → m'.candles[j]? = m.candles[j]?) ∧
      (m.candles[Surf.normIdx i m.candles.length]'(Surf.normIdx_lt _ _ hv)).tag = false ∧
      m'.candles[Surf.normIdx i m.candles.length]? =
        some (Surf.retag (m.candles[Surf.normIdx i m.candles.length]'(Surf.normIdx_lt _ _ hv))) ∧
      (∀ name, m'.candles.map (fun c => readingByCandle c name) = m.candles.map (fun c => readingByCandle c name)) :=
  Surf.tagAt_ok m m' i h

theorem tag_at_error (m : Manager F) (i : Int) (e : PyErr) (h : m.tagAt i = .error e) :
    e = .indexError ∨ e = .alreadyTagged := Surf.tagAt_error m i e h

/-- **`Candle.__eq__`**: what is compared, reflexivity without NaN, symmetry; the tag and clean values play no part -/
theorem candle_eq_iff (a b : Candle F) :
    a.pyEq (some b) = true ↔
      (a.o.eq b.o = true ∧ a.h.eq b.h = true ∧ a.l.eq b.l = true ∧ a.c.eq b.c = true ∧ a.v.eq b.v = true ∧
       a.ts = b.ts ∧ dictPyEq Val.pyEq a.inds b.inds = true ∧ dictPyEq Val.pyEq a.subs b.subs = true) :=
  Surf.candle_pyEq_iff a b
theorem candle_eq_refl (a : Candle F) (ha : Surf.CandleEqDomain a) : a.pyEq (some a) = true := Surf.candle_pyEq_refl a ha
theorem candle_eq_symm (hs : Surf.BeqSymm F) (a b : Candle F) (ha : Surf.CandleEqDomain a) (hb : Surf.CandleEqDomain b) :
    a.pyEq (some b) = b.pyEq (some a) := Surf.candle_pyEq_symm hs a b ha hb
theorem candle_eq_ignores_tag_clean (a b : Candle F) (t t' : Bool) (k k' : Option (Clean F)) :
    ({ a with tag := t, clean := k } : Candle F).pyEq (some { b with tag := t', clean := k' }) = a.pyEq (some b) := rfl

/-- **`CandleManager.__eq__`** compares exactly lifespan, timeframe string and fill -/
theorem manager_eq_iff (m m' : Manager F) (t t' : Option String) :
    (m.ident t).pyEq (some (m'.ident t')) = true ↔
      (m.cfg.lifespan = m'.cfg.lifespan ∧ t = t' ∧ m.cfg.fill = m'.cfg.fill) := Surf.manager_eq_iff m m' t t'

end Hex.C19

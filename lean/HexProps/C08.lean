import HexProofs.Writes.PropsLib
import HexProofs.Writes.TwinTf
import HexProofs.Facade.Settings
/-
C08 – Indicators inside a Hexital behave exactly like the same indicators standalone (every `F`).

Proved here:
  * base candles keep their OHLCV: no calculation (`calculate`, `calculate_index`, `purge`, `recalculate`,
    the calculation half of `append`, standalone or inside a Hexital) ever changes open / high / low / close /
    volume / timestamp / conversion tag / saved clean values of any candle, nor the number of candles;
  * a member of a Hexital IS a standalone indicator over its manager: `Hexital.calculate(name)` runs
    `Indicator.calculate()` of the standalone object made of the member's tree, the member's manager and the
    member's `_active_index`, stores the resulting manager back, and `reading_as_list(name)` is that object's
    `as_list()`.
  * `member_standalone`: a member WITHOUT its own timeframe, in a Hexital with any other members (any
    timeframes), under any program of `calculate / calculate_index / purge / recalculate / append /
    add_indicator / remove_indicator (of others)`, ends with
    the same collapsed candles and the same readings as the standalone indicator with the same tree
    constructed from the same candles and driven with the same program – provided the member's tree neither
    writes under nor can read a name of another member (read-set locality of all 28 kinds,
    `HexProofs/Writes/StripEngine.lean`; the candle manager never looks at readings, `StripManager.lean`).
  * members given as CONFIGURATION DICTS (model: `HexModel/Core/Settings.lean`, proofs:
    `HexProofs/Facade/Settings.lean`): `Hexital._build_indicator` applied to the dict an indicator's `settings`
    property returns rebuilds THE SAME OBJECT – class, every parameter, every public base field
    (`settings_roundtrip`), hence the same tree and name (`settings_same_tree`), the same manager
    configuration (`settings_same_manager`) and the same registered `Member` (`settings_same_member`, the
    thing `member_standalone` talks about) – for every one of the 27 shipped classes incl. `Amorph`, on the
    explicit decidable domain `IndCfg.Valid` (a validated timeframe string; `timeframe_fill` only with a
    timeframe; MACD periods ordered as `_validate_fields` leaves them; `Counter.count_value` not `None`;
    an `Amorph` over a function of `PATTERN_MAP | MOVEMENT_MAP` with distinct argument names).  Each
    exclusion is witnessed: `settings_lose_fill_without_timeframe`, `settings_unmapped_function`,
    `settings_lose_counter_none`.  For ANY dict the dict form is BY DEFINITION the keyword constructor of the
    class it names (`dict_is_constructor`, `dict_is_amorph`), and the error behaviour is as in the library:
    no usable "indicator" / "analysis" key → `InvalidAnalysis` (`dict_missing_key`, `dict_falsy_key`), a
    keyword the class does not have → `TypeError` (`dict_unknown_keyword`).
  * `members_with_timeframe` (= `members_all`, `HexProofs/Writes/TwinTf.lean`): the statement `members_FULL` below word
    for word for EVERY member – own timeframe or not – under every Hexital-level configuration (timeframe, gap filling,
    Heikin-Ashi, lifespan), any construction candles and any appended chunks, with these presuppositions made
    explicit: no collision / input dependency (`TreeOK N mem.tree`, the other members' names ⊆ `N`, as in
    `member_standalone`), members sharing a timeframe NAME carry the same seconds (`hsecs`), and the member's timeframe
    name is not the literal manager key "default".  Since the library's repair of `Hexital.__init__` (members with a
    timeframe of their own are built from `source_candles`, the candles AS GIVEN to the constructor – model
    `Hexital.attachFrom (some init)`) the member manager IS the standalone twin's manager by construction; the former
    counterexample (a Hexital-level lifespan trimming at construction time, `members_FULL_counterexample`) no longer
    holds and is kept as a positive example in `TwinTf.lean` (`TwinTfWitness`).
Stated, not proved as such (`members_FULL`, kept as a `def … : Prop`): the bare statement lacks the hypotheses just
listed (`TreeOK` / names ⊆ `N`, `hsecs`, the key condition); with them it is `members_with_timeframe`.  Still open:
members WITH a timeframe added LATE by `add_indicator` (their manager is still built from the default manager's
processed candles – `HandsOverRaw` in `TwinTf.lean`, part B; C13's `presence_FULL`).  Outside the settings
model (see its header): the `TimeFrame` enum / `timedelta` / `int` forms of `timeframe` (strings only, ASCII),
`str(multiplier)` in generated names (a parameter `mulStr` of `toInd`), values whose type differs from the
annotation, a `candles` keyword inside a dict.
-/
namespace Hex.C08
open Hex
variable {F : Type} [PyF F]

/-! ### base candles keep their OHLCV -/

/-- the standalone object: `calculate()` touches no OHLCV / timestamp / tag / clean values -/
theorem calculate_keeps_ohlcv (s s' : IndState F) (h : s.calculate = .ok s') :
    s'.mgr.candles.map Candle.core = s.mgr.candles.map Candle.core :=
  (IndState.calculate_local s s' h).agree.core_eq

theorem calculateIndex_keeps_ohlcv (s s' : IndState F) (start : Int) (end_ : Option Int)
    (h : s.calculateIndex start end_ = .ok s') :
    s'.mgr.candles.map Candle.core = s.mgr.candles.map Candle.core :=
  (IndState.calculateIndex_local s s' start end_ h).agree.core_eq

theorem recalculate_keeps_ohlcv (s s' : IndState F) (h : s.recalculate = .ok s') :
    s'.mgr.candles.map Candle.core = s.mgr.candles.map Candle.core :=
  (IndState.recalculate_local s s' h).agree.core_eq

/-- `Indicator.append`: the candles after the append are, OHLCV-wise, exactly what the candle manager
produced – the calculation that follows changes none of them -/
theorem append_keeps_ohlcv (s s' : IndState F) (new : List (Candle F)) (h : s.append new = .ok s') :
    ∃ m, s.mgr.append new = .ok m ∧ s'.mgr.candles.map Candle.core = m.candles.map Candle.core := by
  unfold IndState.append at h
  obtain ⟨m, hm, h⟩ := Writes.bind_ok h
  exact ⟨m, hm, (IndState.calculate_local _ s' h).agree.core_eq⟩

/-- `Hexital.calculate(name)` / `calculate()` -/
theorem hexital_calculate_keeps_ohlcv (h h' : Hexital F) (name : Option String)
    (hop : h.calculate name = .ok h') : SameBase h h' :=
  sameBase_of_agree (Hexital.calculate_all_agree h h' name hop)

/-- `Hexital.calculate_index(name, index)` -/
theorem hexital_calculateIndex_keeps_ohlcv (h h' : Hexital F) (name : Option String) (index : Int)
    (hop : h.calculateIndex name index = .ok h') : SameBase h h' :=
  sameBase_of_agree (Hexital.calculateIndex_all_agree h h' name index hop)

omit [PyF F] in
/-- `Hexital.purge(name)` -/
theorem hexital_purge_keeps_ohlcv (h h' : Hexital F) (name : Option String)
    (hop : h.purge name = .ok h') : SameBase h h' :=
  sameBase_of_agree (Hexital.purge_all_agree h h' name hop)

/-- `Hexital.append(candles)` = the managers' appends, then a calculation that keeps every OHLCV -/
theorem hexital_append_keeps_ohlcv (h h' : Hexital F) (new : List (Candle F))
    (hop : h.append new = .ok h') :
    ∃ h1, h.feedManagers new = .ok h1 ∧ SameBase h1 h' := by
  unfold Hexital.append at hop
  obtain ⟨h1, e1, e2⟩ := Writes.bind_ok hop
  exact ⟨h1, e1, hexital_calculate_keeps_ohlcv h1 h' none e2⟩

/-! ### a member is a standalone indicator over its manager -/

/-- the standalone object a member stands for -/
def memberState (hi : HxInd F) (m : Manager F) : IndState F := { tree := hi.tree, mgr := m, active := hi.active }

/-- **`Hexital.calculate` restricted to one member = `Indicator.calculate()` on that member's
manager.**  Running the member inside the Hexital succeeds exactly when the standalone object
succeeds, stores that object's manager under the member's manager key, its `_active_index` in the
registration, and touches nothing else. -/
theorem member_calculate (h : Hexital F) (name : String) (hi : HxInd F) (m : Manager F)
    (hl : dlookup name h.indicators = some hi) (hm : dlookup hi.mgrKey h.managers = some m) :
    h.withInd name IndState.calculate =
      (memberState hi m).calculate.map fun s' =>
        { h with managers := dset hi.mgrKey s'.mgr h.managers,
                 indicators := dset name { hi with active := s'.active } h.indicators } := by
  unfold Hexital.withInd Hexital.manager Hexital.setManager memberState
  rw [hl]
  dsimp only
  rw [hm]
  dsimp only [bind, Except.bind]
  generalize IndState.calculate ({ tree := hi.tree, mgr := m, active := hi.active } : IndState F) = r
  cases r <;> rfl

/-- `Hexital.calculate(name)` for a name registered once is exactly that -/
theorem calculate_one (h : Hexital F) (name : String) (hnd : (h.indicators.map (·.1)).Nodup)
    (hreg : name ∈ h.indicators.map (·.1)) :
    h.calculate (some name) = h.withInd name IndState.calculate :=
  Hexital.forEach_single h name IndState.calculate hnd hreg

/-- the column read through the Hexital is the standalone object's `as_list()` -/
theorem member_column (h h' : Hexital F) (name : String) (hi : HxInd F) (m : Manager F)
    (hl : dlookup name h.indicators = some hi) (hm : dlookup hi.mgrKey h.managers = some m)
    (hdot : (splitDot name).headD "" = name)
    (hw : h.withInd name IndState.calculate = .ok h') :
    ∃ s', (memberState hi m).calculate = .ok s' ∧
      h'.readingAsList name = .ok (s'.asList (some name)) := by
  rw [member_calculate h name hi m hl hm] at hw
  cases hs : (memberState hi m).calculate with
  | error e => rw [hs] at hw; cases hw
  | ok s' =>
    rw [hs] at hw
    refine ⟨s', rfl, ?_⟩
    cases hw
    unfold Hexital.readingAsList Hexital.manager IndState.asList
    dsimp only
    rw [hdot, dlookup_dset_self]
    dsimp only
    rw [dlookup_dset_self]
    rfl

/-! ### a member without its own timeframe = its standalone twin -/

/-- **Members on the default manager behave exactly like standalone indicators.**  `N` collects the
names of all other members; `TreeOK N a.tree` says that `a`'s tree writes under none of them and
that none of the names it reads can resolve to one of them (no collision, no input dependency).
`TwinOp.OK` only constrains `add_indicator` (other names, within `N`) and `remove_indicator` (not `a`). -/
theorem member_standalone (cfg : MgrCfg) (tf : Option String) (init : List (Candle F))
    (members : List (Member F)) (a : Member F) (N : List String) (ops : List (TwinOp F)) (H : Hexital F)
    (ha : a ∈ Hexital.dedupe members) (hatf : a.tfName = none)
    (hoth : ∀ m, m ∈ Hexital.dedupe members → m.tree.name ≠ a.tree.name → ∀ k, k ∈ m.tree.allNames → k ∈ N)
    (hok : TreeOK N a.tree) (hops : ∀ op, op ∈ ops → op.OK N a.tree.name)
    (hrun : runHexital cfg tf init members ops = .ok H) :
    ∃ twin, (do let s ← IndState.init a.tree cfg init
                ops.foldlM (TwinOp.runInd a.tree.name) s) = .ok twin ∧
      (∃ hi m, dlookup a.tree.name H.indicators = some hi ∧ hi.tree = a.tree ∧
        dlookup hi.mgrKey H.managers = some m ∧ m.cfg = twin.mgr.cfg ∧
        m.candles.map Candle.core = twin.mgr.candles.map Candle.core ∧
        ∀ k, k ∈ a.tree.allNames → storedUnder k m.candles = storedUnder k twin.mgr.candles) ∧
      (∀ name, (splitDot name).headD "" = a.tree.name → readOK N name = true →
        H.readingAsList name = .ok (twin.asList (some name))) := by
  obtain ⟨twin, hrun', ht, inv⟩ := member_twin cfg tf init members a ops H ha
    (fun m _ _ hne => absurd (by rw [hatf]; rfl) hne) hoth hok hops hrun
  unfold runTwin at hrun'
  rw [twinInit_of_none a hatf] at hrun'
  refine ⟨twin, hrun', ?_, fun name hp hr => inv.column name hp hr⟩
  obtain ⟨hi, m, h1, h2, h3, h4, h5, h6⟩ := inv.readings (ht ▸ hok)
  exact ⟨hi, m, h1, h2.trans ht, h3, h4, h5, fun k hk => h6 k (ht ▸ hk)⟩

/-! ### members given as configuration dicts (`Hexital(indicators=[{"indicator": "EMA", …}, …])`)

`Settings.IndCfg` = the public dataclass fields of an indicator object after `__post_init__`,
`IndCfg.settings` = its `settings` property (`Indicator.settings` / `Amorph.settings`),
`Settings.build` = `Hexital._build_indicator` + `indicator_class(**kwargs)` + `__post_init__`,
`IndCfg.toInd` / `IndCfg.mgrCfg` = the tree, generated name and `CandleManager` configuration the rest of
the model starts from. -/

section Dicts
open Settings

/-- the `Member` a `Hexital` registers for an indicator object: its tree (with the generated name), its own
timeframe as written (upper-cased by `__post_init__`) and in seconds (`Driver.parseMember` builds the same
record from protocol tokens) -/
def memberOf (c : IndCfg F) (mulStr : String) : PyM (Member F) := do
  let m ← c.mgrCfg
  return { tree := c.toInd mulStr, tfName := c.timeframe, tfSecs := m.tf }

/-- **`settings` determines the object.**  For every indicator object `c` in the domain `Valid`, the member
built by `Hexital._build_indicator` from the dict `c.settings` is `c` itself: same class, same parameters,
same `fullname_override / name_suffix / round_value / timeframe / timeframe_fill / candles_lifespan /
candlestick_type`.  No numeric hypothesis, every float carrier. -/
theorem settings_roundtrip (c : IndCfg F) (h : c.Valid) : build c.settings = .ok c :=
  build_settings c h

/-- … hence the same tree: same kind and parameters, same sub-indicator / managed children, same generated
name (whatever `str(multiplier)` prints: `mulStr`), same rounding -/
theorem settings_same_tree (c : IndCfg F) (h : c.Valid) (mulStr : String) :
    (build c.settings).map (fun c' => c'.toInd mulStr) = .ok (c.toInd mulStr) :=
  build_settings_toInd c h mulStr

/-- … the same `CandleManager` configuration (timeframe in seconds, fill, Heikin-Ashi, lifespan) – including
the case where the timeframe's digits do not parse: then both sides raise the same error -/
theorem settings_same_manager (c : IndCfg F) (h : c.Valid) :
    (build c.settings >>= fun c' => c'.mgrCfg) = c.mgrCfg :=
  build_settings_mgrCfg c h

/-- … and therefore the same registered `Member`: everything `member_standalone` (and `members_FULL`) say about
a member holds verbatim for the member given as the dict obtained from that indicator's `settings` -/
theorem settings_same_member (c : IndCfg F) (h : c.Valid) (mulStr : String) :
    (build c.settings >>= fun c' => memberOf c' mulStr) = memberOf c mulStr := by
  rw [build_settings c h]; rfl

/-- **The dict form IS the keyword constructor** (any dict, not only `settings`): a dict whose "indicator"
entry names a class of `INDICATOR_MAP` other than `Amorph` is built by calling that class with the remaining
entries as keyword arguments (unknown keyword → `TypeError`, binding with the class defaults,
`_validate_fields`, `__post_init__`) – `construct pc` is the same function a direct `EMA(period=…)` call runs. -/
theorem dict_is_constructor (d : SDict F) (name : String) (pc : PyClass F)
    (hname : dlookup "indicator" d = some (.str name)) (hne : name ≠ "") (hna : name ≠ "Amorph")
    (hmap : indicatorMap name = some pc) :
    build d = construct pc (derase "indicator" d) := by
  have ht : (SVal.str name : SVal F).truthy = true := by simp [SVal.truthy, hne]
  simp only [build, getTruthy, hname, Option.filter, ht, if_true, hna, if_false, hmap]

/-- … and a dict without a (truthy) "indicator" entry whose "analysis" entry names a function of
`PATTERN_MAP | MOVEMENT_MAP` is built by `Amorph(analysis=fn, **rest)` -/
theorem dict_is_amorph (d : SDict F) (name : String) (fn : AnaFn)
    (hind : getTruthy d "indicator" = none) (hname : dlookup "analysis" d = some (.str name)) (hne : name ≠ "")
    (hmap : AnaFn.ofMapKey name = some fn) :
    build d = constructAmorph fn (derase "analysis" d) := by
  have ht : (SVal.str name : SVal F).truthy = true := by simp [SVal.truthy, hne]
  simp only [build, hind]
  simp only [getTruthy, hname, Option.filter, ht, if_true, hmap]

/-- a dict with neither "indicator" nor "analysis": `InvalidAnalysis` -/
theorem dict_missing_key (d : SDict F) (h1 : dlookup "indicator" d = none) (h2 : dlookup "analysis" d = none) :
    build d = .error .invalidConfig :=
  build_missing_key d h1 h2

/-- … also when the keys are present but falsy (`if indicator.get("indicator")`: `None`, `""`, `0`, `{}`) -/
theorem dict_falsy_key (d : SDict F) (h1 : getTruthy d "indicator" = none) (h2 : getTruthy d "analysis" = none) :
    build d = .error .invalidConfig :=
  build_falsy_key d h1 h2

/-- a keyword that is neither an `init` field of `Indicator` nor a field of the named class: `TypeError`
(every class reached through "indicator"; an `Amorph` instead turns unknown keywords into analysis
arguments – see the `example`s at the end of `HexProofs/Facade/Settings.lean`) -/
theorem dict_unknown_keyword (d : SDict F) (name : String) (pc : PyClass F)
    (hname : dlookup "indicator" d = some (.str name)) (hne : name ≠ "") (hna : name ≠ "Amorph")
    (hmap : indicatorMap name = some pc)
    (k : String) (v : SVal F) (hk : (k, v) ∈ d) (hki : k ≠ "indicator") (hkn : k ∉ initKeys ++ pc.keys) :
    build d = .error .typeError :=
  build_unknown_keyword d name pc hname hne hna hmap k v hk hki hkn

/-! What `settings` does NOT determine – the three exclusions from `Valid`, each with its witness (the former
`Amorph` exclusions – falsy `round_value = 0`, `candles_lifespan = 0`, `name_suffix = ""` – disappeared with
library repair 1b1f95f and are inside `Valid` now). -/

/-- `Indicator.settings` skips `timeframe_fill` when there is no timeframe: the rebuilt object has the default
`False` (harmless: without a timeframe the flag is never read) -/
theorem settings_lose_fill_without_timeframe :
    let c : IndCfg F := { cls := .sma 10 "close", timeframe_fill := true }
    ¬ c.Valid ∧ build c.settings = .ok { c with timeframe_fill := false } :=
  fill_without_timeframe_counterexample

/-- an `Amorph` over a function that is in neither map (`above`, `below`, any user function) names it in its
settings, and such a dict cannot be built: `InvalidAnalysis` -/
theorem settings_unmapped_function :
    let c : IndCfg F := { cls := .amorph .above [("indicator", .str "close"), ("indicator_two", .str "open")] }
    ¬ c.Valid ∧ build c.settings = .error .invalidConfig :=
  amorph_unmapped_function_counterexample

/-- a public field holding `None` is not emitted: `Counter(count_value=None)` comes back with the class
default `True` -/
theorem settings_lose_counter_none :
    let c : IndCfg F := { cls := .counter "close" .none }
    ¬ c.Valid ∧ build c.settings = .ok { c with cls := .counter "close" (.bool true) } :=
  counter_none_counterexample

end Dicts

/-- **General statement** (a bare `Prop`; proved with its presuppositions: `members_with_timeframe` below).  For every
Hexital configuration, member set (any mix of timeframes), raw stream and append schedule: each member's manager holds
the same candles (OHLCV, timestamps, and the readings under the member's names) as a standalone indicator with the
same effective configuration – `cfg` with the member's own timeframe if it has one – constructed from the same initial
candles and fed the same chunks.

Status.  PROVED for EVERY member – with or without its own timeframe – and every Hexital-level timeframe / gap filling /
Heikin-Ashi / lifespan as `members_with_timeframe` (= `Hex.members_all`), which is this statement word for word plus
three explicit presuppositions: (1) no collision / no input dependency between the member and the others
(`TreeOK N mem.tree` and the other members' names ⊆ `N`, exactly as in `member_standalone`); (2) `hsecs`: members
sharing the member's timeframe NAME carry the same number of seconds (true of every parsed timeframe); (3) the member's
timeframe name is not the literal manager key "default".  As a bare `Prop` this `def` lacks (1)–(3) – two members
writing the same key, or two records with the same timeframe name and different seconds, falsify it – so it stays a
`def` and is not claimed.  The members may equally be given as configuration dicts: by `settings_same_member` the
`Member` registered for the dict `c.settings` is the `Member` of the object `c` (all 27 classes, domain
`IndCfg.Valid`, exclusions witnessed), and by `dict_is_constructor` / `dict_is_amorph` ANY dict is built by the very
keyword constructor a direct call runs.
History.  Before the library's Heikin-Ashi repair the statement was false for Heikin-Ashi + a member timeframe (the
member manager was built from already converted candles); before the repair of `Hexital.__init__` (`source_candles`)
it was false for a Hexital-level lifespan that trims at construction time (the member manager was built from the
default manager's trimmed candles: the former `members_FULL_counterexample`, now the positive example
`Hex.TwinTfWitness`) and unproved for a Hexital-level timeframe next to a different member timeframe (collapsing twice).
Now the constructor builds every member manager from the candles as given, so the member manager IS the twin's.
What remains open concerns only members with a timeframe added LATE by `add_indicator` (C13 `presence_FULL`). -/
def members_FULL : Prop :=
  ∀ {F : Type} [PyF F] (cfg : MgrCfg) (tfName : Option String) (members : List (Member F))
    (init : List (Candle F)) (chunks : List (List (Candle F))) (mem : Member F) (h : Hexital F)
    (twin : IndState F),
    mem ∈ members → (∀ m' ∈ members, m'.tree.name = mem.tree.name → m' = mem) →
    (do let h ← Hexital.init cfg tfName init members
        let h ← h.calculate none
        chunks.foldlM (fun (h : Hexital F) ch => h.append ch) h) = .ok h →
    (do let s ← IndState.init mem.tree (match mem.tfName with
                                          | some _ => { cfg with tf := mem.tfSecs }
                                          | none => cfg) init
        let s ← s.calculate
        chunks.foldlM (fun (s : IndState F) ch => s.append ch) s) = .ok twin →
    ∃ hi m, dlookup mem.tree.name h.indicators = some hi ∧ dlookup hi.mgrKey h.managers = some m ∧
      m.candles.map Candle.core = twin.mgr.candles.map Candle.core ∧
      ∀ k, k ∈ mem.tree.allNames →
        m.candles.map (fun c => (dlookup k c.inds, dlookup k c.subs)) =
        twin.mgr.candles.map (fun c => (dlookup k c.inds, dlookup k c.subs))

/-- **`members_FULL` for every member, with its presuppositions** (= `Hex.members_all`).  `hoth` / `hok`: no
collision, no input dependency; `hsecs`: one timeframe name, one number of seconds; `hkey`: the timeframe name is not
the manager key "default".  Every Hexital-level timeframe / fill / Heikin-Ashi / lifespan, any construction candles,
any chunks. -/
theorem members_with_timeframe (cfg : MgrCfg) (tfName : Option String) (members : List (Member F))
    (init : List (Candle F)) (chunks : List (List (Candle F))) (mem : Member F) (h : Hexital F)
    (twin : IndState F) (N : List String)
    (hmem : mem ∈ members) (huniq : ∀ m' ∈ members, m'.tree.name = mem.tree.name → m' = mem)
    (hoth : ∀ m, m ∈ members → m.tree.name ≠ mem.tree.name → ∀ k, k ∈ m.tree.allNames → k ∈ N)
    (hok : TreeOK N mem.tree)
    (hsecs : ∀ m, m ∈ members → m.tfName = mem.tfName → m.tfSecs = mem.tfSecs)
    (hkey : mem.tfName ≠ some defaultKey)
    (hrun : (do let h ← Hexital.init cfg tfName init members
                let h ← h.calculate none
                chunks.foldlM (fun (h : Hexital F) ch => h.append ch) h) = .ok h)
    (htwin : (do let s ← IndState.init mem.tree (match mem.tfName with
                                                   | some _ => { cfg with tf := mem.tfSecs }
                                                   | none => cfg) init
                 let s ← s.calculate
                 chunks.foldlM (fun (s : IndState F) ch => s.append ch) s) = .ok twin) :
    ∃ hi m, dlookup mem.tree.name h.indicators = some hi ∧ dlookup hi.mgrKey h.managers = some m ∧
      m.candles.map Candle.core = twin.mgr.candles.map Candle.core ∧
      ∀ k, k ∈ mem.tree.allNames →
        m.candles.map (fun c => (dlookup k c.inds, dlookup k c.subs)) =
        twin.mgr.candles.map (fun c => (dlookup k c.inds, dlookup k c.subs)) :=
  members_all cfg tfName members init chunks mem h twin N hmem huniq hoth hok hsecs hkey hrun htwin

/-- `members_FULL` restricted to WELL-FORMED member lists (`hwf`: for every member, the names of the others lie in some
`N` for which the member's tree is `TreeOK`; a timeframe name determines its seconds; no timeframe is called
"default"): binders and conclusion of `members_FULL`, no other hypothesis -/
theorem members_FULL_of_presuppositions (cfg : MgrCfg) (tfName : Option String) (members : List (Member F))
    (hwf : ∀ mem ∈ members, mem.tfName ≠ some defaultKey ∧
      (∀ m, m ∈ members → m.tfName = mem.tfName → m.tfSecs = mem.tfSecs) ∧
      ∃ N, TreeOK N mem.tree ∧ ∀ m, m ∈ members → m.tree.name ≠ mem.tree.name → ∀ k, k ∈ m.tree.allNames → k ∈ N)
    (init : List (Candle F)) (chunks : List (List (Candle F))) (mem : Member F) (h : Hexital F) (twin : IndState F)
    (hmem : mem ∈ members) (huniq : ∀ m' ∈ members, m'.tree.name = mem.tree.name → m' = mem)
    (hrun : (do let h ← Hexital.init cfg tfName init members
                let h ← h.calculate none
                chunks.foldlM (fun (h : Hexital F) ch => h.append ch) h) = .ok h)
    (htwin : (do let s ← IndState.init mem.tree (match mem.tfName with
                                                   | some _ => { cfg with tf := mem.tfSecs }
                                                   | none => cfg) init
                 let s ← s.calculate
                 chunks.foldlM (fun (s : IndState F) ch => s.append ch) s) = .ok twin) :
    ∃ hi m, dlookup mem.tree.name h.indicators = some hi ∧ dlookup hi.mgrKey h.managers = some m ∧
      m.candles.map Candle.core = twin.mgr.candles.map Candle.core ∧
      ∀ k, k ∈ mem.tree.allNames →
        m.candles.map (fun c => (dlookup k c.inds, dlookup k c.subs)) =
        twin.mgr.candles.map (fun c => (dlookup k c.inds, dlookup k c.subs)) := by
  obtain ⟨hkey, hsecs, N, hok, hoth⟩ := hwf mem hmem
  exact members_with_timeframe cfg tfName members init chunks mem h twin N hmem huniq hoth hok hsecs hkey hrun htwin

/-! ### non-vacuity (toy carrier `Int`) -/

section Examples

def exCandle (c : Int) : Candle Int :=
  { o := .int c, h := .int (c + 2), l := .int (c - 1), c := .int (c + 1), v := .int 10 }

def exCandles : List (Candle Int) := [exCandle 10, exCandle 12, exCandle 11, exCandle 15, exCandle 14, exCandle 13]

def exA : Member Int := { tree := mkTop (.sma 2 "close") "SMA_2" 4, tfName := none, tfSecs := none }
def exB : Member Int := { tree := mkTop (.rsi 2 "close") "RSI_2" 4, tfName := none, tfSecs := none }

/-- `SMA_2` is calculated, `RSI_2` not yet: the candles carry the foreign key `SMA_2` -/
def exHex : PyM (Hexital Int) := do
  let h ← Hexital.init {} none exCandles [exA, exB]
  h.calculate (some "SMA_2")

/-- hypotheses of `member_calculate`, `calculate_one`, `member_column` and of the `keeps_ohlcv` theorems:
both members registered once on the default manager, names without a dot, every operation succeeds;
and the column computed for `RSI_2` is not empty -/
example : (match exHex with
    | .ok h =>
      (dlookup "RSI_2" h.indicators).any (fun hi => hi.mgrKey == "default") &&
      (dlookup "default" h.managers).isSome &&
      h.indicators.map (·.1) == ["SMA_2", "RSI_2"] &&
      (splitDot "RSI_2").headD "" == "RSI_2" &&
      isOk (h.withInd "RSI_2" IndState.calculate) && isOk (h.calculate none) &&
      isOk (h.calculateIndex none 2) && isOk (h.purge none) && isOk (h.append [exCandle 16]) &&
      (match h.calculate (some "RSI_2") with
       | .ok h' => (match h'.readingAsList "RSI_2" with
                    | .ok l => l.map Val.isNone == [true, true, false, false, false, false]
                    | .error _ => false)
       | .error _ => false)
    | .error _ => false) = true := by decide +kernel

/-- hypotheses of `member_standalone`: `SMA_2` next to the composite `RSI_2` (names `RSI_2`, `RSI_2_data`),
a program mixing appends with maintenance aimed at everything, at the member and at the other member -/
def exOps : List (TwinOp Int) :=
  [.calculate none, .append [exCandle 16, exCandle 12], .purge (some "RSI_2"), .calculateIndex none 3,
   .recalculate (some "SMA_2"), .append [exCandle 18], .calculate (some "RSI_2"), .remove (some "RSI_2"),
   .add [exB], .calculate none]

example : (exA ∈ Hexital.dedupe [exB, exA] ∧ exA.tfName = none) ∧
    treeOKb exB.tree.allNames exA.tree = true ∧
    exOps.all (TwinOp.okb exB.tree.allNames "SMA_2") = true ∧
    isOk (runHexital {} none exCandles [exB, exA] exOps) = true ∧
    (match runTwin exA {} none exCandles exOps with
     | .ok twin => (twin.asList none).map Val.isNone
     | .error _ => []) = [true, false, false, false, false, false, false, false, false] := by
  refine ⟨⟨?_, rfl⟩, ?_, ?_, ?_, ?_⟩
  · simp [Hexital.dedupe, exA, exB, mkTop, Ind.name, dset]
  all_goals decide +kernel

/-- the dict forms.  `RSI(period=2)` as an object (`exB` is its member: `fullName … = "RSI_2"` by `#eval`;
`String.replace` in `_internal_generate_name` does not reduce in the kernel, so the name stays symbolic here):
it is in `Valid`, its `settings` are the dict written out, building that dict gives the object back and
registers its member -/
def exCfgB : Settings.IndCfg Int := { cls := .rsi 2 "close" }

example : exCfgB.Valid ∧
    exCfgB.settings
      = [("indicator", .str "RSI"), ("round_value", .int 4), ("period", .int 2), ("input_value", .str "close")] ∧
    Settings.build exCfgB.settings = .ok exCfgB ∧
    (Settings.build exCfgB.settings >>= fun c => memberOf c "")
      = .ok { tree := mkTop (.rsi 2 "close") (fullName (.rsi 2 "close" : Kind Int) {}) 4,
              tfName := none, tfSecs := none } := by
  refine ⟨by decide, rfl, settings_roundtrip _ (by decide), ?_⟩
  rw [settings_same_member _ (by decide)]; rfl

/-- an object with every kind of base field set (timeframe + fill, Heikin-Ashi, suffix) and an `Amorph`:
both in `Valid`; tree and manager configuration survive the round trip -/
def exCfgT : Settings.IndCfg Int :=
  { cls := .ema "close" 3 (.int 2), timeframe := some "T5", timeframe_fill := true, candlestick_type := some .ha,
    name_suffix := some "x" }

def exCfgA : Settings.IndCfg Int :=
  { cls := .amorph .rising [("indicator", .str "close"), ("length", .int 3)], round_value := 0 }

example : exCfgT.Valid ∧
    exCfgT.settings
      = [("indicator", .str "EMA"), ("name_suffix", .str "x"), ("round_value", .int 4), ("timeframe", .str "T5"),
         ("timeframe_fill", .bool true), ("candlestick_type", .str "HA"), ("input_value", .str "close"),
         ("period", .int 3), ("smoothing", .int 2)] ∧
    (Settings.build exCfgT.settings).map (fun c => c.toInd "") = .ok (exCfgT.toInd "") ∧
    (Settings.build exCfgT.settings >>= fun c => c.mgrCfg) = exCfgT.mgrCfg :=
  ⟨by decide, rfl, settings_same_tree _ (by decide) "", settings_same_manager _ (by decide)⟩

example : exCfgA.Valid ∧
    exCfgA.settings = [("analysis", .str "rising"), ("round_value", .int 0),
      ("args", .dict [("indicator", .str "close"), ("length", .int 3)])] ∧
    Settings.build exCfgA.settings = .ok exCfgA :=
  ⟨by decide, rfl, settings_roundtrip _ (by decide)⟩

/-- hypotheses of `dict_is_constructor` / `dict_unknown_keyword` / `dict_is_amorph` / `dict_missing_key` /
`dict_falsy_key` on hand-written dicts (defaults filled in, MACD periods reordered, a misspelt keyword) -/
example : Settings.build ([("indicator", .str "MACD"), ("fast_period", .int 30)] : Settings.SDict Int)
    = Settings.construct Settings.clsMACD [("fast_period", .int 30)] ∧
    Settings.construct Settings.clsMACD ([("fast_period", .int 30)] : Settings.SDict Int)
      = .ok { cls := .macd 26 30 9 "close" } :=
  ⟨dict_is_constructor _ "MACD" Settings.clsMACD rfl (by decide) (by decide) rfl, rfl⟩

example : Settings.build ([("indicator", .str "EMA"), ("perod", .int 3)] : Settings.SDict Int) = .error .typeError :=
  dict_unknown_keyword _ "EMA" Settings.clsEMA rfl (by decide) (by decide) rfl "perod" (.int 3) (by simp) (by decide)
    (by decide)

example : Settings.build ([("analysis", .str "doji"), ("round_value", .int 2)] : Settings.SDict Int)
    = Settings.constructAmorph .doji [("round_value", .int 2)] :=
  dict_is_amorph _ "doji" .doji rfl rfl (by decide) rfl

example : Settings.build ([("period", .int 3)] : Settings.SDict Int) = .error .invalidConfig :=
  dict_missing_key _ rfl rfl

example : Settings.build ([("indicator", .str ""), ("analysis", .none)] : Settings.SDict Int) = .error .invalidConfig :=
  dict_falsy_key _ rfl rfl

/-- hypotheses of `members_with_timeframe` on a concrete Hexital (`Hex.TwinTfEx`): Hexital-level timeframe `T1` with gap
filling and a 5-minute lifespan that trims at construction time (14 half-minute candles = 7 minutes; the default
manager keeps 6 of 7 buckets, `hyps1_nontrivial`), members `RSI_2_T2`, `SMA_2` (no timeframe), `SMA_2_T2` (T2 = 120 s)
and `EMA_2_T3` (T3 = 180 s), five appended chunks (one empty).  Both the `T2` member and the `T3` member end with the
candles and readings of their standalone twins (which do have readings, `hyps1_nontrivial`). -/
example : ∃ h tw2 tw3 hi2 m2 hi3 m3, TwinTfEx.run1 = .ok h ∧
    TwinTfEx.twinOf TwinTfEx.aT = .ok tw2 ∧ TwinTfEx.twinOf TwinTfEx.cT = .ok tw3 ∧
    dlookup "SMA_2_T2" h.indicators = some hi2 ∧ dlookup hi2.mgrKey h.managers = some m2 ∧
    m2.candles.map Candle.core = tw2.mgr.candles.map Candle.core ∧
    storedUnder "SMA_2_T2" m2.candles = storedUnder "SMA_2_T2" tw2.mgr.candles ∧
    dlookup "EMA_2_T3" h.indicators = some hi3 ∧ dlookup hi3.mgrKey h.managers = some m3 ∧
    m3.candles.map Candle.core = tw3.mgr.candles.map Candle.core ∧
    storedUnder "EMA_2_T3" m3.candles = storedUnder "EMA_2_T3" tw3.mgr.candles := by
  obtain ⟨hnd, ⟨a1, a2, a3⟩, ⟨c1, c2, c3⟩, h7, h8, h9⟩ := TwinTfEx.hyps1
  obtain ⟨h, hh⟩ := isOk_ok h7
  obtain ⟨tw2, ht2⟩ := isOk_ok h8
  obtain ⟨tw3, ht3⟩ := isOk_ok h9
  have hm2 : TwinTfEx.aT ∈ TwinTfEx.members := by simp [TwinTfEx.members]
  have hm3 : TwinTfEx.cT ∈ TwinTfEx.members := by simp [TwinTfEx.members]
  obtain ⟨hi2, m2, p1, p2, p3, p4⟩ := members_with_timeframe TwinTfEx.cfg1 (some "T1") TwinTfEx.members
    TwinTfEx.init1 TwinTfEx.chunks TwinTfEx.aT h tw2 TwinTfEx.others
    hm2 (Member.uniq_of_nodup _ _ hm2 hnd) (Member.others_of_b _ _ _ a1) (treeOK_of_b a2)
    (Member.secs_of_b _ _ a3) (by decide) hh ht2
  obtain ⟨hi3, m3, q1, q2, q3, q4⟩ := members_with_timeframe TwinTfEx.cfg1 (some "T1") TwinTfEx.members
    TwinTfEx.init1 TwinTfEx.chunks TwinTfEx.cT h tw3 TwinTfEx.others3
    hm3 (Member.uniq_of_nodup _ _ hm3 hnd) (Member.others_of_b _ _ _ c1) (treeOK_of_b c2)
    (Member.secs_of_b _ _ c3) (by decide) hh ht3
  exact ⟨h, tw2, tw3, hi2, m2, hi3, m3, hh, ht2, ht3, p1, p2, p3, p4 "SMA_2_T2" (by decide),
    q1, q2, q3, q4 "EMA_2_T3" (by decide)⟩

end Examples

end Hex.C08

import HexProofs.Access.Basic
import HexModel.Core.Hexital
import HexProofs.Lib.IntInst
/-
C20 – All ways of asking for a reading give the same answer.
Every theorem holds for an arbitrary float carrier `F`.
-/
namespace Hex.C20
open Hex
variable {F : Type} [PyF F]

/-- **Direct inspection.**  `Indicator.reading(name, index)` is `reading_by_candle` of the candle
Python indexing selects. -/
theorem reading_is_candle_lookup (x : Ctx F) (name : String) (i : Int) (c : Candle F)
    (h : pyIndex x.cs i = .ok c) : x.reading name (some i) = .ok (readingByCandle c name) := by
  simp [Ctx.reading, h, bind, Except.bind, pure, Except.pure]

/-- **Positive and negative indices address the same candle** (`reading`). -/
theorem reading_negative_index (x : Ctx F) (name : String) (i : Int) (h0 : 0 ≤ i) (h1 : i < x.cs.length) :
    x.reading name (some (i - x.cs.length)) = x.reading name (some i) := by
  simp only [Ctx.reading, Option.getD_some]
  rw [pyIndex_neg x.cs i h0 h1]

/-- the same for the module-level `reading_by_index` used by `Hexital.reading` -/
theorem readingByIndex_negative_index (cs : List (Candle F)) (name : String) (i : Int)
    (h0 : 0 ≤ i) (h1 : i < cs.length) :
    readingByIndex cs name (i - cs.length) = readingByIndex cs name i := by
  unfold readingByIndex
  have v1 : validIndex (i - cs.length) cs.length = true := by simp [validIndex]; omega
  have v2 : validIndex i cs.length = true := by simp [validIndex]; omega
  rw [v1, v2, pyIndex_neg cs i h0 h1]

/-- `reading_by_index` at a valid non-negative index is direct inspection of that candle -/
theorem readingByIndex_is_candle_lookup (cs : List (Candle F)) (name : String) (i : Nat) (c : Candle F)
    (h : cs[i]? = some c) : readingByIndex cs name (i : Int) = readingByCandle c name := by
  have hi : i < cs.length := by
    rcases Nat.lt_or_ge i cs.length with h' | h'
    · exact h'
    · rw [List.getElem?_eq_none h'] at h; cases h
  have v : validIndex (i : Int) cs.length = true := by simp [validIndex]; omega
  unfold readingByIndex
  rw [v, pyIndex_nonneg cs (i : Int) (by omega)]
  simp [h, getOrIndexError]

/-- **as_list.**  Position `i` of `as_list(name)` is direct inspection of candle `i`. -/
theorem as_list_is_candle_lookup (s : IndState F) (name : String) (i : Nat) (c : Candle F)
    (h : s.mgr.candles[i]? = some c) : (s.asList (some name))[i]? = some (readingByCandle c name) := by
  simp [IndState.asList, List.getElem?_map, h]

/-- `as_list` and `reading` agree at every position -/
theorem as_list_eq_reading (s : IndState F) (name : String) (i : Nat) (c : Candle F)
    (h : s.mgr.candles[i]? = some c) :
    s.ctx.reading name (some (i : Int)) = .ok (readingByCandle c name) ∧
    (s.asList (some name))[i]? = some (readingByCandle c name) := by
  refine ⟨?_, as_list_is_candle_lookup s name i c h⟩
  apply reading_is_candle_lookup
  rw [pyIndex_nonneg _ (i : Int) (by omega)]
  simp [IndState.ctx, h, getOrIndexError]

/-- **prev_reading** is the reading one candle before the active index. -/
theorem prev_reading_is_reading (x : Ctx F) (name : String) (hne : x.cs.length ≠ 0) (hi : x.i ≠ 0) :
    x.prevReading name = x.reading name (some (x.i - 1)) := by
  unfold Ctx.prevReading
  have a : (x.cs.length == 0) = false := by simp [hne]
  have b : (x.i == 0) = false := by simp [hi]
  simp [a, b]

/-- **has_reading (Hexital)** is true exactly when the latest reading is not `None`. -/
theorem hexital_has_reading_iff (h : Hexital F) (name : String) (v : Val F)
    (hr : h.reading name (-1) = .ok v) : h.hasReading name = .ok (!v.isNone) := by
  simp [Hexital.hasReading, hr, bind, Except.bind, pure, Except.pure]

/-- a reading of `0`, `0.0` or `False` counts as present -/
theorem zero_and_false_are_present (x : F) :
    (Val.int (F := F) 0).isNone = false ∧ (Val.flt x).isNone = false ∧ (Val.bool (F := F) false).isNone = false := by
  simp [Val.isNone]

/-- **has_reading (Indicator)** is true exactly when the reading at the active index is not `None`. -/
theorem indicator_has_reading_iff (s : IndState F) (v : Val F) (hne : s.mgr.candles.isEmpty = false)
    (hr : s.ctx.reading s.tree.name (some s.active) = .ok v) : s.hasReading = .ok (!v.isNone) := by
  simp [IndState.hasReading, hne, hr, bind, Except.bind, pure, Except.pure]

/-- **Hexital.reading** prefers the default manager: a non-`None` reading there is the answer. -/
theorem hexital_reading_default (h : Hexital F) (name : String) (idx : Int) (dm : Manager F)
    (hd : h.manager defaultKey = .ok dm) (hv : (readingByIndex dm.candles name idx).isNone = false) :
    h.reading name idx = .ok (readingByIndex dm.candles name idx) := by
  simp [Hexital.reading, hd, hv, bind, Except.bind, pure, Except.pure]

/-- **reading_count** is the length of the trailing run of candles that have a reading: it counts
`k` candles when the last `k` all have one and the candle before them (if any) has none. -/
theorem reading_count_spec (pre run : List (Candle F)) (name : String)
    (hrun : ∀ c ∈ run, (readingByCandle c name).isNone = false)
    (hpre : ∀ c, pre.getLast? = some c → (readingByCandle c name).isNone = true) :
    readingCount (pre ++ run) name = run.length := by
  unfold readingCount
  rw [List.reverse_append]
  have h1 : (run.reverse.takeWhile fun c => !(readingByCandle c name).isNone) = run.reverse := by
    have : ∀ (l : List (Candle F)), (∀ c ∈ l, (readingByCandle c name).isNone = false) →
        (l.takeWhile fun c => !(readingByCandle c name).isNone) = l := by
      intro l; induction l with
      | nil => intro _; rfl
      | cons a r ih =>
        intro h
        simp only [List.takeWhile_cons, h a (by simp), Bool.not_false, if_true]
        rw [ih (fun c hc => h c (by simp [hc]))]
    exact this _ (fun c hc => hrun c (List.mem_reverse.1 hc))
  rw [List.takeWhile_append]
  rw [h1]
  simp only [List.length_reverse, if_true]
  cases hp : pre.reverse with
  | nil => simp
  | cons c r =>
    have : pre.getLast? = some c := by
      have := congrArg List.head? hp
      simpa [List.head?_reverse] using this
    simp [List.takeWhile_cons, hpre c this]

/-! non-vacuity: a stored `0` is present, an absent key is `None` -/
def demoCandle : Candle Int :=
  { o := .int 1, h := .int 1, l := .int 1, c := .int 1, v := .int 0, inds := [("COUNT_x", Val.int 0)] }
example : ((dlookup "COUNT_x" demoCandle.inds).map Val.isNone) = some false := by decide
example : dlookup "COUNT_y" demoCandle.inds = none := by decide

end Hex.C20

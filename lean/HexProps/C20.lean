import HexProofs.Access.Basic
import HexProofs.Access.SurfaceHexital
import HexProofs.Access.SurfaceEq
import HexModel.Core.Hexital
import HexProofs.Lib.IntInst
/-
C20 – All ways of asking for a reading give the same answer.
Every theorem holds for an arbitrary float carrier `F`.
Since round 6 the modelled surface (HexModel/Core/Surface.lean, tied by the correspondence) and this file also cover
`Indicator.read_candle` (`read_candle_*`), `Hexital.indicator` and the EXACT rule of `Hexital.reading` across managers
(`hexital_reading_spec`: the first non-None value, default manager first; `hexital_reading_eq_indicator` with its necessary side
condition – witness: the candle field `volume` on two managers), `reading(name, None)` (`hexital_reading_none_index`: always None on
the Hexital, the latest candle on the member object – the one statement I had guessed wrong), `utils.indexing`
(`valid_index_iff`, `validate_index_iff`, `absindex_iff`) and `find_indicator` (`find_indicator_iff`: TRUTHINESS of the reading, so a
series of zeros is "not found": `find_indicator_misses_falsy_series`).
-/
namespace Hex.C20
open Hex
variable {F : Type} [PyF F]

/-- **Direct inspection.**  `Indicator.reading(name, index)` is `reading_by_candle` of the candle
Python indexing selects. -/
theorem reading_is_candle_lookup (x : Ctx F) (name : String) (i : Int) (c : Candle F)
    (h : pyIndex x.cs i = .ok c) : x.reading name (some i) = .ok (readingByCandle c name) := by
  simp [Ctx.reading, h, bind, Except.bind, pure, Except.pure]

/-- **Positive and negative indices address the same candle** (`reading`). -/
theorem reading_negative_index (x : Ctx F) (name : String) (i : Int) (h0 : 0 ≤ i) (h1 : i < x.cs.length) :
    x.reading name (some (i - x.cs.length)) = x.reading name (some i) := by
  simp only [Ctx.reading, Option.getD_some]
  rw [pyIndex_neg x.cs i h0 h1]

/-- the same for the module-level `reading_by_index` used by `Hexital.reading` -/
theorem readingByIndex_negative_index (cs : List (Candle F)) (name : String) (i : Int)
    (h0 : 0 ≤ i) (h1 : i < cs.length) :
    readingByIndex cs name (i - cs.length) = readingByIndex cs name i := by
  unfold readingByIndex
  have v1 : validIndex (i - cs.length) cs.length = true := by simp [validIndex]; omega
  have v2 : validIndex i cs.length = true := by simp [validIndex]; omega
  rw [v1, v2, pyIndex_neg cs i h0 h1]

/-- `reading_by_index` at a valid non-negative index is direct inspection of that candle -/
theorem readingByIndex_is_candle_lookup (cs : List (Candle F)) (name : String) (i : Nat) (c : Candle F)
    (h : cs[i]? = some c) : readingByIndex cs name (i : Int) = readingByCandle c name := by
  have hi : i < cs.length := by
    rcases Nat.lt_or_ge i cs.length with h' | h'
    · exact h'
    · rw [List.getElem?_eq_none h'] at h; cases h
  have v : validIndex (i : Int) cs.length = true := by simp [validIndex]; omega
  unfold readingByIndex
  rw [v, pyIndex_nonneg cs (i : Int) (by omega)]
  simp [h, getOrIndexError]

/-- **as_list.**  Position `i` of `as_list(name)` is direct inspection of candle `i`. -/
theorem as_list_is_candle_lookup (s : IndState F) (name : String) (i : Nat) (c : Candle F)
    (h : s.mgr.candles[i]? = some c) : (s.asList (some name))[i]? = some (readingByCandle c name) := by
  simp [IndState.asList, List.getElem?_map, h]

/-- `as_list` and `reading` agree at every position -/
theorem as_list_eq_reading (s : IndState F) (name : String) (i : Nat) (c : Candle F)
    (h : s.mgr.candles[i]? = some c) :
    s.ctx.reading name (some (i : Int)) = .ok (readingByCandle c name) ∧
    (s.asList (some name))[i]? = some (readingByCandle c name) := by
  refine ⟨?_, as_list_is_candle_lookup s name i c h⟩
  apply reading_is_candle_lookup
  rw [pyIndex_nonneg _ (i : Int) (by omega)]
  simp [IndState.ctx, h, getOrIndexError]

/-- **prev_reading** is the reading one candle before the active index. -/
theorem prev_reading_is_reading (x : Ctx F) (name : String) (hne : x.cs.length ≠ 0) (hi : x.i ≠ 0) :
    x.prevReading name = x.reading name (some (x.i - 1)) := by
  unfold Ctx.prevReading
  have a : (x.cs.length == 0) = false := by simp [hne]
  have b : (x.i == 0) = false := by simp [hi]
  simp [a, b]

/-- **prev_reading at the first candle is `None`** – it never wraps round to the newest candle (index `-1`), whatever that candle
holds; likewise on an empty list. -/
theorem prev_reading_at_zero (x : Ctx F) (name : String) (h : x.cs.length = 0 ∨ x.i = 0) :
    x.prevReading name = .ok .none := by
  unfold Ctx.prevReading
  rcases h with h | h <;> simp [h]

/-- **has_reading (Hexital)** is true exactly when the latest reading is not `None`. -/
theorem hexital_has_reading_iff (h : Hexital F) (name : String) (v : Val F)
    (hr : h.reading name (-1) = .ok v) : h.hasReading name = .ok (!v.isNone) := by
  simp [Hexital.hasReading, hr, bind, Except.bind, pure, Except.pure]

/-- a reading of `0`, `0.0` or `False` counts as present -/
theorem zero_and_false_are_present (x : F) :
    (Val.int (F := F) 0).isNone = false ∧ (Val.flt x).isNone = false ∧ (Val.bool (F := F) false).isNone = false := by
  simp [Val.isNone]

/-- **has_reading (Indicator)** is true exactly when the reading at the active index is not `None`. -/
theorem indicator_has_reading_iff (s : IndState F) (v : Val F) (hne : s.mgr.candles.isEmpty = false)
    (hr : s.ctx.reading s.tree.name (some s.active) = .ok v) : s.hasReading = .ok (!v.isNone) := by
  simp [IndState.hasReading, hne, hr, bind, Except.bind, pure, Except.pure]

/-- **Hexital.reading** prefers the default manager: a non-`None` reading there is the answer. -/
theorem hexital_reading_default (h : Hexital F) (name : String) (idx : Int) (dm : Manager F)
    (hd : h.manager defaultKey = .ok dm) (hv : (readingByIndex dm.candles name idx).isNone = false) :
    h.reading name idx = .ok (readingByIndex dm.candles name idx) := by
  simp [Hexital.reading, hd, hv, bind, Except.bind, pure, Except.pure]

/-- **reading_count** is the length of the trailing run of candles that have a reading: it counts
`k` candles when the last `k` all have one and the candle before them (if any) has none. -/
theorem reading_count_spec (pre run : List (Candle F)) (name : String)
    (hrun : ∀ c ∈ run, (readingByCandle c name).isNone = false)
    (hpre : ∀ c, pre.getLast? = some c → (readingByCandle c name).isNone = true) :
    readingCount (pre ++ run) name = run.length := by
  unfold readingCount
  rw [List.reverse_append]
  have h1 : (run.reverse.takeWhile fun c => !(readingByCandle c name).isNone) = run.reverse := by
    have : ∀ (l : List (Candle F)), (∀ c ∈ l, (readingByCandle c name).isNone = false) →
        (l.takeWhile fun c => !(readingByCandle c name).isNone) = l := by
      intro l; induction l with
      | nil => intro _; rfl
      | cons a r ih =>
        intro h
        simp only [List.takeWhile_cons, h a (by simp), Bool.not_false, if_true]
        rw [ih (fun c hc => h c (by simp [hc]))]
    exact this _ (fun c hc => hrun c (List.mem_reverse.1 hc))
  rw [List.takeWhile_append]
  rw [h1]
  simp only [List.length_reverse, if_true]
  cases hp : pre.reverse with
  | nil => simp
  | cons c r =>
    have : pre.getLast? = some c := by
      have := congrArg List.head? hp
      simpa [List.head?_reverse] using this
    simp [List.takeWhile_cons, hpre c this]

/-! non-vacuity: a stored `0` is present, an absent key is `None` -/
def demoCandle : Candle Int :=
  { o := .int 1, h := .int 1, l := .int 1, c := .int 1, v := .int 0, inds := [("COUNT_x", Val.int 0)] }
example : ((dlookup "COUNT_x" demoCandle.inds).map Val.isNone) = some false := by decide
example : dlookup "COUNT_y" demoCandle.inds = none := by decide

/-- **read_candle** at an index is `reading(name, index)` – the same computation for every index -/
theorem read_candle_eq_reading (s : IndState F) (i : Int) (name : Option String) :
    s.readCandleAt i name = s.ctx.reading (name.getD s.tree.name) (some i) :=
  Surf.readCandleAt_eq_reading s i name

/-- in range (positive or negative) it is direct inspection of the addressed candle = `reading_by_index` -/
theorem read_candle_in_range (s : IndState F) (i : Int) (name : Option String)
    (hlo : -(s.mgr.candles.length : Int) ≤ i) (hhi : i < s.mgr.candles.length) :
    ∃ hlt : Surf.normIdx i s.mgr.candles.length < s.mgr.candles.length,
      s.readCandleAt i name = .ok (readingByCandle s.mgr.candles[Surf.normIdx i s.mgr.candles.length] (name.getD s.tree.name)) ∧
      s.readCandleAt i name = .ok (readingByIndex s.mgr.candles (name.getD s.tree.name) i) ∧
      s.readCandleAt i name = .ok (s.readCandle s.mgr.candles[Surf.normIdx i s.mgr.candles.length] name) :=
  Surf.readCandleAt_in_range s i name hlo hhi

theorem read_candle_out_of_range (s : IndState F) (i : Int) (name : Option String)
    (h : ¬ (-(s.mgr.candles.length : Int) ≤ i ∧ i < s.mgr.candles.length)) :
    s.readCandleAt i name = .error .indexError := Surf.readCandleAt_out_of_range s i name h

/-- **Positive and negative indices address the same candle** (`read_candle`) -/
theorem read_candle_negative_index (s : IndState F) (i : Int) (name : Option String)
    (h0 : 0 ≤ i) (h1 : i < s.mgr.candles.length) :
    s.readCandleAt (i - s.mgr.candles.length) name = s.readCandleAt i name :=
  Surf.readCandleAt_negative_index s i name h0 h1

/-- `read_candle` on a candle of the list agrees with `reading` / `as_list` at its position -/
theorem read_candle_of_mem (s : IndState F) (c : Candle F) (name : Option String) (hc : c ∈ s.mgr.candles) :
    ∃ n : Nat, s.mgr.candles[n]? = some c ∧
      s.readCandleAt n name = .ok (s.readCandle c name) ∧
      s.readCandleAt ((n : Int) - s.mgr.candles.length) name = .ok (s.readCandle c name) ∧
      s.ctx.reading (name.getD s.tree.name) (some (n : Int)) = .ok (s.readCandle c name) ∧
      (s.asList name)[n]? = some (s.readCandle c name) := Surf.readCandle_of_mem s c name hc

/-- plain and dotted names: direct inspection of the candle's dicts -/
theorem read_candle_plain (s : IndState F) (c : Candle F) (name : String) (hk : IsKey name) :
    s.readCandle c (some name) = (Surf.lookupEntry c name).getD .none := Surf.readCandle_plain s c name hk
theorem read_candle_dotted (s : IndState F) (c : Candle F) (main fld : String) (hm : NoDot main) (hf : NoDot fld) :
    s.readCandle c (some (main ++ "." ++ fld)) =
      match Surf.lookupEntry c main with
      | some r => r.nested fld
      | none => .none := Surf.readCandle_dotted s c main fld hm hf

/-- **`utils.indexing`**: in range ⇔ `-len ≤ i < len`; `validate_index` keeps the index, `absindex` normalises it -/
theorem valid_index_iff (idx : Option Int) (n : Nat) :
    validIndexOpt idx n = true ↔ ∃ i, idx = some i ∧ -(n : Int) ≤ i ∧ i < n := Surf.validIndexOpt_iff idx n
theorem validate_index_iff (idx : Option Int) (n : Nat) (dflt j : Int) :
    validateIndex idx n dflt = some j ↔ (j = idx.getD dflt ∧ -(n : Int) ≤ j ∧ j < n) :=
  Surf.validateIndex_eq_some_iff idx n dflt j
theorem absindex_iff (i : Int) (n : Nat) (j : Int) :
    absIndexOpt (some i) n = some j ↔ (-(n : Int) ≤ i ∧ i < n ∧ j = Surf.normIdx i n) :=
  Surf.absIndex_eq_some_iff i n j
theorem absindex_none (n : Nat) : absIndexOpt none n = some ((n : Int) - 1) := rfl
theorem absindex_same_candle {α : Type} (l : List α) (i j : Int) (h : absIndexOpt (some i) l.length = some j) :
    0 ≤ j ∧ j < l.length ∧ pyIndex l j = pyIndex l i := Surf.absIndexOpt_spec l i j h

/-- **`Hexital.indicator`** is the registered member over its manager's candles -/
theorem hexital_indicator_inv (h : Hexital F) (name : String) (s : IndState F) (hs : h.indicator name = .ok s) :
    ∃ hi, dlookup name h.indicators = some hi ∧ dlookup hi.mgrKey h.managers = some s.mgr ∧
      s.tree = hi.tree ∧ s.active = hi.active := Surf.indicator_inv h name s hs

/-- **`Hexital.reading_as_list(name)`** is `as_list(name)` of the member registered under the primary name -/
theorem hexital_as_list_eq_indicator (h : Hexital F) (name : String) (s : IndState F)
    (hs : h.indicator ((splitDot name).headD "") = .ok s) :
    h.readingAsList name = .ok (s.asList (some name)) := Surf.readingAsList_eq_indicator h name s hs

/-- **`Hexital.reading`, the exact rule** (first non-`None` answer: default manager, then every manager in order) -/
theorem hexital_reading_spec (h : Hexital F) (name : String) (i : Int) (dm : Manager F)
    (hd : h.manager defaultKey = .ok dm) :
    h.reading name i = .ok (Surf.firstReading
      ((dm :: h.managers.map (·.2)).map fun m => readingByIndex m.candles name i)) :=
  Surf.hexital_reading_spec h name i dm hd

/-- **`Hexital.reading(name, i)` = the member's `reading(name, i)`** when no other manager holds a different
non-`None` value under `name` at `i` -/
theorem hexital_reading_eq_indicator (h : Hexital F) (nm name : String) (i : Int) (s : IndState F)
    (hs : h.indicator nm = .ok s) (dm : Manager F) (hd : h.manager defaultKey = .ok dm)
    (hall : ∀ p ∈ h.managers, (readingByIndex p.2.candles name i).isNone = true ∨
        readingByIndex p.2.candles name i = readingByIndex s.mgr.candles name i) :
    h.reading name i = .ok (readingByIndex s.mgr.candles name i) ∧
    (-(s.mgr.candles.length : Int) ≤ i → i < s.mgr.candles.length →
      h.reading name i = s.readCandleAt i (some name) ∧ h.reading name i = s.ctx.reading name (some i)) :=
  Surf.hexital_reading_eq_indicator h nm name i s hs dm hd hall

/-- **`Hexital.reading(name, None)` is `None`**, not the latest reading -/
theorem hexital_reading_none_index (h : Hexital F) (name : String) (dm : Manager F)
    (hd : h.manager defaultKey = .ok dm) : h.readingOpt name none = .ok .none := Surf.readingOpt_none h name dm hd

/-- **`find_indicator`** tests TRUTHINESS, not presence -/
theorem find_indicator_iff (cs : List (Candle F)) (name : String) :
    findIndicator cs name = true ↔ ∃ c ∈ cs, (readingByCandle c name).truthy = true := Surf.findIndicator_iff cs name
theorem find_indicator_misses_falsy_series (cs : List (Candle F)) (name : String)
    (hfalsy : ∀ c ∈ cs, (readingByCandle c name).truthy = false)
    (hpresent : ∀ c ∈ cs, (readingByCandle c name).isNone = false) :
    findIndicator cs name = false ∧ readingCount cs name = cs.length ∧
    (cs ≠ [] → (readingByIndex cs name (-1)).isNone = false) :=
  Surf.findIndicator_misses_falsy_series cs name hfalsy hpresent

end Hex.C20

import HexProofs.Resume.FindCalcIndex
import HexProofs.Footprint.Kinds
/-
C07 – Work per appended candle is constant.
What is proved (every float carrier `F`): (1) after warm-up the resume logic makes every indicator
node compute exactly ONE reading per appended (or merged) candle, whatever the history length,
and a complete list triggers no computation at all; (2) **bounded footprint**: for every read-only
indicator class (all 14 leaf classes incl. `Amorph` over the 20 analysis functions, and the own readings
of ATR, BBANDS, KC, STDEVTHRES) that one reading is a function of the last `W + 1` candles only, `W = window k`
a function of the parameters alone (`bounded_footprint`, `newest_reading_reads_window`) – candles older than
`index − W` are never looked at, however long the history.
What is NOT a theorem: the footprint of the nine kinds whose step also WRITES helper series (HMA, STDEV,
Supertrend, RSI, MACD, STOCH, TSI, ADX, VWAP: `window k = none`; measured on the real code with a recording
list and `sys.setprofile`, see hx/oracles/framework.py), the candle manager's own O(n) re-walk of the list on
every append (outside the property's statement, which is about indicator work) and wall-clock cost.
Status: partial, by nature (DESIGN.md, C07).
-/
namespace Hex.C07
open Hex
variable {F : Type} [PyF F]

/-- number of loop iterations `calculate` performs for the node named `name` -/
def loopCount (name : String) (cs : List (Candle F)) : Nat := cs.length - findCalcIndex name cs

/-- **One reading per appended candle.**  With at least one finished candle, appending one fresh
candle makes the loop run exactly once – independently of how long the history is. -/
theorem one_reading_per_append (name : String) (done : List (Candle F)) (c : Candle F)
    (hdone : ∀ d ∈ done, hasKey name d = true) (hc : hasKey name c = false) (h2 : 1 ≤ done.length) :
    findCalcIndex name (done ++ [c]) = done.length ∧ loopCount name (done ++ [c]) = 1 := by
  have h := findCalcIndex_resume name done [c] ⟨hdone, by simpa using hc⟩ h2
  exact ⟨h, by simp [loopCount, h]⟩

/-- **k fresh candles, k readings.** -/
theorem k_readings_for_k_candles (name : String) (done fresh : List (Candle F))
    (hdone : ∀ d ∈ done, hasKey name d = true) (hf : ∀ c ∈ fresh, hasKey name c = false)
    (h2 : 1 ≤ done.length) : loopCount name (done ++ fresh) = fresh.length := by
  have h := findCalcIndex_resume name done fresh ⟨hdone, hf⟩ h2
  simp [loopCount, h]

/-- **A merged bucket is fresh again**: `Candle.merge` wipes every reading, so with a collapsing
timeframe the (single) merged last bucket is recomputed and nothing else. -/
theorem merge_clears_keys (a b : Candle F) (name : String) : hasKey name (a.merge b) = false := by
  simp [hasKey, dhas, Candle.merge, Candle.reset, dlookup]

/-- **No work on a complete list.** -/
theorem no_work_when_complete (name : String) (cs : List (Candle F))
    (h : ∀ d ∈ cs, hasKey name d = true) (h2 : 1 ≤ cs.length) : loopCount name cs = 0 := by
  have := findCalcIndex_resume name cs [] ⟨h, by simp⟩ h2
  simp only [List.append_nil] at this
  simp [loopCount, this]

/-- the loop with a zero count returns the candles untouched (given fuel) -/
theorem calcLoop_zero (f : Nat) (ind : Ind F) (cs : List (Candle F)) (k : Nat) :
    calcLoop (f + 1) ind cs k 0 = .ok cs := by
  simp [calcLoop]

/-- one loop iteration at an index whose reading is absent is exactly one `_calculate_reading`
followed by one store -/
theorem calcLoop_one (f : Nat) (ind : Ind F) (cs : List (Candle F)) (k : Nat) (c : Candle F)
    (hc : pyIndex cs k = .ok c) (habs : dlookup ind.name c.inds = none) :
    calcLoop (f + 2) ind cs k 1 = (do
      let (v, cs') ← calcReading (f + 1) ind cs k
      setReading ind.isSub ind.name cs' k (v.roundBy ind.round)) := by
  simp only [calcLoop, hc, habs, bind, Except.bind, pure, Except.pure]
  cases calcReading (f + 1) ind cs k with
  | error e => rfl
  | ok p =>
    obtain ⟨v, cs'⟩ := p
    simp only
    cases setReading ind.isSub ind.name cs' k (v.roundBy ind.round) <;> rfl

/-! ### bounded footprint of one reading -/

/-- **A reading at index `i` touches only candles `i − W … i`**: dropping any `d` older candles
(`d + W ≤ i`) leaves it unchanged – for every kind with `window k = some W` (every read-only kind,
`window_isSome_iff`), every list, every index; no reachable-state hypothesis is needed. -/
theorem bounded_footprint (k : Kind F) (W : Nat) (hw : Hex.window k = some W) (cs : List (Candle F)) (i : Int)
    (nm : String) (d : Nat) (hd : (d : Int) + W ≤ i) (hi : i < cs.length) :
    readKind k { cs := cs, i := i, name := nm } = readKind k { cs := cs.drop d, i := i - d, name := nm } :=
  footprint k W hw cs i nm d hd hi

/-- **The newest reading is a function of the last `W + 1` candles**, whatever the history length. -/
theorem newest_reading_reads_window (k : Kind F) (W : Nat) (hw : Hex.window k = some W) (nm : String) :
    ∃ g : List (Candle F) → PyM (Val F), ∀ cs : List (Candle F), W < cs.length →
      (cs.drop (cs.length - 1 - W)).length = W + 1 ∧
      readKind k { cs := cs, i := (cs.length : Int) - 1, name := nm } = g (cs.drop (cs.length - 1 - W)) :=
  newest_reading_is_window_function k W hw nm

/-- the window is defined exactly for the read-only kinds -/
theorem window_defined_iff_readOnly (k : Kind F) : (Hex.window k).isSome = k.readOnly := window_isSome_iff k

/-- the windows are functions of the parameters only, e.g. SMA 20 → 20, EMA 20 → 19, Aroon 14 → 14, doji → 10 -/
example : Hex.window (F := F) (.sma 20 "close") = some 20 ∧ Hex.window (F := F) (.ema 20 "close" (.int 2)) = some 19
    ∧ Hex.window (F := F) (.aroon 14) = some 14 ∧ Hex.window (F := F) (.amorph (.doji none)) = some 10 := by
  refine ⟨rfl, rfl, rfl, rfl⟩

end Hex.C07

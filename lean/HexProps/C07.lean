import HexProofs.Resume.FindCalcIndex
/-
C07 – Work per appended candle is constant.
What is proved (every float carrier `F`): after warm-up the resume logic makes every indicator
node compute exactly ONE reading per appended (or merged) candle, whatever the history length,
and a complete list triggers no computation at all.  What is NOT a theorem: the size of the
look-back window each `_calculate_reading` touches (it is bounded by the indicator's periods –
measured on the real code with a recording list and `sys.setprofile`, see hx/oracles/framework.py)
and wall-clock cost.  Status: partial, by nature (DESIGN.md, C07).
-/
namespace Hex.C07
open Hex
variable {F : Type} [PyF F]

/-- number of loop iterations `calculate` performs for the node named `name` -/
def loopCount (name : String) (cs : List (Candle F)) : Nat := cs.length - findCalcIndex name cs

/-- **One reading per appended candle.**  With at least one finished candle, appending one fresh
candle makes the loop run exactly once – independently of how long the history is. -/
theorem one_reading_per_append (name : String) (done : List (Candle F)) (c : Candle F)
    (hdone : ∀ d ∈ done, hasKey name d = true) (hc : hasKey name c = false) (h2 : 1 ≤ done.length) :
    findCalcIndex name (done ++ [c]) = done.length ∧ loopCount name (done ++ [c]) = 1 := by
  have h := findCalcIndex_resume name done [c] ⟨hdone, by simpa using hc⟩ h2
  exact ⟨h, by simp [loopCount, h]⟩

/-- **k fresh candles, k readings.** -/
theorem k_readings_for_k_candles (name : String) (done fresh : List (Candle F))
    (hdone : ∀ d ∈ done, hasKey name d = true) (hf : ∀ c ∈ fresh, hasKey name c = false)
    (h2 : 1 ≤ done.length) : loopCount name (done ++ fresh) = fresh.length := by
  have h := findCalcIndex_resume name done fresh ⟨hdone, hf⟩ h2
  simp [loopCount, h]

/-- **A merged bucket is fresh again**: `Candle.merge` wipes every reading, so with a collapsing
timeframe the (single) merged last bucket is recomputed and nothing else. -/
theorem merge_clears_keys (a b : Candle F) (name : String) : hasKey name (a.merge b) = false := by
  simp [hasKey, dhas, Candle.merge, Candle.reset, dlookup]

/-- **No work on a complete list.** -/
theorem no_work_when_complete (name : String) (cs : List (Candle F))
    (h : ∀ d ∈ cs, hasKey name d = true) (h2 : 1 ≤ cs.length) : loopCount name cs = 0 := by
  have := findCalcIndex_resume name cs [] ⟨h, by simp⟩ h2
  simp only [List.append_nil] at this
  simp [loopCount, this]

/-- the loop with a zero count returns the candles untouched (given fuel) -/
theorem calcLoop_zero (f : Nat) (ind : Ind F) (cs : List (Candle F)) (k : Nat) :
    calcLoop (f + 1) ind cs k 0 = .ok cs := by
  simp [calcLoop]

/-- one loop iteration at an index whose reading is absent is exactly one `_calculate_reading`
followed by one store -/
theorem calcLoop_one (f : Nat) (ind : Ind F) (cs : List (Candle F)) (k : Nat) (c : Candle F)
    (hc : pyIndex cs k = .ok c) (habs : dlookup ind.name c.inds = none) :
    calcLoop (f + 2) ind cs k 1 = (do
      let (v, cs') ← calcReading (f + 1) ind cs k
      setReading ind.isSub ind.name cs' k (v.roundBy ind.round)) := by
  simp only [calcLoop, hc, habs, bind, Except.bind, pure, Except.pure]
  cases calcReading (f + 1) ind cs k with
  | error e => rfl
  | ok p =>
    obtain ⟨v, cs'⟩ := p
    simp only
    cases setReading ind.isSub ind.name cs' k (v.roundBy ind.round) <;> rfl

end Hex.C07

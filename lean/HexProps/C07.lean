import HexProofs.Resume.FindCalcIndex
import HexProofs.Footprint.TreesTf
import HexProofs.Footprint.Kinds
import HexProofs.Footprint.Trees
/-
C07 – Work per appended candle is constant.
What is proved (every float carrier `F`): (1) after warm-up the resume logic makes every indicator
node compute exactly ONE reading per appended (or merged) candle, whatever the history length,
and a complete list triggers no computation at all; (2) **bounded footprint**: for every read-only
indicator class (all 14 leaf classes incl. `Amorph` over the 20 analysis functions, and the own readings
of ATR, BBANDS, KC, STDEVTHRES) that one reading is a function of the last `W + 1` candles only, `W = window k`
a function of the parameters alone (`bounded_footprint`, `newest_reading_reads_window`) – candles older than
`index − W` are never looked at, however long the history.
(3) **bounded footprint for ALL 27 classes** (`CoveredTreeX`, the nine kinds whose step also WRITES helper series or drives
managed children included: HMA, STDEV, Supertrend, RSI, MACD, STOCH, TSI, ADX, VWAP): on a finished list with fresh candles
appended, dropping any `d` old candles that leave `lookback k` finished ones gives EXACTLY the full result minus those candles –
same candles (readings, helper series, `_data` series) or the same exception (`bounded_footprint_trees`, an equation in `PyM`);
the new candle is a function of the last `lookback k` finished candles and the appended one (`newest_reading_reads_window_trees`,
`new_candles_window_function_trees`); an append of one candle changes exactly one candle (`append_one_changes_one_trees`);
`lookback k` is a closed form in the PARAMETERS (`lookback_params_only`).
What is NOT a theorem: call / instruction counts (measured on the real code with a recording list and `sys.setprofile`, see
hx/oracles/framework.py), the candle manager's own O(n) re-walk of the list on every append (outside the property's statement,
which is about indicator work), wall-clock cost; object-level forms on the base timeframe and – in BUCKETS – on a collapsing timeframe and timeframe + fill (`bounded_footprint_timeframe`,
`append_one_recomputes_one_bucket_timeframe`, `append_timeframe_touches_only_new`: a raw candle that merges into the forming bucket or opens a
new one recomputes exactly that bucket, as a function of the last `lookback k` closed buckets) (the engine-level theorems are
manager-agnostic).
Status: partial, by nature (DESIGN.md, C07).
-/
namespace Hex.C07
open Hex
variable {F : Type} [PyF F]

/-- number of loop iterations `calculate` performs for the node named `name` -/
def loopCount (name : String) (cs : List (Candle F)) : Nat := cs.length - findCalcIndex name cs

/-- **One reading per appended candle.**  With at least one finished candle, appending one fresh
candle makes the loop run exactly once – independently of how long the history is. -/
theorem one_reading_per_append (name : String) (done : List (Candle F)) (c : Candle F)
    (hdone : ∀ d ∈ done, hasKey name d = true) (hc : hasKey name c = false) (h2 : 1 ≤ done.length) :
    findCalcIndex name (done ++ [c]) = done.length ∧ loopCount name (done ++ [c]) = 1 := by
  have h := findCalcIndex_resume name done [c] ⟨hdone, by simpa using hc⟩ h2
  exact ⟨h, by simp [loopCount, h]⟩

/-- **k fresh candles, k readings.** -/
theorem k_readings_for_k_candles (name : String) (done fresh : List (Candle F))
    (hdone : ∀ d ∈ done, hasKey name d = true) (hf : ∀ c ∈ fresh, hasKey name c = false)
    (h2 : 1 ≤ done.length) : loopCount name (done ++ fresh) = fresh.length := by
  have h := findCalcIndex_resume name done fresh ⟨hdone, hf⟩ h2
  simp [loopCount, h]

/-- **A merged bucket is fresh again**: `Candle.merge` wipes every reading, so with a collapsing
timeframe the (single) merged last bucket is recomputed and nothing else. -/
theorem merge_clears_keys (a b : Candle F) (name : String) : hasKey name (a.merge b) = false := by
  simp [hasKey, dhas, Candle.merge, Candle.reset, dlookup]

/-- **No work on a complete list.** -/
theorem no_work_when_complete (name : String) (cs : List (Candle F))
    (h : ∀ d ∈ cs, hasKey name d = true) (h2 : 1 ≤ cs.length) : loopCount name cs = 0 := by
  have := findCalcIndex_resume name cs [] ⟨h, by simp⟩ h2
  simp only [List.append_nil] at this
  simp [loopCount, this]

/-- the loop with a zero count returns the candles untouched (given fuel) -/
theorem calcLoop_zero (f : Nat) (ind : Ind F) (cs : List (Candle F)) (k : Nat) :
    calcLoop (f + 1) ind cs k 0 = .ok cs := by
  simp [calcLoop]

/-- one loop iteration at an index whose reading is absent is exactly one `_calculate_reading`
followed by one store -/
theorem calcLoop_one (f : Nat) (ind : Ind F) (cs : List (Candle F)) (k : Nat) (c : Candle F)
    (hc : pyIndex cs k = .ok c) (habs : dlookup ind.name c.inds = none) :
    calcLoop (f + 2) ind cs k 1 = (do
      let (v, cs') ← calcReading (f + 1) ind cs k
      setReading ind.isSub ind.name cs' k (v.roundBy ind.round)) := by
  simp only [calcLoop, hc, habs, bind, Except.bind, pure, Except.pure]
  cases calcReading (f + 1) ind cs k with
  | error e => rfl
  | ok p =>
    obtain ⟨v, cs'⟩ := p
    simp only
    cases setReading ind.isSub ind.name cs' k (v.roundBy ind.round) <;> rfl

/-! ### bounded footprint of one reading -/

/-- **A reading at index `i` touches only candles `i − W … i`**: dropping any `d` older candles
(`d + W ≤ i`) leaves it unchanged – for every kind with `window k = some W` (every read-only kind,
`window_isSome_iff`), every list, every index; no reachable-state hypothesis is needed. -/
theorem bounded_footprint (k : Kind F) (W : Nat) (hw : Hex.window k = some W) (cs : List (Candle F)) (i : Int)
    (nm : String) (d : Nat) (hd : (d : Int) + W ≤ i) (hi : i < cs.length) :
    readKind k { cs := cs, i := i, name := nm } = readKind k { cs := cs.drop d, i := i - d, name := nm } :=
  footprint k W hw cs i nm d hd hi

/-- **The newest reading is a function of the last `W + 1` candles**, whatever the history length. -/
theorem newest_reading_reads_window (k : Kind F) (W : Nat) (hw : Hex.window k = some W) (nm : String) :
    ∃ g : List (Candle F) → PyM (Val F), ∀ cs : List (Candle F), W < cs.length →
      (cs.drop (cs.length - 1 - W)).length = W + 1 ∧
      readKind k { cs := cs, i := (cs.length : Int) - 1, name := nm } = g (cs.drop (cs.length - 1 - W)) :=
  newest_reading_is_window_function k W hw nm

/-- the window is defined exactly for the read-only kinds -/
theorem window_defined_iff_readOnly (k : Kind F) : (Hex.window k).isSome = k.readOnly := window_isSome_iff k

/-- the windows are functions of the parameters only, e.g. SMA 20 → 20, EMA 20 → 19, Aroon 14 → 14, doji → 10 -/
example : Hex.window (F := F) (.sma 20 "close") = some 20 ∧ Hex.window (F := F) (.ema 20 "close" (.int 2)) = some 19
    ∧ Hex.window (F := F) (.aroon 14) = some 14 ∧ Hex.window (F := F) (.amorph (.doji none)) = some 10 := by
  refine ⟨rfl, rfl, rfl, rfl⟩

/-! ### bounded footprint for EVERY class (the nine helper-writing classes included) -/

/-- look-back of a class: a closed form in the parameters (`Hex.lookback`), equal to `treeLook` whatever
the name, the rounding, the data and the history length -/
theorem lookback_params_only (k : Kind F) (name : String) (round : Nat) :
    treeLook k name round = lookback k := treeLook_eq k name round

/-- **History-length independence, every class** (`CoveredTreeX`): on a finished list (`CalcFull`: the state
after `calculate()` returned, `finished_after_calculate`) with fresh candles `ch` appended, dropping any `d`
old candles that leave `lookback k` finished ones gives EXACTLY the full result minus those candles – same
candles (readings, helper series, `_data` series) or the same exception. -/
theorem bounded_footprint_trees (k : Kind F) (name : String) (round : Nat) (hc : CoveredTreeX name k)
    (done ch : List (Candle F)) (d : Nat) (hfin : CalcFull (mkTop k name round) done)
    (hp : ∀ c ∈ ch, Plain c) (hkeep : d + lookback k ≤ done.length) :
    engineCalc (mkTop k name round) (done.drop d ++ ch)
      = (engineCalc (mkTop k name round) (done ++ ch)).map (·.drop d) :=
  _root_.Hex.bounded_footprint_trees k name round hc done ch d hfin hp hkeep

/-- **The newest candle is a function of the last `lookback k` finished candles and the appended one**:
two finished histories of any lengths agreeing on their last `lookback k` candles give the same new candle
(or the same exception). -/
theorem newest_reading_reads_window_trees (k : Kind F) (name : String) (round : Nat)
    (hc : CoveredTreeX name k) (done₁ done₂ : List (Candle F)) (x : Candle F)
    (h₁ : CalcFull (mkTop k name round) done₁) (h₂ : CalcFull (mkTop k name round) done₂) (hp : Plain x)
    (hL₁ : lookback k ≤ done₁.length) (hL₂ : lookback k ≤ done₂.length)
    (hw : done₁.drop (done₁.length - lookback k) = done₂.drop (done₂.length - lookback k)) :
    (engineCalc (mkTop k name round) (done₁ ++ [x])).map List.getLast?
      = (engineCalc (mkTop k name round) (done₂ ++ [x])).map List.getLast? :=
  _root_.Hex.newest_reading_reads_window_trees k name round hc done₁ done₂ x h₁ h₂ hp hL₁ hL₂ hw

/-- … as ONE function `g` of `lookback k` candles and the fresh ones, valid for every history -/
theorem new_candles_window_function_trees (k : Kind F) (name : String) (round : Nat)
    (hc : CoveredTreeX name k) :
    ∃ g : List (Candle F) → List (Candle F) → PyM (List (Candle F)),
      ∀ done ch : List (Candle F), CalcFull (mkTop k name round) done → (∀ c ∈ ch, Plain c) →
        lookback k ≤ done.length →
        (done.drop (done.length - lookback k)).length = lookback k ∧
        (engineCalc (mkTop k name round) (done ++ ch)).map (·.drop done.length)
          = g (done.drop (done.length - lookback k)) ch :=
  _root_.Hex.new_candles_window_function_trees k name round hc

/-- **One appended candle changes exactly one candle**: every earlier candle is returned as it was. -/
theorem append_one_changes_one_trees (k : Kind F) (name : String) (round : Nat) (hc : CoveredTreeX name k)
    (done out : List (Candle F)) (x : Candle F) (hfin : CalcFull (mkTop k name round) done) (hp : Plain x)
    (h : engineCalc (mkTop k name round) (done ++ [x]) = .ok out) :
    ∃ x', out = done ++ [x'] ∧ hasKey name x' = true ∧ hasKey name x = false :=
  _root_.Hex.append_one_changes_one_trees k name round hc done out x hfin hp h

/-- the state after `calculate()` over raw candles is finished (and stays so through appends:
`Hex.finished_append`, `Hex.run_finished`) -/
theorem finished_after_calculate (k : Kind F) (name : String) (round : Nat) (hc : CoveredTreeX name k)
    (raw done : List (Candle F)) (hp : ∀ c ∈ raw, Plain c) (h : engineCalc (mkTop k name round) raw = .ok done) :
    CalcFull (mkTop k name round) done :=
  finished_of_engine_trees k name round hc raw done hp h

/-- the object (`Indicator.append` on the base timeframe) after ANY two append schedules -/
theorem newest_reading_reads_window_object (k : Kind F) (name : String) (round : Nat)
    (hc : CoveredTreeX name k) (init₁ init₂ : List (Candle F)) (chunks₁ chunks₂ : List (List (Candle F)))
    (hp₁ : ∀ c ∈ init₁ ++ chunks₁.flatten, Plain c) (hp₂ : ∀ c ∈ init₂ ++ chunks₂.flatten, Plain c)
    (st₁ st₂ : IndState F) (hr₁ : runIndicator (mkTop k name round) {} init₁ chunks₁ = .ok st₁)
    (hr₂ : runIndicator (mkTop k name round) {} init₂ chunks₂ = .ok st₂) (x : Candle F) (hx : Plain x)
    (hL₁ : treeLook k name round ≤ st₁.mgr.candles.length)
    (hL₂ : treeLook k name round ≤ st₂.mgr.candles.length)
    (hw : st₁.mgr.candles.drop (st₁.mgr.candles.length - treeLook k name round)
        = st₂.mgr.candles.drop (st₂.mgr.candles.length - treeLook k name round)) :
    (candlesOf (st₁.append [x])).map List.getLast? = (candlesOf (st₂.append [x])).map List.getLast? :=
  run_newest_candle_agrees _ (hc.twinOK round) (shallow_mkTop k name round) init₁ init₂ chunks₁ chunks₂
    hp₁ hp₂ st₁ st₂ hr₁ hr₂ x hx hL₁ hL₂ hw

/-! ### bounded footprint of the OBJECT on a re-collapsing manager (collapsing timeframe `TwinMgr.tf`, timeframe +
gap filling `TwinMgr.fill`; HexProofs/Footprint/TreesTf.lean).  `mgrState M ind done act` = the object holding the
manager's buckets `done`; `M.closed s new` = the number of buckets the raw chunk `new` leaves closed. -/

/-- **`Indicator.append` on a timeframe is the engine on `closed buckets ++ Q`**, `Q` reading-free: the re-opened
(merged – `merge_clears_keys`) bucket and the new ones -/
theorem append_on_timeframe (M : TwinMgr F) (ind : Ind F) (s new done : List (Candle F)) (hok : M.Ok (s ++ new))
    (hne : new ≠ []) (hd : Dressed (M.spec s) done) :
    ∃ Q : List (Candle F), (∀ c ∈ Q, Plain c) ∧ M.closed s new ≤ done.length ∧
      done.length ≤ M.closed s new + Q.length ∧
      M.spec (s ++ new) = (M.spec s).take (M.closed s new) ++ Q ∧
      Q = (M.spec (s ++ new)).drop (M.closed s new) ∧
      (∀ act, candlesOf ((mgrState M ind done act).append new)
        = engineCalc ind (done.take (M.closed s new) ++ Q)) ∧
      ∀ d act, d + 1 ≤ M.closed s new →
        candlesOf ((mgrState M ind (done.drop d) act).append new)
          = engineCalc ind ((done.take (M.closed s new) ++ Q).drop d) :=
  append_mgr M ind s new done hok hne hd

/-- **History-length independence in BUCKETS, every class**: the object holding only `done.drop d` (`lookback k`
closed buckets left) appends to exactly the full object's result minus those `d` buckets, or raises the same
exception -/
theorem bounded_footprint_timeframe (k : Kind F) (name : String) (round : Nat) (hc : CoveredTreeX name k)
    (M : TwinMgr F) (s new done : List (Candle F)) (d : Nat) (a₁ a₂ : Int)
    (hok : M.Ok (s ++ new)) (hne : new ≠ []) (hd : Dressed (M.spec s) done)
    (hfin : CalcFull (mkTop k name round) done) (hkeep : d + lookback k ≤ M.closed s new) :
    candlesOf ((mgrState M (mkTop k name round) (done.drop d) a₁).append new)
      = (candlesOf ((mgrState M (mkTop k name round) done a₂).append new)).map (·.drop d) :=
  bounded_footprint_mgr k name round hc M s new done d a₁ a₂ hok hne hd hfin hkeep

/-- **The recomputed buckets are ONE function of the last `lookback k` closed buckets and of the re-opened (merged)
bucket / the new buckets**, for every history, every class -/
theorem new_buckets_window_function_timeframe (k : Kind F) (name : String) (round : Nat) (hc : CoveredTreeX name k)
    (M : TwinMgr F) :
    ∃ g : List (Candle F) → List (Candle F) → PyM (List (Candle F)),
      ∀ (s new done : List (Candle F)) (act : Int), M.Ok (s ++ new) → new ≠ [] → Dressed (M.spec s) done →
        CalcFull (mkTop k name round) done → lookback k ≤ M.closed s new →
        ((done.take (M.closed s new)).drop (M.closed s new - lookback k)).length = lookback k ∧
        (candlesOf ((mgrState M (mkTop k name round) done act).append new)).map (·.drop (M.closed s new))
          = g ((done.take (M.closed s new)).drop (M.closed s new - lookback k))
              ((M.spec (s ++ new)).drop (M.closed s new)) :=
  new_buckets_window_function_mgr k name round hc M

/-- … two histories of any lengths agreeing on those give the same new buckets -/
theorem new_buckets_agree_timeframe (k : Kind F) (name : String) (round : Nat) (hc : CoveredTreeX name k)
    (M : TwinMgr F) (s₁ s₂ new₁ new₂ done₁ done₂ : List (Candle F)) (a₁ a₂ : Int)
    (hok₁ : M.Ok (s₁ ++ new₁)) (hok₂ : M.Ok (s₂ ++ new₂)) (hne₁ : new₁ ≠ []) (hne₂ : new₂ ≠ [])
    (hd₁ : Dressed (M.spec s₁) done₁) (hd₂ : Dressed (M.spec s₂) done₂)
    (hf₁ : CalcFull (mkTop k name round) done₁) (hf₂ : CalcFull (mkTop k name round) done₂)
    (hL₁ : lookback k ≤ M.closed s₁ new₁) (hL₂ : lookback k ≤ M.closed s₂ new₂)
    (hw : (done₁.take (M.closed s₁ new₁)).drop (M.closed s₁ new₁ - lookback k)
        = (done₂.take (M.closed s₂ new₂)).drop (M.closed s₂ new₂ - lookback k))
    (hq : (M.spec (s₁ ++ new₁)).drop (M.closed s₁ new₁) = (M.spec (s₂ ++ new₂)).drop (M.closed s₂ new₂)) :
    (candlesOf ((mgrState M (mkTop k name round) done₁ a₁).append new₁)).map (·.drop (M.closed s₁ new₁))
      = (candlesOf ((mgrState M (mkTop k name round) done₂ a₂).append new₂)).map (·.drop (M.closed s₂ new₂)) :=
  append_mgr_new_buckets_agree M _ (twinOK_lookback k name round hc) (shallow_mkTop k name round)
    s₁ s₂ new₁ new₂ done₁ done₂ a₁ a₂ hok₁ hok₂ hne₁ hne₂ hd₁ hd₂ hf₁ hf₂ hL₁ hL₂ hw hq

/-- **One raw candle on a collapsing timeframe recomputes exactly ONE bucket** – the forming one it is merged into,
or the new one it opens; every closed bucket is returned as it was, however many there are -/
theorem append_one_recomputes_one_bucket_timeframe (k : Kind F) (name : String) (round : Nat)
    (hc : CoveredTreeX name k) (tf : Int) (htf : 0 < tf) (s done : List (Candle F)) (x : Candle F)
    (act : Int) (hok : RawTf (s ++ [x])) (hd : Dressed (resample tf s) done)
    (hfin : CalcFull (mkTop k name round) done) (out : List (Candle F))
    (h : candlesOf ((mgrState (TwinMgr.tf F tf htf) (mkTop k name round) done act).append [x]) = .ok out) :
    (closedOf tf (resample tf s) [x] = done.length ∨ closedOf tf (resample tf s) [x] + 1 = done.length) ∧
    ∃ q', out = done.take (closedOf tf (resample tf s) [x]) ++ [q'] ∧ hasKey name q' = true :=
  _root_.Hex.append_one_recomputes_one_bucket k name round hc tf htf s done x act hok hd hfin out h

/-- with gap filling (and for chunks of several candles): the closed buckets are returned as they were, only the
re-opened / new / filled ones are computed -/
theorem append_timeframe_touches_only_new (k : Kind F) (name : String) (round : Nat) (hc : CoveredTreeX name k)
    (M : TwinMgr F) (s new done : List (Candle F)) (act : Int) (hok : M.Ok (s ++ new)) (hne : new ≠ [])
    (hd : Dressed (M.spec s) done) (hfin : CalcFull (mkTop k name round) done) (out : List (Candle F))
    (h : candlesOf ((mgrState M (mkTop k name round) done act).append new) = .ok out) :
    ∃ fresh, out = done.take (M.closed s new) ++ fresh ∧
      fresh.length = ((M.spec (s ++ new)).drop (M.closed s new)).length ∧
      (∀ c ∈ fresh, hasKey name c = true) ∧
      (∀ c ∈ (M.spec (s ++ new)).drop (M.closed s new), hasKey name c = false) ∧
      Dressed (M.spec (s ++ new)) out ∧ CalcFull (mkTop k name round) out := by
  have := append_mgr_touches_only_new M (mkTop k name round) (hc.twinOK round) s new done act hok hne hd hfin out h
  simpa [mkTop, Ind.name] using this

/-- the state after ANY returned run on such a manager is dressed and finished (the hypotheses above) -/
theorem finished_after_run_timeframe (k : Kind F) (name : String) (round : Nat) (hc : CoveredTreeX name k)
    (M : TwinMgr F) (init : List (Candle F)) (chunks : List (List (Candle F)))
    (hok : M.Ok (init ++ chunks.flatten)) (st : IndState F)
    (h : runIndicator (mkTop k name round) M.cfg init chunks = .ok st) :
    ∃ out act, st = mgrState M (mkTop k name round) out act ∧
      Dressed (M.spec (init ++ chunks.flatten)) out ∧ CalcFull (mkTop k name round) out :=
  run_finished_mgr k name round hc M init chunks hok st h

end Hex.C07
